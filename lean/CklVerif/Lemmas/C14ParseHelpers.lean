/-
  C14 / C20 (parser half) — congruence lemmas for the token-stream helpers of `ParserBase.lean`:
  on related lexer states they take the same decisions and leave related states.
-/
import CklVerif.Lemmas.C14ParseBase
namespace Ckl.C14P
open Ckl Ckl.Parser

local notation "kw" => (some TokType.keyword)
local notation "ip" => (some TokType.interpunction)
local notation "op" => (some TokType.operator)
local notation "idt" => (some TokType.identifier)

set_option linter.unusedSimpArgs false

variable {f : Pos → Pos}

theorem SRel.eq {s s' : St} (h : SRel f s s') : s' = ⟨f s.prev, s.toks.map (tokMap f)⟩ := by
  obtain ⟨p', ts'⟩ := s'
  obtain ⟨h1, h2⟩ := h
  simp only at h1 h2
  subst h1 h2
  rfl

@[simp] theorem SRel.mk' (f : Pos → Pos) (p : Pos) (ts : List Token) :
    SRel f ⟨p, ts⟩ ⟨f p, ts.map (tokMap f)⟩ := ⟨rfl, rfl⟩

@[elab_as_elim] theorem SRel.elim_cases {motive : St → St → Prop} {s s' : St} (h : SRel f s s')
    (nil : ∀ p, motive ⟨p, []⟩ ⟨f p, []⟩)
    (cons : ∀ p t rest, motive ⟨p, t :: rest⟩ ⟨f p, tokMap f t :: rest.map (tokMap f)⟩) : motive s s' := by
  obtain ⟨p, ts⟩ := s
  obtain rfl := h.eq
  cases ts with
  | nil => exact nil p
  | cons t rest => exact cons p t rest

@[elab_as_elim] theorem SRel.elim_cases2 {motive : St → St → Prop} {s s' : St} (h : SRel f s s')
    (nil : ∀ p, motive ⟨p, []⟩ ⟨f p, []⟩)
    (one : ∀ p t, motive ⟨p, [t]⟩ ⟨f p, [tokMap f t]⟩)
    (cons : ∀ p t t2 rest, motive ⟨p, t :: t2 :: rest⟩ ⟨f p, tokMap f t :: tokMap f t2 :: rest.map (tokMap f)⟩) :
    motive s s' := by
  obtain ⟨p, ts⟩ := s
  obtain rfl := h.eq
  rcases ts with _ | ⟨t1, _ | ⟨t2, rest⟩⟩
  · exact nil p
  · exact one p t1
  · exact cons p t1 t2 rest

@[elab_as_elim] theorem SRel.elim_cases3 {motive : St → St → Prop} {s s' : St} (h : SRel f s s')
    (nil : ∀ p, motive ⟨p, []⟩ ⟨f p, []⟩)
    (one : ∀ p t, motive ⟨p, [t]⟩ ⟨f p, [tokMap f t]⟩)
    (two : ∀ p t t2, motive ⟨p, [t, t2]⟩ ⟨f p, [tokMap f t, tokMap f t2]⟩)
    (cons : ∀ p t t2 t3 rest, motive ⟨p, t :: t2 :: t3 :: rest⟩
      ⟨f p, tokMap f t :: tokMap f t2 :: tokMap f t3 :: rest.map (tokMap f)⟩) :
    motive s s' := by
  obtain ⟨p, ts⟩ := s
  obtain rfl := h.eq
  rcases ts with _ | ⟨t1, _ | ⟨t2, _ | ⟨t3, rest⟩⟩⟩
  · exact nil p
  · exact one p t1
  · exact two p t1 t2
  · exact cons p t1 t2 t3 rest

@[simp] theorem tokIs_map (f : Pos → Pos) (t : Token) (v : List Char) (ty : Option TokType) :
    St.tokIs (tokMap f t) v ty = St.tokIs t v ty := by cases ty <;> rfl

@[simp] theorem tokRepr_map (f : Pos → Pos) (t : Token) : tokRepr (tokMap f t) = tokRepr t := rfl

theorem hasNext_rel {s s' : St} (h : SRel f s s') : s'.hasNext = s.hasNext := by
  simp [St.hasNext, h.toks]

theorem posNext_rel {s s' : St} (h : SRel f s s') : s'.posNext = f s.posNext := by
  refine h.elim_cases (fun p => ?_) (fun p t rest => ?_) <;> rfl

theorem peekn_rel {s s' : St} (h : SRel f s s') (n : Nat) (v : List Char) (ty : Option TokType) :
    s'.peekn n v ty = s.peekn n v ty := by
  simp only [St.peekn, h.toks, List.getElem?_map]
  cases s.toks[n - 1]? <;> simp

theorem next_rel {c c' : Ctx} {s s' : St} (hc : CRel f c c') (h : SRel f s s') :
    ERel f (OLt f (fun t t' => t' = tokMap f t)) (s.next c) (s'.next c') := by
  refine h.elim_cases (fun p => ?_) (fun p t rest => ?_)
  · exact errEof_rel hc.endPos
  · exact ⟨rfl, SRel.mk' f _ _⟩

theorem peek_rel {c c' : Ctx} {s s' : St} (hc : CRel f c c') (h : SRel f s s') :
    ERel f (fun t t' => t' = tokMap f t) (s.peek c) (s'.peek c') := by
  refine h.elim_cases (fun p => ?_) (fun p t rest => ?_)
  · exact errEof_rel hc.endPos
  · exact rfl

theorem matchIf_cases {s s' : St} (h : SRel f s s') (v : List Char) (ty : Option TokType) :
    (s.matchIf v ty = none ∧ s'.matchIf v ty = none) ∨
    (∃ a a', s.matchIf v ty = some a ∧ s'.matchIf v ty = some a' ∧ SRel f a.1 a'.1) := by
  refine h.elim_cases (fun p => ?_) (fun p t rest => ?_)
  · exact Or.inl ⟨rfl, rfl⟩
  · cases hb : St.tokIs t v ty with
    | false => left; simp [St.matchIf, hb]
    | true => right; simp [St.matchIf, hb]

theorem matchIf2_cases {s s' : St} (h : SRel f s s') (v1 : List Char) (ty1 : Option TokType)
    (v2 : List Char) (ty2 : Option TokType) :
    (s.matchIf2 v1 ty1 v2 ty2 = none ∧ s'.matchIf2 v1 ty1 v2 ty2 = none) ∨
    (∃ a a', s.matchIf2 v1 ty1 v2 ty2 = some a ∧ s'.matchIf2 v1 ty1 v2 ty2 = some a' ∧ SRel f a.1 a'.1) := by
  refine h.elim_cases2 (fun p => ?_) (fun p t1 => ?_) (fun p t1 t2 rest => ?_)
  · exact Or.inl ⟨rfl, rfl⟩
  · exact Or.inl ⟨rfl, rfl⟩
  · cases hb : (St.tokIs t1 v1 ty1 && St.tokIs t2 v2 ty2) with
    | false => left; simp [St.matchIf2, hb]
    | true => right; simp [St.matchIf2, hb]

theorem matchIf3_cases {s s' : St} (h : SRel f s s') (v1 : List Char) (ty1 : Option TokType)
    (v2 : List Char) (ty2 : Option TokType) (v3 : List Char) (ty3 : Option TokType) :
    (s.matchIf3 v1 ty1 v2 ty2 v3 ty3 = none ∧ s'.matchIf3 v1 ty1 v2 ty2 v3 ty3 = none) ∨
    (∃ a a', s.matchIf3 v1 ty1 v2 ty2 v3 ty3 = some a ∧ s'.matchIf3 v1 ty1 v2 ty2 v3 ty3 = some a' ∧
      SRel f a.1 a'.1) := by
  refine h.elim_cases3 (fun p => ?_) (fun p t1 => ?_) (fun p t1 t2 => ?_) (fun p t1 t2 t3 rest => ?_)
  · exact Or.inl ⟨rfl, rfl⟩
  · exact Or.inl ⟨rfl, rfl⟩
  · exact Or.inl ⟨rfl, rfl⟩
  · cases hb : (St.tokIs t1 v1 ty1 && St.tokIs t2 v2 ty2 && St.tokIs t3 v3 ty3) with
    | false => left; simp [St.matchIf3, hb]
    | true => right; simp [St.matchIf3, hb]

theorem skipIf_rel {s s' : St} (h : SRel f s s') (v : List Char) (ty : Option TokType) :
    SRel f (s.skipIf v ty).1 (s'.skipIf v ty).1 := by
  unfold St.skipIf
  rcases matchIf_cases h v ty with ⟨e1, e2⟩ | ⟨⟨a, ha⟩, ⟨a', ha'⟩, e1, e2, hr⟩ <;> rw [e1, e2]
  · exact h
  · exact hr

theorem expect_rel {s s' : St} (h : SRel f s s') (v : List Char) (ty : TokType) :
    ERel f (SSub f) (s.expect v ty) (s'.expect v ty) := by
  refine h.elim_cases (fun p => ?_) (fun p t rest => ?_)
  · exact errEof_rel rfl
  · simp only [St.expect, tokMap_value, tokMap_type, tokRepr_map, tokMap_pos]
    by_cases hb : (t.value != v || t.type != ty) = true <;> simp only [hb, if_true, if_false]
    · exact mkErr_rel f _ _
    · exact SRel.mk' f _ _

theorem matchIdentifier_rel {s s' : St} (h : SRel f s s') :
    ERel f (OLt f Eq) s.matchIdentifier s'.matchIdentifier := by
  refine h.elim_cases (fun p => ?_) (fun p t rest => ?_)
  · exact errEof_rel rfl
  · simp only [St.matchIdentifier, tokMap_value, tokMap_type, tokRepr_map, tokMap_pos]
    by_cases hb : (t.type != .identifier) = true <;> simp only [hb, if_true, if_false]
    · exact mkErr_rel f _ _
    · exact ⟨rfl, SRel.mk' f _ _⟩

theorem checkRedefineKeyword_rel (f : Pos → Pos) (t : Token) :
    ERel f (fun _ _ => True) (checkRedefineKeyword t) (checkRedefineKeyword (tokMap f t)) := by
  unfold checkRedefineKeyword
  simp only [tokMap_type, tokRepr_map, tokMap_pos]
  by_cases hb : (t.type == .keyword) = true <;> simp only [hb, if_true, if_false]
  · exact mkErr_rel f _ _
  · trivial

theorem checkExpectedIdentifier_rel (f : Pos → Pos) (t : Token) :
    ERel f (fun _ _ => True) (checkExpectedIdentifier t) (checkExpectedIdentifier (tokMap f t)) := by
  unfold checkExpectedIdentifier
  simp only [tokMap_type, tokRepr_map, tokMap_pos]
  by_cases hb : (t.type != .identifier) = true <;> simp only [hb, if_true, if_false]
  · exact mkErr_rel f _ _
  · trivial

theorem mkAssign_rel (f : Pos → Pos) (name : List Char) (e : Node) (p : Pos) :
    ERel f (NR f) (mkAssign name e p) (mkAssign name (mapPos f e) (f p)) := by
  unfold mkAssign
  by_cases hb : sysPrefix.isPrefixOf name = true <;> simp only [hb, if_true, if_false]
  · exact mkErr_rel f _ _
  · simp [NR, mapPos]

theorem mkAssignD_rel (f : Pos → Pos) (names : List String) (e : Node) (p : Pos) :
    ERel f (NR f) (mkAssignD names e p) (mkAssignD names (mapPos f e) (f p)) := by
  unfold mkAssignD
  cases names.find? (fun n => sysPrefix.isPrefixOf n.toList) with
  | some n => exact mkErr_rel f _ _
  | none => simp [NR, mapPos]

/-! ### tables of `matchIf` alternatives -/

theorem matchFirstIdent_cases {s s' : St} (h : SRel f s s') (vs : List (List Char)) :
    (matchFirstIdent s vs = none ∧ matchFirstIdent s' vs = none) ∨
    (∃ v a a', matchFirstIdent s vs = some (v, a) ∧ matchFirstIdent s' vs = some (v, a') ∧ SRel f a.1 a'.1) := by
  induction vs with
  | nil => exact Or.inl ⟨rfl, rfl⟩
  | cons v vs ih =>
    unfold matchFirstIdent
    rcases matchIf_cases h v idt with ⟨e1, e2⟩ | ⟨a, a', e1, e2, hr⟩ <;> rw [e1, e2]
    · exact ih
    · exact Or.inr ⟨v, a, a', rfl, rfl, hr⟩

theorem matchOpTable_cases {s s' : St} (h : SRel f s s') (tbl : List (List Char × String)) :
    (matchOpTable s tbl = none ∧ matchOpTable s' tbl = none) ∨
    (∃ fn a a', matchOpTable s tbl = some (fn, a) ∧ matchOpTable s' tbl = some (fn, a') ∧ SRel f a.1 a'.1) := by
  induction tbl with
  | nil => exact Or.inl ⟨rfl, rfl⟩
  | cons x tbl ih =>
    obtain ⟨v, fn⟩ := x
    unfold matchOpTable
    rcases matchIf_cases h v op with ⟨e1, e2⟩ | ⟨a, a', e1, e2, hr⟩ <;> rw [e1, e2]
    · exact ih
    · exact Or.inr ⟨fn, a, a', rfl, rfl, hr⟩

theorem matchBracketCompound_go_cases {s s' : St} (h : SRel f s s') (tbl : List (List Char × String)) :
    (matchBracketCompound.go s tbl = none ∧ matchBracketCompound.go s' tbl = none) ∨
    (∃ fn a a', matchBracketCompound.go s tbl = some (fn, a) ∧ matchBracketCompound.go s' tbl = some (fn, a') ∧
      SRel f a.1 a'.1) := by
  induction tbl with
  | nil => exact Or.inl ⟨rfl, rfl⟩
  | cons x tbl ih =>
    obtain ⟨v, fn⟩ := x
    unfold matchBracketCompound.go
    rcases matchIf2_cases h c!"]" ip v op with ⟨e1, e2⟩ | ⟨a, a', e1, e2, hr⟩ <;> rw [e1, e2]
    · exact ih
    · exact Or.inr ⟨fn, a, a', rfl, rfl, hr⟩

theorem matchBracketCompound_cases {s s' : St} (h : SRel f s s') :
    (matchBracketCompound s = none ∧ matchBracketCompound s' = none) ∨
    (∃ fn a a', matchBracketCompound s = some (fn, a) ∧ matchBracketCompound s' = some (fn, a') ∧
      SRel f a.1 a'.1) :=
  matchBracketCompound_go_cases h compoundOps

theorem isPredTable_cases {s s' : St} (h : SRel f s s') (neg : Bool) :
    (isPredTable s neg = none ∧ isPredTable s' neg = none) ∨
    (∃ p a a', isPredTable s neg = some (p, a) ∧ isPredTable s' neg = some (p, a') ∧ SRel f a.1 a'.1) := by
  unfold isPredTable
  simp only
  rcases matchIf_cases h c!"in" (if neg then none else kw) with ⟨e1, e2⟩ | ⟨a, a', e1, e2, hr⟩ <;> rw [e1, e2]
  rotate_left; exact Or.inr ⟨_, a, a', rfl, rfl, hr⟩
  rcases matchIf_cases h c!"empty" idt with ⟨e1, e2⟩ | ⟨a, a', e1, e2, hr⟩ <;> rw [e1, e2]
  rotate_left; exact Or.inr ⟨_, a, a', rfl, rfl, hr⟩
  rcases matchIf_cases h c!"zero" idt with ⟨e1, e2⟩ | ⟨a, a', e1, e2, hr⟩ <;> rw [e1, e2]
  rotate_left; exact Or.inr ⟨_, a, a', rfl, rfl, hr⟩
  rcases matchIf_cases h c!"negative" idt with ⟨e1, e2⟩ | ⟨a, a', e1, e2, hr⟩ <;> rw [e1, e2]
  rotate_left; exact Or.inr ⟨_, a, a', rfl, rfl, hr⟩
  rcases matchIf_cases h c!"numerical" idt with ⟨e1, e2⟩ | ⟨a, a', e1, e2, hr⟩ <;> rw [e1, e2]
  rotate_left; exact Or.inr ⟨_, a, a', rfl, rfl, hr⟩
  rcases matchIf_cases h c!"alphanumerical" idt with ⟨e1, e2⟩ | ⟨a, a', e1, e2, hr⟩ <;> rw [e1, e2]
  rotate_left; exact Or.inr ⟨_, a, a', rfl, rfl, hr⟩
  rcases matchIf3_cases h c!"date" idt c!"with" idt c!"hour" idt with ⟨e1, e2⟩ | ⟨a, a', e1, e2, hr⟩ <;> rw [e1, e2]
  rotate_left; exact Or.inr ⟨_, a, a', rfl, rfl, hr⟩
  rcases matchIf_cases h c!"date" idt with ⟨e1, e2⟩ | ⟨a, a', e1, e2, hr⟩ <;> rw [e1, e2]
  rotate_left; exact Or.inr ⟨_, a, a', rfl, rfl, hr⟩
  rcases matchIf_cases h c!"time" idt with ⟨e1, e2⟩ | ⟨a, a', e1, e2, hr⟩ <;> rw [e1, e2]
  rotate_left; exact Or.inr ⟨_, a, a', rfl, rfl, hr⟩
  rcases matchFirstIdent_cases h typePreds with ⟨e1, e2⟩ | ⟨v, a, a', e1, e2, hr⟩ <;> rw [e1, e2]
  · exact Or.inl ⟨rfl, rfl⟩
  · exact Or.inr ⟨_, a, a', rfl, rfl, hr⟩

theorem binPredTable_cases {s s' : St} (h : SRel f s s') :
    (binPredTable s = none ∧ binPredTable s' = none) ∨
    (∃ p a a', binPredTable s = some (p, a) ∧ binPredTable s' = some (p, a') ∧ SRel f a.1 a'.1) := by
  unfold binPredTable
  simp only
  rcases matchIf2_cases h c!"not" kw c!"in" kw with ⟨e1, e2⟩ | ⟨a, a', e1, e2, hr⟩ <;> rw [e1, e2]
  rotate_left; exact Or.inr ⟨_, a, a', rfl, rfl, hr⟩
  rcases matchIf_cases h c!"in" kw with ⟨e1, e2⟩ | ⟨a, a', e1, e2, hr⟩ <;> rw [e1, e2]
  rotate_left; exact Or.inr ⟨_, a, a', rfl, rfl, hr⟩
  rcases matchIf3_cases h c!"starts" idt c!"not" kw c!"with" idt with ⟨e1, e2⟩ | ⟨a, a', e1, e2, hr⟩ <;> rw [e1, e2]
  rotate_left; exact Or.inr ⟨_, a, a', rfl, rfl, hr⟩
  rcases matchIf2_cases h c!"starts" idt c!"with" idt with ⟨e1, e2⟩ | ⟨a, a', e1, e2, hr⟩ <;> rw [e1, e2]
  rotate_left; exact Or.inr ⟨_, a, a', rfl, rfl, hr⟩
  rcases matchIf3_cases h c!"ends" idt c!"not" kw c!"with" idt with ⟨e1, e2⟩ | ⟨a, a', e1, e2, hr⟩ <;> rw [e1, e2]
  rotate_left; exact Or.inr ⟨_, a, a', rfl, rfl, hr⟩
  rcases matchIf2_cases h c!"ends" idt c!"with" idt with ⟨e1, e2⟩ | ⟨a, a', e1, e2, hr⟩ <;> rw [e1, e2]
  rotate_left; exact Or.inr ⟨_, a, a', rfl, rfl, hr⟩
  rcases matchIf2_cases h c!"contains" idt c!"not" kw with ⟨e1, e2⟩ | ⟨a, a', e1, e2, hr⟩ <;> rw [e1, e2]
  rotate_left; exact Or.inr ⟨_, a, a', rfl, rfl, hr⟩
  rcases matchIf_cases h c!"contains" idt with ⟨e1, e2⟩ | ⟨a, a', e1, e2, hr⟩ <;> rw [e1, e2]
  rotate_left; exact Or.inr ⟨_, a, a', rfl, rfl, hr⟩
  rcases matchIf2_cases h c!"matches" idt c!"not" kw with ⟨e1, e2⟩ | ⟨a, a', e1, e2, hr⟩ <;> rw [e1, e2]
  rotate_left; exact Or.inr ⟨_, a, a', rfl, rfl, hr⟩
  rcases matchIf_cases h c!"matches" idt with ⟨e1, e2⟩ | ⟨a, a', e1, e2, hr⟩ <;> rw [e1, e2]
  · exact Or.inl ⟨rfl, rfl⟩
  · exact Or.inr ⟨_, a, a', rfl, rfl, hr⟩

theorem matchWhat_rel {s s' : St} (h : SRel f s s') :
    (matchWhat s').1 = (matchWhat s).1 ∧ SRel f (matchWhat s).2.1 (matchWhat s').2.1 := by
  unfold matchWhat
  rcases matchIf_cases h c!"keys" idt with ⟨e1, e2⟩ | ⟨⟨a, ha⟩, ⟨a', ha'⟩, e1, e2, hr⟩ <;> rw [e1, e2]
  rotate_left; exact ⟨rfl, hr⟩
  rcases matchIf_cases h c!"values" idt with ⟨e1, e2⟩ | ⟨⟨a, ha⟩, ⟨a', ha'⟩, e1, e2, hr⟩ <;> rw [e1, e2]
  rotate_left; exact ⟨rfl, hr⟩
  rcases matchIf_cases h c!"entries" idt with ⟨e1, e2⟩ | ⟨⟨a, ha⟩, ⟨a', ha'⟩, e1, e2, hr⟩ <;> rw [e1, e2]
  rotate_left; exact ⟨rfl, hr⟩
  exact ⟨rfl, h⟩

theorem sepUnless_rel {s s' : St} (h : SRel f s s') (closer : List Char) :
    ERel f (SSub f) (sepUnless s closer) (sepUnless s' closer) := by
  unfold sepUnless
  rw [peekn_rel h]
  by_cases hb : s.peekn 1 closer ip = true <;> simp only [hb, if_true, if_false]
  · exact h
  · have := expect_rel h c!"," .interpunction
    revert this
    cases s.expect c!"," .interpunction <;> cases s'.expect c!"," .interpunction <;> intro this
    · exact this
    · exact this.elim
    · exact this.elim
    · exact this

theorem takeComment_rel {s s' : St} (h : SRel f s s') :
    (takeComment s').1 = (takeComment s).1 ∧ SRel f (takeComment s).2.1 (takeComment s').2.1 := by
  refine h.elim_cases (fun p => ?_) (fun p t rest => ?_)
  · exact ⟨rfl, SRel.mk' f _ _⟩
  · have hp := peekn_rel (SRel.mk' f p (t :: rest)) 2 c!"def" kw
    simp only [List.map_cons] at hp
    simp only [takeComment, hp, tokMap_type, tokMap_value, tokMap_pos]
    cases hb : (t.type == .string && St.peekn ⟨p, t :: rest⟩ 2 c!"def" kw) <;>
      simp only [if_true, Bool.false_eq_true, if_false] <;>
      first | exact ⟨rfl, SRel.mk' f _ _⟩ | exact ⟨trivial, SRel.mk' f _ _⟩

theorem isEndCatchFinally_rel {s s' : St} (h : SRel f s s') : isEndCatchFinally s' = isEndCatchFinally s := by
  simp only [isEndCatchFinally, peekn_rel h]

theorem relGuard_rel {s s' : St} (h : SRel f s s') : relGuard s' = relGuard s := by
  refine h.elim_cases (fun p => ?_) (fun p t rest => ?_) <;> rfl

end Ckl.C14P
