/-
  C14 (redundant parentheses) — a whole script that is one expression, and the same script in
  parentheses.  The two parses start from different `prev` positions (the first token of the
  script / the `(`), so the ASTs are compared up to positions; the bridge is the position
  equivariance of the productions (`C14P.hyp_at`).
-/
import CklVerif.Lemmas.C14ParensClimb
import CklVerif.Lemmas.C14ParseMain
import CklVerif.Lemmas.C14ParsePositions
namespace Ckl.C14X
open Ckl Ckl.Parser
open Ckl.C02P (plain plainLe plain_eq_ok plainLe_eq_ok Follow)

set_option linter.unusedSimpArgs false
set_option linter.unusedVariables false

/-- the expression parser does not care where it is started from (`prev`) nor what the end position
    of the input is, except for the positions it records: if it parses all of `ts` from `⟨p, ts⟩`
    it parses all of `ts` from `⟨p', ts⟩`, to the same AST up to positions -/
theorem pExpression_prev_irrelevant (c c' : Ctx) (hv : c'.validRe = c.validRe) (p p' : Pos) (ts : List Token)
    (n : Node) (q : Pos) (h : plain (pExpression c ⟨p, ts⟩) = .ok (n, ⟨q, []⟩)) :
    ∃ n' q', plain (pExpression c' ⟨p', ts⟩) = .ok (n', ⟨q', []⟩) ∧ C02P.erase n' = C02P.erase n := by
  let f : Pos → Pos := fun _ => default
  let c1 : Ctx := ⟨default, c.validRe⟩
  let s1 : St := ⟨default, ts.map (C14P.tokMap f)⟩
  have H := C14P.hyp_at f ts.length
  have r1 := H.pExpression (c := c) (c' := c1) (st := ⟨p, ts⟩) (st' := s1) ⟨rfl, rfl⟩ ⟨rfl, rfl⟩ (by simp)
  have r2 := H.pExpression (c := c') (c' := c1) (st := ⟨p', ts⟩) (st' := s1) ⟨rfl, hv.symm⟩ ⟨rfl, rfl⟩ (by simp)
  obtain ⟨hl, h⟩ := plain_eq_ok h
  rw [h] at r1
  cases h1 : pExpression c1 s1 with
  | error e => rw [h1] at r1; exact r1.elim
  | ok o1 =>
    rw [h1] at r1 r2
    cases h2 : pExpression c' ⟨p', ts⟩ with
    | error e => rw [h2] at r2; exact r2.elim
    | ok o2 =>
      rw [h2] at r2
      obtain ⟨n2, ⟨q2, r2toks⟩, hl2⟩ := o2
      obtain ⟨hn1, hs1⟩ := r1
      obtain ⟨hn2, hs2⟩ := r2
      simp only [C14P.NR] at hn1 hn2
      have ht1 : o1.st.toks = [] := by simpa using hs1.toks
      have ht2 : r2toks = [] := by
        have := hs2.toks
        rw [ht1] at this
        simpa using this.symm
      subst ht2
      refine ⟨n2, q2, rfl, ?_⟩
      rw [C14P.erase_eq_mapPos, C14P.erase_eq_mapPos, ← hn1, ← hn2]

/-- `unwrapReturn` commutes with erasing positions -/
theorem erase_unwrapReturn {n n' : Node} (h : C02P.erase n' = C02P.erase n) :
    C02P.erase (unwrapReturn n') = C02P.erase (unwrapReturn n) := by
  rw [C14P.erase_eq_mapPos, C14P.erase_eq_mapPos, C14P.mapPos_unwrapReturn, C14P.mapPos_unwrapReturn,
    ← C14P.erase_eq_mapPos, ← C14P.erase_eq_mapPos, h]

/-- a script that is one expression -/
theorem parseWith_of_expr (validRe : List Char → Bool) (file : String) (t0 : Token) (tl : List Token) (n : Node)
    (q : Pos) (hs : exprStart (t0 :: tl) = true)
    (he : plain (pExpression ⟨endPosOf file (t0 :: tl), validRe⟩ ⟨t0.pos, t0 :: tl⟩) = .ok (n, ⟨q, []⟩)) :
    parseWith validRe file (t0 :: tl) = .ok (unwrapReturn n) := by
  have hb := pBareBlock_expr_end ⟨endPosOf file (t0 :: tl), validRe⟩ true t0.pos (t0 :: tl) n q hs he
  obtain ⟨hl, hb⟩ := plain_eq_ok hb
  simp [parseWith, parseCore, hb]

/-- (for non-vacuity examples) a single identifier is an expression -/
theorem pExpression_ident (c : Ctx) (p : Pos) (t : Token) (ht : t.type = .identifier) :
    plain (pExpression c ⟨p, [t]⟩) = .ok (.ident (str t.value) t.pos, ⟨t.pos, []⟩) := by
  have hf : ∀ k, Follow k [] := fun k => C02P.Follow.nil k
  have hh : C02P.exprHead t = true := by simp [C02P.exprHead, ht]
  have h7 : plain (pPrimary c false ⟨p, [t]⟩) = .ok (.ident (str t.value) t.pos, ⟨t.pos, []⟩) :=
    C02P.pPrimary_ident c false p t [] ht (hf 7)
  have h6 := C02P.pPred_of_primary c false _ _ _ _ h7 (hf 7)
  have h5 : plain (pUnary c ⟨p, [t]⟩) = .ok (.ident (str t.value) t.pos, ⟨t.pos, []⟩) := by
    rw [C02P.pUnary_plain c p t [] (by rw [ht]; decide)]; exact h6
  have h4 : plain (pMul c ⟨p, [t]⟩) = .ok (.ident (str t.value) t.pos, ⟨t.pos, []⟩) := by
    rw [C02P.pMul_plain, h5]; exact C02P.mulLoop_stop c t.pos [] _ (hf 5)
  have h3 : plain (pAdd c ⟨p, [t]⟩) = .ok (.ident (str t.value) t.pos, ⟨t.pos, []⟩) := by
    rw [C02P.pAdd_plain, h4]; exact C02P.addLoop_stop c t.pos [] _ (hf 4)
  have h2 : plain (pRel c ⟨p, [t]⟩) = .ok (.ident (str t.value) t.pos, ⟨t.pos, []⟩) := by
    rw [C02P.pRel_plain, h3]; simp [Except.bind, C02P.relGuard_stop t.pos [] (hf 3)]
  have h1 : plain (pNot c ⟨p, [t]⟩) = .ok (.ident (str t.value) t.pos, ⟨t.pos, []⟩) := by
    rw [C02P.pNot_plain c p t [] (by simp [C02P.sp, C02P.notSp, ht])]; exact h2
  have h0 : plain (pAnd c ⟨p, [t]⟩) = .ok (.ident (str t.value) t.pos, ⟨t.pos, []⟩) := by
    rw [C02P.pAnd_plain, h1]; simp [Except.bind, (C02P.and_stop (q := t.pos) (hf 1)).1]
  rw [C02P.pExpression_plain c p t [] hh, C02P.pOr_plain, h0]
  simp [Except.bind, (C02P.or_stop (q := t.pos) (hf 0)).1]

end Ckl.C14X
