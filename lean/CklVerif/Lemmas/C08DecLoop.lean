/-
  C08Dec — equation lemmas: the `Id.run do … for … return` loops of `Model/DecRepr.lean`
  (`decPt`, `shortestDigits`) restated as plain searches.  Mathlib-free.
-/
import CklVerif.Model.DecRepr
namespace Ckl.C08D
open Ckl

/-! ## generic: a `for` loop whose body only tests and returns -/

/-- `for n in l do if c n then return g n` in `Id` -/
theorem forIn_find {β : Type} (c : Nat → Bool) (g : Nat → β) (l : List Nat) :
    (forIn (m := Id) l ((none : Option β), ()) (fun n _ =>
      if c n = true then pure (ForInStep.done (some (g n), ())) else pure (ForInStep.yield (none, ()))))
    = pure ((l.find? c).map g, ()) := by
  induction l with
  | nil => rfl
  | cons x xs ih =>
    rw [List.forIn_cons]
    by_cases hx : c x = true
    · simp only [hx, if_true, List.find?_cons_of_pos]; rfl
    · simp only [hx, if_false, List.find?_cons_of_neg, Bool.false_eq_true, not_false_eq_true]
      exact ih

/-- state of `k := k0; for _ in (n steps) do if c k then return k; k := k + 1` after the loop -/
def cnt (c : Int → Bool) : Nat → Int → Option Int × Int
  | 0, k => (none, k)
  | n + 1, k => if c k then (some k, k) else cnt c n (k + 1)

theorem forIn_count (c : Int → Bool) (l : List Nat) (k0 : Int) :
    (forIn (m := Id) l ((none : Option Int), k0) (fun _ s =>
      if c s.2 = true then pure (ForInStep.done (some s.2, s.2))
      else pure (ForInStep.yield (none, s.2 + 1))))
    = pure (cnt c l.length k0) := by
  induction l generalizing k0 with
  | nil => rfl
  | cons x xs ih =>
    rw [List.forIn_cons]
    by_cases hx : c k0 = true
    · simp only [hx, if_true, List.length_cons, cnt]; rfl
    · simp only [hx, if_false, Bool.false_eq_true, List.length_cons, cnt]
      exact ih (k0 + 1)

/-- the first `k ≥ k0` among `n` candidates with `c k`, else `k0 + n` -/
def firstK (c : Int → Bool) : Nat → Int → Int
  | 0, k => k
  | n + 1, k => if c k then k else firstK c n (k + 1)

theorem cnt_firstK (c : Int → Bool) (n : Nat) (k : Int) :
    (match cnt c n k with | (some r, _) => r | (none, k') => k') = firstK c n k := by
  induction n generalizing k with
  | zero => rfl
  | succ n ih =>
    simp only [cnt, firstK]
    by_cases h : c k = true
    · simp [h]
    · simp only [h, Bool.false_eq_true, if_false]; exact ih (k + 1)

theorem firstK_spec (c : Int → Bool) (n : Nat) (k : Int) :
    k ≤ firstK c n k ∧ firstK c n k ≤ k + n ∧ (∀ j, k ≤ j → j < firstK c n k → c j = false) ∧
    (firstK c n k < k + n → c (firstK c n k) = true) := by
  induction n generalizing k with
  | zero => simp only [firstK]; refine ⟨by omega, by omega, by intros; omega, by intros; omega⟩
  | succ n ih =>
    simp only [firstK]
    by_cases h : c k = true
    · simp only [h, if_true]; refine ⟨by omega, by omega, by intros; omega, fun _ => trivial⟩
    · simp only [h, Bool.false_eq_true, if_false]
      obtain ⟨h1, h2, h3, h4⟩ := ih (k + 1)
      refine ⟨by omega, by omega, ?_, fun hh => h4 (by omega)⟩
      intro j hj1 hj2
      by_cases hjk : j = k
      · subst hjk; simpa using h
      · exact h3 j (by omega) hj2


theorem forIn_find' {β : Type} (f : Nat → (Option β × Unit) → Id (ForInStep (Option β × Unit)))
    (c : Nat → Bool) (g : Nat → β)
    (hf : ∀ n, f n (none, ()) =
      if c n = true then pure (ForInStep.done (some (g n), ())) else pure (ForInStep.yield (none, ())))
    (l : List Nat) : forIn (m := Id) l ((none : Option β), ()) f = pure ((l.find? c).map g, ()) := by
  induction l with
  | nil => rfl
  | cons x xs ih =>
    rw [List.forIn_cons, hf]
    by_cases hx : c x = true
    · simp only [hx, if_true, List.find?_cons_of_pos]; rfl
    · simp only [hx, if_false, List.find?_cons_of_neg, Bool.false_eq_true, not_false_eq_true]
      exact ih


/-! ## `decPt` -/

/-- `decPt v` is the first `k` in `-400 … 399` with `v < 10^k`, and `400` if there is none -/
theorem decPt_eq (v : Nat × Nat) :
    decPt v = firstK (fun k => ratLt v (pow10Rat 1 k)) 800 (-400) := by
  unfold decPt
  simp only [Std.Legacy.Range.forIn_eq_forIn_range', Std.Legacy.Range.size]
  rw [forIn_count (fun k => ratLt v (pow10Rat 1 k))]
  rw [List.length_range']
  simp only [Nat.sub_zero, Nat.add_sub_cancel, Nat.div_one]
  rw [← cnt_firstK]
  generalize cnt (fun k => ratLt v (pow10Rat 1 k)) 800 (-400) = r
  obtain ⟨_ | r, k⟩ := r <;> rfl

/-! ## `shortestDigits`

  `sdX` is the text of `shortestDigits` with `decPt v` abstracted to a parameter (the kernel
  otherwise tries to evaluate the 800-round loop of `decPt` when it compares zeta-variants of the
  body); `sd_eq` is `rfl`. -/

def sdX (a : Nat) (e : Nat) (K : Int) : List Char × Int := Id.run do
  let v : Nat × Nat := (a, 2 ^ e)
  let (M, E) := toBin64 a e
  let lowNbr : Nat × Nat :=
    if M = 2 ^ 52 ∧ E > -1074 then pow2Rat (2 ^ 53 - 1) (E - 1) else pow2Rat (M - 1) E
  let highNbr : Nat × Nat := pow2Rat (M + 1) E
  let mid (x : Nat × Nat) : Nat × Nat := (x.1 * v.2 + v.1 * x.2, 2 * x.2 * v.2)
  let lo := mid lowNbr
  let hi := mid highNbr
  let incl := M % 2 = 0
  let inside (c : Nat × Nat) : Bool :=
    if incl then ratLe lo c && ratLe c hi else ratLt lo c && ratLt c hi
  let k := K
  for n in [1:18] do
    let s : Int := (n : Int) - k
    let f := scaleFloor v s
    let c1 := pow10Rat f (-s)
    let c2 := pow10Rat (f + 1) (-s)
    let ok1 := f > 0 && inside c1
    let ok2 := inside c2
    if ok1 || ok2 then
      let pick := 
        if ok1 && ok2 then
          (if ratLt (ratDist c1 v) (ratDist c2 v) then f
           else if ratLt (ratDist c2 v) (ratDist c1 v) then f + 1
           else if f % 2 = 0 then f else f + 1)
        else if ok1 then f else f + 1
      let ds := Nat.toDigits 10 pick
      let kk : Int := k + ((ds.length : Int) - (n : Int))
      let ds' := (ds.reverse.dropWhile (· = '0')).reverse
      return (if ds' = [] then ['0'] else ds', kk)
  return (Nat.toDigits 10 (scaleFloor v (17 - k)), k)

theorem sd_eq (a e : Nat) : shortestDigits a e = sdX a e (decPt (a, 2 ^ e)) := rfl

/-- lower neighbour of the double `M * 2^E` -/
def lowNbr (M : Nat) (E : Int) : Nat × Nat :=
  if M = 2 ^ 52 ∧ E > -1074 then pow2Rat (2 ^ 53 - 1) (E - 1) else pow2Rat (M - 1) E
def highNbr (M : Nat) (E : Int) : Nat × Nat := pow2Rat (M + 1) E
/-- midpoint of `x` and `v` -/
def mid (v x : Nat × Nat) : Nat × Nat := (x.1 * v.2 + v.1 * x.2, 2 * x.2 * v.2)
/-- the rounding interval test of `shortestDigits a e` -/
def inside (a e : Nat) (c : Nat × Nat) : Bool :=
  let v := (a, 2 ^ e)
  let lo := mid v (lowNbr (toBin64 a e).1 (toBin64 a e).2)
  let hi := mid v (highNbr (toBin64 a e).1 (toBin64 a e).2)
  if (toBin64 a e).1 % 2 = 0 then ratLe lo c && ratLe c hi else ratLt lo c && ratLt c hi

def ok1 (a e : Nat) (k : Int) (n : Nat) : Bool :=
  decide (scaleFloor (a, 2 ^ e) ((n : Int) - k) > 0) && inside a e (pow10Rat (scaleFloor (a, 2 ^ e) ((n : Int) - k)) (-((n : Int) - k)))
def ok2 (a e : Nat) (k : Int) (n : Nat) : Bool :=
  inside a e (pow10Rat (scaleFloor (a, 2 ^ e) ((n : Int) - k) + 1) (-((n : Int) - k)))

/-- the candidate chosen in round `n` (meaningful when `ok1 || ok2`) -/
def pick (a e : Nat) (k : Int) (n : Nat) : Nat :=
  let v := (a, 2 ^ e)
  let s : Int := (n : Int) - k
  let f := scaleFloor v s
  let c1 := pow10Rat f (-s)
  let c2 := pow10Rat (f + 1) (-s)
  if (ok1 a e k n && ok2 a e k n) = true then
    (if ratLt (ratDist c1 v) (ratDist c2 v) then f
     else if ratLt (ratDist c2 v) (ratDist c1 v) then f + 1
     else if f % 2 = 0 then f else f + 1)
  else if ok1 a e k n = true then f else f + 1

/-- strip trailing zeros -/
def strip0 (ds : List Char) : List Char := (ds.reverse.dropWhile (· = '0')).reverse

/-- what round `n` returns for the candidate `p` -/
def out (k : Int) (n : Nat) (p : Nat) : List Char × Int :=
  let ds := Nat.toDigits 10 p
  (if strip0 ds = [] then ['0'] else strip0 ds, k + ((ds.length : Int) - (n : Int)))

theorem sdX_eq (a e : Nat) (k : Int) :
    sdX a e k =
      (((List.range' 1 17).find? (fun n => ok1 a e k n || ok2 a e k n)).map
        (fun n => out k n (pick a e k n))).getD
        (Nat.toDigits 10 (scaleFloor (a, 2 ^ e) (17 - k)), k) := by
  unfold sdX
  simp only [Std.Legacy.Range.forIn_eq_forIn_range', Std.Legacy.Range.size, Nat.add_sub_cancel, Nat.div_one,
    Nat.reduceSub]
  rw [forIn_find' _ (fun n => ok1 a e k n || ok2 a e k n) (fun n => out k n (pick a e k n))]
  · cases List.find? _ (List.range' 1 17) <;> rfl
  · intro n
    simp only [ok1, ok2, pick, out, inside, strip0, mid, lowNbr, highNbr]
    split <;> rfl

/-- **shortestDigits_eq**: the loop as a search: the first round `n ∈ 1 … 17` in which one of the two
    `n`-digit neighbours of `v` lies in the rounding interval returns the chosen one; otherwise
    the 17-digit truncation is returned. -/
theorem shortestDigits_eq (a e : Nat) :
    shortestDigits a e =
      (((List.range' 1 17).find? (fun n => ok1 a e (decPt (a, 2 ^ e)) n || ok2 a e (decPt (a, 2 ^ e)) n)).map
        (fun n => out (decPt (a, 2 ^ e)) n (pick a e (decPt (a, 2 ^ e)) n))).getD
        (Nat.toDigits 10 (scaleFloor (a, 2 ^ e) (17 - decPt (a, 2 ^ e))), decPt (a, 2 ^ e)) := by
  rw [sd_eq, sdX_eq]

end Ckl.C08D
