/-
  C16 — only the documented mutators change their arguments; aliases see mutations.

  Containers live in heap cells and are shared by reference (`RVal.ref a`).  This file proves, for
  the modelled natives (`callPure`):
  * every native other than `append`, `insert_at`, `delete_at`, `remove`, `put` leaves every
    pre-existing heap cell unchanged — it may only allocate (`callPure_nonmutating`); `print` /
    `println` additionally write to the output, which is not part of the heap;
  * a mutator called on cell `a` changes no other cell and allocates nothing (`mutator_frame`), and
    the cell holds exactly the textbook result afterwards (`append_list`, `insert_at_list`, …);
  * a reference returned by a native is a NEW cell (`result_fresh`), with the explicit exceptions
    `identity`, `if_null`, `list`, `set`, `div` (`returns_argument_*`, `*_fresh_or_arg`) and the
    mutators, which return their first argument;
  * every holder of a reference sees a mutation (`alias_visibility`);
  * node level: `x[i] = v` changes only the cell of `x`; slices, list / set / map literals only
    allocate when their sub-expressions do.
-/
import CklVerif.Lemmas.C16FreshNatives
import CklVerif.Lemmas.C16Mut
import CklVerif.Lemmas.C13Run
import CklVerif.Lemmas.C04Loops

namespace Ckl.C16
open Ckl

/-! ### 1: everything but the mutators only allocates -/

/-- **callPure_nonmutating**: whatever the outcome (value, runtime error, failure), every cell that
    existed before the call is unchanged -/
theorem callPure_nonmutating {name : String} {args : List (String × RVal)} {d0 : Option RVal}
    {pos : Pos} {m : EvalM RVal} (hn : name ∉ mutators) (h : callPure name args d0 pos = some m)
    (s : State) : HeapPrefixEq s (m s).st :=
  (Allocates.callPure name args d0 pos m hn h).run s

theorem callPure_nonmutating_ok {name : String} {args : List (String × RVal)} {d0 : Option RVal}
    {pos : Pos} {m : EvalM RVal} (hn : name ∉ mutators) (h : callPure name args d0 pos = some m)
    {s s' : State} {v : RVal} (hr : m s = .ok v s') : HeapPrefixEq s s' := by
  have := callPure_nonmutating hn h s; rw [hr] at this; exact this

theorem callPure_nonmutating_err {name : String} {args : List (String × RVal)} {d0 : Option RVal}
    {pos : Pos} {m : EvalM RVal} (hn : name ∉ mutators) (h : callPure name args d0 pos = some m)
    {s s' : State} {v msg p t} (hr : m s = .err v msg p t s') : HeapPrefixEq s s' := by
  have := callPure_nonmutating hn h s; rw [hr] at this; exact this

/-- a state with one list cell and one set cell -/
def s1 : State := { frames := #[{ vars := [("x", .ref 0), ("y", .ref 0)] }],
                    heap := #[.list [.int 1], .set [.int 2]] }

/-- `[1] + <<2>>` allocates the result and leaves both operands alone -/
example : ∃ m, callPure "add" [("a", .ref 0), ("b", .ref 1)] none {} = some m ∧
    HeapPrefixEq s1 (m s1).st :=
  ⟨_, rfl, callPure_nonmutating (name := "add") (d0 := none) (by decide) rfl s1⟩

/-! ### 2: the mutators -/

/-- **mutator_frame**: a mutator whose container argument is the cell `a` changes no other cell
    and allocates nothing, whatever its outcome -/
theorem mutator_frame {name : String} {args : List (String × RVal)} {d0 : Option RVal}
    {pos : Pos} {m : EvalM RVal} {a : Nat} (hn : name ∈ mutators)
    (hfirst : dictGet (firstArg name) args = some (.ref a))
    (h : callPure name args d0 pos = some m) (s : State) : OnlyCell a s (m s).st :=
  (MutatesOnly.callPure name args d0 pos m a hn hfirst h).run s

/-- in the form of the property statement -/
theorem mutator_frame' {name : String} {args : List (String × RVal)} {d0 : Option RVal}
    {pos : Pos} {m : EvalM RVal} {a : Nat} (hn : name ∈ mutators)
    (hfirst : dictGet (firstArg name) args = some (.ref a))
    (h : callPure name args d0 pos = some m) {s s' : State} {v : RVal} (hr : m s = .ok v s') :
    ∀ b, b ≠ a → b < s.heap.size → s'.heap[b]? = s.heap[b]? := by
  have := mutator_frame hn hfirst h s; rw [hr] at this
  exact fun b hb _ => this.others b hb

example : ∃ m, callPure "append" [("lst", .ref 0), ("element", .int 5)] none {} = some m ∧
    OnlyCell 0 s1 (m s1).st :=
  ⟨_, rfl, mutator_frame (name := "append") (d0 := none) (by decide) rfl rfl s1⟩

/-! the cell holds exactly the textbook result -/

section
variable {args : List (String × RVal)} {d0 : Option RVal} {pos : Pos} {m : EvalM RVal}
    {a : Nat} {s : State}

theorem append_list {el : RVal} {xs : List RVal}
    (h : callPure "append" args d0 pos = some m)
    (h1 : dictGet "lst" args = some (.ref a)) (h2 : dictGet "element" args = some el)
    (hc : s.cell a = some (.list xs)) :
    m s = .ok (.ref a) (s.setCell a (.list (xs ++ [el]))) := by
  unfold callPure at h
  injection h with h; subst h
  simp only [argGet_of_dictGet pos h1, argGet_of_dictGet pos h2, pure_bind]
  rw [EvalM.bind_apply, cellOf_ref, hc]
  rfl

theorem append_set {el : RVal} {xs : List RVal}
    (h : callPure "append" args d0 pos = some m)
    (h1 : dictGet "lst" args = some (.ref a)) (h2 : dictGet "element" args = some el)
    (hc : s.cell a = some (.set xs)) :
    m s = .ok (.ref a) (s.setCell a (.set (setAdd s el xs))) := by
  unfold callPure at h
  injection h with h; subst h
  simp only [argGet_of_dictGet pos h1, argGet_of_dictGet pos h2, pure_bind]
  rw [EvalM.bind_apply, cellOf_ref, hc]
  rfl

theorem insert_at_list {v : RVal} {i : Int} {xs : List RVal}
    (h : callPure "insert_at" args d0 pos = some m)
    (h1 : dictGet "lst" args = some (.ref a)) (h2 : dictGet "index" args = some (.int i))
    (h3 : dictGet "value" args = some v) (hc : s.cell a = some (.list xs)) :
    m s = .ok (.ref a) (s.setCell a (.list (Seq.insertAt xs i v))) := by
  unfold callPure at h
  injection h with h; subst h
  simp only [argGet_of_dictGet pos h1, argGet_of_dictGet pos h2, argGet_of_dictGet pos h3, pure_bind]
  rw [EvalM.bind_apply, cellOf_ref, hc]
  rfl

theorem delete_at_list {i : Int} {xs : List RVal}
    (h : callPure "delete_at" args d0 pos = some m)
    (h1 : dictGet "lst" args = some (.ref a)) (h2 : dictGet "index" args = some (.int i))
    (hc : s.cell a = some (.list xs)) :
    m s = .ok ((Seq.deleteAt xs i).1.getD .null) (s.setCell a (.list (Seq.deleteAt xs i).2)) := by
  unfold callPure at h
  injection h with h; subst h
  simp only [argGet_of_dictGet pos h1, argGet_of_dictGet pos h2, pure_bind]
  rw [EvalM.bind_apply, cellOf_ref, hc]
  rfl

theorem put_map {k v : RVal} {kvs : List (RVal × RVal)}
    (h : callPure "put" args d0 pos = some m)
    (h1 : dictGet "m" args = some (.ref a)) (h2 : dictGet "key" args = some k)
    (h3 : dictGet "value" args = some v) (hc : s.cell a = some (.map kvs)) :
    m s = .ok (.ref a) (s.setCell a (.map (mapPut s k v kvs))) := by
  unfold callPure at h
  injection h with h; subst h
  simp only [argGet_of_dictGet pos h1, argGet_of_dictGet pos h2, argGet_of_dictGet pos h3, pure_bind]
  rw [EvalM.bind_apply, cellOf_ref, hc]
  rfl

/-- `list.remove(x)`: the first element equal to `x` is dropped -/
def removeFirst (s : State) (el : RVal) : List RVal → List RVal
  | [] => []
  | y :: ys => if rveq s y el then ys else y :: removeFirst s el ys

theorem rm_eq (s : State) (el : RVal) (xs : List RVal) : callPure.rm el s xs = removeFirst s el xs := by
  induction xs with
  | nil => rfl
  | cons y ys ih => simp only [callPure.rm, removeFirst, ih]

theorem remove_list {el : RVal} {xs : List RVal}
    (h : callPure "remove" args d0 pos = some m)
    (h1 : dictGet "lst" args = some (.ref a)) (h2 : dictGet "element" args = some el)
    (hc : s.cell a = some (.list xs)) (hmem : memR s el xs = true) :
    m s = .ok (.ref a) (s.setCell a (.list (removeFirst s el xs))) := by
  unfold callPure at h
  injection h with h; subst h
  simp only [argGet_of_dictGet pos h1, argGet_of_dictGet pos h2, pure_bind]
  rw [EvalM.bind_apply, getS_apply]
  simp only
  rw [EvalM.bind_apply, cellOf_ref, hc]
  simp only [hmem, if_true, rm_eq]
  rfl

theorem remove_set {el : RVal} {xs : List RVal}
    (h : callPure "remove" args d0 pos = some m)
    (h1 : dictGet "lst" args = some (.ref a)) (h2 : dictGet "element" args = some el)
    (hc : s.cell a = some (.set xs)) (hmem : memR s el xs = true) :
    m s = .ok (.ref a) (s.setCell a (.set (xs.filter (fun y => !rveq s y el)))) := by
  unfold callPure at h
  injection h with h; subst h
  simp only [argGet_of_dictGet pos h1, argGet_of_dictGet pos h2, pure_bind]
  rw [EvalM.bind_apply, getS_apply]
  simp only
  rw [EvalM.bind_apply, cellOf_ref, hc]
  simp only [hmem, if_true]
  rfl

theorem remove_map {el : RVal} {kvs : List (RVal × RVal)}
    (h : callPure "remove" args d0 pos = some m)
    (h1 : dictGet "lst" args = some (.ref a)) (h2 : dictGet "element" args = some el)
    (hc : s.cell a = some (.map kvs)) (hmem : (mapGet s el kvs).isSome = true) :
    m s = .ok (.ref a) (s.setCell a (.map (mapDel s el kvs))) := by
  unfold callPure at h
  injection h with h; subst h
  simp only [argGet_of_dictGet pos h1, argGet_of_dictGet pos h2, pure_bind]
  rw [EvalM.bind_apply, getS_apply]
  simp only
  rw [EvalM.bind_apply, cellOf_ref, hc]
  simp only [hmem, if_true]
  rfl
end

example : ∃ m, callPure "append" [("lst", .ref 0), ("element", .int 5)] none {} = some m ∧
    m s1 = .ok (.ref 0) (s1.setCell 0 (.list ([.int 1] ++ [.int 5]))) :=
  ⟨_, rfl, append_list (s := s1) (d0 := none) rfl rfl rfl rfl⟩


/-! ### 3: returned references are new cells -/

/-- **result_fresh**: if a native other than the mutators and the pass-through natives
    (`identity`, `if_null`, `list`, `set`, `div`) returns a reference, it refers to a cell allocated
    by the call: no pre-existing cell can be reached through the result -/
theorem result_fresh {name : String} {args : List (String × RVal)} {d0 : Option RVal}
    {pos : Pos} {m : EvalM RVal} (hn : name ∉ mutators ++ passThrough)
    (h : callPure name args d0 pos = some m) {s s' : State} {r : Nat}
    (hr : m s = .ok (.ref r) s') : s.heap.size ≤ r ∧ r < s'.heap.size := by
  have := (FreshRes.callPure name args d0 pos m hn h).run s
  rw [hr] at this
  rcases this with h | h
  · exact h.elim
  · exact h r rfl

theorem add_s1 : ∃ m, callPure "add" [("a", .ref 0), ("b", .ref 1)] none {} = some m ∧
    m s1 = .ok (.ref 2) { s1 with heap := s1.heap.push (.list [.int 1, .int 2]) } := by
  refine ⟨_, rfl, ?_⟩
  simp [nativeAdd, argGet, dictGet, bind, EvalM.bind', getS, cellOf, State.cell, s1, RVal.isNull,
    RVal.isNumerical, RVal.isInt, RVal.isDecimal, isColl, collAsList, sortedR, reify, reifyF,
    sortBy, insertBy, newList, allocM, State.alloc, pure, EvalM.pure']

example : (2 : Nat) ≤ 2 ∧ 2 < 3 := by
  obtain ⟨m, hm, hr⟩ := add_s1
  exact result_fresh (name := "add") (by decide) hm hr
example : HeapPrefixEq s1 { s1 with heap := s1.heap.push (.list [.int 1, .int 2]) } := by
  obtain ⟨m, hm, hr⟩ := add_s1
  exact callPure_nonmutating_ok (name := "add") (by decide) hm hr
/-- a failing call (`add` without its second argument) -/
example : ∃ m, callPure "add" [("a", .ref 0)] none {} = some m ∧
    m s1 = .err (.str ['E', 'R', 'R', 'O', 'R']) "Missing argument b" {} [] s1 ∧ HeapPrefixEq s1 s1 := by
  refine ⟨_, rfl, rfl, ?_⟩
  exact callPure_nonmutating_err (name := "add") (args := [("a", .ref 0)]) (d0 := none) (pos := {})
    (by decide) rfl (s := s1) (s' := s1) rfl

/-! the exceptions: natives that hand an argument (or `DIV_0_VALUE`) through unchanged -/

section
variable {args : List (String × RVal)} {d0 : Option RVal} {pos : Pos} {m : EvalM RVal} {s : State}

theorem returns_argument_identity {v : RVal} (h : callPure "identity" args d0 pos = some m)
    (h1 : dictGet "obj" args = some v) : m s = .ok v s := by
  unfold callPure at h
  injection h with h; subst h
  simp only [argGet_of_dictGet pos h1]; rfl

theorem returns_argument_if_null {a : RVal} (h : callPure "if_null" args d0 pos = some m)
    (h1 : dictGet "a" args = some a) (ha : a.isNull = false) : m s = .ok a s := by
  unfold callPure at h
  injection h with h; subst h
  simp only [argGet_of_dictGet pos h1, pure_bind, ha]; rfl

theorem returns_argument_if_null' {b : RVal} (h : callPure "if_null" args d0 pos = some m)
    (h1 : dictGet "a" args = some .null) (h2 : dictGet "b" args = some b) : m s = .ok b s := by
  unfold callPure at h
  injection h with h; subst h
  simp only [argGet_of_dictGet pos h1, argGet_of_dictGet pos h2, pure_bind, RVal.isNull]; rfl

/-- `list(x)` of a list is `x` itself, not a copy -/
theorem returns_argument_list {r : Nat} {xs : List RVal} (h : callPure "list" args d0 pos = some m)
    (h1 : dictGet "obj" args = some (.ref r)) (hc : s.cell r = some (.list xs)) :
    m s = .ok (.ref r) s := by
  unfold callPure at h
  injection h with h; subst h
  have : dictHas "obj" args = true := by simp [dictHas, h1]
  simp only [this, if_true, argGet_of_dictGet pos h1, pure_bind]
  unfold asListArg
  dsimp only
  rw [EvalM.bind_apply, cellOf_ref, hc]; rfl

/-- `set(x)` of a set is `x` itself -/
theorem returns_argument_set {r : Nat} {xs : List RVal} (h : callPure "set" args d0 pos = some m)
    (h1 : dictGet "obj" args = some (.ref r)) (hc : s.cell r = some (.set xs)) :
    m s = .ok (.ref r) s := by
  unfold callPure at h
  injection h with h; subst h
  have : dictHas "obj" args = true := by simp [dictHas, h1]
  simp only [this, if_true, argGet_of_dictGet pos h1, pure_bind]
  unfold asSetArg
  dsimp only
  rw [EvalM.bind_apply, cellOf_ref, hc]; rfl

/-- in every other case `list(x)` returns a new cell -/
theorem list_fresh_or_arg {r : Nat} {s' : State} (h : callPure "list" args d0 pos = some m)
    (hr : m s = .ok (.ref r) s') :
    dictGet "obj" args = some (.ref r) ∨ (s.heap.size ≤ r ∧ r < s'.heap.size) := by
  unfold callPure at h
  injection h with h; subst h
  dsimp only at hr
  split at hr
  · cases hg : dictGet "obj" args with
    | none =>
      simp only [argGet, hg] at hr
      cases hr
    | some v =>
      simp only [argGet_of_dictGet pos hg, pure_bind] at hr
      have := (FreshRes.asListArg v pos).run s
      rw [hr] at this
      rcases this with h | h
      · left; rw [h]
      · right; exact h r rfl
  · have := (FreshRes.newList (A := fun _ => False) []).run s
    rw [hr] at this
    rcases this with h | h
    · exact h.elim
    · right; exact h r rfl

theorem set_fresh_or_arg {r : Nat} {s' : State} (h : callPure "set" args d0 pos = some m)
    (hr : m s = .ok (.ref r) s') :
    dictGet "obj" args = some (.ref r) ∨ (s.heap.size ≤ r ∧ r < s'.heap.size) := by
  unfold callPure at h
  injection h with h; subst h
  dsimp only at hr
  split at hr
  · cases hg : dictGet "obj" args with
    | none =>
      simp only [argGet, hg] at hr
      cases hr
    | some v =>
      simp only [argGet_of_dictGet pos hg, pure_bind] at hr
      have := (FreshRes.asSetArg v pos).run s
      rw [hr] at this
      rcases this with h | h
      · left; rw [h]
      · right; exact h r rfl
  · have := (FreshRes.allocM (A := fun _ => False) (.set [])).run s
    rw [hr] at this
    rcases this with h | h
    · exact h.elim
    · right; exact h r rfl

theorem nativeDiv_no_alloc (a b : RVal) (d : Option RVal) (pos : Pos) :
    MutatesOnly 0 (nativeDiv a b d pos) := by
  have hf : ∀ x p w, MutatesOnly 0 (floatResult x p w) := by
    intro x p w; unfold floatResult; mut!
  unfold nativeDiv
  repeat' (first | exact hf _ _ _ | mut_step)

/-- the only reference `div` can return is the value of `DIV_0_VALUE` -/
theorem div_returns_div0 {a b : RVal} {r : Nat} {s' : State}
    (hr : nativeDiv a b d0 pos s = .ok (.ref r) s') : d0 = some (.ref r) := by
  have := (FreshRes.nativeDiv a b d0 pos).run s
  rw [hr] at this
  rcases this with h | h
  · exact h
  · have h2 := (nativeDiv_no_alloc a b d0 pos).run s
    rw [hr] at h2
    have := h r rfl
    have := h2.size
    simp only [Out.st] at this
    omega
end


/-! ### 4: aliases see mutations -/

theorem lookupF_frames {s s' : State} (hf : s'.frames = s.frames) (n : Nat) (e : EnvId) (x : String) :
    s'.lookupF n e x = s.lookupF n e x := by
  induction n generalizing e with
  | zero => rfl
  | succ n ih =>
    simp only [State.lookupF]
    have : s'.frame e = s.frame e := by simp only [State.frame, hf]
    rw [this]
    cases dictGet x (s.frame e).vars with
    | some v => rfl
    | none =>
      simp only
      cases (s.frame e).parent with
      | none => rfl
      | some p => exact ih p

/-- variable lookup depends on the frames only -/
theorem lookup_frames {s s' : State} (hf : s'.frames = s.frames) (e : EnvId) (x : String) :
    s'.lookup e x = s.lookup e x := by
  simp only [State.lookup, hf]; exact lookupF_frames hf _ e x

/-- changing a heap cell changes no variable binding -/
theorem lookup_setCell (s : State) (a : Nat) (c : Cell) (e : EnvId) (x : String) :
    (s.setCell a c).lookup e x = s.lookup e x :=
  lookup_frames (s' := s.setCell a c) (s := s) rfl e x

theorem cell_setCell_self {s : State} {a : Nat} {c : Cell} (c' : Cell) (hc : s.cell a = some c) :
    (s.setCell a c').cell a = some c' := by
  have ha : a < s.heap.size := by
    rcases Nat.lt_or_ge a s.heap.size with h1 | h1
    · exact h1
    · simp only [State.cell] at hc; rw [Array.getElem?_eq_none h1] at hc; cases hc
  simp only [State.cell, State.setCell]
  exact Array.getElem?_setIfInBounds_self_of_lt ha

/-- **alias_visibility**: two variables bound to the same list; after `append` through either
    name (the call receives the reference), both still hold the same reference, and the cell it
    names holds the extended list: the mutation is visible through every alias -/
theorem alias_visibility {s : State} {e : EnvId} {x y : String} {a : Nat} {xs : List RVal}
    {el : RVal} {d0 : Option RVal} {pos : Pos} {m : EvalM RVal}
    (hx : s.lookup e x = some (.ref a)) (hy : s.lookup e y = some (.ref a))
    (hc : s.cell a = some (.list xs))
    (h : callPure "append" [("lst", .ref a), ("element", el)] d0 pos = some m) :
    ∃ s', m s = .ok (.ref a) s' ∧ s'.lookup e x = some (.ref a) ∧ s'.lookup e y = some (.ref a) ∧
      s'.cell a = some (.list (xs ++ [el])) :=
  ⟨_, append_list h rfl rfl hc, by rw [lookup_setCell, hx], by rw [lookup_setCell, hy],
    cell_setCell_self _ hc⟩

example : ∃ s', (∃ m, callPure "append" [("lst", .ref 0), ("element", .int 5)] none {} = some m ∧
      m s1 = .ok (.ref 0) s') ∧
    s'.lookup 0 "x" = some (.ref 0) ∧ s'.lookup 0 "y" = some (.ref 0) ∧
    s'.cell 0 = some (.list [.int 1, .int 5]) := by
  obtain ⟨s', h1, h2, h3, h4⟩ := alias_visibility (s := s1) (e := 0) (x := "x") (y := "y") (a := 0)
    (xs := [.int 1]) (el := .int 5) (d0 := none) (pos := {}) rfl rfl rfl rfl
  exact ⟨s', ⟨_, rfl, h1⟩, h2, h3, h4⟩

/-- the same for every mutator and every outcome: variable bindings are untouched, so every
    holder of `.ref a` dereferences to the one (updated) cell `a` -/
theorem mutator_keeps_bindings {name : String} {args : List (String × RVal)} {d0 : Option RVal}
    {pos : Pos} {m : EvalM RVal} {a : Nat} (hn : name ∈ mutators)
    (hfirst : dictGet (firstArg name) args = some (.ref a))
    (h : callPure name args d0 pos = some m) (s : State) (e : EnvId) (x : String) :
    (m s).st.lookup e x = s.lookup e x :=
  lookup_frames (mutator_frame hn hfirst h s).frames e x

example : ∃ m, callPure "append" [("lst", .ref 0), ("element", .int 5)] none {} = some m ∧
    (m s1).st.lookup 0 "y" = s1.lookup 0 "y" :=
  ⟨_, rfl, mutator_keeps_bindings (name := "append") (d0 := none) (by decide) rfl rfl s1 0 "y"⟩

/-! ### 5: node level -/

theorem MutatesOnly.getIndex {a : Nat} (idx : RVal) (pos : Pos) : MutatesOnly a (getIndex idx pos) := by
  unfold Ckl.getIndex; mut!

theorem MutatesOnly.asStringM {a : Nat} (v : RVal) (pos : Pos) : MutatesOnly a (asStringM v pos) := by
  unfold Ckl.asStringM; mut!

/-- **derefAssign_frame**: `c[idx] = v`, once the three sub-expressions are evaluated (ending in
    state `s3`, the container being the cell `a`), changes no heap cell other than `a`, allocates
    nothing and leaves the variable bindings alone — whatever the kind of the cell and the outcome -/
theorem derefAssign_frame (ld : Loader) {fuel env e idxN vN pos s idx s1 a s2 v s3}
    (h1 : eval ld fuel env idxN s = .ok idx s1) (h2 : eval ld fuel env e s1 = .ok (.ref a) s2)
    (h3 : eval ld fuel env vN s2 = .ok v s3) :
    OnlyCell a s3 (eval ld (fuel+1) env (.derefAssign e idxN vN pos) s).st := by
  rw [eval, EvalM.bind_apply, h1]; dsimp only
  rw [EvalM.bind_apply, h2]; dsimp only
  rw [EvalM.bind_apply, h3]; dsimp only
  refine MutatesOnly.run (a := a) ?_ s3
  have := fun i p => MutatesOnly.getIndex (a := a) i p
  have := fun i p => MutatesOnly.asStringM (a := a) i p
  repeat' (first | mut_step | apply_assumption)

/-- the list case: exactly the addressed element is replaced -/
theorem derefAssign_list (ld : Loader) {fuel env e idxN vN pos s i s1 a s2 v s3 xs}
    (h1 : eval ld fuel env idxN s = .ok (.int i) s1) (h2 : eval ld fuel env e s1 = .ok (.ref a) s2)
    (h3 : eval ld fuel env vN s2 = .ok v s3) (hc : s3.cell a = some (.list xs))
    (hi : 0 ≤ i ∧ i < xs.length) :
    eval ld (fuel+1) env (.derefAssign e idxN vN pos) s =
      .ok (.ref a) (s3.setCell a (.list (xs.set i.toNat v))) := by
  rw [eval, EvalM.bind_apply, h1]; dsimp only
  rw [EvalM.bind_apply, h2]; dsimp only
  rw [EvalM.bind_apply, h3]; dsimp only
  rw [EvalM.bind_apply, cellOf_ref, hc]; dsimp only
  rw [EvalM.bind_apply]
  simp only [getIndex, EvalM.pure_apply]
  have hneg : ¬ (i < 0) := by omega
  have hb : ¬ (False ∨ i ≥ (xs.length : Int)) := by
    intro h; rcases h with h | h
    · exact h
    · omega
  simp only [hneg, if_false]
  rw [if_neg hb]
  rfl


/-- a slice `e[a to b]` only allocates when its sub-expressions do -/
theorem slice_allocates (ld : Loader) {fuel env e startN stopN pos}
    (he : Allocates (eval ld fuel env e)) (hs : Allocates (eval ld fuel env startN))
    (hp : Allocates (eval ld fuel env stopN)) :
    Allocates (eval ld (fuel+1) env (.slice e startN stopN pos)) := by
  unfold eval
  have := fun i p => Allocates.getIndex i p
  alloc!

/-- list literal items (spreads expanded in place) -/
theorem evalItems_allocates (ld : Loader) {env : EnvId} {pos : Pos} (items : List Node)
    (h : ∀ n ∈ items, ∀ fuel, Allocates (eval ld fuel env n)) :
    ∀ fuel, Allocates (evalItems ld fuel env items pos) := by
  have hsp := fun v p => Allocates.spreadValues v p
  induction items with
  | nil =>
    intro fuel
    cases fuel with
    | zero => rw [evalItems]; exact Allocates.failM _
    | succ fuel => rw [evalItems]; exact Allocates.pure _
  | cons n ns ih =>
    intro fuel
    have ihn := ih (fun n hn => h n (by simp [hn]))
    cases fuel with
    | zero => rw [evalItems]; exact Allocates.failM _
    | succ fuel =>
      unfold evalItems
      have hn := h n (by simp)
      split
      · rename_i e p
        have := hn (fuel + 1)
        unfold eval at this
        clear h ih hn
        alloc!
      · have := hn fuel
        clear h ih hn
        alloc!

theorem list_literal_allocates (ld : Loader) {env : EnvId} {pos : Pos} (items : List Node)
    (h : ∀ n ∈ items, ∀ fuel, Allocates (eval ld fuel env n)) (fuel : Nat) :
    Allocates (eval ld fuel env (.list items pos)) := by
  cases fuel with
  | zero => rw [eval]; exact Allocates.failM _
  | succ fuel =>
    rw [eval]
    have := evalItems_allocates ld (pos := pos) items h fuel
    alloc!


theorem evalSeq_allocates (ld : Loader) {env : EnvId} (items : List Node)
    (h : ∀ n ∈ items, ∀ fuel, Allocates (eval ld fuel env n)) :
    ∀ fuel, Allocates (evalSeq ld fuel env items) := by
  induction items with
  | nil =>
    intro fuel
    cases fuel with
    | zero => rw [evalSeq]; exact Allocates.failM _
    | succ fuel => rw [evalSeq]; exact Allocates.pure _
  | cons n ns ih =>
    intro fuel
    have ihn := ih (fun n hn => h n (by simp [hn]))
    cases fuel with
    | zero => rw [evalSeq]; exact Allocates.failM _
    | succ fuel =>
      rw [evalSeq]
      have := h n (by simp) fuel
      clear h ih
      alloc!

/-- a set literal only allocates when its items do -/
theorem set_literal_allocates (ld : Loader) {env : EnvId} {pos : Pos} (items : List Node)
    (h : ∀ n ∈ items, ∀ fuel, Allocates (eval ld fuel env n)) (fuel : Nat) :
    Allocates (eval ld fuel env (.set items pos)) := by
  cases fuel with
  | zero => rw [eval]; exact Allocates.failM _
  | succ fuel =>
    rw [eval]
    have := evalSeq_allocates ld items h fuel
    have := fun xs => Allocates.addSet xs
    clear h
    alloc!

theorem evalPairs_allocates (ld : Loader) {env : EnvId} (ks vs : List Node)
    (hk : ∀ n ∈ ks, ∀ fuel, Allocates (eval ld fuel env n))
    (hv : ∀ n ∈ vs, ∀ fuel, Allocates (eval ld fuel env n)) :
    ∀ fuel, Allocates (evalPairs ld fuel env ks vs) := by
  induction ks generalizing vs with
  | nil =>
    intro fuel
    cases fuel with
    | zero => rw [evalPairs]; exact Allocates.failM _
    | succ fuel => unfold evalPairs; exact Allocates.pure _
  | cons k ks ih =>
    intro fuel
    cases fuel with
    | zero => rw [evalPairs]; exact Allocates.failM _
    | succ fuel =>
      cases vs with
      | nil => unfold evalPairs; exact Allocates.pure _
      | cons v vs =>
        rw [evalPairs]
        have h1 := hk k (by simp) fuel
        have h2 := hv v (by simp) fuel
        have h3 := ih vs (fun n hn => hk n (by simp [hn])) (fun n hn => hv n (by simp [hn])) fuel
        clear hk hv ih
        alloc!

/-- a map literal only allocates when its keys and values do -/
theorem map_literal_allocates (ld : Loader) {env : EnvId} {pos : Pos} (ks vs : List Node)
    (hk : ∀ n ∈ ks, ∀ fuel, Allocates (eval ld fuel env n))
    (hv : ∀ n ∈ vs, ∀ fuel, Allocates (eval ld fuel env n)) (fuel : Nat) :
    Allocates (eval ld fuel env (.map ks vs pos)) := by
  cases fuel with
  | zero => rw [eval]; exact Allocates.failM _
  | succ fuel =>
    rw [eval]
    have := evalPairs_allocates ld ks vs hk hv fuel
    clear hk hv
    alloc!

/-- literals of atomic values and variable references only allocate (they change nothing) -/
theorem lit_allocates (ld : Loader) (fuel : Nat) (env : EnvId) (v : Val) (pos : Pos) :
    Allocates (eval ld fuel env (.lit v pos)) := by
  cases fuel with
  | zero => rw [eval]; exact Allocates.failM _
  | succ fuel => unfold eval; alloc!

theorem ident_allocates (ld : Loader) (fuel : Nat) (env : EnvId) (x : String) (pos : Pos) :
    Allocates (eval ld fuel env (.ident x pos)) := by
  cases fuel with
  | zero => rw [eval]; exact Allocates.failM _
  | succ fuel => unfold eval; alloc!

/-- non-vacuity: the list literal `[x, 1]` -/
example (ld : Loader) (env : EnvId) (fuel : Nat) :
    Allocates (eval ld fuel env (.list [.ident "x" {}, .lit (.int 1) {}] {})) := by
  apply list_literal_allocates
  intro n hn fuel
  simp only [List.mem_cons, List.not_mem_nil, or_false] at hn
  rcases hn with rfl | rfl
  · exact ident_allocates ld fuel env _ _
  · exact lit_allocates ld fuel env _ _


theorem Allocates.modifyS_heap (f : State → State) (h : ∀ s, (f s).heap = s.heap) :
    Allocates (modifyS f) := ⟨fun s => HeapPrefixEq.of_heap_eq (h s)⟩

theorem Allocates.put (e : EnvId) (x : String) (v : RVal) : Allocates (modifyS (fun s => s.put e x v)) :=
  Allocates.modifyS_heap _ (fun _ => rfl)

section
variable (ld : Loader) {kind : ComprKind} {ve ke cond : Node} {pos : Pos}
  (hve : ∀ fuel env, Allocates (eval ld fuel env ve))
  (hke : ∀ fuel env, Allocates (eval ld fuel env ke))
  (hcond : ∀ fuel env, Allocates (eval ld fuel env cond))
include hve hke hcond

theorem comprStep_allocates (fuel : Nat) (lenv : EnvId) :
    Allocates (comprStep ld fuel lenv kind ve ke cond pos) := by
  cases fuel with
  | zero => unfold comprStep; exact Allocates.failM _
  | succ fuel =>
    unfold comprStep
    have h1 := hve fuel lenv
    have h2 := hke fuel lenv
    have h3 := hcond fuel lenv
    clear hve hke hcond
    alloc!

theorem comprLoop_allocates (lenv : EnvId) (x : String) (vs : List RVal) :
    ∀ fuel acc, Allocates (comprLoop ld fuel lenv kind ve ke cond pos [(x, vs)] acc) := by
  induction vs with
  | nil =>
    intro fuel acc
    cases fuel with
    | zero => unfold comprLoop; exact Allocates.failM _
    | succ fuel => unfold comprLoop; exact Allocates.pure _
  | cons v vs ih =>
    intro fuel acc
    cases fuel with
    | zero => unfold comprLoop; exact Allocates.failM _
    | succ fuel =>
      unfold comprLoop
      have h1 := comprStep_allocates ld (kind := kind) (pos := pos) hve hke hcond fuel lenv
      have h2 := fun acc => ih fuel acc
      have h3 := fun e x v => Allocates.put e x v
      clear hve hke hcond ih
      alloc!

theorem comprProduct_allocates (lenv : EnvId) (x1 x2 : String) (vs ws : List RVal) :
    ∀ fuel acc, Allocates (comprProduct ld fuel lenv kind ve ke cond pos x1 vs x2 ws acc) := by
  induction vs with
  | nil =>
    intro fuel acc
    cases fuel with
    | zero => unfold comprProduct; exact Allocates.failM _
    | succ fuel => unfold comprProduct; exact Allocates.pure _
  | cons v vs ih =>
    intro fuel acc
    cases fuel with
    | zero => unfold comprProduct; exact Allocates.failM _
    | succ fuel =>
      unfold comprProduct
      have h1 := fun acc => comprLoop_allocates ld (kind := kind) (pos := pos) hve hke hcond lenv x2 ws fuel acc
      have h2 := fun acc => ih fuel acc
      have h3 := fun e x v => Allocates.put e x v
      clear hve hke hcond ih
      alloc!

theorem comprParallel_allocates (lenv : EnvId) (x1 x2 : String) (vs : List RVal) :
    ∀ ws fuel acc, Allocates (comprParallel ld fuel lenv kind ve ke cond pos x1 vs x2 ws acc) := by
  induction vs with
  | nil =>
    intro ws fuel acc
    cases fuel with
    | zero => unfold comprParallel; exact Allocates.failM _
    | succ fuel => unfold comprParallel; exact Allocates.pure _
  | cons v vs ih =>
    intro ws fuel acc
    cases fuel with
    | zero => unfold comprParallel; exact Allocates.failM _
    | succ fuel =>
      cases ws with
      | nil => unfold comprParallel; exact Allocates.pure _
      | cons w ws =>
        unfold comprParallel
        have h1 := comprStep_allocates ld (kind := kind) (pos := pos) hve hke hcond fuel lenv
        have h2 := fun acc => ih ws fuel acc
        have h3 := fun e x v => Allocates.put e x v
        clear hve hke hcond ih
        alloc!

/-- **comprehensions only allocate** when their sub-expressions do: the loop variables live in a
    fresh frame (not in the heap), the result is a new list / set / map cell -/
theorem compr_allocates {shape : ComprShape} {id1 id2 : String} {l1 l2 : Node} {w1 w2 : Option String}
    (hl1 : ∀ fuel env, Allocates (eval ld fuel env l1))
    (hl2 : ∀ fuel env, Allocates (eval ld fuel env l2)) (fuel : Nat) (env : EnvId) :
    Allocates (eval ld fuel env (.compr kind shape ve ke id1 l1 w1 id2 l2 w2 cond pos)) := by
  cases fuel with
  | zero => rw [eval]; exact Allocates.failM _
  | succ fuel =>
    unfold eval
    constructor
    intro s
    rw [EvalM.bind_apply, getS_apply]
    dsimp only [State.newEnv]
    rw [EvalM.bind_apply, setS_apply]
    dsimp only
    have key : ∀ (m : EvalM RVal) (s' : State), s'.heap = s.heap → Allocates m →
        HeapPrefixEq s (m s').st :=
      fun m s' hh hm => (HeapPrefixEq.of_heap_eq hh).trans (hm.run s')
    refine key _ _ rfl ?_
    clear key
    have h1 := hl1 fuel env
    have h2 := hl2 fuel env
    have h3 := fun v w p => Allocates.collectionValues v w p
    have h4 := fun k o => Allocates.comprResult k o
    have h5 := fun lenv x vs acc => comprLoop_allocates ld (kind := kind) (pos := pos) hve hke hcond lenv x vs fuel acc
    have h6 := fun lenv x1 x2 vs ws acc => comprProduct_allocates ld (kind := kind) (pos := pos) hve hke hcond lenv x1 x2 vs ws fuel acc
    have h7 := fun lenv x1 x2 vs ws acc => comprParallel_allocates ld (kind := kind) (pos := pos) hve hke hcond lenv x1 x2 vs ws fuel acc
    clear hve hke hcond hl1 hl2
    alloc!
end

theorem absent_allocates (ld : Loader) (fuel : Nat) (env : EnvId) :
    Allocates (eval ld fuel env .absent) := by
  cases fuel with
  | zero => rw [eval]; exact Allocates.failM _
  | succ fuel => unfold eval; alloc!

/-- non-vacuity: the comprehension `[x for x in y]` -/
example (ld : Loader) (fuel : Nat) (env : EnvId) :
    Allocates (eval ld fuel env
      (.compr .list .single (.ident "x" {}) .absent "x" (.ident "y" {}) none "" .absent none .absent {})) :=
  compr_allocates ld (fun f e => ident_allocates ld f e _ _) (fun f e => absent_allocates ld f e)
    (fun f e => absent_allocates ld f e) (fun f e => ident_allocates ld f e _ _)
    (fun f e => absent_allocates ld f e) fuel env


/-! ### non-vacuity: concrete instances of the theorems above -/

/-- a state with a list, a set and a map cell; `x` and `y` are aliases of the list -/
def s2 : State := { frames := #[{ vars := [("x", .ref 0), ("y", .ref 0)] }],
                    heap := #[.list [.int 1, .int 2], .set [.int 2], .map [(.int 1, .str ['a'])]] }

example := append_set (s := s2) (a := 1) (el := .int 3) (d0 := none) (pos := {})
  (args := [("lst", .ref 1), ("element", .int 3)]) rfl rfl rfl rfl
example := insert_at_list (s := s2) (a := 0) (d0 := none) (pos := {})
  (args := [("lst", .ref 0), ("index", .int 0), ("value", .int 9)]) rfl rfl rfl rfl rfl
example := delete_at_list (s := s2) (a := 0) (d0 := none) (pos := {})
  (args := [("lst", .ref 0), ("index", .int 0)]) rfl rfl rfl rfl
example := put_map (s := s2) (a := 2) (d0 := none) (pos := {})
  (args := [("m", .ref 2), ("key", .int 5), ("value", .null)]) rfl rfl rfl rfl rfl
example := remove_list (s := s2) (a := 0) (d0 := none) (pos := {})
  (args := [("lst", .ref 0), ("element", .int 1)]) rfl rfl rfl rfl (by simp [memR, rveq, rveqF])
example := remove_set (s := s2) (a := 1) (d0 := none) (pos := {})
  (args := [("lst", .ref 1), ("element", .int 2)]) rfl rfl rfl rfl (by simp [memR, rveq, rveqF])
example := remove_map (s := s2) (a := 2) (d0 := none) (pos := {})
  (args := [("lst", .ref 2), ("element", .int 1)]) rfl rfl rfl rfl (by simp [mapGet, rveq, rveqF])
example := mutator_frame' (name := "append") (d0 := none) (pos := {}) (s := s1)
  (args := [("lst", .ref 0), ("element", .int 5)]) (by decide) rfl rfl
  (append_list (s := s1) (d0 := none) rfl rfl rfl rfl)
example := returns_argument_identity (s := s2) (d0 := none) (pos := {}) (v := .ref 0)
  (args := [("obj", .ref 0)]) rfl rfl
example := returns_argument_if_null (s := s2) (d0 := none) (pos := {}) (a := .ref 0)
  (args := [("a", .ref 0), ("b", .int 1)]) rfl rfl rfl
example := returns_argument_if_null' (s := s2) (d0 := none) (pos := {}) (b := .ref 0)
  (args := [("a", .null), ("b", .ref 0)]) rfl rfl rfl
example := returns_argument_list (s := s2) (d0 := none) (pos := {}) (r := 0)
  (args := [("obj", .ref 0)]) rfl rfl rfl
example := returns_argument_set (s := s2) (d0 := none) (pos := {}) (r := 1)
  (args := [("obj", .ref 1)]) rfl rfl rfl
example := list_fresh_or_arg (s := s2) (d0 := none) (pos := {}) (r := 0)
  (args := [("obj", .ref 0)]) rfl
  (returns_argument_list (s := s2) (d0 := none) (pos := {}) (r := 0) (args := [("obj", .ref 0)]) rfl rfl rfl)
example := set_fresh_or_arg (s := s2) (d0 := none) (pos := {}) (r := 1)
  (args := [("obj", .ref 1)]) rfl
  (returns_argument_set (s := s2) (d0 := none) (pos := {}) (r := 1) (args := [("obj", .ref 1)]) rfl rfl rfl)
/-- `1 / 0` with `DIV_0_VALUE` bound to the list cell 0 returns that very cell -/
example : nativeDiv (.int 1) (.int 0) (some (.ref 0)) {} s2 = .ok (.ref 0) s2 := rfl
example := div_returns_div0 (s := s2) (a := .int 1) (b := .int 0) (d0 := some (.ref 0)) (pos := {})
  (r := 0) (s' := s2) rfl

theorem s2_x : eval ({} : Loader) 1 0 (.ident "x" {}) s2 = .ok (.ref 0) s2 := by rw [eval]; rfl

/-- `x[0] = 7` -/
example := derefAssign_list ({} : Loader) (fuel := 1) (env := 0) (pos := {}) (s := s2)
  (e := .ident "x" {}) (idxN := .lit (.int 0) {}) (vN := .lit (.int 7) {})
  (C04.eval_lit_int _ 0 0 0 {} s2) s2_x (C04.eval_lit_int _ 0 0 7 {} s2)
  (xs := [.int 1, .int 2]) rfl (by decide)
example := derefAssign_frame ({} : Loader) (fuel := 1) (env := 0) (pos := {}) (s := s2)
  (e := .ident "x" {}) (idxN := .lit (.int 0) {}) (vN := .lit (.int 7) {})
  (C04.eval_lit_int _ 0 0 0 {} s2) s2_x (C04.eval_lit_int _ 0 0 7 {} s2)
example (ld : Loader) (env : EnvId) (fuel : Nat) :=
  slice_allocates ld (pos := {}) (ident_allocates ld fuel env "x" {}) (lit_allocates ld fuel env (.int 0) {})
    (lit_allocates ld fuel env (.int 1) {})
example (ld : Loader) (env : EnvId) (fuel : Nat) :
    Allocates (eval ld fuel env (.set [.ident "x" {}] {})) := by
  apply set_literal_allocates
  intro n hn fuel
  simp only [List.mem_cons, List.not_mem_nil, or_false] at hn
  subst hn; exact ident_allocates ld fuel env _ _
example (ld : Loader) (env : EnvId) (fuel : Nat) :
    Allocates (eval ld fuel env (.map [.lit (.int 1) {}] [.ident "x" {}] {})) := by
  apply map_literal_allocates <;> intro n hn fuel <;>
    simp only [List.mem_cons, List.not_mem_nil, or_false] at hn <;> subst hn
  · exact lit_allocates ld fuel env _ _
  · exact ident_allocates ld fuel env _ _

end Ckl.C16
