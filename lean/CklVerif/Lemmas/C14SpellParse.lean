/-
  C14 (spelling) helper lemmas, part 4 (parser side):

  * `RStop`: a continuation that starts with a stop token (interpunction other than `(` `[`) or with
    one of the operators `!=` / `<>`; operands that `parse_add_expr` reads in front of such a
    continuation (`AddStable`);
  * `Stable`: token lists that `parse_expression` turns into a fixed AST in front of every stop
    continuation; closed under redundant parentheses, `!=` / `<>` of `AddStable` operands;
  * a `Stable` program parses to its AST, with or without a trailing `;`.
-/
import CklVerif.Lemmas.C08ParseList
namespace Ckl.C14S
open Ckl Ckl.Parser Ckl.C08

/-- the operator token `!=` or `<>` -/
def NeTok (t : Token) : Prop := t.type = .operator ∧ (t.value = ['!', '='] ∨ t.value = ['<', '>'])

/-- the rest of the input is empty, or starts with a stop token, or with `!=` / `<>` -/
def RStop (k : List Token) : Prop :=
  ∀ t ∈ k.head?, (t.type = .interpunction ∧ t.value ≠ ['('] ∧ t.value ≠ ['[']) ∨ NeTok t

theorem RStop.of_stop {k : List Token} (h : Stop k) : RStop k := fun t ht => Or.inl (h t ht)

theorem RStop.ne_cons {t : Token} (ht : NeTok t) (k : List Token) : RStop (t :: k) := by
  intro u hu; simp at hu; subst hu; exact Or.inr ht

/-- the token tests a continuation in `RStop` never passes -/
def Safe (v : List Char) : Option TokType → Prop
  | none => True
  | some .interpunction => v = ['('] ∨ v = ['[']
  | some .operator => v ≠ ['!', '='] ∧ v ≠ ['<', '>']
  | some _ => True

theorem tokIs_safe {t : Token} {v : List Char} {ty : Option TokType}
    (ht : (t.type = .interpunction ∧ t.value ≠ ['('] ∧ t.value ≠ ['[']) ∨ NeTok t) (hs : Safe v ty) :
    St.tokIs t v ty = false := by
  rcases ht with ⟨h1, h2, h3⟩ | ⟨h1, h2⟩
  · cases ty with
    | none => simp [St.tokIs, h1]
    | some ty =>
      cases ty <;> simp [St.tokIs, h1]
      simp only [Safe] at hs
      rcases hs with rfl | rfl
      · exact h2
      · exact h3
  · cases ty with
    | none => simp [St.tokIs, h1]
    | some ty =>
      cases ty <;> simp [St.tokIs, h1]
      simp only [Safe] at hs
      rcases h2 with h2 | h2 <;> rw [h2]
      · exact Ne.symm hs.1
      · exact Ne.symm hs.2

section rstop
variable {k : List Token} (hk : RStop k) (p : Pos)
include hk

theorem RStop.matchIf {v : List Char} {ty : Option TokType} (hs : Safe v ty) :
    St.matchIf ⟨p, k⟩ v ty = none := by
  cases k with
  | nil => rfl
  | cons u k' => simp [St.matchIf, tokIs_safe (hk u (by simp)) hs]

theorem RStop.peekn {v : List Char} {ty : Option TokType} (hs : Safe v ty) :
    St.peekn ⟨p, k⟩ 1 v ty = false := by
  cases k with
  | nil => simp [St.peekn]
  | cons u k' => simp [St.peekn, tokIs_safe (hk u (by simp)) hs]

theorem RStop.matchIf2 {v v2 : List Char} {ty ty2 : Option TokType} (hs : Safe v ty) :
    St.matchIf2 ⟨p, k⟩ v ty v2 ty2 = none := by
  cases k with
  | nil => rfl
  | cons u k' =>
    cases k' with
    | nil => rfl
    | cons u2 k'' => simp [St.matchIf2, tokIs_safe (hk u (by simp)) hs]

theorem RStop.matchIf3 {v v2 v3 : List Char} {ty ty2 ty3 : Option TokType} (hs : Safe v ty) :
    St.matchIf3 ⟨p, k⟩ v ty v2 ty2 v3 ty3 = none := by
  cases k with
  | nil => rfl
  | cons u k' =>
    cases k' with
    | nil => rfl
    | cons u2 k'' =>
      cases k'' with
      | nil => rfl
      | cons u3 k3 => simp [St.matchIf3, tokIs_safe (hk u (by simp)) hs]

theorem RStop.matchOpTable (tbl : List (List Char × String))
    (htbl : ∀ x ∈ tbl, x.1 ≠ ['!', '='] ∧ x.1 ≠ ['<', '>']) : matchOpTable ⟨p, k⟩ tbl = none := by
  induction tbl with
  | nil => rfl
  | cons x xs ih =>
    obtain ⟨v, fn⟩ := x
    have h1 := hk.matchIf p (v := v) (ty := some .operator) (htbl (v, fn) (by simp))
    simp [Parser.matchOpTable, h1, ih (fun y hy => htbl y (List.mem_cons_of_mem _ hy))]

theorem RStop.binPredTable : binPredTable ⟨p, k⟩ = none := by
  simp [Parser.binPredTable, hk.matchIf p (ty := some .keyword) trivial,
    hk.matchIf p (ty := some .identifier) trivial,
    hk.matchIf2 p (ty := some .keyword) trivial, hk.matchIf2 p (ty := some .identifier) trivial,
    hk.matchIf3 p (ty := some .identifier) trivial]

theorem RStop.postfixLoop (c : Ctx) (a b : Bool) (n : Node) :
    postfixLoop c a b ⟨p, k⟩ n = .ok ⟨n, ⟨p, k⟩, Nat.le_refl _⟩ := by
  rw [Parser.postfixLoop]
  simp [hk.matchIf p (v := ['!', '>']) (ty := some .operator) ⟨by decide, by decide⟩,
    hk.matchIf p (v := ['-', '>']) (ty := some .operator) ⟨by decide, by decide⟩,
    hk.matchIf p (v := ['(']) (ty := some .interpunction) (Or.inl rfl),
    hk.matchIf p (v := ['[']) (ty := some .interpunction) (Or.inr rfl)]

end rstop

theorem addOps_safe : ∀ x ∈ addOps, x.1 ≠ ['!', '='] ∧ x.1 ≠ ['<', '>'] := by decide
theorem mulOps_safe : ∀ x ∈ mulOps, x.1 ≠ ['!', '='] ∧ x.1 ≠ ['<', '>'] := by decide
theorem compoundOps_safe : ∀ x ∈ compoundOps, x.1 ≠ ['!', '='] ∧ x.1 ≠ ['<', '>'] := by decide

/-- If `parse_primary_expr` turns a prefix of `t :: rest` (first token neither keyword nor
    operator) into `e` and stops in front of an `RStop` continuation, so does `parse_add_expr`. -/
theorem add_of_primary (c : Ctx) (t : Token) (rest k : List Token) (e : Node) (q : Pos)
    (_hkw : t.type ≠ .keyword) (hop : t.type ≠ .operator) (hk : RStop k)
    (hprim : ∀ p, ∃ h, pPrimary c false ⟨p, t :: rest⟩ = .ok ⟨e, ⟨q, k⟩, h⟩) :
    ∀ p, ∃ h, pAdd c ⟨p, t :: rest⟩ = .ok ⟨e, ⟨q, k⟩, h⟩ := by
  have hpred : ∀ p, ∃ h, pPred c false ⟨p, t :: rest⟩ = .ok ⟨e, ⟨q, k⟩, h⟩ := by
    intro p; obtain ⟨h, hu⟩ := hprim p
    rw [pPred]
    simp [hu, hk.matchIf q (v := ['i', 's']) (ty := some .keyword) trivial, hk.binPredTable, bind,
      Except.bind, pure, Except.pure]
    simpa using h
  have hun : ∀ p, ∃ h, pUnary c ⟨p, t :: rest⟩ = .ok ⟨e, ⟨q, k⟩, h⟩ := by
    intro p; obtain ⟨h, hu⟩ := hpred p
    have hop' : ∀ v, St.matchIf ⟨p, t :: rest⟩ v (some .operator) = none := by
      intro v; simp [St.matchIf, St.tokIs, hop]
    rw [pUnary]; simp [hop', hu]
    simpa using h
  have hmul : ∀ p, ∃ h, pMul c ⟨p, t :: rest⟩ = .ok ⟨e, ⟨q, k⟩, h⟩ := by
    intro p; obtain ⟨h, hu⟩ := hun p
    rw [pMul]; simp [hu, bind, Except.bind, pure, Except.pure]; rw [mulLoop]
    simp [hk.matchOpTable q mulOps mulOps_safe]
    simpa using h
  intro p; obtain ⟨h, hu⟩ := hmul p
  rw [pAdd]; simp [hu, bind, Except.bind, pure, Except.pure]; rw [addLoop]
  simp [hk.matchOpTable q addOps addOps_safe]
  simpa using h

/-- from `parse_rel_expr` up to `parse_expression`, in front of a stop continuation -/
theorem expr_of_rel (c : Ctx) (t : Token) (rest k : List Token) (e : Node) (q : Pos)
    (hkw : t.type ≠ .keyword) (hk : Stop k)
    (hrel : ∀ p, ∃ h, pRel c ⟨p, t :: rest⟩ = .ok ⟨e, ⟨q, k⟩, h⟩) :
    ∀ p, ∃ h, pExpression c ⟨p, t :: rest⟩ = .ok ⟨e, ⟨q, k⟩, h⟩ := by
  have hkw' : ∀ p v, St.matchIf ⟨p, t :: rest⟩ v (some .keyword) = none := by
    intro p v; simp [St.matchIf, St.tokIs, hkw]
  have hnot : ∀ p, ∃ h, pNot c ⟨p, t :: rest⟩ = .ok ⟨e, ⟨q, k⟩, h⟩ := by
    intro p; obtain ⟨h, hu⟩ := hrel p
    rw [pNot]; simp [hkw', hu]
    simpa using h
  have hand : ∀ p, ∃ h, pAnd c ⟨p, t :: rest⟩ = .ok ⟨e, ⟨q, k⟩, h⟩ := by
    intro p; obtain ⟨h, hu⟩ := hnot p
    rw [pAnd]; simp [hu, hk.peekn_ty q _ .keyword (by decide), bind, Except.bind, pure, Except.pure]
    simpa using h
  have hor : ∀ p, ∃ h, pOr c ⟨p, t :: rest⟩ = .ok ⟨e, ⟨q, k⟩, h⟩ := by
    intro p; obtain ⟨h, hu⟩ := hand p
    rw [pOr]; simp [hu, hk.peekn_ty q _ .keyword (by decide), bind, Except.bind, pure, Except.pure]
    simpa using h
  intro p; obtain ⟨h, hu⟩ := hor p
  rw [pExpression]; simp [hkw', hu]
  simpa using h

/-! ### operands -/

/-- the first token is no keyword, and if it is a string the second token is no keyword (a string
    directly before `def` would be taken as the doc comment of the definition) -/
def HeadOK (ts : List Token) : Prop :=
  ∃ t0 rest, ts = t0 :: rest ∧ t0.type ≠ .keyword ∧
    (t0.type = .string → ∀ t1 ∈ rest.head?, t1.type ≠ .keyword)

/-- a token list that `parse_add_expr` turns into the AST `e`, stopping in front of every `RStop`
    continuation; its first token is neither a keyword nor a string (doc-comment position) -/
structure AddStable (ts : List Token) (e : Node) : Prop where
  head : HeadOK ts
  add : ∀ (c : Ctx) (k : List Token), RStop k →
    ∃ q, ∀ p, ∃ h, pAdd c ⟨p, ts ++ k⟩ = .ok ⟨e, ⟨q, k⟩, h⟩

/-- atoms: one int / string / boolean / identifier token and its AST -/
inductive Atom : Token → Node → Prop
  | int (t : Token) (n : Nat) : t.type = .int → parseIntLit t.value = some n →
      Atom t (.lit (.int n) t.pos)
  | str (t : Token) : t.type = .string → Atom t (.lit (.str t.value) t.pos)
  | bool (t : Token) : t.type = .boolean →
      Atom t (.lit (.bool (t.value == ['T', 'R', 'U', 'E'])) t.pos)
  | ident (t : Token) : t.type = .identifier → Atom t (.ident (str t.value) t.pos)

theorem Atom.type {t : Token} {n : Node} (h : Atom t n) : t.type ≠ .keyword ∧ t.type ≠ .operator := by
  cases h <;> simp_all

theorem Atom.addStable {t : Token} {n : Node} (h : Atom t n) : AddStable [t] n where
  head := ⟨t, [], rfl, h.type.1, fun _ t1 h1 => nomatch h1⟩
  add c k hk := by
    refine ⟨t.pos, ?_⟩
    apply add_of_primary c t k k n t.pos h.type.1 h.type.2 hk
    intro p; refine ⟨by simp, ?_⟩
    cases h with
    | int n ht hv =>
      rw [pPrimary]
      simp [St.hasNext, St.next, ht, hv, hk.postfixLoop, leLt, bind, Except.bind]
    | str ht =>
      rw [pPrimary]
      simp [St.hasNext, St.next, ht, hk.postfixLoop, leLt, strLit, bind, Except.bind]
    | bool ht =>
      rw [pPrimary]
      simp [St.hasNext, St.next, ht, hk.postfixLoop, leLt, bind, Except.bind]
    | ident ht =>
      rw [pPrimary]
      simp [St.hasNext, St.next, ht, hk.postfixLoop,
        hk.matchIf t.pos (v := ['=']) (ty := some .operator) ⟨by decide, by decide⟩,
        hk.matchOpTable t.pos compoundOps compoundOps_safe, leLt, bind, Except.bind]

/-! ### `!=` / `<>` -/

theorem relCmp_bang_eq (l r : Node) (pos : Pos) :
    relCmp ['!', '='] l r pos = funcCallAB "not_equals" l r pos := by
  simp [relCmp]

theorem relCmp_lt_gt (l r : Node) (pos : Pos) :
    relCmp ['<', '>'] l r pos = funcCallAB "not_equals" l r pos := by
  simp [relCmp]

theorem NeTok.relCmp {t : Token} (ht : NeTok t) (l r : Node) (pos : Pos) :
    relCmp t.value l r pos = funcCallAB "not_equals" l r pos := by
  rcases ht.2 with h | h <;> rw [h]
  · exact relCmp_bang_eq l r pos
  · exact relCmp_lt_gt l r pos

theorem NeTok.isRelop {t : Token} (ht : NeTok t) : isRelop t = true := by
  rcases ht.2 with h | h <;> simp [Parser.isRelop, relops, h, ht.1]

theorem NeTok.ne_is {t : Token} (ht : NeTok t) : (t.value == ['i', 's']) = false := by
  rcases ht.2 with h | h <;> rw [h] <;> rfl

theorem relopNext_stop (c : Ctx) {k : List Token} (hk : Stop k) (q : Pos) :
    relopNext c ⟨q, k⟩ = .ok none := by
  cases k with
  | nil => rfl
  | cons u k' =>
    have := (hk u (by simp)).1
    simp [relopNext, Parser.isRelop, this]

/-- **the comparison**: operands `l` and `r` around a `!=` / `<>` token, in front of a stop
    continuation: `parse_expression` returns the call of `not_equals`, positioned at the operator -/
theorem ne_expr {l r : List Token} {el er : Node} (hl : AddStable l el) (hr : AddStable r er)
    {t : Token} (ht : NeTok t) (c : Ctx) (k : List Token) (hk : Stop k) :
    ∃ q, ∀ p, ∃ h, pExpression c ⟨p, l ++ t :: (r ++ k)⟩ =
      .ok ⟨funcCallAB "not_equals" el er t.pos, ⟨q, k⟩, h⟩ := by
  obtain ⟨t0, rest, rfl, hkw, _⟩ := hl.head
  obtain ⟨ql, hladd⟩ := hl.add c (t :: (r ++ k)) (RStop.ne_cons ht _)
  obtain ⟨qr, hradd⟩ := hr.add c k (RStop.of_stop hk)
  refine ⟨qr, ?_⟩
  have e : t0 :: rest ++ t :: (r ++ k) = t0 :: (rest ++ t :: (r ++ k)) := rfl
  rw [e]
  apply expr_of_rel c t0 _ k _ qr hkw hk
  intro p
  obtain ⟨h1, hu1⟩ := hladd p
  obtain ⟨h2, hu2⟩ := hradd t.pos
  have hu1' := hu1
  simp only [List.cons_append] at hu1'
  have hguard : relGuard ⟨ql, t :: (r ++ k)⟩ = true := by simp [relGuard, ht.isRelop]
  have hnext : relopNext c ⟨ql, t :: (r ++ k)⟩ =
      .ok (some (t.value, ⟨⟨t.pos, r ++ k⟩, by simp⟩)) := by
    simp [relopNext, ht.isRelop, ht.ne_is]
  have hloop : ∃ h, relLoop c ⟨ql, t :: (r ++ k)⟩ el [] =
      .ok ⟨[funcCallAB "not_equals" el er t.pos], ⟨qr, k⟩, h⟩ := by
    refine ⟨by simp at h2 ⊢; omega, ?_⟩
    rw [relLoop]
    simp [hnext, hu2, bind, Except.bind, pure, Except.pure]
    rw [relLoop]
    simp [relopNext_stop c hk, ht.relCmp, bind, Except.bind, pure, Except.pure]
  obtain ⟨h3, hloop⟩ := hloop
  refine ⟨by simp at h3 ⊢; omega, ?_⟩
  rw [pRel]
  simp [hu1', hguard, hloop, bind, Except.bind, pure, Except.pure]

/-! ### stable expressions -/

/-- transport along an equation of token lists (the result carries a proof about their length) -/
theorem exists_ok_congr {f : (st : St) → R Node st.toks.length} {p q : Pos} {a b k : List Token}
    {v : Node} (e : a = b) (h : ∃ h, f ⟨p, b⟩ = .ok ⟨v, ⟨q, k⟩, h⟩) :
    ∃ h, f ⟨p, a⟩ = .ok ⟨v, ⟨q, k⟩, h⟩ := by
  subst e; exact h

/-- a token list that `parse_expression` turns into the AST `e`, stopping in front of every stop
    continuation -/
structure Stable (ts : List Token) (e : Node) : Prop where
  head : HeadOK ts
  expr : ∀ (c : Ctx) (k : List Token), Stop k →
    ∃ q, ∀ p, ∃ h, pExpression c ⟨p, ts ++ k⟩ = .ok ⟨e, ⟨q, k⟩, h⟩

theorem Stable.of_lit {ts : List Token} {n : Node} (h : LitToks ts n) : Stable ts n where
  head := by
    obtain ⟨t0, ts', h1, h2, _, h4⟩ := h.head
    refine ⟨t0, ts', h1, h2, fun hs t1 ht1 => ?_⟩
    cases ts' with
    | nil => cases ht1
    | cons a b => exact absurd ⟨hs, by simp⟩ h4
  expr c k hk := LitToks.expr c h k hk

theorem Stable.of_ne {l r : List Token} {el er : Node} (hl : AddStable l el) (hr : AddStable r er)
    {t : Token} (ht : NeTok t) : Stable (l ++ t :: r) (funcCallAB "not_equals" el er t.pos) where
  head := by
    obtain ⟨t0, rest, rfl, hkw, hs⟩ := hl.head
    refine ⟨t0, rest ++ t :: r, rfl, hkw, fun hstr t1 ht1 => ?_⟩
    cases rest with
    | nil =>
      simp at ht1; subst ht1
      rw [ht.1]; decide
    | cons a b =>
      simp at ht1; subst ht1
      exact hs hstr _ (by simp)
  expr c k hk := by
    obtain ⟨q, hq⟩ := ne_expr hl hr ht c k hk
    exact ⟨q, fun p => exists_ok_congr (f := pExpression c) (by simp) (hq p)⟩

/-! ### literals as operands -/

/-- from `parse_unary_expr` to `parse_add_expr`, in front of an `RStop` continuation -/
theorem add_of_unary (c : Ctx) (t : Token) (rest k : List Token) (e : Node) (q : Pos) (hk : RStop k)
    (hun : ∀ p, ∃ h, pUnary c ⟨p, t :: rest⟩ = .ok ⟨e, ⟨q, k⟩, h⟩) :
    ∀ p, ∃ h, pAdd c ⟨p, t :: rest⟩ = .ok ⟨e, ⟨q, k⟩, h⟩ := by
  have hmul : ∀ p, ∃ h, pMul c ⟨p, t :: rest⟩ = .ok ⟨e, ⟨q, k⟩, h⟩ := by
    intro p; obtain ⟨h, hu⟩ := hun p
    rw [pMul]; simp [hu, bind, Except.bind, pure, Except.pure]; rw [mulLoop]
    simp [hk.matchOpTable q mulOps mulOps_safe]
    simpa using h
  intro p; obtain ⟨h, hu⟩ := hmul p
  rw [pAdd]; simp [hu, bind, Except.bind, pure, Except.pure]; rw [addLoop]
  simp [hk.matchOpTable q addOps addOps_safe]
  simpa using h

/-- `[` … : `parse_primary_expr` hands over to `parse_list_literal` (continuation in `RStop`) -/
theorem primary_openR (c : Ctx) (tl : Token) (hl : IsTok tl ['['] .interpunction) (R k : List Token)
    (e : Node) (q : Pos) (hk : RStop k)
    (hlist : ∃ h, pListLiteral c tl.pos ⟨tl.pos, R⟩ = .ok ⟨e, ⟨q, k⟩, h⟩) :
    ∀ p, ∃ h, pPrimary c false ⟨p, tl :: R⟩ = .ok ⟨e, ⟨q, k⟩, h⟩ := by
  intro p
  obtain ⟨h, hlist⟩ := hlist
  have hkw : pPrimaryKw c tl ⟨tl.pos, R⟩ = .ok ⟨e, ⟨q, k⟩, Nat.le_of_lt h⟩ := by
    rw [pPrimaryKw]
    simp [hl.1, hl.2, hlist, hk.peekn q (v := ['=']) (ty := some .operator) ⟨by decide, by decide⟩,
      bind, Except.bind, pure, Except.pure]
  refine ⟨by simp at h ⊢; omega, ?_⟩
  rw [pPrimary]
  simp [St.hasNext, St.next, hl.1, hl.2, hkw, leLt, bind, Except.bind]

/-- every literal of C08 (ints with sign, strings, booleans, identifiers, nested lists of these)
    is an operand -/
theorem LitToks.addStable {ts : List Token} {n : Node} (h : LitToks ts n) : AddStable ts n where
  head := (Stable.of_lit h).head
  add c k hk := by
    cases h with
    | int t n ht hv => exact (Atom.int t n ht hv).addStable.add c k hk
    | str t ht => exact (Atom.str t ht).addStable.add c k hk
    | bool t ht => exact (Atom.bool t ht).addStable.add c k hk
    | ident t ht => exact (Atom.ident t ht).addStable.add c k hk
    | negInt tm t n hm ht hv =>
      refine ⟨t.pos, ?_⟩
      apply add_of_unary c tm (t :: k) k _ t.pos hk
      intro p
      have hprim : ∀ p, pPrimary c true ⟨p, t :: k⟩ =
          .ok ⟨.lit (.int (-(n : Int))) t.pos, ⟨t.pos, k⟩, by simp⟩ := by
        intro p; rw [pPrimary]
        simp [St.hasNext, St.next, ht, hv, hk.postfixLoop, leLt, bind, Except.bind]
      have hpred : ∀ p, pPred c true ⟨p, t :: k⟩ =
          .ok ⟨.lit (.int (-(n : Int))) t.pos, ⟨t.pos, k⟩, by simp⟩ := by
        intro p; rw [pPred]
        simp [hprim, hk.matchIf t.pos (v := ['i', 's']) (ty := some .keyword) trivial,
          hk.binPredTable, bind, Except.bind, pure, Except.pure]
      refine ⟨by simp; omega, ?_⟩
      rw [pUnary]
      simp [St.matchIf, St.tokIs, hm.1, hm.2, St.peek, ht, hpred, bind, Except.bind, pure, Except.pure]
    | nil tl tr hl hr =>
      refine ⟨tr.pos, ?_⟩
      apply add_of_primary c tl (tr :: k) k _ tr.pos (by simp [hl.2]) (by simp [hl.2]) hk
      apply primary_openR c tl hl (tr :: k) k _ tr.pos hk
      refine ⟨by simp, ?_⟩
      rw [pListLiteral]
      simp [St.matchIf, St.tokIs, hr.1, hr.2, hk.postfixLoop, leLt]
    | list tl tr ts rest n ns hl hr hts hrest =>
      refine ⟨tr.pos, ?_⟩
      have hk1 : Stop (rest ++ tr :: k) := hrest.stop hr k
      obtain ⟨q1, he⟩ := LitToks.expr c hts (rest ++ tr :: k) hk1
      obtain ⟨h1, he⟩ := he tl.pos
      obtain ⟨q2, h2, hloop⟩ := RestToks.loop c hrest tr k hr q1 [] n
      obtain ⟨t0, ts', hts0, _, hnc, _⟩ := hts.head
      have hnc' : St.matchIf ⟨tl.pos, ts ++ (rest ++ tr :: k)⟩ [']'] (some .interpunction) = none := by
        rw [hts0]
        have : (t0.value == [']'] && t0.type == .interpunction) = false := by
          rw [Bool.eq_false_iff]; intro h
          simp only [Bool.and_eq_true, beq_iff_eq] at h
          exact hnc ⟨h.1, h.2⟩
        simp [St.matchIf, St.tokIs, this]
      have e : tl :: (ts ++ (rest ++ [tr])) ++ k = tl :: (ts ++ (rest ++ tr :: k)) := by simp
      intro p
      apply exists_ok_congr (f := pAdd c) e
      revert p
      apply add_of_primary c tl _ k _ tr.pos (by simp [hl.2]) (by simp [hl.2]) hk
      apply primary_openR c tl hl _ k _ tr.pos hk
      refine ⟨by simp; omega, ?_⟩
      rw [pListLiteral]
      simp [hnc', he, hk1.matchIf_ty q1 _ .keyword (by decide), hloop, St.expect, hr.1, hr.2,
        hk.postfixLoop, bind, Except.bind, pure, Except.pure]

/-! ### statements, blocks, programs -/

theorem takeComment_headOK {t0 : Token} {rest k : List Token} (hh : HeadOK (t0 :: rest))
    (hk : Stop k) (p : Pos) :
    takeComment ⟨p, t0 :: rest ++ k⟩ = ([], ⟨⟨p, t0 :: rest ++ k⟩, Nat.le_refl _⟩) := by
  obtain ⟨t0', rest', e, hkw, hs⟩ := hh
  cases e
  by_cases hstr : t0.type = .string
  · cases rest with
    | nil =>
      cases k with
      | nil => simp [takeComment, St.peekn]
      | cons u k' =>
        have := (hk u (by simp)).1
        simp [takeComment, St.peekn, St.tokIs, this]
    | cons t1 r =>
      have := hs hstr t1 (by simp)
      simp [takeComment, St.peekn, St.tokIs, this]
  · simp [takeComment, hstr]

/-- a stable expression is a statement -/
theorem Stable.stmt {ts : List Token} {e : Node} (h : Stable ts e) (c : Ctx) (k : List Token)
    (hk : Stop k) : ∃ q, ∀ p, ∃ hh, pStatement c ⟨p, ts ++ k⟩ = .ok ⟨e, ⟨q, k⟩, hh⟩ := by
  obtain ⟨q, hq⟩ := h.expr c k hk
  obtain ⟨t0, rest, rfl, hkw, hs⟩ := h.head
  refine ⟨q, fun p => ?_⟩
  have hq' : ∃ h, pExpression c ⟨p, t0 :: (rest ++ k)⟩ = .ok ⟨e, ⟨q, k⟩, h⟩ := hq p
  obtain ⟨h1, hu⟩ := hq'
  have hkw' : ∀ v, St.matchIf ⟨p, t0 :: (rest ++ k)⟩ v (some .keyword) = none := by
    intro v; simp [St.matchIf, St.tokIs, hkw]
  show ∃ hh, pStatement c ⟨p, t0 :: (rest ++ k)⟩ = .ok ⟨e, ⟨q, k⟩, hh⟩
  refine ⟨h1, ?_⟩
  rw [pStatement]
  have htc : takeComment ⟨p, t0 :: (rest ++ k)⟩ = ([], ⟨⟨p, t0 :: (rest ++ k)⟩, Nat.le_refl _⟩) :=
    takeComment_headOK ⟨t0, rest, rfl, hkw, hs⟩ hk p
  generalize takeComment ⟨p, t0 :: (rest ++ k)⟩ = tc at htc ⊢
  subst htc
  simp [St.hasNext, hkw', hu, wkLt]

theorem Stable.peek_do {ts : List Token} {e : Node} (h : Stable ts e) (k : List Token) (p : Pos) :
    St.peekn ⟨p, ts ++ k⟩ 1 ['d', 'o'] (some .keyword) = false := by
  obtain ⟨t0, rest, rfl, hkw, _⟩ := h.head
  simp [St.peekn, St.tokIs, hkw]

/-- the whole block is one stable expression -/
theorem Stable.bare_nil {ts : List Token} {e : Node} (h : Stable ts e) (c : Ctx) (tl : Bool) :
    ∃ q, ∀ p, ∃ hh, pBareBlock c tl ⟨p, ts⟩ = .ok ⟨e, ⟨q, []⟩, hh⟩ := by
  obtain ⟨q, hq⟩ := h.stmt c [] Stop.nil
  refine ⟨q, fun p => ?_⟩
  obtain ⟨h1, hu⟩ := exists_ok_congr (f := pStatement c) (a := ts) (b := ts ++ []) (by simp) (hq p)
  have hpk := h.peek_do [] p
  simp only [List.append_nil] at hpk
  refine ⟨h1, ?_⟩
  rw [pBareBlock]
  simp [hpk, hu, St.hasNext, bind, Except.bind, pure, Except.pure]

/-- … followed by a trailing `;`: the statement loop consumes it and ends with the same list -/
theorem Stable.bare_semi {ts : List Token} {e : Node} (h : Stable ts e) (c : Ctx) (tl : Bool)
    {semi : Token} (hsemi : IsTok semi [';'] .interpunction) :
    ∀ p, ∃ hh, pBareBlock c tl ⟨p, ts ++ [semi]⟩ = .ok ⟨e, ⟨semi.pos, []⟩, hh⟩ := by
  have hk : Stop [semi] := Stop.cons hsemi.2 (by rw [hsemi.1]; decide) (by rw [hsemi.1]; decide)
  obtain ⟨q, hq⟩ := h.stmt c [semi] hk
  intro p
  obtain ⟨h1, hu⟩ := hq p
  have hpk := h.peek_do [semi] p
  have hloop : bareLoop c ⟨q, [semi]⟩ [e] = .ok ⟨[e], ⟨semi.pos, []⟩, by simp⟩ := by
    rw [bareLoop]
    simp [St.matchIf, St.tokIs, hsemi.1, hsemi.2, St.hasNext]
  refine ⟨by simp, ?_⟩
  rw [pBareBlock]
  simp [hpk, hu, St.hasNext, hloop, simplifyBlock, bind, Except.bind, pure, Except.pure]

/-- … followed by a closing parenthesis: the statement loop stops in front of it -/
theorem Stable.bare_close {ts : List Token} {e : Node} (h : Stable ts e) (c : Ctx) (tl : Bool)
    {rp : Token} (hrp : IsTok rp [')'] .interpunction) (k : List Token) :
    ∃ q, ∀ p, ∃ hh, pBareBlock c tl ⟨p, ts ++ rp :: k⟩ = .ok ⟨e, ⟨q, rp :: k⟩, hh⟩ := by
  have hk : Stop (rp :: k) := Stop.cons hrp.2 (by rw [hrp.1]; decide) (by rw [hrp.1]; decide)
  obtain ⟨q, hq⟩ := h.stmt c (rp :: k) hk
  refine ⟨q, fun p => ?_⟩
  obtain ⟨h1, hu⟩ := hq p
  have hpk := h.peek_do (rp :: k) p
  have hloop : bareLoop c ⟨q, rp :: k⟩ [e] = .ok ⟨[e], ⟨q, rp :: k⟩, Nat.le_refl _⟩ := by
    rw [bareLoop]
    simp [St.matchIf, St.tokIs, hrp.1]
  refine ⟨h1, ?_⟩
  rw [pBareBlock]
  simp [hpk, hu, St.hasNext, hloop, simplifyBlock, bind, Except.bind, pure, Except.pure]

/-- **redundant parentheses**: `( ts )` is stable with the same AST -/
theorem Stable.paren {ts : List Token} {e : Node} (h : Stable ts e) {lp rp : Token}
    (hl : IsTok lp ['('] .interpunction) (hr : IsTok rp [')'] .interpunction) :
    Stable (lp :: (ts ++ [rp])) e where
  head := ⟨lp, ts ++ [rp], rfl, by simp [hl.2], fun hs => by rw [hl.2] at hs; cases hs⟩
  expr c k hk := by
    refine ⟨rp.pos, ?_⟩
    have e1 : lp :: (ts ++ [rp]) ++ k = lp :: (ts ++ rp :: k) := by simp
    intro p
    apply exists_ok_congr (f := pExpression c) e1
    revert p
    apply expr_of_primary c lp (ts ++ rp :: k) k e rp.pos (by simp [hl.2]) (by simp [hl.2]) hk
    intro p
    obtain ⟨q, hq⟩ := h.bare_close c false hr k
    obtain ⟨h1, hb⟩ := hq lp.pos
    refine ⟨by simp at h1 ⊢; omega, ?_⟩
    rw [pPrimary]
    simp [St.hasNext, St.next, hl.1, hl.2, hb, St.expect, hr.1, hr.2, hk.postfixLoop, bind,
      Except.bind, pure, Except.pure]

/-- a parenthesised stable expression is an operand of `!=` / `<>` -/
theorem Stable.paren_add {ts : List Token} {e : Node} (h : Stable ts e) {lp rp : Token}
    (hl : IsTok lp ['('] .interpunction) (hr : IsTok rp [')'] .interpunction) :
    AddStable (lp :: (ts ++ [rp])) e where
  head := ⟨lp, ts ++ [rp], rfl, by simp [hl.2], fun hs => by rw [hl.2] at hs; cases hs⟩
  add c k hk := by
    refine ⟨rp.pos, ?_⟩
    have e1 : lp :: (ts ++ [rp]) ++ k = lp :: (ts ++ rp :: k) := by simp
    intro p
    apply exists_ok_congr (f := pAdd c) e1
    revert p
    apply add_of_primary c lp (ts ++ rp :: k) k e rp.pos (by simp [hl.2]) (by simp [hl.2]) hk
    intro p
    obtain ⟨q, hq⟩ := h.bare_close c false hr k
    obtain ⟨h1, hb⟩ := hq lp.pos
    refine ⟨by simp at h1 ⊢; omega, ?_⟩
    rw [pPrimary]
    simp [St.hasNext, St.next, hl.1, hl.2, hb, St.expect, hr.1, hr.2, hk.postfixLoop, bind,
      Except.bind, pure, Except.pure]

/-- a program that is one stable expression parses to its AST -/
theorem Stable.parse {ts : List Token} {e : Node} (h : Stable ts e) (validRe : List Char → Bool)
    (file : String) : parseWith validRe file ts = .ok (unwrapReturn e) := by
  obtain ⟨t0, rest, rfl, _, _⟩ := h.head
  obtain ⟨q, hq⟩ := h.bare_nil ⟨endPosOf file (t0 :: rest), validRe⟩ true
  obtain ⟨h1, hb⟩ := hq t0.pos
  simp [parseWith, parseCore, hb]

/-- … and so does the program with a trailing `;` -/
theorem Stable.parse_semi {ts : List Token} {e : Node} (h : Stable ts e) (validRe : List Char → Bool)
    (file : String) {semi : Token} (hsemi : IsTok semi [';'] .interpunction) :
    parseWith validRe file (ts ++ [semi]) = .ok (unwrapReturn e) := by
  obtain ⟨t0, rest, rfl, _, _⟩ := h.head
  have hb' : ∃ hh, pBareBlock ⟨endPosOf file (t0 :: (rest ++ [semi])), validRe⟩ true
      ⟨t0.pos, t0 :: (rest ++ [semi])⟩ = .ok ⟨e, ⟨semi.pos, []⟩, hh⟩ :=
    h.bare_semi ⟨endPosOf file (t0 :: (rest ++ [semi])), validRe⟩ true hsemi t0.pos
  obtain ⟨h1, hb⟩ := hb'
  show parseWith validRe file (t0 :: (rest ++ [semi])) = _
  simp [parseWith, parseCore, hb]

/-! ### sequences of expression statements -/

/-- the statements after the first: each preceded by a `;` -/
inductive StmtSeq : List Token → List Node → Prop
  | nil : StmtSeq [] []
  | cons (semi : Token) (ts rest : List Token) (e : Node) (es : List Node) :
      IsTok semi [';'] .interpunction → Stable ts e → StmtSeq rest es →
      StmtSeq (semi :: (ts ++ rest)) (e :: es)

/-- the end of the program: nothing, or one trailing `;` -/
def EndOpt (k : List Token) : Prop := k = [] ∨ ∃ semi, IsTok semi [';'] .interpunction ∧ k = [semi]

theorem stop_semi {semi : Token} (h : IsTok semi [';'] .interpunction) (k : List Token) :
    Stop (semi :: k) :=
  Stop.cons h.2 (by rw [h.1]; decide) (by rw [h.1]; decide)

theorem StmtSeq.stop {rest : List Token} {es : List Node} (h : StmtSeq rest es) {k : List Token}
    (hk : EndOpt k) : Stop (rest ++ k) := by
  cases h with
  | nil =>
    rcases hk with rfl | ⟨semi, hs, rfl⟩
    · exact Stop.nil
    · exact stop_semi hs _
  | cons semi ts rest e es hs _ _ => exact stop_semi hs _

/-- the statement loop of `parse_bare_block` collects the statements; a trailing `;` is consumed
    without adding anything -/
theorem StmtSeq.loop (c : Ctx) : ∀ {rest : List Token} {es : List Node}, StmtSeq rest es →
    ∀ (k : List Token), EndOpt k → ∀ (q : Pos) (acc : List Node),
    ∃ q' hle, bareLoop c ⟨q, rest ++ k⟩ acc = .ok ⟨acc ++ es, ⟨q', []⟩, hle⟩
  | _, _, .nil, k, hk, q, acc => by
    rcases hk with rfl | ⟨semi, hs, rfl⟩
    · refine ⟨q, by simp, ?_⟩
      rw [bareLoop]; simp
    · refine ⟨semi.pos, by simp, ?_⟩
      rw [bareLoop]
      simp [St.matchIf, St.tokIs, hs.1, hs.2, St.hasNext]
  | _, _, .cons semi ts rest e es hs hst hrest, k, hk, q, acc => by
    obtain ⟨q1, hq1⟩ := hst.stmt c (rest ++ k) (hrest.stop hk)
    obtain ⟨h1, hu⟩ := hq1 semi.pos
    obtain ⟨q2, h2, hloop⟩ := StmtSeq.loop c hrest k hk q1 (acc ++ [e])
    have hpk := hst.peek_do (rest ++ k) semi.pos
    obtain ⟨t0, r0, hts, _, _⟩ := hst.head
    have hne : (ts ++ (rest ++ k)).isEmpty = false := by rw [hts]; rfl
    have e1 : semi :: (ts ++ rest) ++ k = semi :: (ts ++ (rest ++ k)) := by simp
    refine ⟨q2, by simp, ?_⟩
    rw [bareLoop]
    simp only [e1]
    simp [St.matchIf, St.tokIs, hs.1, hs.2, St.hasNext, hne, hpk, hu, hloop, bind, Except.bind, pure,
      Except.pure]

/-- a program `s₁ ; s₂ ; … ; sₙ` (n ≥ 2) of stable expression statements, with or without a
    trailing `;`, parses to the same block -/
theorem StmtSeq.parse {ts rest : List Token} {e : Node} {es : List Node} (h1 : Stable ts e)
    (hrest : StmtSeq rest es) (hne : es ≠ []) (validRe : List Char → Bool) (file : String)
    (k : List Token) (hk : EndOpt k) :
    ∃ pos, parseWith validRe file (ts ++ (rest ++ k)) =
      .ok (unwrapReturn (.block (e :: es) [] [] [] true pos)) ∧
      ∀ t0 ∈ ts.head?, pos = t0.pos := by
  obtain ⟨t0, r0, rfl, hkw, hs⟩ := h1.head
  refine ⟨t0.pos, ?_, by simp⟩
  have hrne : (rest ++ k).isEmpty = false := by
    cases hrest with
    | nil => exact absurd rfl hne
    | cons => rfl
  let c : Ctx := ⟨endPosOf file (t0 :: (r0 ++ (rest ++ k))), validRe⟩
  obtain ⟨q1, hq1⟩ := h1.stmt c (rest ++ k) (hrest.stop hk)
  have hq1' : ∃ hh, pStatement c ⟨t0.pos, t0 :: (r0 ++ (rest ++ k))⟩ =
      .ok ⟨e, ⟨q1, rest ++ k⟩, hh⟩ := hq1 t0.pos
  obtain ⟨hh1, hu⟩ := hq1'
  obtain ⟨q2, h2, hloop⟩ := hrest.loop c k hk q1 [e]
  have hpk : St.peekn ⟨t0.pos, t0 :: (r0 ++ (rest ++ k))⟩ 1 ['d', 'o'] (some .keyword) = false :=
    h1.peek_do (rest ++ k) t0.pos
  have hbare : ∃ hh, pBareBlock c true ⟨t0.pos, t0 :: (r0 ++ (rest ++ k))⟩ =
      .ok ⟨simplifyBlock (e :: es) [] [] [] true t0.pos, ⟨q2, []⟩, hh⟩ := by
    refine ⟨by simp, ?_⟩
    rw [pBareBlock]
    simp [hpk, hu, St.hasNext, hrne, hloop, St.posNext, bind, Except.bind, pure, Except.pure]
  obtain ⟨hh2, hbare⟩ := hbare
  have hsb : simplifyBlock (e :: es) [] [] [] true t0.pos = .block (e :: es) [] [] [] true t0.pos := by
    cases es with
    | nil => exact absurd rfl hne
    | cons a b => rfl
  show parseWith validRe file (t0 :: (r0 ++ (rest ++ k))) = _
  simp [parseWith, parseCore, c, hbare, hsb]

end Ckl.C14S
