import CklVerif.Lemmas.C13FuelDefs

/-!
  C13Fuel: the interpretation of the unmodelled built-ins that the driver runs (`driverNativeSem`) never answers
  "out of fuel"; so for the driver's loaders `.oof` is produced at fuel 0 only.
-/
namespace Ckl.C13Fuel
open Ckl Ckl.E2E

theorem allocStrss_ok (xss : List (List (List Char))) (s : State) : ∃ rs s', DN.allocStrss xss s = .ok rs s' := by
  induction xss generalizing s with
  | nil => exact ⟨[], s, rfl⟩
  | cons p ps ih =>
    obtain ⟨rs, s', h1⟩ := ih (s.alloc (.list (p.map RVal.str))).1
    refine ⟨.ref (s.alloc (.list (p.map RVal.str))).2 :: rs, s', ?_⟩
    show (newList (p.map RVal.str) >>= fun r => DN.allocStrss ps >>= fun rs => pure (r :: rs)) s = _
    show EvalM.bind' _ _ s = _
    unfold EvalM.bind'
    simp only [newList, allocM]
    show (EvalM.bind' (DN.allocStrss ps) _) _ = _
    unfold EvalM.bind'
    rw [h1]; rfl

theorem finish_not_oof (name : String) (r : DN.NRes) (s : State) : ¬ (DN.finish name r s).isOof := by
  cases r with
  | val v =>
    show ¬ ((if DN.plainB v = true then pure v else unsupported ("native " ++ name) : EvalM RVal) s).isOof
    by_cases hv : DN.plainB v = true
    · rw [if_pos hv]; exact fun h => h
    · rw [if_neg hv]; exact fun h => h
  | strs xs => exact fun h => h
  | strss xss =>
    obtain ⟨rs, s', h1⟩ := allocStrss_ok xss s
    have : DN.finish name (.strss xss) s = .ok (.ref (s'.alloc (.list rs)).2) (s'.alloc (.list rs)).1 := by
      show EvalM.bind' (DN.allocStrss xss) _ s = _
      unfold EvalM.bind'
      rw [h1]; rfl
    rw [this]; exact fun h => h
  | err msg => exact fun h => h
  | abstain => exact fun h => h

/-- the driver's interpretation never answers "out of fuel" -/
theorem driverNativeSem_not_oof (name : String) (args : List (String × RVal)) (s : State) :
    ¬ (driverNativeSem name args s).isOof :=
  finish_not_oof name _ s

/-! ### the session runner of the driver, `runSessionRows` -/

/-- one step of `runSessionRows` (the function bound to `step` there) -/
def rowStep (ld : Loader) (fuel : Nat) (senv : EnvId) (acc : State × List Sx) (p : Sx) : State × List Sx :=
      let (s, outs) := acc
      match p with
      | .list [.atom "prog", .list [.atom "syn"]] =>
        (s, outs ++ [Sx.list [.atom "r", .list [.atom "syn"], .list [.atom "out", .atom "s:"],
                              Sx.list (.atom "syms" :: (s.localSymbols senv).map sxStr)]])
      | .list [.atom "prog", astSx] =>
        match decodeNode "f" astSx with
        | none => (s, outs ++ [Sx.list [.atom "r", .list [.atom "bad-ast"]]])
        | some ast =>
          let s := { s with out := [] }
          let (outcome, s') : Sx × State := match interpretProg ld fuel senv ast s with
            | .ok v s' => (.list [.atom "val", encodeRVal s' 8 v], s')
            | .err v _ p _ s' => (.list [.atom "rt", encodeRVal s' 8 v, .atom (toString p.line)], s')
            | .fail f s' => (encodeFail f, s')
          let syms := Sx.list (.atom "syms" :: (s'.localSymbols senv).map sxStr)
          (s', outs ++ [Sx.list [.atom "r", outcome, .list [.atom "out", .atom ("s:" ++ encodeStr s'.out)], syms]])
      | _ => (s, outs ++ [Sx.list [.atom "r", .list [.atom "bad-prog"]]])

def ghostRow (sEnd : State) : Sx :=
  Sx.list [.atom "ghost",
      .list (.atom "enter" :: sEnd.ghost.enter.map ghostEntry),
      .list (.atom "fin" :: sEnd.ghost.fin.map ghostEntry),
      .list (.atom "mods" :: sEnd.ghost.moduleEvals.map (fun (e : String × Nat) => Sx.list [sxStr e.1, .atom (toString e.2)])),
      .list [.atom "modstack", .atom (toString sEnd.modstack.length)]]

theorem runSessionRows_eq (ld : Loader) (fuel : Nat) (s0 : State) (senv : EnvId) (progs : List Sx) :
    runSessionRows ld fuel s0 senv progs =
      (progs.foldl (rowStep ld fuel senv) (s0, [])).2 ++ [ghostRow (progs.foldl (rowStep ld fuel senv) (s0, [])).1] := rfl
/-- a response row reporting "out of fuel" -/
def IsOofRow (r : Sx) : Prop := ∃ o sy, r = Sx.list [.atom "r", encodeFail .oof, o, sy]

theorem rowStep_mono (ld : Loader) (senv : EnvId) {f f' : Nat} (h : f ≤ f') (acc : State × List Sx) (p : Sx)
    (hno : ∀ r ∈ (rowStep ld f senv acc p).2, ¬ IsOofRow r) :
    rowStep ld f' senv acc p = rowStep ld f senv acc p := by
  obtain ⟨s, outs⟩ := acc
  revert hno
  unfold rowStep
  dsimp only
  split
  · intro _; rfl
  · split
    · intro _; rfl
    · rename_i ast _
      intro hno
      by_cases ho : (interpretProg ld f senv ast {s with out := []}).isOof
      · exfalso
        obtain ⟨s', hs'⟩ := (Out.isOof_iff _).1 ho
        rw [hs'] at hno
        exact hno _ (List.mem_append_right _ (List.mem_singleton.2 rfl)) ⟨_, _, rfl⟩
      · have hm := interpretProg_fuelMono ld senv ast f f' _ h ho
        dsimp only at hm
        rw [hm]
  · intro _; rfl

/-- a step only appends one row -/
theorem rowStep_outs (ld : Loader) (f : Nat) (senv : EnvId) (acc : State × List Sx) (p : Sx) :
    ∃ row, (rowStep ld f senv acc p).2 = acc.2 ++ [row] := by
  obtain ⟨s, outs⟩ := acc
  unfold rowStep
  dsimp only
  split
  · exact ⟨_, rfl⟩
  · split
    · exact ⟨_, rfl⟩
    · exact ⟨_, rfl⟩
  · exact ⟨_, rfl⟩

theorem foldl_rowStep_outs (ld : Loader) (f : Nat) (senv : EnvId) :
    ∀ (ps : List Sx) (acc : State × List Sx), ∃ more, (ps.foldl (rowStep ld f senv) acc).2 = acc.2 ++ more
  | [], acc => ⟨[], (List.append_nil _).symm⟩
  | p :: ps, acc => by
    obtain ⟨row, hrow⟩ := rowStep_outs ld f senv acc p
    obtain ⟨more, hmore⟩ := foldl_rowStep_outs ld f senv ps (rowStep ld f senv acc p)
    exact ⟨row :: more, by rw [List.foldl_cons, hmore, hrow, List.append_assoc]; rfl⟩

theorem foldl_rowStep_mono (ld : Loader) (senv : EnvId) {f f' : Nat} (h : f ≤ f') :
    ∀ (ps : List Sx) (acc : State × List Sx),
      (∀ r ∈ (ps.foldl (rowStep ld f senv) acc).2, ¬ IsOofRow r) →
      ps.foldl (rowStep ld f' senv) acc = ps.foldl (rowStep ld f senv) acc
  | [], _, _ => rfl
  | p :: ps, acc, hno => by
    rw [List.foldl_cons, List.foldl_cons] at *
    obtain ⟨more, hmore⟩ := foldl_rowStep_outs ld f senv ps (rowStep ld f senv acc p)
    have h1 : rowStep ld f' senv acc p = rowStep ld f senv acc p :=
      rowStep_mono ld senv h acc p (fun r hr => hno r (by rw [hmore]; exact List.mem_append_left _ hr))
    rw [h1]
    exact foldl_rowStep_mono ld senv h ps _ hno

end Ckl.C13Fuel
