/-
  C08 (all containers, decimals included) — parser part: `Atom` / `Lit` / `Rest` / `RestE` of
  `Lemmas/C08FullParse.lean` extended by decimal tokens (with an optional folded unary minus):
  token lists that spell a data literal (scalars incl. decimals, and list / set / map literals of
  literals, nested), and the AST `parse_expression` builds from them.  The proofs are those of
  `Lemmas/C08FullParse.lean`; the two new atom cases use `C08DL.expr_dec` / `C08DL.expr_negDec`.
-/
import CklVerif.Lemmas.C08DecFullDefs
import CklVerif.Lemmas.C08FullParse
import CklVerif.Lemmas.C08DecListParse
namespace Ckl.C08DF
open Ckl Ckl.Parser Ckl.C08 Ckl.C08D Ckl.C08F
open Ckl.Lexer (tv)

/-- the token lists of scalar literals, and their AST -/
inductive AtomP : List Token → Node → Prop
  | int (t : Token) (n : Nat) : t.type = .int → parseIntLit t.value = some n →
      AtomP [t] (.lit (.int n) t.pos)
  | negInt (tm t : Token) (n : Nat) : IsTok tm ['-'] .operator → t.type = .int →
      parseIntLit t.value = some n → AtomP [tm, t] (.lit (.int (-(n : Int))) t.pos)
  | dec (t : Token) (m : Int) (e : Nat) : t.type = .decimal →
      parseDecimal t.value = some (m, e) → AtomP [t] (.lit (.dec m e) t.pos)
  | negDec (tm t : Token) (m : Int) (e : Nat) : IsTok tm ['-'] .operator → t.type = .decimal →
      parseDecimal t.value = some (m, e) → AtomP [tm, t] (.lit (.dec (-m) e) t.pos)
  | str (t : Token) : t.type = .string → AtomP [t] (.lit (.str t.value) t.pos)
  | bool (t : Token) : t.type = .boolean →
      AtomP [t] (.lit (.bool (t.value == ['T', 'R', 'U', 'E'])) t.pos)
  | ident (t : Token) : t.type = .identifier → AtomP [t] (.ident (str t.value) t.pos)

mutual
  /-- `LitP ts n`: the token list `ts` spells a data literal — a scalar, or a list `[ … ]`, a set
      `<< … >>` or a map `<<< k => v, … >>>` of data literals — and `n` is its AST (a bare
      identifier as a map key becomes a string literal: `mapKey`) -/
  inductive LitP : List Token → Node → Prop
    | atom {ts : List Token} {n : Node} : AtomP ts n → LitP ts n
    | list0 (tl tr : Token) : IsTok tl ['['] .interpunction → IsTok tr [']'] .interpunction →
        LitP [tl, tr] (.list [] tl.pos)
    | list (tl tr : Token) (ts rest : List Token) (n : Node) (ns : List Node) :
        IsTok tl ['['] .interpunction → IsTok tr [']'] .interpunction →
        LitP ts n → RestP rest ns →
        LitP (tl :: (ts ++ (rest ++ [tr]))) (.list (n :: ns) tl.pos)
    | set0 (tl tr : Token) : IsTok tl ['<', '<'] .interpunction → IsTok tr ['>', '>'] .interpunction →
        LitP [tl, tr] (.set [] tl.pos)
    | set (tl tr : Token) (ts rest : List Token) (n : Node) (ns : List Node) :
        IsTok tl ['<', '<'] .interpunction → IsTok tr ['>', '>'] .interpunction →
        LitP ts n → RestP rest ns →
        LitP (tl :: (ts ++ (rest ++ [tr]))) (.set (n :: ns) tl.pos)
    | map0 (tl tr : Token) : IsTok tl ['<', '<', '<'] .interpunction →
        IsTok tr ['>', '>', '>'] .interpunction → LitP [tl, tr] (.map [] [] tl.pos)
    | map (tl tr ta : Token) (ks vs rest : List Token) (kn vn : Node) (kns vns : List Node) :
        IsTok tl ['<', '<', '<'] .interpunction → IsTok tr ['>', '>', '>'] .interpunction →
        IsTok ta ['=', '>'] .interpunction → LitP ks kn → LitP vs vn → RestEP rest kns vns →
        LitP (tl :: (ks ++ ta :: (vs ++ (rest ++ [tr])))) (.map (mapKey kn :: kns) (vn :: vns) tl.pos)
  /-- the items after the first: each preceded by a `,` -/
  inductive RestP : List Token → List Node → Prop
    | nil : RestP [] []
    | cons (tc : Token) (ts rest : List Token) (n : Node) (ns : List Node) :
        IsTok tc [','] .interpunction → LitP ts n → RestP rest ns →
        RestP (tc :: (ts ++ rest)) (n :: ns)
  /-- the entries after the first: each preceded by a `,` -/
  inductive RestEP : List Token → List Node → List Node → Prop
    | nil : RestEP [] [] []
    | cons (tc ta : Token) (ks vs rest : List Token) (kn vn : Node) (kns vns : List Node) :
        IsTok tc [','] .interpunction → IsTok ta ['=', '>'] .interpunction →
        LitP ks kn → LitP vs vn → RestEP rest kns vns →
        RestEP (tc :: (ks ++ ta :: (vs ++ rest))) (mapKey kn :: kns) (vn :: vns)
end

theorem AtomP.head {ts : List Token} {n : Node} (h : AtomP ts n) :
    ∃ t0 ts', ts = t0 :: ts' ∧ HeadOK t0 ∧ ¬ (t0.type = .string ∧ ts' ≠ []) := by
  cases h with
  | int t n ht _ => exact ⟨t, [], rfl, ⟨by simp [ht], by simp [ht]⟩, by simp⟩
  | negInt tm t n hm _ _ => exact ⟨tm, [t], rfl, ⟨by simp [hm.2], by simp [hm.2]⟩, by simp [hm.2]⟩
  | dec t m e ht _ => exact ⟨t, [], rfl, ⟨by simp [ht], by simp [ht]⟩, by simp⟩
  | negDec tm t m e hm _ _ => exact ⟨tm, [t], rfl, ⟨by simp [hm.2], by simp [hm.2]⟩, by simp [hm.2]⟩
  | str t ht => exact ⟨t, [], rfl, ⟨by simp [ht], by simp [ht]⟩, by simp⟩
  | bool t ht => exact ⟨t, [], rfl, ⟨by simp [ht], by simp [ht]⟩, by simp⟩
  | ident t ht => exact ⟨t, [], rfl, ⟨by simp [ht], by simp [ht]⟩, by simp⟩

theorem LitP.head {ts : List Token} {n : Node} (h : LitP ts n) :
    ∃ t0 ts', ts = t0 :: ts' ∧ HeadOK t0 ∧ ¬ (t0.type = .string ∧ ts' ≠ []) := by
  cases h with
  | atom ha => exact ha.head
  | list0 tl tr hl _ => exact ⟨tl, [tr], rfl, ⟨by simp [hl.2], fun _ => Or.inl hl.1⟩, by simp [hl.2]⟩
  | list tl tr ts rest n ns hl _ _ _ =>
    exact ⟨tl, _, rfl, ⟨by simp [hl.2], fun _ => Or.inl hl.1⟩, by simp [hl.2]⟩
  | set0 tl tr hl _ =>
    exact ⟨tl, [tr], rfl, ⟨by simp [hl.2], fun _ => Or.inr (Or.inl hl.1)⟩, by simp [hl.2]⟩
  | set tl tr ts rest n ns hl _ _ _ =>
    exact ⟨tl, _, rfl, ⟨by simp [hl.2], fun _ => Or.inr (Or.inl hl.1)⟩, by simp [hl.2]⟩
  | map0 tl tr hl _ =>
    exact ⟨tl, [tr], rfl, ⟨by simp [hl.2], fun _ => Or.inr (Or.inr hl.1)⟩, by simp [hl.2]⟩
  | map tl tr ta ks vs rest kn vn kns vns hl _ _ _ _ _ =>
    exact ⟨tl, _, rfl, ⟨by simp [hl.2], fun _ => Or.inr (Or.inr hl.1)⟩, by simp [hl.2]⟩

theorem RestP.stop {rest : List Token} {ns : List Node} (h : RestP rest ns) {tr : Token}
    (htr : Closer tr) (k : List Token) : Stop (rest ++ tr :: k) := by
  cases h with
  | nil => exact htr.stop k
  | cons tc ts rest n ns hc _ _ => exact stop_comma hc _

theorem RestEP.stop {rest : List Token} {kns vns : List Node} (h : RestEP rest kns vns) {tr : Token}
    (htr : Closer tr) (k : List Token) : Stop (rest ++ tr :: k) := by
  cases h with
  | nil => exact htr.stop k
  | cons tc ta ks vs rest kn vn kns vns hc _ _ _ _ => exact stop_comma hc _

theorem AtomP.expr (c : Ctx) {ts : List Token} {n : Node} (h : AtomP ts n) (k : List Token)
    (hk : Stop k) : ∃ q, ∀ p, ∃ h, pExpression c ⟨p, ts ++ k⟩ = .ok ⟨n, ⟨q, k⟩, h⟩ := by
  cases h with
  | int t n ht hv => exact ⟨t.pos, expr_int c t n ht hv hk⟩
  | negInt tm t n hm ht hv => exact ⟨t.pos, expr_negInt c tm t n hm ht hv hk⟩
  | dec t m e ht hv => exact ⟨t.pos, C08DL.expr_dec c t m e ht hv hk⟩
  | negDec tm t m e hm ht hv => exact ⟨t.pos, C08DL.expr_negDec c tm t m e hm ht hv hk⟩
  | str t ht => exact ⟨t.pos, expr_str c t ht hk⟩
  | bool t ht => exact ⟨t.pos, expr_bool c t ht hk⟩
  | ident t ht => exact ⟨t.pos, expr_ident c t ht hk⟩

mutual
  /-- a literal in front of a stop continuation is consumed by `parse_expression`, which returns
      its AST and stops in front of the continuation -/
  theorem LitP.expr (c : Ctx) : ∀ {ts : List Token} {n : Node}, LitP ts n →
      ∀ (k : List Token), Stop k →
      ∃ q, ∀ p, ∃ h, pExpression c ⟨p, ts ++ k⟩ = .ok ⟨n, ⟨q, k⟩, h⟩
    | _, _, .atom ha, k, hk => ha.expr c k hk
    | _, _, .list0 tl tr hl hr, k, hk => by
      refine ⟨tr.pos, ?_⟩
      apply expr_of_primary c tl (tr :: k) k _ tr.pos (by simp [hl.2]) (by simp [hl.2]) hk
      apply primary_open c tl hl (tr :: k) k _ tr.pos hk
      refine ⟨by simp, ?_⟩
      rw [pListLiteral]
      simp [St.matchIf, St.tokIs, hr.1, hr.2, hk.postfixLoop, leLt]
    | _, _, .list tl tr ts rest n ns hl hr hts hrest, k, hk => by
      refine ⟨tr.pos, ?_⟩
      have hcl : Closer tr := IsTok.closer hr (by decide) (by decide)
      have hk1 : Stop (rest ++ tr :: k) := hrest.stop hcl k
      obtain ⟨q1, he⟩ := LitP.expr c hts (rest ++ tr :: k) hk1
      obtain ⟨h1, he⟩ := he tl.pos
      obtain ⟨q2, h2, hloop⟩ := RestP.listLoop c hrest tr k hr q1 [] n
      obtain ⟨t0, ts', hts0, hok, _⟩ := hts.head
      have hnc' : St.matchIf ⟨tl.pos, ts ++ (rest ++ tr :: k)⟩ [']'] (some .interpunction) = none := by
        rw [hts0]; exact matchIf_head_none (hok.tokIs_false _ (by decide) (by decide) (by decide))
      have e : tl :: (ts ++ (rest ++ [tr])) ++ k = tl :: (ts ++ (rest ++ tr :: k)) := by simp
      rw [e]
      apply expr_of_primary c tl _ k _ tr.pos (by simp [hl.2]) (by simp [hl.2]) hk
      apply primary_open c tl hl _ k _ tr.pos hk
      refine ⟨by simp; omega, ?_⟩
      rw [pListLiteral]
      simp [hnc', he, hk1.matchIf_ty q1 _ .keyword (by decide), hloop, St.expect, hr.1, hr.2,
        hk.postfixLoop, bind, Except.bind, pure, Except.pure]
    | _, _, .set0 tl tr hl hr, k, hk => by
      refine ⟨tr.pos, ?_⟩
      apply expr_of_primary c tl (tr :: k) k _ tr.pos (by simp [hl.2]) (by simp [hl.2]) hk
      apply primary_open_set c tl hl (tr :: k) k _ tr.pos
      refine ⟨by simp, ?_⟩
      rw [pSetLiteral]
      simp [St.matchIf, St.tokIs, hr.1, hr.2, hk.postfixLoop, leLt]
    | _, _, .set tl tr ts rest n ns hl hr hts hrest, k, hk => by
      refine ⟨tr.pos, ?_⟩
      have hcl : Closer tr := IsTok.closer hr (by decide) (by decide)
      have hk1 : Stop (rest ++ tr :: k) := hrest.stop hcl k
      obtain ⟨q1, he⟩ := LitP.expr c hts (rest ++ tr :: k) hk1
      obtain ⟨h1, he⟩ := he tl.pos
      obtain ⟨s2, h2, q2, h3, hsep, hloop⟩ := RestP.setTail c hrest tr k hr q1 [n]
      obtain ⟨t0, ts', hts0, hok, _⟩ := hts.head
      have hnc' : St.matchIf ⟨tl.pos, ts ++ (rest ++ tr :: k)⟩ ['>', '>'] (some .interpunction) = none := by
        rw [hts0]; exact matchIf_head_none (hok.tokIs_false _ (by decide) (by decide) (by decide))
      have e : tl :: (ts ++ (rest ++ [tr])) ++ k = tl :: (ts ++ (rest ++ tr :: k)) := by simp
      rw [e]
      apply expr_of_primary c tl _ k _ tr.pos (by simp [hl.2]) (by simp [hl.2]) hk
      apply primary_open_set c tl hl _ k _ tr.pos
      refine ⟨by simp; omega, ?_⟩
      rw [pSetLiteral]
      simp [hnc', he, hk1.matchIf_ty q1 _ .keyword (by decide), hsep, hloop, St.expect, hr.1, hr.2,
        hk.postfixLoop, bind, Except.bind, pure, Except.pure]
    | _, _, .map0 tl tr hl hr, k, hk => by
      refine ⟨tr.pos, ?_⟩
      apply expr_of_primary c tl (tr :: k) k _ tr.pos (by simp [hl.2]) (by simp [hl.2]) hk
      apply primary_open_map c tl hl (tr :: k) k _ tr.pos
      refine ⟨by simp, ?_⟩
      rw [pMapLiteral]
      simp [St.matchIf, St.tokIs, hr.1, hr.2, hk.postfixLoop, leLt]
    | _, _, .map tl tr ta ks vs rest kn vn kns vns hl hr ha hks hvs hrest, k, hk => by
      refine ⟨tr.pos, ?_⟩
      have hcl : Closer tr := IsTok.closer hr (by decide) (by decide)
      have hca : Closer ta := IsTok.closer ha (by decide) (by decide)
      have hk1 : Stop (rest ++ tr :: k) := hrest.stop hcl k
      have hk0 : Stop (ta :: (vs ++ (rest ++ tr :: k))) := hca.stop _
      obtain ⟨q0, hek⟩ := LitP.expr c hks (ta :: (vs ++ (rest ++ tr :: k))) hk0
      obtain ⟨h0, hek⟩ := hek tl.pos
      obtain ⟨q1, hev⟩ := LitP.expr c hvs (rest ++ tr :: k) hk1
      obtain ⟨h1, hev⟩ := hev ta.pos
      obtain ⟨s2, h2, q2, h3, hsep, hloop⟩ := RestEP.mapTail c hrest tr k hr q1 [mapKey kn] [vn]
      obtain ⟨t0, ts', hts0, hok, _⟩ := hks.head
      have hnc' : St.matchIf ⟨tl.pos, ks ++ ta :: (vs ++ (rest ++ tr :: k))⟩ ['>', '>', '>']
          (some .interpunction) = none := by
        rw [hts0]; exact matchIf_head_none (hok.tokIs_false _ (by decide) (by decide) (by decide))
      have e : tl :: (ks ++ ta :: (vs ++ (rest ++ [tr]))) ++ k
          = tl :: (ks ++ ta :: (vs ++ (rest ++ tr :: k))) := by simp
      rw [e]
      apply expr_of_primary c tl _ k _ tr.pos (by simp [hl.2]) (by simp [hl.2]) hk
      apply primary_open_map c tl hl _ k _ tr.pos
      refine ⟨by simp; omega, ?_⟩
      rw [pMapLiteral]
      simp [hnc', hek, hev, hk1.matchIf_ty q1 _ .keyword (by decide), hsep, hloop, St.expect, hr.1, hr.2,
        ha.1, ha.2, hk.postfixLoop, bind, Except.bind, pure, Except.pure]
  /-- the item loop of a list literal -/
  theorem RestP.listLoop (c : Ctx) : ∀ {rest : List Token} {ns : List Node}, RestP rest ns →
      ∀ (tr : Token) (k : List Token), IsTok tr [']'] .interpunction →
      ∀ (q : Pos) (items : List Node) (e : Node),
      ∃ q' h, listLoop c ⟨q, rest ++ tr :: k⟩ items (some e) =
        .ok ⟨items ++ e :: ns, ⟨q', tr :: k⟩, h⟩
    | _, _, .nil, tr, k, hr, q, items, e => by
      refine ⟨q, by simp, ?_⟩
      rw [Parser.listLoop]
      simp [St.peekn, St.tokIs, hr.1, hr.2]
    | _, _, .cons tc ts rest n ns hc hts hrest, tr, k, hr, q, items, e => by
      have hcl : Closer tr := IsTok.closer hr (by decide) (by decide)
      have hk1 : Stop (rest ++ tr :: k) := hrest.stop hcl k
      obtain ⟨q1, he⟩ := LitP.expr c hts (rest ++ tr :: k) hk1
      obtain ⟨h1, he⟩ := he tc.pos
      obtain ⟨q2, h2, hloop⟩ := RestP.listLoop c hrest tr k hr q1 (items ++ [e]) n
      obtain ⟨t0, ts', hts0, hok, _⟩ := hts.head
      have e1 : tc :: (ts ++ rest) ++ tr :: k = tc :: (ts ++ (rest ++ tr :: k)) := by simp
      have hpk1 : St.peekn ⟨q, tc :: (ts ++ (rest ++ tr :: k))⟩ 1 [']'] (some .interpunction) = false := by
        simp [St.peekn, St.tokIs, hc.1]
      have hpk2 : St.peekn ⟨tc.pos, ts ++ (rest ++ tr :: k)⟩ 1 [']'] (some .interpunction) = false := by
        rw [hts0, List.cons_append, peekn_head]; exact hok.tokIs_false _ (by decide) (by decide) (by decide)
      rw [e1]
      refine ⟨q2, by simp at h2 ⊢; omega, ?_⟩
      rw [Parser.listLoop]
      simp [hpk1, St.expect, hc.1, hc.2, hpk2, he, hloop, bind, Except.bind, pure, Except.pure]
  /-- the separator and item loop of a set literal -/
  theorem RestP.setTail (c : Ctx) : ∀ {rest : List Token} {ns : List Node}, RestP rest ns →
      ∀ (tr : Token) (k : List Token), IsTok tr ['>', '>'] .interpunction →
      ∀ (q : Pos) (items : List Node),
      ∃ s2 h2 q' h, sepUnless ⟨q, rest ++ tr :: k⟩ ['>', '>'] = .ok ⟨s2, h2⟩ ∧
        setLoop c s2 items = .ok ⟨items ++ ns, ⟨q', tr :: k⟩, h⟩
    | _, _, .nil, tr, k, hr, q, items => by
      refine ⟨⟨q, tr :: k⟩, Nat.le_refl _, q, Nat.le_refl _, ?_, ?_⟩
      · simp [sepUnless, St.peekn, St.tokIs, hr.1, hr.2]
      · rw [Parser.setLoop]
        simp [St.peekn, St.tokIs, hr.1, hr.2]
    | _, _, .cons tc ts rest n ns hc hts hrest, tr, k, hr, q, items => by
      have hcl : Closer tr := IsTok.closer hr (by decide) (by decide)
      have hk1 : Stop (rest ++ tr :: k) := hrest.stop hcl k
      obtain ⟨q1, he⟩ := LitP.expr c hts (rest ++ tr :: k) hk1
      obtain ⟨h1, he⟩ := he tc.pos
      obtain ⟨s2, h2, q2, h3, hsep, hloop⟩ := RestP.setTail c hrest tr k hr q1 (items ++ [n])
      obtain ⟨t0, ts', hts0, hok, _⟩ := hts.head
      have e1 : tc :: (ts ++ rest) ++ tr :: k = tc :: (ts ++ (rest ++ tr :: k)) := by simp
      have hpk1 : St.peekn ⟨q, tc :: (ts ++ (rest ++ tr :: k))⟩ 1 ['>', '>'] (some .interpunction) = false := by
        simp [St.peekn, St.tokIs, hc.1]
      have hpk2 : St.peekn ⟨tc.pos, ts ++ (rest ++ tr :: k)⟩ 1 ['>', '>'] (some .interpunction) = false := by
        rw [hts0, List.cons_append, peekn_head]; exact hok.tokIs_false _ (by decide) (by decide) (by decide)
      rw [e1]
      refine ⟨⟨tc.pos, ts ++ (rest ++ tr :: k)⟩, by simp, q2, by simp at h3 h2 h1 ⊢; omega, ?_, ?_⟩
      · simp [sepUnless, hpk1, St.expect, hc.1, hc.2]
      · rw [Parser.setLoop]
        simp [hpk2, he, hsep, hloop, bind, Except.bind, pure, Except.pure]
  /-- the separator and entry loop of a map literal -/
  theorem RestEP.mapTail (c : Ctx) : ∀ {rest : List Token} {kns vns : List Node}, RestEP rest kns vns →
      ∀ (tr : Token) (k : List Token), IsTok tr ['>', '>', '>'] .interpunction →
      ∀ (q : Pos) (ks vs : List Node),
      ∃ s2 h2 q' h, sepUnless ⟨q, rest ++ tr :: k⟩ ['>', '>', '>'] = .ok ⟨s2, h2⟩ ∧
        mapLoop c s2 ks vs = .ok ⟨(ks ++ kns, vs ++ vns), ⟨q', tr :: k⟩, h⟩
    | _, _, _, .nil, tr, k, hr, q, ks, vs => by
      refine ⟨⟨q, tr :: k⟩, Nat.le_refl _, q, Nat.le_refl _, ?_, ?_⟩
      · simp [sepUnless, St.peekn, St.tokIs, hr.1, hr.2]
      · rw [Parser.mapLoop]
        simp [St.peekn, St.tokIs, hr.1, hr.2]
    | _, _, _, .cons tc ta kts vts rest kn vn kns vns hc ha hks hvs hrest, tr, k, hr, q, ks, vs => by
      have hcl : Closer tr := IsTok.closer hr (by decide) (by decide)
      have hca : Closer ta := IsTok.closer ha (by decide) (by decide)
      have hk1 : Stop (rest ++ tr :: k) := hrest.stop hcl k
      have hk0 : Stop (ta :: (vts ++ (rest ++ tr :: k))) := hca.stop _
      obtain ⟨q0, hek⟩ := LitP.expr c hks (ta :: (vts ++ (rest ++ tr :: k))) hk0
      obtain ⟨h0, hek⟩ := hek tc.pos
      obtain ⟨q1, hev⟩ := LitP.expr c hvs (rest ++ tr :: k) hk1
      obtain ⟨h1, hev⟩ := hev ta.pos
      obtain ⟨s2, h2, q2, h3, hsep, hloop⟩ :=
        RestEP.mapTail c hrest tr k hr q1 (ks ++ [mapKey kn]) (vs ++ [vn])
      obtain ⟨t0, ts', hts0, hok, _⟩ := hks.head
      have e1 : tc :: (kts ++ ta :: (vts ++ rest)) ++ tr :: k
          = tc :: (kts ++ ta :: (vts ++ (rest ++ tr :: k))) := by simp
      have hpk1 : St.peekn ⟨q, tc :: (kts ++ ta :: (vts ++ (rest ++ tr :: k)))⟩ 1 ['>', '>', '>']
          (some .interpunction) = false := by
        simp [St.peekn, St.tokIs, hc.1]
      have hpk2 : St.peekn ⟨tc.pos, kts ++ ta :: (vts ++ (rest ++ tr :: k))⟩ 1 ['>', '>', '>']
          (some .interpunction) = false := by
        rw [hts0, List.cons_append, peekn_head]; exact hok.tokIs_false _ (by decide) (by decide) (by decide)
      rw [e1]
      refine ⟨⟨tc.pos, kts ++ ta :: (vts ++ (rest ++ tr :: k))⟩, by simp, q2,
        by simp at h3 h2 h1 h0 ⊢; omega, ?_, ?_⟩
      · simp [sepUnless, hpk1, St.expect, hc.1, hc.2]
      · rw [Parser.mapLoop]
        simp [hpk2, hek, hev, St.expect, ha.1, ha.2, hsep, hloop, bind, Except.bind, pure, Except.pure]
end

/-! ### the whole program is one literal -/

theorem LitP.unwrapReturn {ts : List Token} {n : Node} (h : LitP ts n) : unwrapReturn n = n := by
  cases h with
  | atom ha => cases ha <;> rfl
  | _ => rfl

/-- **a program that is one data literal parses to the AST of that literal** -/
theorem LitP.parse (validRe : List Char → Bool) (file : String) {ts : List Token} {n : Node}
    (h : LitP ts n) : parseWith validRe file ts = .ok n := by
  obtain ⟨t0, ts', hts0, hok, hstr⟩ := h.head
  subst hts0
  apply parse_of_expression validRe file t0 ts' n hok.1 hstr _ h.unwrapReturn
  intro c p _
  have hex := LitP.expr c h [] Stop.nil
  rw [List.append_nil] at hex
  obtain ⟨q, hq⟩ := hex
  exact ⟨q, hq p⟩

end Ckl.C08DF
