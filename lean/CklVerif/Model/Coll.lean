/-
  Layer 1 — collections: enumeration order of sets and maps, the insertion
  sort of `FuncSorted`, set/map construction.
-/
import CklVerif.Model.Value
namespace Ckl

/-- insert `x` into a list kept ascending w.r.t. `lt`, after all elements that are
    not greater (stable) -/
def insertBy {α} (lt : α → α → Bool) (x : α) : List α → List α
  | [] => [x]
  | y :: ys => if lt x y then x :: y :: ys else y :: insertBy lt x ys

/-- insertion sort (head inserted last, so elements with equivalent keys come out in
    REVERSED input order: C07 `sortBy_antistable`); the reference for CPython's `sorted`
    on the strictly totally ordered inputs it is applied to — set elements and map keys,
    where no two elements are equivalent and every correct sort returns the same list
    (C07 `sorted_unique`) -/
def sortBy {α} (lt : α → α → Bool) : List α → List α
  | [] => []
  | x :: xs => insertBy lt x (sortBy lt xs)

/-- stable variant processing from the left (the order `FuncSorted` inserts) -/
def sortByL {α} (lt : α → α → Bool) (xs : List α) : List α :=
  xs.foldl (fun acc x => insertBy lt x acc) []

section
variable (dr : DecRenderer)

def memV (x : Val) (xs : List Val) : Bool := xs.any (veq x)

/-- CPython `set.add` / `dict[k] = v` keep the resident key -/
def dedupKeepFirst : List Val → List Val
  | [] => []
  | x :: xs => x :: (dedupKeepFirst xs).filter (fun y => !veq x y)

/-- enumeration order of a set: `sorted(self.value)` -/
def sortedItems (xs : List Val) : List Val := sortBy (vltWith dr) xs

/-- build the set value from elements in arbitrary (hash) order -/
def mkSet (xs : List Val) : Val := .set (sortedItems dr (dedupKeepFirst xs))

def lookupM (k : Val) : List (Val × Val) → Option Val
  | [] => none
  | (k', v) :: rest => if veq k k' then some v else lookupM k rest

/-- `dict[k] = v` on an association list in insertion order: keeps the
    resident key object and its position, replaces the value -/
def assocPut (k v : Val) : List (Val × Val) → List (Val × Val)
  | [] => [(k, v)]
  | (k', v') :: rest => if veq k k' then (k', v) :: rest else (k', v') :: assocPut k v rest

def assocOfList (kvs : List (Val × Val)) : List (Val × Val) :=
  kvs.foldl (fun acc kv => assocPut kv.1 kv.2 acc) []

def sortedEntries (kvs : List (Val × Val)) : List (Val × Val) :=
  sortBy (fun a b => vltWith dr a.1 b.1) kvs

/-- build the map value from entries in insertion order -/
def mkMap (kvs : List (Val × Val)) : Val := .map (sortedEntries dr (assocOfList kvs))

/-! ### `FuncSorted`: the insertion sort of functions.py, literally

  for i in range(len(result)):
      v = key(result[i])
      for j in range(i - 1, -1, -1):
          v2 = key(result[j])
          if cmp(v, v2) < 0: swap result[j+1], result[j]  else: break
-/

/-- insert `x` at the right end of `acc` and move it left past every element
    `y` (scanning right to left) with `lt x y`, stopping at the first that is not -/
def insR {α} (lt : α → α → Bool) (x : α) (acc : List α) : List α :=
  let r := acc.reverse
  (r.dropWhile (fun y => lt x y)).reverse ++ x :: (r.takeWhile (fun y => lt x y)).reverse

/-- `sorted(lst, cmp, key)`; `lt v v2` stands for `cmp(v, v2) < 0` on keys -/
def sortedM {α β} (lt : β → β → Bool) (key : α → β) (xs : List α) : List α :=
  xs.foldl (fun acc x => insR (fun a b => lt (key a) (key b)) x acc) []

/-! ### `min` / `max` of core.ckl on a list: first extremal element -/

def minM {α β} (lt : β → β → Bool) (key : α → β) : List α → Option α
  | [] => none
  | a :: as => some (as.foldl (fun m x => if lt (key x) (key m) then x else m) a)

def maxM {α β} (lt : β → β → Bool) (key : α → β) : List α → Option α
  | [] => none
  | a :: as => some (as.foldl (fun m x => if lt (key m) (key x) then x else m) a)

/-- `compare(a, b)`: -1, 0, 1 via `<` and the derived `>` (`functools.total_ordering`:
    `a > b` is `not (a < b) and a != b`) -/
def compareM (a b : Val) : Int :=
  if vltWith dr a b then -1
  else if !(vltWith dr a b) && !(veq a b) then 1
  else 0

/-- derived comparisons of `functools.total_ordering` -/
def vleWith (a b : Val) : Bool := vltWith dr a b || veq a b
def vgtWith (a b : Val) : Bool := !(vltWith dr a b) && !(veq a b)
def vgeWith (a b : Val) : Bool := !(vltWith dr a b)

/-! ### hashing payloads: what each class hands to CPython's `hash` -/

/-- normal form of a dyadic: odd numerator or exponent 0 (CPython hashes equal
    numbers equally, T3) -/
def normNum : Int → Nat → Int × Nat
  | m, 0 => (m, 0)
  | m, e + 1 => if m % 2 = 0 then normNum (m / 2) e else (m, e + 1)

end
end Ckl
