"""C04 Conditionals, loops, comprehensions and early exits have structured semantics."""
from harness import progcheck
from harness.props import common


def run(ctx):
    ctx.rule = ("generated loop nests (depth <= 3) over lists, sets, maps (keys/values/entries) and strings with break/continue/return at every statement position, while loops, if/elif/else chains and every comprehension form; in-program trace; non-trivial = a loop with an exit statement or a comprehension over a set/map; each program is run on the implementation, on a reference interpreter written from the language rules "
                "(value + printed trace must match) and on the Lean model evaluator")
    progcheck.run_profiles(ctx, ["control", "mixed"], 3000 if ctx.thorough else 500)
    common.replay_known(ctx)


def replay(ctx, payload):
    return common.generic_replay(ctx, payload)
