import CklVerif.Lemmas.C14EvalHelpers

/-! C14 (evaluator part) — the modelled built-ins respect similarity -/
namespace Ckl.C14E
open Ckl

@[ers_simp] theorem ers_map_keystr (w : List (String × RVal)) :
    ers (w.map (fun kv => RVal.str kv.1.toList)) = (ers w).map (fun kv => RVal.str kv.1.toList) := by
  simp [List.map_map, Function.comp_def]

@[ers_simp] theorem ers_cell_get! (o : Option Cell) : ers o.get! = (ers o).get! := by
  cases o <;> rfl

theorem ers_filter {α} [Ers α] (p p' : α → Bool) (h : ∀ x, p' (ers x) = p x) (l : List α) :
    ers (l.filter p) = (ers l).filter p' := by
  induction l with
  | nil => rfl
  | cons x l ih =>
    simp only [List.filter_cons, ers_cons, h]
    split <;> simp only [ers_cons, ih]

@[ers_simp] theorem ers_filter_not_memR (s : State) (ys xs : List RVal) :
    ers (xs.filter (fun x => !memR s x ys)) = (ers xs).filter (fun x => !memR (ers s) x (ers ys)) :=
  ers_filter _ _ (fun x => by rw [show ers ys = List.map ers ys from rfl, memR_ers]) xs

@[ers_simp] theorem ers_filter_not_rveq (s : State) (el : RVal) (xs : List RVal) :
    ers (xs.filter (fun y => !rveq s y el)) = (ers xs).filter (fun y => !rveq (ers s) y (ers el)) :=
  ers_filter _ _ (fun x => by rw [rveq_ers]) xs

@[ers_simp] theorem ers_filter_not_memR' (S : State) (Y xs : List RVal) :
    ers (xs.filter (fun x => !V3 memR S (ers x) Y)) = (ers xs).filter (fun x => !V3 memR S x Y) :=
  ers_filter (fun x => !V3 memR S (ers x) Y) (fun x => !V3 memR S x Y) (fun _ => rfl) xs

@[ers_simp] theorem ers_filter_not_rveq' (S : State) (E : RVal) (xs : List RVal) :
    ers (xs.filter (fun y => !V3 rveq S (ers y) E)) = (ers xs).filter (fun y => !V3 rveq S y E) :=
  ers_filter (fun y => !V3 rveq S (ers y) E) (fun y => !V3 rveq S y E) (fun _ => rfl) xs

theorem floatResult_resp (x : Float) {p p' : Pos} (w : String) : Resp (floatResult x p w) (floatResult x p' w) := by
  unfold floatResult
  split <;> resp

macro_rules | `(tactic| resp_lib) => `(tactic| exact floatResult_resp _ _)

/-- the date results do not look at positions: only the position of a raised error differs -/
theorem dateResM_resp (r : DateRes) {p p' : Pos} : Resp (dateResM r p) (dateResM r p') := by
  unfold dateResM
  split <;> resp

macro_rules | `(tactic| resp_lib) => `(tactic| exact dateResM_resp _)

@[obs_simp] theorem numAsFloat_obs (v : RVal) : numAsFloat v = V1 numAsFloat (ers v) := by cases v <;> rfl

theorem listItems_resp {v v' : RVal} (h : ers v = ers v') : Resp (listItems v) (listItems v') := by
  unfold listItems
  resp!

macro_rules | `(tactic| resp_lib) => `(tactic| (apply listItems_resp; ers_tac))

@[obs_simp] theorem isColl_obs (c : Option Cell) : isColl c = V1 isColl (ers c) := by
  rcases c with _ | c
  · rfl
  · cases c <;> rfl

theorem collAsList_resp {c c' : Cell} (h : ers c = ers c') : Resp (collAsList c) (collAsList c') := by
  unfold collAsList
  sim_cases h <;> resp!

macro_rules | `(tactic| resp_lib) => `(tactic| (apply collAsList_resp; ers_tac))

theorem cmpLt_resp {a a' b b' : RVal} (ha : ers a = ers a') (hb : ers b = ers b') : Resp (cmpLt a b) (cmpLt a' b') := by
  unfold cmpLt
  resp
  obs_split

macro_rules | `(tactic| resp_lib) => `(tactic| (apply cmpLt_resp <;> ers_tac))

theorem cmpGt_resp {a a' b b' : RVal} (ha : ers a = ers a') (hb : ers b = ers b') : Resp (cmpGt a b) (cmpGt a' b') := by
  unfold cmpGt
  resp

macro_rules | `(tactic| resp_lib) => `(tactic| (apply cmpGt_resp <;> ers_tac))

theorem asListArg_resp {v v' : RVal} {p p' : Pos} (h : ers v = ers v') : Resp (asListArg v p) (asListArg v' p') := by
  unfold asListArg
  sim_cases h <;> resp!

macro_rules | `(tactic| resp_lib) => `(tactic| (apply asListArg_resp; ers_tac))

theorem asSetArg_resp {v v' : RVal} {p p' : Pos} (h : ers v = ers v') : Resp (asSetArg v p) (asSetArg v' p') := by
  unfold asSetArg
  sim_cases h <;> resp!

macro_rules | `(tactic| resp_lib) => `(tactic| (apply asSetArg_resp; ers_tac))


theorem nativeMod_resp {a a' b b' : RVal} {p p' : Pos} (ha : ers a = ers a') (hb : ers b = ers b') :
    Resp (nativeMod a b p) (nativeMod a' b' p') := by
  unfold nativeMod
  resp!


theorem nativeDiv_resp {a a' b b' : RVal} {d d' : Option RVal} {p p' : Pos} (ha : ers a = ers a') (hb : ers b = ers b')
    (hd : ers d = ers d') : Resp (nativeDiv a b d p) (nativeDiv a' b' d' p') := by
  unfold nativeDiv
  resp!

theorem nativeMul_resp {a a' b b' : RVal} {p p' : Pos} (ha : ers a = ers a') (hb : ers b = ers b') :
    Resp (nativeMul a b p) (nativeMul a' b' p') := by
  unfold nativeMul
  resp!

end Ckl.C14E
