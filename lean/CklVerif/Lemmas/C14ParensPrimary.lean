/-
  C14 (redundant parentheses) — from the extension lemma to parenthesised expressions:
  `plain` views of the extension lemma, the `(`-branch of `parse_primary_expr`, and the way back
  up the expression tower.
-/
import CklVerif.Lemmas.C14ParensMain
import CklVerif.Lemmas.C02ParseEqns
namespace Ckl.C14X
open Ckl Ckl.Parser
open Ckl.C02P (plain plainLe plain_eq_ok plainLe_eq_ok Follow)

local notation "kw" => (some TokType.keyword)
local notation "ip" => (some TokType.interpunction)
local notation "op" => (some TokType.operator)
local notation "idt" => (some TokType.identifier)

set_option linter.unusedSimpArgs false
set_option linter.unusedVariables false

/-- the token `(` -/
def IsLp (t : Token) : Prop := t.value = c!"(" ∧ t.type = .interpunction
/-- the token `)` -/
def IsRp (t : Token) : Prop := t.value = c!")" ∧ t.type = .interpunction
/-- the token `;` -/
def IsSemi (t : Token) : Prop := t.value = c!";" ∧ t.type = .interpunction

theorem isCont_of_tv {t : Token} {v : List Char} {ty : TokType} (hv : t.value = v) (ht : t.type = ty)
    (h : isCont ⟨v, ty, default⟩ = false) : isCont t = false := by
  obtain ⟨v', ty', p⟩ := t
  simp only at hv ht
  subst hv ht
  exact h

theorem IsRp.stop {t : Token} (h : IsRp t) : isCont t = false := isCont_of_tv h.1 h.2 (by decide)
theorem IsSemi.stop {t : Token} (h : IsSemi t) : isCont t = false := isCont_of_tv h.1 h.2 (by decide)

/-! ### the extension lemma, proof-free -/

theorem plain_ext {α : Type} {n m : Nat} {x : Ext} {y : R α n} {y' : R α m} (h : ERel (OLt x) y y')
    {v : α} {s : St} (hy : plain y = .ok (v, s)) :
    plain y' = .ok (v, ⟨s.prev, s.toks ++ x.t :: x.rest⟩) := by
  obtain ⟨hl, rfl⟩ := plain_eq_ok hy
  cases y' with
  | error e => exact h.elim
  | ok o' =>
    obtain ⟨v', s', hl'⟩ := o'
    obtain ⟨hv, hs⟩ := h
    simp only at hv hs
    subst hv
    simp [plain, hs.eq]

theorem plainLe_ext {α : Type} {n m : Nat} {x : Ext} {y : Rle α n} {y' : Rle α m} (h : ERel (OLe x) y y')
    {v : α} {s : St} (hy : plainLe y = .ok (v, s)) :
    plainLe y' = .ok (v, ⟨s.prev, s.toks ++ x.t :: x.rest⟩) := by
  obtain ⟨hl, rfl⟩ := plainLe_eq_ok hy
  cases y' with
  | error e => exact h.elim
  | ok o' =>
    obtain ⟨v', s', hl'⟩ := o'
    obtain ⟨hv, hs⟩ := h
    simp only at hv hs
    subst hv
    simp [plainLe, hs.eq]

/-! ### the statement / bare-block wrappers around an expression -/

/-- `ts` does not start like a statement that is no expression: not with `do` (a block in
    statement position takes no operators after its `end`), not with `require`, `def`, `for`,
    `while`, and not with a string literal that is the info text of a following `def` -/
def exprStart : List Token → Bool
  | [] => false
  | t :: more =>
    !St.tokIs t c!"do" kw && !St.tokIs t c!"require" kw && !St.tokIs t c!"def" kw && !St.tokIs t c!"for" kw &&
    !St.tokIs t c!"while" kw &&
    !(t.type == .string && (match more with | t2 :: _ => St.tokIs t2 c!"def" kw | [] => false))

theorem exprStart_append {ts : List Token} (h : exprStart ts = true) {t : Token}
    (ht : St.tokIs t c!"def" kw = false) (more : List Token) : exprStart (ts ++ t :: more) = true := by
  rcases ts with _ | ⟨a, _ | ⟨b, l⟩⟩
  · simp [exprStart] at h
  · simp only [exprStart, List.cons_append, List.nil_append] at h ⊢
    simp only [Bool.and_eq_true, Bool.not_eq_true'] at h ⊢
    refine ⟨h.1, ?_⟩
    simp [ht]
  · simpa [exprStart] using h

theorem pStatement_expr (c : Ctx) (p : Pos) (toks : List Token) (hs : exprStart toks = true) :
    plain (pStatement c ⟨p, toks⟩) = plain (pExpression c ⟨p, toks⟩) := by
  rcases toks with _ | ⟨t, tl⟩
  · simp [exprStart] at hs
  simp only [exprStart, Bool.and_eq_true, Bool.not_eq_true'] at hs
  obtain ⟨⟨⟨⟨⟨h1, h2⟩, h3⟩, h4⟩, h5⟩, h6⟩ := hs
  rw [pStatement]
  have hcond : (t.type == .string && St.peekn ⟨p, t :: tl⟩ 2 c!"def" kw) = false := by
    rcases tl with _ | ⟨t2, tl2⟩
    · simp [St.peekn]
    · simpa [St.peekn] using h6
  have htc : takeComment ⟨p, t :: tl⟩ = ([], ⟨⟨p, t :: tl⟩, Nat.le_refl _⟩) := by
    simp [takeComment, hcond]
  generalize takeComment ⟨p, t :: tl⟩ = tc at htc ⊢
  subst htc
  simp [St.hasNext, C02P.matchIf_cons_false h2, C02P.matchIf_cons_false h3, C02P.matchIf_cons_false h4,
    C02P.matchIf_cons_false h5]

/-- a bare block that consists of one expression followed by a token other than `;` -/
theorem pBareBlock_expr (c : Ctx) (b : Bool) (p : Pos) (toks : List Token) (n : Node) (q : Pos) (t2 : Token)
    (rest : List Token) (hs : exprStart toks = true)
    (he : plain (pExpression c ⟨p, toks⟩) = .ok (n, ⟨q, t2 :: rest⟩))
    (h2 : St.tokIs t2 c!";" ip = false) :
    plain (pBareBlock c b ⟨p, toks⟩) = .ok (n, ⟨q, t2 :: rest⟩) := by
  rw [← pStatement_expr c p toks hs] at he
  obtain ⟨hl, hst⟩ := plain_eq_ok he
  rw [pBareBlock]
  have hdo : St.peekn ⟨p, toks⟩ 1 c!"do" kw = false := by
    rcases toks with _ | ⟨t, tl⟩
    · simp [exprStart] at hs
    · simp only [exprStart, Bool.and_eq_true, Bool.not_eq_true'] at hs
      rw [C02P.peekn_cons]; exact hs.1.1.1.1.1
  have hsemi : St.matchIf ⟨q, t2 :: rest⟩ c!";" ip = none := C02P.matchIf_cons_false h2
  have hloop : bareLoop c ⟨q, t2 :: rest⟩ [n] = .ok ⟨[n], ⟨q, t2 :: rest⟩, Nat.le_refl _⟩ := by
    rw [bareLoop]; simp [hsemi]
  simp [hdo, hst, St.hasNext, bind, Except.bind, pure, Except.pure, hloop, simplifyBlock]

/-- … or by the end of the input -/
theorem pBareBlock_expr_end (c : Ctx) (b : Bool) (p : Pos) (toks : List Token) (n : Node) (q : Pos)
    (hs : exprStart toks = true) (he : plain (pExpression c ⟨p, toks⟩) = .ok (n, ⟨q, []⟩)) :
    plain (pBareBlock c b ⟨p, toks⟩) = .ok (n, ⟨q, []⟩) := by
  rw [← pStatement_expr c p toks hs] at he
  obtain ⟨hl, hst⟩ := plain_eq_ok he
  rw [pBareBlock]
  have hdo : St.peekn ⟨p, toks⟩ 1 c!"do" kw = false := by
    rcases toks with _ | ⟨t, tl⟩
    · simp [exprStart] at hs
    · simp only [exprStart, Bool.and_eq_true, Bool.not_eq_true'] at hs
      rw [C02P.peekn_cons]; exact hs.1.1.1.1.1
  simp [hdo, hst, St.hasNext, bind, Except.bind, pure, Except.pure]

/-! ### the `(`-branch of `parse_primary_expr` -/

/-- `( e )` as a primary expression: the node of `e`, then the postfix loop (`(e)(args)`, `(e)[i]`,
    `(e)->m`, `(e)!>f(..)` continue after the parenthesis) -/
theorem pPrimary_paren_postfix (c : Ctx) (um : Bool) (p : Pos) (lp rp : Token) (hl : IsLp lp) (hr : IsRp rp)
    (ts rest : List Token) (n : Node) (q : Pos) (hs : exprStart (ts ++ rp :: rest) = true)
    (he : plain (pExpression c ⟨lp.pos, ts ++ rp :: rest⟩) = .ok (n, ⟨q, rp :: rest⟩)) :
    plain (pPrimary c um ⟨p, lp :: (ts ++ rp :: rest)⟩) = plainLe (postfixLoop c true true ⟨rp.pos, rest⟩ n) := by
  have hb := pBareBlock_expr c false lp.pos _ n q rp rest hs he (by simp [St.tokIs, hr.1])
  obtain ⟨hlb, hb⟩ := plain_eq_ok hb
  rw [pPrimary]
  cases hpf : postfixLoop c true true ⟨rp.pos, rest⟩ n with
  | error e =>
    simp [St.hasNext, St.next, hl.1, hl.2, bind, Except.bind, hb, St.expect, hr.1, hr.2, hpf, pure, Except.pure]
  | ok o =>
    simp [St.hasNext, St.next, hl.1, hl.2, bind, Except.bind, hb, St.expect, hr.1, hr.2, hpf, pure, Except.pure]

/-- the tokens that continue a primary expression: `!>`, `(`, `->`, `[` -/
def isPostfix (t : Token) : Bool :=
  St.tokIs t c!"!>" op || St.tokIs t c!"(" ip || St.tokIs t c!"->" op || St.tokIs t c!"[" ip

/-- `rest` is empty or starts with a token that is no postfix opener -/
def NoPostfix : List Token → Prop
  | [] => True
  | t :: _ => isPostfix t = false

theorem postfixLoop_noPostfix (c : Ctx) (a b : Bool) (q : Pos) (rest : List Token) (n : Node)
    (h : NoPostfix rest) : plainLe (postfixLoop c a b ⟨q, rest⟩ n) = .ok (n, ⟨q, rest⟩) := by
  rw [postfixLoop]
  cases rest with
  | nil => simp [C02P.matchIf_nil]
  | cons t tl =>
    simp only [NoPostfix, isPostfix, Bool.or_eq_false_iff] at h
    obtain ⟨⟨⟨h1, h2⟩, h3⟩, h4⟩ := h
    simp [C02P.matchIf_cons_false, h1, h2, h3, h4]

theorem noPostfix_of_follow {k : Nat} {rest : List Token} (h : Follow k rest) : NoPostfix rest := by
  cases rest with
  | nil => trivial
  | cons t tl =>
    have h7 := h.stop7
    simp only [C02P.stop7, Bool.and_eq_true, Bool.not_eq_true'] at h7
    obtain ⟨⟨⟨⟨⟨⟨⟨⟨⟨⟨⟨⟨⟨⟨⟨⟨h1, h2⟩, h3⟩, h4⟩, h5⟩, h6⟩, h7⟩, h8⟩, h9⟩, h10⟩, h11⟩, h12⟩, h13⟩, h14⟩, h15⟩, h16⟩, h17⟩ := h7
    simp [NoPostfix, isPostfix, h1, h2, h3, h4]

end Ckl.C14X
