/-
  C13 (+ C01), end to end — `interpret_total`: for EVERY source text, file name, fuel, start state, session frame
  and loader — the loader's interpretation `ld.nativeSem` of the unmodelled built-ins is ARBITRARY, it may return
  host failures (`C13.eval_no_host` has no hypothesis on it) — `Interpreter.interpret` yields exactly one of

    * a value,
    * a runtime error carrying an error VALUE (catchable: `runtime_error_catchable`),
    * a syntax error of the FRONT END: non-empty message, line ≥ 1, the file name, state untouched,
    * a syntax error raised DURING evaluation (the text itself parsed): `CklSyntaxError` of a `require`d module,
    * one of the two abstentions of the model: `outOfFuel`, `unsupported`;

  never a host failure.

  Pieces: `parseScript_total` (`Proofs/C01EndToEnd.lean`: `C01.scan_total`, `C01.parse_total`),
  `C13.interpret_no_host` (`C13.eval_no_host`), `C13.runtime_error_is_catchable`.
-/
import CklVerif.Proofs.C01EndToEnd
import CklVerif.Proofs.C13
namespace Ckl.E2E
open Ckl

/-- **interpret_no_host** (C13 from source): no host failure escapes `interpret`, whatever the text -/
theorem interpret_no_host (ld : Loader) (fuel : Nat) (senv : EnvId) (src : List Char) (file : String) (s : State)
    (k : String) (s' : State) : interpretSource ld fuel senv src file s ≠ .fail (.host k) s' := by
  unfold interpretSource
  cases parseScript src file with
  | ok ast => exact C13.interpret_no_host ld fuel senv ast s k s'
  | error e => intro h; cases h

/-- **interpret_total**: the outcome of `interpret` on a source text, positively.  The six alternatives are
    mutually exclusive (different constructors; `kind` is a function, see `interpret_kind`). -/
theorem interpret_total (ld : Loader) (fuel : Nat) (senv : EnvId) (src : List Char) (file : String) (s : State) :
    -- a value
    (∃ v s', interpretSource ld fuel senv src file s = .ok v s') ∨
    -- a runtime error: error value `v`, message, position, stack trace
    (∃ v m p t s', interpretSource ld fuel senv src file s = .err v m p t s') ∨
    -- a syntax error of the front end; nothing was evaluated
    (∃ e, interpretSource ld fuel senv src file s = .fail (.syn e) s ∧ parseScript src file = .error e ∧
      FrontError src file e) ∨
    -- a syntax error raised during the evaluation of the (accepted) text
    (∃ ast e s', parseScript src file = .ok ast ∧ interpretSource ld fuel senv src file s = .fail (.syn e) s' ∧
      interpretProg ld fuel senv ast s = .fail (.syn e) s') ∨
    -- the model abstains: out of fuel
    (∃ s', interpretSource ld fuel senv src file s = .fail .oof s') ∨
    -- the model abstains: a construct outside the modelled subset
    (∃ w s', interpretSource ld fuel senv src file s = .fail (.unsupported w) s') := by
  rcases interpret_accepted ld fuel senv src file s with ⟨ast, hp, h⟩ | ⟨e, hp, hf, h⟩
  · rw [h]
    rcases C13.interpret_outcome ld fuel senv ast s with ⟨v, s', h1⟩ | ⟨v, m, p, t, s', h1⟩ | ⟨s', h1⟩ |
      ⟨w, s', h1⟩ | ⟨e, s', h1⟩
    · exact Or.inl ⟨v, s', h1⟩
    · exact Or.inr (Or.inl ⟨v, m, p, t, s', h1⟩)
    · exact Or.inr (Or.inr (Or.inr (Or.inr (Or.inl ⟨s', h1⟩))))
    · exact Or.inr (Or.inr (Or.inr (Or.inr (Or.inr ⟨w, s', h1⟩))))
    · exact Or.inr (Or.inr (Or.inr (Or.inl ⟨ast, e, s', hp, h1, h1⟩)))
  · exact Or.inr (Or.inr (Or.inl ⟨e, h, hp, hf⟩))

/-- the same as a statement about the KIND of the outcome — a function, so "exactly one" is built in: it is one
    of `value`, `runtimeError`, `syntaxError`, `outOfFuel`, `unsupported`, and never `host` -/
theorem interpret_kind (ld : Loader) (fuel : Nat) (senv : EnvId) (src : List Char) (file : String) (s : State) :
    kind (interpretSource ld fuel senv src file s) ∈ [Kind.value, .runtimeError, .syntaxError, .outOfFuel, .unsupported] ∧
    kind (interpretSource ld fuel senv src file s) ≠ .host := by
  have h := interpret_no_host ld fuel senv src file s
  cases hr : interpretSource ld fuel senv src file s with
  | ok v s' => simp [kind]
  | err v m p t s' => simp [kind]
  | fail f s' =>
    cases f with
    | host k => exact absurd hr (h k s')
    | _ => simp [kind]

/-- unless the model abstains, the call ends as a call of the implementation can end: with a value, a
    `CklRuntimeError` or a `CklSyntaxError` -/
theorem interpret_total_of_not_abstains (ld : Loader) (fuel : Nat) (senv : EnvId) (src : List Char) (file : String)
    (s : State) (hna : ¬ Abstains (interpretSource ld fuel senv src file s)) :
    kind (interpretSource ld fuel senv src file s) ∈ [Kind.value, .runtimeError, .syntaxError] := by
  have h := interpret_kind ld fuel senv src file s
  unfold Abstains at hna
  generalize kind (interpretSource ld fuel senv src file s) = k at h hna
  cases k <;> simp_all

/-! ### a runtime error carries an error value and is catchable -/

/-- where a runtime error of `interpret` comes from: from the evaluation of the text's AST (error value `v` —
    any value the program passed to `error`, or the string `'ERROR'` of the interpreter's own errors), or it is
    the error `interpret` itself raises for a `break` / `continue` that reached the top level (value `'ERROR'`) -/
theorem runtime_error_origin {ld : Loader} {fuel : Nat} {senv : EnvId} {src : List Char} {file : String} {s s' : State}
    {v : RVal} {m : String} {p : Pos} {t : List (String × Pos)}
    (h : interpretSource ld fuel senv src file s = .err v m p t s') :
    ∃ ast, parseScript src file = .ok ast ∧
      (eval ld fuel senv ast s = .err v m p t s' ∨
       (eval ld fuel senv ast s = .ok (.brk p) s' ∧ v = .str "ERROR".toList ∧ t = [] ∧
          m = "Cannot use break without surrounding loop") ∨
       (eval ld fuel senv ast s = .ok (.cont p) s' ∧ v = .str "ERROR".toList ∧ t = [] ∧
          m = "Cannot use continue without surrounding loop")) := by
  rcases interpret_accepted ld fuel senv src file s with ⟨ast, hp, he⟩ | ⟨e, _, _, he⟩
  · refine ⟨ast, hp, ?_⟩
    rw [he] at h
    rcases interpretProg_cases ld fuel senv ast s with ⟨_, _, _, _, _, h1⟩ | ⟨q, s1, h0, h1⟩ | ⟨q, s1, h0, h1⟩ |
      ⟨_, _, _, _, _, h0, h1⟩ | ⟨_, _, _, h1⟩
    · rw [h1] at h; cases h
    · rw [h1] at h; cases h; exact Or.inr (Or.inl ⟨h0, rfl, rfl, rfl⟩)
    · rw [h1] at h; cases h; exact Or.inr (Or.inr ⟨h0, rfl, rfl, rfl⟩)
    · rw [h1] at h; cases h; exact Or.inl h0
    · rw [h1] at h; cases h
  · rw [he] at h; cases h

/-- **runtime_error_catchable** (connects to `C13.runtime_error_is_catchable`): a runtime error that the
    evaluation of a text's AST raises — every runtime error of `interpret` except the two that `interpret` itself
    raises for a stray `break` / `continue`, see `runtime_error_origin` — is an error VALUE in the language: the
    same AST as the body of `do … catch all <h> end` yields the handler's value instead.
    (Fuel bookkeeping as in `C13.runtime_error_is_catchable`: the block at `fuel + 3` runs its body statement at
    `fuel + 1` and the handler at `fuel + 1`.) -/
theorem runtime_error_catchable (ld : Loader) (fuel : Nat) (senv : EnvId) (src : List Char) (file : String)
    (h : Node) (tl : Bool) (pos : Pos) (s s1 s2 : State) (v : RVal) (m : String) (p : Pos) (t : List (String × Pos))
    (hv : RVal) {ast : Node} (hp : parseScript src file = .ok ast)
    (herr : eval ld (fuel + 1) senv ast (ghostEnter s pos) = .err v m p t s1)
    (hh : eval ld (fuel + 1) senv h s1 = .ok hv s2) :
    interpretSource ld (fuel + 1) senv src file (ghostEnter s pos) = .err v m p t s1 ∧
    eval ld (fuel + 3) senv (.block [ast] [.catchAll] [h] [] tl pos) s = .ok hv (ghostFin s2 pos) := by
  refine ⟨?_, ?_⟩
  · rw [interpretSource_ok hp]; unfold interpretProg; rw [bind_def, herr]
  · refine C13.runtime_error_is_catchable ld (fuel + 1) senv [ast] h tl pos s s1 s2 v m p t hv ?_ hh
    simp only [evalBody]; rw [bind_def, herr]

/-! ### non-vacuity -/

namespace Ex13
def st0 : State × EnvId := initialState true modelledNatives
def run (ld : Loader) (src : String) : Out RVal := interpretSource ld 100 st0.2 src.toList "t.ckl" st0.1

-- each alternative of `interpret_total` occurs:
-- a value
#guard kind (run {} "def f(x) x * 2; f(21)") == .value
-- a runtime error with the error value 42 (not a string)
#guard (match run {} "error 42" with | .err (.int 42) _ _ _ _ => true | _ => false)
-- a syntax error of the front end
#guard kind (run {} "1 +") == .syntaxError
-- a syntax error raised during evaluation: `require` of a module with a syntax error
#guard (match interpretSource { user := [("broken.ckl", .error { msg := "syntax", pos := {} })] } 100 st0.2 "require broken".toList "t.ckl" st0.1 with
  | .fail (.syn _) _ => true | _ => false)
-- out of fuel
#guard kind (run {} "while TRUE do 1 end") == .outOfFuel
-- unsupported: an unmodelled built-in under the driver's default interpretation
#guard kind (interpretSource { baseNames := ["sqrt"] } 100 st0.2 "sqrt(2)".toList "t.ckl" st0.1) == .unsupported

/-- a loader whose unmodelled natives all raise a host exception -/
def ldBoom : Loader := C13.ldBoom
/-- the base frame binds `foo` to an unmodelled native -/
def stBoom : State × EnvId := initialState true ("foo" :: modelledNatives)
-- the host exception really occurs inside, and `interpret` ends with the RUNTIME error
#guard (match interpretSource ldBoom 100 stBoom.2 "foo()".toList "t.ckl" stBoom.1 with
  | .err (.str v) m _ _ _ => v == "ERROR".toList && m == "foo failed: boom" | _ => false)
example (k s') : interpretSource ldBoom 100 stBoom.2 "foo()".toList "t.ckl" stBoom.1 ≠ .fail (.host k) s' :=
  interpret_no_host _ _ _ _ _ _ k s'

-- catchable: `error 42` alone is a runtime error, inside `do … catch all 7 end` the value is 7
#guard (match run {} "do error 42; catch all 7; end" with | .ok (.int 7) _ => true | _ => false)
-- the stray `break` is NOT catchable by the program: `interpret` raises it after the program has ended
#guard (match run {} "do break; catch all 7; end" with
  | .err (.str v) m _ _ _ => v == "ERROR".toList && m == "Cannot use break without surrounding loop" | _ => false)

/-- the text `x`, as a character list (the kernel does not reduce `String.toList`) -/
def tx : List Char := ['x']
theorem tx_parses : parseScript tx "f" = .ok (.ident "x" ⟨"f", 1, 1⟩) := by
  have hs : Lexer.scan tx "f" = .ok [⟨['x'], .identifier, ⟨"f", 1, 1⟩⟩] := by with_unfolding_all rfl
  rw [parseScript_of_scan_ok hs]
  exact C01.parse_identifier "f" _ rfl
/-- `x` is not defined in the empty state: a runtime error … -/
theorem tx_err : eval {} 1 0 (.ident "x" ⟨"f", 1, 1⟩) (ghostEnter {} {}) =
    throwE "Symbol 'x' not defined" ⟨"f", 1, 1⟩ (ghostEnter {} {}) := by
  with_unfolding_all rfl
/-- … that `interpret` reports, and that `do x catch all 7 end` catches -/
example : interpretSource {} 1 0 tx "f" (ghostEnter {} {}) = throwE "Symbol 'x' not defined" ⟨"f", 1, 1⟩ (ghostEnter {} {}) ∧
    eval {} 3 0 (.block [.ident "x" ⟨"f", 1, 1⟩] [.catchAll] [.lit (.int 7) {}] [] false {}) {} =
      .ok (.int 7) (ghostFin (ghostEnter {} {}) {}) :=
  runtime_error_catchable {} 0 0 tx "f" (.lit (.int 7) {}) false {} {} _ _ _ _ _ _ _ tx_parses tx_err
    (by with_unfolding_all rfl)
example {v m p t s'} (h : interpretSource {} 1 0 tx "f" (ghostEnter {} {}) = .err v m p t s') :
    ∃ ast, parseScript tx "f" = .ok ast ∧ (eval {} 1 0 ast (ghostEnter {} {}) = .err v m p t s' ∨
      (eval {} 1 0 ast (ghostEnter {} {}) = .ok (.brk p) s' ∧ v = .str "ERROR".toList ∧ t = [] ∧
        m = "Cannot use break without surrounding loop") ∨
      (eval {} 1 0 ast (ghostEnter {} {}) = .ok (.cont p) s' ∧ v = .str "ERROR".toList ∧ t = [] ∧
        m = "Cannot use continue without surrounding loop")) :=
  runtime_error_origin h
end Ex13

end Ckl.E2E
