/-
  C09 (evaluator level): `callPure`, second half of the name table.
-/
import CklVerif.Lemmas.C09EvalNatives
import CklVerif.Lemmas.C17EvalBase
namespace Ckl.C09E
open Ckl

variable {E : List String} {b : Bool}

def groupC : List String := ["list", "set", "range", "sum", "zip", "sublist", "substr"]

def groupD : List String :=
  ["find", "find_last", "contains", "starts_with", "ends_with", "chr", "ord", "println", "print"]

set_option maxHeartbeats 400000 in
theorem callPure_groupC (name : String) (args : List (String × RVal)) (d : Option RVal) (pos : Pos)
    (m : EvalM RVal) (h : callPure name args d pos = some m) (hn : name ∈ groupC)
    (ha : Cl.cl E args) : Pres E b m := by
  unfold Ckl.callPure at h
  split at h
  all_goals first
    | (exfalso; simp only [groupC, List.mem_cons, List.mem_nil_iff, String.reduceEq, or_false, or_self] at hn; done)
    | (exfalso; rcases callDate_some_name h with rfl | rfl | rfl <;> simp [groupC] at hn; done)
    | (cases h <;> pa_auto)

set_option maxHeartbeats 400000 in
theorem callPure_groupD (name : String) (args : List (String × RVal)) (d : Option RVal) (pos : Pos)
    (m : EvalM RVal) (h : callPure name args d pos = some m) (hn : name ∈ groupD)
    (ha : Cl.cl E args) : Pres E b m := by
  unfold Ckl.callPure at h
  split at h
  all_goals first
    | (exfalso; simp only [groupD, List.mem_cons, List.mem_nil_iff, String.reduceEq, or_false, or_self] at hn; done)
    | (exfalso; rcases callDate_some_name h with rfl | rfl | rfl <;> simp [groupD] at hn; done)
    | (cases h <;> pa_auto)

end Ckl.C09E
