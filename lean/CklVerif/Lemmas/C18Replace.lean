import CklVerif.Lemmas.C18Basic

/-!
  C18 helper lemmas for `replace`: the specification `substAll` (left-to-right,
  non-overlapping substitution) and the invariant of the recursion of string.ckl.
-/
namespace Ckl.C18
open Ckl.Seq Ckl.Str Ckl.C15

/-- left-to-right non-overlapping substitution of `a` by `b` (nothing happens for `a = ""`) -/
def substAll (s a b : S) : S :=
  match s with
  | [] => []
  | c :: cs =>
    if a ≠ [] ∧ isPrefixB a (c :: cs) = true then b ++ substAll ((c :: cs).drop a.length) a b
    else c :: substAll cs a b
termination_by s.length
decreasing_by
  · rename_i h
    have : 0 < a.length := List.length_pos_iff.mpr h.1
    simp only [List.length_drop, List.length_cons]; omega
  · simp

theorem substAll_nil (a b : S) : substAll [] a b = [] := by
  rw [substAll]

theorem substAll_of_prefix {s a : S} (b : S) (ha : a ≠ []) (h : isPrefixB a s = true) :
    substAll s a b = b ++ substAll (s.drop a.length) a b := by
  cases s with
  | nil =>
    cases a with
    | nil => exact absurd rfl ha
    | cons _ _ => simp [isPrefixB] at h
  | cons c cs =>
    rw [substAll, if_pos ⟨ha, h⟩]

theorem substAll_of_not_prefix (c : Char) (cs a b : S) (h : isPrefixB a (c :: cs) = false) :
    substAll (c :: cs) a b = c :: substAll cs a b := by
  rw [substAll, if_neg]
  rintro ⟨_, h'⟩
  rw [h] at h'
  exact Bool.false_ne_true h'

theorem substAll_empty_pattern (s b : S) : substAll s [] b = s := by
  induction s with
  | nil => exact substAll_nil _ _
  | cons c cs ih =>
    rw [substAll, if_neg (by simp), ih]

/-- nothing to substitute before the first occurrence -/
theorem substAll_skip (a b : S) (k : Nat) (w : S) (hk : k ≤ w.length)
    (h : ∀ i, i < k → isPrefixB a (w.drop i) = false) :
    substAll w a b = w.take k ++ substAll (w.drop k) a b := by
  induction k generalizing w with
  | zero => simp
  | succ k ih =>
    cases w with
    | nil => simp at hk
    | cons c cs =>
      have h0 := h 0 (Nat.succ_pos k)
      rw [List.drop_zero] at h0
      rw [substAll_of_not_prefix c cs a b h0]
      rw [ih cs (by simpa using hk) (fun i hi => by simpa using h (i + 1) (by omega))]
      simp

/-- no occurrence at all: the string is unchanged -/
theorem substAll_no_occurrence (a b w : S)
    (h : ∀ i, isPrefixB a (w.drop i) = false) : substAll w a b = w := by
  have := substAll_skip a b w.length w (Nat.le_refl _) (fun i _ => h i)
  rw [this]
  simp [substAll_nil]

theorem substr_zero_some (s : S) (q : Nat) (hq : q ≤ s.length) :
    substr s 0 (some (q : Int)) = s.take q := by
  unfold substr pySlice
  simp only [Option.getD_some]
  have h1 : ¬ ((0 : Int) < 0) := by omega
  have h2 : ¬ ((0 : Int) > (s.length : Int)) := by omega
  have h3 : ¬ ((q : Int) < 0) := by omega
  have h4 : ¬ ((q : Int) > (s.length : Int)) := by omega
  simp only [h1, h2, h3, h4, if_false]
  simp

theorem substr_nat_none (s : S) (q : Nat) (hq : q ≤ s.length) :
    substr s (q : Int) none = s.drop q := by
  unfold substr pySlice
  simp only [Option.getD_none]
  have h1 : ¬ ((q : Int) < 0) := by omega
  have h2 : ¬ ((q : Int) > (s.length : Int)) := by omega
  have h3 : ¬ ((s.length : Int) < 0) := by omega
  have h4 : ¬ ((s.length : Int) > (s.length : Int)) := by omega
  simp only [h1, h2, h3, h4, if_false]
  simp only [Int.toNat_natCast]
  rw [List.take_of_length_le]
  simp only [List.length_drop]; omega

theorem take_append_take_drop (s : S) {p q : Nat} (h : p ≤ q) :
    s.take p ++ (s.drop p).take (q - p) = s.take q := by
  obtain ⟨k, rfl⟩ := Nat.exists_eq_add_of_le h
  rw [Nat.add_sub_cancel_left, List.take_add]

/-- invariant of the recursion of `replace`: with enough fuel, the part before `start` is
    kept and the rest is substituted left to right -/
theorem replaceFuel_eq (a b : S) (ha : a ≠ []) (n : Nat) (s : S) (start : Int)
    (hn : s.length - start.toNat < n) :
    replaceFuel n s a b start = s.take start.toNat ++ substAll (s.drop start.toNat) a b := by
  induction n generalizing s start with
  | zero => omega
  | succ n ih =>
    rw [replaceFuel, if_neg ha]
    have hmax : ∀ q : Nat, max 0 start ≤ (q : Int) ↔ start.toNat ≤ q := by intro q; omega
    rcases find_cases s a start with ⟨h1, h2⟩ | ⟨q, h1, h2, h3, h4⟩
    · simp only [h1, if_true]
      rw [substAll_no_occurrence a b _, List.take_append_drop]
      intro i
      rw [List.drop_drop]
      have := h2 (start.toNat + i) ((hmax _).mpr (by omega))
      rw [occursAt_iff_isPrefixB ha] at this
      simpa using this
    · have hne : ¬ ((q : Int) = -1) := by omega
      simp only [h1, hne, if_false]
      have hq : start.toNat ≤ q := (hmax q).mp h2
      have hql : q + a.length ≤ s.length := h3.2
      have hapos : 0 < a.length := List.length_pos_iff.mpr ha
      rw [substr_zero_some s q (by omega)]
      have e1 : ((q : Int) + (a.length : Int)) = ((q + a.length : Nat) : Int) := by omega
      rw [e1, substr_nat_none s (q + a.length) hql]
      have e2 : ((q : Int) + (b.length : Int)) = ((q + b.length : Nat) : Int) := by omega
      rw [e2, ih _ _ (by
        simp only [List.length_append, List.length_take, List.length_drop, Int.toNat_natCast]
        omega)]
      simp only [Int.toNat_natCast]
      -- left side
      have hl : (List.take q s ++ b ++ List.drop (q + a.length) s).take (q + b.length)
          = List.take q s ++ b := by
        rw [List.take_append_of_le_length (by simp only [List.length_append, List.length_take]; omega)]
        rw [List.take_of_length_le (by simp only [List.length_append, List.length_take]; omega)]
      have hr : (List.take q s ++ b ++ List.drop (q + a.length) s).drop (q + b.length)
          = List.drop (q + a.length) s := by
        have : q + b.length = (List.take q s ++ b).length := by
          simp only [List.length_append, List.length_take]; omega
        rw [this, List.drop_left]
      rw [hl, hr]
      -- right side
      rw [substAll_skip a b (q - start.toNat) (s.drop start.toNat)
        (by simp only [List.length_drop]; omega)
        (fun i hi => by
          rw [List.drop_drop]
          have := h4 (start.toNat + i) ((hmax _).mpr (by omega)) (by omega)
          rw [occursAt_iff_isPrefixB ha] at this
          simpa using this)]
      rw [List.drop_drop, show start.toNat + (q - start.toNat) = q by omega]
      rw [substAll_of_prefix b ha ((occursAt_iff_isPrefixB ha q).mp h3), List.drop_drop]
      rw [← List.append_assoc, ← List.append_assoc]
      congr 2
      exact (take_append_take_drop s hq).symm

end Ckl.C18
