/-
  C11 — a module is evaluated at most once; all importers share the one cached instance.

  `loadModule` looks the module identifier up in `State.modules` (Python: `base.modules`); a hit
  returns the cached frame without evaluating anything; a miss evaluates the module body in a
  fresh frame, then appends `(ident, frame)` to the cache and bumps the ghost counter
  `ghost.moduleEvals ident` — both in the same step.  The invariant `ModInv` says that cache and
  counters agree: `evals s id = 1` for cached modules and `0` otherwise.

  The subtle point: while the body of module `m` runs, `m` is not yet cached; a nested
  `require m` must not load it a second time.  The model (and the code) prevents this with the
  load stack: `evalRequire` refuses identifiers that are on `modstack` ("circular dependency"),
  and `m` is on the stack while its body runs.  The relation `RMod` therefore also says that
  modules on the load stack are not cached behind the loader's back, and `loadModule` itself
  satisfies the invariant only when called the way `evalRequire` calls it (identifier on top of
  the load stack and nowhere below) — see the field `loadModule` and the remark at the end.
-/
import CklVerif.Lemmas.C11Modules
import CklVerif.Proofs.C10
namespace Ckl.C11
open Ckl Ckl.C05 Ckl.Gen Ckl.C10

theorem modInv_evals_le_one {s : State} (h : ModInv s) (id : String) : evals s id ≤ 1 := by
  rw [h id]; split <;> simp

theorem modInv_evals_eq_one_iff {s : State} (h : ModInv s) (id : String) :
    evals s id = 1 ↔ (s.modules.lookup id).isSome := by
  rw [h id]; split <;> simp_all

/-- the statement, one field per function of the evaluator's mutual block.  `RMod s s'`:
    the load stack is unchanged, `ModInv s → ModInv s'`, every cached module stays cached with
    the same frame, and no module that is on the load stack gets cached. -/
structure ModuleOnce (ld : Loader) (fuel : Nat) : Prop where
  eval : ∀ env n s s', Ends (eval ld fuel env n s) s' → RMod s s'
  evalAnd : ∀ env es pos s s', Ends (evalAnd ld fuel env es pos s) s' → RMod s s'
  evalOr : ∀ env es pos s s', Ends (evalOr ld fuel env es pos s) s' → RMod s s'
  evalIf : ∀ env cs xs els pos s s', Ends (evalIf ld fuel env cs xs els pos s) s' → RMod s s'
  evalSeq : ∀ env ns s s', Ends (evalSeq ld fuel env ns s) s' → RMod s s'
  evalItems : ∀ env ns pos s s', Ends (evalItems ld fuel env ns pos s) s' → RMod s s'
  evalPairs : ∀ env ks vs s s', Ends (evalPairs ld fuel env ks vs s) s' → RMod s s'
  evalBody : ∀ env ns last s s', Ends (evalBody ld fuel env ns last s) s' → RMod s s'
  evalFinally : ∀ env ns s s', Ends (evalFinally ld fuel env ns s) s' → RMod s s'
  tryHandlers : ∀ env cs hs v msg p t s s', Ends (tryHandlers ld fuel env cs hs v msg p t s) s' → RMod s s'
  invoke : ∀ fn pre names args env pos s s', Ends (invoke ld fuel fn pre names args env pos s) s' → RMod s s'
  evalArgs : ∀ env names args pos s s', Ends (evalArgs ld fuel env names args pos s) s' → RMod s s'
  callFn : ∀ fn bound env pos s s', Ends (callFn ld fuel fn bound env pos s) s' → RMod s s'
  bindParams : ∀ lenv ps ds bound pos s s', Ends (bindParams ld fuel lenv ps ds bound pos s) s' → RMod s s'
  evalFor : ∀ env ids e body what pos s s', Ends (evalFor ld fuel env ids e body what pos s) s' → RMod s s'
  forItems : ∀ env ids xs body r pos s s', Ends (forItems ld fuel env ids xs body r pos s) s' → RMod s s'
  forListLive : ∀ env ids a i body r pos s s', Ends (forListLive ld fuel env ids a i body r pos s) s' → RMod s s'
  forString : ∀ env x cs body r s s', Ends (forString ld fuel env x cs body r s) s' → RMod s s'
  whileLoop : ∀ env c body pos s s', Ends (whileLoop ld fuel env c body pos s) s' → RMod s s'
  comprStep : ∀ lenv kind ve ke cond pos s s', Ends (comprStep ld fuel lenv kind ve ke cond pos s) s' → RMod s s'
  comprLoop : ∀ lenv kind ve ke cond pos l acc s s', Ends (comprLoop ld fuel lenv kind ve ke cond pos l acc s) s' → RMod s s'
  comprProduct : ∀ lenv kind ve ke cond pos x1 vs x2 ws acc s s', Ends (comprProduct ld fuel lenv kind ve ke cond pos x1 vs x2 ws acc s) s' → RMod s s'
  comprParallel : ∀ lenv kind ve ke cond pos x1 vs x2 ws acc s s', Ends (comprParallel ld fuel lenv kind ve ke cond pos x1 vs x2 ws acc s) s' → RMod s s'
  nativeSorted : ∀ bound env pos s s', Ends (nativeSorted ld fuel bound env pos s) s' → RMod s s'
  sortedOuter : ∀ cmp key senv pos arr i s s', Ends (sortedOuter ld fuel cmp key senv pos arr i s) s' → RMod s s'
  sortedInner : ∀ cmp key senv pos arr v j s s', Ends (sortedInner ld fuel cmp key senv pos arr v j s) s' → RMod s s'
  call1 : ∀ f x env pos s s', Ends (call1 ld fuel f x env pos s) s' → RMod s s'
  call2 : ∀ f x y env pos s s', Ends (call2 ld fuel f x y env pos s) s' → RMod s s'
  evalRequire : ∀ env spec name unq syms pos s s', Ends (evalRequire ld fuel env spec name unq syms pos s) s' → RMod s s'
  /-- `loadModule`, called as `evalRequire` calls it -/
  loadModule : ∀ env ident file pos s ms s', s.modstack = ms ++ [ident] → ident ∉ ms →
    Ends (loadModule ld fuel env ident file pos s) s' → RMod (pop s) (pop s')

/-- **C11.**  Every function of the evaluator preserves the agreement of module cache and
    evaluation counters and never replaces or drops a cached module. -/
theorem module_once {ld : Loader} (hNat : NativeKeepsModules ld) (fuel : Nat) :
    ModuleOnce ld fuel := by
  have h0 := allMod hNat fuel
  exact {
    eval := fun env n s s' h => gpost_ends ((h0.eval s env n).run s (RMod.refl s)) h
    evalAnd := fun env es pos s s' h => gpost_ends ((h0.evalAnd s env es pos).run s (RMod.refl s)) h
    evalOr := fun env es pos s s' h => gpost_ends ((h0.evalOr s env es pos).run s (RMod.refl s)) h
    evalIf := fun env cs xs els pos s s' h => gpost_ends ((h0.evalIf s env cs xs els pos).run s (RMod.refl s)) h
    evalSeq := fun env ns s s' h => gpost_ends ((h0.evalSeq s env ns).run s (RMod.refl s)) h
    evalItems := fun env ns pos s s' h => gpost_ends ((h0.evalItems s env ns pos).run s (RMod.refl s)) h
    evalPairs := fun env ks vs s s' h => gpost_ends ((h0.evalPairs s env ks vs).run s (RMod.refl s)) h
    evalBody := fun env ns last s s' h => gpost_ends ((h0.evalBody s env ns last).run s (RMod.refl s)) h
    evalFinally := fun env ns s s' h => gpost_ends ((h0.evalFinally s env ns).run s (RMod.refl s)) h
    tryHandlers := fun env cs hs v msg p t s s' h => gpost_ends ((h0.tryHandlers s env cs hs v msg p t).run s (RMod.refl s)) h
    invoke := fun fn pre names args env pos s s' h => gpost_ends ((h0.invoke s fn pre names args env pos).run s (RMod.refl s)) h
    evalArgs := fun env names args pos s s' h => gpost_ends ((h0.evalArgs s env names args pos).run s (RMod.refl s)) h
    callFn := fun fn bound env pos s s' h => gpost_ends ((h0.callFn s fn bound env pos).run s (RMod.refl s)) h
    bindParams := fun lenv ps ds bound pos s s' h => gpost_ends ((h0.bindParams s lenv ps ds bound pos).run s (RMod.refl s)) h
    evalFor := fun env ids e body what pos s s' h => gpost_ends ((h0.evalFor s env ids e body what pos).run s (RMod.refl s)) h
    forItems := fun env ids xs body r pos s s' h => gpost_ends ((h0.forItems s env ids xs body r pos).run s (RMod.refl s)) h
    forListLive := fun env ids a i body r pos s s' h => gpost_ends ((h0.forListLive s env ids a i body r pos).run s (RMod.refl s)) h
    forString := fun env x cs body r s s' h => gpost_ends ((h0.forString s env x cs body r).run s (RMod.refl s)) h
    whileLoop := fun env c body pos s s' h => gpost_ends ((h0.whileLoop s env c body pos).run s (RMod.refl s)) h
    comprStep := fun lenv kind ve ke cond pos s s' h => gpost_ends ((h0.comprStep s lenv kind ve ke cond pos).run s (RMod.refl s)) h
    comprLoop := fun lenv kind ve ke cond pos l acc s s' h => gpost_ends ((h0.comprLoop s lenv kind ve ke cond pos l acc).run s (RMod.refl s)) h
    comprProduct := fun lenv kind ve ke cond pos x1 vs x2 ws acc s s' h => gpost_ends ((h0.comprProduct s lenv kind ve ke cond pos x1 vs x2 ws acc).run s (RMod.refl s)) h
    comprParallel := fun lenv kind ve ke cond pos x1 vs x2 ws acc s s' h => gpost_ends ((h0.comprParallel s lenv kind ve ke cond pos x1 vs x2 ws acc).run s (RMod.refl s)) h
    nativeSorted := fun bound env pos s s' h => gpost_ends ((h0.nativeSorted s bound env pos).run s (RMod.refl s)) h
    sortedOuter := fun cmp key senv pos arr i s s' h => gpost_ends ((h0.sortedOuter s cmp key senv pos arr i).run s (RMod.refl s)) h
    sortedInner := fun cmp key senv pos arr v j s s' h => gpost_ends ((h0.sortedInner s cmp key senv pos arr v j).run s (RMod.refl s)) h
    call1 := fun f x env pos s s' h => gpost_ends ((h0.call1 s f x env pos).run s (RMod.refl s)) h
    call2 := fun f x y env pos s s' h => gpost_ends ((h0.call2 s f x y env pos).run s (RMod.refl s)) h
    evalRequire := fun env spec name unq syms pos s s' h => gpost_ends ((h0.evalRequire s env spec name unq syms pos).run s (RMod.refl s)) h
    loadModule := fun env ident file pos s ms s' hst hni h => by
      have hl := h0.loadModule env ident file pos s ms hst hni
      revert hl h
      cases Ckl.loadModule ld fuel env ident file pos s with
      | ok e s2 => intro h hl; cases h; exact hl
      | err v m p t s2 => intro h hl; cases h; exact hl
      | fail f s2 =>
        cases f with
        | oof => intro h; exact h.elim
        | unsupported w => intro h; exact h.elim
        | host k => intro h hl; cases h; exact hl trivial
        | syn e => intro h hl; cases h; exact hl trivial }

/-- the requested form for `eval`: the invariant is preserved, so every module has been
    evaluated at most once, and exactly the cached ones once -/
theorem module_evaluated_at_most_once {ld : Loader} (hNat : NativeKeepsModules ld)
    {fuel env n s s'} (hinv : ModInv s) (h : Ends (eval ld fuel env n s) s') :
    ModInv s' ∧ ∀ id, evals s' id ≤ 1 := by
  have hi := ((module_once hNat fuel).eval env n s s' h).2.1 hinv
  exact ⟨hi, modInv_evals_le_one hi⟩

/-- a cached module is never re-evaluated or replaced: all importers share the one instance -/
theorem cached_module_is_kept {ld : Loader} (hNat : NativeKeepsModules ld)
    {fuel env n s s'} (h : Ends (eval ld fuel env n s) s') {id : String} {e : EnvId}
    (hc : s.modules.lookup id = some e) : s'.modules.lookup id = some e :=
  ((module_once hNat fuel).eval env n s s' h).2.2.1 id e hc

/-- … and, given `ModInv`, its evaluation counter stays at one -/
theorem cached_module_not_reevaluated {ld : Loader} (hNat : NativeKeepsModules ld)
    {fuel env n s s'} (hinv : ModInv s) (h : Ends (eval ld fuel env n s) s') {id : String} {e : EnvId}
    (hc : s.modules.lookup id = some e) : evals s id = 1 ∧ evals s' id = 1 := by
  have h1 : evals s id = 1 := (modInv_evals_eq_one_iff hinv id).mpr (by rw [hc]; rfl)
  have hi := (module_evaluated_at_most_once hNat hinv h).1
  have h2 : evals s' id = 1 :=
    (modInv_evals_eq_one_iff hi id).mpr (by rw [cached_module_is_kept hNat h hc]; rfl)
  exact ⟨h1, h2⟩

/-- the driver's default interpretation of the unmodelled natives abstains -/
theorem default_nativeSem_keeps_modules : NativeKeepsModules {} := by
  intro name args s
  exact fun h => h.elim

theorem nativeKeepsModules_of_abstains {ld : Loader}
    (h : ∀ name args s, ∃ w, ld.nativeSem name args s = .fail (.unsupported w) s) :
    NativeKeepsModules ld := by
  intro name args s
  obtain ⟨w, hw⟩ := h name args s
  rw [hw]; exact fun h => h.elim

/-- natives that leave load stack, cache and counters alone satisfy the hypothesis -/
theorem nativeKeepsModules_of_untouched {ld : Loader}
    (h : ∀ name args s s', Ends (ld.nativeSem name args s) s' →
      s'.modstack = s.modstack ∧ s'.modules = s.modules ∧
      s'.ghost.moduleEvals = s.ghost.moduleEvals) :
    NativeKeepsModules ld := by
  intro name args s
  have key : ∀ s', Ends (ld.nativeSem name args s) s' → RMod s s' := fun s' he =>
    let ⟨e1, e2, e3⟩ := h name args s s' he
    RMod.congr (a := s) (b := s) rfl rfl rfl e1 e2 e3 (RMod.refl s)
  revert key
  cases ld.nativeSem name args s with
  | ok a t => exact fun key => key t rfl
  | err v m p tr t => exact fun key => key t rfl
  | fail f t =>
    cases f with
    | oof => exact fun _ hf => hf.elim
    | unsupported w => exact fun _ hf => hf.elim
    | host k => exact fun key _ => key t rfl
    | syn e => exact fun key _ => key t rfl

/-! ### whole programs and sessions -/

theorem interpret_module_once {ld : Loader} (hNat : NativeKeepsModules ld) {fuel senv ast s s'}
    (h : Ends (interpretProg ld fuel senv ast s) s') : RMod s s' := by
  have he := (module_once hNat fuel).eval senv ast s
  unfold interpretProg at h
  rw [bind_def] at h
  cases hr : eval ld fuel senv ast s with
  | ok v s1 =>
    rw [hr] at h he
    have : s1 = s' := by
      cases v <;> exact h
    exact he s' this
  | err v m p t s1 => rw [hr] at h he; exact he s' h
  | fail f s1 => rw [hr] at h he; exact he s' h

theorem session_module_once {ld : Loader} (hNat : NativeKeepsModules ld) {fuel senv} :
    ∀ (progs : List Node) (s s' : State), runSession ld fuel senv progs s = some s' → RMod s s' := by
  intro progs
  induction progs with
  | nil => intro s s' h; cases h; exact RMod.refl _
  | cons p ps ih =>
    intro s s' h
    simp only [runSession] at h
    cases hn : nextState (interpretProg ld fuel senv p s) with
    | none => rw [hn] at h; cases h
    | some s1 =>
      rw [hn] at h
      exact RMod.trans (interpret_module_once hNat (nextState_ends hn)) (ih s1 s' h)

/-- a fresh interpreter satisfies the invariant: nothing cached, nothing evaluated -/
theorem modInv_of_empty {s : State} (h1 : s.modules = []) (h2 : s.ghost.moduleEvals = []) :
    ModInv s := by
  intro id; unfold evals; rw [h1, h2]; rfl

theorem initialState_modules (secure : Bool) (natives : List String) :
    (initialState secure natives).1.modules = [] ∧
    (initialState secure natives).1.ghost.moduleEvals = [] := by
  have h : obs (initialState secure natives).1 = ⟨[], [], {}⟩ := by
    simp only [initialState]
    refine Eq.trans (obs_foldl _ ?_ natives _) ?_
    · intro _ _; rfl
    · rfl
  exact ⟨congrArg Obs.modules h, congrArg (fun o => o.ghost.moduleEvals) h⟩

theorem modInv_initial (secure : Bool) (natives : List String) :
    ModInv (initialState secure natives).1 :=
  modInv_of_empty (initialState_modules secure natives).1 (initialState_modules secure natives).2

/-- **session form.**  On an interpreter started fresh, after ANY sequence of `interpret` calls
    every module has been evaluated at most once, exactly the cached ones once. -/
theorem session_modules_at_most_once {ld : Loader} (hNat : NativeKeepsModules ld) {fuel senv}
    {progs : List Node} {secure natives} {s' : State}
    (h : runSession ld fuel senv progs (initialState secure natives).1 = some s') :
    ModInv s' ∧ ∀ id, evals s' id ≤ 1 := by
  have hi := (session_module_once hNat progs _ s' h).2.1 (modInv_initial secure natives)
  exact ⟨hi, modInv_evals_le_one hi⟩

/-! ### non-vacuity -/

example : NativeKeepsModules {} := default_nativeSem_keeps_modules

/-- user modules `a` (requires `b`, then defines x) and `b` (defines y) -/
def ldAB : Loader := {
  user := [("a.ckl", .ok (.block [.require (.lit (.str ['b']) {}) none false none {},
                                   .defn "x" (.lit (.int 1) {}) "" {}] [] [] [] true {})),
           ("b.ckl", .ok (.defn "y" (.lit (.int 2) {}) "" {}))] }

theorem ldAB_keeps : NativeKeepsModules ldAB :=
  nativeKeepsModules_of_abstains (fun name _ _ => ⟨"native " ++ name, rfl⟩)

def reqA : Node := .require (.lit (.str ['a']) {}) none false none {}
def reqB : Node := .require (.lit (.str ['b']) {}) none false none {}

-- `require a; require b; require a` in three interpret calls: both modules evaluated once
#guard (match runSession ldAB 60 1 [reqA, reqB, reqA] (initialState true []).1 with
  | some s' => evals s' "a" == 1 && evals s' "b" == 1 && evals s' "c" == 0 &&
               (s'.modules.lookup "a").isSome && (s'.modules.lookup "b").isSome
  | none => false)

example {s'} (h : runSession ldAB 60 1 [reqA, reqB, reqA] (initialState true []).1 = some s') :
    ∀ id, evals s' id ≤ 1 :=
  (session_modules_at_most_once ldAB_keeps h).2

/-! ### remark: why `loadModule` needs its calling context

  A module whose body re-requires itself inside a catch-all block:
  `a.ckl = do require a catch all 1 end`.  Through `evalRequire` the inner `require a` is refused
  (circular dependency; the error is caught) and `a` is evaluated once.  Calling `loadModule`
  directly with an EMPTY load stack — which the evaluator never does — would let the inner
  `require a` load `a` completely before the outer load registers it: two evaluations.  This is
  why the field `ModuleOnce.loadModule` carries the hypothesis about the load stack. -/
def ldSelf : Loader := {
  user := [("a.ckl", .ok (.block [reqA] [.catchAll] [.lit (.int 1) {}] [] false {}))] }

#guard (match runSession ldSelf 60 1 [reqA] (initialState true []).1 with
  | some s' => evals s' "a" == 1 | none => false)
#guard (match loadModule ldSelf 60 1 "a" "a.ckl" {} (initialState true []).1 with
  | .ok _ s' => evals s' "a" == 2 | _ => false)

end Ckl.C11
