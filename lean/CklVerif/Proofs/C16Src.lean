import CklVerif.Proofs.C19Src
import CklVerif.Proofs.C19SrcSet
import CklVerif.Proofs.C19SrcL1
import CklVerif.Proofs.C19SrcL2
import CklVerif.Proofs.C19SrcL2b
import CklVerif.Proofs.C19SrcMapList
import CklVerif.Proofs.C19SrcL3
import CklVerif.Proofs.C18Src

/-!
  C16Src — the C16 statements ("only documented mutators change their arguments; values produced by non-mutating operations
  are independent of their inputs") about library functions WRITTEN IN THE LANGUAGE, as short corollaries of the source theorems
  of the C19Src / C18Src families (which are about the regenerated ASTs of `Gen/LibSrc.lean`).

  In C16's words:
  * `NothingModified s s'` — the call modified nothing that existed: every frame, every heap cell (hence every value passed to
    the function and everything reachable from it, through every alias) and the output are as before;
  * `ModifiesExactly a s s'` — the call modified exactly the container `a` and nothing else;
  * `Fresh s b` — the cell `b` did not exist before the call: the returned container is independent of the inputs.
  Registry of ALL theorems of the two families with such a conclusion: Proofs/C16SrcAudit.lean.
-/
namespace Ckl.C16Src
open Ckl Ckl.C03 Ckl.Gen.LibSrc Ckl.C19Src

/-- the call modified nothing that existed -/
def NothingModified (s s' : State) : Prop :=
  (∀ i, i < s.frames.size → s'.frame i = s.frame i) ∧ (∀ a c, s.cell a = some c → s'.cell a = some c) ∧ s'.out = s.out

/-- the call modified exactly the container `a` (if at all) and nothing else that existed -/
def ModifiesExactly (a : Nat) (s s' : State) : Prop :=
  (∀ i, i < s.frames.size → s'.frame i = s.frame i) ∧ (∀ x c, x ≠ a → s.cell x = some c → s'.cell x = some c) ∧
    s'.out = s.out

/-- the cell did not exist before -/
def Fresh (s : State) (b : Nat) : Prop := s.cell b = none

theorem nothingModified_of_ext {s s' : State} (e : Ext s s') : NothingModified s s' :=
  ⟨e.frame, fun a c h => by rw [e.cell a (cell_lt h)]; exact h, e.out⟩

theorem modifiesExactly_of_extBut {a : Nat} {s s' : State} (e : ExtBut a s s') : ModifiesExactly a s s' :=
  ⟨e.frame, fun x c hne h => by rw [e.cell x (cell_lt h) hne]; exact h, e.out⟩

theorem fresh_of_le {s : State} {b : Nat} (h : s.heap.size ≤ b) : Fresh s b := by
  simp [Fresh, State.cell, Array.getElem?_eq_none h]

variable (ld : Loader)

/-! ### non-mutating functions do not modify their arguments -/

/-- `reverse_list` does not modify its argument, and returns a fresh cell -/
theorem reverse_list_does_not_modify_its_argument {s : State} {M nats srcs fn m} (h : LibEnv s M nats srcs)
    (hn : ∀ x ∈ reverseNats, x ∈ nats) (hs : ∀ p ∈ firstSrcs, p ∈ srcs) (hm : M m) (hsrc : IsSrc s fn list_reverse_list m)
    (a : Nat) (xs : List RVal) (hc : s.cell a = some (.list xs)) :
    ∃ s' b, NothingModified s s' ∧ Fresh s b ∧ s'.cell b = some (.list xs.reverse) ∧
      ∀ fuel env pos, xs.length + 18 < fuel → callFn ld fuel fn [("list", .ref a)] env pos s = .ok (.ref b) s' := by
  obtain ⟨s', b, e, hb, hcb, _, c⟩ := reverse_list_src ld h hn hs hm hsrc a xs hc
  exact ⟨s', b, nothingModified_of_ext e, fresh_of_le hb, hcb, c⟩

/-- `rest` returns a fresh cell and does not modify its argument -/
theorem rest_returns_fresh_cell {s : State} {M nats srcs fn m} (h : LibEnv s M nats srcs) (hn : ∀ x ∈ listNats, x ∈ nats)
    (hm : M m) (hsrc : IsSrc s fn list_rest m) (a : Nat) (xs : List RVal) (hc : s.cell a = some (.list xs)) :
    ∃ s' b, NothingModified s s' ∧ Fresh s b ∧ s'.cell b = some (.list xs.tail) ∧
      ∀ fuel env pos, 6 < fuel → callFn ld fuel fn [("lst", .ref a)] env pos s = .ok (.ref b) s' := by
  obtain ⟨s', e, hcb, c⟩ := rest_src ld h hn hm hsrc a xs hc
  exact ⟨s', _, nothingModified_of_ext e, fresh_of_le (Nat.le_refl _), hcb, c⟩

/-- `reduce` does not modify its arguments (list of ints, built-in integer operation) -/
theorem reduce_does_not_modify_its_arguments {s : State} {M nats srcs fn m} (h : LibEnv s M nats srcs)
    (hn : ∀ x ∈ reduceNats, x ∈ nats) (hm : M m) (hsrc : IsSrc s fn list_reduce m) {nm : String} {g : Int → Int → Int}
    (hop : IntOp nm g) (i : Nat) (a : Nat) (n : Int) (ns : List Int) (hc : s.cell a = some (.list ((n :: ns).map .int))) :
    ∃ s', NothingModified s s' ∧ ∀ fuel env pos, ns.length + 30 < fuel →
      callFn ld fuel fn [("list", .ref a), ("f", .native nm i)] env pos s = .ok (.int (ns.foldl g n)) s' := by
  obtain ⟨s', e, c⟩ := reduce_src_ints ld h hn hm hsrc hop i a n ns hc
  exact ⟨s', nothingModified_of_ext e, c⟩

/-- `gcd` modifies nothing -/
theorem gcd_does_not_modify_anything {s : State} {M nats srcs fn m} (h : LibEnv s M nats srcs) (hn : ∀ x ∈ gcdNats, x ∈ nats)
    (hs : ∀ p ∈ gcdSrcs, p ∈ srcs) (hm : M m) (hsrc : IsSrc s fn math_gcd m) (a b : Int) :
    ∃ s', NothingModified s s' ∧ ∀ fuel env pos, gcdFuel b < fuel →
      callFn ld fuel fn [("a", .int a), ("b", .int b)] env pos s = .ok (.int (Int.gcd a b : Int)) s' := by
  obtain ⟨s', e, c⟩ := gcd_src_int ld h hn hs hm hsrc a b
  exact ⟨s', nothingModified_of_ext e, c⟩

/-- `join` does not modify its arguments (list of strings) -/
theorem join_does_not_modify_its_arguments {s : State} {M nats srcs fn m} (h : LibEnv s M nats srcs)
    (hn : ∀ x ∈ C18Src.joinNats, x ∈ nats) (hm : M m) (hsrc : IsSrc s fn string_join m) (a : Nat) (sep : List Char)
    (ts : List (List Char)) (hc : s.cell a = some (.list (ts.map .str))) :
    ∃ s', NothingModified s s' ∧ ∀ fuel env pos, ts.length + 19 < fuel →
      callFn ld fuel fn [("lst", .ref a), ("sep", .str sep)] env pos s = .ok (.str (sep.intercalate ts)) s' := by
  obtain ⟨s', e, c⟩ := C18Src.join_src ld h hn hm hsrc a sep ts hc
  exact ⟨s', nothingModified_of_ext e, c⟩

/-- `replace` modifies nothing -/
theorem replace_does_not_modify_anything {s : State} {M nats srcs fn m} (h : LibEnv s M nats srcs)
    (hn : ∀ x ∈ C18Src.replaceNats, x ∈ nats) (hs : ∀ p ∈ C18Src.replaceSrcs, p ∈ srcs) (hm : M m)
    (hsrc : IsSrc s fn string_replace m) (cs pa pb : List Char) (st : Int) :
    ∃ s', NothingModified s s' ∧ ∀ fuel env pos, C18Src.replFuel cs st < fuel →
      callFn ld fuel fn [("s", .str cs), ("a", .str pa), ("b", .str pb), ("start", .int st)] env pos s
        = .ok (.str (Str.replaceM cs pa pb st)) s' := by
  obtain ⟨s', e, c⟩ := C18Src.replace_src ld h hn hs hm hsrc cs pa pb st
  exact ⟨s', nothingModified_of_ext e, c⟩

/-- **`union` does not modify its arguments** (a past defect had it mutate the first one) and returns a fresh set -/
theorem union_does_not_modify_its_arguments {s : State} {M nats srcs fn m} (h : LibEnv s M nats srcs)
    (hn : ∀ x ∈ unionNats, x ∈ nats) (LM : ListMod s M) (hm : M m) (hsrc : IsSrc s fn set_union m) (va vb : RVal)
    (enA enB : List Val) (CA : Coll s va enA) (CB : Coll s vb enB) :
    ∃ r s', NothingModified s s' ∧ Fresh s r ∧ s'.cell r = some (.set ((Lib.unionM enA enB).map liftV)) ∧
      ∀ fuel env pos, enA.length + enB.length + 25 < fuel →
        callFn ld fuel fn [("seta", va), ("setb", vb)] env pos s = .ok (.ref r) s' := by
  obtain ⟨r, s', e, hr, hc, _, _, _, c⟩ := union_src ld h hn LM hm hsrc va vb enA enB CA CB
  exact ⟨r, s', nothingModified_of_ext e, fresh_of_le hr, hc, c⟩

/-- `intersection` does not modify its arguments and returns a fresh set -/
theorem intersection_does_not_modify_its_arguments {s : State} {M nats srcs fn m} (h : LibEnv s M nats srcs)
    (hn : ∀ x ∈ setNats, x ∈ nats) (hm : M m) (hsrc : IsSrc s fn set_intersection m) (va vb : RVal)
    (enA enB : List Val) (CA : Coll s va enA) (CB : Coll s vb enB) :
    ∃ r s', NothingModified s s' ∧ Fresh s r ∧ s'.cell r = some (.set ((Lib.intersectionM enA enB).map liftV)) ∧
      ∀ fuel env pos, enA.length + 16 < fuel →
        callFn ld fuel fn [("seta", va), ("setb", vb)] env pos s = .ok (.ref r) s' := by
  obtain ⟨r, s', e, hr, hc, _, _, c⟩ := intersection_src ld h hn hm hsrc va vb enA enB CA CB
  exact ⟨r, s', nothingModified_of_ext e, fresh_of_le hr, hc, c⟩

/-- `diff` does not modify its arguments and returns a fresh set -/
theorem diff_does_not_modify_its_arguments {s : State} {M nats srcs fn m} (h : LibEnv s M nats srcs)
    (hn : ∀ x ∈ setNats, x ∈ nats) (hm : M m) (hsrc : IsSrc s fn set_diff m) (va vb : RVal)
    (enA enB : List Val) (CA : Coll s va enA) (CB : Coll s vb enB) :
    ∃ r s', NothingModified s s' ∧ Fresh s r ∧ s'.cell r = some (.set ((Lib.diffM enA enB).map liftV)) ∧
      ∀ fuel env pos, enA.length + 16 < fuel →
        callFn ld fuel fn [("seta", va), ("setb", vb)] env pos s = .ok (.ref r) s' := by
  obtain ⟨r, s', e, hr, hc, _, _, c⟩ := diff_src ld h hn hm hsrc va vb enA enB CA CB
  exact ⟨r, s', nothingModified_of_ext e, fresh_of_le hr, hc, c⟩

/-- `symmetric_diff` does not modify its arguments and returns a fresh set -/
theorem symmetric_diff_does_not_modify_its_arguments {s : State} {M nats srcs fn m} (h : LibEnv s M nats srcs)
    (hn : ∀ x ∈ unionNats, x ∈ nats) (hs : ∀ p ∈ symDiffSrcs, p ∈ srcs) (LM : ListMod s M) (hm : M m)
    (hsrc : IsSrc s fn set_symmetric_diff m) (va vb : RVal) (enA enB : List Val) (CA : Coll s va enA) (CB : Coll s vb enB) :
    ∃ r s', NothingModified s s' ∧ Fresh s r ∧
      s'.cell r = some (.set ((Lib.symmetricDiffM decRepr enA enB).map liftV)) ∧
      ∀ fuel env pos, enA.length + enB.length + 32 < fuel →
        callFn ld fuel fn [("seta", va), ("setb", vb)] env pos s = .ok (.ref r) s' := by
  obtain ⟨r, s', e, hr, hc, _, _, c⟩ := symmetric_diff_src ld h hn hs LM hm hsrc va vb enA enB CA CB
  exact ⟨r, s', nothingModified_of_ext e, fresh_of_le hr, hc, c⟩

/-- `first_n` returns a fresh cell and does not modify its argument -/
theorem first_n_returns_fresh_cell {s : State} {M nats srcs fn m} (h : LibEnv s M nats srcs)
    (hn : ∀ x ∈ firstNNats, x ∈ nats) (hm : M m) (hsrc : IsSrc s fn list_first_n m) (a : Nat) (xs : List RVal) (n : Int)
    (hc : s.cell a = some (.list xs)) :
    ∃ s' b, NothingModified s s' ∧ Fresh s b ∧ s'.cell b = some (.list (Seq.substr xs 0 (some n))) ∧
      ∀ fuel env pos, 6 < fuel → callFn ld fuel fn [("lst", .ref a), ("n", .int n)] env pos s = .ok (.ref b) s' := by
  obtain ⟨s', e, hcb, _, c⟩ := first_n_src ld h hn hm hsrc a xs n hc
  exact ⟨s', _, nothingModified_of_ext e, fresh_of_le (Nat.le_refl _), hcb, c⟩

/-- the generic `reverse` on a list returns a fresh cell and does not modify its argument -/
theorem reverse_returns_fresh_cell {s : State} {M nats srcs fn m} (h : LibEnv s M nats srcs)
    (hn : ∀ x ∈ reverseGenNats, x ∈ nats) (hs : ∀ p ∈ reverseGenSrcs, p ∈ srcs) (hm : M m)
    (hsrc : IsSrc s fn list_reverse m) (a : Nat) (xs : List RVal) (hc : s.cell a = some (.list xs)) :
    ∃ s' b, NothingModified s s' ∧ Fresh s b ∧ s'.cell b = some (.list xs.reverse) ∧
      ∀ fuel env pos, xs.length + 16 < fuel → callFn ld fuel fn [("obj", .ref a)] env pos s = .ok (.ref b) s' := by
  obtain ⟨s', b, e, hb, hcb, _, c⟩ := reverse_src_list ld h hn hs hm hsrc a xs hc
  exact ⟨s', b, nothingModified_of_ext e, fresh_of_le hb, hcb, c⟩

/-- **`chunks` returns fresh cells**: the outer list and every chunk — also the LAST one, which the repaired source copies with
    `sublist(0)` — are cells that did not exist before, pairwise different; the argument is not modified -/
theorem chunks_returns_fresh_cells {s : State} {M nats srcs fn m} (h : LibEnv s M nats srcs)
    (hn : ∀ x ∈ chunksNats, x ∈ nats) (hs : ∀ p ∈ firstSrcs, p ∈ srcs) (hm : M m) (hsrc : IsSrc s fn core_chunks m)
    (a : Nat) (xs : List RVal) (k : Int) (hk : 0 < k) (hc : s.cell a = some (.list xs)) :
    ∃ (s' : State) (b : Nat) (cs : List Nat), NothingModified s s' ∧ Fresh s b ∧ s'.cell b = some (.list (cs.map .ref)) ∧
      (∀ ci ∈ cs, Fresh s ci ∧ ci ≠ b) ∧ cs.Nodup ∧
      cs.map s'.cell = (Lib.chunksGo k.toNat xs).map (fun ch => some (.list ch)) ∧
      ∀ fuel env pos, 2 * xs.length + 24 < fuel →
        callFn ld fuel fn [("obj", .ref a), ("chunk_size", .int k)] env pos s = .ok (.ref b) s' := by
  obtain ⟨s', b, cs, e, hb, _, hcb, hfr, hnd, hcs, _, c⟩ := chunks_src_list ld h hn hs hm hsrc a xs k hk hc
  exact ⟨s', b, cs, nothingModified_of_ext e, fresh_of_le hb, hcb,
    fun ci hci => ⟨fresh_of_le (hfr ci hci).1, (hfr ci hci).2.1⟩, hnd, hcs, c⟩

/-- `pairs` returns fresh cells (the outer list and every pair, pairwise different) and does not modify its argument -/
theorem pairs_returns_fresh_cells {s : State} {M nats srcs fn m} (h : LibEnv s M nats srcs)
    (hn : ∀ x ∈ pairsNats, x ∈ nats) (hm : M m) (hsrc : IsSrc s fn core_pairs m)
    (a : Nat) (xs : List RVal) (hc : s.cell a = some (.list xs)) :
    ∃ (s' : State) (b : Nat) (cs : List Nat), NothingModified s s' ∧ Fresh s b ∧ s'.cell b = some (.list (cs.map .ref)) ∧
      (∀ ci ∈ cs, Fresh s ci ∧ ci ≠ b) ∧ cs.Nodup ∧
      cs.map s'.cell = (pairsL_L2 xs).map (fun ch => some (.list ch)) ∧
      ∀ fuel env pos, xs.length + 20 < fuel → callFn ld fuel fn [("lst", .ref a)] env pos s = .ok (.ref b) s' := by
  obtain ⟨s', b, cs, e, hb, _, hcb, hfr, hnd, hcs, _, c⟩ := pairs_src_list ld h hn hm hsrc a xs hc
  exact ⟨s', b, cs, nothingModified_of_ext e, fresh_of_le hb, hcb,
    fun ci hci => ⟨fresh_of_le (hfr ci hci).1, (hfr ci hci).2.1⟩, hnd, hcs, c⟩

/-- `map_list` returns a fresh cell and does not modify its argument (built-in function argument) -/
theorem map_list_returns_fresh_cell {s : State} {M nats srcs fn m} (h : LibEnv s M nats srcs)
    (hn : ∀ x ∈ mapListNats, x ∈ nats) (hm : M m) (hsrc : IsSrc s fn list_map_list m) (a : Nat) (xs : List RVal)
    (hc : s.cell a = some (.list xs)) {nm : String} (i : Nat) {q : String} {rest : List String} (g : RVal → RVal)
    (hps : nativeArgNames nm = some (q :: rest)) (hsp : ∀ p ∈ q :: rest, ¬ ("...".toList <:+ p.toList))
    (hsem : ∀ v ∈ xs, ∀ (st : State) d pos, ∃ mm, callPure nm [(q, v)] d pos = some mm ∧ mm st = .ok (g v) st) :
    ∃ s' b, NothingModified s s' ∧ Fresh s b ∧ s'.cell b = some (.list (xs.map g)) ∧
      ∀ fuel env pos, xs.length + 16 < fuel →
        callFn ld fuel fn [("lst", .ref a), ("f", .native nm i)] env pos s = .ok (.ref b) s' := by
  obtain ⟨s', b, e, hb, hcb, _, c⟩ := map_list_src_native ld h hn hm hsrc a xs hc i g hps hsp hsem
  exact ⟨s', b, nothingModified_of_ext e, fresh_of_le hb, hcb, c⟩

/-- `filter` returns a fresh cell and does not modify its argument (default key, built-in predicate) -/
theorem filter_returns_fresh_cell {s : State} {M nats srcs fn m} (h : LibEnv s M nats srcs)
    (hn : ∀ x ∈ filterNats, x ∈ nats) (hm : M m) (hsrc : IsSrc s fn list_filter m)
    (a : Nat) (xs : List RVal) (hc : s.cell a = some (.list xs)) (hpl : ∀ x ∈ xs, Plain_L3 x) (i : Nat) :
    ∃ s' b, NothingModified s s' ∧ Fresh s b ∧ s'.cell b = some (.list (xs.filter (fun x => !x.isNull))) ∧
      ∀ fuel env pos, xs.length + 25 < fuel →
        callFn ld fuel fn [("lst", .ref a), ("predicate", .native "is_not_null" i)] env pos s = .ok (.ref b) s' := by
  obtain ⟨s', b, e, hb, hcb, _, c⟩ := filter_src_is_not_null ld h hn hm hsrc i a xs hc hpl
  exact ⟨s', b, nothingModified_of_ext e, fresh_of_le hb, hcb, c⟩

/-! ### the documented mutator changes exactly its first argument -/

/-- **`append_all` changes exactly its first argument** (list cell, items a list cell) -/
theorem append_all_changes_exactly_its_first_argument {s : State} {M nats srcs fn m} (h : LibEnv s M nats srcs)
    (hn : ∀ x ∈ appendNats, x ∈ nats) (hm : M m) (hsrc : IsSrc s fn list_append_all m) (a b : Nat) (xs ys : List RVal)
    (hca : s.cell a = some (.list xs)) (hcb : s.cell b = some (.list ys)) :
    ∃ s', ModifiesExactly a s s' ∧ s'.cell a = some (.list (xs ++ ys)) ∧
      ∀ fuel env pos, ys.length + 13 < fuel →
        callFn ld fuel fn [("lst", .ref a), ("items", .ref b)] env pos s = .ok (.ref a) s' := by
  obtain ⟨s', e, hc, _, c⟩ := append_all_src ld h hn hm hsrc a b xs ys hca hcb
  exact ⟨s', modifiesExactly_of_extBut e, hc, c⟩

/-- **`append_all` on a set changes exactly its first argument** (items a list cell or a set cell) -/
theorem append_all_set_changes_exactly_its_first_argument {s : State} {M nats srcs fn m} (h : LibEnv s M nats srcs)
    (hn : ∀ x ∈ appendSetNats, x ∈ nats) (hm : M m) (hsrc : IsSrc s fn list_append_all m) (a : Nat) (vb : RVal)
    (acc en : List Val) (hacc : ScalarL acc) (hca : s.cell a = some (.set (acc.map liftV))) (CB : Coll s vb en) :
    ∃ s', ModifiesExactly a s s' ∧ s'.cell a = some (.set ((Lib.appendAllSet acc en).map liftV)) ∧
      ∀ fuel env pos, en.length + 14 < fuel →
        callFn ld fuel fn [("lst", .ref a), ("items", vb)] env pos s = .ok (.ref a) s' := by
  obtain ⟨s', e, hc, c⟩ := append_all_src_set ld h hn hm hsrc a vb acc en hacc hca CB
  exact ⟨s', modifiesExactly_of_extBut e, hc, c⟩

end Ckl.C16Src
