/-
  C02 (semantic half) — the scanner on the CANONICAL SPELLING of a token list: every token text followed
  by one blank.  If every token is scannable (`SpOK`: an identifier word, a decimal numeral, or one of the
  fixed spellings of the expression grammar), `Lexer.scan` returns tokens with exactly these spellings.
-/
import CklVerif.Lemmas.C08Lexer
import CklVerif.Lemmas.LexerLayout
import CklVerif.Lemmas.C02ParseDefs
namespace Ckl.C02S
open Ckl Ckl.C02P Ckl.Lexer

/-- the fixed spellings of the expression grammar: parentheses, `or and not`, `TRUE FALSE`, the operators -/
def fixedSps : List Sp :=
  [LP, RP, orSp, andSp, notSp, (['T', 'R', 'U', 'E'], .boolean), (['F', 'A', 'L', 'S', 'E'], .boolean),
   (['+'], .operator), (['-'], .operator), (['*'], .operator), (['/'], .operator), (['%'], .operator),
   (['=', '='], .operator), (['!', '='], .operator), (['<', '>'], .operator), (['<'], .operator),
   (['<', '='], .operator), (['>'], .operator), (['>', '='], .operator)]

/-- a token spelling the scanner reads back as itself when it is followed by a blank: an identifier
    (a word that is not a keyword or boolean), a decimal numeral, or a fixed spelling -/
def SpOK (s : Sp) : Prop :=
  (s.2 = .identifier ∧ ∃ c cs, s.1 = c :: cs ∧ WordStart c ∧ (∀ x ∈ cs, WordChar x) ∧ wordType s.1 = .identifier) ∨
  (s.2 = .int ∧ ∃ d rest, s.1 = d :: rest ∧ d ∈ digits ∧ ∀ c ∈ rest, c ∈ digits) ∨
  s ∈ fixedSps

/-- canonical spelling: every token followed by one blank -/
def spell : List Sp → List Char
  | [] => []
  | s :: ss => s.1 ++ ' ' :: spell ss

/-- one token step: from a token boundary, the text of the token and the blank are consumed, the token is
    emitted, and the scanner is at a token boundary again -/
def TokStep (name : String) (s : Sp) : Prop :=
  ∀ (σ : LexSt), σ.core.state = .s0 → σ.core.token = [] → ∀ tail : List Char,
    ∃ σ' p off, run name σ (s.1 ++ ' ' :: tail) = run name σ' tail ∧ σ'.core = σ.core ∧
      σ'.out = (⟨s.1, s.2, p⟩, off) :: σ.out

theorem wsStep_blank (name : String) {σ : LexSt} (h0 : σ.core.state = .s0) (tail : List Char) :
    run name σ (' ' :: tail) = run name (wsStep σ ' ') tail :=
  run_cons_ok _ (feed_ws h0 (by decide))

/-- from `run … (txt ++ [' ']) = .ok σ'` to the step with an arbitrary tail -/
theorem tokStep_of_run {name : String} {s : Sp}
    (h : ∀ (σ : LexSt), σ.core.state = .s0 → σ.core.token = [] →
      ∃ σ' p off, run name σ (s.1 ++ [' ']) = .ok σ' ∧ σ'.core = σ.core ∧ σ'.out = (⟨s.1, s.2, p⟩, off) :: σ.out) :
    TokStep name s := by
  intro σ h0 htok tail
  obtain ⟨σ', p, off, hr, hk, ho⟩ := h σ h0 htok
  refine ⟨σ', p, off, ?_, hk, ho⟩
  have := run_append_ok (name := name) tail hr
  simpa using this

theorem tokStep_word (name : String) (w : List Char) (c : Char) (cs : List Char) (hw : w = c :: cs)
    (hc : WordStart c) (hcs : ∀ x ∈ cs, WordChar x) : TokStep name (w, wordType w) := by
  intro σ h0 htok tail
  subst hw
  obtain ⟨σ', col, hr, hk, ho, _⟩ := run_word (name := name) h0 htok hc hcs (t := ' ') (by decide) tail
  refine ⟨wsStep σ' ' ', ⟨name, σ.line, col⟩, σ.pos, ?_, ?_, ?_⟩
  · show run name σ ((c :: cs) ++ ' ' :: tail) = _
    rw [List.cons_append, hr, wsStep_blank name (by rw [hk]; exact h0)]
  · show σ'.core = σ.core
    exact hk
  · show σ'.out = _
    exact ho

theorem tokStep_int (name : String) (d : Char) (rest : List Char) (hd : d ∈ digits) (hrest : ∀ c ∈ rest, c ∈ digits) :
    TokStep name (d :: rest, .int) := by
  intro σ h0 htok tail
  obtain ⟨σ', col, hr, hk, ho, _⟩ := run_int_gen (name := name) h0 htok hd (rest := rest)
    (fun c hc => Or.inl (hrest c hc)) (t := ' ') (by decide) tail
  have hdu : dropUnderscores (d :: rest) = d :: rest :=
    dropUnderscores_digits (by intro c hc; rcases List.mem_cons.1 hc with rfl | h; exact hd; exact hrest c h)
  refine ⟨wsStep σ' ' ', ⟨name, σ.line, col⟩, σ.pos, ?_, ?_, ?_⟩
  · show run name σ ((d :: rest) ++ ' ' :: tail) = _
    rw [List.cons_append, hr, wsStep_blank name (by rw [hk]; exact h0)]
  · show σ'.core = σ.core
    exact hk
  · show σ'.out = _
    rw [ho, hdu]

theorem core_eq {σ : LexSt} (h0 : σ.core.state = .s0) (htok : σ.core.token = []) :
    ({ σ.core with token := [], state := .s0 } : Core) = σ.core := by
  cases hσ : σ.core with
  | mk s tk tb => rw [hσ] at h0 htok; simp only at h0 htok; subst h0; subst htok; rfl

set_option linter.unusedSimpArgs false in
/-- the operators and parentheses: computed on the symbolic scanner state -/
theorem tokStep_punct (name : String) (s : Sp)
    (hs : s ∈ [LP, RP, (['+'], .operator), (['-'], .operator), (['*'], .operator), (['/'], .operator), (['%'], .operator),
      (['=', '='], .operator), (['!', '='], .operator), (['<', '>'], .operator), (['<'], .operator),
      (['<', '='], .operator), (['>'], .operator), (['>', '='], .operator)]) : TokStep name s := by
  simp only [List.mem_cons, List.not_mem_nil, or_false] at hs
  rcases hs with rfl | rfl | rfl | rfl | rfl | rfl | rfl | rfl | rfl | rfl | rfl | rfl | rfl | rfl <;>
    exact tokStep_of_run (fun σ h0 htok => by
      have hc := core_eq h0 htok
      simp [LP, RP, run, feed, LexSt.count, LexSt.capture, h0, LexSt.dispatch, step0, htok, LexSt.push, step, step10,
        step2, step5, len, digits, whitespace]
      try exact hc)

theorem tokStep_fixed (name : String) (s : Sp) (hs : s ∈ fixedSps) : TokStep name s := by
  simp only [fixedSps, List.mem_cons, List.not_mem_nil, or_false] at hs
  rcases hs with rfl | rfl | rfl | rfl | rfl | rfl | rfl | h
  · exact tokStep_punct name _ (by simp)
  · exact tokStep_punct name _ (by simp)
  · exact tokStep_word name ['o', 'r'] 'o' ['r'] rfl (by decide) (by decide)
  · exact tokStep_word name ['a', 'n', 'd'] 'a' ['n', 'd'] rfl (by decide) (by decide)
  · exact tokStep_word name ['n', 'o', 't'] 'n' ['o', 't'] rfl (by decide) (by decide)
  · exact tokStep_word name ['T', 'R', 'U', 'E'] 'T' ['R', 'U', 'E'] rfl (by decide) (by decide)
  · exact tokStep_word name ['F', 'A', 'L', 'S', 'E'] 'F' ['A', 'L', 'S', 'E'] rfl (by decide) (by decide)
  · exact tokStep_punct name _ (by
      simp only [List.mem_cons, List.not_mem_nil, or_false]
      rcases h with h | h | h | h | h | h | h | h | h | h | h | h <;> simp [h])

theorem tokStep_of_spOK (name : String) (s : Sp) (h : SpOK s) : TokStep name s := by
  obtain ⟨txt, ty⟩ := s
  rcases h with ⟨hty, c, cs, hw, hc, hcs, hwt⟩ | ⟨hty, d, rest, hw, hd, hrest⟩ | h
  · simp only at hty hw hwt
    subst hty
    have := tokStep_word name txt c cs hw hc hcs
    rwa [hwt] at this
  · simp only at hty hw
    subst hty; subst hw
    exact tokStep_int name d rest hd hrest
  · exact tokStep_fixed name _ h

/-- the scanner on the canonical spelling, from any token boundary, in front of any tail -/
theorem run_spell (name : String) : ∀ (ss : List Sp), (∀ s ∈ ss, SpOK s) → ∀ (σ : LexSt), σ.core.state = .s0 →
    σ.core.token = [] → ∀ tail : List Char,
    ∃ σ', run name σ (spell ss ++ tail) = run name σ' tail ∧ σ'.core = σ.core ∧
      σ'.out.map (fun x => sp x.1) = ss.reverse ++ σ.out.map (fun x => sp x.1)
  | [], _, σ, _, _, tail => ⟨σ, rfl, rfl, by simp⟩
  | s :: ss, h, σ, h0, htok, tail => by
    obtain ⟨σ1, p, off, hr1, hk1, ho1⟩ := tokStep_of_spOK name s (h s (by simp)) σ h0 htok (spell ss ++ tail)
    obtain ⟨σ2, hr2, hk2, ho2⟩ := run_spell name ss (fun x hx => h x (by simp [hx])) σ1 (by rw [hk1]; exact h0)
      (by rw [hk1]; exact htok) tail
    refine ⟨σ2, ?_, by rw [hk2, hk1], ?_⟩
    · simp only [spell, List.append_assoc, List.cons_append]
      rw [hr1, hr2]
    · rw [ho2, ho1]
      simp [sp]

/-- **the canonical spelling scans back**: if every token spelling of `ss` is scannable, `Lexer.scan` of the
    text "token blank token blank …" succeeds with tokens spelled exactly `ss` -/
theorem scan_spell (name : String) (ss : List Sp) (h : ∀ s ∈ ss, SpOK s) :
    ∃ ts, Lexer.scan (spell ss) name = .ok ts ∧ ts.map sp = ss := by
  obtain ⟨σ', hr, hk, ho⟩ := run_spell name ss h {} rfl rfl [' ']
  have h0 : σ'.core.state = .s0 := by rw [hk]
  have hrun : run name {} (spell ss ++ [' ']) = .ok (wsStep σ' ' ') := by
    rw [hr, wsStep_blank name h0]; rfl
  refine ⟨(wsStep σ' ' ').out.reverse.map Prod.fst, ?_, ?_⟩
  · simp only [Lexer.scan, scanWithOffsets, hrun]
  · have : (wsStep σ' ' ').out = σ'.out := rfl
    rw [this, List.map_map, List.map_reverse]
    have h2 : σ'.out.map (sp ∘ Prod.fst) = ss.reverse := by
      have : ({} : LexSt).out = [] := rfl
      rw [this] at ho
      simpa [Function.comp_def] using ho
    rw [h2, List.reverse_reverse]

/-! ### the rendering of an expression tree whose atoms are scannable -/

/-- an atom the scanner reads back: an identifier that is a word and not a keyword / boolean, a numeral of
    decimal digits, a boolean -/
def AtomOK : Atom → Prop
  | .ident name => ∃ c cs, name = c :: cs ∧ WordStart c ∧ (∀ x ∈ cs, WordChar x) ∧ wordType name = .identifier
  | .int ds _ _ => ∃ d rest, ds = d :: rest ∧ d ∈ digits ∧ ∀ c ∈ rest, c ∈ digits
  | .bool _ => True

mutual
def AtomsOK : E → Prop
  | .atom a => AtomOK a
  | .or a b more => AtomsOK a ∧ AtomsOK b ∧ AtomsOKL more
  | .and a b more => AtomsOK a ∧ AtomsOK b ∧ AtomsOKL more
  | .not e => AtomsOK e
  | .cmp a _ b more => AtomsOK a ∧ AtomsOK b ∧ AtomsOKC more
  | .add _ l r => AtomsOK l ∧ AtomsOK r
  | .mul _ l r => AtomsOK l ∧ AtomsOK r
  | .neg e => AtomsOK e
  | .paren e => AtomsOK e
def AtomsOKL : List E → Prop
  | [] => True
  | e :: es => AtomsOK e ∧ AtomsOKL es
def AtomsOKC : List (RelOp × E) → Prop
  | [] => True
  | (_, e) :: cs => AtomsOK e ∧ AtomsOKC cs
end

theorem spOK_atom {a : Atom} (h : AtomOK a) : SpOK a.sp := by
  cases a with
  | ident name => exact Or.inl ⟨rfl, h⟩
  | int ds n hn => exact Or.inr (Or.inl ⟨rfl, h⟩)
  | bool b => cases b <;> exact Or.inr (Or.inr (by simp [Atom.sp, fixedSps]))

theorem spOK_fixed {s : Sp} (h : s ∈ fixedSps) : SpOK s := Or.inr (Or.inr h)

theorem spOK_relop (o : RelOp) : SpOK o.sp := spOK_fixed (by cases o <;> simp [RelOp.sp, RelOp.txt, fixedSps])
theorem spOK_addop (o : AddOp) : SpOK o.sp := spOK_fixed (by cases o <;> simp [AddOp.sp, AddOp.txt, fixedSps])
theorem spOK_mulop (o : MulOp) : SpOK o.sp := spOK_fixed (by cases o <;> simp [MulOp.sp, MulOp.txt, fixedSps])

theorem spOK_wrap (k : Nat) (e : E) {ts : List Sp} (h : ∀ s ∈ ts, SpOK s) : ∀ s ∈ wrap k e ts, SpOK s := by
  unfold wrap
  split
  · intro s hs
    simp only [List.mem_cons, List.mem_append, List.not_mem_nil, or_false] at hs
    rcases hs with (rfl | hs) | rfl
    · exact spOK_fixed (by simp [fixedSps])
    · exact h s hs
    · exact spOK_fixed (by simp [fixedSps])
  · exact h

mutual
theorem render_spOK : (e : E) → AtomsOK e → ∀ s ∈ C02P.render e, SpOK s
  | .atom a, h, s, hs => by
    simp only [C02P.render, List.mem_singleton] at hs; subst hs; exact spOK_atom h
  | .or a b more, h, s, hs => by
    simp only [AtomsOK] at h
    simp only [C02P.render, List.mem_append, List.mem_cons] at hs
    rcases hs with (hs | rfl | hs) | hs
    · exact spOK_wrap 1 a (render_spOK a h.1) s hs
    · exact spOK_fixed (by simp [fixedSps])
    · exact spOK_wrap 1 b (render_spOK b h.2.1) s hs
    · exact renderL_spOK orSp 1 (spOK_fixed (by simp [fixedSps])) more h.2.2 s hs
  | .and a b more, h, s, hs => by
    simp only [AtomsOK] at h
    simp only [C02P.render, List.mem_append, List.mem_cons] at hs
    rcases hs with (hs | rfl | hs) | hs
    · exact spOK_wrap 2 a (render_spOK a h.1) s hs
    · exact spOK_fixed (by simp [fixedSps])
    · exact spOK_wrap 2 b (render_spOK b h.2.1) s hs
    · exact renderL_spOK andSp 2 (spOK_fixed (by simp [fixedSps])) more h.2.2 s hs
  | .not e, h, s, hs => by
    simp only [AtomsOK] at h
    simp only [C02P.render, List.mem_cons] at hs
    rcases hs with rfl | hs
    · exact spOK_fixed (by simp [fixedSps])
    · exact spOK_wrap 3 e (render_spOK e h) s hs
  | .cmp a op b more, h, s, hs => by
    simp only [AtomsOK] at h
    simp only [C02P.render, List.mem_append, List.mem_cons] at hs
    rcases hs with (hs | rfl | hs) | hs
    · exact spOK_wrap 4 a (render_spOK a h.1) s hs
    · exact spOK_relop op
    · exact spOK_wrap 4 b (render_spOK b h.2.1) s hs
    · exact renderC_spOK more h.2.2 s hs
  | .add op l r, h, s, hs => by
    simp only [AtomsOK] at h
    simp only [C02P.render, List.mem_append, List.mem_cons] at hs
    rcases hs with hs | rfl | hs
    · exact spOK_wrap 4 l (render_spOK l h.1) s hs
    · exact spOK_addop op
    · exact spOK_wrap 5 r (render_spOK r h.2) s hs
  | .mul op l r, h, s, hs => by
    simp only [AtomsOK] at h
    simp only [C02P.render, List.mem_append, List.mem_cons] at hs
    rcases hs with hs | rfl | hs
    · exact spOK_wrap 5 l (render_spOK l h.1) s hs
    · exact spOK_mulop op
    · exact spOK_wrap 6 r (render_spOK r h.2) s hs
  | .neg e, h, s, hs => by
    simp only [AtomsOK] at h
    simp only [C02P.render, List.mem_cons] at hs
    rcases hs with rfl | hs
    · exact spOK_fixed (by simp [fixedSps, minusSp])
    · exact spOK_wrap 7 e (render_spOK e h) s hs
  | .paren e, h, s, hs => by
    simp only [AtomsOK] at h
    simp only [C02P.render, List.mem_cons, List.mem_append, List.not_mem_nil, or_false] at hs
    rcases hs with (rfl | hs) | rfl
    · exact spOK_fixed (by simp [fixedSps])
    · exact render_spOK e h s hs
    · exact spOK_fixed (by simp [fixedSps])
theorem renderL_spOK (sep : Sp) (k : Nat) (hsep : SpOK sep) : (es : List E) → AtomsOKL es →
    ∀ s ∈ C02P.renderL sep k es, SpOK s
  | [], _, s, hs => by simp [C02P.renderL] at hs
  | e :: es, h, s, hs => by
    simp only [AtomsOKL] at h
    simp only [C02P.renderL, List.mem_cons, List.mem_append] at hs
    rcases hs with (rfl | hs) | hs
    · exact hsep
    · exact spOK_wrap k e (render_spOK e h.1) s hs
    · exact renderL_spOK sep k hsep es h.2 s hs
theorem renderC_spOK : (cs : List (RelOp × E)) → AtomsOKC cs → ∀ s ∈ C02P.renderC cs, SpOK s
  | [], _, s, hs => by simp [C02P.renderC] at hs
  | (op, e) :: cs, h, s, hs => by
    simp only [AtomsOKC] at h
    simp only [C02P.renderC, List.mem_cons, List.mem_append] at hs
    rcases hs with (rfl | hs) | hs
    · exact spOK_relop op
    · exact spOK_wrap 4 e (render_spOK e h.1) s hs
    · exact renderC_spOK cs h.2 s hs
end

/-- **the canonical spelling of an expression**: every token of `render e`, each followed by one blank.  If the
    atoms of `e` are scannable, the scanner returns tokens spelled exactly `render e`. -/
theorem scan_render (name : String) (e : E) (h : AtomsOK e) :
    ∃ ts, Lexer.scan (spell (C02P.render e)) name = .ok ts ∧ ts.map sp = C02P.render e :=
  scan_spell name _ (render_spOK e h)

end Ckl.C02S
