import CklVerif.Lemmas.C19SrcReduce
import CklVerif.Lemmas.C19SrcAppend
import CklVerif.Lemmas.C19Loops

/-!
  C19Src (worker L2) — rules / built-in facts for core.ckl `chunks`:
  * `Ev.whilePost_L2`: the `while` rule with a POSTCONDITION established when the test fails (the existing `Ev.while` only says that
    the test failed in SOME state);
  * `less_equals` on ints, three-argument `sublist`.
-/
namespace Ckl.C19Src
open Ckl Ckl.C03 Ckl.Gen.LibSrc
variable (ld : Loader)

/-- invariant `I` + variant `μ` + postcondition `P`: if the test is FALSE under `I` then `P` holds of the state after the test -/
theorem whileLoop_post_L2 {kc kb : Nat} {env : EnvId} {c body : Node} {pos : Pos}
    (I P : RVal → State → Prop) (μ : State → Nat)
    (hcond : ∀ r s, I r s → ∃ b s1, Ev ld kc env c s (.ok (.bool b) s1) ∧
      (b = false → P r s1) ∧
      (b = true → ∃ r' s2, Ev ld kb env body s1 (.ok r' s2) ∧ isCtl r' = false ∧ I r' s2 ∧ μ s2 < μ s)) :
    ∀ (n : Nat) (r : RVal) (s : State), μ s ≤ n → I r s →
      ∃ r' s', P r' s' ∧
        ∀ f, max kc kb + 2 * n + 2 < f →
          (do match ← eval ld f env c with
              | .bool b => if b then whileLoop ld f env c body pos else pure r
              | v => do throwE ("Expected boolean condition but got " ++ (← typeOf v)) pos) s = .ok r' s' := by
  intro n
  induction n with
  | zero =>
    intro r s hμ hI
    obtain ⟨b, s1, hc, hf, ht⟩ := hcond r s hI
    cases b with
    | false =>
      refine ⟨r, s1, hf rfl, fun f hf' => ?_⟩
      simp only [EvalM.bind_apply, hc f (by omega)]; rfl
    | true =>
      obtain ⟨r', s2, _, _, _, hlt⟩ := ht rfl
      omega
  | succ n ih =>
    intro r s hμ hI
    obtain ⟨b, s1, hc, hf, ht⟩ := hcond r s hI
    cases b with
    | false =>
      refine ⟨r, s1, hf rfl, fun f hf' => ?_⟩
      simp only [EvalM.bind_apply, hc f (by omega)]; rfl
    | true =>
      obtain ⟨r1, s2, hb, hctl, hI2, hlt⟩ := ht rfl
      obtain ⟨r', s', hP', hloop⟩ := ih r1 s2 (by omega) hI2
      refine ⟨r', s', hP', fun f hf' => ?_⟩
      obtain ⟨g, rfl, hg⟩ := succ_of_lt hf'
      simp only [EvalM.bind_apply, hc (g + 1) (by omega), if_true]
      rw [whileLoop, EvalM.bind_apply, hb g (by omega)]
      unfold isCtl at hctl
      simp only [Bool.or_eq_false_iff] at hctl
      simp only [hctl.1.2, hctl.1.1, hctl.2, Bool.false_eq_true, if_false]
      have := hloop g (by omega)
      simp only [EvalM.bind_apply] at this ⊢
      exact this

/-- the `while` node with invariant, variant and postcondition; fuel bound `max kc kb + 2 * μ s + 3` -/
theorem Ev.whilePost_L2 {kc kb : Nat} {env : EnvId} {c body : Node} {pos : Pos}
    (I P : RVal → State → Prop) (μ : State → Nat)
    (hcond : ∀ r s, I r s → ∃ b s1, Ev ld kc env c s (.ok (.bool b) s1) ∧
      (b = false → P r s1) ∧
      (b = true → ∃ r' s2, Ev ld kb env body s1 (.ok r' s2) ∧ isCtl r' = false ∧ I r' s2 ∧ μ s2 < μ s))
    (s : State) (h0 : I (.bool true) s) :
    ∃ r' s', P r' s' ∧ Ev ld (max kc kb + 2 * μ s + 3) env (.while c body pos) s (.ok r' s') := by
  obtain ⟨r', s', hP, hl⟩ := whileLoop_post_L2 ld (pos := pos) I P μ hcond (μ s) (.bool true) s (Nat.le_refl _) h0
  refine ⟨r', s', hP, fun f hf => ?_⟩
  obtain ⟨g, rfl, hg⟩ := succ_of_lt hf
  rw [eval]
  exact hl g (by omega)

/-! ### built-ins -/

theorem less_equals_int_L2 (x y : Int) (d : Option RVal) (pos : Pos) (s : State) :
    ∃ m, callPure "less_equals" [("a", .int x), ("b", .int y)] d pos = some m ∧ m s = .ok (.bool (decide (x ≤ y))) s := by
  refine ⟨_, rfl, ?_⟩
  simp [argGet, dictGet, EvalM.bind_apply, EvalM.pure_apply, getS, rveq_int, boolV, EvalM.map_apply, cmpLt_int]
  by_cases h1 : x < y
  · simp [h1]; omega
  · by_cases h2 : x = y
    · simp [h2]
    · simp [h1, h2]; omega

theorem sublist3_L2 (a : Nat) (xs : List RVal) (i j : Int) (d : Option RVal) (pos : Pos) (s : State)
    (hc : s.cell a = some (.list xs)) :
    ∃ m, callPure "sublist" [("lst", .ref a), ("startidx", .int i), ("endidx", .int j)] d pos = some m ∧
      m s = .ok (.ref s.heap.size) (s.alloc (.list (Seq.substr xs i (some j)))).1 := by
  refine ⟨_, rfl, ?_⟩
  simp [argGet, dictGet, dictHas, RVal.isNull, listItems, cellOf, hc, newList, allocM, EvalM.bind_apply,
    EvalM.pure_apply]
  rfl

theorem greater_int_L2 (x y : Int) (d : Option RVal) (pos : Pos) (s : State) :
    ∃ m, callPure "greater" [("a", .int x), ("b", .int y)] d pos = some m ∧ m s = .ok (.bool (decide (y < x))) s := by
  refine ⟨_, pure_greater _ _ _ _, ?_⟩
  simp [EvalM.bind_apply, cmpGt_int, EvalM.pure_apply, boolV]

end Ckl.C19Src
