"""C16 Only documented mutators change their arguments; aliases see mutations."""
import multiprocessing as mp
import os
import shutil
import warnings

from harness import core, proto, session
from harness.props import common
from harness.props import c13

warnings.filterwarnings("ignore", category=FutureWarning)

# documented in-place mutators: function name -> index of the (only) argument they may change
MUTATORS = {"append": 0, "append_all": 0, "insert_at": 0, "delete_at": 0, "remove": 0, "put": 0}
# names that close / consume stream arguments (state of streams is not a data value)
STREAM_FUNCS = {"close", "print", "println", "readln", "read", "read_all", "process_lines", "get_output_string"}

POOL_SRC = ["NULL", "0", "3", "-1", "1.5", "''", "'ab'", "[]", "[1, 2, 3]", "['b', 'a']", "[[2, 1], [3]]", "<<>>", "<<2, 1>>",
            "<<<>>>", "<<<'a' => 1, 'b' => 2>>>", "<<<1 => [1]>>>", "<*a = 1*>", "<*l = [1, 2]*>", "fn(x) x", "fn(a, b) a"]


def snapshot(v, depth=6):
    """deep structural snapshot including container identities (id graph), insertion order of maps/objects,
    sets as sorted dumps"""
    from ckl import values as V
    if depth == 0:
        return ('deep',)
    if isinstance(v, V.ValueList):
        return ('l', id(v), tuple(snapshot(x, depth - 1) for x in v.value))
    if isinstance(v, V.ValueSet):
        return ('S', id(v), tuple(sorted((snapshot(x, depth - 1) for x in v.value), key=repr)))
    if isinstance(v, V.ValueMap):
        return ('m', id(v), tuple((snapshot(k, depth - 1), snapshot(x, depth - 1)) for k, x in v.value.items()))
    if isinstance(v, V.ValueObject):
        return ('o', id(v), tuple((k, snapshot(x, depth - 1)) for k, x in v.value.items()))
    if isinstance(v, V.ValueString):
        return ('s', id(v), v.value)
    if isinstance(v, V.ValueFunc):
        return ('fn', id(v))
    return ('a', str(v))


class Runner(c13.Runner):
    def __init__(self, legacy):
        super().__init__(legacy)
        self.pool_nodes = [self.parse(s, "pool") for s in POOL_SRC]

    def call(self, src, binds, limit=2):
        from ckl.errors import CklRuntimeError, CklSyntaxError
        node = self.nodes.get(src)
        if node is None:
            node = self.nodes[src] = self.parse(src, "c16")
        vals = {}
        for k, i in binds.items():
            vals[k] = self.fresh(i)
            self.env.put(k, vals[k])
        before = {k: snapshot(v) for k, v in vals.items()}
        result = None
        try:
            with core.time_limit(limit):
                result = node.evaluate(self.env)
        except (CklRuntimeError, CklSyntaxError, core.Timeout, RecursionError):
            pass
        except BaseException:  # noqa  (C13's business)
            pass
        after = {k: snapshot(v) for k, v in vals.items()}
        changed = [k for k in vals if before[k] != after[k]]
        return changed, before, after, result, vals


# functions whose documented purpose is to build a value around their arguments (or to return a function closing over them)
STORES_ARGUMENT = {"new", "object", "map", "set", "list", "zip", "zip_map", "pairs", "enumerate", "if_null", "if_empty", "if_null_or_empty", "identity",
                   "curry", "compose", "partial", "put", "append", "append_all", "insert_at", "bind_native", "add", "substitute"}


def nested_holds(result, args_c, depth=0, seen=None):
    """does some container strictly inside `result` coincide with one of the argument containers"""
    from ckl import values as V
    seen = seen if seen is not None else set()
    if id(result) in seen or depth > 12:
        return False
    seen.add(id(result))
    if isinstance(result, V.ValueList):
        kids = list(result.value)
    elif isinstance(result, V.ValueSet):
        kids = list(result.value)
    elif isinstance(result, V.ValueMap):
        kids = list(result.value.keys()) + list(result.value.values())
    elif isinstance(result, V.ValueObject):
        kids = [v for k, v in result.value.items()]
    else:
        return False
    for k in kids:
        if any(k is a for a in args_c):
            return True
        if nested_holds(k, args_c, depth + 1, seen):
            return True
    return False


_state = {}


def _worker(job):
    legacy, items = job
    core.use_repo()
    if "dir" not in _state:
        _state["dir"] = c13.setup_scratch()
    key = ("r", legacy)
    if key not in _state:
        _state[key] = Runner(legacy)
    r = _state[key]
    res = []
    for src, binds, allowed, fresh_result in items:
        changed, before, after, result, vals = r.call(src, binds)
        bad = [k for k in changed if k not in allowed]
        if bad:
            res.append((src, binds, "argument(s) %s changed: %s -> %s" % (bad, [strip(before[k]) for k in bad], [strip(after[k]) for k in bad])))
        elif fresh_result and result is not None:
            from ckl import values as V
            if isinstance(result, (V.ValueList, V.ValueSet, V.ValueMap)) and any(result is v for v in vals.values()):
                res.append((src, binds, "the result is the argument container itself (a later mutation of the result would reach the input)"))
        elif result is not None and src[0].isalpha() and "(" in src and src.split("(")[0].split("->")[-1] not in STORES_ARGUMENT:
            # a library function hands back a NEW container that holds one of its argument containers itself (not merely elements of
            # it): a later mutation of that part of the result reaches the caller's argument (chunks(l, 5) returned [l])
            from ckl import values as V
            conts = (V.ValueList, V.ValueSet, V.ValueMap, V.ValueObject)
            args_c = [v for v in vals.values() if isinstance(v, conts)]
            if args_c and isinstance(result, conts) and not any(result is v for v in args_c) and not changed:
                hit = nested_holds(result, args_c)
                if hit:
                    res.append((src, binds, "the result is a new container that holds the argument container itself (a later mutation of that part of the result would reach the input)"))
    return len(items), res


def strip(s):
    """snapshot without ids, for messages"""
    if isinstance(s, tuple) and s and s[0] in ('l', 'S', 'm', 'o', 's') and len(s) == 3:
        body = s[2]
        if isinstance(body, tuple):
            return (s[0], tuple(strip(x) if not (isinstance(x, tuple) and len(x) == 2 and s[0] in ('m', 'o')) else (strip(x[0]), strip(x[1])) for x in body))
        return (s[0], body)
    return s


# ------------------------------------------------------------------ alias graphs: random operation sequences vs a reference heap

class RefHeap:
    """independent reference: Python lists / dicts with reference semantics"""

    def __init__(self):
        self.vars = {}

    @staticmethod
    def render(v):
        if isinstance(v, list):
            return "[" + ", ".join(RefHeap.render(x) for x in v) + "]"
        if isinstance(v, dict):
            return "<<<" + ", ".join(f"{RefHeap.render(k)} => {RefHeap.render(x)}" for k, x in sorted(v.items())) + ">>>"
        if isinstance(v, str):
            return "'" + v + "'"
        return str(v)


def reaches(a, b, depth=0):
    """does container a contain (transitively) container b"""
    if a is b:
        return True
    if depth > 20:
        return True
    if isinstance(a, list):
        return any(reaches(x, b, depth + 1) for x in a)
    if isinstance(a, dict):
        return any(reaches(x, b, depth + 1) for x in a.values())
    return False


def gen_alias_program(rng, nops):
    """returns (source, expected rendering of the final tuple of all variables)"""
    ref = RefHeap()
    lines = []
    names = []
    counter = [0]

    def newname():
        counter[0] += 1
        return f"v{counter[0]}"

    def lists():
        return [n for n in names if isinstance(ref.vars[n], list)]

    def maps():
        return [n for n in names if isinstance(ref.vars[n], dict)]

    def atom():
        return rng.choice([rng.randint(0, 9), rng.choice("xyz")])

    def lit(a):
        return str(a) if isinstance(a, int) else "'" + a + "'"
    # seed
    for _ in range(2):
        n = newname()
        xs = [rng.randint(0, 9) for _ in range(rng.randint(0, 3))]
        ref.vars[n] = list(xs)
        names.append(n)
        lines.append(f"def {n} = [{', '.join(map(str, xs))}]")
    n = newname()
    ref.vars[n] = {"k": 1}
    names.append(n)
    lines.append(f"def {n} = <<<'k' => 1>>>")
    lines.append("def push(p, x) do append(p, x); p end")
    lines.append("def copy_push(p, x) do def q = p + []; append(q, x); q end")
    for _ in range(nops):
        op = rng.choice(["alias", "nest", "append", "insert", "delete", "setelem", "put", "mapelem", "concat", "sublist", "sorted",
                         "spread", "slice", "param", "copyparam", "remove", "nestmut", "closure"])
        ls, ms = lists(), maps()
        if op == "alias" and names:
            src = rng.choice(names)
            n = newname()
            ref.vars[n] = ref.vars[src]
            names.append(n)
            lines.append(f"def {n} = {src}")
        elif op == "nest" and len(names) >= 2:
            a, b = rng.choice(names), rng.choice(names)
            n = newname()
            ref.vars[n] = [ref.vars[a], ref.vars[b]]
            names.append(n)
            lines.append(f"def {n} = [{a}, {b}]")
        elif op == "append" and ls:
            t = rng.choice(ls)
            x = atom()
            ref.vars[t].append(x)
            lines.append(f"append({t}, {lit(x)})")
        elif op == "insert" and ls:
            t = rng.choice(ls)
            x = atom()
            i = rng.randint(0, len(ref.vars[t]))
            ref.vars[t].insert(i, x)
            lines.append(f"insert_at({t}, {i}, {lit(x)})")
        elif op == "delete" and ls:
            t = rng.choice(ls)
            if ref.vars[t]:
                i = rng.randrange(len(ref.vars[t]))
                del ref.vars[t][i]
                lines.append(f"delete_at({t}, {i})")
        elif op == "setelem" and ls:
            t = rng.choice(ls)
            if ref.vars[t]:
                i = rng.randrange(len(ref.vars[t]))
                x = atom()
                ref.vars[t][i] = x
                lines.append(f"{t}[{i}] = {lit(x)}")
        elif op == "put" and ms:
            t = rng.choice(ms)
            k, x = rng.choice("abk"), atom()
            ref.vars[t][k] = x
            lines.append(f"put({t}, '{k}', {lit(x)})")
        elif op == "mapelem" and ms and ls:
            t = rng.choice(ms)
            k = rng.choice("abk")
            src = rng.choice(ls)
            if not reaches(ref.vars[src], ref.vars[t]):
                ref.vars[t][k] = ref.vars[src]
                lines.append(f"{t}['{k}'] = {src}")
        elif op == "concat" and len(ls) >= 1:
            a, b = rng.choice(ls), rng.choice(ls)
            n = newname()
            ref.vars[n] = ref.vars[a] + ref.vars[b]
            names.append(n)
            lines.append(f"def {n} = {a} + {b}")
        elif op == "sublist" and ls:
            a = rng.choice(ls)
            n = newname()
            ref.vars[n] = list(ref.vars[a])
            names.append(n)
            lines.append(f"def {n} = sublist({a}, 0)")
        elif op == "sorted" and ls:
            a = rng.choice(ls)
            if all(isinstance(x, int) for x in ref.vars[a]):
                n = newname()
                ref.vars[n] = sorted(ref.vars[a])
                names.append(n)
                lines.append(f"def {n} = sorted({a})")
        elif op == "spread" and ls:
            a = rng.choice(ls)
            n = newname()
            ref.vars[n] = list(ref.vars[a])
            names.append(n)
            lines.append(f"def {n} = [...{a}]")
        elif op == "slice" and ls:
            a = rng.choice(ls)
            n = newname()
            ref.vars[n] = list(ref.vars[a])
            names.append(n)
            lines.append(f"def {n} = {a}[0 to *]")
        elif op == "param" and ls:
            a = rng.choice(ls)
            x = atom()
            n = newname()
            ref.vars[a].append(x)
            ref.vars[n] = ref.vars[a]
            names.append(n)
            lines.append(f"def {n} = push({a}, {lit(x)})")
        elif op == "copyparam" and ls:
            a = rng.choice(ls)
            x = atom()
            n = newname()
            ref.vars[n] = ref.vars[a] + [x]
            names.append(n)
            lines.append(f"def {n} = copy_push({a}, {lit(x)})")
        elif op == "remove" and ls:
            t = rng.choice(ls)
            if ref.vars[t] and not any(isinstance(x, (list, dict)) for x in ref.vars[t]):
                x = rng.choice(ref.vars[t])
                ref.vars[t].remove(x)
                lines.append(f"remove({t}, {lit(x)})")
        elif op == "nestmut" and ls:
            cands = [(t, i) for t in ls for i, x in enumerate(ref.vars[t]) if isinstance(x, list)]
            if cands:
                t, i = rng.choice(cands)
                x = atom()
                ref.vars[t][i].append(x)
                lines.append(f"append({t}[{i}], {lit(x)})")
        elif op == "closure" and ls:
            a = rng.choice(ls)
            x = atom()
            ref.vars[a].append(x)
            lines.append(f"(fn() append({a}, {lit(x)}))()")
    final = "[" + ", ".join(names) + "]"
    expected = "[" + ", ".join(RefHeap.render(ref.vars[n]) for n in names) + "]"
    return "; ".join(lines) + "; " + final, expected


def gen_object_program(rng, nops):
    """objects with prototype chains under member / element assignment through aliases, parameters and containers; the reference keeps
    each object's own members and its prototype link: an assignment changes exactly the targeted object, reads follow the chain"""
    recs = {}          # variable -> record {'own': {member: value}, 'proto': record | None}; aliases share the record
    names = []
    lines = ["def setm(o, m, x) do o[m] = x; o end"]
    members = ["a", "b", "c"]
    counter = [0]

    def newname():
        counter[0] += 1
        return f"o{counter[0]}"

    def lookup(r, m):
        depth = 0
        while r is not None and depth < 50:
            if m in r['own']:
                return r['own'][m]
            r, depth = r['proto'], depth + 1
        return None

    def above(r, target):
        while r is not None:
            if r is target:
                return True
            r = r['proto']
        return False

    n0 = newname()
    own = {m: rng.randint(0, 9) for m in rng.sample(members, rng.randint(1, 3))}
    recs[n0] = {'own': dict(own), 'proto': None}
    names.append(n0)
    lines.append(f"def {n0} = <*" + ", ".join(f"{m} = {v}" for m, v in own.items()) + "*>")
    for _ in range(nops):
        op = rng.choice(["derive", "derive", "alias", "member", "member", "index", "param", "listed", "closure"])
        t = rng.choice(names)
        m, x = rng.choice(members), rng.randint(10, 99)
        if op == "derive":
            n = newname()
            own = {mm: rng.randint(0, 9) for mm in rng.sample(members, rng.randint(0, 2))}
            recs[n] = {'own': dict(own), 'proto': recs[t]}
            names.append(n)
            lines.append(f"def {n} = <*_proto_ = {t}" + "".join(f", {mm} = {v}" for mm, v in own.items()) + "*>")
        elif op == "alias":
            n = newname()
            recs[n] = recs[t]
            names.append(n)
            lines.append(f"def {n} = {t}")
        elif op == "member":
            recs[t]['own'][m] = x
            lines.append(f"{t}->{m} = {x}")
        elif op == "index":
            recs[t]['own'][m] = x
            lines.append(f"{t}['{m}'] = {x}")
        elif op == "param":
            recs[t]['own'][m] = x
            lines.append(f"setm({t}, '{m}', {x})")
        elif op == "listed":
            recs[t]['own'][m] = x
            lines.append(f"[{t}][0]->{m} = {x}")
        elif op == "closure":
            recs[t]['own'][m] = x
            lines.append(f"(fn() do {t}->{m} = {x} end)()")
    final = "[" + ", ".join("[" + ", ".join(f"{n}->{m}" for m in members) + "]" for n in names) + "]"

    def show(v):
        return "NULL" if v is None else str(v)
    expected = "[" + ", ".join("[" + ", ".join(show(lookup(recs[n], m)) for m in members) + "]" for n in names) + "]"
    return "; ".join(lines) + "; " + final, expected


def run(ctx):
    rng = ctx.rng
    n = len(POOL_SRC)
    ctx.rule = ("every function of the base environment and bundled modules x all argument tuples of arity <= 2 from a pool of "
                f"{n} values with deep snapshots (structure + container identities) of all arguments before and after; operators and "
                "copying forms additionally checked for a fresh result; generated alias graphs (variables, parameters, nested containers, "
                "closures) driven by random sequences of mutating and non-mutating operations, checked against a reference heap and the "
                "model evaluator; objects with prototype chains under member / element assignment through aliases, parameters, containers and closures (an assignment changes exactly the targeted object, reads follow the chain); non-trivial = a call where an argument is a container / an alias program with >= 2 aliases")
    d0 = os.getcwd()
    scratch = c13.setup_scratch()
    jobs = []
    total = 0
    CONTAINER_IDX = [k for k, p_ in enumerate(POOL_SRC) if p_.startswith(("[", "<<", "'")) and p_ not in ("[]", "<<>>", "''", "<<<>>>")][:7]
    SMALLINT_IDX = [k for k, p_ in enumerate(POOL_SRC) if p_ in ("0", "1", "-1")][:2]
    try:
        core.use_repo()
        for legacy in (False, True):
            it = c13.make_interpreter(legacy)
            syms = c13.callable_symbols(it, legacy)
            items = []
            for label, fexpr in syms:
                base = label.split("->")[-1]
                if base in STREAM_FUNCS:
                    continue
                allowed1 = ["a"] if MUTATORS.get(base) == 0 else []
                for i in range(n):
                    items.append((f"{fexpr}(a)", {"a": i}, allowed1, False))
                    for j in range(n):
                        items.append((f"{fexpr}(a, b)", {"a": i, "b": j}, allowed1, False))
                for _ in range(10 if ctx.thorough else 3):
                    items.append((f"{fexpr}(a, b, c)", {"a": rng.randrange(n), "b": rng.randrange(n), "c": rng.randrange(n)}, allowed1, False))
                # three-argument calls of the shape (container, small int, anything): the shape of positional updates (substitute, insert_at, …)
                for i in CONTAINER_IDX:
                    for j in SMALLINT_IDX:
                        items.append((f"{fexpr}(a, b, c)", {"a": i, "b": j, "c": rng.randrange(n)}, allowed1, False))
            if legacy and not ctx.thorough:
                items = rng.sample(items, len(items) // 4)
            for i in range(0, len(items), 1500):
                jobs.append((legacy, items[i:i + 1500]))
            total += len(items)
        forms = []
        for f, fresh in [("a + b", True), ("a - b", True), ("a * 2", True), ("a == b", False), ("a < b", False), ("a in b", False),
                         ("a[0 to *]", True), ("a[1 to 2]", True), ("[...a]", True), ("[x for x in a]", True), ("<<x for x in a>>", True),
                         ("sorted(a)", True), ("sublist(a, 0)", True), ("string(a)", False), ("length(a)", False), ("for x in a do x end", False),
                         ("def [p1, q1] = a", False), ("a !> identity()", False), ("if a == b then 1 else 2", False), ("[a, b]", False),
                         ("<<<1 => a>>>", False), ("a + [b]", True), ("[a] + b", True),
                         # read-only lookups with and without a default, of present and of missing keys / members / indices
                         ("a[b, 0]", False), ("a['zz', b]", False), ("a[b]", False), ("a[0, b]", False), ("a[7, b]", False), ("a->zz", False), ("a->zz()", False),
                         ("b in a", False), ("b not in a", False), ("a is empty", False), ("[x for x in a if x == b]", False), ("a[b, []]", False), ("a['zz', <<<>>>]", False)]:
            for i in range(n):
                for j in range(n):
                    forms.append((f, {"a": i, "b": j}, [], fresh))
        for f in ["a[0] = b", "a['a'] = b", "a->x = b", "a[0] += 1"]:
            for i in range(n):
                for j in range(n):
                    forms.append((f, {"a": i, "b": j}, ["a"], False))
        for i in range(0, len(forms), 1500):
            jobs.append((False, forms[i:i + 1500]))
        total += len(forms)
        bad = []
        with mp.Pool(16) as pool:
            for cnt, res in pool.imap_unordered(_worker, jobs):
                ctx.evaluations += cnt
                bad += res
        ctx.nontrivial = set(range(total))
        seen = set()
        for src, binds, what in sorted(bad, key=lambda x: (x[0], sorted(x[1].items()))):
            site = src.split("(")[0] if src[0].isalpha() and "(" in src else src
            if site in seen:
                ctx.count("further_failing_tuples")
                continue
            seen.add(site)
            args = {k: POOL_SRC[i] for k, i in binds.items()}
            ctx.violation("oracle", f"`{src}` with {args}: {what}", {"op": "call", "src": src, "args": args})
    finally:
        os.chdir(d0)
        shutil.rmtree(scratch, ignore_errors=True)
    # ---------------- alias graphs
    nprog = 1500 if ctx.thorough else 300
    progs = [gen_alias_program(rng, rng.randint(4, 22)) for _ in range(nprog)]
    progs += [gen_object_program(rng, rng.randint(3, 16)) for _ in range(nprog // 2)]
    reqs = [session.model_request([p]) for p, _ in progs] if ctx.build.ok else []
    resp = core.run_driver(reqs) if reqs else []
    impl = session.ImplSession()
    try:
        for k, (src, expected) in enumerate(progs):
            impl.it.environment.map.clear()
            out = impl.run(src)
            ctx.seen(("alias", src), nontrivial=src.count("def ") > 5 or "_proto_" in src)
            got = None
            if out[0][0] == 'val':
                got = str(impl.it.interpret(src.rsplit("; ", 1)[1], "again"))
            if got != expected:
                ctx.violation("oracle", f"alias program gives {got if got else out[0][:2]}, the reference heap gives {expected}: {src}",
                              {"op": "program", "src": src, "expected": expected})
            if resp:
                model, _ = session.parse_model_session(resp[k])
                m = model[0]
                ctx.count("model_programs")
                if m[0][0] == 'fail':
                    ctx.count("model_abstains")
                    continue
                d = session.compare((out[0], out[1], ()), (m[0], m[1], ()))
                if d:
                    ctx.disagreements += 1
                    ctx.violation("correspondence", f"`{src}`: {d}", {"op": "program", "src": src, "correspondence": "Ckl.eval (object heap) vs Interpreter.interpret"})
    finally:
        impl.close()
    ctx.sample({"call": "List->permutations(a)", "a": "[1, 2, 3]", "check": "argument snapshot unchanged"})
    ctx.sample({"alias_program": progs[0][0][:300], "expected": progs[0][1][:200]})
    # results of non-mutating operations are independent of their inputs (strings included); parameter defaults are per call
    from harness import progcheck as _pc
    _pc.run_templates(ctx, common.independence_cases(), "result-independence")
    common.replay_known(ctx)


def replay(ctx, payload):
    return common.generic_replay(ctx, payload)
