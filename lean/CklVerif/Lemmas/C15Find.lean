import CklVerif.Model.Seq

/-!
  C15 helper lemmas: occurrence of a sub-sequence at a position, and the
  inductive invariants of the scanning functions `findFrom`, `rfindUpTo`, `findIdx`.
-/
namespace Ckl.C15
open Ckl.Seq

variable {α : Type}

/-- `t` occurs in `s` at position `p` -/
def OccursAt (s t : List α) (p : Nat) : Prop :=
  (s.drop p).take t.length = t ∧ p + t.length ≤ s.length

theorem OccursAt.le_length {s t : List α} {p : Nat} (h : OccursAt s t p) : p ≤ s.length := by
  have := h.2; omega

theorem occursAt_cons_succ (c : α) (cs t : List α) (q : Nat) :
    OccursAt (c :: cs) t (q + 1) ↔ OccursAt cs t q := by
  simp only [OccursAt, List.drop_succ_cons, List.length_cons]
  constructor
  · rintro ⟨h1, h2⟩; exact ⟨h1, by omega⟩
  · rintro ⟨h1, h2⟩; exact ⟨h1, by omega⟩

theorem occursAt_nil_left (t : List α) (q : Nat) : OccursAt [] t q ↔ t = [] ∧ q = 0 := by
  constructor
  · intro h
    have h2 := h.2
    simp only [List.length_nil] at h2
    have : t.length = 0 := by omega
    exact ⟨List.eq_nil_of_length_eq_zero this, by omega⟩
  · rintro ⟨rfl, rfl⟩
    exact ⟨rfl, Nat.le_refl _⟩

theorem occursAt_nil_right (s : List α) (q : Nat) : OccursAt s [] q ↔ q ≤ s.length := by
  constructor
  · intro h; exact h.le_length
  · intro h; exact ⟨by simp, by simpa using h⟩

/-- an occurrence at `p` is a decomposition `s = a ++ t ++ b` with `a.length = p` -/
theorem occursAt_iff_append {s t : List α} {p : Nat} :
    OccursAt s t p ↔ ∃ a b, s = a ++ t ++ b ∧ a.length = p := by
  constructor
  · intro h
    refine ⟨s.take p, (s.drop p).drop t.length, ?_, ?_⟩
    · have e : s = s.take p ++ ((s.drop p).take t.length ++ (s.drop p).drop t.length) := by
        rw [List.take_append_drop, List.take_append_drop]
      rw [h.1] at e
      rw [List.append_assoc]; exact e
    · have := h.le_length
      simp only [List.length_take]; omega
  · rintro ⟨a, b, rfl, rfl⟩
    refine ⟨?_, by simp only [List.length_append]; omega⟩
    rw [List.append_assoc, List.drop_left, List.take_left]

theorem isPrefixB_iff [BEq α] [LawfulBEq α] (t s : List α) :
    isPrefixB t s = true ↔ s.take t.length = t := by
  induction t generalizing s with
  | nil => simp [isPrefixB]
  | cons a as ih =>
    cases s with
    | nil => simp [isPrefixB]
    | cons b bs =>
      simp only [isPrefixB, Bool.and_eq_true, beq_iff_eq, ih, List.length_cons, List.take_succ_cons,
        List.cons.injEq]
      constructor
      · rintro ⟨rfl, h⟩; exact ⟨rfl, h⟩
      · rintro ⟨rfl, h⟩; exact ⟨rfl, h⟩

theorem isPrefixB_iff_occursAt_zero [BEq α] [LawfulBEq α] (t s : List α) :
    isPrefixB t s = true ↔ OccursAt s t 0 := by
  rw [isPrefixB_iff]
  unfold OccursAt
  rw [List.drop_zero]
  constructor
  · intro h
    refine ⟨h, ?_⟩
    have := congrArg List.length h
    simp only [List.length_take] at this
    omega
  · exact fun h => h.1

/-! ### `findFrom` -/

theorem findFrom_spec [BEq α] [LawfulBEq α] (t s : List α) (pos start : Nat) :
    (findFrom t s pos start = -1 ∧ ∀ q, start ≤ pos + q → ¬ OccursAt s t q) ∨
    (∃ q, findFrom t s pos start = ((pos + q : Nat) : Int) ∧ start ≤ pos + q ∧ OccursAt s t q ∧
      ∀ q', q' < q → start ≤ pos + q' → ¬ OccursAt s t q') := by
  induction s generalizing pos with
  | nil =>
    unfold findFrom
    by_cases hc : pos ≥ start ∧ t.isEmpty = true
    · rw [if_pos hc]
      right
      refine ⟨0, rfl, hc.1, ?_, fun q' h => absurd h (Nat.not_lt_zero _)⟩
      rw [occursAt_nil_left]
      exact ⟨List.isEmpty_iff.mp hc.2, rfl⟩
    · rw [if_neg hc]
      left
      refine ⟨rfl, fun q hq ho => hc ?_⟩
      rw [occursAt_nil_left] at ho
      obtain ⟨rfl, rfl⟩ := ho
      exact ⟨hq, rfl⟩
  | cons c cs ih =>
    unfold findFrom
    by_cases hc : pos ≥ start ∧ isPrefixB t (c :: cs) = true
    · rw [if_pos hc]
      right
      exact ⟨0, rfl, hc.1, (isPrefixB_iff_occursAt_zero _ _).mp hc.2,
        fun q' h => absurd h (Nat.not_lt_zero _)⟩
    · rw [if_neg hc]
      have h0 : start ≤ pos → ¬ OccursAt (c :: cs) t 0 := fun h1 h2 =>
        hc ⟨h1, (isPrefixB_iff_occursAt_zero _ _).mpr h2⟩
      rcases ih (pos + 1) with ⟨h1, h2⟩ | ⟨q, h1, h2, h3, h4⟩
      · left
        refine ⟨h1, fun q hq => ?_⟩
        cases q with
        | zero => exact h0 hq
        | succ q => rw [occursAt_cons_succ]; exact h2 q (by omega)
      · right
        refine ⟨q + 1, ?_, by omega, (occursAt_cons_succ _ _ _ _).mpr h3, fun q' hq' hs => ?_⟩
        · rw [h1]; congr 1; omega
        · cases q' with
          | zero => exact h0 hs
          | succ q' => rw [occursAt_cons_succ]; exact h4 q' (by omega) (by omega)

/-! ### `rfindUpTo` -/

theorem rfindUpTo_spec [BEq α] [LawfulBEq α] (t s : List α) (pos limit : Nat) (best : Int) :
    (rfindUpTo t s pos limit best = best ∧ ∀ q, pos + q ≤ limit → ¬ OccursAt s t q) ∨
    (∃ q, rfindUpTo t s pos limit best = ((pos + q : Nat) : Int) ∧ pos + q ≤ limit ∧
      OccursAt s t q ∧ ∀ q', q < q' → pos + q' ≤ limit → ¬ OccursAt s t q') := by
  induction s generalizing pos best with
  | nil =>
    unfold rfindUpTo
    by_cases hc : pos ≤ limit ∧ t.isEmpty = true
    · rw [if_pos hc]
      right
      refine ⟨0, rfl, hc.1, ?_, fun q' h _ ho => ?_⟩
      · rw [occursAt_nil_left]
        exact ⟨List.isEmpty_iff.mp hc.2, rfl⟩
      · rw [occursAt_nil_left] at ho
        omega
    · rw [if_neg hc]
      left
      refine ⟨rfl, fun q hq ho => hc ?_⟩
      rw [occursAt_nil_left] at ho
      obtain ⟨rfl, rfl⟩ := ho
      exact ⟨hq, rfl⟩
  | cons c cs ih =>
    unfold rfindUpTo
    simp only []
    by_cases hc : pos ≤ limit ∧ isPrefixB t (c :: cs) = true
    · rw [if_pos hc]
      rcases ih (pos + 1) (pos : Int) with ⟨h1, h2⟩ | ⟨q, h1, h2, h3, h4⟩
      · right
        refine ⟨0, h1, hc.1, (isPrefixB_iff_occursAt_zero _ _).mp hc.2, fun q' hq' hl => ?_⟩
        cases q' with
        | zero => omega
        | succ q' => rw [occursAt_cons_succ]; exact h2 q' (by omega)
      · right
        refine ⟨q + 1, ?_, by omega, (occursAt_cons_succ _ _ _ _).mpr h3, fun q' hq' hl => ?_⟩
        · rw [h1]; congr 1; omega
        · cases q' with
          | zero => omega
          | succ q' => rw [occursAt_cons_succ]; exact h4 q' (by omega) (by omega)
    · rw [if_neg hc]
      have h0 : pos ≤ limit → ¬ OccursAt (c :: cs) t 0 := fun h1 h2 =>
        hc ⟨h1, (isPrefixB_iff_occursAt_zero _ _).mpr h2⟩
      rcases ih (pos + 1) best with ⟨h1, h2⟩ | ⟨q, h1, h2, h3, h4⟩
      · left
        refine ⟨h1, fun q hq => ?_⟩
        cases q with
        | zero => exact h0 hq
        | succ q => rw [occursAt_cons_succ]; exact h2 q (by omega)
      · right
        refine ⟨q + 1, ?_, by omega, (occursAt_cons_succ _ _ _ _).mpr h3, fun q' hq' hl => ?_⟩
        · rw [h1]; congr 1; omega
        · cases q' with
          | zero => omega
          | succ q' => rw [occursAt_cons_succ]; exact h4 q' (by omega) (by omega)

/-! ### `findIdx` -/

/-- the element at index `q` satisfies `eq · x` -/
def HitAt (eq : α → α → Bool) (x : α) (l : List α) (q : Nat) : Prop :=
  ∃ y, l[q]? = some y ∧ eq y x = true

theorem hitAt_cons_zero (eq : α → α → Bool) (x c : α) (cs : List α) :
    HitAt eq x (c :: cs) 0 ↔ eq c x = true := by
  simp [HitAt]

theorem hitAt_cons_succ (eq : α → α → Bool) (x c : α) (cs : List α) (q : Nat) :
    HitAt eq x (c :: cs) (q + 1) ↔ HitAt eq x cs q := by
  simp [HitAt]

theorem HitAt.lt_length {eq : α → α → Bool} {x : α} {l : List α} {q : Nat}
    (h : HitAt eq x l q) : q < l.length := by
  obtain ⟨y, hy, _⟩ := h
  exact (List.getElem?_eq_some_iff.mp hy).1

theorem findIdx_spec (eq : α → α → Bool) (x : α) (l : List α) (pos start : Nat) :
    (findIdx eq x l pos start = -1 ∧ ∀ q, start ≤ pos + q → ¬ HitAt eq x l q) ∨
    (∃ q, findIdx eq x l pos start = ((pos + q : Nat) : Int) ∧ start ≤ pos + q ∧ HitAt eq x l q ∧
      ∀ q', q' < q → start ≤ pos + q' → ¬ HitAt eq x l q') := by
  induction l generalizing pos with
  | nil =>
    left
    refine ⟨rfl, fun q _ h => ?_⟩
    have := h.lt_length
    simp at this
  | cons c cs ih =>
    unfold findIdx
    by_cases hc : pos ≥ start ∧ eq c x = true
    · rw [if_pos hc]
      right
      exact ⟨0, rfl, hc.1, (hitAt_cons_zero _ _ _ _).mpr hc.2,
        fun q' h => absurd h (Nat.not_lt_zero _)⟩
    · rw [if_neg hc]
      have h0 : start ≤ pos → ¬ HitAt eq x (c :: cs) 0 := fun h1 h2 =>
        hc ⟨h1, (hitAt_cons_zero _ _ _ _).mp h2⟩
      rcases ih (pos + 1) with ⟨h1, h2⟩ | ⟨q, h1, h2, h3, h4⟩
      · left
        refine ⟨h1, fun q hq => ?_⟩
        cases q with
        | zero => exact h0 hq
        | succ q => rw [hitAt_cons_succ]; exact h2 q (by omega)
      · right
        refine ⟨q + 1, ?_, by omega, (hitAt_cons_succ _ _ _ _ _).mpr h3, fun q' hq' hs => ?_⟩
        · rw [h1]; congr 1; omega
        · cases q' with
          | zero => exact h0 hs
          | succ q' => rw [hitAt_cons_succ]; exact h4 q' (by omega) (by omega)

end Ckl.C15
