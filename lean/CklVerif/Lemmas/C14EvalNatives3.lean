import CklVerif.Lemmas.C14EvalNatives2

/-! C14 (evaluator part) — `sub` respects similarity -/
namespace Ckl.C14E
open Ckl
set_option linter.unusedSimpArgs false

/-- the pure `match cb with …` of `nativeSub` needs the cell of `b` to be analysed first -/
macro "sub_start" : tactic => `(tactic|
  (apply Resp.getS_bind; intro s s' hs
   apply Resp.bind (cellOf_resp (by ers_tac)); intro ca ca' hca
   apply Resp.bind (cellOf_resp (by ers_tac)); intro cb cb' hcb
   sim_cases hcb))

theorem nativeSub_diag (a b : RVal) (p p' : Pos) : Resp (nativeSub a b p) (nativeSub a b p') := by
  unfold nativeSub
  sub_start
  all_goals resp!

theorem nativeSub_ersL (a b : RVal) (p : Pos) : Resp (nativeSub a b p) (nativeSub (ers a) b p) := by
  by_cases h : IsPosV a
  · cases a <;> first | exact h.elim | (unfold nativeSub; prune_pos h; resp!)
  · rw [ers_of_not_pos h]; exact nativeSub_diag _ _ _ _

theorem nativeSub_ersR (a b : RVal) (p : Pos) : Resp (nativeSub a b p) (nativeSub a (ers b) p) := by
  by_cases h : IsPosV b
  · cases b <;> first | exact h.elim | (unfold nativeSub; prune_pos h; resp!)
  · rw [ers_of_not_pos h]; exact nativeSub_diag _ _ _ _

theorem nativeSub_resp {a a' b b' : RVal} {p p' : Pos} (ha : ers a = ers a') (hb : ers b = ers b') :
    Resp (nativeSub a b p) (nativeSub a' b' p') :=
  Resp.of_diag2 nativeSub_diag nativeSub_ersL nativeSub_ersR ha hb

end Ckl.C14E
