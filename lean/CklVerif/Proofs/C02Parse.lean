/-
  C02 (syntactic half) — operator precedence and associativity of the parser model
  (`Model/Parser.lean`, the mirror of `src/ckl/parser.py`).

  Expression trees `E` (`Lemmas/C02ParseDefs.lean`): atoms (identifier, non-negative `int` literal,
  `TRUE`/`FALSE`), n-ary `or` / `and`, `not`, comparison chains over `== != <> < <= > >=`,
  binary `+ -` and `* / %`, unary minus, explicit parentheses.
  `render e` prints a tree as token spellings `(text, type)` and puts parentheses exactly where a
  child binds weaker than the position it stands in
      or 0 < and 1 < not 2 < comparison 3 < additive 4 < multiplicative 5 < unary minus 6 < atom 7
  (operands of `or` at 1, of `and` at 2, of `not` at 3, of a comparison at 4, left/right of `+ -`
  at 4/5, left/right of `* / %` at 5/6, of unary minus at 7).
  `toNode e` is the AST the language definition prescribes, with every position `default`;
  `erase` sets every position of an AST to `default`.

  Main results, for ALL trees and ALL positions of the tokens:
    * `parse_render_tokens` / `parse_render`: every token list spelled `render e` parses (as a whole
      program) to `toNode e` up to positions — the precedence / associativity theorem;
    * `parse_level`: the same at every precedence level, in front of any rest that the level does not
      consume;
    * `parse_render_parens`: explicit redundant parentheses do not change the result;
    * the corollaries `a - b - c`, `a + b * c`, `a or b and c`, `not a == b`, `-a * b`, `a < b <= c`.

  What is TRUE of the model and differs from a naive reading of the precedence table:
    * `not` takes a comparison-level operand: `not not a` is a syntax error (`not_not_error`);
    * unary minus takes a primary operand: `- - a` is a syntax error (`neg_neg_error`), `-a * b` is
      `(-a) * b`; a `-` directly in front of an `int` token is folded into the literal, so `-5` is the
      literal −5 while `-(5)` and `-a` are `sub(0, ·)` — the one place where parentheses around an atom
      change the AST (not the value);
    * `or` / `and` are n-ary: `a or b or c` is one `NodeOr [a, b, c]`, `(a or b) or c` is nested;
    * `a < b <= c` is `NodeAnd [less(a, b), less_equals(b, c)]`.
-/
import CklVerif.Lemmas.C02ParseMain
import CklVerif.Lemmas.C02ParseErrors
namespace Ckl.C02P
open Ckl Ckl.Parser

/-! ### 1. where `render` puts parentheses -/

/-- a child printed at level `k` is put in parentheses iff it binds weaker than `k` — and only then -/
theorem renderAt_eq (k : Nat) (e : E) :
    renderAt k e = if prec e < k then LP :: render e ++ [RP] else render e := rfl

theorem renderAt_unchanged_iff (k : Nat) (e : E) : renderAt k e = render e ↔ k ≤ prec e := by
  rw [renderAt_eq]
  constructor
  · intro h
    split at h
    · have := congrArg List.length h; simp at this; omega
    · omega
  · intro h; rw [if_neg (by omega)]

/-! ### 2. the precedence / associativity theorem -/

/-- At every precedence level `k ≤ 7` (or 0 … primary 7): tokens spelled like `e` printed at level `k`
    (in parentheses iff `e` binds weaker than `k`), followed by ANY rest whose first token level `k`
    does not consume, are parsed by the production of level `k` to `toNode e` (up to positions), and
    exactly the rest is left. -/
theorem parse_level (e : E) (k : Nat) (hk : k ≤ 7) (c : Ctx) (p : Pos) (ts rest : List Token)
    (hts : ts.map sp = renderAt k e) (hf : Follow k rest) :
    ∃ n q, erase n = toNode e ∧ pLevel k c ⟨p, ts ++ rest⟩ = .ok (n, ⟨q, rest⟩) :=
  (good_all e).1 k hk c p ts rest hts hf

theorem plainNode_negNode (e : E) (x : Node) : plainNode (negNode e x) = true := by
  unfold negNode; split <;> rfl

theorem plainNode_toNode : (e : E) → plainNode (toNode e) = true
  | .atom a => by cases a <;> rfl
  | .or _ _ _ => rfl
  | .and _ _ _ => rfl
  | .not _ => rfl
  | .cmp a o b more => by
    simp only [toNode]
    cases toNodeC (toNode b) more <;> rfl
  | .add _ _ _ => rfl
  | .mul _ _ _ => rfl
  | .neg e => by simp only [toNode]; exact plainNode_negNode _ _
  | .paren e => by simp only [toNode]; exact plainNode_toNode e

/-- **`parse_render`, general form.**  For every expression tree `e` (any depth) and every token list
    `ts` spelled `render e` (the positions of the tokens are arbitrary), `parse` of the whole list
    succeeds, and its result is `toNode e` up to positions. -/
theorem parseWith_render_tokens (validRe : List Char → Bool) (file : String) (e : E) (ts : List Token)
    (hts : ts.map sp = render e) : ∃ n, parseWith validRe file ts = .ok n ∧ erase n = toNode e := by
  have hd := (render_head e).exprHead
  obtain ⟨s, S, hS, hs⟩ := hd
  rw [hS] at hts
  obtain ⟨t, tl, rfl, ht, htl⟩ := map_sp_cons hts
  have hw : renderAt 0 e = render e := by simp [renderAt, wrap]
  obtain ⟨n, q, hn, hp⟩ := parse_level e 0 (Nat.zero_le _) ⟨endPosOf file (t :: tl), validRe⟩ t.pos (t :: tl) []
    (by rw [hw, hS]; simp [ht, htl]) (Follow.nil 0)
  simp only [pLevel] at hp
  rw [List.append_nil] at hp
  refine ⟨n, parseWith_of_or validRe file t tl n q (exprHead_of_sp ht hs) ?_ hp, hn⟩
  rw [← plainNode_erase, hn]; exact plainNode_toNode e

theorem parse_render_tokens (file : String) (e : E) (ts : List Token) (hts : ts.map sp = render e) :
    ∃ n, parse file ts = .ok n ∧ erase n = toNode e :=
  parseWith_render_tokens _ file e ts hts

/-- **`parse_render`.**  Parsing the pretty-printed tree (tokens at the default position) yields the
    prescribed AST. -/
theorem parse_render (file : String) (e : E) :
    ∃ n, parse file (toTokens (render e)) = .ok n ∧ erase n = toNode e :=
  parse_render_tokens file e _ (toTokens_sp _)

/-! ### 3. parentheses only group -/

theorem isIntAtom_stripParens_of (e : E) (h : isIntAtom e = true) : stripParens e = e := by
  cases e with
  | atom a => simp [stripParens]
  | _ => simp [isIntAtom] at h

theorem negNode_of_not_int (e : E) (x : Node) (h : isIntAtom e = false) : negNode e x = subZero x := by
  unfold negNode
  split
  · simp [isIntAtom] at h
  · rfl

mutual
/-- removing the explicit parentheses does not change the prescribed AST -/
theorem toNode_stripParens : (e : E) → toNode (stripParens e) = toNode e
  | .atom a => by simp [stripParens]
  | .or a b more => by
    simp [stripParens, toNode, toNode_stripParens a, toNode_stripParens b, toNodeL_stripParens more]
  | .and a b more => by
    simp [stripParens, toNode, toNode_stripParens a, toNode_stripParens b, toNodeL_stripParens more]
  | .not e => by simp [stripParens, toNode, toNode_stripParens e]
  | .cmp a o b more => by
    simp [stripParens, toNode, toNode_stripParens a, toNode_stripParens b, toNodeC_stripParens more]
  | .add o l r => by simp [stripParens, toNode, toNode_stripParens l, toNode_stripParens r]
  | .mul o l r => by simp [stripParens, toNode, toNode_stripParens l, toNode_stripParens r]
  | .neg e => by
    have ih := toNode_stripParens e
    simp only [stripParens, negStripped]
    cases h' : isIntAtom (stripParens e) with
    | false =>
      have he : isIntAtom e = false := by
        cases he : isIntAtom e with
        | false => rfl
        | true => rw [isIntAtom_stripParens_of e he, he] at h'; cases h'
      simp [toNode, ih, negNode_of_not_int _ _ h', negNode_of_not_int _ _ he]
    | true =>
      cases he : isIntAtom e with
      | false =>
        simp only [Bool.not_false, Bool.and_self, if_true, toNode, ih]
        rw [negNode_of_not_int e _ he, negNode_of_not_int (.paren _) _ rfl]
      | true => simp [isIntAtom_stripParens_of e he]
  | .paren e => by simp [stripParens, toNode, toNode_stripParens e]
theorem toNodeL_stripParens : (es : List E) → toNodeL (stripParensL es) = toNodeL es
  | [] => rfl
  | e :: es => by simp [stripParensL, toNodeL, toNode_stripParens e, toNodeL_stripParens es]
theorem toNodeC_stripParens : (cs : List (RelOp × E)) → ∀ lhs, toNodeC lhs (stripParensC cs) = toNodeC lhs cs
  | [] => fun _ => rfl
  | (o, e) :: cs => fun lhs => by
    simp [stripParensC, toNodeC, toNode_stripParens e, toNodeC_stripParens cs]
end

/-- **`parse_render_parens`.**  Let `e` contain explicit (redundant) parentheses `E.paren` around any of
    its sub-expressions, and let `stripParens e` be the tree without them (only the pair in `-(5)`,
    which the model does not treat as redundant, stays).  Tokens spelled `render e` and tokens spelled
    `render (stripParens e)` parse to the same AST up to positions. -/
theorem parse_render_parens (file : String) (e : E) (ts ts' : List Token)
    (hts : ts.map sp = render e) (hts' : ts'.map sp = render (stripParens e)) :
    ∃ n n', parse file ts = .ok n ∧ parse file ts' = .ok n' ∧ erase n = erase n' := by
  obtain ⟨n, hp, hn⟩ := parse_render_tokens file e ts hts
  obtain ⟨n', hp', hn'⟩ := parse_render_tokens file (stripParens e) ts' hts'
  exact ⟨n, n', hp, hp', by rw [hn, hn', toNode_stripParens]⟩

/-- one more pair of parentheses around the whole expression changes nothing -/
theorem parse_paren_top (file : String) (e : E) (ts ts' : List Token)
    (hts : ts.map sp = render e) (hts' : ts'.map sp = LP :: render e ++ [RP]) :
    ∃ n n', parse file ts = .ok n ∧ parse file ts' = .ok n' ∧ erase n = erase n' := by
  obtain ⟨n, hp, hn⟩ := parse_render_tokens file e ts hts
  obtain ⟨n', hp', hn'⟩ := parse_render_tokens file (.paren e) ts' (by simpa [render] using hts')
  exact ⟨n, n', hp, hp', by rw [hn, hn']; rfl⟩

/-- parentheses around a child that already binds tightly enough for its position are dropped by
    `render`'s rule; around any other child `render` inserts them itself: in both cases the child
    parses to its own AST -/
theorem toNode_paren (e : E) : toNode (.paren e) = toNode e := rfl

/-! ### 4. the corollaries, for all sub-trees `a b c` -/

def plusSp : Sp := (['+'], .operator)
def starSp : Sp := (['*'], .operator)
def eqSp : Sp := (['=', '='], .operator)
def ltSp : Sp := (['<'], .operator)
def leSp : Sp := (['<', '='], .operator)

/-- `a - b - c` is `(a - b) - c` -/
theorem sub_left_assoc (file : String) (a b c : E) (ts : List Token)
    (hts : ts.map sp = renderAt 4 a ++ minusSp :: renderAt 5 b ++ minusSp :: renderAt 5 c) :
    ∃ n, parse file ts = .ok n ∧
      erase n = binNode "sub" (binNode "sub" (toNode a) (toNode b)) (toNode c) :=
  parse_render_tokens file (.add .sub (.add .sub a b) c) ts
    (by rw [hts]; simp [render, wrap, prec, AddOp.sp, AddOp.txt, minusSp])

/-- `a - (b - c)` needs its parentheses and is the other tree -/
theorem sub_right_nested (file : String) (a b c : E) (ts : List Token)
    (hts : ts.map sp = renderAt 4 a ++ minusSp :: LP :: (renderAt 4 b ++ minusSp :: renderAt 5 c) ++ [RP]) :
    ∃ n, parse file ts = .ok n ∧
      erase n = binNode "sub" (toNode a) (binNode "sub" (toNode b) (toNode c)) :=
  parse_render_tokens file (.add .sub a (.add .sub b c)) ts
    (by rw [hts]; simp [render, wrap, prec, AddOp.sp, AddOp.txt, minusSp])

/-- `a + b * c` is `a + (b * c)` -/
theorem add_mul_prec (file : String) (a b c : E) (ts : List Token)
    (hts : ts.map sp = renderAt 4 a ++ plusSp :: renderAt 5 b ++ starSp :: renderAt 6 c) :
    ∃ n, parse file ts = .ok n ∧
      erase n = binNode "add" (toNode a) (binNode "mul" (toNode b) (toNode c)) :=
  parse_render_tokens file (.add .add a (.mul .mul b c)) ts
    (by rw [hts]; simp [render, wrap, prec, AddOp.sp, AddOp.txt, MulOp.sp, MulOp.txt, plusSp, starSp])

/-- `a * b + c` is `(a * b) + c` -/
theorem mul_add_prec (file : String) (a b c : E) (ts : List Token)
    (hts : ts.map sp = renderAt 5 a ++ starSp :: renderAt 6 b ++ plusSp :: renderAt 5 c) :
    ∃ n, parse file ts = .ok n ∧
      erase n = binNode "add" (binNode "mul" (toNode a) (toNode b)) (toNode c) :=
  parse_render_tokens file (.add .add (.mul .mul a b) c) ts
    (by rw [hts]; simp [render, wrap, prec, AddOp.sp, AddOp.txt, MulOp.sp, MulOp.txt, plusSp, starSp])

/-- `a or b and c` is `a or (b and c)` -/
theorem or_and_prec (file : String) (a b c : E) (ts : List Token)
    (hts : ts.map sp = renderAt 1 a ++ orSp :: renderAt 2 b ++ andSp :: renderAt 2 c) :
    ∃ n, parse file ts = .ok n ∧
      erase n = .or [toNode a, .and [toNode b, toNode c] default] default :=
  parse_render_tokens file (.or a (.and b c []) []) ts
    (by rw [hts]; simp [render, renderL, wrap, prec])

/-- `not a == b` is `not (a == b)` -/
theorem not_eq_prec (file : String) (a b : E) (ts : List Token)
    (hts : ts.map sp = notSp :: renderAt 4 a ++ eqSp :: renderAt 4 b) :
    ∃ n, parse file ts = .ok n ∧ erase n = .not (binNode "equals" (toNode a) (toNode b)) default :=
  parse_render_tokens file (.not (.cmp a .eq b [])) ts
    (by rw [hts]; simp [render, renderC, wrap, prec, RelOp.sp, RelOp.txt, eqSp])

/-- `-a * b` is `(-a) * b`, where `-a` is the literal `−n` if `a` is the `int` token `n`, and
    `sub(0, a)` otherwise -/
theorem neg_mul_prec (file : String) (a b : E) (ts : List Token)
    (hts : ts.map sp = minusSp :: renderAt 7 a ++ starSp :: renderAt 6 b) :
    ∃ n, parse file ts = .ok n ∧ erase n = binNode "mul" (negNode a (toNode a)) (toNode b) :=
  parse_render_tokens file (.mul .mul (.neg a) b) ts
    (by rw [hts]; simp [render, wrap, prec, MulOp.sp, MulOp.txt, starSp])

/-- `a < b <= c` is the conjunction of `a < b` and `b <= c` -/
theorem cmp_chain (file : String) (a b c : E) (ts : List Token)
    (hts : ts.map sp = renderAt 4 a ++ ltSp :: renderAt 4 b ++ leSp :: renderAt 4 c) :
    ∃ n, parse file ts = .ok n ∧
      erase n = .and [binNode "less" (toNode a) (toNode b), binNode "less_equals" (toNode b) (toNode c)] default :=
  parse_render_tokens file (.cmp a .lt b [(.le, c)]) ts
    (by rw [hts]; simp [render, renderC, wrap, prec, RelOp.sp, RelOp.txt, ltSp, leSp])

/-- a single comparison is the comparison itself (no `NodeAnd` around it) -/
theorem cmp_single (file : String) (a b : E) (o : RelOp) (ts : List Token)
    (hts : ts.map sp = renderAt 4 a ++ o.sp :: renderAt 4 b) :
    ∃ n, parse file ts = .ok n ∧ erase n = binNode o.fn (toNode a) (toNode b) :=
  parse_render_tokens file (.cmp a o b []) ts (by rw [hts]; simp [render, renderC])

/-- `a or b or c` is ONE n-ary node -/
theorem or_flat (file : String) (a b c : E) (ts : List Token)
    (hts : ts.map sp = renderAt 1 a ++ orSp :: renderAt 1 b ++ orSp :: renderAt 1 c) :
    ∃ n, parse file ts = .ok n ∧ erase n = .or [toNode a, toNode b, toNode c] default :=
  parse_render_tokens file (.or a b [c]) ts (by rw [hts]; simp [render, renderL])

/-! ### what the model rejects -/

/-- `not not …` is a syntax error, whatever follows: `parse_not_expr` parses its operand with
    `parse_rel_expr`, so `not (not a)` needs its parentheses. -/
theorem not_not_error (file : String) (t1 t2 : Token) (tl : List Token) (h1 : sp t1 = notSp) (h2 : sp t2 = notSp) :
    parse file (t1 :: t2 :: tl) = .error (invalidAt t2).val := by
  refine parseWith_error_of_or _ file t1 (t2 :: tl) _ (exprHead_of_sp h1 rfl) ?_
  apply pOr_error
  rw [pNot_step _ _ _ _ h1]
  have hop : t2.type ≠ .operator := by
    simp only [sp, notSp, Prod.mk.injEq] at h2; rw [h2.2]; decide
  rw [pRel_error _ _ (invalidAt t2)]
  · rfl
  · rw [pUnary_plain _ _ _ _ hop]
    exact pPred_error _ _ _ _ (pPrimary_not _ _ _ _ _ h2)

/-- `- - …` is a syntax error, whatever follows: `parse_unary_expr` parses its operand with
    `parse_pred_expr`, so `-(-a)` needs its parentheses. -/
theorem neg_neg_error (file : String) (t1 t2 : Token) (tl : List Token) (h1 : sp t1 = minusSp) (h2 : sp t2 = minusSp) :
    parse file (t1 :: t2 :: tl) = .error (invalidAt t2).val := by
  refine parseWith_error_of_or _ file t1 (t2 :: tl) _ (exprHead_of_sp h1 rfl) ?_
  apply pOr_error
  have hn : sp t1 ≠ notSp := by rw [h1]; decide
  rw [pNot_plain _ _ _ _ hn]
  apply pRel_error
  have h1' := h1
  simp only [sp, minusSp, Prod.mk.injEq] at h1' h2
  rw [pUnary_minus _ _ t1 t2 tl h1'.1 h1'.2 (by rw [h2.2]; decide) (by rw [h2.2]; decide)]
  rw [pPred_error _ _ _ _ (pPrimary_minus _ _ _ _ _ (by simp [sp, minusSp, h2.1, h2.2]))]
  rfl

/-! ### 5. non-vacuity: the theorems on concrete token lists (with real positions) -/

def idT (c : Char) (col : Int) : Token := ⟨[c], .identifier, ⟨"f", 1, col⟩⟩
def opT (cs : List Char) (col : Int) : Token := ⟨cs, .operator, ⟨"f", 1, col⟩⟩
def kwT (cs : List Char) (col : Int) : Token := ⟨cs, .keyword, ⟨"f", 1, col⟩⟩
def ipT (c : Char) (col : Int) : Token := ⟨[c], .interpunction, ⟨"f", 1, col⟩⟩
def intT (cs : List Char) (col : Int) : Token := ⟨cs, .int, ⟨"f", 1, col⟩⟩
def idE (c : Char) : E := .atom (.ident [c])
def idN (s : String) : Node := .ident s default
def intN (n : Int) : Node := .lit (.int n) default

/-- `a - b - c * d`  is  `(a - b) - (c * d)` -/
example : ∃ n, parse "f" [idT 'a' 1, opT ['-'] 3, idT 'b' 5, opT ['-'] 7, idT 'c' 9, opT ['*'] 11, idT 'd' 13] = .ok n ∧
    erase n = binNode "sub" (binNode "sub" (idN "a") (idN "b")) (binNode "mul" (idN "c") (idN "d")) :=
  parse_render_tokens "f" (.add .sub (.add .sub (idE 'a') (idE 'b')) (.mul .mul (idE 'c') (idE 'd'))) _ rfl

/-- `not a == b + 1 or c and d < e <= f`  is  `(not (a == (b + 1))) or (c and (d < e and e <= f))` -/
example : ∃ n, parse "f" [kwT ['n', 'o', 't'] 1, idT 'a' 5, opT ['=', '='] 7, idT 'b' 10, opT ['+'] 12, intT ['1'] 14,
      kwT ['o', 'r'] 16, idT 'c' 19, kwT ['a', 'n', 'd'] 21, idT 'd' 25, opT ['<'] 27, idT 'e' 29, opT ['<', '='] 31,
      idT 'f' 34] = .ok n ∧
    erase n = .or [.not (binNode "equals" (idN "a") (binNode "add" (idN "b") (intN 1))) default,
      .and [idN "c", .and [binNode "less" (idN "d") (idN "e"), binNode "less_equals" (idN "e") (idN "f")] default]
        default] default :=
  parse_render_tokens "f"
    (.or (.not (.cmp (idE 'a') .eq (.add .add (idE 'b') (.atom (.int ['1'] 1 (by decide)))) []))
      (.and (idE 'c') (.cmp (idE 'd') .lt (idE 'e') [(.le, idE 'f')]) []) []) _ rfl

/-- `-(a + b) * -2 % x`  is  `((0 - (a + b)) * (-2)) % x` -/
example : ∃ n, parse "f" [opT ['-'] 1, ipT '(' 2, idT 'a' 3, opT ['+'] 5, idT 'b' 7, ipT ')' 8, opT ['*'] 10,
      opT ['-'] 12, intT ['2'] 13, opT ['%'] 15, idT 'x' 17] = .ok n ∧
    erase n = binNode "mod" (binNode "mul" (subZero (binNode "add" (idN "a") (idN "b"))) (intN (-2))) (idN "x") :=
  parse_render_tokens "f"
    (.mul .mod (.mul .mul (.neg (.add .add (idE 'a') (idE 'b'))) (.neg (.atom (.int ['2'] 2 (by decide))))) (idE 'x'))
    _ rfl

/-- `(a or b) and not (c or d)`: parentheses override -/
example : ∃ n, parse "f" [ipT '(' 1, idT 'a' 2, kwT ['o', 'r'] 4, idT 'b' 7, ipT ')' 8, kwT ['a', 'n', 'd'] 10,
      kwT ['n', 'o', 't'] 14, ipT '(' 18, idT 'c' 19, kwT ['o', 'r'] 21, idT 'd' 24, ipT ')' 25] = .ok n ∧
    erase n = .and [.or [idN "a", idN "b"] default, .not (.or [idN "c", idN "d"] default) default] default :=
  parse_render_tokens "f" (.and (.or (idE 'a') (idE 'b') []) (.not (.or (idE 'c') (idE 'd') [])) []) _ rfl

/-- `a - (b - (c - d))`: the rendering of the right-nested tree, which needs both pairs of parentheses -/
example : ∃ n, parse "f" [idT 'a' 1, opT ['-'] 3, ipT '(' 5, idT 'b' 6, opT ['-'] 8, ipT '(' 10, idT 'c' 11, opT ['-'] 13,
      idT 'd' 15, ipT ')' 16, ipT ')' 17] = .ok n ∧
    erase n = binNode "sub" (idN "a") (binNode "sub" (idN "b") (binNode "sub" (idN "c") (idN "d"))) :=
  parse_render_tokens "f" (.add .sub (idE 'a') (.add .sub (idE 'b') (.add .sub (idE 'c') (idE 'd')))) _ rfl

/-- `parse_level`: `a + b` at the additive level in front of `) * c` -/
example : ∃ n q, erase n = binNode "add" (idN "a") (idN "b") ∧
    pLevel 4 ⟨default, fun _ => true⟩ ⟨default, [idT 'a' 1, opT ['+'] 3, idT 'b' 5] ++ [ipT ')' 6, opT ['*'] 8, idT 'c' 10]⟩ =
      .ok (n, ⟨q, [ipT ')' 6, opT ['*'] 8, idT 'c' 10]⟩) :=
  parse_level (.add .add (idE 'a') (idE 'b')) 4 (by decide) _ _ _ _ rfl rfl

/-- `parse_render_parens`: `((a)) + (b * (c))` and `a + b * c` -/
example : ∃ n n', parse "f" [ipT '(' 1, ipT '(' 2, idT 'a' 3, ipT ')' 4, ipT ')' 5, opT ['+'] 7, ipT '(' 9, idT 'b' 10,
      opT ['*'] 12, ipT '(' 14, idT 'c' 15, ipT ')' 16, ipT ')' 17] = .ok n ∧
    parse "f" [idT 'a' 1, opT ['+'] 3, idT 'b' 5, opT ['*'] 7, idT 'c' 9] = .ok n' ∧ erase n = erase n' :=
  parse_render_parens "f"
    (.add .add (.paren (.paren (idE 'a'))) (.paren (.mul .mul (idE 'b') (.paren (idE 'c'))))) _ _ rfl rfl

/-- `parse_paren_top`: `(a < b)` and `a < b` -/
example : ∃ n n', parse "f" [idT 'a' 1, opT ['<'] 3, idT 'b' 5] = .ok n ∧
    parse "f" [ipT '(' 1, idT 'a' 2, opT ['<'] 4, idT 'b' 6, ipT ')' 7] = .ok n' ∧ erase n = erase n' :=
  parse_paren_top "f" (.cmp (idE 'a') .lt (idE 'b') []) _ _ rfl rfl

/-- the corollaries with non-atomic operands: `x * y - (p or q) - -z`, … -/
example : ∃ n, parse "f" [idT 'x' 1, opT ['*'] 3, idT 'y' 5, opT ['-'] 7, ipT '(' 9, idT 'p' 10, kwT ['o', 'r'] 12,
      idT 'q' 15, ipT ')' 16, opT ['-'] 18, opT ['-'] 20, idT 'z' 21] = .ok n ∧
    erase n = binNode "sub" (binNode "sub" (binNode "mul" (idN "x") (idN "y")) (.or [idN "p", idN "q"] default))
      (subZero (idN "z")) :=
  sub_left_assoc "f" (.mul .mul (idE 'x') (idE 'y')) (.or (idE 'p') (idE 'q') []) (.neg (idE 'z')) _ rfl

example : ∃ n, parse "f" [idT 'a' 1, opT ['-'] 3, ipT '(' 5, idT 'b' 6, opT ['-'] 8, idT 'c' 10, ipT ')' 11] = .ok n ∧
    erase n = binNode "sub" (idN "a") (binNode "sub" (idN "b") (idN "c")) :=
  sub_right_nested "f" (idE 'a') (idE 'b') (idE 'c') _ rfl

example : ∃ n, parse "f" [idT 'a' 1, opT ['+'] 3, idT 'b' 5, opT ['*'] 7, idT 'c' 9] = .ok n ∧
    erase n = binNode "add" (idN "a") (binNode "mul" (idN "b") (idN "c")) :=
  add_mul_prec "f" (idE 'a') (idE 'b') (idE 'c') _ rfl

example : ∃ n, parse "f" [idT 'a' 1, opT ['*'] 3, idT 'b' 5, opT ['+'] 7, idT 'c' 9] = .ok n ∧
    erase n = binNode "add" (binNode "mul" (idN "a") (idN "b")) (idN "c") :=
  mul_add_prec "f" (idE 'a') (idE 'b') (idE 'c') _ rfl

example : ∃ n, parse "f" [idT 'a' 1, kwT ['o', 'r'] 3, idT 'b' 6, kwT ['a', 'n', 'd'] 8, idT 'c' 12] = .ok n ∧
    erase n = .or [idN "a", .and [idN "b", idN "c"] default] default :=
  or_and_prec "f" (idE 'a') (idE 'b') (idE 'c') _ rfl

example : ∃ n, parse "f" [kwT ['n', 'o', 't'] 1, idT 'a' 5, opT ['=', '='] 7, idT 'b' 10] = .ok n ∧
    erase n = .not (binNode "equals" (idN "a") (idN "b")) default :=
  not_eq_prec "f" (idE 'a') (idE 'b') _ rfl

example : ∃ n, parse "f" [opT ['-'] 1, idT 'a' 2, opT ['*'] 4, idT 'b' 6] = .ok n ∧
    erase n = binNode "mul" (subZero (idN "a")) (idN "b") :=
  neg_mul_prec "f" (idE 'a') (idE 'b') _ rfl

example : ∃ n, parse "f" [opT ['-'] 1, intT ['7'] 2, opT ['*'] 4, idT 'b' 6] = .ok n ∧
    erase n = binNode "mul" (intN (-7)) (idN "b") :=
  neg_mul_prec "f" (.atom (.int ['7'] 7 (by decide))) (idE 'b') _ rfl

example : ∃ n, parse "f" [idT 'a' 1, opT ['<'] 3, idT 'b' 5, opT ['<', '='] 7, idT 'c' 10] = .ok n ∧
    erase n = .and [binNode "less" (idN "a") (idN "b"), binNode "less_equals" (idN "b") (idN "c")] default :=
  cmp_chain "f" (idE 'a') (idE 'b') (idE 'c') _ rfl

example : ∃ n, parse "f" [idT 'a' 1, opT ['>', '='] 3, idT 'b' 6] = .ok n ∧
    erase n = binNode "greater_equals" (idN "a") (idN "b") :=
  cmp_single "f" (idE 'a') (idE 'b') .ge _ rfl

example : ∃ n, parse "f" [idT 'a' 1, kwT ['o', 'r'] 3, idT 'b' 6, kwT ['o', 'r'] 8, idT 'c' 11] = .ok n ∧
    erase n = .or [idN "a", idN "b", idN "c"] default :=
  or_flat "f" (idE 'a') (idE 'b') (idE 'c') _ rfl

/-- `not not a` and `- - a` are rejected -/
example : ∃ e, parse "f" [kwT ['n', 'o', 't'] 1, kwT ['n', 'o', 't'] 5, idT 'a' 9] = .error e :=
  ⟨_, not_not_error "f" _ _ _ rfl rfl⟩

example : ∃ e, parse "f" [opT ['-'] 1, opT ['-'] 3, idT 'a' 5] = .error e :=
  ⟨_, neg_neg_error "f" _ _ _ rfl rfl⟩

/-- `-(5)` keeps its parentheses under `stripParens`: it is `sub(0, 5)`, while `-5` is the literal -/
example : ∃ n n', parse "f" [opT ['-'] 1, ipT '(' 2, intT ['5'] 3, ipT ')' 4] = .ok n ∧
    parse "f" [opT ['-'] 1, intT ['5'] 2] = .ok n' ∧ erase n = subZero (intN 5) ∧ erase n' = intN (-5) := by
  obtain ⟨n, h, hn⟩ := parse_render_tokens "f" (.neg (.paren (.atom (.int ['5'] 5 (by decide)))))
    [opT ['-'] 1, ipT '(' 2, intT ['5'] 3, ipT ')' 4] rfl
  obtain ⟨n', h', hn'⟩ := parse_render_tokens "f" (.neg (.atom (.int ['5'] 5 (by decide))))
    [opT ['-'] 1, intT ['5'] 2] rfl
  exact ⟨n, n', h, h', hn, hn'⟩

end Ckl.C02P
