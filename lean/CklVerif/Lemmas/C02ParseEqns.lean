/-
  C02 (syntactic half) — a proof-free view of the expression productions of the parser model.

  The productions return their new lexer state together with a proof that it is shorter
  (`R`, `Rle`).  `plain` / `plainLe` forget that proof; the lemmas below say how each production
  of the tower `pBareBlock → pStatement → pExpression → pOr → pAnd → pNot → pRel → pAdd → pMul →
  pUnary → pPred → pPrimary` and each of its loops steps on a given first token, and when it stops.
-/
import CklVerif.Lemmas.C02ParseDefs
namespace Ckl.C02P
open Ckl Ckl.Parser

local notation "kw" => (some TokType.keyword)
local notation "ip" => (some TokType.interpunction)
local notation "op" => (some TokType.operator)
local notation "idt" => (some TokType.identifier)

def plain {α : Type} {n : Nat} : R α n → Except PErr (α × St)
  | .ok o => .ok (o.val, o.st)
  | .error e => .error e

def plainLe {α : Type} {n : Nat} : Rle α n → Except PErr (α × St)
  | .ok o => .ok (o.val, o.st)
  | .error e => .error e

theorem plain_eq_ok {α : Type} {n : Nat} {r : R α n} {a : α} {s : St} (h : plain r = .ok (a, s)) :
    ∃ hl, r = .ok ⟨a, s, hl⟩ := by
  cases r with
  | error e => simp [plain] at h
  | ok o => obtain ⟨v, st, hl⟩ := o; simp [plain] at h; obtain ⟨rfl, rfl⟩ := h; exact ⟨hl, rfl⟩

theorem plainLe_eq_ok {α : Type} {n : Nat} {r : Rle α n} {a : α} {s : St} (h : plainLe r = .ok (a, s)) :
    ∃ hl, r = .ok ⟨a, s, hl⟩ := by
  cases r with
  | error e => simp [plainLe] at h
  | ok o => obtain ⟨v, st, hl⟩ := o; simp [plainLe] at h; obtain ⟨rfl, rfl⟩ := h; exact ⟨hl, rfl⟩

@[simp] theorem plain_ok {α : Type} {n : Nat} (o : OutLt α n) : plain (.ok o) = .ok (o.val, o.st) := rfl
@[simp] theorem plainLe_ok {α : Type} {n : Nat} (o : OutLe α n) : plainLe (.ok o) = .ok (o.val, o.st) := rfl
@[simp] theorem plain_error {α : Type} {n : Nat} (e : PErr) : plain (α := α) (n := n) (.error e) = .error e := rfl
@[simp] theorem plainLe_error {α : Type} {n : Nat} (e : PErr) : plainLe (α := α) (n := n) (.error e) = .error e := rfl

@[simp] theorem plain_wkLt {α : Type} {m n : Nat} (h : m ≤ n) (r : R α m) : plain (wkLt h r) = plain r := by
  cases r <;> rfl
@[simp] theorem plain_leLt {α : Type} {m n : Nat} (h : m < n) (r : Rle α m) : plain (leLt h r) = plainLe r := by
  cases r <;> rfl
@[simp] theorem plainLe_ltLe {α : Type} {m n : Nat} (h : m ≤ n) (r : R α m) : plainLe (ltLe h r) = plain r := by
  cases r <;> rfl
@[simp] theorem plainLe_wkLe {α : Type} {m n : Nat} (h : m ≤ n) (r : Rle α m) : plainLe (wkLe h r) = plainLe r := by
  cases r <;> rfl

/-! ### single-token matching -/

theorem matchIf_nil (p : Pos) (v ty) : St.matchIf ⟨p, []⟩ v ty = none := rfl

theorem matchIf_cons_true {p : Pos} {t : Token} {tl : List Token} {v ty} (h : St.tokIs t v ty = true) :
    St.matchIf ⟨p, t :: tl⟩ v ty = some ⟨⟨t.pos, tl⟩, by simp⟩ := by
  simp [St.matchIf, h]

theorem matchIf_cons_false {p : Pos} {t : Token} {tl : List Token} {v ty} (h : St.tokIs t v ty = false) :
    St.matchIf ⟨p, t :: tl⟩ v ty = none := by
  simp [St.matchIf, h]

theorem matchIf2_nil (p : Pos) (v ty v2 ty2) : St.matchIf2 ⟨p, []⟩ v ty v2 ty2 = none := rfl
theorem matchIf3_nil (p : Pos) (v ty v2 ty2 v3 ty3) : St.matchIf3 ⟨p, []⟩ v ty v2 ty2 v3 ty3 = none := rfl

theorem matchIf2_cons_false {p : Pos} {t : Token} {tl : List Token} {v ty v2 ty2}
    (h : St.tokIs t v ty = false) : St.matchIf2 ⟨p, t :: tl⟩ v ty v2 ty2 = none := by
  cases tl <;> simp [St.matchIf2, h]

theorem matchIf3_cons_false {p : Pos} {t : Token} {tl : List Token} {v ty v2 ty2 v3 ty3}
    (h : St.tokIs t v ty = false) : St.matchIf3 ⟨p, t :: tl⟩ v ty v2 ty2 v3 ty3 = none := by
  rcases tl with _ | ⟨t2, _ | ⟨t3, tl⟩⟩ <;> simp [St.matchIf3, h]

theorem peekn_nil (p : Pos) (v ty) : St.peekn ⟨p, []⟩ 1 v ty = false := by simp [St.peekn]

theorem peekn_cons (p : Pos) (t : Token) (tl : List Token) (v ty) :
    St.peekn ⟨p, t :: tl⟩ 1 v ty = St.tokIs t v ty := by simp [St.peekn]

theorem matchOpTable_nil (p : Pos) (tbl) : matchOpTable ⟨p, []⟩ tbl = none := by
  induction tbl with
  | nil => rfl
  | cons x xs ih => obtain ⟨v, fn⟩ := x; simp [matchOpTable, ih, matchIf_nil]

/-! ### follow sets -/

/-- `t` is not taken by a postfix loop (`!>`, `(`, `->`, `[`), not by the assignment forms after
    an identifier (`=`, `+=` …) and not by `parse_pred_expr` (`is`, `in`, `not in`, `starts with` …) -/
def stop7 (t : Token) : Bool :=
  !St.tokIs t c!"!>" op && !St.tokIs t c!"(" ip && !St.tokIs t c!"->" op && !St.tokIs t c!"[" ip &&
  !St.tokIs t c!"=" op && !St.tokIs t c!"+=" op && !St.tokIs t c!"-=" op && !St.tokIs t c!"*=" op &&
  !St.tokIs t c!"/=" op && !St.tokIs t c!"%=" op && !St.tokIs t c!"is" kw && !St.tokIs t c!"not" kw &&
  !St.tokIs t c!"in" kw && !St.tokIs t c!"starts" idt && !St.tokIs t c!"ends" idt &&
  !St.tokIs t c!"contains" idt && !St.tokIs t c!"matches" idt

def isMulOp (t : Token) : Bool := St.tokIs t c!"*" op || St.tokIs t c!"/" op || St.tokIs t c!"%" op
def isAddOp (t : Token) : Bool := St.tokIs t c!"+" op || St.tokIs t c!"-" op

/-- `t` is a token that the productions of level `k` and of all tighter levels leave alone
    (levels: or 0, and 1, not 2, comparison 3, additive 4, multiplicative 5, unary 6, primary 7) -/
def stops (k : Nat) (t : Token) : Bool :=
  stop7 t && (decide (5 < k) || !isMulOp t) && (decide (4 < k) || !isAddOp t) && (decide (3 < k) || !isRelop t) &&
  (decide (1 < k) || !St.tokIs t c!"and" kw) && (decide (0 < k) || !St.tokIs t c!"or" kw)

/-- the rest of the input is empty or starts with a token that level `k` does not consume -/
def Follow (k : Nat) (rest : List Token) : Prop :=
  match rest with
  | [] => True
  | t :: _ => stops k t = true

theorem Follow.mono {j k : Nat} {rest : List Token} (h : Follow j rest) (hjk : j ≤ k) : Follow k rest := by
  cases rest with
  | nil => trivial
  | cons t tl =>
    simp only [Follow, stops, Bool.and_eq_true, Bool.or_eq_true, decide_eq_true_eq] at h ⊢
    obtain ⟨⟨⟨⟨⟨h7, h5⟩, h4⟩, h3⟩, h1⟩, h0⟩ := h
    refine ⟨⟨⟨⟨⟨h7, ?_⟩, ?_⟩, ?_⟩, ?_⟩, ?_⟩
    · rcases h5 with h | h; exact Or.inl (by omega); exact Or.inr h
    · rcases h4 with h | h; exact Or.inl (by omega); exact Or.inr h
    · rcases h3 with h | h; exact Or.inl (by omega); exact Or.inr h
    · rcases h1 with h | h; exact Or.inl (by omega); exact Or.inr h
    · rcases h0 with h | h; exact Or.inl (by omega); exact Or.inr h

theorem Follow.stop7 {k : Nat} {t : Token} {tl : List Token} (h : Follow k (t :: tl)) : stop7 t = true := by
  simp only [Follow, stops, Bool.and_eq_true] at h
  exact h.1.1.1.1.1

theorem Follow.nil (k : Nat) : Follow k [] := trivial

/-- `stops` only looks at the spelling -/
theorem stops_congr {k : Nat} {t t' : Token} (h : sp t = sp t') : stops k t = stops k t' := by
  simp only [sp, Prod.mk.injEq] at h
  obtain ⟨hv, ht⟩ := h
  simp [stops, stop7, isMulOp, isAddOp, isRelop, St.tokIs, hv, ht]

/-! ### where the loops stop -/

theorem postfixLoop_stop (c : Ctx) (a b : Bool) (q : Pos) (rest : List Token) (n : Node)
    (h : Follow 7 rest) : plainLe (postfixLoop c a b ⟨q, rest⟩ n) = .ok (n, ⟨q, rest⟩) := by
  rw [postfixLoop]
  cases rest with
  | nil => simp [matchIf_nil]
  | cons t tl =>
    have h7 := h.stop7
    simp only [stop7, Bool.and_eq_true, Bool.not_eq_true'] at h7
    obtain ⟨⟨⟨⟨⟨⟨⟨⟨⟨⟨⟨⟨⟨⟨⟨⟨h1, h2⟩, h3⟩, h4⟩, h5⟩, h6⟩, h7⟩, h8⟩, h9⟩, h10⟩, h11⟩, h12⟩, h13⟩, h14⟩, h15⟩, h16⟩, h17⟩ := h7
    simp [matchIf_cons_false, h1, h2, h3, h4]

theorem binPredTable_stop (q : Pos) (rest : List Token) (h : Follow 7 rest) :
    binPredTable ⟨q, rest⟩ = none := by
  cases rest with
  | nil => simp [binPredTable, matchIf_nil, matchIf2_nil, matchIf3_nil]
  | cons t tl =>
    have h7 := h.stop7
    simp only [stop7, Bool.and_eq_true, Bool.not_eq_true'] at h7
    obtain ⟨⟨⟨⟨⟨⟨⟨⟨⟨⟨⟨⟨⟨⟨⟨⟨h1, h2⟩, h3⟩, h4⟩, h5⟩, h6⟩, h7⟩, h8⟩, h9⟩, h10⟩, h11⟩, h12⟩, h13⟩, h14⟩, h15⟩, h16⟩, h17⟩ := h7
    simp [binPredTable, matchIf_cons_false, matchIf2_cons_false, matchIf3_cons_false, h12, h13, h14, h15, h16, h17]

theorem pPred_of_primary (c : Ctx) (um : Bool) (st : St) (n : Node) (q : Pos) (rest : List Token)
    (hp : plain (pPrimary c um st) = .ok (n, ⟨q, rest⟩)) (h : Follow 7 rest) :
    plain (pPred c um st) = .ok (n, ⟨q, rest⟩) := by
  obtain ⟨hl, hp⟩ := plain_eq_ok hp
  rw [pPred]
  have hb := binPredTable_stop q rest h
  have his : St.matchIf ⟨q, rest⟩ c!"is" kw = none := by
    cases rest with
    | nil => rfl
    | cons t tl =>
      have h7 := h.stop7
      simp only [stop7, Bool.and_eq_true, Bool.not_eq_true'] at h7
      exact matchIf_cons_false h7.1.1.1.1.1.1.2
  simp [hp, bind, Except.bind, his, hb, pure, Except.pure]

/-! ### primary expressions -/

theorem pPrimary_ident (c : Ctx) (um : Bool) (p : Pos) (t : Token) (rest : List Token)
    (ht : t.type = .identifier) (h : Follow 7 rest) :
    plain (pPrimary c um ⟨p, t :: rest⟩) = .ok (.ident (str t.value) t.pos, ⟨t.pos, rest⟩) := by
  rw [pPrimary]
  have hpf := postfixLoop_stop c true true t.pos rest (.ident (str t.value) t.pos) h
  have heq : St.matchIf ⟨t.pos, rest⟩ c!"=" op = none ∧ matchOpTable ⟨t.pos, rest⟩ compoundOps = none := by
    cases rest with
    | nil => exact ⟨rfl, matchOpTable_nil _ _⟩
    | cons t2 tl =>
      have h7 := h.stop7
      simp only [stop7, Bool.and_eq_true, Bool.not_eq_true'] at h7
      obtain ⟨⟨⟨⟨⟨⟨⟨⟨⟨⟨⟨⟨⟨⟨⟨⟨h1, h2⟩, h3⟩, h4⟩, h5⟩, h6⟩, h7⟩, h8⟩, h9⟩, h10⟩, h11⟩, h12⟩, h13⟩, h14⟩, h15⟩, h16⟩, h17⟩ := h7
      simp [matchOpTable, compoundOps, matchIf_cons_false, h5, h6, h7, h8, h9, h10]
  simp [St.hasNext, St.next, ht, bind, Except.bind, heq.1, heq.2, hpf]

theorem pPrimary_int (c : Ctx) (um : Bool) (p : Pos) (t : Token) (rest : List Token) (n : Nat)
    (ht : t.type = .int) (hv : parseIntLit t.value = some n) (h : Follow 7 rest) :
    plain (pPrimary c um ⟨p, t :: rest⟩) =
      .ok (.lit (.int (if um then -(n : Int) else (n : Int))) t.pos, ⟨t.pos, rest⟩) := by
  rw [pPrimary]
  simp [St.hasNext, St.next, ht, hv, bind, Except.bind, postfixLoop_stop c false false t.pos rest _ h]

theorem pPrimary_bool (c : Ctx) (um : Bool) (p : Pos) (t : Token) (rest : List Token)
    (ht : t.type = .boolean) (h : Follow 7 rest) :
    plain (pPrimary c um ⟨p, t :: rest⟩) =
      .ok (.lit (.bool (t.value == c!"TRUE")) t.pos, ⟨t.pos, rest⟩) := by
  rw [pPrimary]
  simp [St.hasNext, St.next, ht, bind, Except.bind, postfixLoop_stop c false false t.pos rest _ h]

theorem pPrimary_paren (c : Ctx) (um : Bool) (p : Pos) (t t2 : Token) (tl rest : List Token) (n : Node) (q : Pos)
    (htv : t.value = c!"(") (htt : t.type = .interpunction)
    (hb : plain (pBareBlock c false ⟨t.pos, tl⟩) = .ok (n, ⟨q, t2 :: rest⟩))
    (h2v : t2.value = c!")") (h2t : t2.type = .interpunction) (h : Follow 7 rest) :
    plain (pPrimary c um ⟨p, t :: tl⟩) = .ok (n, ⟨t2.pos, rest⟩) := by
  obtain ⟨hl, hb⟩ := plain_eq_ok hb
  obtain ⟨hl2, hpf⟩ := plainLe_eq_ok (postfixLoop_stop c true true t2.pos rest n h)
  rw [pPrimary]
  simp [St.hasNext, St.next, htv, htt, bind, Except.bind, hb, St.expect, h2v, h2t, hpf, pure, Except.pure]

/-! ### unary minus -/

/-- the first token is no sign: `parse_unary_expr` is `parse_pred_expr` -/
theorem pUnary_plain (c : Ctx) (p : Pos) (t : Token) (tl : List Token) (ht : t.type ≠ .operator) :
    plain (pUnary c ⟨p, t :: tl⟩) = plain (pPred c false ⟨p, t :: tl⟩) := by
  rw [pUnary]
  have h1 : St.matchIf ⟨p, t :: tl⟩ c!"+" op = none := matchIf_cons_false (by simp [St.tokIs, ht])
  have h2 : St.matchIf ⟨p, t :: tl⟩ c!"-" op = none := matchIf_cons_false (by simp [St.tokIs, ht])
  simp [h1, h2]

/-- `-` directly in front of an `int` token: the sign goes into the literal -/
theorem pUnary_minus_int (c : Ctx) (p : Pos) (t t2 : Token) (tl : List Token)
    (htv : t.value = c!"-") (htt : t.type = .operator) (h2 : t2.type = .int) :
    plain (pUnary c ⟨p, t :: t2 :: tl⟩) = plain (pPred c true ⟨t.pos, t2 :: tl⟩) := by
  rw [pUnary]
  have h1 : St.matchIf ⟨p, t :: t2 :: tl⟩ c!"+" op = none := matchIf_cons_false (by simp [St.tokIs, htv])
  have h2' : St.matchIf ⟨p, t :: t2 :: tl⟩ c!"-" op = some ⟨⟨t.pos, t2 :: tl⟩, by simp⟩ :=
    matchIf_cons_true (by simp [St.tokIs, htv, htt])
  simp only [h1, h2']
  simp only [St.peek, bind, Except.bind, h2]
  cases pPred c true ⟨t.pos, t2 :: tl⟩ with
  | error e => simp
  | ok o => simp [pure, Except.pure]

/-- `-` in front of anything else: `sub(0, e)` -/
theorem pUnary_minus (c : Ctx) (p : Pos) (t t2 : Token) (tl : List Token)
    (htv : t.value = c!"-") (htt : t.type = .operator) (h2 : t2.type ≠ .int) (h2' : t2.type ≠ .decimal) :
    plain (pUnary c ⟨p, t :: t2 :: tl⟩) =
      (plain (pPred c false ⟨t.pos, t2 :: tl⟩)).map (fun r =>
        (.call (.ident "sub" t.pos) [some "a", some "b"] [.lit (.int 0) t.pos, r.1] t.pos, r.2)) := by
  rw [pUnary]
  have h1 : St.matchIf ⟨p, t :: t2 :: tl⟩ c!"+" op = none := matchIf_cons_false (by simp [St.tokIs, htv])
  have hm : St.matchIf ⟨p, t :: t2 :: tl⟩ c!"-" op = some ⟨⟨t.pos, t2 :: tl⟩, by simp⟩ :=
    matchIf_cons_true (by simp [St.tokIs, htv, htt])
  simp only [h1, hm]
  cases pPred c false ⟨t.pos, t2 :: tl⟩ with
  | error e => simp [St.peek, bind, Except.bind, h2, h2', Except.map]
  | ok o => simp [St.peek, bind, Except.bind, h2, h2', pure, Except.pure, Except.map]

/-! ### multiplicative and additive level -/

theorem pMul_plain (c : Ctx) (st : St) :
    plain (pMul c st) = (plain (pUnary c st)).bind (fun r => plainLe (mulLoop c r.2 r.1)) := by
  rw [pMul]
  cases h : pUnary c st with
  | error e => simp [bind, Except.bind]
  | ok o =>
    obtain ⟨e, s1, h1⟩ := o
    simp only [bind, Except.bind, plain]
    cases h2 : mulLoop c s1 e with
    | error e => simp
    | ok o2 => simp [pure, Except.pure]

theorem pAdd_plain (c : Ctx) (st : St) :
    plain (pAdd c st) = (plain (pMul c st)).bind (fun r => plainLe (addLoop c r.2 r.1)) := by
  rw [pAdd]
  cases h : pMul c st with
  | error e => simp [bind, Except.bind]
  | ok o =>
    obtain ⟨e, s1, h1⟩ := o
    simp only [bind, Except.bind, plain]
    cases h2 : addLoop c s1 e with
    | error e => simp
    | ok o2 => simp [pure, Except.pure]

theorem matchOpTable_mul_none (q : Pos) (rest : List Token) (h : Follow 5 rest) :
    matchOpTable ⟨q, rest⟩ mulOps = none := by
  cases rest with
  | nil => exact matchOpTable_nil _ _
  | cons t tl =>
    simp only [Follow, stops, Bool.and_eq_true, Bool.or_eq_true, decide_eq_true_eq, isMulOp, Bool.not_eq_true',
      Bool.or_eq_false_iff] at h
    obtain ⟨⟨⟨⟨⟨_, h5⟩, _⟩, _⟩, _⟩, _⟩ := h
    rcases h5 with h5 | ⟨⟨ha, hb⟩, hc⟩
    · omega
    · simp [matchOpTable, mulOps, matchIf_cons_false, ha, hb, hc]

theorem matchOpTable_add_none (q : Pos) (rest : List Token) (h : Follow 4 rest) :
    matchOpTable ⟨q, rest⟩ addOps = none := by
  cases rest with
  | nil => exact matchOpTable_nil _ _
  | cons t tl =>
    simp only [Follow, stops, Bool.and_eq_true, Bool.or_eq_true, decide_eq_true_eq, isAddOp, Bool.not_eq_true',
      Bool.or_eq_false_iff] at h
    obtain ⟨⟨⟨⟨⟨_, _⟩, h4⟩, _⟩, _⟩, _⟩ := h
    rcases h4 with h4 | ⟨ha, hb⟩
    · omega
    · simp [matchOpTable, addOps, matchIf_cons_false, ha, hb]

theorem mulLoop_stop (c : Ctx) (q : Pos) (rest : List Token) (e : Node) (h : Follow 5 rest) :
    plainLe (mulLoop c ⟨q, rest⟩ e) = .ok (e, ⟨q, rest⟩) := by
  rw [mulLoop]; simp [matchOpTable_mul_none q rest h]

theorem addLoop_stop (c : Ctx) (q : Pos) (rest : List Token) (e : Node) (h : Follow 4 rest) :
    plainLe (addLoop c ⟨q, rest⟩ e) = .ok (e, ⟨q, rest⟩) := by
  rw [addLoop]; simp [matchOpTable_add_none q rest h]

theorem mulLoop_step (c : Ctx) (p : Pos) (t : Token) (tl : List Token) (e : Node) (o : MulOp)
    (ht : sp t = o.sp) :
    plainLe (mulLoop c ⟨p, t :: tl⟩ e) =
      (plain (pUnary c ⟨t.pos, tl⟩)).bind (fun r => plainLe (mulLoop c r.2 (funcCallAB o.fn e r.1 t.pos))) := by
  simp only [sp, MulOp.sp, Prod.mk.injEq] at ht
  obtain ⟨hv, hty⟩ := ht
  rw [mulLoop]
  have hm : matchOpTable ⟨p, t :: tl⟩ mulOps = some (o.fn, ⟨⟨t.pos, tl⟩, by simp⟩) := by
    cases o <;> simp [MulOp.txt] at hv <;> simp [matchOpTable, mulOps, St.matchIf, St.tokIs, hv, hty, MulOp.fn]
  simp only [hm]
  cases h : pUnary c ⟨t.pos, tl⟩ with
  | error e => simp [bind, Except.bind]
  | ok o1 =>
    obtain ⟨r, s2, h2⟩ := o1
    simp only [bind, Except.bind, plain]
    cases h3 : mulLoop c s2 (funcCallAB o.fn e r t.pos) with
    | error e => simp
    | ok o2 => simp [pure, Except.pure]

theorem addLoop_step (c : Ctx) (p : Pos) (t : Token) (tl : List Token) (e : Node) (o : AddOp)
    (ht : sp t = o.sp) :
    plainLe (addLoop c ⟨p, t :: tl⟩ e) =
      (plain (pMul c ⟨t.pos, tl⟩)).bind (fun r => plainLe (addLoop c r.2 (funcCallAB o.fn e r.1 t.pos))) := by
  simp only [sp, AddOp.sp, Prod.mk.injEq] at ht
  obtain ⟨hv, hty⟩ := ht
  rw [addLoop]
  have hm : matchOpTable ⟨p, t :: tl⟩ addOps = some (o.fn, ⟨⟨t.pos, tl⟩, by simp⟩) := by
    cases o <;> simp [AddOp.txt] at hv <;> simp [matchOpTable, addOps, St.matchIf, St.tokIs, hv, hty, AddOp.fn]
  simp only [hm]
  cases h : pMul c ⟨t.pos, tl⟩ with
  | error e => simp [bind, Except.bind]
  | ok o1 =>
    obtain ⟨r, s2, h2⟩ := o1
    simp only [bind, Except.bind, plain]
    cases h3 : addLoop c s2 (funcCallAB o.fn e r t.pos) with
    | error e => simp
    | ok o2 => simp [pure, Except.pure]

/-! ### comparison level -/

theorem relGuard_stop (q : Pos) (rest : List Token) (h : Follow 3 rest) : relGuard ⟨q, rest⟩ = false := by
  cases rest with
  | nil => rfl
  | cons t tl =>
    simp only [Follow, stops, Bool.and_eq_true, Bool.or_eq_true, decide_eq_true_eq, Bool.not_eq_true'] at h
    obtain ⟨⟨⟨⟨_, _⟩, h3⟩, _⟩, _⟩ := h
    rcases h3 with h3 | h3
    · omega
    · simp [relGuard, h3]

theorem relLoop_stop (c : Ctx) (q : Pos) (rest : List Token) (lhs : Node) (acc : List Node) (h : Follow 3 rest) :
    plainLe (relLoop c ⟨q, rest⟩ lhs acc) = .ok (acc, ⟨q, rest⟩) := by
  rw [relLoop]
  cases rest with
  | nil => simp [relopNext, bind, Except.bind, pure, Except.pure]
  | cons t tl =>
    have hg := relGuard_stop q (t :: tl) h
    simp only [relGuard] at hg
    simp [relopNext, hg, bind, Except.bind, pure, Except.pure]

theorem isRelop_of_sp {t : Token} {o : RelOp} (ht : sp t = o.sp) : isRelop t = true ∧ (t.value == c!"is") = false := by
  simp only [sp, RelOp.sp, Prod.mk.injEq] at ht
  obtain ⟨hv, hty⟩ := ht
  cases o <;> simp [RelOp.txt] at hv <;> simp [Parser.isRelop, relops, hv, hty]

theorem relCmp_op (o : RelOp) (lhs rhs : Node) (pos : Pos) : relCmp o.txt lhs rhs pos = funcCallAB o.fn lhs rhs pos := by
  cases o <;> simp [relCmp, RelOp.txt, RelOp.fn]

/-- `NodeAnd.getSimplified` at the end of `parse_rel_expr` -/
def simplifyCmps (cmps : List Node) (pos : Pos) : Node :=
  match cmps with
  | [x] => x
  | _ => Node.and cmps pos

theorem pRel_plain (c : Ctx) (st : St) :
    plain (pRel c st) = (plain (pAdd c st)).bind (fun r =>
      if relGuard r.2 then
        (plainLe (relLoop c r.2 r.1 [])).map (fun r2 => (simplifyCmps r2.1 r.2.posNext, r2.2))
      else .ok r) := by
  rw [pRel]
  cases h : pAdd c st with
  | error e => simp [bind, Except.bind]
  | ok o =>
    obtain ⟨e, s1, h1⟩ := o
    simp only [bind, Except.bind, plain]
    cases hg : relGuard s1 with
    | false => simp [pure, Except.pure]
    | true =>
      cases h2 : relLoop c s1 e [] with
      | error e => simp [Except.map]
      | ok o2 =>
        obtain ⟨cmps, s2, h2'⟩ := o2
        simp only [pure, Except.pure, Except.map, plainLe_ok, if_true]
        rcases cmps with _ | ⟨x, _ | ⟨y, l⟩⟩ <;> rfl

theorem relLoop_step (c : Ctx) (p : Pos) (t : Token) (tl : List Token) (lhs : Node) (acc : List Node) (o : RelOp)
    (ht : sp t = o.sp) :
    plainLe (relLoop c ⟨p, t :: tl⟩ lhs acc) =
      (plain (pAdd c ⟨t.pos, tl⟩)).bind (fun r =>
        plainLe (relLoop c r.2 r.1 (acc ++ [funcCallAB o.fn lhs r.1 t.pos]))) := by
  obtain ⟨hr, hi⟩ := isRelop_of_sp ht
  simp only [sp, RelOp.sp, Prod.mk.injEq] at ht
  obtain ⟨hv, hty⟩ := ht
  rw [relLoop]
  have hn : relopNext c ⟨p, t :: tl⟩ = .ok (some (t.value, ⟨⟨t.pos, tl⟩, by simp⟩)) := by
    simp [relopNext, hr, hi]
  simp only [hn, bind, Except.bind, hv, relCmp_op]
  cases h : pAdd c ⟨t.pos, tl⟩ with
  | error e => simp
  | ok o1 =>
    obtain ⟨r, s2, h2⟩ := o1
    simp only [plain]
    cases h3 : relLoop c s2 r (acc ++ [funcCallAB o.fn lhs r t.pos]) with
    | error e => simp
    | ok o2 => simp [pure, Except.pure]

/-! ### `not`, `and`, `or` -/

theorem pNot_plain (c : Ctx) (p : Pos) (t : Token) (tl : List Token) (ht : sp t ≠ notSp) :
    plain (pNot c ⟨p, t :: tl⟩) = plain (pRel c ⟨p, t :: tl⟩) := by
  rw [pNot]
  have h1 : St.matchIf ⟨p, t :: tl⟩ c!"not" kw = none := by
    apply matchIf_cons_false
    simp only [sp, notSp, ne_eq, Prod.mk.injEq, not_and] at ht
    cases hv : St.tokIs t c!"not" kw with
    | false => rfl
    | true => simp [St.tokIs] at hv; exact absurd hv.2 (ht hv.1)
  simp [h1]

theorem pNot_step (c : Ctx) (p : Pos) (t : Token) (tl : List Token) (ht : sp t = notSp) :
    plain (pNot c ⟨p, t :: tl⟩) = (plain (pRel c ⟨t.pos, tl⟩)).map (fun r => (Node.not r.1 t.pos, r.2)) := by
  simp only [sp, notSp, Prod.mk.injEq] at ht
  obtain ⟨hv, hty⟩ := ht
  rw [pNot]
  have h1 : St.matchIf ⟨p, t :: tl⟩ c!"not" kw = some ⟨⟨t.pos, tl⟩, by simp⟩ :=
    matchIf_cons_true (by simp [St.tokIs, hv, hty])
  simp only [h1]
  cases h : pRel c ⟨t.pos, tl⟩ with
  | error e => simp [bind, Except.bind, Except.map]
  | ok o => simp [bind, Except.bind, Except.map, pure, Except.pure]

theorem pAnd_plain (c : Ctx) (st : St) :
    plain (pAnd c st) = (plain (pNot c st)).bind (fun r =>
      if r.2.peekn 1 c!"and" kw then
        (plainLe (andLoop c r.2 [r.1])).map (fun r2 => (Node.and r2.1 r.2.posNext, r2.2))
      else .ok r) := by
  rw [pAnd]
  cases h : pNot c st with
  | error e => simp [bind, Except.bind]
  | ok o =>
    obtain ⟨e, s1, h1⟩ := o
    simp only [bind, Except.bind, plain]
    cases hg : s1.peekn 1 c!"and" kw with
    | false => simp [pure, Except.pure]
    | true =>
      cases h2 : andLoop c s1 [e] with
      | error e => simp [Except.map]
      | ok o2 => simp [pure, Except.pure, Except.map]

theorem pOr_plain (c : Ctx) (st : St) :
    plain (pOr c st) = (plain (pAnd c st)).bind (fun r =>
      if r.2.peekn 1 c!"or" kw then
        (plainLe (orLoop c r.2 [r.1])).map (fun r2 => (Node.or r2.1 r.2.posNext, r2.2))
      else .ok r) := by
  rw [pOr]
  cases h : pAnd c st with
  | error e => simp [bind, Except.bind]
  | ok o =>
    obtain ⟨e, s1, h1⟩ := o
    simp only [bind, Except.bind, plain]
    cases hg : s1.peekn 1 c!"or" kw with
    | false => simp [pure, Except.pure]
    | true =>
      cases h2 : orLoop c s1 [e] with
      | error e => simp [Except.map]
      | ok o2 => simp [pure, Except.pure, Except.map]

theorem and_stop {q : Pos} {rest : List Token} (h : Follow 1 rest) :
    St.peekn ⟨q, rest⟩ 1 c!"and" kw = false ∧ St.matchIf ⟨q, rest⟩ c!"and" kw = none := by
  cases rest with
  | nil => exact ⟨peekn_nil _ _ _, rfl⟩
  | cons t tl =>
    simp only [Follow, stops, Bool.and_eq_true, Bool.or_eq_true, decide_eq_true_eq, Bool.not_eq_true'] at h
    obtain ⟨⟨_, h1⟩, _⟩ := h
    rcases h1 with h1 | h1
    · omega
    · exact ⟨by rw [peekn_cons]; exact h1, matchIf_cons_false h1⟩

theorem or_stop {q : Pos} {rest : List Token} (h : Follow 0 rest) :
    St.peekn ⟨q, rest⟩ 1 c!"or" kw = false ∧ St.matchIf ⟨q, rest⟩ c!"or" kw = none := by
  cases rest with
  | nil => exact ⟨peekn_nil _ _ _, rfl⟩
  | cons t tl =>
    simp only [Follow, stops, Bool.and_eq_true, Bool.or_eq_true, decide_eq_true_eq, Bool.not_eq_true'] at h
    obtain ⟨_, h1⟩ := h
    rcases h1 with h1 | h1
    · omega
    · exact ⟨by rw [peekn_cons]; exact h1, matchIf_cons_false h1⟩

theorem andLoop_stop (c : Ctx) (q : Pos) (rest : List Token) (acc : List Node) (h : Follow 1 rest) :
    plainLe (andLoop c ⟨q, rest⟩ acc) = .ok (acc, ⟨q, rest⟩) := by
  rw [andLoop]; simp [(and_stop h).2]

theorem orLoop_stop (c : Ctx) (q : Pos) (rest : List Token) (acc : List Node) (h : Follow 0 rest) :
    plainLe (orLoop c ⟨q, rest⟩ acc) = .ok (acc, ⟨q, rest⟩) := by
  rw [orLoop]; simp [(or_stop h).2]

theorem andLoop_step (c : Ctx) (p : Pos) (t : Token) (tl : List Token) (acc : List Node) (ht : sp t = andSp) :
    plainLe (andLoop c ⟨p, t :: tl⟩ acc) =
      (plain (pNot c ⟨t.pos, tl⟩)).bind (fun r => plainLe (andLoop c r.2 (acc ++ [r.1]))) := by
  simp only [sp, andSp, Prod.mk.injEq] at ht
  obtain ⟨hv, hty⟩ := ht
  rw [andLoop]
  have h1 : St.matchIf ⟨p, t :: tl⟩ c!"and" kw = some ⟨⟨t.pos, tl⟩, by simp⟩ :=
    matchIf_cons_true (by simp [St.tokIs, hv, hty])
  simp only [h1]
  cases h : pNot c ⟨t.pos, tl⟩ with
  | error e => simp [bind, Except.bind]
  | ok o1 =>
    obtain ⟨r, s2, h2⟩ := o1
    simp only [bind, Except.bind, plain]
    cases h3 : andLoop c s2 (acc ++ [r]) with
    | error e => simp
    | ok o2 => simp [pure, Except.pure]

theorem orLoop_step (c : Ctx) (p : Pos) (t : Token) (tl : List Token) (acc : List Node) (ht : sp t = orSp) :
    plainLe (orLoop c ⟨p, t :: tl⟩ acc) =
      (plain (pAnd c ⟨t.pos, tl⟩)).bind (fun r => plainLe (orLoop c r.2 (acc ++ [r.1]))) := by
  simp only [sp, orSp, Prod.mk.injEq] at ht
  obtain ⟨hv, hty⟩ := ht
  rw [orLoop]
  have h1 : St.matchIf ⟨p, t :: tl⟩ c!"or" kw = some ⟨⟨t.pos, tl⟩, by simp⟩ :=
    matchIf_cons_true (by simp [St.tokIs, hv, hty])
  simp only [h1]
  cases h : pAnd c ⟨t.pos, tl⟩ with
  | error e => simp [bind, Except.bind]
  | ok o1 =>
    obtain ⟨r, s2, h2⟩ := o1
    simp only [bind, Except.bind, plain]
    cases h3 : orLoop c s2 (acc ++ [r]) with
    | error e => simp
    | ok o2 => simp [pure, Except.pure]

/-! ### from `parse_or_expr` up to `parse` -/

/-- a first token with which an operator expression can start: no string (it could be the info text
    of a `def`) and none of the keywords that start another kind of statement / expression -/
def exprHead (t : Token) : Bool :=
  t.type != .string && (t.type != .keyword || t.value == c!"not")

theorem exprHead_kw {t : Token} (h : exprHead t = true) {v : List Char} (hv : v ≠ c!"not") :
    St.tokIs t v kw = false := by
  simp only [exprHead, Bool.and_eq_true, Bool.or_eq_true, bne_iff_ne, ne_eq, beq_iff_eq] at h
  simp only [St.tokIs, Bool.and_eq_false_iff, beq_eq_false_iff_ne, ne_eq]
  rcases h.2 with h2 | h2
  · exact Or.inr h2
  · exact Or.inl (by rw [h2]; exact fun h => hv h.symm)

theorem pExpression_plain (c : Ctx) (p : Pos) (t : Token) (tl : List Token) (ht : exprHead t = true) :
    plain (pExpression c ⟨p, t :: tl⟩) = plain (pOr c ⟨p, t :: tl⟩) := by
  rw [pExpression]
  simp [matchIf_cons_false (exprHead_kw ht (v := c!"if") (by decide))]

theorem pStatement_plain (c : Ctx) (p : Pos) (t : Token) (tl : List Token) (ht : exprHead t = true) :
    plain (pStatement c ⟨p, t :: tl⟩) = plain (pOr c ⟨p, t :: tl⟩) := by
  rw [← pExpression_plain c p t tl ht, pStatement]
  have hstr : t.type ≠ .string := by
    simp only [exprHead, Bool.and_eq_true, bne_iff_ne, ne_eq] at ht; exact ht.1
  have htc : takeComment ⟨p, t :: tl⟩ = ([], ⟨⟨p, t :: tl⟩, Nat.le_refl _⟩) := by
    simp [takeComment, hstr]
  generalize takeComment ⟨p, t :: tl⟩ = tc at htc ⊢
  subst htc
  simp [St.hasNext, matchIf_cons_false (exprHead_kw ht (v := c!"require") (by decide)),
    matchIf_cons_false (exprHead_kw ht (v := c!"def") (by decide)),
    matchIf_cons_false (exprHead_kw ht (v := c!"for") (by decide)),
    matchIf_cons_false (exprHead_kw ht (v := c!"while") (by decide))]

/-- a bare block that consists of one operator expression, followed by the end of the input or
    by a token other than `;` -/
theorem pBareBlock_of_or (c : Ctx) (b : Bool) (p : Pos) (t : Token) (tl : List Token) (n : Node) (q : Pos)
    (rest : List Token) (ht : exprHead t = true)
    (hor : plain (pOr c ⟨p, t :: tl⟩) = .ok (n, ⟨q, rest⟩))
    (hrest : ∀ t2 tl2, rest = t2 :: tl2 → St.tokIs t2 c!";" ip = false) :
    plain (pBareBlock c b ⟨p, t :: tl⟩) = .ok (n, ⟨q, rest⟩) := by
  rw [← pStatement_plain c p t tl ht] at hor
  obtain ⟨hl, hs⟩ := plain_eq_ok hor
  rw [pBareBlock]
  have hdo : St.peekn ⟨p, t :: tl⟩ 1 c!"do" kw = false := by
    rw [peekn_cons]; exact exprHead_kw ht (by decide)
  cases rest with
  | nil => simp [hdo, hs, St.hasNext, bind, Except.bind, pure, Except.pure]
  | cons t2 tl2 =>
    have hsemi : St.matchIf ⟨q, t2 :: tl2⟩ c!";" ip = none := matchIf_cons_false (hrest t2 tl2 rfl)
    have hloop : bareLoop c ⟨q, t2 :: tl2⟩ [n] = .ok ⟨[n], ⟨q, t2 :: tl2⟩, Nat.le_refl _⟩ := by
      rw [bareLoop]; simp [hsemi]
    simp [hdo, hs, St.hasNext, bind, Except.bind, pure, Except.pure, hloop, simplifyBlock]

/-- `Node`s that `parse` returns unchanged (no trailing `return` to unwrap) -/
def plainNode : Node → Bool
  | .block .. => false
  | .ret .. => false
  | _ => true

theorem unwrapReturn_of_plainNode {n : Node} (h : plainNode n = true) : unwrapReturn n = n := by
  cases n <;> simp [plainNode] at h <;> rfl

theorem plainNode_erase (n : Node) : plainNode (erase n) = plainNode n := by
  cases n <;> simp [plainNode, erase]

/-- the whole token list is one operator expression -/
theorem parseWith_of_or (validRe : List Char → Bool) (file : String) (t : Token) (tl : List Token) (n : Node)
    (q : Pos) (ht : exprHead t = true) (hn : plainNode n = true)
    (hor : plain (pOr ⟨endPosOf file (t :: tl), validRe⟩ ⟨t.pos, t :: tl⟩) = .ok (n, ⟨q, []⟩)) :
    parseWith validRe file (t :: tl) = .ok n := by
  have hb := pBareBlock_of_or ⟨endPosOf file (t :: tl), validRe⟩ true t.pos t tl n q [] ht hor
    (by intro t2 tl2 h; cases h)
  obtain ⟨hl, hb⟩ := plain_eq_ok hb
  simp [parseWith, parseCore, hb, unwrapReturn_of_plainNode hn]

end Ckl.C02P
