/-
  C20, end to end — `interpret_error_line`: the line that `Interpreter.interpret` reports for a syntax error, a
  runtime error or a stack-trace entry of a SOURCE TEXT is the line of a token of that text, as
  `C20.token_line_correct` defines it: one plus the number of line breaks before the offset at which the token
  starts (`TokenPos`, `Lemmas/E2EFront.lean`).

  Composition of
    * `Proofs/C20Lexer.lean`   `token_line_correct`, `token_start`, `error_line_correct`   (scanner),
    * `Proofs/C14Parse.lean`   `positions_from_tokens`, `error_position_from_tokens`        (parser),
    * `Proofs/C20Eval.lean`    `error_pos_from_ast`, `value_pos_from_ast`, `state_pos_from_ast` (evaluator),
  with the bridge `mem_positions_bridge` between the `positions` of the parser proofs and of the evaluator proofs.

  The exceptions stated by `C20E.error_pos_from_ast` are carried as explicit disjuncts (`PosSource`):
    * an AST stored in the START STATE (a function defined by an earlier call: its positions are tokens of the
      EARLIER text — `session_error_line` follows them through a whole session of texts);
    * a module AST of the loader (`module_pos_line`: a token of the MODULE's text, under the module's file name, if
      the loader's module ASTs are `parseScript` of module texts — hypothesis `LoaderFromTexts`);
    * the positions `N` that the interpretation of the unmodelled built-ins may produce (`NativeRespects ld N`);
    * the default position `{}` (file `-`, line 1) with one of the messages `DefaultMsg`
      (`<name> is not defined` of `Environment.set`, `Unknown native <name>` of `bind_native`).
  `interpret_error_line_same_file` discharges them all when only the text itself can supply positions with the
  given file name.

  Not covered (stated, not refined): a syntax error raised DURING evaluation (`require` of a module whose text does
  not parse) is reported with the `SynErr` the loader holds for that module; nothing is proved about its line here.
-/
import CklVerif.Lemmas.E2EFront
import CklVerif.Lemmas.E2EPos
import CklVerif.Proofs.C20Eval
namespace Ckl.E2E
open Ckl Ckl.C20E

/-- where a position reported by `interpret` on the text `src` can come from -/
def PosSource (ld : Loader) (src : List Char) (file : String) (s : State) (N : Pos → Prop) (q : Pos) : Prop :=
  TokenPos src file q ∨ q ∈ s.positions ∨ q ∈ ld.positions ∨ N q

/-! ### from the AST of the text to the tokens of the text -/

/-- the text without tokens evaluates to `NULL` (or the model runs out of fuel): never an error -/
theorem interpretProg_null (ld : Loader) (fuel : Nat) (senv : EnvId) (p : Pos) (s : State) :
    interpretProg ld fuel senv (.null p) s = .ok .null s ∨ interpretProg ld fuel senv (.null p) s = .fail .oof s := by
  unfold interpretProg
  rw [bind_def]
  cases fuel with
  | zero => right; unfold Ckl.eval; rfl
  | succ k => left; unfold Ckl.eval; rfl

theorem eval_null (ld : Loader) (fuel : Nat) (senv : EnvId) (p : Pos) (s : State) :
    eval ld fuel senv (.null p) s = .ok .null s ∨ eval ld fuel senv (.null p) s = .fail .oof s := by
  cases fuel with
  | zero => right; unfold Ckl.eval; rfl
  | succ k => left; unfold Ckl.eval; rfl

/-- `Origin` (of `C20E.error_pos_from_ast`) for the AST of a text: the AST's positions are tokens of the text -/
theorem posSource_of_origin {ld : Loader} {src : List Char} {file : String} {s : State} {N : Pos → Prop} {toks : List Token}
    {ast : Node} (hs : Lexer.scan src file = .ok toks) (hp : Parser.parse file toks = .ok ast) (hne : toks ≠ [])
    {q : Pos} (h : Origin ld ast s N q) : PosSource ld src file s N q := by
  rcases h with h | h | h | h
  · rcases ast_pos_tokenPos hs hp q ((mem_positions_bridge ast q).1 h) with h1 | ⟨h1, _⟩
    · exact Or.inl h1
    · exact absurd h1 hne
  · exact Or.inr (Or.inl h)
  · exact Or.inr (Or.inr (Or.inl h))
  · exact Or.inr (Or.inr (Or.inr h))

/-! ### the evaluator part, for `Interpreter.interpret` on an AST -/

/-- `C20E.error_pos_from_ast` + `C20E.value_pos_from_ast` for `interpretProg`: the error `interpret` raises itself
    for a stray `break` / `continue` carries the position of the `break` / `continue` node -/
theorem interpretProg_origin {ld : Loader} {N : Pos → Prop} (hsem : NativeRespects ld N) {fuel : Nat} {senv : EnvId}
    {ast : Node} {s s' : State} {v : RVal} {m : String} {p : Pos} {t : List (String × Pos)}
    (h : interpretProg ld fuel senv ast s = .err v m p t s') :
    (Origin ld ast s N p ∨ (p = {} ∧ DefaultMsg m)) ∧ (∀ e ∈ t, Origin ld ast s N e.2) ∧
      ∀ q ∈ s'.positions, Origin ld ast s N q := by
  rcases interpretProg_cases ld fuel senv ast s with ⟨_, _, _, _, _, h1⟩ | ⟨q, s1, h0, h1⟩ | ⟨q, s1, h0, h1⟩ |
    ⟨_, _, _, _, _, h0, h1⟩ | ⟨_, _, _, h1⟩
  · rw [h1] at h; cases h
  · rw [h1] at h; cases h
    have hst := state_pos_from_ast hsem fuel senv ast s
    rw [h0] at hst
    refine ⟨Or.inl (value_pos_from_ast hsem h0 p (by simp [RVal.positions])), ?_, hst⟩
    intro e he; cases he
  · rw [h1] at h; cases h
    have hst := state_pos_from_ast hsem fuel senv ast s
    rw [h0] at hst
    refine ⟨Or.inl (value_pos_from_ast hsem h0 p (by simp [RVal.positions])), ?_, hst⟩
    intro e he; cases he
  · rw [h1] at h; cases h; exact error_pos_from_ast hsem h0
  · rw [h1] at h; cases h

/-- the final state of `interpret`, whatever the outcome, holds only positions that come from the AST, the start
    state, the loader or the natives -/
theorem interpretProg_state_origin {ld : Loader} {N : Pos → Prop} (hsem : NativeRespects ld N) (fuel : Nat) (senv : EnvId)
    (ast : Node) (s : State) : ∀ q ∈ (finalState (interpretProg ld fuel senv ast s)).positions, Origin ld ast s N q := by
  have hst := state_pos_from_ast hsem fuel senv ast s
  rcases interpretProg_cases ld fuel senv ast s with ⟨_, _, h0, _, _, h1⟩ | ⟨q, s1, h0, h1⟩ | ⟨q, s1, h0, h1⟩ |
    ⟨_, _, _, _, _, h0, h1⟩ | ⟨_, _, h0, h1⟩ <;> (rw [h1]; rw [h0] at hst; exact hst)

/-! ### the flagship -/

/-- **interpret_error_line** (runtime errors and stack traces).  For every text, file name, loader whose unmodelled
    built-ins only produce positions from `N`, fuel, session frame and start state: when `interpret` ends with a
    runtime error, the reported position is
      * the position of a TOKEN of the text — its line is one plus the number of line breaks before the offset at
        which the token starts, its file is the file name —, or
      * a position stored in the start state, in a module AST of the loader, or one of `N`, or
      * the default position `{}` together with one of the two kinds of message `DefaultMsg`;
    and every stack-trace entry carries a position of one of the first four kinds; so does every position stored
    in the final state. -/
theorem interpret_error_line {ld : Loader} {N : Pos → Prop} (hsem : NativeRespects ld N) {fuel : Nat} {senv : EnvId}
    {src : List Char} {file : String} {s s' : State} {v : RVal} {m : String} {p : Pos} {t : List (String × Pos)}
    (h : interpretSource ld fuel senv src file s = .err v m p t s') :
    (PosSource ld src file s N p ∨ (p = {} ∧ DefaultMsg m)) ∧ (∀ e ∈ t, PosSource ld src file s N e.2) ∧
      ∀ q ∈ s'.positions, PosSource ld src file s N q := by
  rcases parseScript_cases src file with ⟨e, _, hp⟩ | ⟨toks, e, _, _, hp⟩ | ⟨toks, ast, hs, hpa, hp⟩
  · rw [interpretSource_error hp] at h; cases h
  · rw [interpretSource_error hp] at h; cases h
  · rw [interpretSource_ok hp] at h
    by_cases hne : toks = []
    · subst hne
      have : ast = .null ⟨file, 1, 1⟩ := by
        have h0 : Parser.parse file [] = .ok (Node.null ⟨file, 1, 1⟩) := rfl
        rw [h0] at hpa; exact (Except.ok.inj hpa).symm
      subst this
      rcases interpretProg_null ld fuel senv ⟨file, 1, 1⟩ s with h1 | h1 <;> (rw [h1] at h; cases h)
    · obtain ⟨h1, h2, h3⟩ := interpretProg_origin hsem h
      exact ⟨h1.imp (posSource_of_origin hs hpa hne) id, fun e he => posSource_of_origin hs hpa hne (h2 e he),
        fun q hq => posSource_of_origin hs hpa hne (h3 q hq)⟩

/-- **interpret_syntax_error_line**.  When `interpret` ends with a syntax error, either
      * the FRONT END rejected the text: nothing was evaluated, the error names the file, and its line is the line
        `ScanErrorAt` describes (scanner: the line of the offending character, or of the start of the offending
        number literal — `C20.error_line_correct`) or the line of a TOKEN of the text (parser), or
      * the text was accepted and the syntax error was raised during its evaluation (`require` of a module that does
        not parse): the error is the one the evaluation of the AST ends with. -/
theorem interpret_syntax_error_line {ld : Loader} {fuel : Nat} {senv : EnvId} {src : List Char} {file : String}
    {s s' : State} {e : SynErr} (h : interpretSource ld fuel senv src file s = .fail (.syn e) s') :
    (parseScript src file = .error e ∧ s' = s ∧ e.pos.file = file ∧
      ((Lexer.scan src file = .error e ∧ ScanErrorAt src file e) ∨
       (∃ toks, Lexer.scan src file = .ok toks ∧ Parser.parse file toks = .error e ∧ TokenPos src file e.pos))) ∨
    (∃ ast, parseScript src file = .ok ast ∧ interpretProg ld fuel senv ast s = .fail (.syn e) s') := by
  rcases parseScript_cases src file with ⟨e', hs, hp⟩ | ⟨toks, e', hs, hpa, hp⟩ | ⟨toks, ast, hs, hpa, hp⟩
  · rw [interpretSource_error hp] at h; cases h
    have hat := scanErrorAt_of_scan hs
    obtain ⟨_, _, _, _, _, _, _, hfile, _⟩ := hat
    exact Or.inl ⟨hp, rfl, hfile, Or.inl ⟨hs, scanErrorAt_of_scan hs⟩⟩
  · rw [interpretSource_error hp] at h; cases h
    have ht := parse_error_tokenPos hs hpa
    exact Or.inl ⟨hp, rfl, ht.file_eq, Or.inr ⟨toks, hs, hpa, ht⟩⟩
  · rw [interpretSource_ok hp] at h
    exact Or.inr ⟨ast, hp, h⟩

/-- **interpret_error_line_same_file**: if nothing but the text itself can supply a position with the file name
    `file` — the file name is not the default `-`; the start state, the module ASTs and the natives hold no position
    with that file name — then every reported position (error, stack-trace entries) WHOSE FILE IS `file` is the
    position of a token of the text: its line is the line on which that token starts. -/
theorem interpret_error_line_same_file {ld : Loader} {N : Pos → Prop} (hsem : NativeRespects ld N) {fuel : Nat}
    {senv : EnvId} {src : List Char} {file : String} {s s' : State} {v : RVal} {m : String} {p : Pos}
    {t : List (String × Pos)} (hfile : file ≠ "-") (hst : ∀ q ∈ s.positions, q.file ≠ file)
    (hld : ∀ q ∈ ld.positions, q.file ≠ file) (hN : ∀ q, N q → q.file ≠ file)
    (h : interpretSource ld fuel senv src file s = .err v m p t s') :
    (p.file = file → TokenPos src file p) ∧ ∀ e ∈ t, e.2.file = file → TokenPos src file e.2 := by
  obtain ⟨h1, h2, _⟩ := interpret_error_line hsem h
  have key : ∀ q, PosSource ld src file s N q → q.file = file → TokenPos src file q := by
    intro q hq hf
    rcases hq with h | h | h | h
    · exact h
    · exact absurd hf (hst q h)
    · exact absurd hf (hld q h)
    · exact absurd hf (hN q h)
  refine ⟨fun hf => ?_, fun e he hf => key e.2 (h2 e he) hf⟩
  rcases h1 with h1 | ⟨rfl, _⟩
  · exact key p h1 hf
  · exact absurd hf.symm hfile

/-- on a fresh interpreter, without modules, with the driver's interpretation of the unmodelled built-ins: the
    reported position is a token of the text (or `{}` with one of the `DefaultMsg` messages), and so is every
    stack-trace entry -/
theorem interpret_error_line_fresh {fuel : Nat} {senv : EnvId} {src : List Char} {file : String} {s s' : State} {v : RVal}
    {m : String} {p : Pos} {t : List (String × Pos)} (hs : s.positions = [])
    (h : interpretSource ({} : Loader) fuel senv src file s = .err v m p t s') :
    (TokenPos src file p ∨ (p = {} ∧ DefaultMsg m)) ∧ ∀ e ∈ t, TokenPos src file e.2 := by
  obtain ⟨h1, h2, _⟩ := interpret_error_line (default_nativeRespects (fun _ => False)) h
  have key : ∀ q, PosSource {} src file s (fun _ => False) q → TokenPos src file q := by
    intro q hq
    rcases hq with h | h | h | h
    · exact h
    · rw [hs] at h; cases h
    · cases h
    · exact h.elim
  exact ⟨h1.imp (key p) id, fun e he => key e.2 (h2 e he)⟩

/-! ### errors inside module code -/

/-- the hypothesis on the loader: every module AST it holds is `parseScript` of a module text under a module
    file name (`mods`: the texts and file names) -/
def LoaderFromTexts (ld : Loader) (mods : List (List Char × String)) : Prop :=
  ∀ kv ∈ ld.bundled ++ ld.user, ∀ ast, kv.2 = .ok ast → ∃ tf ∈ mods, parseScript tf.1 tf.2 = .ok ast

/-- `q` is the position of a token of one of the module texts (file: that module's file name), or the start
    `⟨mfile, 1, 1⟩` of a module text without tokens (the position of its `null` AST) -/
def ModulePos (mods : List (List Char × String)) (q : Pos) : Prop :=
  ∃ tf ∈ mods, TokenPos tf.1 tf.2 q ∨ (parseScript tf.1 tf.2 = .ok (.null ⟨tf.2, 1, 1⟩) ∧ q = ⟨tf.2, 1, 1⟩)

theorem ModulePos.file {mods : List (List Char × String)} {q : Pos} (h : ModulePos mods q) : ∃ tf ∈ mods, q.file = tf.2 := by
  obtain ⟨tf, htf, h | ⟨_, rfl⟩⟩ := h
  · exact ⟨tf, htf, h.file_eq⟩
  · exact ⟨tf, htf, rfl⟩

/-- **module_pos_line**: a position stored in a module AST of the loader names the MODULE's file and is a token
    of the MODULE's text -/
theorem module_pos_line {ld : Loader} {mods : List (List Char × String)} (hld : LoaderFromTexts ld mods) {q : Pos}
    (hq : q ∈ ld.positions) : ModulePos mods q := by
  unfold Loader.positions at hq
  obtain ⟨kv, hkv, hmem⟩ := List.mem_flatMap.mp hq
  cases hr : kv.2 with
  | error e => rw [hr] at hmem; cases hmem
  | ok ast =>
    rw [hr] at hmem
    obtain ⟨tf, htf, hparse⟩ := hld kv hkv ast hr
    refine ⟨tf, htf, ?_⟩
    rcases parseScript_cases tf.1 tf.2 with ⟨e, _, hp⟩ | ⟨toks, e, _, _, hp⟩ | ⟨toks, ast', hs, hpa, hp⟩
    · rw [hp] at hparse; cases hparse
    · rw [hp] at hparse; cases hparse
    · rw [hp] at hparse; cases hparse
      rcases ast_pos_tokenPos hs hpa q ((mem_positions_bridge ast q).1 hmem) with h1 | ⟨_, h2, h3⟩
      · exact Or.inl h1
      · subst h2; exact Or.inr ⟨hp, h3⟩

/-- **interpret_error_line_module**: with a loader whose module ASTs come from module texts, on an interpreter
    whose state holds no positions yet, natives that produce none: the position of a runtime error (and of every
    stack-trace entry) is a token of the TEXT (file `file`), or a token of a MODULE's text (file: the module's file
    name; or the start of a module text without tokens), or `{}` with a `DefaultMsg` message. -/
theorem interpret_error_line_module {ld : Loader} (hsem : NativeRespects ld (fun _ => False))
    {mods : List (List Char × String)} (hld : LoaderFromTexts ld mods) {fuel : Nat} {senv : EnvId} {src : List Char}
    {file : String} {s s' : State} {v : RVal} {m : String} {p : Pos} {t : List (String × Pos)} (hs : s.positions = [])
    (h : interpretSource ld fuel senv src file s = .err v m p t s') :
    (TokenPos src file p ∨ ModulePos mods p ∨ (p = {} ∧ DefaultMsg m)) ∧
      ∀ e ∈ t, TokenPos src file e.2 ∨ ModulePos mods e.2 := by
  obtain ⟨h1, h2, _⟩ := interpret_error_line hsem h
  have key : ∀ q, PosSource ld src file s (fun _ => False) q → TokenPos src file q ∨ ModulePos mods q := by
    intro q hq
    rcases hq with h | h | h | h
    · exact Or.inl h
    · rw [hs] at h; cases h
    · exact Or.inr (module_pos_line hld h)
    · exact h.elim
  refine ⟨?_, fun e he => key e.2 (h2 e he)⟩
  rcases h1 with h1 | h1
  · rcases key p h1 with h | h
    · exact Or.inl h
    · exact Or.inr (Or.inl h)
  · exact Or.inr (Or.inr h1)

/-- an error position whose file is a module's file name, different from the text's, from `-` and from the
    other modules' file names, is a token of THAT module's text (or its start, if the text has no tokens) -/
theorem error_in_module_code {ld : Loader} (hsem : NativeRespects ld (fun _ => False))
    {mods : List (List Char × String)} (hld : LoaderFromTexts ld mods) {fuel : Nat} {senv : EnvId} {src : List Char}
    {file : String} {s s' : State} {v : RVal} {m : String} {p : Pos} {t : List (String × Pos)} (hs : s.positions = [])
    (h : interpretSource ld fuel senv src file s = .err v m p t s') {mtext : List Char} {mfile : String}
    (hpf : p.file = mfile) (hne : mfile ≠ file) (hdash : mfile ≠ "-")
    (huniq : ∀ tf ∈ mods, tf.2 = mfile → tf = (mtext, mfile)) :
    TokenPos mtext mfile p ∨ (parseScript mtext mfile = .ok (.null ⟨mfile, 1, 1⟩) ∧ p = ⟨mfile, 1, 1⟩) := by
  rcases (interpret_error_line_module hsem hld hs h).1 with h1 | ⟨tf, htf, h1⟩ | ⟨rfl, _⟩
  · exact absurd (hpf.symm.trans h1.file_eq) hne
  · have hf : tf.2 = mfile := by
      rcases h1 with h1 | ⟨_, rfl⟩
      · exact h1.file_eq.symm.trans hpf
      · exact hpf
    have := huniq tf htf hf
    subst this
    exact h1
  · exact absurd hpf.symm hdash

/-! ### sessions: positions stored by earlier calls are tokens of the earlier texts -/

/-- `q` is a token of one of the texts -/
def SessionPos (texts : List (List Char)) (file : String) (q : Pos) : Prop := ∃ src ∈ texts, TokenPos src file q

/-- the invariant of a session: every position stored in the state is a token of one of the texts interpreted so
    far, or was in the initial state, or comes from the loader / the natives -/
theorem session_state_positions {ld : Loader} {N : Pos → Prop} (hsem : NativeRespects ld N) (fuel : Nat) (senv : EnvId)
    (file : String) :
    ∀ (texts : List (List Char)) (s0 s' : State), runSessionSrc ld fuel senv file texts s0 = some s' →
      ∀ q ∈ s'.positions, SessionPos texts file q ∨ q ∈ s0.positions ∨ q ∈ ld.positions ∨ N q := by
  intro texts
  induction texts with
  | nil => intro s0 s' h q hq; cases h; exact Or.inr (Or.inl hq)
  | cons src rest ih =>
    intro s0 s' h q hq
    simp only [runSessionSrc] at h
    cases hn : nextState (interpretSource ld fuel senv src file s0) with
    | none => rw [hn] at h; cases h
    | some s1 =>
      rw [hn] at h
      have hs1 := (nextState_eq_some hn).1
      -- the positions of `s1`
      have h1 : ∀ q ∈ s1.positions, TokenPos src file q ∨ q ∈ s0.positions ∨ q ∈ ld.positions ∨ N q := by
        intro q hq
        rw [hs1] at hq
        rcases parseScript_cases src file with ⟨e, _, hp⟩ | ⟨toks, e, _, _, hp⟩ | ⟨toks, ast, hs, hpa, hp⟩
        · rw [interpretSource_error hp] at hq; exact Or.inr (Or.inl hq)
        · rw [interpretSource_error hp] at hq; exact Or.inr (Or.inl hq)
        · rw [interpretSource_ok hp] at hq
          by_cases hne : toks = []
          · subst hne
            have : ast = .null ⟨file, 1, 1⟩ := by
              have h0 : Parser.parse file [] = .ok (Node.null ⟨file, 1, 1⟩) := rfl
              rw [h0] at hpa; exact (Except.ok.inj hpa).symm
            subst this
            rcases interpretProg_null ld fuel senv ⟨file, 1, 1⟩ s0 with h1 | h1 <;>
              (rw [h1] at hq; exact Or.inr (Or.inl hq))
          · exact posSource_of_origin hs hpa hne (interpretProg_state_origin hsem fuel senv ast s0 q hq)
      rcases ih s1 s' h q hq with ⟨t, ht, h2⟩ | h2 | h2 | h2
      · exact Or.inl ⟨t, List.mem_cons_of_mem _ ht, h2⟩
      · rcases h1 q h2 with h3 | h3
        · exact Or.inl ⟨src, List.mem_cons_self .., h3⟩
        · exact Or.inr h3
      · exact Or.inr (Or.inr (Or.inl h2))
      · exact Or.inr (Or.inr (Or.inr h2))

/-- **session_error_line**: after any session of texts on an interpreter that started without stored positions
    (no modules, natives producing no positions), a runtime error of a further text is reported at a TOKEN OF ONE OF
    THE TEXTS of the session — the failing text itself, or the earlier text that defined the failing function —,
    on the line on which that token starts in ITS text (or at `{}` with a `DefaultMsg` message); likewise every
    stack-trace entry. -/
theorem session_error_line {fuel : Nat} {senv : EnvId} {file : String} {texts : List (List Char)} {src : List Char}
    {s0 s1 s' : State} {v : RVal} {m : String} {p : Pos} {t : List (String × Pos)} (hs0 : s0.positions = [])
    (hrun : runSessionSrc ({} : Loader) fuel senv file texts s0 = some s1)
    (h : interpretSource ({} : Loader) fuel senv src file s1 = .err v m p t s') :
    (SessionPos (texts ++ [src]) file p ∨ (p = {} ∧ DefaultMsg m)) ∧ ∀ e ∈ t, SessionPos (texts ++ [src]) file e.2 := by
  have hinv := session_state_positions (default_nativeRespects (fun _ => False)) fuel senv file texts s0 s1 hrun
  obtain ⟨h1, h2, _⟩ := interpret_error_line (default_nativeRespects (fun _ => False)) h
  have key : ∀ q, PosSource {} src file s1 (fun _ => False) q → SessionPos (texts ++ [src]) file q := by
    intro q hq
    rcases hq with h | h | h | h
    · exact ⟨src, by simp, h⟩
    · rcases hinv q h with ⟨x, hx, h3⟩ | h3 | h3 | h3
      · exact ⟨x, by simp [hx], h3⟩
      · rw [hs0] at h3; cases h3
      · cases h3
      · exact h3.elim
    · cases h
    · exact h.elim
  exact ⟨h1.imp (key p) id, fun e he => key e.2 (h2 e he)⟩

/-! ### non-vacuity -/

namespace Ex20
def st0 : State × EnvId := initialState true modelledNatives
def run (src : String) : Out RVal := interpretSource {} 100 st0.2 src.toList "t.ckl" st0.1

-- a runtime error on line 3 of a 3-line text; no stack trace
#guard (match run "def x = 1;\n# a comment\nx + undefined_name" with
  | .err _ m p t _ => m == "Symbol 'undefined_name' not defined" && p.line == 3 && p.file == "t.ckl" && t.isEmpty
  | _ => false)
-- an error on line 2 inside a function called on line 4: position line 2, one trace entry at line 4
#guard (match run "def f(x) do\n  error x;\nend;\nf(42)" with
  | .err (.int 42) _ p t _ => p.line == 2 && t.map (fun e => (e.1, e.2.line)) == [("f", 4)]
  | _ => false)
-- a syntax error of the parser on line 2, of the scanner on line 3
#guard (match run "1;\n)" with | .fail (.syn e) _ => e.pos.line == 2 && e.pos.file == "t.ckl" | _ => false)
#guard (match run "1;\n2;\n0x" with | .fail (.syn e) _ => e.pos.line == 3 | _ => false)
-- the one-frame state `C20E.st1` meets the hypothesis of `interpret_error_line_fresh` / `session_error_line`
theorem st1_positions : C20E.st1.positions = [] := rfl
-- `DefaultMsg`: assignment through `Environment.set` — here the default position `{}` (file `-`) is reported
-- a session: the function is defined by the first text (3 lines), called by the third; the error is reported on
-- line 2 — a line of the FIRST text — and the trace entry on line 1 of the third
#guard (match runSessionSrc {} 100 st0.2 "t.ckl" ["def f(x) do\n  error x;\nend".toList, "1 +".toList] st0.1 with
  | some s1 => (match interpretSource {} 100 st0.2 "f(7)".toList "t.ckl" s1 with
    | .err (.int 7) _ p t _ => p.line == 2 && t.map (fun e => (e.1, e.2.line)) == [("f", 1)]
    | _ => false)
  | none => false)

/-- a module whose text is `error 12` on line 2 of the module file `mod:m.ckl` -/
def modText : List Char := ['\n', 'e', 'r', 'r', 'o', 'r', ' ', '1', '2']
def ldMod : Loader :=
  { user := [("m.ckl", parseScript modText "mod:m.ckl")] }
-- `require m` on line 1 of the text: the error names the module file and line 2 of the MODULE's text
#guard (match interpretSource ldMod 100 st0.2 "require m".toList "t.ckl" st0.1 with
  | .err (.int 12) _ p _ _ => p.file == "mod:m.ckl" && p.line == 2
  | _ => false)
theorem ldMod_fromTexts : LoaderFromTexts ldMod [(modText, "mod:m.ckl")] := by
  intro kv hkv ast hast
  simp only [ldMod, List.nil_append, List.mem_singleton] at hkv
  subst hkv
  exact ⟨_, List.mem_singleton.mpr rfl, hast⟩
theorem ldMod_respects : NativeRespects ldMod (fun _ => False) :=
  nativeRespects_of_abstains (fun name _ _ => ⟨"native " ++ name, rfl⟩)
example {fuel senv src file s s' v m p t} (hs : s.positions = [])
    (h : interpretSource ldMod fuel senv src file s = .err v m p t s') :
    (TokenPos src file p ∨ ModulePos [(modText, "mod:m.ckl")] p ∨ (p = {} ∧ DefaultMsg m)) ∧
      ∀ e ∈ t, TokenPos src file e.2 ∨ ModulePos [(modText, "mod:m.ckl")] e.2 :=
  interpret_error_line_module ldMod_respects ldMod_fromTexts hs h

/-- the text `x` on line 2 (`⏎x`): the theorem applied to a concrete run (character list: the kernel does not
    reduce `String.toList`) -/
def tx2 : List Char := ['\n', 'x']
theorem tx2_scan : Lexer.scanWithOffsets tx2 "f" = .ok [(⟨['x'], .identifier, ⟨"f", 2, 1⟩⟩, 1)] := by
  with_unfolding_all rfl
example : TokenPos tx2 "f" ⟨"f", 2, 1⟩ := tokenPos_of_mem tx2_scan (List.mem_singleton.mpr rfl)
example {fuel senv s' v m p t} (h : interpretSource {} fuel senv tx2 "f" C20E.st1 = .err v m p t s') :
    (TokenPos tx2 "f" p ∨ (p = {} ∧ DefaultMsg m)) ∧ ∀ e ∈ t, TokenPos tx2 "f" e.2 :=
  interpret_error_line_fresh st1_positions h
-- … and that run does end with a runtime error, on line 2
#guard (match interpretSource {} 5 0 tx2 "f" C20E.st1 with | .err _ _ p _ _ => p.line == 2 | _ => false)
end Ex20

end Ckl.E2E
