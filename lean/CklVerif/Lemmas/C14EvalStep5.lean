import CklVerif.Lemmas.C14EvalStep4

/-! C14 (evaluator part) — induction steps: `for`, `require` -/
namespace Ckl.C14E
open Ckl
set_option linter.unusedVariables false

variable {ld : Loader} {fuel : Nat}

theorem evalFor_step1 (ih : SAll ld fuel) (env : EnvId) (ids : List String) (e body : Node) (what : String) (p p' : Pos) :
    Resp (evalFor ld (fuel + 1) env ids e body what p) (evalFor ld (fuel + 1) env ids (ers e) (ers body) what p') := by
  ih_intro ih
  unfold Ckl.evalFor
  resp!


theorem Resp.modifyS_comm {f : State → State} (h : ∀ t, ers (f t) = f (ers t)) : Resp (Ckl.modifyS f) (Ckl.modifyS f) := by
  apply Resp.modifyS
  intro t t' ht
  rw [h, h, ht]

theorem loadModule_step1 (ih : SAll ld fuel) (env : EnvId) (ident modulefile : String) (p p' : Pos) :
    Resp (loadModule ld (fuel + 1) env ident modulefile p) (loadModule ld (fuel + 1) env ident modulefile p') := by
  ih_intro ih
  unfold Ckl.loadModule
  apply Resp.getS_bind
  intro s s' hs
  have hmod : s.modules = s'.modules := by rw [modules_obs s, modules_obs s', hs]
  simp only [hmod]
  resp!
  apply Resp.modifyS_comm
  intro t
  rfl


theorem foldl_congr_ers {γ : Type} (f f' : State → γ → State)
    (hf : ∀ t t' n, ers t = ers t' → ers (f t n) = ers (f' t' n)) (l : List γ) :
    ∀ t t', ers t = ers t' → ers (l.foldl f t) = ers (l.foldl f' t') := by
  induction l with
  | nil => intro t t' h; exact h
  | cons x l ih => intro t t' h; exact ih _ _ (hf t t' x h)

theorem evalRequire_step1 (ih : SAll ld fuel) (env : EnvId) (spec : Node) (name : Option String) (unq : Bool)
    (syms : Option (List (String × String))) (p p' : Pos) :
    Resp (evalRequire ld (fuel + 1) env spec name unq syms p) (evalRequire ld (fuel + 1) env (ers spec) name unq syms p') := by
  ih_intro ih
  unfold Ckl.evalRequire
  apply Resp.bind
  · cases spec <;> simp only [ers_simp] <;> resp!
  · intro ms ms' hms
    simp only [ers_id] at hms
    subst hms
    extract_lets modulefile last ident modulename
    clear_value modulefile last ident modulename
    apply Resp.getS_bind
    intro s s' hs
    have hst : s.modstack = s'.modstack := by rw [modstack_obs s, modstack_obs s', hs]
    simp only [hst]
    resp!
    · apply Resp.modifyS_comm; intro t; rfl
    · rename_i pop _ _ _ _ _ _
      constructor
      intro s1 s1' hs1
      have h := (ih.loadModule env ident modulefile (p := p) (p' := p')).run s1 s1' hs1
      have hpop : ∀ t t', ers t = ers t' → ers (pop t) = ers (pop t') := by
        intro t t' ht
        exact congrArg (fun u : State => ({ u with modstack := u.modstack.dropLast } : State)) ht
      show ers (match loadModule ld fuel env ident modulefile p s1 with
        | .ok e s2 => (Out.ok e (pop s2) : Out EnvId) | .err v m p t s2 => Out.err v m p t (pop s2)
        | .fail f s2 => Out.fail f (pop s2)) =
        ers (match loadModule ld fuel env ident modulefile p' s1' with
        | .ok e s2 => (Out.ok e (pop s2) : Out EnvId) | .err v m p t s2 => Out.err v m p t (pop s2)
        | .fail f s2 => Out.fail f (pop s2))
      generalize loadModule ld fuel env ident modulefile p s1 = o at h ⊢
      generalize loadModule ld fuel env ident modulefile p' s1' = o' at h ⊢
      rcases Out.sim_cases h with ⟨a, a', s2, s2', rfl, rfl, h1, h2⟩ |
        ⟨v, v', m, q, q', t, t', s2, s2', rfl, rfl, h1, h2, h3⟩ | ⟨f, f', s2, s2', rfl, rfl, h1, h2⟩
      · simp only [ers_ok, hpop _ _ h2]; exact congrArg (fun x => Out.ok x _) h1
      · simp only [ers_err, h1, hpop _ _ h3, ers_trace h2]
      · simp only [ers_fail, h1, hpop _ _ h2]
    all_goals
      apply Resp.modifyS; intro t t' ht
      try simp only [ers_simp, obs_simp, *]
      apply foldl_congr_ers _ _ _ _ _ _ ht
      intro u u' n hu
      first | ers_tac | (split <;> ers_tac)

end Ckl.C14E
