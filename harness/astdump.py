"""Dump ckl ASTs and tokens in the S-expression format of lean/CklVerif/Driver/AstCodec.lean.

  node  ::= (TAG [@LINE:COL] field…)
  field ::= node | (L node…) | s:HEX | ~ | T | F | (N s:HEX…) | (O s:HEX|~ …) | (v VAL)
"""
from harness import proto


def s_(x):
    return "~" if x is None else "s:" + proto.enc_str(x)


def names(xs):
    return "(N" + "".join(" " + s_(x) for x in xs) + ")"


def optnames(xs):
    return "(O" + "".join(" " + s_(x) for x in xs) + ")"


def b_(x):
    return "T" if x else "F"


def lit_value(v):
    return "(v " + proto.to_sx(proto.from_ckl(v)) + ")"


def dump(node, wp=False):
    from ckl import nodes as N
    if node is None:
        return "~"
    d = lambda x: dump(x, wp)          # noqa
    L = lambda xs: "(L" + "".join(" " + dump(x, wp) for x in xs) + ")"   # noqa
    name = type(node).__name__

    def mk(tag, *fields):
        pos = ""
        if wp:
            p = node.pos
            pos = f" @{p.line}:{p.column}"
        return "(" + tag + pos + "".join(" " + f for f in fields) + ")"

    if name == "NodeNull":
        return mk("null")
    if name == "NodeLiteral":
        return mk("lit", lit_value(node.value))
    if name == "NodeIdentifier":
        return mk("id", s_(node.value))
    if name == "NodeAnd":
        return mk("and", L(node.expressions))
    if name == "NodeOr":
        return mk("or", L(node.expressions))
    if name == "NodeNot":
        return mk("not", d(node.expression))
    if name == "NodeAssign":
        return mk("assign", s_(node.identifier), d(node.expression))
    if name == "NodeAssignDestructuring":
        return mk("assignD", names(node.identifiers), d(node.expression))
    if name == "NodeBlock":
        errs = "(L" + "".join(" " + ("all" if e is None else dump(e, wp)) for e, _ in node.catchexprs) + ")"
        return mk("block", L(node.expressions), errs, L([h for _, h in node.catchexprs]), L(node.finallyexprs), b_(node.toplevel))
    if name == "NodeBreak":
        return mk("break")
    if name == "NodeContinue":
        return mk("continue")
    if name == "NodeClass":
        return mk("class", s_(node.identifier), L(node.members))
    if name == "NodeDef":
        return mk("def", s_(node.identifier), d(node.expression), s_(node.info))
    if name == "NodeDefDestructuring":
        return mk("defD", names(node.identifiers), d(node.expression), s_(node.info))
    if name == "NodeDeref":
        return mk("deref", d(node.expression), d(node.index), d(node.default_value))
    if name == "NodeDerefAssign":
        return mk("derefAssign", d(node.expression), d(node.index), d(node.value))
    if name == "NodeDerefInvoke":
        return mk("derefInvoke", d(node.objectExpr), s_(node.member), optnames(node.names), L(node.args))
    if name == "NodeDerefSlice":
        return mk("slice", d(node.expression), d(node.start), d(node.end))
    if name == "NodeError":
        return mk("error", d(node.expression))
    if name == "NodeFor":
        return mk("for", names(node.identifiers), d(node.expression), d(node.block), s_(node.what))
    if name == "NodeFuncall":
        return mk("call", d(node.func), optnames(node.names), L(node.args))
    if name == "NodeIf":
        return mk("if", L(node.conditions), L(node.expressions), d(node.elseExpression))
    if name == "NodeIn":
        return mk("in", d(node.expression), d(node.list))
    if name == "NodeLambda":
        return mk("lambda", names(node.args), L(node.defs), d(node.body))
    if name == "NodeList":
        return mk("list", L(node.items))
    if name in ("NodeListComprehension", "NodeSetComprehension", "NodeMapComprehension"):
        kind = {"NodeListComprehension": "list", "NodeSetComprehension": "set", "NodeMapComprehension": "map"}[name]
        key = d(node.keyExpr) if kind == "map" else "~"
        return mk("compr", kind, "single", d(node.valueExpr), key, s_(node.identifier), d(node.listExpr), s_(node.what),
                  s_(""), "~", "~", d(node.conditionExpr))
    if name in ("NodeListComprehensionProduct", "NodeListComprehensionParallel", "NodeSetComprehensionProduct", "NodeSetComprehensionParallel"):
        kind = "list" if "List" in name else "set"
        shape = "product" if name.endswith("Product") else "parallel"
        return mk("compr", kind, shape, d(node.valueExpr), "~", s_(node.identifier1), d(node.listExpr1), s_(node.what1),
                  s_(node.identifier2), d(node.listExpr2), s_(node.what2), d(node.conditionExpr))
    if name == "NodeMap":
        return mk("map", L(node.keys), L(node.values))
    if name == "NodeObject":
        return mk("object", names(node.keys), L(node.values))
    if name == "NodeRequire":
        syms = "~" if node.symbols is None else "(N" + "".join(f" {s_(a)} {s_(b)}" for a, b in node.symbols.items()) + ")"
        return mk("require", d(node.modulespec), s_(node.name), b_(node.unqualified), syms)
    if name == "NodeReturn":
        return mk("return", d(node.expression))
    if name == "NodeSet":
        return mk("set", L(node.items))
    if name == "NodeSpread":
        return mk("spread", d(node.expression))
    if name == "NodeWhile":
        return mk("while", d(node.expression), d(node.block))
    # a node class the model has no counterpart for (added to the implementation after the model was written): the driver answers `bad-ast`
    # for such a program, which the checks report as a broken correspondence — the property oracles still run on the implementation
    return "(unknownnode " + s_(name) + ")"


def dump_token(t):
    return f"(tok {t.type} s:{proto.enc_str(t.value)} {t.pos.line} {t.pos.column})"


def dump_tokens(tokens):
    return "".join(" " + dump_token(t) for t in tokens)
