import CklVerif.Gen.LibSrcCheck
import CklVerif.Proofs.C19Src
import CklVerif.Proofs.C18Src
import CklVerif.Proofs.C19SrcSet
import CklVerif.Proofs.C19SrcL1
import CklVerif.Proofs.C19SrcL1b
import CklVerif.Proofs.C19SrcL2
import CklVerif.Proofs.C19SrcL2b
import CklVerif.Proofs.C19SrcL3
import CklVerif.Proofs.C19SrcMapList
import CklVerif.Proofs.C19SrcD4
import CklVerif.Proofs.C19SrcD4Set
import CklVerif.Proofs.C16Src
/-! C16Src — registry of the C16 statements about library functions WRITTEN IN THE LANGUAGE: every theorem of the C19Src / C18Src
    families (about the regenerated ASTs of Gen/LibSrc.lean) whose statement includes
    `ExtBut a s s'` (exactly the documented argument `a` changed), freshness of the result cell (`s.heap.size ≤ b` /
    `.ref s.heap.size`), or `Ext s s'` (no argument, no frame, no other cell, no output changed); then the corollaries of
    Proofs/C16Src.lean that state them in C16's words. -/

-- the documented mutator: `ExtBut` — exactly the first argument of `append_all` changes
#print axioms Ckl.C19Src.append_all_src
#print axioms Ckl.C19Src.append_all_src_eq_mirror
#print axioms Ckl.C19Src.append_all_src_set

-- freshness of the result cell (and `Ext`: the arguments are unchanged)
#print axioms Ckl.C19Src.rest_src
#print axioms Ckl.C19Src.reverse_list_src
#print axioms Ckl.C19Src.reverse_list_src_eq_mirror
#print axioms Ckl.C19Src.intersection_src
#print axioms Ckl.C19Src.diff_src
#print axioms Ckl.C19Src.intersection_src_spec
#print axioms Ckl.C19Src.diff_src_spec
#print axioms Ckl.C19Src.union_src
#print axioms Ckl.C19Src.union_src_lists
#print axioms Ckl.C19Src.union_src_sets
#print axioms Ckl.C19Src.union_src_spec
#print axioms Ckl.C19Src.symmetric_diff_src
#print axioms Ckl.C19Src.symmetric_diff_src_spec
#print axioms Ckl.C19Src.union_example
#print axioms Ckl.C19Src.first_n_src
#print axioms Ckl.C19Src.first_n_src_take
#print axioms Ckl.C19Src.first_n_src_neg
#print axioms Ckl.C19Src.last_n_src
#print axioms Ckl.C19Src.last_n_src_drop
#print axioms Ckl.C19Src.last_n_src_zero
#print axioms Ckl.C19Src.last_n_src_neg
#print axioms Ckl.C19Src.reverse_src_list
#print axioms Ckl.C19Src.reverse_src_list_eq_mirror
#print axioms Ckl.C19Src.chunks_src_list
#print axioms Ckl.C19Src.chunks_src_eq_mirror
#print axioms Ckl.C19Src.filter_src_default
#print axioms Ckl.C19Src.filter_src_eq_mirror
#print axioms Ckl.C19Src.filter_src_is_not_null
#print axioms Ckl.C19Src.flatten_src
#print axioms Ckl.C19Src.flatten_src_no_list
#print axioms Ckl.C19Src.flatten_src_eq_mirror
#print axioms Ckl.C19Src.unique_src_ints
#print axioms Ckl.C19Src.unique_src_eq_mirror
#print axioms Ckl.C19Src.libState_union_aux_D4
#print axioms Ckl.C19Src.libState_symmetric_diff_aux_D4
#print axioms Ckl.C19Src.libState_union_D4
#print axioms Ckl.C19Src.libState_symmetric_diff_D4
#print axioms Ckl.C19Src.pairs_src_list
#print axioms Ckl.C19Src.chunks_src_string
#print axioms Ckl.C19Src.chunks_src_string_eq_mirror
#print axioms Ckl.C19Src.map_list_src
#print axioms Ckl.C19Src.map_list_src_native
#print axioms Ckl.C19Src.map_list_src_eq_mirror
#print axioms Ckl.C19Src.map_list_src_is_null

-- `Ext`: nothing that existed is changed (non-mutating library functions)
#print axioms Ckl.C19Src.def_creates_isSrc
#print axioms Ckl.C19Src.is_int_src
#print axioms Ckl.C19Src.is_decimal_src
#print axioms Ckl.C19Src.is_list_src
#print axioms Ckl.C19Src.is_numeric_src
#print axioms Ckl.C19Src.abs_src_int
#print axioms Ckl.C19Src.abs_src_eq_mirror
#print axioms Ckl.C19Src.abs_src_null
#print axioms Ckl.C19Src.sign_src_int
#print axioms Ckl.C19Src.sign_src_eq_mirror
#print axioms Ckl.C19Src.sign_src_null
#print axioms Ckl.C19Src.abs_src_not_numeric
#print axioms Ckl.C19Src.sign_src_not_numeric
#print axioms Ckl.C19Src.abs_call_node
#print axioms Ckl.C19Src.sign_call_node
#print axioms Ckl.C19Src.first_src
#print axioms Ckl.C19Src.first_src_empty
#print axioms Ckl.C19Src.first_src_null
#print axioms Ckl.C19Src.last_src
#print axioms Ckl.C19Src.last_src_empty
#print axioms Ckl.C19Src.last_src_null
#print axioms Ckl.C19Src.is_even_src_int
#print axioms Ckl.C19Src.is_even_src_eq_mirror
#print axioms Ckl.C19Src.is_odd_src_int
#print axioms Ckl.C19Src.is_even_src_not_numeric
#print axioms Ckl.C19Src.is_odd_src_not_numeric
#print axioms Ckl.C19Src.is_zero_src
#print axioms Ckl.C19Src.is_negative_src
#print axioms Ckl.C19Src.is_positive_src
#print axioms Ckl.C19Src.non_empty_src
#print axioms Ckl.C19Src.const_src
#print axioms Ckl.C19Src.non_zero_src_partial
#print axioms Ckl.C19Src.reverse_list_src_not_list
#print axioms Ckl.C19Src.gcd_src_int
#print axioms Ckl.C19Src.gcd_src_eq_mirror
#print axioms Ckl.C19Src.loaded_gcd
#print axioms Ckl.C19Src.loaded_abs
#print axioms Ckl.C19Src.reduce_src_ints
#print axioms Ckl.C19Src.reduce_src_eq_mirror
#print axioms Ckl.C19Src.reduce_src_empty
#print axioms Ckl.C19Src.reduce_src_null
#print axioms Ckl.C19Src.prod_src_ints
#print axioms Ckl.C19Src.prod_src_eq_mirror
#print axioms Ckl.C19Src.for_each_src
#print axioms Ckl.C19Src.for_each_src_native
#print axioms Ckl.C19Src.for_each_src_closure
#print axioms Ckl.C19Src.reverse_src_string
#print axioms Ckl.C19Src.reverse_src_string_eq_mirror
#print axioms Ckl.C19Src.reverse_src_error
#print axioms Ckl.C19Src.loaded_reverse
#print axioms Ckl.C19Src.any_src_default
#print axioms Ckl.C19Src.any_src_default_eq_mirror
#print axioms Ckl.C19Src.all_src_default
#print axioms Ckl.C19Src.all_src_default_eq_mirror
#print axioms Ckl.C19Src.any_src_native
#print axioms Ckl.C19Src.all_src_native
#print axioms Ckl.C19Src.chunks_src_nonpositive
#print axioms Ckl.C19Src.sign_src_dec
#print axioms Ckl.C19Src.sign_src_dec_numerator
#print axioms Ckl.C19Src.abs_src_dec_nonneg
#print axioms Ckl.C19Src.abs_src_dec_numerator
#print axioms Ckl.C19Src.libState_abs_D4
#print axioms Ckl.C19Src.libState_sign_dec_D4
#print axioms Ckl.C19Src.libState_union_example_aux_D4
#print axioms Ckl.C19Src.libState_union_example_D4
#print axioms Ckl.C19Src.lcm_src_int
#print axioms Ckl.C19Src.lcm_src_eq_mirror
#print axioms Ckl.C19Src.lcm_src_zero_zero
#print axioms Ckl.C19Src.lcm_src_zero_zero_div0
#print axioms Ckl.C19Src.first_src_not_list
#print axioms Ckl.C19Src.last_src_not_list
#print axioms Ckl.C18Src.reverse_src
#print axioms Ckl.C18Src.reverse_src_eq_mirror
#print axioms Ckl.C18Src.reverse_src_not_string
#print axioms Ckl.C18Src.reverse_src_involutive
#print axioms Ckl.C18Src.join_src_general
#print axioms Ckl.C18Src.join_src
#print axioms Ckl.C18Src.join_src_eq_mirror
#print axioms Ckl.C18Src.join_split_src
#print axioms Ckl.C18Src.join_src_ints
#print axioms Ckl.C18Src.join_src_swapped
#print axioms Ckl.C18Src.q_src
#print axioms Ckl.C18Src.replace_src
#print axioms Ckl.C18Src.replace_src_spec
#print axioms Ckl.C18Src.replace_src_default
#print axioms Ckl.C18Src.replace_src_empty_pattern
#print axioms Ckl.C18Src.replace_src_null
#print axioms Ckl.C18Src.esc_src
#print axioms Ckl.C18Src.loaded_replace_reverse

-- the corollaries in C16's words (Proofs/C16Src.lean)
#print axioms Ckl.C16Src.nothingModified_of_ext
#print axioms Ckl.C16Src.modifiesExactly_of_extBut
#print axioms Ckl.C16Src.fresh_of_le
#print axioms Ckl.C16Src.reverse_list_does_not_modify_its_argument
#print axioms Ckl.C16Src.rest_returns_fresh_cell
#print axioms Ckl.C16Src.reduce_does_not_modify_its_arguments
#print axioms Ckl.C16Src.gcd_does_not_modify_anything
#print axioms Ckl.C16Src.join_does_not_modify_its_arguments
#print axioms Ckl.C16Src.replace_does_not_modify_anything
#print axioms Ckl.C16Src.union_does_not_modify_its_arguments
#print axioms Ckl.C16Src.intersection_does_not_modify_its_arguments
#print axioms Ckl.C16Src.diff_does_not_modify_its_arguments
#print axioms Ckl.C16Src.symmetric_diff_does_not_modify_its_arguments
#print axioms Ckl.C16Src.first_n_returns_fresh_cell
#print axioms Ckl.C16Src.reverse_returns_fresh_cell
#print axioms Ckl.C16Src.chunks_returns_fresh_cells
#print axioms Ckl.C16Src.pairs_returns_fresh_cells
#print axioms Ckl.C16Src.map_list_returns_fresh_cell
#print axioms Ckl.C16Src.filter_returns_fresh_cell
#print axioms Ckl.C16Src.append_all_changes_exactly_its_first_argument
#print axioms Ckl.C16Src.append_all_set_changes_exactly_its_first_argument
