import CklVerif.Proofs.DriverNatives

#print axioms Ckl.DN.HeapExt.spec
#print axioms Ckl.DN.StrictPureSem.pure
#print axioms Ckl.DN.driverNativeSem_pure
#print axioms Ckl.DN.driverNativeSem_error_value
#print axioms Ckl.DN.driverNativeSem_strict
#print axioms Ckl.DN.driverNativeSemScalar_strict
#print axioms Ckl.DN.driverNativeSemScalar_agrees
#print axioms Ckl.DN.gpost_of_pure
#print axioms Ckl.DN.nativeBalanced_of_pure
#print axioms Ckl.DN.nativeKeepsModstack_of_pure
#print axioms Ckl.DN.nativeKeepsModules_of_pure
#print axioms Ckl.DN.nativeKeepsSecure_of_pure
#print axioms Ckl.DN.nativeClean_of_pure
#print axioms Ckl.DN.nativeRespects_of_pure
#print axioms Ckl.DN.no_host_of_pure
#print axioms Ckl.DN.sessionLoader_pure
#print axioms Ckl.DN.libLoader_pure
#print axioms Ckl.DN.allNativeHyps_of_pure
#print axioms Ckl.DN.sessionLoader_hyps
#print axioms Ckl.DN.libLoader_hyps
