import CklVerif.Lemmas.C19SrcCall

/-! C19Src — the environment hypothesis `LibEnv`, state extension `Ext`, lookups from a callee frame -/
namespace Ckl.C19Src
open Ckl Ckl.C03

/-! ### the parts of a generated `def name(params) body` node -/

def lamParams : Node → List String
  | .defn _ (.lambda ps _ _ _) _ _ => ps
  | _ => []
def lamDefaults : Node → List Node
  | .defn _ (.lambda _ ds _ _) _ _ => ds
  | _ => []
def lamBody : Node → Node
  | .defn _ (.lambda _ _ b _) _ _ => b
  | _ => .absent
def defName : Node → String
  | .defn n _ _ _ => n
  | _ => ""

/-- `v` is a function value made from the definition `src` (its parameter list, defaults and body), closed over frame `m`:
    exactly what evaluating the node `src` in frame `m` creates (`eval_defn` below) -/
def IsSrc (s : State) (v : RVal) (src : Node) (m : EnvId) : Prop :=
  ∃ a nm, v = .closure a ∧ s.cell a = some (.closure m (lamParams src) (lamDefaults src) (lamBody src) nm)

/-- the name `x`, looked up from the module frame `m`, is `v`: bound in `m` itself, or not bound in `m` and bound in
    its parent, the base frame 0 -/
def Res (s : State) (m : EnvId) (x : String) (v : RVal) : Prop :=
  dictGet x (s.frame m).vars = some v ∨
  (dictGet x (s.frame m).vars = none ∧ (s.frame m).parent = some 0 ∧ dictGet x (s.frame 0).vars = some v)

/-- The environment hypothesis of the C19Src theorems.  `M` is a set of module frames; from every one of them
    * each name in `nats` resolves to the built-in of the same name,
    * each `(name, src)` in `srcs` resolves to a function value made from the generated definition `src`, closed over a
      frame that is again in `M`. -/
structure LibEnv (s : State) (M : EnvId → Prop) (nats : List String) (srcs : List (String × Node)) : Prop where
  lt : ∀ m, M m → m < s.frames.size
  null : ∀ m, M m → Res s m "NULL" .null
  nat : ∀ m, M m → ∀ x ∈ nats, ∃ i, Res s m x (.native x i)
  src : ∀ m, M m → ∀ p ∈ srcs, ∃ v m', Res s m p.1 v ∧ M m' ∧ IsSrc s v p.2 m'

theorem LibEnv.weaken {s M nats srcs nats' srcs'} (h : LibEnv s M nats srcs)
    (hn : ∀ x ∈ nats', x ∈ nats) (hs : ∀ p ∈ srcs', p ∈ srcs) : LibEnv s M nats' srcs' :=
  ⟨h.lt, h.null, fun m hm x hx => h.nat m hm x (hn x hx), fun m hm p hp => h.src m hm p (hs p hp)⟩

/-! ### extension of a state: nothing that existed is touched -/

structure Ext (s s' : State) : Prop where
  fsize : s.frames.size ≤ s'.frames.size
  frame : ∀ i, i < s.frames.size → s'.frame i = s.frame i
  hsize : s.heap.size ≤ s'.heap.size
  cell : ∀ a, a < s.heap.size → s'.cell a = s.cell a
  out : s'.out = s.out

theorem Ext.refl (s : State) : Ext s s := ⟨Nat.le_refl _, fun _ _ => rfl, Nat.le_refl _, fun _ _ => rfl, rfl⟩

theorem Ext.trans {a b c : State} (h1 : Ext a b) (h2 : Ext b c) : Ext a c :=
  ⟨Nat.le_trans h1.fsize h2.fsize,
   fun i hi => by rw [h2.frame i (Nat.lt_of_lt_of_le hi h1.fsize), h1.frame i hi],
   Nat.le_trans h1.hsize h2.hsize,
   fun x hx => by rw [h2.cell x (Nat.lt_of_lt_of_le hx h1.hsize), h1.cell x hx],
   by rw [h2.out, h1.out]⟩

theorem frame_newEnv_old (s : State) (p : EnvId) {f : Nat} (h : f < s.frames.size) :
    ((s.newEnv p).1.frame f) = s.frame f := by
  have h' : f ≠ s.frames.size := Nat.ne_of_lt h
  simp [State.newEnv, State.frame, Array.getD_eq_getD_getElem?, Array.getElem?_push, h']

theorem frame_newEnv_new (s : State) (p : EnvId) :
    ((s.newEnv p).1.frame s.frames.size) = { vars := [], parent := some p } := by
  simp [State.newEnv, State.frame, Array.getD_eq_getD_getElem?, Array.getElem?_push]

theorem frames_size_newEnv (s : State) (p : EnvId) : (s.newEnv p).1.frames.size = s.frames.size + 1 := by
  simp [State.newEnv]

theorem Ext.newEnv {s s' : State} (h : Ext s s') (p : EnvId) : Ext s (s'.newEnv p).1 :=
  h.trans ⟨by rw [frames_size_newEnv]; omega, fun i hi => frame_newEnv_old s' p hi, Nat.le_refl _, fun _ _ => rfl, rfl⟩

theorem Ext.put {s s' : State} (h : Ext s s') {c : EnvId} (hc : s.frames.size ≤ c) (x : String) (v : RVal) :
    Ext s (s'.put c x v) :=
  ⟨by rw [frames_size_put]; exact h.fsize,
   fun i hi => by rw [frame_put_other s' x v (by omega), h.frame i hi],
   h.hsize, fun a ha => h.cell a ha, h.out⟩

theorem Ext.remove {s s' : State} (h : Ext s s') {c : EnvId} (hc : s.frames.size ≤ c) (x : String) :
    Ext s (s'.remove c x) := by
  refine ⟨?_, fun i hi => ?_, h.hsize, fun a ha => h.cell a ha, h.out⟩
  · simp [State.remove]; exact h.fsize
  · rw [← h.frame i hi]
    have hci : c ≠ i := Nat.ne_of_gt (Nat.lt_of_lt_of_le hi hc)
    simp [State.remove, State.frame, Array.getD_eq_getD_getElem?, Array.getElem?_modify, hci]

theorem Ext.alloc {s s' : State} (h : Ext s s') (c : Cell) : Ext s (s'.alloc c).1 :=
  h.trans ⟨Nat.le_refl _, fun _ _ => rfl, by simp [State.alloc],
    fun a ha => by simp [State.alloc, State.cell, Array.getElem?_push, Nat.ne_of_lt ha], rfl⟩

theorem Ext.setCell {s s' : State} (h : Ext s s') {a : Nat} (ha : s.heap.size ≤ a) (c : Cell) :
    Ext s (s'.setCell a c) :=
  ⟨h.fsize, h.frame, by simp [State.setCell]; exact h.hsize,
   fun b hb => by
     rw [← h.cell b hb]
     simp [State.setCell, State.cell, Array.getElem?_setIfInBounds, show a ≠ b by omega], h.out⟩

theorem Ext.ghostEnter {s s' : State} (h : Ext s s') (p : Pos) : Ext s (ghostEnter s' p) :=
  ⟨h.fsize, h.frame, h.hsize, h.cell, h.out⟩
theorem Ext.ghostFin {s s' : State} (h : Ext s s') (p : Pos) : Ext s (ghostFin s' p) :=
  ⟨h.fsize, h.frame, h.hsize, h.cell, h.out⟩

theorem Res.lt {s m x v} (h : Res s m x v) : m < s.frames.size := by
  refine Nat.lt_of_not_le (fun hc => ?_)
  have : s.frame m = {} := frame_of_ge s hc
  rcases h with h | ⟨_, h, _⟩ <;> rw [this] at h <;> cases h

theorem Res.ext {s s' m x v} (h : Res s m x v) (e : Ext s s') : Res s' m x v := by
  have hm := h.lt
  rcases h with h | ⟨h1, h2, h3⟩
  · left; rw [e.frame m hm]; exact h
  · right
    have h0 : 0 < s.frames.size := by
      refine Nat.lt_of_not_le (fun hc => ?_)
      have : s.frame 0 = {} := frame_of_ge s hc
      rw [this] at h3; cases h3
    rw [e.frame m hm, e.frame 0 h0]; exact ⟨h1, h2, h3⟩

theorem IsSrc.ext {s s' v src m} (h : IsSrc s v src m) (e : Ext s s') : IsSrc s' v src m := by
  obtain ⟨a, nm, hv, hc⟩ := h
  have ha : a < s.heap.size := by
    refine Nat.lt_of_not_le (fun hn => ?_)
    simp [State.cell, Array.getElem?_eq_none hn] at hc
  exact ⟨a, nm, hv, by rw [e.cell a ha]; exact hc⟩

theorem LibEnv.ext {s s' M nats srcs} (h : LibEnv s M nats srcs) (e : Ext s s') : LibEnv s' M nats srcs :=
  ⟨fun m hm => Nat.lt_of_lt_of_le (h.lt m hm) e.fsize, fun m hm => (h.null m hm).ext e, fun m hm x hx => let ⟨i, hi⟩ := h.nat m hm x hx; ⟨i, hi.ext e⟩,
   fun m hm p hp => let ⟨v, m', h1, h2, h3⟩ := h.src m hm p hp; ⟨v, m', h1.ext e, h2, h3.ext e⟩⟩

/-! ### the callee frame -/

/-- frame `c` is a call frame: its parent is the module frame `m`, its variables are `vars` -/
structure CallFrame (s : State) (c m : EnvId) (vars : List (String × RVal)) : Prop where
  vars : (s.frame c).vars = vars
  parent : (s.frame c).parent = some m
  lt : m < c

theorem CallFrame.ext {s s' c m vars} (h : CallFrame s c m vars) (hc : c < s.frames.size) (e : Ext s s') :
    CallFrame s' c m vars := by
  refine ⟨?_, ?_, h.lt⟩
  · rw [e.frame c hc]; exact h.vars
  · rw [e.frame c hc]; exact h.parent

theorem lookup_local {s c m vars x v} (h : CallFrame s c m vars) (hx : dictGet x vars = some v) :
    s.lookup c x = some v := by
  unfold State.lookup
  rw [State.lookupF]; simp only [h.vars, hx]

theorem lookupF_res {s m x v} (h : Res s m x v) : ∀ n, 2 ≤ n → s.lookupF n m x = some v := by
  intro n hn
  obtain ⟨n, rfl⟩ : ∃ k, n = k + 2 := ⟨n - 2, by omega⟩
  rcases h with h | ⟨h1, h2, h3⟩
  · rw [State.lookupF]; simp only [h]
  · rw [State.lookupF]; simp only [h1, h2]; rw [State.lookupF]; simp only [h3]

theorem lookup_global {s c m vars x v} (h : CallFrame s c m vars) (hx : dictGet x vars = none) (hr : Res s m x v) :
    s.lookup c x = some v := by
  unfold State.lookup
  rw [State.lookupF]; simp only [h.vars, hx, h.parent]
  have h2 : (m : Nat) < (c : Nat) := h.lt
  have hc : (c : Nat) < s.frames.size := by
    refine Nat.lt_of_not_le (fun hc => ?_)
    have := h.parent
    rw [frame_of_ge s hc] at this; cases this
  exact lookupF_res hr _ (Nat.le_trans (Nat.succ_le_succ (Nat.le_trans (Nat.succ_le_succ (Nat.zero_le m)) h2)) hc)

theorem calleeState_ext (s : State) (m : EnvId) (bound : List (String × RVal)) (ps : List String) :
    Ext s (calleeState s m ps bound) := by
  unfold calleeState
  suffices ∀ (st : State), Ext s st → Ext s (ps.foldl (fun st p => match dictGet p bound with
      | some v => st.put s.frames.size p v | none => st) st) from this _ ((Ext.refl s).newEnv m)
  induction ps with
  | nil => intro st h; exact h
  | cons p ps ih =>
    intro st h
    rw [List.foldl_cons]
    apply ih
    cases dictGet p bound with
    | none => exact h
    | some v => exact h.put (Nat.le_refl _) p v

theorem calleeState_frame1 (s : State) {m : EnvId} (hm : m < s.frames.size) (p : String) (v : RVal) :
    CallFrame (calleeState s m [p] [(p, v)]) s.frames.size m [(p, v)] := by
  have hlt : s.frames.size < (s.newEnv m).1.frames.size := by rw [frames_size_newEnv]; omega
  refine ⟨?_, ?_, hm⟩
  · simp only [calleeState, List.foldl_cons, List.foldl_nil, dictGet, if_true]
    rw [vars_put_same _ _ _ hlt, frame_newEnv_new]; rfl
  · simp only [calleeState, List.foldl_cons, List.foldl_nil, dictGet, if_true]
    rw [parent_put, frame_newEnv_new]

theorem calleeState_frame2 (s : State) {m : EnvId} (hm : m < s.frames.size) (p q : String) (x y : RVal) (hne : p ≠ q) :
    CallFrame (calleeState s m [p, q] [(p, x), (q, y)]) s.frames.size m [(p, x), (q, y)] := by
  have hlt : s.frames.size < (s.newEnv m).1.frames.size := by rw [frames_size_newEnv]; omega
  have hqp : ¬ q = p := fun h => hne h.symm
  refine ⟨?_, ?_, hm⟩
  · simp only [calleeState, List.foldl_cons, List.foldl_nil, dictGet, if_true, hqp, if_false]
    rw [vars_put_same _ _ _ (by rw [frames_size_put]; exact hlt), vars_put_same _ _ _ hlt, frame_newEnv_new]
    simp [dictPut, hqp]
  · simp only [calleeState, List.foldl_cons, List.foldl_nil, dictGet, if_true, hqp, if_false]
    rw [parent_put, parent_put, frame_newEnv_new]

theorem calleeState_size (s : State) (m : EnvId) (bound : List (String × RVal)) (ps : List String) :
    (calleeState s m ps bound).frames.size = s.frames.size + 1 := by
  unfold calleeState
  suffices ∀ (st : State), st.frames.size = s.frames.size + 1 → (ps.foldl (fun st p => match dictGet p bound with
      | some v => st.put s.frames.size p v | none => st) st).frames.size = s.frames.size + 1 from
    this _ (frames_size_newEnv s m)
  induction ps with
  | nil => intro st h; exact h
  | cons p ps ih =>
    intro st h
    rw [List.foldl_cons]
    apply ih
    cases dictGet p bound with
    | none => exact h
    | some v => rw [frames_size_put]; exact h

theorem calleeState_heap (s : State) (m : EnvId) (bound : List (String × RVal)) (ps : List String) :
    (calleeState s m ps bound).heap = s.heap := by
  unfold calleeState
  suffices ∀ (st : State), st.heap = s.heap → (ps.foldl (fun st p => match dictGet p bound with
      | some v => st.put s.frames.size p v | none => st) st).heap = s.heap from this _ rfl
  induction ps with
  | nil => intro st h; exact h
  | cons p ps ih =>
    intro st h
    rw [List.foldl_cons]
    apply ih
    cases dictGet p bound with
    | none => exact h
    | some v => exact h

theorem typeName_heap {s s' : State} (h : s'.heap = s.heap) (v : RVal) : typeName s' v = typeName s v := by
  cases v <;> simp [typeName, State.cell, h]

/-! ### the context of a function body -/

/-- in state `s` the library environment holds, `m ∈ M`, and frame `c` is a call frame under `m` with variables `vars` -/
structure Ctx (s : State) (M : EnvId → Prop) (nats : List String) (srcs : List (String × Node))
    (c m : EnvId) (vars : List (String × RVal)) : Prop where
  env : LibEnv s M nats srcs
  mem : M m
  fr : CallFrame s c m vars
  clt : c < s.frames.size

theorem Ctx.ext {s s' M nats srcs c m vars} (h : Ctx s M nats srcs c m vars) (e : Ext s s') :
    Ctx s' M nats srcs c m vars :=
  ⟨h.env.ext e, h.mem, h.fr.ext h.clt e, Nat.lt_of_lt_of_le h.clt e.fsize⟩

theorem Ctx.var {s M nats srcs c m vars x v} (h : Ctx s M nats srcs c m vars) (hv : dictGet x vars = some v) :
    s.lookup c x = some v := lookup_local h.fr hv

theorem Ctx.null {s M nats srcs c m vars} (h : Ctx s M nats srcs c m vars) (hv : dictGet "NULL" vars = none) :
    s.lookup c "NULL" = some .null := lookup_global h.fr hv (h.env.null m h.mem)

theorem Ctx.nat {s M nats srcs c m vars x} (h : Ctx s M nats srcs c m vars) (hx : x ∈ nats)
    (hv : dictGet x vars = none) : ∃ i, s.lookup c x = some (.native x i) :=
  let ⟨i, hi⟩ := h.env.nat m h.mem x hx; ⟨i, lookup_global h.fr hv hi⟩

theorem Ctx.src {s M nats srcs c m vars x src} (h : Ctx s M nats srcs c m vars) (hx : (x, src) ∈ srcs)
    (hv : dictGet x vars = none) : ∃ fn m', s.lookup c x = some fn ∧ M m' ∧ IsSrc s fn src m' :=
  let ⟨fn, m', h1, h2, h3⟩ := h.env.src m h.mem (x, src) hx; ⟨fn, m', lookup_global h.fr hv h1, h2, h3⟩

theorem Ctx.callee1 {s M nats srcs m} (h : LibEnv s M nats srcs) (hm : M m) (p : String) (v : RVal) :
    Ctx (calleeState s m [p] [(p, v)]) M nats srcs s.frames.size m [(p, v)] :=
  ⟨h.ext (calleeState_ext ..), hm, calleeState_frame1 s (h.lt m hm) p v, by rw [calleeState_size]; exact Nat.lt_succ_self _⟩

theorem Ctx.callee2 {s M nats srcs m} (h : LibEnv s M nats srcs) (hm : M m) (p q : String) (x y : RVal) (hne : p ≠ q) :
    Ctx (calleeState s m [p, q] [(p, x), (q, y)]) M nats srcs s.frames.size m [(p, x), (q, y)] :=
  ⟨h.ext (calleeState_ext ..), hm, calleeState_frame2 s (h.lt m hm) p q x y hne, by rw [calleeState_size]; exact Nat.lt_succ_self _⟩

end Ckl.C19Src
