import CklVerif.Proofs.C09
#print axioms Ckl.C09.table_sound
#print axioms Ckl.C09.no_unguarded_instantiation
#print axioms Ckl.C09.modules_bind_known
#print axioms Ckl.C09.bindNative_secure
#print axioms Ckl.C09.secure_invariant
