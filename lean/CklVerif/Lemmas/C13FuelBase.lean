import CklVerif.Model.Eval

/-!
  C13Fuel helper library: the information order on outcomes in which "out of fuel" is the bottom
  element (`Out.isOof`, `FLe`), its closure under the monad operations of `EvalM`, and the
  decomposition tactic `fmono`.

  `FLe m₁ m₂` : in every state, `m₁` either runs out of fuel or ends in exactly the outcome of `m₂`.
-/
namespace Ckl

/-- the outcome is "out of fuel" -/
def Out.isOof {α} : Out α → Prop
  | .fail .oof _ => True
  | _ => False

/-- the same as a Boolean (for `decide` / `#guard`) -/
def Out.oofB {α} : Out α → Bool
  | .fail .oof _ => true
  | _ => false

theorem Out.isOof_iff_oofB {α} (o : Out α) : o.isOof ↔ o.oofB = true := by
  cases o with
  | ok => exact ⟨fun h => h.elim, fun h => Bool.noConfusion h⟩
  | err => exact ⟨fun h => h.elim, fun h => Bool.noConfusion h⟩
  | fail f s => cases f <;> first | exact ⟨fun _ => rfl, fun _ => trivial⟩ | exact ⟨fun h => h.elim, fun h => Bool.noConfusion h⟩

instance {α} (o : Out α) : Decidable o.isOof := decidable_of_iff _ (Out.isOof_iff_oofB o).symm

@[simp] theorem Out.isOof_oof {α} (s : State) : (Out.fail .oof s : Out α).isOof := trivial
@[simp] theorem Out.isOof_ok {α} (a : α) (s : State) : ¬ (Out.ok a s).isOof := fun h => h
@[simp] theorem Out.isOof_err {α} (v m p t) (s : State) : ¬ (Out.err v m p t s : Out α).isOof := fun h => h
@[simp] theorem Out.isOof_unsupported {α} (w) (s : State) : ¬ (Out.fail (.unsupported w) s : Out α).isOof :=
  fun h => h
@[simp] theorem Out.isOof_syn {α} (e) (s : State) : ¬ (Out.fail (.syn e) s : Out α).isOof := fun h => h
@[simp] theorem Out.isOof_host {α} (k) (s : State) : ¬ (Out.fail (.host k) s : Out α).isOof := fun h => h

theorem Out.isOof_iff {α} (o : Out α) : o.isOof ↔ ∃ s, o = .fail .oof s := by
  constructor
  · intro h
    cases o with
    | ok => exact h.elim
    | err => exact h.elim
    | fail f s => cases f <;> first | exact ⟨s, rfl⟩ | exact h.elim
  · rintro ⟨s, rfl⟩; trivial

/-- `o₁ ⊑ o₂`: `o₁` is out of fuel, or the two outcomes are identical -/
def Out.le {α} (o₁ o₂ : Out α) : Prop := o₁.isOof ∨ o₁ = o₂

theorem Out.le_refl {α} (o : Out α) : o.le o := Or.inr rfl
theorem Out.le_oof {α} (s : State) (o : Out α) : (Out.fail .oof s : Out α).le o := Or.inl trivial

/-- `m₁ ⊑ m₂` pointwise -/
structure FLe {α} (m₁ m₂ : EvalM α) : Prop where
  le : ∀ s, (m₁ s).le (m₂ s)

namespace FLe

theorem refl {α} (m : EvalM α) : FLe m m := ⟨fun _ => Out.le_refl _⟩

theorem oof {α} (m : EvalM α) : FLe (failM .oof) m := ⟨fun s => Out.le_oof s _⟩

theorem bind {α β} {m₁ m₂ : EvalM α} {f₁ f₂ : α → EvalM β} (hm : FLe m₁ m₂) (hf : ∀ a, FLe (f₁ a) (f₂ a)) :
    FLe (m₁ >>= f₁) (m₂ >>= f₂) := by
  constructor
  intro s
  show Out.le (EvalM.bind' m₁ f₁ s) (EvalM.bind' m₂ f₂ s)
  unfold EvalM.bind'
  rcases hm.le s with h | h
  · left
    cases hr : m₁ s with
    | ok => rw [hr] at h; exact h.elim
    | err => rw [hr] at h; exact h.elim
    | fail f s' => rw [hr] at h; cases f <;> first | trivial | exact h.elim
  · rw [← h]
    cases m₁ s with
    | ok a s' => exact (hf a).le s'
    | err => exact Or.inr rfl
    | fail => exact Or.inr rfl

theorem ofFun {α} {f g : State → Out α} (h : ∀ s, (f s).le (g s)) : FLe (f : EvalM α) g := ⟨h⟩

end FLe

/-- one decomposition step for goals `FLe (do …) (do …)` whose two sides differ only in the fuel -/
macro "fmono_step" : tactic => `(tactic| first
  | (with_reducible exact FLe.refl _)
  | apply_assumption (exfalso := false) (symm := false)
  | (exfalso; apply_assumption (exfalso := false) (symm := false); rfl)
  | apply FLe.bind
  | intro _
  | split
  | dsimp only)

macro "fmono" : tactic => `(tactic| repeat' fmono_step)

end Ckl

namespace Ckl

theorem Out.le_trans {α} {o₁ o₂ o₃ : Out α} (h₁ : o₁.le o₂) (h₂ : o₂.le o₃) : o₁.le o₃ := by
  rcases h₁ with h | h
  · exact Or.inl h
  · rw [h]; exact h₂

/-- a post-processing of the outcome that keeps "out of fuel" is monotone -/
theorem Out.le_wrap {α β} (W : Out α → Out β) (hW : ∀ s, (W (.fail .oof s)).isOof) {o₁ o₂ : Out α}
    (h : o₁.le o₂) : (W o₁).le (W o₂) := by
  rcases h with h | h
  · obtain ⟨s', h⟩ := (Out.isOof_iff _).1 h
    rw [h]; exact Or.inl (hW s')
  · rw [h]; exact Out.le_refl _

/-- pointwise use of one induction hypothesis under a post-processing `match` -/
macro "fwrap " h:term : tactic => `(tactic| (
  refine FLe.ofFun (fun s1 => ?_)
  try dsimp only
  rcases ($h).le s1 with h | h
  · left; obtain ⟨s', h⟩ := (Out.isOof_iff _).1 h; rw [h]; trivial
  · rw [h]; exact Out.le_refl _))

end Ckl
