"""C05 Errors reach the nearest matching handler and finally runs exactly once."""
from harness import progcheck
from harness.props import common

IO = "require IO; "


def law_cases():
    """error / finally laws with the result the property's rules give, on forms the generated programs do not reach:
    exits evaluated in a finally part while an error is in flight, errors raised in loops over input streams, comprehensions, arguments"""
    cases = [
        # an unmatched error continues outward unchanged, whatever the finally part evaluates
        ("def f() do do error 5 finally return 1 end end; do f() catch 5 'caught' end", ('text', "'caught'")),
        ("def f() do do error 5 catch 6 0 finally return 1 end end; do f() catch all 'c' end", ('text', "'c'")),
        ("def f() do do error 5 catch 5 error 7 finally return 1 end end; do f() catch 7 'seven' end", ('text', "'seven'")),
        ("def f() do do error [1, 2] finally return 1 end end; f()", ('error', "[1, 2]")),
        ("def n = 0; do for i in [1, 2, 3] do do error i finally break end end catch 1 n = 100 end; n", ('text', "100")),
        ("def n = 0; do for i in [1, 2, 3] do do error i finally continue end end catch 1 n = 100 end; n", ('text', "100")),
        ("def n = 0; do while TRUE do do error 'w' finally break end end catch 'w' n = 7 end; n", ('text', "7")),
        # a finally part that evaluates an exit when no error is in flight does not change the block's value
        ("def f() do do 3 finally return 1 end end; f()", ('text', "3")),
        # errors raised by the body of a loop over an input stream keep their value
        (IO + "do for l in IO->str_input('a\\nb') do error 42 end catch 42 'ok' end", ('text', "'ok'")),
        (IO + "do for l in IO->str_input('a\\nb') do error [1, l] end catch [1, 'a'] 'list' end", ('text', "'list'")),
        (IO + "do for l in IO->str_input('a\\nb') do error <<<l => 1>>> end catch all 'm' end", ('text', "'m'")),
        (IO + "for l in IO->str_input('a\\nb') do error 42 end", ('error', "42")),
        (IO + "for l in IO->str_input('a\\nb') do error 'boom' end", ('error', "'boom'")),
        (IO + "for l in IO->str_input('a\\nb') do error NULL end", ('error', "NULL")),
        (IO + "do for l in IO->str_input('a\\nb') do 1 / 0 end catch 'ERROR' 'rt' end", ('text', "'rt'")),
        (IO + "def log = []; do for l in IO->str_input('a\\nb\\nc') do do if l == 'b' then error <<l>> finally append(log, l) end end catch <<'b'>> log end", ('text', "['a', 'b']")),
        (IO + "def g(inp) do for l in inp do if l == 'b' then error 9 end; 'done' end; do g(IO->str_input('a\\nb')) catch 9 'nine' end", ('text', "'nine'")),
        # errors raised inside comprehensions, arguments, defaults, conditions, handlers' values
        ("do [error x for x in [4, 5]] catch 4 'first' end", ('text', "'first'")),
        ("do <<<x => error 'v' for x in [1]>>> catch 'v' 'map' end", ('text', "'map'")),
        ("def f(a, b) 0; do f(1, error 2) catch 2 'arg' end", ('text', "'arg'")),
        ("def f(a = error 'd') a; do f() catch 'd' 'default' end", ('text', "'default'")),
        ("do if error 1 then 2 else 3 catch 1 'cond' end", ('text', "'cond'")),
        ("do while error 'c' do 1 end catch 'c' 'wcond' end", ('text', "'wcond'")),
        ("do error 1 catch error 2 'never' end", ('error', "2")),
        ("do do error 1 catch 1 error 2 end catch 2 'outer' end", ('text', "'outer'")),
        ("do do error 1 catch 2 'no' end catch 1 'outer' end", ('text', "'outer'")),
        ("do do error 1.0 catch 1 'int-decimal equal' end catch all 'outer' end", ('text', "'int-decimal equal'")),
        ("def log = []; do do error 1 finally append(log, 'f1') end catch 1 append(log, 'h') finally append(log, 'f2') end; log", ('text', "['f1', 'h', 'f2']")),
        ("def log = []; do do do error 1 finally append(log, 1) end finally append(log, 2) end catch all append(log, 3) end; log", ('text', "[1, 2, 3]")),
        ("def log = []; def f() do do return 5 finally append(log, 'fin') end; append(log, 'after') end; [f(), log]", ('text', "[5, ['fin']]")),
        ("def log = []; for i in [1, 2, 3] do do if i == 2 then continue; if i == 3 then break; append(log, i) finally append(log, -i) end end; log", ('text', "[1, -1, -2, -3]")),
        ("def log = []; do do error 1 finally do error 2 finally append(log, 'inner') end end catch 2 append(log, 'two') end; log", ('text', "['inner', 'two']")),
        ("def log = []; do append(log, 1); error 'x'; append(log, 2) catch 'x' append(log, 3) end; log", ('text', "[1, 3]")),
        # a function body that is ONE statement inside a block with handlers / a finally part keeps them
        ("def f() do return 1 / 0; catch all 'caught' end; f()", ('text', "'caught'")),
        ("def f() do return error 7; catch 7 'seven' end; f()", ('text', "'seven'")),
        ("def log = []; def f() do return 5; finally append(log, 'fin') end; [f(), log]", ('text', "[5, ['fin']]")),
        ("def log = []; def f(x) do return 10 / x; catch all -1 finally append(log, x) end; [f(2), f(0), log]", ('text', "[5, -1, [2, 0]]")),
        ("def f = fn() do return undefined_zz; catch all 'lam' end; f()", ('text', "'lam'")),
        ("def o = <*m = fn(self) do return self->nope(); catch all 'meth' end*>; o->m()", ('text', "'meth'")),
        ("def f() do 1 / 0; catch all 'plain' end; f()", ('text', "'plain'")),
    ]
    # errors raised by the runtime carry the value 'ERROR' (that is what a handler has to name), at every kind of failing site
    for site in ["1 / 0", "1.5 / 0", "1 / 0.0", "2.5 / 0.0", "1 % 0", "1.5 % 0", "7 % 0.0", "undefined_name_x", "[1, 2][5]", "'abc'[7]", "not 3", "1 and TRUE", "if 3 then 1",
                 "while 's' do 1 end", "for x in 5 do x end", "[1] - NULL - 'a' * []", "(fn(a) a)()", "zz_undefined = 1", "<<<'a' => 1>>>['b']", "def [p, q] = 5",
                 "int('x')", "decimal('y')", "date('notadate')", "sqrt('x')", "length(5)", "substr(1, 2)", "require NoSuchModuleXyz",
                 "<*a = 1*>->b()", "parse('1 +')", "eval('1 +')", "pattern('(')", "lst_undefined[0] = 1", "[1][0][0]"]:
        cases.append((f"do {site} catch 'ERROR' 'runtime error value' end", ('text', "'runtime error value'")))
    cases += [
        ("do 1 / 0 catch 'divide by zero' 'wrong' catch 'ERROR' 'right' end", ('text', "'right'")),
    ]
    # many errors in one session: whatever bookkeeping a call or a block keeps, the 400th failing call behaves like the first
    # (errors leaving functions at depth 1..3, handlers by value, finally parts counted)
    cases += [
        ("def f(k) if k == 0 then error 'orig' else f(k - 1); def n = 0; for i in range(400) do do f(i % 3) catch 'orig' n += 1 end end; n", ('text', "400")),
        ("def f(k) if k == 0 then 1 / 0 else f(k - 1); def n = 0; def m = 0; for i in range(400) do do f(i % 3) catch 'ERROR' n += 1 finally m += 1 end end; [n, m]", ('text', "[400, 400]")),
        ("def g() error [1]; def n = 0; def i = 0; while i < 400 do i += 1; do do g() finally n += 1 end catch [1] n += 1 end end; n", ('text', "800")),
        ("def o = <*m = fn(self, k) if k == 0 then error self else self->m(k - 1)*>; def n = 0; for i in range(300) do do o->m(2) catch o n += 1 end end; n", ('text', "300")),
        ("def n = 0; for i in range(300) do do (fn(x) x / 0)(i) catch 'ERROR' n += 1 end end; def ok(x) x + 1; [n, ok(1)]", ('text', "[300, 2]")),
    ]
    # an error on its way out of a call stays the same error whatever the call's ARGUMENTS are: values whose own rendering fails,
    # is user-defined or is long must not replace it, change it or make the handler miss it (built-in and user functions, methods,
    # nested calls; handlers by value at every level)
    odd_args = ["<*_str_ = fn(self) error 'inner'*>", "<*_str_ = fn(self) 1 / 0*>", "<*_str_ = fn(self) self->missing()*>", "<*_str_ = 5*>",
                "<*_str_ = fn(self) 5*>", "<*_str_ = fn() 'x'*>", "<*_str_ = fn(self) 'nice'*>", "[<*_str_ = fn(self) error 'inner'*>]",
                "<<<'k' => <*_str_ = fn(self) error 'inner'*>>>>", "'" + "x" * 200 + "'", "[" + ", ".join(str(i) for i in range(60)) + "]", "fn(q) q", "stdout"]
    for a in odd_args:
        # the odd value itself as the error value: it reaches the handler that names it (by value), unchanged
        if not a.startswith(("'", "[0", "fn(")) and a != "stdout":
            cases += [
                (f"def o = {a}; do error o catch o 'caught it' catch all 'other' end", ('text', "'caught it'")),
                (f"def o = {a}; def f() error o; do do f() catch 'nomatch' 0 end catch o 'outer' catch all 'other' end", ('text', "'outer'")),
                (f"def o = {a}; def log = []; do do error o finally append(log, 'fin') end catch o append(log, 'h') end; log", ('text', "['fin', 'h']")),
            ]
        cases += [
            (f"def o = {a}; def f(x) error 'orig'; do f(o) catch 'orig' 'caught orig' catch all 'caught other' end", ('text', "'caught orig'")),
            (f"def o = {a}; def f(x) 1 / 0; do f(o) catch 'ERROR' 'caught runtime' catch all 'caught other' end", ('text', "'caught runtime'")),
            (f"def o = {a}; def g(y) error [1, 2]; def f(x) g(x); do f(o) catch [1, 2] 'caught list' catch all 'caught other' end", ('text', "'caught list'")),
            (f"def o = {a}; def f(x) error 'orig'; do do f(o) catch 'nomatch' 0 end catch 'orig' 'outer' end", ('text', "'outer'")),
            (f"def o = {a}; def f(x) error 'orig'; f(o)", ('error', "'orig'")),
            (f"def o = {a}; do substr(o, 'z') catch 'ERROR' 'builtin' catch all 'other' end", ('text', "'builtin'")),
            (f"def o = {a}; def m = <*go = fn(self, x) error 7*>; do m->go(o) catch 7 'method' catch all 'other' end", ('text', "'method'")),
            (f"def o = {a}; def log = []; def f(x) do error 'orig' finally append(log, 'fin') end; do f(o) catch 'orig' append(log, 'h') end; log", ('text', "['fin', 'h']")),
        ]
    return cases


def run(ctx):
    ctx.rule = ("generated nests (depth <= 4) of do/catch/finally blocks inside functions and loops with user errors of every data kind and runtime errors injected at varying statement positions, handlers and finally parts that themselves raise or return; in-program event log; non-trivial = >= 2 nested blocks with a raise site below a handler or finally; each program is run on the implementation, on a reference interpreter written from the language rules "
                "(value + printed trace must match) and on the Lean model evaluator; plus law programs: return/break/continue evaluated in a finally part "
                "while an error is in flight, errors of every kind raised in loops over input streams, in comprehensions, arguments, defaults, "
                "conditions and handler values")
    progcheck.run_profiles(ctx, ["errors", "mixed"], 3000 if ctx.thorough else 500)
    progcheck.run_templates(ctx, law_cases(), "error-laws")
    common.replay_known(ctx)


def replay(ctx, payload):
    return common.generic_replay(ctx, payload)
