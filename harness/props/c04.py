"""C04 Conditionals, loops, comprehensions and early exits have structured semantics."""
import itertools

from harness import progcheck
from harness.props import common

PRE = "def L = [3, 1, 2]; def S = <<'b', 'a', 'c'>>; def M = <<<'k2' => 1, 'k1' => 2, 'k0' => 5>>>; def T = 'xy'; def O = <*p = 1, q = 4*>; def E = []; "
# (generator source text, loop-header text): the default selector is only used where the loop and the comprehension agree on it
SOURCES = [("L", "L"), ("S", "S"), ("T", "T"), ("E", "E"), ("keys M", "keys M"), ("values M", "values M"), ("entries M", "entries M"),
           ("keys O", "keys O"), ("values O", "values O"), ("entries O", "entries O"), ("range(3)", "range(3)"), ("<<2, 1>>", "<<2, 1>>")]
CONDS = [None, "string(a) != '1'", "string(a) < string(b)"]


def comprehension_cases(rng, n):
    """a list / set / map comprehension (simple, product `for .. for`, parallel `for .. also for`, optional condition) against the equivalent explicit loop"""
    cases = []
    # simple forms: every source x every collection kind x condition
    for (g1, h1), cond, kind in itertools.product(SOURCES, CONDS[:2], ("list", "set", "map")):
        c = f" if {cond}" if cond else ""
        guard = (lambda body: f"if {cond} then {body}") if cond else (lambda body: body)
        if kind == "list":
            comp, loop = f"[[a, 0] for a in {g1}{c}]", f"def r = []; for a in {h1} do {guard('append(r, [a, 0])')} end; r"
        elif kind == "set":
            comp, loop = f"<<string(a) for a in {g1}{c} >>", f"def r = <<>>; for a in {h1} do {guard('append(r, string(a))')} end; r"
        else:
            comp, loop = f"<<<string(a) => a for a in {g1}{c} >>>", f"def r = <<<>>>; for a in {h1} do {guard('r[string(a)] = a')} end; r"
        cases.append((PRE + comp, ('same', PRE + loop)))
    # product and parallel forms: every ordered pair of sources
    combos = list(itertools.product(SOURCES, SOURCES, CONDS, ("list", "set"), ("for", "also for")))
    for (g1, h1), (g2, h2), cond, kind, mode in (combos if n is None else rng.sample(combos, min(n, len(combos)))):
        c = f" if {cond}" if cond else ""
        guard = (lambda body: f"if {cond} then {body}") if cond else (lambda body: body)
        elem = "[a, b]"
        open_, close, init = ("[", "]", "[]") if kind == "list" else ("<<", " >>", "<<>>")
        comp = f"{open_}{elem} for a in {g1} {mode} b in {g2}{c}{close}"
        if mode == "for":
            loop = f"def r = {init}; for a in {h1} do for b in {h2} do {guard(f'append(r, {elem})')} end end; r"
        else:
            loop = (f"def A_ = []; for a in {h1} do append(A_, a) end; def B_ = []; for b in {h2} do append(B_, b) end; def r = {init}; "
                    f"def n_ = length(A_); if length(B_) > n_ then n_ = length(B_); "
                    f"for i_ in range(n_) do def a = NULL; def b = NULL; if i_ < length(A_) then a = A_[i_]; if i_ < length(B_) then b = B_[i_]; "
                    f"{guard(f'append(r, {elem})')} end; r")
        cases.append((PRE + comp, ('same', PRE + loop)))
    return cases


def effect_order_cases():
    """what the element expression DOES must match the equivalent loop too: it is evaluated only for elements that pass the filter
    (an element that fails the filter may make the element expression fail: `[10 / x for x in [0, 1, 2] if x != 0]`), the filter is
    evaluated once per element and before the element expression; observed through a log and through failing element expressions"""
    cases = []
    T = "def LOG = []; def t(x) do append(LOG, x); x end; "
    N = "[0, 1, 2, 3]"
    for condv in ("V % 2 == 1", "t(V + 100) > 101", "V != 0 and 6 / V > 2"):
        cond = condv.replace("V", "a")
        for kind in ("list", "set", "map"):
            if kind == "list":
                comp, init, add = f"[t(a) for a in {N} if {cond}]", "[]", "append(r, t(a))"
            elif kind == "set":
                comp, init, add = f"<<t(a) for a in {N} if {cond} >>", "<<>>", "append(r, t(a))"
            else:
                comp, init, add = f"<<<t(a) => t(a * 10) for a in {N} if {cond} >>>", "<<<>>>", "do def k_ = t(a); r[k_] = t(a * 10) end"
            cases.append((T + f"def r = {comp}; [r, LOG]", ('same', T + f"def r = {init}; for a in {N} do if {cond} then {add} end; [r, LOG]")))
        for mode in ("for", "also for"):
            for open_, close, init in (("[", "]", "[]"), ("<<", " >>", "<<>>")):
                condb = condv.replace("V", "b")
                comp = f"{open_}t(a * 10 + b) for a in [0, 1, 2] {mode} b in [2, 1, 0] if a != b and {condb}{close}"
                body = f"if a != b and {condb} then append(r, t(a * 10 + b))"
                if mode == "for":
                    loop = f"def r = {init}; for a in [0, 1, 2] do for b in [2, 1, 0] do {body} end end; [r, LOG]"
                else:
                    loop = f"def r = {init}; for i_ in range(3) do def a = i_; def b = 2 - i_; {body} end; [r, LOG]"
                cases.append((T + f"def r = {comp}; [r, LOG]", ('same', T + loop)))
    for comp, loop in [
            ("[10 / x for x in [0, 1, 2] if x != 0]", "def r = []; for x in [0, 1, 2] do if x != 0 then append(r, 10 / x) end; r"),
            ("<<10 / x for x in [0, 1, 2] if x != 0 >>", "def r = <<>>; for x in [0, 1, 2] do if x != 0 then append(r, 10 / x) end; r"),
            ("<<<x => 10 / x for x in [0, 1, 2] if x != 0 >>>", "def r = <<<>>>; for x in [0, 1, 2] do if x != 0 then r[x] = 10 / x end; r"),
            ("<<<10 / x => x for x in [0, 1, 2] if x != 0 >>>", "def r = <<<>>>; for x in [0, 1, 2] do if x != 0 then r[10 / x] = x end; r"),
            ("[x[0] for x in [[], [1], [2, 3]] if length(x) > 0]", "def r = []; for x in [[], [1], [2, 3]] do if length(x) > 0 then append(r, x[0]) end; r"),
            ("[10 / (x - y) for x in [1, 2] for y in [1, 2] if x != y]", "def r = []; for x in [1, 2] do for y in [1, 2] do if x != y then append(r, 10 / (x - y)) end end; r"),
            ("<<10 / (x - y) for x in [1, 2] for y in [1, 2] if x != y >>", "def r = <<>>; for x in [1, 2] do for y in [1, 2] do if x != y then append(r, 10 / (x - y)) end end; r"),
            ("[10 / (x - y) for x in [1, 2] also for y in [1, 3] if x != y]", "[-10]"),
            ("<<10 / (x - y) for x in [1, 2] also for y in [1, 3] if x != y >>", "<<-10>>"),
            ("[undefined_name_q for x in [1, 2] if x > 5]", "[]"),
            ("do [error x for x in [1, 2, 3] if x == 2] catch 2 'second' end", "'second'")]:
        cases.append((comp, ('same', loop)))
    return cases


LIBPRE = "require List import [map_list, filter, reduce, unique, grouped]; "


def callback_return_cases():
    """`return` leaves only the innermost function WITH ITS VALUE also when that function is called back by a built-in or a library
    function (sorted key / cmp, find key, map_list, filter, reduce, grouped, unique, any / all, for_each, object methods, _str_): a callback
    that leaves through an early `return` (inside if, loops, blocks) is indistinguishable from one written as a single expression"""
    pairs = [("fn(x) do if x > 1 then return 0 - x; x end", "fn(x) if x > 1 then 0 - x else x"),
             ("fn(x) do for i in [1, 2, 3] do if i == 2 then return x * i end; 0 end", "fn(x) x * 2"),
             ("fn(x) do while TRUE do return x + 1 end end", "fn(x) x + 1"),
             ("fn(x) do do return x finally 1 end end", "fn(x) x")]
    uses = ["sorted([3, 1, 2, 5, 4], key = F)", "sorted([3, 1, 2], cmp = fn(a, b) compare(F(a), F(b)))", "find([7, 1, 2, 3], F(2), key = F)", "find_last([1, 2, 3, 2], F(2), key = F)",
            "map_list([1, 2, 3], F)", "filter([1, 2, 3, 4], fn(y) F(y) < 0 or F(y) > 2)", "reduce([1, 2, 3], fn(a, b) F(a) + F(b))", "unique([1, 2, 1, 3], key = F)",
            "grouped([1, 1, 2, 3, 3], key = F)", "[F(y) for y in [1, 2, 3]]", "(<*m = fn(self, y) (F)(y)*>)->m(2)", "[1, 2, 3] !> map_list(F)",
            "string(<*v = 3, _str_ = fn(self) do if self->v > 1 then return 'big'; 'small' end*>)"]
    cases = []
    for early, plain in pairs:
        for u in uses:
            if "_str_" in u:
                cases.append((u, ('text', "'big'")))
                continue
            cases.append((LIBPRE + u.replace("F", "(" + early + ")"), ('same', LIBPRE + u.replace("F", "(" + plain + ")"))))
    cmp_early = "fn(a, b) do if a < b then return -1; if a > b then return 1; return 0; end"
    cases.append((f"sorted([3, 1, 2, 1], cmp = {cmp_early})", ('text', "[1, 1, 2, 3]")))
    cases.append((f"sorted([[2, 'a'], [1, 'b'], [2, 'c']], cmp = {cmp_early}, key = fn(p) do if p[0] > 1 then return 2; 1 end)", ('text', "[[1, 'b'], [2, 'a'], [2, 'c']]")))
    return cases


def loop_default_selector_cases():
    """a `for` over a map without a selector visits the VALUES in ascending key order — whatever the number of loop variables"""
    M2 = "<<<'k2' => [1, 2], 'k0' => [3, 4], 'k1' => [5, 6]>>>"
    return [
        (f"def r = []; for [a, b] in {M2} do append(r, [a, b]) end; r", ('same', f"def r = []; for [a, b] in values {M2} do append(r, [a, b]) end; r")),
        (f"def r = []; for v in {M2} do append(r, v) end; r", ('same', f"def r = []; for v in values {M2} do append(r, v) end; r")),
        (f"def r = []; for [a, b] in {M2} do append(r, a) end; r", ('text', "[3, 5, 1]")),
        (f"def r = []; for [a, b, c] in {M2} do append(r, [a, b, c]) end; r", ('same', f"def r = []; for [a, b, c] in values {M2} do append(r, [a, b, c]) end; r")),
        (f"def r = []; for [a] in {M2} do append(r, a) end; r", ('same', f"def r = []; for [a] in values {M2} do append(r, a) end; r")),
        (f"def r = []; for [k, v] in entries {M2} do append(r, [k, v]) end; r", ('text', "[['k0', [3, 4]], ['k1', [5, 6]], ['k2', [1, 2]]]")),
    ]


def comprehension_scope_cases():
    """a comprehension's variable lives only in the comprehension: an enclosing loop variable, parameter or definition of the same name is what
    it was afterwards — also when the comprehension is left by an error that is caught nearby, for every comprehension shape"""
    shapes = ["[BODY for x in [50, 60]]", "<<BODY for x in [50, 60] >>", "<<<x => BODY for x in [50, 60] >>>", "[BODY for x in [50] for z_ in [1, 2]]",
              "[BODY for x in [50, 60] also for z_ in [1, 2]]", "<<BODY for x in [50] for z_ in [1, 2] >>", "[BODY for z_ in [1, 2] for x in [50]]",
              "[BODY for x in keys <<<50 => 1>>>]", "[BODY for x in 'ab']"]
    cases = []
    for sh in shapes:
        ok, bad = sh.replace("BODY", "x"), sh.replace("BODY", "error 'boom'")
        cases.append((f"def r = []; for x in [1, 2, 3] do {ok}; append(r, x) end; r", ('text', "[1, 2, 3]")))
        cases.append((f"def r = []; for x in [1, 2, 3] do do {bad} catch 'boom' 0 end; append(r, x) end; r", ('text', "[1, 2, 3]")))
        cases.append((f"def f(x) do do {bad} catch all 0 end; x end; [f(1), f(2)]", ('text', "[1, 2]")))
        cases.append((f"def x = 'top'; do {bad} catch all 0 end; {ok}; x", ('text', "'top'")))
        cases.append((f"def r = []; def i = 0; while i < 2 do i += 1; def x = i; do {bad} catch all 0 end; append(r, x) end; r", ('text', "[1, 2]")))
    return cases


def exit_cases():
    """return / break / continue in their operand-free forms"""
    return [
        ("def f() return; f()", ('text', "NULL")), ("def f() do return; end; f()", ('text', "NULL")), ("def f() do 1; return; end; f()", ('text', "NULL")),
        ("def f(x) do if x then return; 5 end; [f(TRUE), f(FALSE)]", ('text', "[NULL, 5]")), ("return;", ('text', "NULL")), ("1; return;", ('text', "NULL")),
        ("def f() do for x in [1, 2] do if x == 2 then return; end; 9 end; f()", ('text', "NULL")), ("def f() do return 7; end; f()", ('text', "7")),
        ("def f() do def r = []; for x in [1, 2, 3] do if x == 2 then continue; append(r, x); end; r end; f()", ('text', "[1, 3]")),
        ("def f() do def r = []; for x in [1, 2, 3] do if x == 2 then break; append(r, x); end; r end; f()", ('text', "[1]")),
        ("def r = []; for x in [1, 2] do for y in [1, 2] do if y == 2 then break; append(r, [x, y]) end end; r", ('text', "[[1, 1], [2, 1]]")),
        ("def r = []; for x in [1, 2] do for y in [1, 2] do if y == 1 then continue; append(r, [x, y]) end end; r", ('text', "[[1, 2], [2, 2]]")),
        ("def outer() do def inner() do return 1; end; inner(); 2 end; outer()", ('text', "2")),
        ("def r = []; def i = 0; while i < 5 do i += 1; if i == 2 then continue; if i == 4 then break; append(r, i) end; r", ('text', "[1, 3]")),
        ("def r = []; for c in 'abc' do if c == 'c' then continue; append(r, c) end; append(r, 'after'); r", ('text', "['a', 'b', 'after']")),
        ("def r = []; for k in [1, 2] do for c in 'xy' do if c == 'y' then continue; append(r, c + string(k)) end; append(r, k) end; r", ('text', "['x1', 1, 'x2', 2]")),
        ("def f() do for c in 'ab' do if c == 'b' then continue; end; 'done' end; f()", ('text', "'done'")),
        ("def r = []; for x in <<3, 1, 2>> do if x == 2 then continue; append(r, x) end; r", ('text', "[1, 3]")),
        ("def r = []; for v in values <<<'b' => 1, 'a' => 2>>> do if v == 2 then continue; append(r, v) end; append(r, 0); r", ('text', "[1, 0]")),
        # a loop visits the elements the collection holds NOW: enumerate, change (add / remove / assign), enumerate again
        ("def s = <<3, 1, 2>>; def r = []; for x in s do append(r, x) end; remove(s, 2); for x in s do append(r, x) end; r", ('text', "[1, 2, 3, 1, 3]")),
        ("def s = <<3, 1>>; def r = [string(s)]; append(s, 2); append(r, [x for x in s]); remove(s, 1); append(r, [x for x in s]); append(r, string(s)); r",
         ('text', "['<<1, 3>>', [1, 2, 3], [2, 3], '<<2, 3>>']")),
        ("def m = <<<'b' => 1, 'a' => 2>>>; def r = []; for k in keys m do append(r, k) end; remove(m, 'a'); m['c'] = 3; for k in keys m do append(r, k) end; r",
         ('text', "['a', 'b', 'b', 'c']")),
        ("def m = <<<1 => 'x'>>>; def r = [[e for e in entries m]]; m[0] = 'y'; append(r, [e for e in entries m]); remove(m, 1); append(r, [v for v in values m]); r",
         ('text', "[[[1, 'x']], [[0, 'y'], [1, 'x']], ['y']]")),
        ("def l = [1, 2, 3]; def r = []; for x in l do append(r, x) end; delete_at(l, 0); for x in l do append(r, x) end; r", ('text', "[1, 2, 3, 2, 3]")),
        ("def s = <<'b', 'a'>>; def t = <<x for x in s>>; remove(s, 'a'); [[...s], [...t], length(s), 'a' in s]", ('text', "[['b'], ['a', 'b'], 1, FALSE]")),
        # a loop variable hides a variable of the same name only while the loop runs
        ("def j = 7; for j in [1, 2] do j end; j", ('text', "7")), ("def j = 7; def r = []; for j in [1, 2] do append(r, j) end; [r, j]", ('text', "[[1, 2], 7]")),
        ("def a = 1; def b = 2; for [a, b] in [[5, 6], [7, 8]] do a + b end; [a, b]", ('text', "[1, 2]")),
        ("def c = 'o'; for c in 'ab' do c end; c", ('text', "'o'")), ("def k = 3; for k in <<9, 8>> do k end; k", ('text', "3")),
        ("def k = 3; for k in keys <<<'x' => 1>>> do k end; k", ('text', "3")), ("def q = 3; for q in [] do q end; q", ('text', "3")),
        ("def e = 9; do for e in [1, 2] do error 'x' end catch all e end", ('text', "9")), ("def m = 5; for m in [1, 2, 3] do if m == 2 then break end; m", ('text', "5")),
        ("def w = 1; def g() do for w in [1, 2] do if w == 2 then return w end end; [g(), w]", ('text', "[2, 1]")),
        ("for zz in [1] do zz end; zz", ('error', "'ERROR'")), ("def f() do def t = 1; for t in [2] do t end; t end; f()", ('text', "1")),
    ]


def run(ctx):
    ctx.rule = ("generated loop nests (depth <= 3) over lists, sets, maps (keys/values/entries) and strings with break/continue/return at every statement position, while loops, if/elif/else chains and every comprehension form; in-program trace; non-trivial = a loop with an exit statement or a comprehension over a set/map; each program is run on the implementation, on a reference interpreter written from the language rules "
                "(value + printed trace must match) and on the Lean model evaluator; plus every simple / product / parallel list, set and map comprehension "
                "over every ordered pair of source forms (list, set, string, empty, keys/values/entries of a map and of an object) with and without a "
                "condition, against the equivalent explicit loop")
    progcheck.run_profiles(ctx, ["control", "mixed"], 3000 if ctx.thorough else 500)
    progcheck.run_templates(ctx, comprehension_cases(ctx.rng, None if ctx.thorough else 500), "comprehension-vs-loop")
    progcheck.run_templates(ctx, effect_order_cases(), "comprehension-effect-order")
    progcheck.run_templates(ctx, callback_return_cases(), "return-in-callbacks")
    progcheck.run_templates(ctx, comprehension_scope_cases(), "comprehension-scope")
    progcheck.run_templates(ctx, loop_default_selector_cases(), "loop-default-selector")
    progcheck.run_templates(ctx, exit_cases(), "exit-statements")
    common.replay_known(ctx)


def replay(ctx, payload):
    return common.generic_replay(ctx, payload)
