import CklVerif.Lemmas.C19SrcFilterL3

/-! C19Src — list.ckl `flatten(lst)`: a loop whose body calls the library function `is_list` and, for list items, the MUTATOR
    `append_all` on the (fresh) result cell; every other item is appended.  The general mixed case (one level, as the source
    documents). -/
namespace Ckl.C19Src
open Ckl Ckl.C03 Ckl.Gen.LibSrc
variable (ld : Loader)

/-! ### `Ext` followed by a change of a cell that did not exist before -/

theorem Ext.trans_extBut_L3 {b : Nat} {s s1 s2 : State} (h1 : Ext s s1) (h2 : ExtBut b s1 s2) (hb : s.heap.size ≤ b) :
    Ext s s2 :=
  ⟨Nat.le_trans h1.fsize h2.fsize,
   fun i hi => by rw [h2.frame i (Nat.lt_of_lt_of_le hi h1.fsize), h1.frame i hi],
   Nat.le_trans h1.hsize h2.hsize,
   fun x hx => by rw [h2.cell x (Nat.lt_of_lt_of_le hx h1.hsize) (by omega), h1.cell x hx],
   by rw [h2.out, h1.out]⟩

/-- from a body that changes its own frame to `fn.execute`, one parameter, with the fact that the callee state has the heap
    of the caller (so the first cell the body allocates is `s.heap.size`) -/
theorem calls_of_body1XH_L3 {src : Node} {q : String} {body : Node} {k : Nat} {r : State → Out RVal} {Q : State → Prop}
    (hps : lamParams src = [q]) (hds : lamDefaults src = [.absent]) (hbody : lamBody src = body) (hk : 1 ≤ k)
    {s : State} {M nats srcs fn m} (h : LibEnv s M nats srcs) (hm : M m) (hsrc : IsSrc s fn src m)
    (v : RVal)
    (hb : ∀ s0, Ctx s0 M nats srcs s.frames.size m [(q, v)] → Ext s s0 → s0.heap.size = s.heap.size →
      ∃ s', Ext s s' ∧ Ev ld k s.frames.size body s0 (r s') ∧ Q s') :
    ∃ s', Ext s s' ∧ Q s' ∧ ∀ env pos, Calls ld (k + 1) fn [(q, v)] env pos s (postCall (r s')) := by
  obtain ⟨a, nm, rfl, hcell⟩ := hsrc
  rw [hps, hds, hbody] at hcell
  obtain ⟨s', e', hev, hQ⟩ := hb _ (Ctx.callee1 h hm q v) (calleeState_ext s m [(q, v)] [q]) (by rw [calleeState_heap])
  refine ⟨s', e', hQ, fun env pos => ?_⟩
  exact Calls.closure ld hcell rfl hk (by intro p hp; simp at hp; subst hp; simp [dictGet]) hev

/-! ### what one item contributes to the flattened list -/

/-- the items `flatten` puts into the result for the element `x`: the content of the cell if `x` is a reference to a list
    cell, the element itself otherwise -/
def splice_L3 (s : State) (x : RVal) : List RVal :=
  match x with
  | .ref d => match s.cell d with
    | some (.list zs) => zs
    | _ => [x]
  | _ => [x]

/-- the expected result of `flatten` on the list `xs` in state `s` (one level) -/
def flattenExp_L3 (s : State) (xs : List RVal) : List RVal := xs.flatMap (splice_L3 s)

theorem splice_list_L3 {s : State} {x : RVal} (h : isListR s x = true) :
    ∃ d zs, x = .ref d ∧ s.cell d = some (.list zs) ∧ splice_L3 s x = zs := by
  cases x with
  | ref d =>
    cases hc : s.cell d with
    | none => simp [isListR, hc] at h
    | some c =>
      cases c with
      | list zs => exact ⟨d, zs, rfl, hc, by simp [splice_L3, hc]⟩
      | _ => simp [isListR, hc] at h
  | _ => simp [isListR] at h

theorem splice_nonlist_L3 {s : State} {x : RVal} (h : isListR s x = false) : splice_L3 s x = [x] := by
  cases x with
  | ref d =>
    cases hc : s.cell d with
    | none => simp [splice_L3, hc]
    | some c =>
      cases c with
      | list zs => simp [isListR, hc] at h
      | _ => simp [splice_L3, hc]
  | _ => rfl

theorem splice_len_le_L3 (s : State) (xs : List RVal) {v : RVal} (hv : v ∈ xs) :
    (splice_L3 s v).length ≤ (flattenExp_L3 s xs).length := by
  unfold flattenExp_L3
  induction xs with
  | nil => cases hv
  | cons x xs ih =>
    rw [List.flatMap_cons, List.length_append]
    rcases List.mem_cons.1 hv with rfl | h
    · omega
    · have := ih h; omega

theorem flatMap_take_succ_L3 {α β} (f : α → List β) (xs : List α) (i : Nat) (v : α) (hv : xs[i]? = some v) :
    (xs.take (i + 1)).flatMap f = (xs.take i).flatMap f ++ f v := by
  rw [List.take_add_one, hv]; simp [List.flatMap_append]

/-- references among the elements point into the heap of `s` (true of every list a program can build) -/
def RefsIn_L3 (s : State) (xs : List RVal) : Prop := ∀ x ∈ xs, ∀ d, x = .ref d → d < s.heap.size

theorem isListR_ext_L3 {s st : State} (e : Ext s st) {v : RVal} (hr : ∀ d, v = .ref d → d < s.heap.size) :
    isListR st v = isListR s v := by
  cases v with
  | ref d => simp only [isListR]; rw [e.cell d (hr d rfl)]
  | _ => rfl

/-! ### the body of `flatten` -/

def flattenNats : List String := ["type", "equals", "append", "list", "sublist"]
def flattenSrcs : List (String × Node) := [("is_list", type_is_list), ("append_all", list_append_all)]

theorem flattenNats_type {nats : List String} (hn : ∀ x ∈ flattenNats, x ∈ nats) : ∀ x ∈ typeNats, x ∈ nats := by
  intro x hx; apply hn; simp [typeNats] at hx; rcases hx with rfl | rfl <;> decide

theorem flattenNats_append {nats : List String} (hn : ∀ x ∈ flattenNats, x ∈ nats) : ∀ x ∈ appendNats, x ∈ nats := by
  intro x hx; apply hn; simp [appendNats] at hx; rcases hx with rfl | rfl | rfl <;> decide

local notation "bp" => blockPos (lamBody list_flatten)

/-- the loop invariant of `flatten`: before the iteration with index `i` the result cell `b` holds the flattening of the prefix -/
structure FlatInv_L3 (s : State) (c m : EnvId) (a b : Nat) (xs : List RVal) (i : Nat) (st : State) : Prop where
  ext : Ext s st
  cellb : st.cell b = some (.list (flattenExp_L3 s (xs.take i)))
  parent : (st.frame c).parent = some m
  clt : c < st.frames.size
  vars : (st.frame c).vars = [("lst", .ref a), ("result", .ref b)] ∨
    ∃ w, (st.frame c).vars = [("lst", .ref a), ("result", .ref b), ("item", w)]

/-- the body of `flatten` on a list cell -/
theorem flatten_body {s s0 : State} {M nats srcs m} {a : Nat} {xs : List RVal}
    (h : LibEnv s M nats srcs) (hm : M m)
    (ctx : Ctx s0 M nats srcs s.frames.size m [("lst", .ref a)]) (e0 : Ext s s0) (hh : s0.heap.size = s.heap.size)
    (hn : ∀ x ∈ flattenNats, x ∈ nats) (hs : ∀ p ∈ flattenSrcs, p ∈ srcs) (hc : s.cell a = some (.list xs))
    (hrefs : RefsIn_L3 s xs) :
    ∃ s', Ext s s' ∧ Ev ld (xs.length + (flattenExp_L3 s xs).length + 24) s.frames.size (lamBody list_flatten) s0
        (.ok (.ref s.heap.size) s') ∧
      s'.cell s.heap.size = some (.list (flattenExp_L3 s xs)) := by
  unfold lamBody list_flatten
  simp only []
  generalize hL : (flattenExp_L3 s xs).length = L
  generalize hK : xs.length + L + 20 = K
  have ha : a < s.heap.size := cell_lt hc
  have hcge : s.frames.size ≤ s.frames.size := Nat.le_refl _
  have ctx0 : Ctx (ghostEnter s0 bp) M nats srcs s.frames.size m [("lst", .ref a)] :=
    ctx.ext ((Ext.refl s0).ghostEnter _)
  have e0' : Ext s (ghostEnter s0 bp) := e0.ghostEnter _
  -- statement 1: `def result = []`
  let b := s.heap.size
  have hb0 : (ghostEnter s0 bp).heap.size = b := hh
  let t2 := ((ghostEnter s0 bp).alloc (.list [])).1.put s.frames.size "result" (.ref b)
  have S1 : ∀ p1 info p2, Ev ld K s.frames.size (.defn "result" (.list [] p1) info p2) (ghostEnter s0 bp) (.ok (.ref b) t2) := by
    intro p1 info p2
    have := Ev.defn ld (k := 1) (name := "result") (info := info) (pos := p2) (env := s.frames.size)
      (by intro a h; cases h) (Ev.listNil ld (k := 0) (env := s.frames.size) (pos := p1) (s := ghostEnter s0 bp))
    rw [hb0] at this
    exact Ev.mono ld this (by omega)
  have hclt0 : s.frames.size < (ghostEnter s0 bp).frames.size := ctx0.clt
  have E2 : Ext s t2 := (e0'.alloc _).put hcge _ _
  have hbge : s.heap.size ≤ b := Nat.le_refl _
  have hvars2 : (t2.frame s.frames.size).vars = [("lst", .ref a), ("result", .ref b)] := by
    show ((((ghostEnter s0 bp).alloc (.list [])).1.put _ _ _).frame _).vars = _
    rw [vars_put_same ((ghostEnter s0 bp).alloc (.list [])).1 "result" (.ref b) hclt0, frame_alloc, ctx0.fr.vars]; rfl
  have inv0 : FlatInv_L3 s s.frames.size m a b xs 0 t2 := by
    refine ⟨E2, ?_, ?_, ?_, Or.inl hvars2⟩
    · show (((ghostEnter s0 bp).alloc (.list [])).1.put _ _ _).cell b = _
      rw [cell_put, ← hb0, cell_alloc_new]; rfl
    · show ((((ghostEnter s0 bp).alloc (.list [])).1.put _ _ _).frame _).parent = _
      rw [parent_put, frame_alloc]; exact ctx0.fr.parent
    · show _ < (((ghostEnter s0 bp).alloc (.list [])).1.put _ _ _).frames.size
      rw [frames_size_put]; exact hclt0
  -- one iteration: `if is_list(item) then append_all(result, item) else append(result, item)`
  have hstep : ∀ p1 p2 p3 p4 p5 p6 p7 p8 p9 p10 p11 p12, ∀ i (r : RVal) st v,
      FlatInv_L3 s s.frames.size m a b xs i st → xs[i]? = some v →
      ∃ r' s', Ev ld (L + 17) s.frames.size
        (.ite [.call (.ident "is_list" p1) [none] [.ident "item" p2] p3]
          [.call (.ident "append_all" p4) [none, none] [.ident "result" p5, .ident "item" p6] p7]
          (.call (.ident "append" p8) [none, none] [.ident "result" p9, .ident "item" p10] p11) p12)
        (st.put s.frames.size "item" v) (.ok r' s') ∧
        isCtl r' = false ∧ FlatInv_L3 s s.frames.size m a b xs (i + 1) s' := by
    intro p1 p2 p3 p4 p5 p6 p7 p8 p9 p10 p11 p12 i r st v inv hv
    have hvmem : v ∈ xs := List.mem_of_getElem? hv
    have hlen : (splice_L3 s v).length ≤ L := by rw [← hL]; exact splice_len_le_L3 s xs hvmem
    have hvars : ((st.put s.frames.size "item" v).frame s.frames.size).vars =
        [("lst", .ref a), ("result", .ref b), ("item", v)] := by
      rw [vars_put_same _ _ _ inv.clt]
      rcases inv.vars with h | ⟨w, h⟩ <;> rw [h] <;> rfl
    have hpar : ((st.put s.frames.size "item" v).frame s.frames.size).parent = some m := by
      rw [parent_put]; exact inv.parent
    have eu : Ext s (st.put s.frames.size "item" v) := inv.ext.put hcge _ _
    have hcltu : s.frames.size < (st.put s.frames.size "item" v).frames.size := by
      rw [frames_size_put]; exact inv.clt
    have cu : Ctx (st.put s.frames.size "item" v) M nats srcs s.frames.size m
        [("lst", .ref a), ("result", .ref b), ("item", v)] := Ctx.ofExt h hm eu hvars hpar hcltu
    -- `is_list(item)`
    obtain ⟨f1, m1, hl1, hm1, hsrc1⟩ := cu.src (x := "is_list") (src := type_is_list) (hs _ (by simp [flattenSrcs])) (by rfl)
    obtain ⟨t1, e1, c1⟩ := is_list_calls ld cu.env (flattenNats_type hn) hm1 hsrc1 v
    rw [isListR_ext_L3 eu (hrefs v hvmem)] at c1
    have C1 := Ev.callSrc1 ld (k := 6) (p := p1) hl1 hsrc1 rfl (by decide) (by trivial)
      (Ev.ident ld (p := p2) (cu.var (x := "item") (by rfl))) (c1 s.frames.size p3)
    rw [wrapCall_ok] at C1
    have cu1 := cu.ext e1
    have E1 : Ext s t1 := eu.trans e1
    have hcb1 : t1.cell b = some (.list (flattenExp_L3 s (xs.take i))) := by
      rw [e1.cell b (by rw [heap_put]; exact cell_lt inv.cellb), cell_put]; exact inv.cellb
    have htake : flattenExp_L3 s (xs.take (i + 1)) = flattenExp_L3 s (xs.take i) ++ splice_L3 s v :=
      flatMap_take_succ_L3 _ xs i v hv
    cases hil : isListR s v with
    | true =>
      rw [hil] at C1
      obtain ⟨d, zs, rfl, hcd, hsp⟩ := splice_list_L3 hil
      rw [hsp] at htake hlen
      have hd : d < s.heap.size := cell_lt hcd
      have hcd1 : t1.cell d = some (.list zs) := by rw [E1.cell d hd]; exact hcd
      -- `append_all(result, item)`
      obtain ⟨f2, m2, hl2, hm2, hsrc2⟩ := cu1.src (x := "append_all") (src := list_append_all)
        (hs _ (by simp [flattenSrcs])) (by rfl)
      obtain ⟨t2', e2, hcb2, c2⟩ := append_all_calls_lists ld cu1.env (flattenNats_append hn) hm2 hsrc2 b d _ zs hcb1 hcd1
      have C2 := Ev.callSrc2 ld (k := zs.length + 11) (p := p4) (pos := p7) hl2 hsrc2 rfl (by decide) (by decide) (by decide)
        (by trivial) (by trivial)
        (Ev.ident ld (p := p5) (cu1.var (x := "result") (by rfl)))
        (Ev.ident ld (p := p6) (cu1.var (x := "item") (by rfl))) (c2 s.frames.size p7)
      rw [wrapCall_ok] at C2
      have I1 := Ev.ite ld (pos := p12) (EvIf.true ld (cs := []) (xs := [])
        (els := .call (.ident "append" p8) [none, none] [.ident "result" p9, .ident "item" p10] p11)
        (Ev.mono ld C1 (show 6 + 3 ≤ zs.length + 11 + 4 by omega)) C2)
      have hct1 : s.frames.size < t1.frames.size := cu1.clt
      refine ⟨_, _, Ev.mono ld I1 (by omega), rfl, ?_⟩
      refine ⟨E1.trans_extBut_L3 e2 hbge, by rw [hcb2, htake], ?_, Nat.lt_of_lt_of_le hct1 e2.fsize, Or.inr ⟨.ref d, ?_⟩⟩
      · rw [e2.frame _ hct1]; exact cu1.fr.parent
      · rw [e2.frame _ hct1]; exact cu1.fr.vars
    | false =>
      rw [hil] at C1
      rw [splice_nonlist_L3 hil] at htake
      -- `append(result, item)`
      obtain ⟨ja, hlk⟩ := cu1.nat (x := "append") (hn _ (by decide)) (by rfl)
      obtain ⟨ma, ha1, ha2⟩ := append_list b _ v (div0Value t1 s.frames.size) p11 _ hcb1
      have A3 := Ev.nat2 ld (k := 0) (p := p8) (pos := p11) hlk (by rfl) (by decide) (by decide) (by trivial) (by trivial)
        (Ev.ident ld (p := p9) (cu1.var (x := "result") (by rfl)))
        (Ev.ident ld (p := p10) (cu1.var (x := "item") (by rfl))) ha1 ha2
      rw [wrapCall_ok] at A3
      have I1 := Ev.ite ld (pos := p12) (EvIf.false ld
        (x := .call (.ident "append_all" p4) [none, none] [.ident "result" p5, .ident "item" p6] p7) (xs := [])
        C1 (EvIf.else ld (pos := p12) (Ev.mono ld A3 (show 0 + 4 ≤ 8 by decide))))
      have hblt : b < t1.heap.size := cell_lt hcb1
      refine ⟨_, _, Ev.mono ld I1 (by omega), rfl, ?_⟩
      refine ⟨E1.setCell hbge _, ?_, ?_, cu1.clt, Or.inr ⟨v, ?_⟩⟩
      · rw [cell_setCell_same _ _ hblt, htake]
      · rw [frame_setCell]; exact cu1.fr.parent
      · rw [frame_setCell]; exact cu1.fr.vars
  have hcellI : ∀ i (r : RVal) st, FlatInv_L3 s s.frames.size m a b xs i st → st.cell a = some (.list xs) := by
    intro i r st inv; rw [inv.ext.cell a ha]; exact hc
  -- statement 2: the loop
  have S2 : ∀ p0 p1 p2 p3 p4 p5 p6 p7 p8 p9 p10 p11 p12 what p13, ∃ r t3, Ev ld K s.frames.size
      (.for ["item"] (.ident "lst" p0)
        (.ite [.call (.ident "is_list" p1) [none] [.ident "item" p2] p3]
          [.call (.ident "append_all" p4) [none, none] [.ident "result" p5, .ident "item" p6] p7]
          (.call (.ident "append" p8) [none, none] [.ident "result" p9, .ident "item" p10] p11) p12) what p13)
        t2 (.ok r t3) ∧ isCtl r = false ∧
        Ext s t3 ∧ t3.cell b = some (.list (flattenExp_L3 s xs)) ∧
        ∃ vars, CallFrame t3 s.frames.size m vars ∧ dictGet "result" vars = some (.ref b) := by
    intro p0 p1 p2 p3 p4 p5 p6 p7 p8 p9 p10 p11 p12 what p13
    obtain ⟨r, st, ⟨hctl, inv⟩, hloop⟩ := forListLive_inv ld (kb := L + 17) (env := s.frames.size) (x := "item") (a := a)
      (pos := p13) xs (fun i r st => isCtl r = false ∧ FlatInv_L3 s s.frames.size m a b xs i st)
      (fun i r st hI => hcellI i r st hI.2)
      (fun i r st v hI hv => by
        obtain ⟨r', s', h1, h2, h3⟩ := hstep p1 p2 p3 p4 p5 p6 p7 p8 p9 p10 p11 p12 i r st v hI.2 hv
        exact ⟨r', s', h1, h2, h2, h3⟩)
      xs.length 0 (.bool true) t2 (by omega) ⟨rfl, inv0⟩
    have hF := Ev.forList ld (k := 0) (kl := L + 17 + xs.length + 1) (what := what) (x := "item") (pos := p13)
      (by rw [hvars2]; rfl)
      (Ev.ident ld (p := p0) (lookup_local (x := "lst") (callFrame_self inv0.parent (h.lt m hm)) (by rw [hvars2]; rfl)))
      (hcellI 0 (.bool true) t2 inv0) hloop (hcellI _ r st inv)
    refine ⟨r, _, Ev.mono ld hF (show max 0 (L + 17 + xs.length + 1) + 2 ≤ K by omega), hctl, ?_⟩
    have hcb : st.cell b = some (.list (flattenExp_L3 s xs)) := by
      have := inv.cellb; rwa [List.take_length] at this
    cases hxs : xs.isEmpty with
    | true =>
      simp only [if_true]
      refine ⟨inv.ext, hcb, (st.frame s.frames.size).vars, callFrame_self inv.parent (h.lt m hm), ?_⟩
      rcases inv.vars with h | ⟨w, h⟩ <;> rw [h] <;> rfl
    | false =>
      simp only [Bool.false_eq_true, if_false]
      refine ⟨inv.ext.remove hcge _, by rw [cell_remove]; exact hcb,
        ((st.remove s.frames.size "item").frame s.frames.size).vars,
        callFrame_self (by rw [frame_remove_same _ _ inv.clt]; exact inv.parent) (h.lt m hm), ?_⟩
      rw [frame_remove_same _ _ inv.clt]
      rcases inv.vars with h | ⟨w, h⟩ <;> rw [h] <;> rfl
  -- the block
  obtain ⟨r3, t3, hS2, hctl3, E3, hcb3, vars3, hfr3, hres3⟩ := S2 _ _ _ _ _ _ _ _ _ _ _ _ _ _ _
  have S3 : ∀ p, Ev ld K s.frames.size (.ident "result" p) t3 (.ok (.ref b) t3) :=
    fun p => Ev.ident ld (lookup_local hfr3 hres3)
  refine ⟨ghostFin t3 bp, E3.ghostFin _, ?_, hcb3⟩
  exact Ev.mono ld (k := K + 2 + 1 + 1) (Ev.block ld (b := false) (pos := bp)
    (EvBody.cons ld (Ev.mono ld (S1 _ _ _) (show K ≤ K + 2 by omega)) rfl
      (EvBody.cons ld (Ev.mono ld hS2 (show K ≤ K + 1 by omega)) hctl3
        (EvBody.cons ld (S3 _) rfl (EvBody.nil ld))))) (by omega)

/-- `fn.execute(lst = a list cell)` of the function made from the source of `flatten`: a reference to the FRESH cell
    `s.heap.size` holding the one-level flattening -/
theorem flatten_calls_list {s : State} {M nats srcs fn m} (h : LibEnv s M nats srcs) (hn : ∀ x ∈ flattenNats, x ∈ nats)
    (hs : ∀ p ∈ flattenSrcs, p ∈ srcs) (hm : M m) (hsrc : IsSrc s fn list_flatten m) (a : Nat) (xs : List RVal)
    (hc : s.cell a = some (.list xs)) (hrefs : RefsIn_L3 s xs) :
    ∃ s', Ext s s' ∧ s'.cell s.heap.size = some (.list (flattenExp_L3 s xs)) ∧
      ∀ env pos, Calls ld (xs.length + (flattenExp_L3 s xs).length + 25) fn [("lst", .ref a)] env pos s
        (.ok (.ref s.heap.size) s') :=
  calls_of_body1XH_L3 ld (src := list_flatten) (r := fun s' => .ok (.ref s.heap.size) s') rfl rfl rfl
    (by omega) h hm hsrc (.ref a) (fun _ ctx e0 hh => flatten_body ld h hm ctx e0 hh hn hs hc hrefs)

/-! ### the two pure cases and the mirror -/

/-- no element is a list: `flatten` copies -/
theorem flattenExp_nolist_L3 (s : State) (xs : List RVal) (h : ∀ x ∈ xs, isListR s x = false) : flattenExp_L3 s xs = xs := by
  unfold flattenExp_L3
  induction xs with
  | nil => rfl
  | cons x xs ih =>
    rw [List.flatMap_cons, splice_nonlist_L3 (h x (by simp)), ih (fun y hy => h y (by simp [hy]))]; rfl

/-- the value-level reading of an element: a reference to a list cell is the list of its content (one level), everything else is
    kept as the opaque atom `f x` -/
def toVal1_L3 (s : State) (f : RVal → Val) (x : RVal) : Val :=
  if isListR s x then .list ((splice_L3 s x).map f) else f x

/-- **connection to the mirror `Lib.flattenM`**: if the atom reading `f` never produces a `Val.list`, the expected result, read
    through `f`, is `flattenM` of the one-level reading of the argument -/
theorem flattenExp_eq_mirror_L3 (s : State) (f : RVal → Val) (hf : ∀ x ys, f x ≠ .list ys) (xs : List RVal) :
    (flattenExp_L3 s xs).map f = Lib.flattenM (xs.map (toVal1_L3 s f)) := by
  unfold Lib.flattenM flattenExp_L3
  suffices ∀ acc, (xs.map (toVal1_L3 s f)).foldl Lib.flattenStep acc = acc ++ (xs.flatMap (splice_L3 s)).map f by
    simpa using (this []).symm
  induction xs with
  | nil => intro acc; simp
  | cons x xs ih =>
    intro acc
    rw [List.map_cons, List.foldl_cons, ih, List.flatMap_cons, List.map_append, ← List.append_assoc]
    congr 1
    unfold toVal1_L3
    cases hl : isListR s x with
    | true => simp only [if_true, Lib.flattenStep]; exact appendAllM_eq _ _
    | false =>
      simp only [Bool.false_eq_true, if_false, splice_nonlist_L3 hl, List.map_cons, List.map_nil]
      cases hfx : f x with
      | list ys => exact absurd hfx (hf x ys)
      | _ => rfl

end Ckl.C19Src
