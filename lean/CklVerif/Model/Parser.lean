/-
  Layer 2 — parser, part 2: the recursive-descent parser of `src/ckl/parser.py`, production by
  production, as ONE mutual block defined by well-founded recursion — no fuel.

  Termination measure: `(number of remaining tokens, rank)` lexicographically.  A call on the
  same lexer state goes to a function of strictly smaller rank; after at least one token has
  been consumed any function may be called.  Every production returns the new state together
  with the proof that it has fewer (`R`, `OutLt`) or not more (`Rle`, `OutLe`) tokens.

  Every Python `while` loop is a recursive helper (`…Loop`).  `_invoke`, `_call`, `_deref` are
  only called when their leading token (`!>`, `(`, `->`/`[`) has been seen by `peekn`; the model
  consumes that token in the caller (`postfixLoop`) and continues in `invokeBody`, `argsLoop`,
  `derefArrow`, `derefBracket` — the dead "leading token absent" branches are gone.
  `deref_or_call_or_invoke`, `deref_or_invoke`, `invoke` are the three instances of `postfixLoop`.
-/
import CklVerif.Model.ParserBase
namespace Ckl
namespace Parser

local macro "dec_tac" : tactic => `(tactic| all_goals (exact lexLt (by omega)))

local notation "kw" => (some TokType.keyword)
local notation "ip" => (some TokType.interpunction)
local notation "op" => (some TokType.operator)
local notation "idt" => (some TokType.identifier)

-- the whole block is one command: give it head-room, and prove the raw decreasing goals directly
-- (`lexLt` + `omega`) instead of letting `simp` clean up each of the ~200 goals first
set_option maxHeartbeats 400000 in
set_option debug.rawDecreasingByGoal true in
mutual

/-- `parse_bare_block(lexer, toplevel)` -/
def pBareBlock (c : Ctx) (toplevel : Bool) (st : St) : R Node st.toks.length := do
  let bpos := st.posNext
  let ⟨e, s1, h1⟩ ← (if st.peekn 1 c!"do" kw then pBlock c st else pStatement c st)
  if !s1.hasNext then return ⟨e, s1, h1⟩
  let ⟨es, s2, h2⟩ ← bareLoop c s1 [e]
  return ⟨simplifyBlock es [] [] [] toplevel bpos, s2, by omega⟩
termination_by (st.toks.length, 12)
decreasing_by dec_tac

/-- `while lexer.matchIf(";", "interpunction"): …` of `parse_bare_block` -/
def bareLoop (c : Ctx) (st : St) (acc : List Node) : Rle (List Node) st.toks.length :=
  match st.matchIf c!";" ip with
  | none => .ok ⟨acc, st, Nat.le_refl _⟩
  | some ⟨s1, h1⟩ =>
    if !s1.hasNext then .ok ⟨acc, s1, Nat.le_of_lt h1⟩
    else do
      let ⟨e, s2, h2⟩ ← (if s1.peekn 1 c!"do" kw then pBlock c s1 else pStatement c s1)
      let ⟨r, s3, h3⟩ ← bareLoop c s2 (acc ++ [e])
      return ⟨r, s3, by omega⟩
termination_by (st.toks.length, 0)
decreasing_by dec_tac

/-- `parse_block(lexer)` -/
def pBlock (c : Ctx) (st : St) : R Node st.toks.length := do
  let bpos := st.posNext
  let ⟨s1, h1⟩ ← st.expect c!"do" .keyword
  let ⟨es, s2, h2⟩ ← blockLoop c s1 []
  let ⟨(ce, ch), s3, h3⟩ ← catchLoop c s2 [] []
  let ⟨fin, s4, h4⟩ ← (show Rle (List Node) s3.toks.length from
    match s3.matchIf c!"finally" kw with
    | some ⟨s, h⟩ => wkLe (Nat.le_of_lt h) (finallyLoop c s [])
    | none => .ok ⟨[], s3, Nat.le_refl _⟩)
  let ⟨s5, h5⟩ ← s4.expect c!"end" .keyword
  return ⟨simplifyBlock es ce ch fin false bpos, s5, by omega⟩
termination_by (st.toks.length, 0)
decreasing_by dec_tac

/-- first `while` loop of `parse_block`: the statements up to `end` / `catch` / `finally` -/
def blockLoop (c : Ctx) (st : St) (acc : List Node) : Rle (List Node) st.toks.length :=
  if isEndCatchFinally st then .ok ⟨acc, st, Nat.le_refl _⟩
  else do
    let ⟨e, s1, h1⟩ ← (if st.peekn 1 c!"do" kw then pBlock c st else pStatement c st)
    if isEndCatchFinally s1 then return ⟨acc ++ [e], s1, by omega⟩
    let ⟨s2, h2⟩ ← s1.expect c!";" .interpunction
    let ⟨r, s3, h3⟩ ← blockLoop c s2 (acc ++ [e])
    return ⟨r, s3, by omega⟩
termination_by (st.toks.length, 12)
decreasing_by dec_tac

/-- `while lexer.matchIf("catch", "keyword"): …` -/
def catchLoop (c : Ctx) (st : St) (errs handlers : List Node) : Rle (List Node × List Node) st.toks.length :=
  match st.matchIf c!"catch" kw with
  | none => .ok ⟨(errs, handlers), st, Nat.le_refl _⟩
  | some ⟨s1, h1⟩ => do
    let ⟨err, s2, h2⟩ ← (show Rle Node s1.toks.length from
      match s1.matchIf c!"all" idt with
      | some ⟨s, h⟩ => .ok ⟨Node.catchAll, s, Nat.le_of_lt h⟩
      | none => ltLe (Nat.le_refl _) (pExpression c s1))
    let ⟨ex, s3, h3⟩ ← (if s2.peekn 1 c!"do" kw then pBlock c s2 else pStatement c s2)
    let ⟨s4, h4⟩ := s3.skipIf c!";" ip
    let ⟨r, s5, h5⟩ ← catchLoop c s4 (errs ++ [err]) (handlers ++ [ex])
    return ⟨r, s5, by omega⟩
termination_by (st.toks.length, 0)
decreasing_by dec_tac

/-- `while not lexer.peekn(1, "end", "keyword"): …` of the `finally` part -/
def finallyLoop (c : Ctx) (st : St) (acc : List Node) : Rle (List Node) st.toks.length :=
  if st.peekn 1 c!"end" kw then .ok ⟨acc, st, Nat.le_refl _⟩
  else do
    let ⟨e, s1, h1⟩ ← (if st.peekn 1 c!"do" kw then pBlock c st else pStatement c st)
    if s1.peekn 1 c!"end" kw then return ⟨acc ++ [e], s1, by omega⟩
    let ⟨s2, h2⟩ ← s1.expect c!";" .interpunction
    let ⟨r, s3, h3⟩ ← finallyLoop c s2 (acc ++ [e])
    return ⟨r, s3, by omega⟩
termination_by (st.toks.length, 12)
decreasing_by dec_tac

/-- `parse_statement(lexer, toplevel)` -/
def pStatement (c : Ctx) (st : St) : R Node st.toks.length :=
  if !st.hasNext then .error (errEof st.prev) else
  match takeComment st with
  | (comment, ⟨s0, h0⟩) =>
  match s0.matchIf c!"require" kw with
  | some ⟨s1, h1⟩ => do
    let pos := s1.prev
    let ⟨spec, s2, h2⟩ ← pExpression c s1
    match s2.matchIf c!"unqualified" idt with
    | some ⟨s3, h3⟩ => return ⟨.require spec none true none pos, s3, by omega⟩
    | none =>
    match s2.matchIf2 c!"import" idt c!"[" ip with
    | some ⟨s3, h3⟩ => do
      let ⟨syms, s4, h4⟩ ← requireSymLoop s3 []
      let ⟨s5, h5⟩ ← s4.expect c!"]" .interpunction
      return ⟨.require spec none false (some syms) pos, s5, by omega⟩
    | none =>
    match s2.matchIf c!"as" kw with
    | some ⟨s3, h3⟩ => do
      let ⟨name, s4, h4⟩ ← s3.matchIdentifier
      return ⟨.require spec (some (str name)) false none pos, s4, by omega⟩
    | none => return ⟨.require spec none false none pos, s2, by omega⟩
  | none =>
  match s0.matchIf c!"def" kw with
  | some ⟨s1, h1⟩ => wkLt (by omega) (pDef c (str comment) s1)
  | none =>
  match s0.matchIf c!"for" kw with
  | some ⟨s1, h1⟩ => do
    let pos := s1.prev
    let ⟨ids, s2, h2⟩ ← forIdents c s1
    let ⟨s3, h3⟩ ← s2.expect c!"in" .keyword
    let (what, ⟨s4, h4⟩) := matchWhat s3
    let ⟨e, s5, h5⟩ ← pExpression c s4
    if s5.peekn 1 c!"do" kw then
      let ⟨b, s6, h6⟩ ← pBlock c s5
      return ⟨.for (ids.map str) e b (what.getD "values") pos, s6, by omega⟩
    else
      let ⟨b, s6, h6⟩ ← pExpression c s5
      return ⟨.for (ids.map str) e b (what.getD "values") pos, s6, by omega⟩
  | none =>
  match s0.matchIf c!"while" kw with
  | some ⟨s1, h1⟩ => do
    let pos := s1.prev
    let ⟨e, s2, h2⟩ ← pOr c s1
    let ⟨b, s3, h3⟩ ← pBlock c s2
    return ⟨.while e b pos, s3, by omega⟩
  | none => wkLt h0 (pExpression c s0)
termination_by (st.toks.length, 11)
decreasing_by dec_tac

/-- the `def` statement after the keyword `def` (`st.prev` is its position) -/
def pDef (c : Ctx) (comment : String) (st : St) : R Node st.toks.length :=
  let pos := st.prev
  match st.matchIf c!"[" ip with
  | some ⟨s1, h1⟩ => do
    let ⟨ids, s2, h2⟩ ← identListLoop c true s1 []
    let ⟨s3, h3⟩ ← s2.expect c!"]" .interpunction
    let ⟨s4, h4⟩ ← s3.expect c!"=" .operator
    let ⟨e, s5, h5⟩ ← pExpression c s4
    return ⟨.defD (ids.map str) e comment pos, s5, by omega⟩
  | none => do
    let ⟨t, s1, h1⟩ ← st.next c
    let isClass ← (show Except PErr Bool from
      if t.type == .identifier && t.value == c!"class" then do
        let t2 ← s1.peek c
        pure (t2.type == .identifier)
      else pure false)
    if isClass then
      let ⟨t2, s2, h2⟩ ← s1.next c
      checkRedefineKeyword t2
      checkExpectedIdentifier t2
      let ⟨s3, h3⟩ ← s2.expect c!"do" .keyword
      let ⟨members, s4, h4⟩ ← classLoop c comment s3 []
      let ⟨s5, h5⟩ ← s4.expect c!"end" .keyword
      return ⟨.cls (str t2.value) members pos, s5, by omega⟩
    else
      checkRedefineKeyword t
      checkExpectedIdentifier t
      let ⟨d, s2, h2⟩ ← pDefTail c t.value comment pos s1
      return ⟨d, s2, by omega⟩
termination_by (st.toks.length, 0)
decreasing_by dec_tac

/-- after `def NAME`: a function `( … ) body` or `= expression` -/
def pDefTail (c : Ctx) (name : List Char) (comment : String) (pos : Pos) (st : St) : R Node st.toks.length :=
  if st.peekn 1 c!"(" ip then do
    let ⟨f, s1, h1⟩ ← pFn c pos st
    return ⟨.defn (str name) f comment pos, s1, h1⟩
  else do
    let ⟨s1, h1⟩ ← st.expect c!"=" .operator
    let ⟨e, s2, h2⟩ ← pExpression c s1
    return ⟨.defn (str name) e comment pos, s2, by omega⟩
termination_by (st.toks.length, 1)
decreasing_by dec_tac

/-- `while not lexer.peekn(1, "end", "keyword"): …` of a class body -/
def classLoop (c : Ctx) (comment : String) (st : St) (acc : List Node) : Rle (List Node) st.toks.length :=
  if st.peekn 1 c!"end" kw then .ok ⟨acc, st, Nat.le_refl _⟩
  else
    match st.matchIf c!"def" kw with
    | some ⟨s1, h1⟩ => do
      let pos := s1.prev
      let ⟨t, s2, h2⟩ ← s1.next c
      checkRedefineKeyword t
      checkExpectedIdentifier t
      let ⟨d, s3, h3⟩ ← pDefTail c t.value comment pos s2
      let ⟨s4, h4⟩ := s3.skipIf c!";" ip
      let ⟨r, s5, h5⟩ ← classLoop c comment s4 (acc ++ [d])
      return ⟨r, s5, by omega⟩
    | none => do
      let ⟨t, _, _⟩ ← st.next c
      .error (mkErr ("Expected def or end but got '" ++ tokRepr t ++ "'") t.pos)
termination_by (st.toks.length, 0)
decreasing_by dec_tac

/-- `parse_expression(lexer)` -/
def pExpression (c : Ctx) (st : St) : R Node st.toks.length :=
  match st.matchIf c!"if" kw with
  | some ⟨s1, h1⟩ => do
    let pos := st.posNext
    let ⟨(cond, e), s2, h2⟩ ← ifClause c s1
    let ⟨(conds, es), s3, h3⟩ ← ifLoop c s2 [cond] [e]
    match s3.matchIf c!"else" kw with
    | some ⟨s4, h4⟩ =>
      if s4.peekn 1 c!"do" kw then do
        let ⟨el, s5, h5⟩ ← pBlock c s4
        return ⟨.ite conds es el pos, s5, by omega⟩
      else do
        let ⟨el, s5, h5⟩ ← pOr c s4
        return ⟨.ite conds es el pos, s5, by omega⟩
    | none => return ⟨.ite conds es (.lit (.bool true) pos) pos, s3, by omega⟩
  | none => pOr c st
termination_by (st.toks.length, 10)
decreasing_by dec_tac

/-- body of the `if`/`elif` loop: `condition then (block | or-expression)` -/
def ifClause (c : Ctx) (st : St) : R (Node × Node) st.toks.length := do
  let ⟨cond, s1, h1⟩ ← pOr c st
  let ⟨s2, h2⟩ ← s1.expect c!"then" .keyword
  if s2.peekn 1 c!"do" kw then
    let ⟨e, s3, h3⟩ ← pBlock c s2
    return ⟨(cond, e), s3, by omega⟩
  else
    let ⟨e, s3, h3⟩ ← pOr c s2
    return ⟨(cond, e), s3, by omega⟩
termination_by (st.toks.length, 10)
decreasing_by dec_tac

/-- `while lexer.matchIf("if", "keyword") or lexer.matchIf("elif", "keyword"): …` (after the first round) -/
def ifLoop (c : Ctx) (st : St) (conds es : List Node) : Rle (List Node × List Node) st.toks.length :=
  match (st.matchIf c!"if" kw).orElse (fun _ => st.matchIf c!"elif" kw) with
  | some ⟨s1, h1⟩ => do
    let ⟨(cond, e), s2, h2⟩ ← ifClause c s1
    let ⟨r, s3, h3⟩ ← ifLoop c s2 (conds ++ [cond]) (es ++ [e])
    return ⟨r, s3, by omega⟩
  | none => .ok ⟨(conds, es), st, Nat.le_refl _⟩
termination_by (st.toks.length, 0)
decreasing_by dec_tac

/-- `parse_or_expr` -/
def pOr (c : Ctx) (st : St) : R Node st.toks.length := do
  let ⟨e, s1, h1⟩ ← pAnd c st
  if s1.peekn 1 c!"or" kw then
    let ⟨es, s2, h2⟩ ← orLoop c s1 [e]
    return ⟨.or es s1.posNext, s2, by omega⟩
  else return ⟨e, s1, h1⟩
termination_by (st.toks.length, 9)
decreasing_by dec_tac

def orLoop (c : Ctx) (st : St) (acc : List Node) : Rle (List Node) st.toks.length :=
  match st.matchIf c!"or" kw with
  | some ⟨s1, h1⟩ => do
    let ⟨e, s2, h2⟩ ← pAnd c s1
    let ⟨r, s3, h3⟩ ← orLoop c s2 (acc ++ [e])
    return ⟨r, s3, by omega⟩
  | none => .ok ⟨acc, st, Nat.le_refl _⟩
termination_by (st.toks.length, 0)
decreasing_by dec_tac

/-- `parse_and_expr` -/
def pAnd (c : Ctx) (st : St) : R Node st.toks.length := do
  let ⟨e, s1, h1⟩ ← pNot c st
  if s1.peekn 1 c!"and" kw then
    let ⟨es, s2, h2⟩ ← andLoop c s1 [e]
    return ⟨.and es s1.posNext, s2, by omega⟩
  else return ⟨e, s1, h1⟩
termination_by (st.toks.length, 8)
decreasing_by dec_tac

def andLoop (c : Ctx) (st : St) (acc : List Node) : Rle (List Node) st.toks.length :=
  match st.matchIf c!"and" kw with
  | some ⟨s1, h1⟩ => do
    let ⟨e, s2, h2⟩ ← pNot c s1
    let ⟨r, s3, h3⟩ ← andLoop c s2 (acc ++ [e])
    return ⟨r, s3, by omega⟩
  | none => .ok ⟨acc, st, Nat.le_refl _⟩
termination_by (st.toks.length, 0)
decreasing_by dec_tac

/-- `parse_not_expr` -/
def pNot (c : Ctx) (st : St) : R Node st.toks.length :=
  match st.matchIf c!"not" kw with
  | some ⟨s1, h1⟩ => do
    let pos := s1.prev
    let ⟨e, s2, h2⟩ ← pRel c s1
    return ⟨.not e pos, s2, by omega⟩
  | none => pRel c st
termination_by (st.toks.length, 7)
decreasing_by dec_tac

/-- `parse_rel_expr` -/
def pRel (c : Ctx) (st : St) : R Node st.toks.length := do
  let ⟨e, s1, h1⟩ ← pAdd c st
  if !relGuard s1 then return ⟨e, s1, h1⟩
  let pos := s1.posNext
  let ⟨cmps, s2, h2⟩ ← relLoop c s1 e []
  -- `NodeAnd.getSimplified`
  let result := match cmps with
    | [x] => x
    | _ => Node.and cmps pos
  return ⟨result, s2, by omega⟩
termination_by (st.toks.length, 6)
decreasing_by dec_tac

def relLoop (c : Ctx) (st : St) (lhs : Node) (acc : List Node) : Rle (List Node) st.toks.length := do
  match ← relopNext c st with
  | none => return ⟨acc, st, Nat.le_refl _⟩
  | some (relop, ⟨s1, h1⟩) =>
    let pos := s1.prev
    let ⟨rhs, s2, h2⟩ ← pAdd c s1
    let ⟨r, s3, h3⟩ ← relLoop c s2 rhs (acc ++ [relCmp relop lhs rhs pos])
    return ⟨r, s3, by omega⟩
termination_by (st.toks.length, 0)
decreasing_by dec_tac

/-- `parse_add_expr` -/
def pAdd (c : Ctx) (st : St) : R Node st.toks.length := do
  let ⟨e, s1, h1⟩ ← pMul c st
  let ⟨r, s2, h2⟩ ← addLoop c s1 e
  return ⟨r, s2, by omega⟩
termination_by (st.toks.length, 5)
decreasing_by dec_tac

def addLoop (c : Ctx) (st : St) (e : Node) : Rle Node st.toks.length :=
  match matchOpTable st addOps with
  | some (fn, ⟨s1, h1⟩) => do
    let pos := s1.prev
    let ⟨r, s2, h2⟩ ← pMul c s1
    let ⟨x, s3, h3⟩ ← addLoop c s2 (funcCallAB fn e r pos)
    return ⟨x, s3, by omega⟩
  | none => .ok ⟨e, st, Nat.le_refl _⟩
termination_by (st.toks.length, 0)
decreasing_by dec_tac

/-- `parse_mul_expr` -/
def pMul (c : Ctx) (st : St) : R Node st.toks.length := do
  let ⟨e, s1, h1⟩ ← pUnary c st
  let ⟨r, s2, h2⟩ ← mulLoop c s1 e
  return ⟨r, s2, by omega⟩
termination_by (st.toks.length, 4)
decreasing_by dec_tac

def mulLoop (c : Ctx) (st : St) (e : Node) : Rle Node st.toks.length :=
  match matchOpTable st mulOps with
  | some (fn, ⟨s1, h1⟩) => do
    let pos := s1.prev
    let ⟨r, s2, h2⟩ ← pUnary c s1
    let ⟨x, s3, h3⟩ ← mulLoop c s2 (funcCallAB fn e r pos)
    return ⟨x, s3, by omega⟩
  | none => .ok ⟨e, st, Nat.le_refl _⟩
termination_by (st.toks.length, 0)
decreasing_by dec_tac

/-- `parse_unary_expr` -/
def pUnary (c : Ctx) (st : St) : R Node st.toks.length :=
  match st.matchIf c!"+" op with
  | some ⟨s1, h1⟩ => wkLt (Nat.le_of_lt h1) (pPred c false s1)
  | none =>
  match st.matchIf c!"-" op with
  | some ⟨s1, h1⟩ => do
    let pos := s1.prev
    let t ← s1.peek c
    if t.type == .int || t.type == .decimal then
      let ⟨e, s2, h2⟩ ← pPred c true s1
      return ⟨e, s2, by omega⟩
    else
      let ⟨e, s2, h2⟩ ← pPred c false s1
      return ⟨.call (.ident "sub" pos) [some "a", some "b"] [.lit (.int 0) pos, e] pos, s2, by omega⟩
  | none => pPred c false st
termination_by (st.toks.length, 3)
decreasing_by dec_tac

/-- `parse_pred_expr(lexer, unary_minus)` -/
def pPred (c : Ctx) (um : Bool) (st : St) : R Node st.toks.length := do
  let ⟨e, s1, h1⟩ ← pPrimary c um st
  let pos := s1.posNext
  match s1.matchIf c!"is" kw with
  | some ⟨s2, h2⟩ =>
    match s2.matchIf c!"not" kw with
    | some ⟨s3, h3⟩ =>
      match isPredTable s3 true with
      | some (p, ⟨s4, h4⟩) =>
        let ⟨n, s5, h5⟩ ← applyIsPred c p e pos s4
        return ⟨.not n pos, s5, by omega⟩
      | none => return ⟨e, s1, h1⟩          -- `lexer.previous()` twice
    | none =>
      match isPredTable s2 false with
      | some (p, ⟨s4, h4⟩) =>
        let ⟨n, s5, h5⟩ ← applyIsPred c p e pos s4
        return ⟨n, s5, by omega⟩
      | none => return ⟨e, s1, h1⟩          -- `lexer.previous()`
  | none =>
    match binPredTable s1 with
    | some (.isIn neg, ⟨s2, h2⟩) =>
      let ⟨r, s3, h3⟩ ← pPrimary c false s2
      let n := Node.isIn e r pos
      return ⟨if neg then .not n pos else n, s3, by omega⟩
    | some (.call neg fn a b, ⟨s2, h2⟩) =>
      let ⟨r, s3, h3⟩ ← pPrimary c false s2
      let n := funcCall2 fn a e b r pos
      return ⟨if neg then .not n pos else n, s3, by omega⟩
    | none => return ⟨e, s1, h1⟩
termination_by (st.toks.length, 2)
decreasing_by dec_tac

/-- the right-hand side of `is [not] P` once `P` has been recognised -/
def applyIsPred (c : Ctx) (p : IsPred) (e : Node) (pos : Pos) (st : St) : Rle Node st.toks.length :=
  match p with
  | .isIn => do
    let ⟨r, s1, h1⟩ ← pPrimary c false st
    return ⟨.isIn e r pos, s1, Nat.le_of_lt h1⟩
  | .simple fn => .ok ⟨funcCallObj fn e pos, st, Nat.le_refl _⟩
  | .minmax fn => pCollectMinMax c fn (funcCallObj "string" e pos) pos st
  | .valid fn fmt =>
    .ok ⟨funcCall2 fn "str" (funcCallObj "string" e pos) "fmt" (strLit fmt pos) pos, st, Nat.le_refl _⟩
  | .type name =>
    .ok ⟨funcCallAB "equals" (funcCallObj "type" e pos) (strLit name pos) pos, st, Nat.le_refl _⟩
termination_by (st.toks.length, 14)
decreasing_by dec_tac

/-- `collect_predicate_min_max_exact(fn, expr, lexer, pos)` -/
def pCollectMinMax (c : Ctx) (fn : String) (e : Node) (pos : Pos) (st : St) : Rle Node st.toks.length := do
  let ⟨mn, s1, h1⟩ ← optPrimary c c!"min_len" (.lit (.int 0) pos) st
  let ⟨mx, s2, h2⟩ ← optPrimary c c!"max_len" (.lit (.int 9999) pos) s1
  match s2.matchIf c!"exact_len" idt with
  | some ⟨s3, h3⟩ =>
    let ⟨x, s4, h4⟩ ← pPrimary c false s3
    return ⟨funcCall3 fn "str" e "min" x "max" x pos, s4, by omega⟩
  | none => return ⟨funcCall3 fn "str" e "min" mn "max" mx pos, s2, by omega⟩
termination_by (st.toks.length, 13)
decreasing_by dec_tac

/-- `if lexer.matchIf(word, "identifier"): x = parse_primary_expr(lexer)` -/
def optPrimary (c : Ctx) (word : List Char) (dflt : Node) (st : St) : Rle Node st.toks.length :=
  match st.matchIf word idt with
  | some ⟨s1, h1⟩ => ltLe (Nat.le_of_lt h1) (pPrimary c false s1)
  | none => .ok ⟨dflt, st, Nat.le_refl _⟩
termination_by (st.toks.length, 12)
decreasing_by dec_tac

/-- `parse_primary_expr(lexer, unary_minus)` -/
def pPrimary (c : Ctx) (um : Bool) (st : St) : R Node st.toks.length :=
  if !st.hasNext then .error (errEof st.prev) else do
  let ⟨t, s1, h1⟩ ← st.next c
  if t.value == c!"(" && t.type == .interpunction then
    let ⟨r, s2, h2⟩ ← pBareBlock c false s1
    let ⟨s3, h3⟩ ← s2.expect c!")" .interpunction
    let ⟨r', s4, h4⟩ ← postfixLoop c true true s3 r
    return ⟨r', s4, by omega⟩
  match t.type with
  | .identifier =>
    let idn := Node.ident (str t.value) t.pos
    match s1.matchIf c!"=" op with
    | some ⟨s2, h2⟩ =>
      let ⟨e, s3, h3⟩ ← pExpression c s2
      let n ← mkAssign t.value e t.pos
      return ⟨n, s3, by omega⟩
    | none =>
    match matchOpTable s1 compoundOps with
    | some (fn, ⟨s2, h2⟩) =>
      let ⟨v, s3, h3⟩ ← pExpression c s2
      let n ← mkAssign t.value (funcCallAB fn idn v t.pos) t.pos
      return ⟨n, s3, by omega⟩
    | none => leLt h1 (postfixLoop c true true s1 idn)
  | .string => leLt h1 (postfixLoop c false true s1 (strLit t.value t.pos))
  | .int =>
    match parseIntLit t.value with
    | none => .error (mkErr "Invalid int literal" t.pos)
    | some n => leLt h1 (postfixLoop c false false s1 (.lit (.int (if um then -(n : Int) else (n : Int))) t.pos))
  | .decimal =>
    match parseDecimal t.value with
    | none => .error (mkErr "Invalid decimal literal" t.pos)
    | some (m, e) => leLt h1 (postfixLoop c false false s1 (.lit (.dec (if um then -m else m) e) t.pos))
  | .boolean => leLt h1 (postfixLoop c false false s1 (.lit (.bool (t.value == c!"TRUE")) t.pos))
  | .pattern =>
    let inner := (t.value.take (t.value.length - 2)).drop 2
    if c.validRe inner then leLt h1 (postfixLoop c false false s1 (.lit (.pat inner) t.pos))
    else .error (mkErr "Invalid pattern literal" t.pos)
  | _ =>
    if t.value == c!"do" && t.type == .keyword then pBlock c st      -- `lexer.previous()`
    else leLt h1 (pPrimaryKw c t s1)
termination_by (st.toks.length, 1)
decreasing_by dec_tac

/-- the keyword / interpunction alternatives of `parse_primary_expr` (the token `t` is consumed) -/
def pPrimaryKw (c : Ctx) (t : Token) (st : St) : Rle Node st.toks.length :=
  let invalid : Rle Node st.toks.length := .error (mkErr ("Invalid syntax at '" ++ tokRepr t ++ "'") t.pos)
  if t.type == .keyword then
    if t.value == c!"fn" then ltLe (Nat.le_refl _) (pFn c t.pos st)
    else if t.value == c!"break" then .ok ⟨.brk t.pos, st, Nat.le_refl _⟩
    else if t.value == c!"continue" then .ok ⟨.cont t.pos, st, Nat.le_refl _⟩
    else if t.value == c!"return" then
      if st.peekn 1 c!";" ip then .ok ⟨.ret .absent t.pos, st, Nat.le_refl _⟩
      else do
        let ⟨e, s1, h1⟩ ← pExpression c st
        return ⟨.ret e t.pos, s1, Nat.le_of_lt h1⟩
    else if t.value == c!"error" then do
      let ⟨e, s1, h1⟩ ← pExpression c st
      return ⟨.error e t.pos, s1, Nat.le_of_lt h1⟩
    else invalid
  else if t.type == .interpunction then
    if t.value == c!"[" then do
      let ⟨r, s1, h1⟩ ← pListLiteral c t.pos st
      if s1.peekn 1 c!"=" op then
        match r with
        | .list items _ =>
          match identNames items with
          | .error _ => .error (mkErr "Destructuring assign expected identifier but got …" t.pos)
          | .ok names =>
            let ⟨s2, h2⟩ ← s1.expect c!"=" .operator
            let ⟨e, s3, h3⟩ ← pExpression c s2
            let n ← mkAssignD names e t.pos
            return ⟨n, s3, by omega⟩
        | _ => .error (mkErr "Destructuring assign expected a list of identifiers" t.pos)
      else return ⟨r, s1, Nat.le_of_lt h1⟩
    else if t.value == c!"<<" then ltLe (Nat.le_refl _) (pSetLiteral c t.pos st)
    else if t.value == c!"<<<" then ltLe (Nat.le_refl _) (pMapLiteral c t.pos st)
    else if t.value == c!"<*" then ltLe (Nat.le_refl _) (pObjectLiteral c t.pos st)
    else if t.value == c!"..." then do
      let ⟨t2, s1, h1⟩ ← st.next c
      if t2.value == c!"[" && t2.type == .interpunction then
        let ⟨r, s2, h2⟩ ← pListLiteral c t2.pos s1
        return ⟨.spread r t2.pos, s2, by omega⟩
      else if t2.value == c!"<<<" && t2.type == .interpunction then
        let ⟨r, s2, h2⟩ ← pMapLiteral c t2.pos s1
        return ⟨.spread r t2.pos, s2, by omega⟩
      else if t2.type == .identifier then
        return ⟨.spread (.ident (str t2.value) t2.pos) t2.pos, s1, Nat.le_of_lt h1⟩
      else .error (mkErr "Spread operator only allowed with identifiers, list and map literals" t2.pos)
    else invalid
  else invalid
termination_by (st.toks.length, 15)
decreasing_by dec_tac

/-- `parse_list_literal(lexer, token)` (`[` consumed, `tpos` its position) -/
def pListLiteral (c : Ctx) (tpos : Pos) (st : St) : R Node st.toks.length :=
  match st.matchIf c!"]" ip with
  | some ⟨s1, h1⟩ => leLt h1 (postfixLoop c false true s1 (.list [] tpos))
  | none => do
    let ⟨e, s1, h1⟩ ← pExpression c st
    match s1.matchIf c!"for" kw with
    | some ⟨s2, h2⟩ =>
      let ⟨r, s3, h3⟩ ← pComprRest c .list true c!"]" tpos e .absent s2
      return ⟨r, s3, by omega⟩
    | none =>
      let ⟨items, s2, h2⟩ ← listLoop c s1 [] (some e)
      let ⟨s3, h3⟩ ← s2.expect c!"]" .interpunction
      let ⟨r, s4, h4⟩ ← postfixLoop c false true s3 (.list items tpos)
      return ⟨r, s4, by omega⟩
termination_by (st.toks.length, 11)
decreasing_by dec_tac

/-- the item loop of a list literal; `pending` is the Python variable `expr` -/
def listLoop (c : Ctx) (st : St) (items : List Node) (pending : Option Node) : Rle (List Node) st.toks.length :=
  if st.peekn 1 c!"]" ip then .ok ⟨items ++ pending.toList, st, Nat.le_refl _⟩
  else do
    let items := items ++ [pending.getD .absent]
    let ⟨s1, h1⟩ ← st.expect c!"," .interpunction
    if s1.peekn 1 c!"]" ip then
      return ⟨items, s1, Nat.le_of_lt h1⟩
    else
      let ⟨e, s2, h2⟩ ← pExpression c s1
      let ⟨r, s3, h3⟩ ← listLoop c s2 items (some e)
      return ⟨r, s3, by omega⟩
termination_by (st.toks.length, 0)
decreasing_by dec_tac

/-- `IDENT in [keys|values|entries] or-expression` of a comprehension -/
def comprClause (c : Ctx) (st : St) : R (String × Option String × Node) st.toks.length := do
  let ⟨name, s1, h1⟩ ← st.matchIdentifier
  let ⟨s2, h2⟩ ← s1.expect c!"in" .keyword
  let (what, ⟨s3, h3⟩) := matchWhat s2
  let ⟨l, s4, h4⟩ ← pOr c s3
  return ⟨(str name, what, l), s4, by omega⟩
termination_by (st.toks.length, 0)
decreasing_by dec_tac

/-- a comprehension after its first `for` (shared by list, set and map literals; `multi` is
    false for maps, which have neither `for … for` nor `also for`) -/
def pComprRest (c : Ctx) (kind : ComprKind) (multi : Bool) (closer : List Char) (tpos : Pos)
    (valueExpr keyExpr : Node) (st : St) : R Node st.toks.length := do
  let ⟨(id1, what1, l1), s1, h1⟩ ← comprClause c st
  match (if multi then s1.matchIf c!"for" kw else none) with
  | some ⟨s2, h2⟩ =>
    let ⟨(id2, what2, l2), s3, h3⟩ ← comprClause c s2
    let ⟨r, s4, h4⟩ ← comprFinish c
      (fun cond => .compr kind .product valueExpr keyExpr id1 l1 what1 id2 l2 what2 cond tpos) closer s3
    return ⟨r, s4, by omega⟩
  | none =>
  match (if multi then s1.matchIf2 c!"also" kw c!"for" kw else none) with
  | some ⟨s2, h2⟩ =>
    let ⟨(id2, what2, l2), s3, h3⟩ ← comprClause c s2
    let ⟨r, s4, h4⟩ ← comprFinish c
      (fun cond => .compr kind .parallel valueExpr keyExpr id1 l1 what1 id2 l2 what2 cond tpos) closer s3
    return ⟨r, s4, by omega⟩
  | none =>
    let ⟨r, s4, h4⟩ ← comprFinish c
      (fun cond => .compr kind .single valueExpr keyExpr id1 l1 what1 "" .absent none cond tpos) closer s1
    return ⟨r, s4, by omega⟩
termination_by (st.toks.length, 1)
decreasing_by dec_tac

/-- `if matchIf("if"): setCondition(parse_or_expr); match(closer); return deref_or_invoke(..)` -/
def comprFinish (c : Ctx) (mk : Node → Node) (closer : List Char) (st : St) : R Node st.toks.length := do
  let ⟨cond, s1, h1⟩ ← (show Rle Node st.toks.length from
    match st.matchIf c!"if" kw with
    | some ⟨s, h⟩ => ltLe (Nat.le_of_lt h) (pOr c s)
    | none => .ok ⟨.absent, st, Nat.le_refl _⟩)
  let ⟨s2, h2⟩ ← s1.expect closer .interpunction
  let ⟨r, s3, h3⟩ ← postfixLoop c false true s2 (mk cond)
  return ⟨r, s3, by omega⟩
termination_by (st.toks.length, 0)
decreasing_by dec_tac

/-- `parse_set_literal(lexer, token)` -/
def pSetLiteral (c : Ctx) (tpos : Pos) (st : St) : R Node st.toks.length :=
  match st.matchIf c!">>" ip with
  | some ⟨s1, h1⟩ => leLt h1 (postfixLoop c false true s1 (.set [] tpos))
  | none => do
    let ⟨e, s1, h1⟩ ← pExpression c st
    match s1.matchIf c!"for" kw with
    | some ⟨s2, h2⟩ =>
      let ⟨r, s3, h3⟩ ← pComprRest c .set true c!">>" tpos e .absent s2
      return ⟨r, s3, by omega⟩
    | none =>
      let ⟨s2, h2⟩ ← sepUnless s1 c!">>"
      let ⟨items, s3, h3⟩ ← setLoop c s2 [e]
      let ⟨s4, h4⟩ ← s3.expect c!">>" .interpunction
      let ⟨r, s5, h5⟩ ← postfixLoop c false true s4 (.set items tpos)
      return ⟨r, s5, by omega⟩
termination_by (st.toks.length, 11)
decreasing_by dec_tac

def setLoop (c : Ctx) (st : St) (items : List Node) : Rle (List Node) st.toks.length :=
  if st.peekn 1 c!">>" ip then .ok ⟨items, st, Nat.le_refl _⟩
  else do
    let ⟨e, s1, h1⟩ ← pExpression c st
    let ⟨s2, h2⟩ ← sepUnless s1 c!">>"
    let ⟨r, s3, h3⟩ ← setLoop c s2 (items ++ [e])
    return ⟨r, s3, by omega⟩
termination_by (st.toks.length, 11)
decreasing_by dec_tac

/-- `parse_map_literal(lexer, token)` -/
def pMapLiteral (c : Ctx) (tpos : Pos) (st : St) : R Node st.toks.length :=
  match st.matchIf c!">>>" ip with
  | some ⟨s1, h1⟩ => leLt h1 (postfixLoop c false true s1 (.map [] [] tpos))
  | none => do
    let ⟨k, s1, h1⟩ ← pExpression c st
    let ⟨s2, h2⟩ ← s1.expect c!"=>" .interpunction
    let ⟨v, s3, h3⟩ ← pExpression c s2
    match s3.matchIf c!"for" kw with
    | some ⟨s4, h4⟩ =>
      let ⟨r, s5, h5⟩ ← pComprRest c .map false c!">>>" tpos v k s4
      return ⟨r, s5, by omega⟩
    | none =>
      let ⟨s4, h4⟩ ← sepUnless s3 c!">>>"
      let ⟨(ks, vs), s5, h5⟩ ← mapLoop c s4 [mapKey k] [v]
      let ⟨s6, h6⟩ ← s5.expect c!">>>" .interpunction
      let ⟨r, s7, h7⟩ ← postfixLoop c false true s6 (.map ks vs tpos)
      return ⟨r, s7, by omega⟩
termination_by (st.toks.length, 11)
decreasing_by dec_tac

def mapLoop (c : Ctx) (st : St) (ks vs : List Node) : Rle (List Node × List Node) st.toks.length :=
  if st.peekn 1 c!">>>" ip then .ok ⟨(ks, vs), st, Nat.le_refl _⟩
  else do
    let ⟨k, s1, h1⟩ ← pExpression c st
    let ⟨s2, h2⟩ ← s1.expect c!"=>" .interpunction
    let ⟨v, s3, h3⟩ ← pExpression c s2
    let ⟨s4, h4⟩ ← sepUnless s3 c!">>>"
    let ⟨r, s5, h5⟩ ← mapLoop c s4 (ks ++ [mapKey k]) (vs ++ [v])
    return ⟨r, s5, by omega⟩
termination_by (st.toks.length, 11)
decreasing_by dec_tac

/-- `parse_object_literal(lexer, token)` -/
def pObjectLiteral (c : Ctx) (tpos : Pos) (st : St) : R Node st.toks.length := do
  let ⟨(ks, vs), s1, h1⟩ ← objLoop c st [] []
  let ⟨s2, h2⟩ ← s1.expect c!"*>" .interpunction
  let ⟨r, s3, h3⟩ ← postfixLoop c false true s2 (.object ks vs tpos)
  return ⟨r, s3, by omega⟩
termination_by (st.toks.length, 1)
decreasing_by dec_tac

def objLoop (c : Ctx) (st : St) (ks : List String) (vs : List Node) : Rle (List String × List Node) st.toks.length :=
  if st.peekn 1 c!"*>" ip then .ok ⟨(ks, vs), st, Nat.le_refl _⟩
  else do
    let ⟨key, s1, h1⟩ ← st.matchIdentifier
    let ⟨v, s2, h2⟩ ← (show R Node s1.toks.length from
      if s1.peekn 1 c!"(" ip then pFn c s1.prev s1
      else do
        let ⟨sa, ha⟩ ← s1.expect c!"=" .operator
        let ⟨v, sb, hb⟩ ← pExpression c sa
        return ⟨v, sb, by omega⟩)
    let ⟨s3, h3⟩ ← sepUnless s2 c!"*>"
    let ⟨r, s4, h4⟩ ← objLoop c s3 (ks ++ [str key]) (vs ++ [v])
    return ⟨r, s4, by omega⟩
termination_by (st.toks.length, 0)
decreasing_by dec_tac

/-- `parse_fn(lexer, pos)` -/
def pFn (c : Ctx) (pos : Pos) (st : St) : R Node st.toks.length := do
  let ⟨s1, h1⟩ ← st.expect c!"(" .interpunction
  let ⟨(ps, ds), s2, h2⟩ ← paramsLoop c s1 [] []
  let ⟨b, s3, h3⟩ ← (if s2.peekn 1 c!"do" kw then pBlock c s2 else pExpression c s2)
  return ⟨.lambda ps ds (unwrapReturn b) pos, s3, by omega⟩
termination_by (st.toks.length, 0)
decreasing_by dec_tac

/-- `while not lexer.matchIf(")", "interpunction"): …` of `parse_fn` -/
def paramsLoop (c : Ctx) (st : St) (ps : List String) (ds : List Node) : Rle (List String × List Node) st.toks.length :=
  match st.matchIf c!")" ip with
  | some ⟨s1, h1⟩ => .ok ⟨(ps, ds), s1, Nat.le_of_lt h1⟩
  | none => do
    let ⟨t, s1, h1⟩ ← st.next c
    checkRedefineKeyword t
    checkExpectedIdentifier t
    let ⟨dv, s2, h2⟩ ← (show Rle Node s1.toks.length from
      match s1.matchIf c!"=" op with
      | some ⟨s, h⟩ => ltLe (Nat.le_of_lt h) (pExpression c s)
      | none => .ok ⟨.absent, s1, Nat.le_refl _⟩)
    if c!"...".isSuffixOf t.value && !s2.peekn 1 c!")" ip then
      .error (mkErr ("Rest argument " ++ str t.value ++ " must be last argument") t.pos)
    else
      let ⟨s3, h3⟩ ← sepUnless s2 c!")"
      let ⟨r, s4, h4⟩ ← paramsLoop c s3 (ps ++ [str t.value]) (ds ++ [dv])
      return ⟨r, s4, by omega⟩
termination_by (st.toks.length, 0)
decreasing_by dec_tac

/-- `_invoke` after the `!>` -/
def invokeBody (c : Ctx) (node : Node) (st : St) : R Node st.toks.length := do
  let ⟨fn, s1, h1⟩ ← (show R Node st.toks.length from
    match st.matchIf2 c!"(" ip c!"fn" kw with
    | some ⟨sa, ha⟩ => do
      let ⟨f, sb, hb⟩ ← pFn c sa.prev sa
      let ⟨sc, hc⟩ ← sb.expect c!")" .interpunction
      return ⟨f, sc, by omega⟩
    | none => do
      let ⟨name, sa, ha⟩ ← st.matchIdentifier
      let ⟨f, sb, hb⟩ ← derefChain sa (.ident (str name) sa.prev)
      return ⟨f, sb, by omega⟩)
  let cpos := s1.prev
  let ⟨s2, h2⟩ ← s1.expect c!"(" .interpunction
  let ⟨(names, args), s3, h3⟩ ← argsLoop c s2 [none] [node]
  return ⟨.call fn names args cpos, s3, by omega⟩
termination_by (st.toks.length, 0)
decreasing_by dec_tac

/-- the argument loop of `_invoke`, `_call`, `_deref`, including the final `lexer.eat(1)` -/
def argsLoop (c : Ctx) (st : St) (names : List (Option String)) (args : List Node) :
    R (List (Option String) × List Node) st.toks.length :=
  match st.matchIf c!")" ip with
  | some ⟨s1, h1⟩ => .ok ⟨(names, args), s1, h1⟩
  | none => do
    let t ← st.peek c
    if t.type == .identifier && st.peekn 2 c!"=" op then
      let ⟨name, s1, h1⟩ ← st.matchIdentifier
      let ⟨s2, h2⟩ ← s1.expect c!"=" .operator
      let ⟨e, s3, h3⟩ ← pExpression c s2
      let ⟨s4, h4⟩ ← sepUnless s3 c!")"
      let ⟨r, s5, h5⟩ ← argsLoop c s4 (names ++ [some (str name)]) (args ++ [e])
      return ⟨r, s5, by omega⟩
    else
      let ⟨e, s1, h1⟩ ← pExpression c st
      let ⟨s2, h2⟩ ← sepUnless s1 c!")"
      let ⟨r, s3, h3⟩ ← argsLoop c s2 (names ++ [none]) (args ++ [e])
      return ⟨r, s3, by omega⟩
termination_by (st.toks.length, 11)
decreasing_by dec_tac

/-- `_deref` after `->`; the flag is `interrupt` -/
def derefArrow (c : Ctx) (node : Node) (st : St) : R (Node × Bool) st.toks.length := do
  let pos := st.prev
  let ⟨ident, s1, h1⟩ ← st.matchIdentifier
  let index := strLit ident pos
  match s1.matchIf c!"=" op with
  | some ⟨s2, h2⟩ =>
    let ⟨v, s3, h3⟩ ← pExpression c s2
    return ⟨(.derefAssign node index v pos, true), s3, by omega⟩
  | none =>
  match s1.matchIf c!"(" ip with
  | some ⟨s2, h2⟩ =>
    let ⟨(names, args), s3, h3⟩ ← argsLoop c s2 [] []
    return ⟨(.derefInvoke node (str ident) names args pos, false), s3, by omega⟩
  | none =>
  match matchOpTable s1 compoundOps with
  | some (fn, ⟨s2, h2⟩) =>
    let ⟨v, s3, h3⟩ ← pExpression c s2
    return ⟨(.derefAssign node index (funcCallAB fn (.deref node index .absent pos) v pos) pos, true), s3, by omega⟩
  | none => return ⟨(.deref node index .absent pos, false), s1, h1⟩
termination_by (st.toks.length, 0)
decreasing_by dec_tac

/-- `_deref` after `[`; the flag is `interrupt` -/
def derefBracket (c : Ctx) (node : Node) (st : St) : R (Node × Bool) st.toks.length := do
  let pos := st.prev
  let ⟨index, s1, h1⟩ ← pExpression c st
  match s1.matchIf c!"to" idt with
  | some ⟨s2, h2⟩ =>
    let ⟨stop, s3, h3⟩ ← (show Rle Node s2.toks.length from
      match s2.matchIf c!"*" op with
      | some ⟨s, h⟩ => .ok ⟨.absent, s, Nat.le_of_lt h⟩
      | none => ltLe (Nat.le_refl _) (pExpression c s2))
    let ⟨s4, h4⟩ ← s3.expect c!"]" .interpunction
    return ⟨(.slice node index stop pos, false), s4, by omega⟩
  | none =>
    let ⟨dv, s2, h2⟩ ← (show Rle Node s1.toks.length from
      match s1.matchIf c!"," ip with
      | some ⟨s, h⟩ => ltLe (Nat.le_of_lt h) (pExpression c s)
      | none => .ok ⟨.absent, s1, Nat.le_refl _⟩)
    match s2.matchIf2 c!"]" ip c!"=" op with
    | some ⟨s3, h3⟩ =>
      let ⟨v, s4, h4⟩ ← pExpression c s3
      return ⟨(.derefAssign node index v pos, true), s4, by omega⟩
    | none =>
    match matchBracketCompound s2 with
    | some (fn, ⟨s3, h3⟩) =>
      let ⟨v, s4, h4⟩ ← pExpression c s3
      return ⟨(.derefAssign node index (funcCallAB fn (.deref node index dv pos) v pos) pos, true), s4, by omega⟩
    | none =>
      let ⟨s3, h3⟩ ← s2.expect c!"]" .interpunction
      return ⟨(.deref node index dv pos, false), s3, by omega⟩
termination_by (st.toks.length, 11)
decreasing_by dec_tac

/-- `deref_or_call_or_invoke` (`allowCall`, `allowDeref`), `deref_or_invoke` (`allowDeref`), `invoke` -/
def postfixLoop (c : Ctx) (allowCall allowDeref : Bool) (st : St) (node : Node) : Rle Node st.toks.length :=
  match st.matchIf c!"!>" op with
  | some ⟨s1, h1⟩ => do
    let ⟨n, s2, h2⟩ ← invokeBody c node s1
    let ⟨r, s3, h3⟩ ← postfixLoop c allowCall allowDeref s2 n
    return ⟨r, s3, by omega⟩
  | none =>
  match (if allowCall then st.matchIf c!"(" ip else none) with
  | some ⟨s1, h1⟩ => do
    let cpos := s1.prev
    let ⟨(names, args), s2, h2⟩ ← argsLoop c s1 [] []
    let ⟨r, s3, h3⟩ ← postfixLoop c allowCall allowDeref s2 (.call node names args cpos)
    return ⟨r, s3, by omega⟩
  | none =>
  match (if allowDeref then st.matchIf c!"->" op else none) with
  | some ⟨s1, h1⟩ => do
    let ⟨(n, interrupt), s2, h2⟩ ← derefArrow c node s1
    if interrupt then return ⟨n, s2, by omega⟩
    let ⟨r, s3, h3⟩ ← postfixLoop c allowCall allowDeref s2 n
    return ⟨r, s3, by omega⟩
  | none =>
  match (if allowDeref then st.matchIf c!"[" ip else none) with
  | some ⟨s1, h1⟩ => do
    let ⟨(n, interrupt), s2, h2⟩ ← derefBracket c node s1
    if interrupt then return ⟨n, s2, by omega⟩
    let ⟨r, s3, h3⟩ ← postfixLoop c allowCall allowDeref s2 n
    return ⟨r, s3, by omega⟩
  | none => .ok ⟨node, st, Nat.le_refl _⟩
termination_by (st.toks.length, 0)
decreasing_by dec_tac

end

/-- `deref_or_call_or_invoke(lexer, node)` -/
abbrev derefOrCallOrInvoke (c : Ctx) := postfixLoop c true true
/-- `deref_or_invoke(lexer, node)` -/
abbrev derefOrInvoke (c : Ctx) := postfixLoop c false true
/-- `invoke(lexer, node)` -/
abbrev invoke (c : Ctx) := postfixLoop c false false

/-- `getPosEnd()` -/
def endPosOf (file : String) (toks : List Token) : Pos :=
  match toks.getLast? with
  | some t => t.pos
  | none => ⟨file, 1, 1⟩

/-- `parse(lexer)` with its `PErr` error (message provably non-empty) -/
def parseCore (validRe : List Char → Bool) (file : String) (toks : List Token) : Except PErr Node :=
  match toks with
  | [] => .ok (.null ⟨file, 1, 1⟩)
  | t0 :: _ =>
    match pBareBlock ⟨endPosOf file toks, validRe⟩ true ⟨t0.pos, toks⟩ with
    | .error e => .error e
    | .ok ⟨r, s1, _⟩ =>
      match s1.toks with
      | t :: _ => .error (mkErr ("Expected end of input but got '" ++ tokRepr t ++ "'") t.pos)
      | [] => .ok (unwrapReturn r)

/-- `parse(lexer)`; `validRe` decides whether `re.compile` accepts a pattern literal -/
def parseWith (validRe : List Char → Bool) (file : String) (toks : List Token) : Except SynErr Node :=
  match parseCore validRe file toks with
  | .ok n => .ok n
  | .error e => .error e.val

/-- `parse(lexer)` with every pattern literal accepted -/
def parse (file : String) (toks : List Token) : Except SynErr Node := parseWith (fun _ => true) file toks

end Parser
end Ckl
