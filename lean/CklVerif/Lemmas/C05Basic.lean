/-
  C05 — basic facts about the evaluation monad used by all C05 proofs.
-/
import CklVerif.Model.Eval
namespace Ckl.C05
open Ckl

theorem bind_def {α β} (m : EvalM α) (f : α → EvalM β) (s : State) :
    (m >>= f) s = match m s with
      | .ok a s' => f a s'
      | .err v msg p t s' => .err v msg p t s'
      | .fail k s' => .fail k s' := rfl

theorem bind_ok {α β} {m : EvalM α} {f : α → EvalM β} {s s' : State} {a : α}
    (h : m s = .ok a s') : (m >>= f) s = f a s' := by
  rw [bind_def, h]

theorem bind_err {α β} {m : EvalM α} {f : α → EvalM β} {s s' : State} {v msg p t}
    (h : m s = .err v msg p t s') : (m >>= f) s = .err v msg p t s' := by
  rw [bind_def, h]

theorem bind_fail {α β} {m : EvalM α} {f : α → EvalM β} {s s' : State} {k}
    (h : m s = .fail k s') : (m >>= f) s = .fail k s' := by
  rw [bind_def, h]

@[simp] theorem pure_run {α} (a : α) (s : State) : (pure a : EvalM α) s = .ok a s := rfl
@[simp] theorem getS_run (s : State) : getS s = .ok s s := rfl
@[simp] theorem throwV_run {α} (v : RVal) (m : String) (p : Pos) (s : State) :
    (throwV v m p : EvalM α) s = .err v m p [] s := rfl

end Ckl.C05
