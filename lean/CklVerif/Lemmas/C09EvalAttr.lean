/- C09 (evaluator level): the simp set used to normalise cleanliness side conditions. -/
import Lean.Meta.Tactic.Simp.RegisterCommand
import Lean.LabelAttribute

/-- normal forms of `Cl.cl E x` / `Clean E v` side conditions -/
register_simp_attr clsimp

/-- backward-chaining lemmas for cleanliness side conditions (`solve_by_elim using clchain`) -/
register_label_attr clchain

