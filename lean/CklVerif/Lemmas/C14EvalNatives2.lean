import CklVerif.Lemmas.C14EvalNatives

/-! C14 (evaluator part) — `add` respects similarity -/
namespace Ckl.C14E
open Ckl
set_option linter.unusedSimpArgs false

/-- positional values: `break`, `continue`, `return v`, AST nodes -/
def IsPosV : RVal → Prop
  | .node _ | .brk _ | .cont _ | .ret _ _ => True
  | _ => False

section
variable {v : RVal} (h : IsPosV v)
include h
theorem IsPosV.isNull : v.isNull = false := by cases v <;> first | rfl | exact h.elim
theorem IsPosV.isNumerical : v.isNumerical = false := by cases v <;> first | rfl | exact h.elim
theorem IsPosV.isString : v.isString = false := by cases v <;> first | rfl | exact h.elim
theorem IsPosV.isAtomic : v.isAtomic = false := by cases v <;> first | rfl | exact h.elim
theorem IsPosV.numAsFloat : numAsFloat v = none := by cases v <;> first | rfl | exact h.elim
theorem IsPosV.cellOf : cellOf v = pure none := by cases v <;> first | rfl | exact h.elim
theorem IsPosV.ers : IsPosV (ers v) := by cases v <;> first | trivial | exact h.elim
end

theorem ers_of_not_pos {v : RVal} (h : ¬ IsPosV v) : ers v = v := by
  cases v <;> first | rfl | exact (h trivial).elim

/-- evaluate the tests of a built-in on a positional value -/
macro "prune_pos " h:ident : tactic => `(tactic|
  (simp -zeta -iota only [IsPosV.isNull $h, IsPosV.isNumerical $h, IsPosV.isString $h, IsPosV.isAtomic $h,
    IsPosV.numAsFloat $h, IsPosV.cellOf $h, IsPosV.isNull (IsPosV.ers $h), IsPosV.isNumerical (IsPosV.ers $h),
    IsPosV.isString (IsPosV.ers $h), IsPosV.isAtomic (IsPosV.ers $h),
    IsPosV.numAsFloat (IsPosV.ers $h), IsPosV.cellOf (IsPosV.ers $h), pure_bind,
    Bool.false_or, Bool.or_false, Bool.false_and, Bool.and_false,
    Bool.false_eq_true, if_false]
   simp -zeta -iota only [ers_vnode, ers_vbrk, ers_vcont, ers_vret]))

theorem nativeAdd_diag (a b : RVal) (p p' : Pos) : Resp (nativeAdd a b p) (nativeAdd a b p') := by
  unfold nativeAdd
  resp!

theorem nativeAdd_ersL (a b : RVal) (p : Pos) : Resp (nativeAdd a b p) (nativeAdd (ers a) b p) := by
  by_cases h : IsPosV a
  · cases a <;> first | exact h.elim | (unfold nativeAdd; prune_pos h; resp!)
  · rw [ers_of_not_pos h]; exact nativeAdd_diag _ _ _ _

theorem nativeAdd_ersR (a b : RVal) (p : Pos) : Resp (nativeAdd a b p) (nativeAdd a (ers b) p) := by
  by_cases h : IsPosV b
  · cases b <;> first | exact h.elim | (unfold nativeAdd; prune_pos h; resp!)
  · rw [ers_of_not_pos h]; exact nativeAdd_diag _ _ _ _

theorem nativeAdd_resp {a a' b b' : RVal} {p p' : Pos} (ha : ers a = ers a') (hb : ers b = ers b') :
    Resp (nativeAdd a b p) (nativeAdd a' b' p') :=
  Resp.of_diag2 nativeAdd_diag nativeAdd_ersL nativeAdd_ersR ha hb

end Ckl.C14E
