import CklVerif.Lemmas.C03Args
import CklVerif.Gen.LibSrc

/-!
  C19Src — a small program logic for the model evaluator, used to prove theorems about the
  GENERATED library ASTs (`Gen/LibSrc.lean`).

  `Ev k env n s r`: evaluating node `n` in frame `env` of state `s` gives the outcome `r` for every
  fuel `> k`.  The rules below are position-independent (positions are universally quantified), so
  proofs built from them do not depend on where a node sits in the source file.
-/
namespace Ckl.C19Src
open Ckl
variable (ld : Loader)

/-! ### fuel-indexed judgements -/

/-- `node.evaluate(env)` yields `r` for all fuel `> k` -/
def Ev (k : Nat) (env : EnvId) (n : Node) (s : State) (r : Out RVal) : Prop :=
  ∀ f, k < f → eval ld f env n s = r

/-- argument evaluation yields `r` for all fuel `> k` -/
def EvArgs (k : Nat) (env : EnvId) (names : List (Option String)) (args : List Node) (pos : Pos) (s : State)
    (r : Out (List (Option String) × List RVal)) : Prop :=
  ∀ f, k < f → evalArgs ld f env names args pos s = r

/-- the `if` chain yields `r` for all fuel `> k` -/
def EvIf (k : Nat) (env : EnvId) (cs xs : List Node) (els : Node) (pos : Pos) (s : State) (r : Out RVal) : Prop :=
  ∀ f, k < f → evalIf ld f env cs xs els pos s = r

/-- `fn.execute(bound)` yields `r` for all fuel `> k` -/
def Calls (k : Nat) (fn : RVal) (bound : List (String × RVal)) (env : EnvId) (pos : Pos) (s : State) (r : Out RVal) : Prop :=
  ∀ f, k < f → callFn ld f fn bound env pos s = r

theorem Ev.mono {k k' env n s r} (h : Ev ld k env n s r) (hk : k ≤ k') : Ev ld k' env n s r :=
  fun f hf => h f (by omega)

theorem Calls.mono {k k' fn bound env pos s r} (h : Calls ld k fn bound env pos s r) (hk : k ≤ k') :
    Calls ld k' fn bound env pos s r := fun f hf => h f (by omega)

theorem succ_of_lt {k f : Nat} (h : k < f) : ∃ g, f = g + 1 ∧ k ≤ g := ⟨f - 1, by omega, by omega⟩

/-! ### the error wrapper of `invoke` -/

/-- what `invoke` does to the outcome of `fn.execute`: the call is appended to the stack trace of a runtime error,
    syntax errors and host exceptions become runtime errors -/
def wrapCall (fn : RVal) (pos : Pos) : Out RVal → Out RVal
  | .err v m p t s2 => .err v m p (t ++ [(fnName s2 fn, pos)]) s2
  | .fail (.syn e) s2 => .err (.str "ERROR".toList) e.msg pos [] s2
  | .fail (.host k) s2 => .err (.str "ERROR".toList) (fnName s2 fn ++ " failed: " ++ k) pos [] s2
  | other => other

@[simp] theorem wrapCall_ok (fn pos v s) : wrapCall fn pos (.ok v s) = .ok v s := rfl
@[simp] theorem wrapCall_err (fn pos v m p t s) :
    wrapCall fn pos (.err v m p t s) = .err v m p (t ++ [(fnName s fn, pos)]) s := rfl

/-! ### leaves -/

theorem Ev.ident {k env x p s v} (h : s.lookup env x = some v) : Ev ld k env (.ident x p) s (.ok v s) := by
  intro f hf; obtain ⟨g, rfl, _⟩ := succ_of_lt hf
  rw [eval, EvalM.bind_apply]; simp only [getS, h]; rfl

theorem Ev.litInt {k env n p s} : Ev ld k env (.lit (.int n) p) s (.ok (.int n) s) := by
  intro f hf; obtain ⟨g, rfl, _⟩ := succ_of_lt hf; rw [eval]; rfl

theorem Ev.litStr {k env t p s} : Ev ld k env (.lit (.str t) p) s (.ok (.str t) s) := by
  intro f hf; obtain ⟨g, rfl, _⟩ := succ_of_lt hf; rw [eval]; rfl

theorem Ev.litBool {k env b p s} : Ev ld k env (.lit (.bool b) p) s (.ok (.bool b) s) := by
  intro f hf; obtain ⟨g, rfl, _⟩ := succ_of_lt hf; rw [eval]; rfl

theorem Ev.null {k env p s} : Ev ld k env (.null p) s (.ok .null s) := by
  intro f hf; obtain ⟨g, rfl, _⟩ := succ_of_lt hf; rw [eval]; rfl

/-! ### `not`, `or`, `and`, `error`, `return` -/

theorem Ev.not {k env e p s b s1} (h : Ev ld k env e s (.ok (.bool b) s1)) :
    Ev ld (k + 1) env (.not e p) s (.ok (.bool (!b)) s1) := by
  intro f hf; obtain ⟨g, rfl, hg⟩ := succ_of_lt hf
  rw [eval, EvalM.bind_apply, h g (by omega)]; rfl

theorem Ev.error {k env e p s v s1} (h : Ev ld k env e s (.ok v s1)) :
    Ev ld (k + 1) env (.error e p) s (.err v "" p [] s1) := by
  intro f hf; obtain ⟨g, rfl, hg⟩ := succ_of_lt hf
  rw [eval, EvalM.bind_apply, h g (by omega)]; rfl

theorem Ev.error_err {k env e p s v m q t s1} (h : Ev ld k env e s (.err v m q t s1)) :
    Ev ld (k + 1) env (.error e p) s (.err v m q t s1) := by
  intro f hf; obtain ⟨g, rfl, hg⟩ := succ_of_lt hf
  rw [eval, EvalM.bind_apply, h g (by omega)]

theorem Ev.ret {k env e p s v s1} (hne : e ≠ .absent) (h : Ev ld k env e s (.ok v s1)) :
    Ev ld (k + 1) env (.ret e p) s (.ok (.ret v p) s1) := by
  intro f hf; obtain ⟨g, rfl, hg⟩ := succ_of_lt hf
  rw [eval]
  · simp only [Bool.false_eq_true, if_false]
    rw [EvalM.bind_apply, h g (by omega)]; rfl
  · exact hne

/-- `a or b`, first clause TRUE -/
theorem Ev.or_true {k env e es p s s1} (h : Ev ld k env e s (.ok (.bool true) s1)) :
    Ev ld (k + 2) env (.or (e :: es) p) s (.ok (.bool true) s1) := by
  intro f hf; obtain ⟨g, rfl, hg⟩ := succ_of_lt hf
  obtain ⟨g', rfl, hg'⟩ := succ_of_lt (show k < g by omega)
  rw [eval, evalOr, EvalM.bind_apply, h g' (by omega)]; rfl

/-- `a or b`, first clause FALSE: the value is that of the second clause when it is boolean -/
theorem Ev.or_false2 {k env e1 e2 p s s1 b s2} (h1 : Ev ld k env e1 s (.ok (.bool false) s1))
    (h2 : Ev ld k env e2 s1 (.ok (.bool b) s2)) :
    Ev ld (k + 3) env (.or [e1, e2] p) s (.ok (.bool b) s2) := by
  intro f hf; obtain ⟨g, rfl, hg⟩ := succ_of_lt hf
  obtain ⟨g1, rfl, hg1⟩ := succ_of_lt (show k < g by omega)
  obtain ⟨g2, rfl, hg2⟩ := succ_of_lt (show k < g1 by omega)
  obtain ⟨g3, rfl, hg3⟩ := succ_of_lt (show 0 < g2 by omega)
  rw [eval, evalOr, EvalM.bind_apply, h1 _ (by omega)]
  simp only [Bool.false_eq_true, if_false]
  rw [evalOr, EvalM.bind_apply, h2 _ (by omega)]
  cases b
  · simp only [Bool.false_eq_true, if_false]; rw [evalOr]; rfl
  · rfl

/-- `a and b`, first clause FALSE -/
theorem Ev.and_false {k env e es p s s1} (h : Ev ld k env e s (.ok (.bool false) s1)) :
    Ev ld (k + 2) env (.and (e :: es) p) s (.ok (.bool false) s1) := by
  intro f hf; obtain ⟨g, rfl, hg⟩ := succ_of_lt hf
  obtain ⟨g', rfl, hg'⟩ := succ_of_lt (show k < g by omega)
  rw [eval, evalAnd, EvalM.bind_apply, h g' (by omega)]; rfl

theorem Ev.and_true2 {k env e1 e2 p s s1 b s2} (h1 : Ev ld k env e1 s (.ok (.bool true) s1))
    (h2 : Ev ld k env e2 s1 (.ok (.bool b) s2)) :
    Ev ld (k + 3) env (.and [e1, e2] p) s (.ok (.bool b) s2) := by
  intro f hf; obtain ⟨g, rfl, hg⟩ := succ_of_lt hf
  obtain ⟨g1, rfl, hg1⟩ := succ_of_lt (show k < g by omega)
  obtain ⟨g2, rfl, hg2⟩ := succ_of_lt (show k < g1 by omega)
  obtain ⟨g3, rfl, hg3⟩ := succ_of_lt (show 0 < g2 by omega)
  rw [eval, evalAnd, EvalM.bind_apply, h1 _ (by omega)]
  simp only [if_true]
  rw [evalAnd, EvalM.bind_apply, h2 _ (by omega)]
  cases b
  · rfl
  · simp only [if_true]; rw [evalAnd]; rfl

/-! ### `if` chains -/

theorem EvIf.true {k env c cs x xs els pos s s1 r} (hc : Ev ld k env c s (.ok (.bool true) s1))
    (hx : Ev ld k env x s1 r) : EvIf ld (k + 1) env (c :: cs) (x :: xs) els pos s r := by
  intro f hf; obtain ⟨g, rfl, hg⟩ := succ_of_lt hf
  rw [evalIf, EvalM.bind_apply, hc g (by omega)]
  simp only [if_true]; exact hx g (by omega)

theorem EvIf.false {k env c cs x xs els pos s s1 r} (hc : Ev ld k env c s (.ok (.bool false) s1))
    (hx : EvIf ld k env cs xs els pos s1 r) : EvIf ld (k + 1) env (c :: cs) (x :: xs) els pos s r := by
  intro f hf; obtain ⟨g, rfl, hg⟩ := succ_of_lt hf
  rw [evalIf, EvalM.bind_apply, hc g (by omega)]
  simp only [Bool.false_eq_true, if_false]; exact hx g (by omega)

theorem EvIf.else {k env els pos s r} (hx : Ev ld k env els s r) : EvIf ld (k + 1) env [] [] els pos s r := by
  intro f hf; obtain ⟨g, rfl, hg⟩ := succ_of_lt hf
  rw [evalIf]
  · exact hx g (by omega)
  · intro _ _ _ _ h; cases h

theorem Ev.ite {k env cs xs els pos s r} (h : EvIf ld k env cs xs els pos s r) :
    Ev ld (k + 1) env (.ite cs xs els pos) s r := by
  intro f hf; obtain ⟨g, rfl, hg⟩ := succ_of_lt hf
  rw [eval]; exact h g (by omega)

/-! ### arguments -/

/-- the node is not a spread -/
def NotSpread : Node → Prop
  | .spread _ _ => False
  | _ => True

theorem EvArgs.nil {k env pos s} : EvArgs ld k env [] [] pos s (.ok ([], []) s) := by
  intro f hf; obtain ⟨g, rfl, _⟩ := succ_of_lt hf
  rw [evalArgs]
  · rfl
  · intro _ _ _ _ h; cases h

theorem EvArgs.cons {k env n ns a as pos s v s1 rn rv s2} (hs : NotSpread a)
    (ha : Ev ld k env a s (.ok v s1)) (hr : EvArgs ld k env ns as pos s1 (.ok (rn, rv) s2)) :
    EvArgs ld (k + 1) env (n :: ns) (a :: as) pos s (.ok (n :: rn, v :: rv) s2) := by
  intro f hf; obtain ⟨g, rfl, hg⟩ := succ_of_lt hf
  rw [evalArgs]
  · simp only [EvalM.bind_apply, ha g (by omega), hr g (by omega)]; rfl
  · intro e p h; subst h; exact hs

end Ckl.C19Src
