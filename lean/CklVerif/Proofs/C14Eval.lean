import CklVerif.Lemmas.C14EvalInd
import CklVerif.Driver.EvalCmd

/-!
  C14 / C20 (evaluator half) — evaluation does not depend on source positions.

  `Node.erase` replaces every `Pos` of an AST by `default`; two ASTs are similar (`NodeSim`) when
  their erasures are equal.  `RValSim`, `StateSim`, `OutSim` are the corresponding relations on
  values, states (ghost counters keyed by position ignored) and outcomes; all are defined as
  "equal after erasing positions" (`ers`), hence equivalence relations.

  Flagship: `eval_pos_irrelevant` — similar ASTs evaluated in similar states give similar outcomes,
  for every loader whose unmodelled built-ins respect similarity (`NativeSim`, which holds for the
  abstaining default interpretation: `nativeSim_default`).
-/
namespace Ckl.C14E
open Ckl

/-! ### the relations are equivalences; congruence rules of `NodeSim` -/

theorem NodeSim.refl (a : Node) : NodeSim a a := rfl
theorem NodeSim.symm {a b : Node} (h : NodeSim a b) : NodeSim b a := Eq.symm h
theorem NodeSim.trans {a b c : Node} (h1 : NodeSim a b) (h2 : NodeSim b c) : NodeSim a c := Eq.trans h1 h2
theorem RValSim.refl (a : RVal) : RValSim a a := rfl
theorem RValSim.symm {a b : RVal} (h : RValSim a b) : RValSim b a := Eq.symm h
theorem RValSim.trans {a b c : RVal} (h1 : RValSim a b) (h2 : RValSim b c) : RValSim a c := Eq.trans h1 h2
theorem StateSim.refl (a : State) : StateSim a a := rfl
theorem StateSim.symm {a b : State} (h : StateSim a b) : StateSim b a := Eq.symm h
theorem StateSim.trans {a b c : State} (h1 : StateSim a b) (h2 : StateSim b c) : StateSim a c := Eq.trans h1 h2
theorem OutSim.refl {α} [Ers α] (a : Out α) : OutSim a a := rfl
theorem OutSim.symm {α} [Ers α] {a b : Out α} (h : OutSim a b) : OutSim b a := Eq.symm h
theorem OutSim.trans {α} [Ers α] {a b c : Out α} (h1 : OutSim a b) (h2 : OutSim b c) : OutSim a c := Eq.trans h1 h2

/-- `NodeSim` on lists of nodes -/
def NodesSim (as bs : List Node) : Prop := ers as = ers bs

theorem nodeSim_iff {a b : Node} : NodeSim a b ↔ ers a = ers b := Iff.rfl

/-- erasing is idempotent: every AST is similar to its erasure -/
theorem nodeSim_erase (n : Node) : NodeSim n n.erase := (ers_ers_node n).symm

theorem NodesSim.nil : NodesSim [] [] := rfl
theorem NodesSim.cons {a b : Node} {as bs : List Node} (h : NodeSim a b) (hs : NodesSim as bs) :
    NodesSim (a :: as) (b :: bs) := by
  simp only [NodesSim, ers_cons, nodeSim_iff.1 h, show ers as = ers bs from hs]
theorem NodesSim.length {as bs : List Node} (h : NodesSim as bs) : as.length = bs.length := by
  have := congrArg List.length h
  simpa using this

section congruence
variable {a b c a' b' c' d d' e e' : Node} {as bs cs ds as' bs' cs' ds' : List Node} {p q : Pos}

theorem NodeSim.null : NodeSim (.null p) (.null q) := rfl
theorem NodeSim.lit (v : Val) : NodeSim (.lit v p) (.lit v q) := rfl
theorem NodeSim.ident (x : String) : NodeSim (.ident x p) (.ident x q) := rfl
theorem NodeSim.brk : NodeSim (.brk p) (.brk q) := rfl
theorem NodeSim.cont : NodeSim (.cont p) (.cont q) := rfl
theorem NodeSim.and (h : NodesSim as as') : NodeSim (.and as p) (.and as' q) := by
  simp only [nodeSim_iff, ers_simp, show ers as = ers as' from h]
theorem NodeSim.or (h : NodesSim as as') : NodeSim (.or as p) (.or as' q) := by
  simp only [nodeSim_iff, ers_simp, show ers as = ers as' from h]
theorem NodeSim.not (h : NodeSim a a') : NodeSim (.not a p) (.not a' q) := by
  simp only [nodeSim_iff, ers_simp, nodeSim_iff.1 h]
theorem NodeSim.assign (x : String) (h : NodeSim a a') : NodeSim (.assign x a p) (.assign x a' q) := by
  simp only [nodeSim_iff, ers_simp, nodeSim_iff.1 h]
theorem NodeSim.assignD (xs : List String) (h : NodeSim a a') : NodeSim (.assignD xs a p) (.assignD xs a' q) := by
  simp only [nodeSim_iff, ers_simp, nodeSim_iff.1 h]
theorem NodeSim.block (tl : Bool) (h1 : NodesSim as as') (h2 : NodesSim bs bs') (h3 : NodesSim cs cs')
    (h4 : NodesSim ds ds') : NodeSim (.block as bs cs ds tl p) (.block as' bs' cs' ds' tl q) := by
  simp only [nodeSim_iff, ers_simp, show ers as = ers as' from h1, show ers bs = ers bs' from h2,
    show ers cs = ers cs' from h3, show ers ds = ers ds' from h4]
theorem NodeSim.cls (x : String) (h : NodesSim as as') : NodeSim (.cls x as p) (.cls x as' q) := by
  simp only [nodeSim_iff, ers_simp, show ers as = ers as' from h]
theorem NodeSim.defn (x i : String) (h : NodeSim a a') : NodeSim (.defn x a i p) (.defn x a' i q) := by
  simp only [nodeSim_iff, ers_simp, nodeSim_iff.1 h]
theorem NodeSim.defD (xs : List String) (i : String) (h : NodeSim a a') : NodeSim (.defD xs a i p) (.defD xs a' i q) := by
  simp only [nodeSim_iff, ers_simp, nodeSim_iff.1 h]
theorem NodeSim.deref (h1 : NodeSim a a') (h2 : NodeSim b b') (h3 : NodeSim c c') :
    NodeSim (.deref a b c p) (.deref a' b' c' q) := by
  simp only [nodeSim_iff, ers_simp, nodeSim_iff.1 h1, nodeSim_iff.1 h2, nodeSim_iff.1 h3]
theorem NodeSim.derefAssign (h1 : NodeSim a a') (h2 : NodeSim b b') (h3 : NodeSim c c') :
    NodeSim (.derefAssign a b c p) (.derefAssign a' b' c' q) := by
  simp only [nodeSim_iff, ers_simp, nodeSim_iff.1 h1, nodeSim_iff.1 h2, nodeSim_iff.1 h3]
theorem NodeSim.derefInvoke (m : String) (ns : List (Option String)) (h1 : NodeSim a a') (h2 : NodesSim as as') :
    NodeSim (.derefInvoke a m ns as p) (.derefInvoke a' m ns as' q) := by
  simp only [nodeSim_iff, ers_simp, nodeSim_iff.1 h1, show ers as = ers as' from h2]
theorem NodeSim.slice (h1 : NodeSim a a') (h2 : NodeSim b b') (h3 : NodeSim c c') :
    NodeSim (.slice a b c p) (.slice a' b' c' q) := by
  simp only [nodeSim_iff, ers_simp, nodeSim_iff.1 h1, nodeSim_iff.1 h2, nodeSim_iff.1 h3]
theorem NodeSim.error (h : NodeSim a a') : NodeSim (.error a p) (.error a' q) := by
  simp only [nodeSim_iff, ers_simp, nodeSim_iff.1 h]
theorem NodeSim.for (ids : List String) (w : String) (h1 : NodeSim a a') (h2 : NodeSim b b') :
    NodeSim (.for ids a b w p) (.for ids a' b' w q) := by
  simp only [nodeSim_iff, ers_simp, nodeSim_iff.1 h1, nodeSim_iff.1 h2]
theorem NodeSim.call (ns : List (Option String)) (h1 : NodeSim a a') (h2 : NodesSim as as') :
    NodeSim (.call a ns as p) (.call a' ns as' q) := by
  simp only [nodeSim_iff, ers_simp, nodeSim_iff.1 h1, show ers as = ers as' from h2]
theorem NodeSim.ite (h1 : NodesSim as as') (h2 : NodesSim bs bs') (h3 : NodeSim a a') :
    NodeSim (.ite as bs a p) (.ite as' bs' a' q) := by
  simp only [nodeSim_iff, ers_simp, nodeSim_iff.1 h3, show ers as = ers as' from h1, show ers bs = ers bs' from h2]
theorem NodeSim.isIn (h1 : NodeSim a a') (h2 : NodeSim b b') : NodeSim (.isIn a b p) (.isIn a' b' q) := by
  simp only [nodeSim_iff, ers_simp, nodeSim_iff.1 h1, nodeSim_iff.1 h2]
theorem NodeSim.lambda (ps : List String) (h1 : NodesSim as as') (h2 : NodeSim a a') :
    NodeSim (.lambda ps as a p) (.lambda ps as' a' q) := by
  simp only [nodeSim_iff, ers_simp, nodeSim_iff.1 h2, show ers as = ers as' from h1]
theorem NodeSim.list (h : NodesSim as as') : NodeSim (.list as p) (.list as' q) := by
  simp only [nodeSim_iff, ers_simp, show ers as = ers as' from h]
theorem NodeSim.compr (k : ComprKind) (sh : ComprShape) (i1 i2 : String) (w1 w2 : Option String)
    (h1 : NodeSim a a') (h2 : NodeSim b b') (h3 : NodeSim c c') (h4 : NodeSim d d') (h5 : NodeSim e e') :
    NodeSim (.compr k sh a b i1 c w1 i2 d w2 e p) (.compr k sh a' b' i1 c' w1 i2 d' w2 e' q) := by
  simp only [nodeSim_iff, ers_simp, nodeSim_iff.1 h1, nodeSim_iff.1 h2, nodeSim_iff.1 h3, nodeSim_iff.1 h4,
    nodeSim_iff.1 h5]
theorem NodeSim.map (h1 : NodesSim as as') (h2 : NodesSim bs bs') : NodeSim (.map as bs p) (.map as' bs' q) := by
  simp only [nodeSim_iff, ers_simp, show ers as = ers as' from h1, show ers bs = ers bs' from h2]
theorem NodeSim.object (ks : List String) (h : NodesSim as as') : NodeSim (.object ks as p) (.object ks as' q) := by
  simp only [nodeSim_iff, ers_simp, show ers as = ers as' from h]
theorem NodeSim.require (n : Option String) (u : Bool) (sy : Option (List (String × String))) (h : NodeSim a a') :
    NodeSim (.require a n u sy p) (.require a' n u sy q) := by
  simp only [nodeSim_iff, ers_simp, nodeSim_iff.1 h]
theorem NodeSim.ret (h : NodeSim a a') : NodeSim (.ret a p) (.ret a' q) := by
  simp only [nodeSim_iff, ers_simp, nodeSim_iff.1 h]
theorem NodeSim.set (h : NodesSim as as') : NodeSim (.set as p) (.set as' q) := by
  simp only [nodeSim_iff, ers_simp, show ers as = ers as' from h]
theorem NodeSim.spread (h : NodeSim a a') : NodeSim (.spread a p) (.spread a' q) := by
  simp only [nodeSim_iff, ers_simp, nodeSim_iff.1 h]
theorem NodeSim.while (h1 : NodeSim a a') (h2 : NodeSim b b') : NodeSim (.while a b p) (.while a' b' q) := by
  simp only [nodeSim_iff, ers_simp, nodeSim_iff.1 h1, nodeSim_iff.1 h2]
end congruence

/-! ### what the relations say, spelled out -/

/-- similar states print the same output and agree on every component that is not an AST or a ghost counter -/
theorem StateSim.out_eq {s s' : State} (h : StateSim s s') : s.out = s'.out :=
  show (ers s).out = (ers s').out from congrArg State.out h
theorem StateSim.secure_eq {s s' : State} (h : StateSim s s') : s.secure = s'.secure :=
  show (ers s).secure = (ers s').secure from congrArg State.secure h
theorem StateSim.nextInst_eq {s s' : State} (h : StateSim s s') : s.nextInst = s'.nextInst :=
  show (ers s).nextInst = (ers s').nextInst from congrArg State.nextInst h
theorem StateSim.modules_eq {s s' : State} (h : StateSim s s') : s.modules = s'.modules :=
  show (ers s).modules = (ers s').modules from congrArg State.modules h
theorem StateSim.modstack_eq {s s' : State} (h : StateSim s s') : s.modstack = s'.modstack :=
  show (ers s).modstack = (ers s').modstack from congrArg State.modstack h
theorem StateSim.frames_size {s s' : State} (h : StateSim s s') : s.frames.size = s'.frames.size :=
  frames_size_congr h
theorem StateSim.heap_size {s s' : State} (h : StateSim s s') : s.heap.size = s'.heap.size :=
  heap_size_congr h
/-- variables hold similar values -/
theorem StateSim.lookup {s s' : State} (h : StateSim s s') (e : EnvId) (x : String) :
    ers (s.lookup e x) = ers (s'.lookup e x) := by
  rw [lookup_ers', lookup_ers', show ers s = ers s' from h]
/-- heap cells are similar: equal data, closures with similar defaults and body -/
theorem StateSim.cell {s s' : State} (h : StateSim s s') (a : Nat) : ers (s.cell a) = ers (s'.cell a) := by
  rw [cell_ers', cell_ers', show ers s = ers s' from h]

/-- similar outcomes, spelled out -/
theorem outSim_ok {α} [Ers α] {a a' : α} {s s' : State} :
    OutSim (.ok a s) (.ok a' s') ↔ ers a = ers a' ∧ StateSim s s' := by
  simp only [OutSim, StateSim, ers_ok, Out.ok.injEq]
theorem outSim_cases {α} [Ers α] {o o' : Out α} (h : OutSim o o') :
    (∃ a a' s s', o = .ok a s ∧ o' = .ok a' s' ∧ ers a = ers a' ∧ StateSim s s') ∨
    (∃ v v' m p p' t t' s s', o = .err v m p t s ∧ o' = .err v' m p' t' s' ∧ RValSim v v' ∧
      t.map (·.1) = t'.map (·.1) ∧ StateSim s s') ∨
    (∃ f f' s s', o = .fail f s ∧ o' = .fail f' s' ∧ ers f = ers f' ∧ StateSim s s') :=
  Out.sim_cases h

/-- a value without positions (anything but `break`, `continue`, `return`, a node value) is similar to itself only -/
theorem RValSim.eq_of_not_pos {v v' : RVal} (h : RValSim v v') (hv : ¬ IsPosV v) : v = v' := by
  rcases RVal.sim_cases5 h with h | ⟨n, n', rfl, rfl, _⟩ | ⟨p, p', rfl, rfl⟩ | ⟨p, p', rfl, rfl⟩ |
    ⟨w, w', p, p', rfl, rfl, _⟩
  · exact h
  all_goals exact (hv trivial).elim

/-! ### the flagship theorem -/

/-- **evaluation does not depend on source positions**: for every loader (same module ASTs on both
    sides) whose unmodelled built-ins respect similarity, every fuel and frame, similar ASTs
    evaluated in similar states give similar outcomes — similar value / equal error message, similar
    error value, traces of the same length with the same function names, same kind of failure, and
    similar final states (in particular the same output). -/
theorem eval_pos_irrelevant (ld : Loader) (hn : NativeSim ld) (fuel : Nat) (env : EnvId) {n n' : Node}
    {s s' : State} (hnode : NodeSim n n') (hs : StateSim s s') :
    OutSim (eval ld fuel env n s) (eval ld fuel env n' s') :=
  ((sAll hn fuel).eval env hnode).run s s' hs

/-- the hypothesis on the loader holds for the interpretation that abstains on unmodelled built-ins -/
theorem nativeSim_abstain (ld : Loader)
    (h : ld.nativeSem = fun name _ s => .fail (.unsupported ("native " ++ name)) s) : NativeSim ld :=
  nativeSim_default ld h

/-- in particular for the default loader -/
theorem nativeSim_empty : NativeSim {} := nativeSim_default {} rfl

/-- the other entry points of the evaluator -/
theorem invoke_pos_irrelevant (ld : Loader) (hn : NativeSim ld) (fuel : Nat) {fn fn' : RVal} {pre pre' : List RVal}
    (names : List (Option String)) {args args' : List Node} (env : EnvId) {p p' : Pos} {s s' : State}
    (hf : RValSim fn fn') (hp : ers pre = ers pre') (ha : NodesSim args args') (hs : StateSim s s') :
    OutSim (invoke ld fuel fn pre names args env p s) (invoke ld fuel fn' pre' names args' env p' s') :=
  ((sAll hn fuel).invoke names env hf hp ha).run s s' hs

theorem callFn_pos_irrelevant (ld : Loader) (hn : NativeSim ld) (fuel : Nat) {fn fn' : RVal}
    {b b' : List (String × RVal)} (env : EnvId) {p p' : Pos} {s s' : State}
    (hf : RValSim fn fn') (hb : ers b = ers b') (hs : StateSim s s') :
    OutSim (callFn ld fuel fn b env p s) (callFn ld fuel fn' b' env p' s') :=
  ((sAll hn fuel).callFn env hf hb).run s s' hs

/-- `Interpreter.interpret` -/
theorem interpretProg_pos_irrelevant (ld : Loader) (hn : NativeSim ld) (fuel : Nat) (senv : EnvId) {n n' : Node}
    {s s' : State} (hnode : NodeSim n n') (hs : StateSim s s') :
    OutSim (interpretProg ld fuel senv n s) (interpretProg ld fuel senv n' s') := by
  have h : Resp (interpretProg ld fuel senv n) (interpretProg ld fuel senv n') := by
    unfold interpretProg
    have := (sAll hn fuel).eval senv hnode
    resp!
  exact h.run s s' hs

/-! ### sessions -/

/-- the state an outcome leaves behind; `none` when the model abstains (out of fuel, unsupported) -/
def nextState : Out RVal → Option State
  | .ok _ s' => some s'
  | .err _ _ _ _ s' => some s'
  | .fail (.syn _) s' => some s'
  | .fail (.host _) s' => some s'
  | .fail _ _ => none

/-- run the programs one after the other on the same interpreter -/
def runSession (ld : Loader) (fuel : Nat) (senv : EnvId) : List Node → State → Option State
  | [], s => some s
  | p :: ps, s =>
    match nextState (interpretProg ld fuel senv p s) with
    | some s' => runSession ld fuel senv ps s'
    | none => none

theorem nextState_sim {o o' : Out RVal} (h : OutSim o o') : ers (nextState o) = ers (nextState o') := by
  rcases Out.sim_cases h with ⟨a, a', s2, s2', rfl, rfl, h1, h2⟩ |
    ⟨v, v', m, q, q', t, t', s2, s2', rfl, rfl, h1, h2, h3⟩ | ⟨f, f', s2, s2', rfl, rfl, h1, h2⟩
  · simp only [nextState, ers_some, h2]
  · simp only [nextState, ers_some, h3]
  · rcases Fail.sim_cases h1 with ⟨rfl, rfl⟩ | ⟨w, w', rfl, rfl⟩ | ⟨k, rfl, rfl⟩ | ⟨e, rfl, rfl⟩ <;>
      simp only [nextState, ers_some, ers_none, h2]

/-- one session step: the states after `interpret` are similar (or the model abstains on both sides) -/
theorem sessionStep_pos_irrelevant (ld : Loader) (hn : NativeSim ld) (fuel : Nat) (senv : EnvId) {n n' : Node}
    {s s' : State} (hnode : NodeSim n n') (hs : StateSim s s') :
    ers (nextState (interpretProg ld fuel senv n s)) = ers (nextState (interpretProg ld fuel senv n' s')) :=
  nextState_sim (interpretProg_pos_irrelevant ld hn fuel senv hnode hs)

/-- whole sessions: similar programs run from similar states end in similar states -/
theorem session_pos_irrelevant (ld : Loader) (hn : NativeSim ld) (fuel : Nat) (senv : EnvId) :
    ∀ {ps ps' : List Node} {s s' : State}, NodesSim ps ps' → StateSim s s' →
      ers (runSession ld fuel senv ps s) = ers (runSession ld fuel senv ps' s') := by
  intro ps
  induction ps with
  | nil =>
    intro ps' s s' hp hs
    cases ps' with
    | nil => simp only [runSession, ers_some, show ers s = ers s' from hs]
    | cons => simp only [NodesSim, ers_nil, ers_cons, reduceCtorEq] at hp
  | cons p ps ih =>
    intro ps' s s' hp hs
    cases ps' with
    | nil => simp only [NodesSim, ers_nil, ers_cons, reduceCtorEq] at hp
    | cons p' ps' =>
      simp only [NodesSim, ers_cons, List.cons.injEq] at hp
      have h := sessionStep_pos_irrelevant ld hn fuel senv (show NodeSim p p' from hp.1) hs
      simp only [runSession]
      generalize nextState (interpretProg ld fuel senv p s) = o at h ⊢
      generalize nextState (interpretProg ld fuel senv p' s') = o' at h ⊢
      rcases Option.sim_cases h with ⟨rfl, rfl⟩ | ⟨a, a', rfl, rfl, h2⟩
      · rfl
      · exact ih hp.2 h2

/-! ### corollaries -/

/-- same rendering of the result: similar values in similar states print the same -/
theorem result_pos_irrelevant {s s' : State} {v v' : RVal} (hv : RValSim v v') (hs : StateSim s s') :
    rrender s v = rrender s' v' := by
  rw [← rrender_ers s v, ← rrender_ers s' v', show ers s = ers s' from hs, show ers v = ers v' from hv]

/-- … and have the same type name, equality and order behaviour -/
theorem typeName_pos_irrelevant {s s' : State} {v v' : RVal} (hv : RValSim v v') (hs : StateSim s s') :
    typeName s v = typeName s' v' := by
  rw [← typeName_ers s v, ← typeName_ers s' v', show ers s = ers s' from hs, show ers v = ers v' from hv]

theorem rveq_pos_irrelevant {s s' : State} {a a' b b' : RVal} (ha : RValSim a a') (hb : RValSim b b')
    (hs : StateSim s s') : rveq s a b = rveq s' a' b' := by
  rw [← rveq_ers s a b, ← rveq_ers s' a' b', show ers s = ers s' from hs, show ers a = ers a' from ha,
    show ers b = ers b' from hb]

/-- the final state of an outcome -/
def _root_.Ckl.Out.finalState {α} : Out α → State
  | .ok _ s => s
  | .err _ _ _ _ s => s
  | .fail _ s => s

theorem OutSim.state {α} [Ers α] {o o' : Out α} (h : OutSim o o') : StateSim o.finalState o'.finalState := by
  rcases Out.sim_cases h with ⟨a, a', s2, s2', rfl, rfl, h1, h2⟩ |
    ⟨v, v', m, q, q', t, t', s2, s2', rfl, rfl, h1, h2, h3⟩ | ⟨f, f', s2, s2', rfl, rfl, h1, h2⟩
  · exact h2
  · exact h3
  · exact h2

/-- same printed output, whatever the outcome -/
theorem output_pos_irrelevant (ld : Loader) (hn : NativeSim ld) (fuel : Nat) (env : EnvId) {n n' : Node}
    {s s' : State} (hnode : NodeSim n n') (hs : StateSim s s') :
    (eval ld fuel env n s).finalState.out = (eval ld fuel env n' s').finalState.out :=
  (eval_pos_irrelevant ld hn fuel env hnode hs).state.out_eq

/-- same value: when one run ends normally so does the other, with a similar value (equal when it is not a
    control value or node value) that renders the same -/
theorem value_pos_irrelevant (ld : Loader) (hn : NativeSim ld) (fuel : Nat) (env : EnvId) {n n' : Node}
    {s s' : State} (hnode : NodeSim n n') (hs : StateSim s s') {v : RVal} {t : State}
    (h : eval ld fuel env n s = .ok v t) :
    ∃ v' t', eval ld fuel env n' s' = .ok v' t' ∧ RValSim v v' ∧ StateSim t t' ∧ rrender t v = rrender t' v' ∧
      (¬ IsPosV v → v' = v) := by
  have hsim := eval_pos_irrelevant ld hn fuel env hnode hs
  rw [h] at hsim
  rcases Out.sim_cases hsim with ⟨a, a', s2, s2', h1, h2, h3, h4⟩ |
    ⟨_, _, _, _, _, _, _, _, _, h1, _⟩ | ⟨_, _, _, _, h1, _⟩
  · cases h1
    exact ⟨a', s2', h2, h3, h4, result_pos_irrelevant h3 h4, fun hv => (RValSim.eq_of_not_pos h3 hv).symm⟩
  · cases h1
  · cases h1

/-- same error value and message: when one run ends with a runtime error so does the other, with a similar
    error value (equal when it is a data value), the SAME message, a trace of the same length with the
    same function names, and a similar state.  (No message of the model embeds a position.) -/
theorem error_value_pos_irrelevant (ld : Loader) (hn : NativeSim ld) (fuel : Nat) (env : EnvId) {n n' : Node}
    {s s' : State} (hnode : NodeSim n n') (hs : StateSim s s') {v : RVal} {m : String} {p : Pos}
    {t : List (String × Pos)} {u : State} (h : eval ld fuel env n s = .err v m p t u) :
    ∃ v' p' t' u', eval ld fuel env n' s' = .err v' m p' t' u' ∧ RValSim v v' ∧ (¬ IsPosV v → v' = v) ∧
      t.map (·.1) = t'.map (·.1) ∧ t.length = t'.length ∧ StateSim u u' ∧ rrender u v = rrender u' v' := by
  have hsim := eval_pos_irrelevant ld hn fuel env hnode hs
  rw [h] at hsim
  rcases Out.sim_cases hsim with ⟨_, _, _, _, h1, _⟩ |
    ⟨v1, v', m1, q, q', t1, t', s2, s2', h1, h2, h3, h4, h5⟩ | ⟨_, _, _, _, h1, _⟩
  · cases h1
  · cases h1
    refine ⟨v', q', t', s2', h2, h3, fun hv => (RValSim.eq_of_not_pos h3 hv).symm, h4, ?_, h5,
      result_pos_irrelevant h3 h5⟩
    have := congrArg List.length h4
    simpa using this
  · cases h1

/-- same kind of failure -/
theorem fail_pos_irrelevant (ld : Loader) (hn : NativeSim ld) (fuel : Nat) (env : EnvId) {n n' : Node}
    {s s' : State} (hnode : NodeSim n n') (hs : StateSim s s') {f : Fail} {u : State}
    (h : eval ld fuel env n s = .fail f u) :
    ∃ f' u', eval ld fuel env n' s' = .fail f' u' ∧ ers f = ers f' ∧ StateSim u u' := by
  have hsim := eval_pos_irrelevant ld hn fuel env hnode hs
  rw [h] at hsim
  rcases Out.sim_cases hsim with ⟨_, _, _, _, h1, _⟩ |
    ⟨_, _, _, _, _, _, _, _, _, h1, _⟩ | ⟨f1, f', s2, s2', h1, h2, h3, h4⟩
  · cases h1
  · cases h1
  · cases h1; exact ⟨f', s2', h2, h3, h4⟩

/-- evaluating the erased AST gives the same value / output / error value as evaluating the AST -/
theorem erase_eval (ld : Loader) (hn : NativeSim ld) (fuel : Nat) (env : EnvId) (n : Node) (s : State) :
    OutSim (eval ld fuel env n s) (eval ld fuel env n.erase s) :=
  eval_pos_irrelevant ld hn fuel env (nodeSim_erase n) (StateSim.refl s)

theorem ers_ers_list {α} [Ers α] (h : ∀ a : α, ers (ers a) = ers a) (l : List α) : ers (ers l) = ers l := by
  induction l with
  | nil => rfl
  | cons a l ih => simp only [ers_cons, h, ih]

theorem ers_ers_cell (c : Cell) : ers (ers c) = ers c := by
  have h1 : ∀ p : RVal × RVal, ers (ers p) = ers p := fun p => by
    obtain ⟨a, b⟩ := p; simp only [ers_pair, ers_ers_rval]
  have h2 : ∀ p : String × RVal, ers (ers p) = ers p := fun p => by
    obtain ⟨a, b⟩ := p; simp only [ers_pair, ers_ers_rval, ers_string]
  cases c <;> simp only [ers_clist, ers_cset, ers_cmap, ers_cobj, ers_cclosure, ers_ers_list ers_ers_rval,
    ers_ers_list h1, ers_ers_list h2, ers_ers_nodes', ers_ers_node]

theorem ers_ers_frame (f : Frame) : ers (ers f) = ers f := by
  have h2 : ∀ p : String × RVal, ers (ers p) = ers p := fun p => by
    obtain ⟨a, b⟩ := p; simp only [ers_pair, ers_ers_rval, ers_string]
  show ({ vars := ers (ers f).vars, parent := (ers f).parent } : Frame) = { vars := ers f.vars, parent := f.parent }
  simp only [ers_frame_vars, ers_frame_parent, ers_ers_list h2]

/-- erasing a state is idempotent: every state is similar to its erasure -/
theorem stateSim_erase (s : State) : StateSim s (ers s) := by
  show ers s = ers (ers s)
  have hfr : ers (ers s.frames) = ers s.frames := by
    simp only [ers_array, Array.map_map, Function.comp_def, ers_ers_frame]
  have hhe : ers (ers s.heap) = ers s.heap := by
    simp only [ers_array, Array.map_map, Function.comp_def, ers_ers_cell]
  show ers s = ({ (ers s) with frames := ers (ers s).frames, heap := ers (ers s).heap, ghost := ers (ers s).ghost } : State)
  simp only [ers_state_frames, ers_state_heap, hfr, hhe]
  rfl

/-- … even when the state (the ASTs of the closures on the heap) is erased as well -/
theorem erase_eval_state (ld : Loader) (hn : NativeSim ld) (fuel : Nat) (env : EnvId) (n : Node) (s : State) :
    OutSim (eval ld fuel env n s) (eval ld fuel env n.erase (ers s)) :=
  eval_pos_irrelevant ld hn fuel env (nodeSim_erase n) (stateSim_erase s)

/-! ### non-vacuity: one program at two layouts -/

namespace Demo

/-- layout 1: everything in file `-`, one node per line, column 1 -/
def lay1 (i : Nat) : Pos := ⟨"-", i, 1⟩
/-- layout 2: another file, other lines and columns -/
def lay2 (i : Nat) : Pos := ⟨"other.ckl", 7 * i + 2, (i : Int) + 5⟩

/-- `def f = fn(x) x; def g = fn() error "in g"; def t = 0; for i in [1, 2] do t = f(i);
     def c = do error "boom" catch all 7 end; println(t); println(c); g()`
    — a closure, a loop, a caught error and an uncaught error raised inside a function (non-empty trace) -/
def prog (L : Nat → Pos) : Node :=
  .block [
    .defn "f" (.lambda ["x"] [.absent] (.ident "x" (L 1)) (L 2)) "" (L 3),
    .defn "g" (.lambda [] [] (.error (.lit (.str ['i','n',' ','g']) (L 30)) (L 31)) (L 32)) "" (L 33),
    .defn "t" (.lit (.int 0) (L 4)) "" (L 5),
    .for ["i"] (.list [.lit (.int 1) (L 6), .lit (.int 2) (L 7)] (L 8))
        (.assign "t" (.call (.ident "f" (L 9)) [none] [.ident "i" (L 10)] (L 11)) (L 12)) "values" (L 13),
    .defn "c" (.block [.error (.lit (.str ['b','o','o','m']) (L 14)) (L 15)] [.catchAll] [.lit (.int 7) (L 16)] []
      false (L 17)) "" (L 18),
    .call (.ident "println" (L 19)) [none] [.ident "t" (L 20)] (L 21),
    .call (.ident "println" (L 22)) [none] [.ident "c" (L 23)] (L 24),
    .call (.ident "g" (L 25)) [] [] (L 26)
  ] [] [] [] true (L 0)

/-- a second program for the same session: it calls the closure `f` left on the heap by the first -/
def prog2 (L : Nat → Pos) : Node :=
  .call (.ident "println" (L 40)) [none] [.call (.ident "f" (L 41)) [none] [.lit (.int 5) (L 42)] (L 43)] (L 44)

def st0 : State × EnvId := initialState true modelledNatives

/-- what an observer sees of an outcome: kind, rendered value, message, function names of the trace, output -/
def summary (o : Out RVal) : String × Option (List Char) × String × List String × List Char :=
  match o with
  | .ok v s => ("ok", rrender s v, "", [], s.out)
  | .err v m _ t s => ("err", rrender s v, m, t.map (·.1), s.out)
  | .fail _ s => ("fail", none, "", [], s.out)

def errPos (o : Out RVal) : Option (Pos × List Pos) :=
  match o with
  | .err _ _ p t _ => some (p, t.map (·.2))
  | _ => none

def run (L : Nat → Pos) : Out RVal := interpretProg {} 100 st0.2 (prog L) st0.1

-- the two layouts are similar ASTs, and they are different ASTs
example : NodeSim (prog lay1) (prog lay2) := rfl
example : NodesSim [prog lay1, prog2 lay1] [prog lay2, prog2 lay2] := rfl

-- both runs end with the uncaught error `'in g'` raised in `g`, after printing `2` and `7`
#guard summary (run lay1) == ("err", some "'in g'".toList, "", ["g"], "2\n7\n".toList)
#guard summary (run lay1) == summary (run lay2)
-- … but at different positions, with different ghost counters, and different closure bodies on the heap
#guard errPos (run lay1) == some (lay1 31, [lay1 26])
#guard errPos (run lay2) == some (lay2 31, [lay2 26])
#guard (run lay1).finalState.ghost.enter.map (·.1) == [lay1 0, lay1 17]
#guard (run lay2).finalState.ghost.enter.map (·.1) == [lay2 0, lay2 17]

/-- the flagship theorem applied to the two layouts -/
example : OutSim (run lay1) (run lay2) :=
  interpretProg_pos_irrelevant {} nativeSim_empty 100 st0.2 (n := prog lay1) (n' := prog lay2) rfl (StateSim.refl _)

example : OutSim (eval {} 100 st0.2 (prog lay1) st0.1) (eval {} 100 st0.2 (prog lay2) st0.1) :=
  eval_pos_irrelevant {} nativeSim_empty 100 st0.2 (n := prog lay1) (n' := prog lay2) rfl (StateSim.refl _)

example : (eval {} 100 st0.2 (prog lay1) st0.1).finalState.out = (eval {} 100 st0.2 (prog lay2) st0.1).finalState.out :=
  output_pos_irrelevant {} nativeSim_empty 100 st0.2 (n := prog lay1) (n' := prog lay2) rfl (StateSim.refl _)

/-- the states the two runs leave behind are similar but not equal (closure bodies carry positions);
    the session continues from them: `println(f(5))` -/
example : ers (runSession {} 100 st0.2 [prog lay1, prog2 lay1] st0.1) =
    ers (runSession {} 100 st0.2 [prog lay2, prog2 lay2] st0.1) :=
  session_pos_irrelevant {} nativeSim_empty 100 st0.2 (ps := [prog lay1, prog2 lay1]) (ps' := [prog lay2, prog2 lay2])
    rfl (StateSim.refl _)

#guard (runSession {} 100 st0.2 [prog lay1, prog2 lay1] st0.1).map (·.out) == some "2\n7\n5\n".toList
#guard (runSession {} 100 st0.2 [prog lay2, prog2 lay2] st0.1).map (·.out) == some "2\n7\n5\n".toList
#guard ((run lay1).finalState.cell 0).map (fun c => match c with | .closure _ _ _ (.ident _ p) _ => p.line | _ => 0)
  == some 1
#guard ((run lay2).finalState.cell 0).map (fun c => match c with | .closure _ _ _ (.ident _ p) _ => p.line | _ => 0)
  == some 9

/-- `erase_eval` on the program -/
example : OutSim (eval {} 100 st0.2 (prog lay2) st0.1) (eval {} 100 st0.2 (prog lay2).erase st0.1) :=
  erase_eval {} nativeSim_empty 100 st0.2 (prog lay2) st0.1

-- instances of the hypotheses of the corollaries
example : ∃ v' t', eval {} 1 0 (.lit (.int 3) (lay2 1)) st0.1 = .ok v' t' ∧ RValSim (.int 3) v' ∧ StateSim st0.1 t' ∧
    rrender st0.1 (.int 3) = rrender t' v' ∧ (¬ IsPosV (.int 3) → v' = .int 3) :=
  value_pos_irrelevant {} nativeSim_empty 1 0 (n := .lit (.int 3) (lay1 1)) (n' := .lit (.int 3) (lay2 1))
    (s := st0.1) (s' := st0.1) rfl rfl (v := .int 3) (t := st0.1) (by with_unfolding_all rfl)

example : ∃ v' p' t' u', eval {} 2 0 (.error (.lit (.int 3) (lay2 1)) (lay2 2)) st0.1 = .err v' "" p' t' u' ∧
    RValSim (.int 3) v' ∧ (¬ IsPosV (.int 3) → v' = .int 3) ∧ ([] : List (String × Pos)).map (·.1) = t'.map (·.1) ∧
    ([] : List (String × Pos)).length = t'.length ∧ StateSim st0.1 u' ∧ rrender st0.1 (.int 3) = rrender u' v' :=
  error_value_pos_irrelevant {} nativeSim_empty 2 0 (n := .error (.lit (.int 3) (lay1 1)) (lay1 2))
    (n' := .error (.lit (.int 3) (lay2 1)) (lay2 2)) (s := st0.1) (s' := st0.1) rfl rfl
    (v := .int 3) (m := "") (p := lay1 2) (t := []) (u := st0.1) (by with_unfolding_all rfl)

example : ∃ f' u', eval {} 0 0 (.null (lay2 1)) st0.1 = .fail f' u' ∧ ers Fail.oof = ers f' ∧ StateSim st0.1 u' :=
  fail_pos_irrelevant {} nativeSim_empty 0 0 (n := .null (lay1 1)) (n' := .null (lay2 1)) (s := st0.1) (s' := st0.1)
    rfl rfl (f := .oof) (u := st0.1) (by with_unfolding_all rfl)

-- control values are similar without being equal; data values are similar only when equal
example : RValSim (.brk (lay1 1)) (.brk (lay2 1)) := rfl
example : RValSim (.ret (.int 1) (lay1 1)) (.ret (.int 1) (lay2 4)) := rfl
example : (RVal.int 3) = .int 3 := RValSim.eq_of_not_pos (v := .int 3) (v' := .int 3) rfl (fun h => h)
example : rrender st0.1 (.ret (.int 1) (lay1 1)) = rrender st0.1 (.ret (.int 1) (lay2 4)) :=
  result_pos_irrelevant (v := .ret (.int 1) (lay1 1)) (v' := .ret (.int 1) (lay2 4)) rfl (StateSim.refl _)

-- congruence rules build similarity bottom-up
example : NodeSim (.not (.ident "x" (lay1 1)) (lay1 2)) (.not (.ident "x" (lay2 1)) (lay2 2)) :=
  NodeSim.not (NodeSim.ident "x")
example : NodesSim [.null (lay1 1)] [.null (lay2 1)] := NodesSim.cons NodeSim.null NodesSim.nil
example : [Node.null (lay1 1)].length = [Node.null (lay2 1)].length :=
  NodesSim.length (NodesSim.cons NodeSim.null NodesSim.nil)

-- the other entry points
example : OutSim
    (callFn {} 5 (.native "add" 0) [("a", .int 1), ("b", .ret (.int 1) (lay1 1))] st0.2 (lay1 2) st0.1)
    (callFn {} 5 (.native "add" 0) [("a", .int 1), ("b", .ret (.int 1) (lay2 1))] st0.2 (lay2 2) st0.1) :=
  callFn_pos_irrelevant {} nativeSim_empty 5 (fn := .native "add" 0) (fn' := .native "add" 0) st0.2 rfl rfl (StateSim.refl _)

example : OutSim
    (invoke {} 5 (.native "add" 0) [] [none, none] [.lit (.int 1) (lay1 1), .lit (.int 2) (lay1 2)] st0.2 (lay1 3) st0.1)
    (invoke {} 5 (.native "add" 0) [] [none, none] [.lit (.int 1) (lay2 1), .lit (.int 2) (lay2 2)] st0.2 (lay2 3) st0.1) :=
  invoke_pos_irrelevant {} nativeSim_empty 5 (fn := .native "add" 0) (fn' := .native "add" 0) (pre := []) (pre' := [])
    [none, none] st0.2 rfl rfl rfl (StateSim.refl _)

example : ers (nextState (run lay1)) = ers (nextState (run lay2)) :=
  sessionStep_pos_irrelevant {} nativeSim_empty 100 st0.2 (n := prog lay1) (n' := prog lay2) rfl (StateSim.refl _)

example : ers (nextState (run lay1)) = ers (nextState (run lay2)) :=
  nextState_sim (interpretProg_pos_irrelevant {} nativeSim_empty 100 st0.2 (n := prog lay1) (n' := prog lay2) rfl
    (StateSim.refl _))

/-- the final states of the two runs: similar, hence the same output, variables, heap shape -/
theorem demo_states : StateSim (run lay1).finalState (run lay2).finalState :=
  OutSim.state (interpretProg_pos_irrelevant {} nativeSim_empty 100 st0.2 (n := prog lay1) (n' := prog lay2) rfl
    (StateSim.refl _))

example : (run lay1).finalState.out = (run lay2).finalState.out := demo_states.out_eq
example : (run lay1).finalState.secure = (run lay2).finalState.secure := demo_states.secure_eq
example : (run lay1).finalState.nextInst = (run lay2).finalState.nextInst := demo_states.nextInst_eq
example : (run lay1).finalState.modules = (run lay2).finalState.modules := demo_states.modules_eq
example : (run lay1).finalState.modstack = (run lay2).finalState.modstack := demo_states.modstack_eq
example : (run lay1).finalState.frames.size = (run lay2).finalState.frames.size := demo_states.frames_size
example : (run lay1).finalState.heap.size = (run lay2).finalState.heap.size := demo_states.heap_size
example : ers ((run lay1).finalState.lookup st0.2 "f") = ers ((run lay2).finalState.lookup st0.2 "f") :=
  demo_states.lookup st0.2 "f"
example : ers ((run lay1).finalState.cell 0) = ers ((run lay2).finalState.cell 0) := demo_states.cell 0
example : StateSim (run lay2).finalState (run lay1).finalState := demo_states.symm
example : StateSim (run lay1).finalState (run lay1).finalState := demo_states.trans demo_states.symm
example : typeName (run lay1).finalState (.closure 0) = typeName (run lay2).finalState (.closure 0) :=
  typeName_pos_irrelevant (v := .closure 0) (v' := .closure 0) rfl demo_states
example : rveq (run lay1).finalState (.brk (lay1 1)) (.int 1) = rveq (run lay2).finalState (.brk (lay2 1)) (.int 1) :=
  rveq_pos_irrelevant (a := .brk (lay1 1)) (a' := .brk (lay2 1)) (b := .int 1) (b' := .int 1) rfl rfl demo_states
example : OutSim (run lay2) (run lay1) :=
  (interpretProg_pos_irrelevant {} nativeSim_empty 100 st0.2 (n := prog lay1) (n' := prog lay2) rfl (StateSim.refl _)).symm
example : NodeSim (prog lay2) (prog lay1) := NodeSim.symm (a := prog lay1) (b := prog lay2) rfl
example : NodeSim (prog lay1) (prog lay1).erase :=
  NodeSim.trans (a := prog lay1) (b := prog lay2) rfl (nodeSim_erase (prog lay2))
example : RValSim (.brk (lay2 1)) (.brk (lay1 1)) := RValSim.symm (a := .brk (lay1 1)) (b := .brk (lay2 1)) rfl
example : StateSim (run lay1).finalState (ers (run lay1).finalState) := stateSim_erase _
example : OutSim (eval {} 100 st0.2 (prog lay2) st0.1) (eval {} 100 st0.2 (prog lay2).erase (ers st0.1)) :=
  erase_eval_state {} nativeSim_empty 100 st0.2 (prog lay2) st0.1

-- loaders: the abstaining interpretation, and an interpretation that does not abstain
example : NativeSim {} := nativeSim_abstain {} rfl
example : NativeSim { nativeSem := fun _ b s => .ok ((dictGet "x" b).getD .null) s } := by
  intro name b b' hb
  exact ⟨fun s s' hs => by simp only [ers_ok, hs, ers_getDo, dictGet_ers', hb]⟩

/-! #### finding: one site of the model lets a position influence something that is not a position

  `floatResult` (Model/Natives.lean) puts the line number of the call into the text of the `unsupported`
  failure raised for a non-finite decimal result.  This is why `OutSim` ignores the text of
  `Fail.unsupported` (and only that text). -/
#guard (match floatResult (1.0 / 0.0) (lay1 3) "div" st0.1, floatResult (1.0 / 0.0) (lay1 5) "div" st0.1 with
  | .fail (.unsupported a) _, .fail (.unsupported b) _ => a != b
  | _, _ => false)
example : OutSim (floatResult (1.0 / 0.0) (lay1 3) "div" st0.1) (floatResult (1.0 / 0.0) (lay1 5) "div" st0.1) :=
  (floatResult_resp (1.0 / 0.0) "div" (p := lay1 3) (p' := lay1 5)).run _ _ rfl

end Demo

end Ckl.C14E
