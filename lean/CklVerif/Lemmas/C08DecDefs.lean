/-
  C08Dec — definitions: the finite binary64 values as the model represents them (`IsDouble`), and
  the positional layout step of `decRepr` as a function of the digit string and the decimal-point
  position (`layout`).  Mathlib-free.
-/
import CklVerif.Lemmas.C08DecLoop
import CklVerif.Model.ParserBase
namespace Ckl.C08D
open Ckl Ckl.Parser

/-- `IsDoubleN a e`: the non-negative dyadic `a / 2^e` is a finite binary64 value in the model's normal form:
    either `e = 0` and `a < 2^1024` is an integer with at most 53 significant bits, or `0 < e ≤ 1074`
    and `a < 2^53` is odd (so that `a / 2^e` is a multiple of `2^-1074` and `a` is the odd part). -/
def IsDoubleN (a e : Nat) : Prop :=
  (e = 0 ∧ a < 2 ^ 1024 ∧ 2 ^ (bitLen a - 53) ∣ a) ∨ (0 < e ∧ e ≤ 1074 ∧ a % 2 = 1 ∧ a < 2 ^ 53)

instance (a e : Nat) : Decidable (IsDoubleN a e) := by unfold IsDoubleN; exact inferInstance

/-- `IsDouble m e`: `Val.dec m e` is a finite binary64 value in normal form -/
def IsDouble (m : Int) (e : Nat) : Prop := IsDoubleN m.natAbs e

instance (m : Int) (e : Nat) : Decidable (IsDouble m e) := by unfold IsDouble; exact inferInstance

/-- the positional layout of the digits `ds` with the decimal point after `k` digits -/
def layout (ds : List Char) (k : Int) : List Char :=
  if k ≤ 0 then '0' :: '.' :: (List.replicate (-k).toNat '0' ++ ds)
  else if k.toNat ≥ ds.length then ds ++ List.replicate (k.toNat - ds.length) '0' ++ ['.', '0']
  else ds.take k.toNat ++ '.' :: ds.drop k.toNat

theorem decRepr_zero (e : Nat) : decRepr 0 e = ['0', '.', '0'] := by
  unfold decRepr; rw [if_pos rfl]

theorem decRepr_eq (m : Int) (e : Nat) (hm : m ≠ 0) :
    decRepr m e = (if m < 0 then ['-'] else []) ++
      layout (shortestDigits m.natAbs e).1 (shortestDigits m.natAbs e).2 := by
  unfold decRepr
  rw [if_neg hm]
  generalize shortestDigits m.natAbs e = p
  obtain ⟨ds, k⟩ := p
  rfl

end Ckl.C08D
