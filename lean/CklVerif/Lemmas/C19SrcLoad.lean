import CklVerif.Lemmas.C19SrcSetup
import CklVerif.Lemmas.C19SrcRules
import CklVerif.Lemmas.C03Env
import CklVerif.Driver.EvalCmd

/-! C19Src — the state the driver builds satisfies the environment hypothesis `LibEnv`:
    `initialState` (base frame 0 with the constants and the built-ins, module frame 1) followed by evaluating a LIST of
    generated `def name(params) body` nodes in the module frame, as the statement list of a module (`evalBody`). -/
namespace Ckl.C19Src
open Ckl Ckl.C03 Ckl.Gen.LibSrc
variable (ld : Loader)

/-- the node is a `def name(params) body` (every generated definition of `CklVerif.Gen.LibSrc` has this shape) -/
def IsDefLam (n : Node) : Prop :=
  ∃ name ps ds body lp info dp, n = .defn name (.lambda ps ds body lp) info dp

/-! ### one `def` -/

/-- the state after evaluating `def name(ps) body` in frame `m`: a new closure cell (renamed to `name`), bound in frame `m` -/
def defState (s : State) (m : EnvId) (name : String) (ps : List String) (ds : List Node) (body : Node) : State :=
  ((s.alloc (.closure m ps ds body "lambda")).1.put m name (.closure s.heap.size)).setCell s.heap.size
    (.closure m ps ds body name)

theorem eval_def_state {name : String} {ps : List String} {ds : List Node} {body : Node} {lp dp : Pos} {info : String}
    (s : State) (m : EnvId) :
    ∀ fuel, 1 < fuel → eval ld fuel m (.defn name (.lambda ps ds body lp) info dp) s
      = .ok (.closure s.heap.size) (defState s m name ps ds body) := by
  intro fuel hf
  obtain ⟨g, rfl, hg⟩ := succ_of_lt hf
  obtain ⟨g', rfl, _⟩ := succ_of_lt (show 0 < g by omega)
  rw [eval, EvalM.bind_apply, eval]
  simp [EvalM.bind_apply, modifyS, renameClosure, getS, State.alloc, State.put, State.cell, State.setCell, defState]
  rfl

theorem defState_frame_same (s : State) {m : EnvId} (hm : m < s.frames.size) (name : String) (ps : List String)
    (ds : List Node) (body : Node) :
    (defState s m name ps ds body).frame m
      = { (s.frame m) with vars := dictPut name (.closure s.heap.size) (s.frame m).vars } :=
  frame_put_same (s.alloc (.closure m ps ds body "lambda")).1 name (.closure s.heap.size) hm

theorem defState_frame_other (s : State) {m i : EnvId} (hi : i ≠ m) (name : String) (ps : List String)
    (ds : List Node) (body : Node) : (defState s m name ps ds body).frame i = s.frame i :=
  frame_put_other (s.alloc (.closure m ps ds body "lambda")).1 name (.closure s.heap.size) hi

theorem defState_frames_size (s : State) (m : EnvId) (name : String) (ps : List String)
    (ds : List Node) (body : Node) : (defState s m name ps ds body).frames.size = s.frames.size :=
  frames_size_put (s.alloc (.closure m ps ds body "lambda")).1 m name (.closure s.heap.size)

theorem defState_heap_size (s : State) (m : EnvId) (name : String) (ps : List String)
    (ds : List Node) (body : Node) : (defState s m name ps ds body).heap.size = s.heap.size + 1 := by
  simp [defState, State.alloc, State.put, State.setCell]

theorem defState_cell_old (s : State) (m : EnvId) (name : String) (ps : List String)
    (ds : List Node) (body : Node) {a : Nat} (ha : a < s.heap.size) :
    (defState s m name ps ds body).cell a = s.cell a := by
  have h1 : s.heap.size ≠ a := Nat.ne_of_gt ha
  have h2 : a ≠ s.heap.size := Nat.ne_of_lt ha
  simp [defState, State.alloc, State.put, State.cell, State.setCell, Array.getElem?_push, h1, h2]

theorem defState_cell_new (s : State) (m : EnvId) (name : String) (ps : List String)
    (ds : List Node) (body : Node) :
    (defState s m name ps ds body).cell s.heap.size = some (.closure m ps ds body name) := by
  simp [defState, State.alloc, State.put, State.cell, State.setCell]

theorem defState_out (s : State) (m : EnvId) (name : String) (ps : List String)
    (ds : List Node) (body : Node) : (defState s m name ps ds body).out = s.out := rfl

/-! ### a list of `def`s -/

/-- Loading a list of definitions with pairwise different names into frame `m`: only frame `m` changes, its parent stays,
    names that are not defined keep their binding, old cells stay, and every defined name is bound to a closure cell made
    from its definition, closed over `m`. -/
theorem load_defs_aux (m : EnvId) (defs : List Node) :
    (∀ d ∈ defs, IsDefLam d) → (defs.map defName).Nodup →
    ∀ (s : State), m < s.frames.size → ∀ (last : RVal),
    ∃ v s', EvBody ld (defs.length + 1) m defs last s (.ok v s') ∧
      (s'.frame m).parent = (s.frame m).parent ∧
      (∀ i, i ≠ m → s'.frame i = s.frame i) ∧ s'.frames.size = s.frames.size ∧
      s.heap.size ≤ s'.heap.size ∧ (∀ a, a < s.heap.size → s'.cell a = s.cell a) ∧ s'.out = s.out ∧
      (∀ x, x ∉ defs.map defName → dictGet x (s'.frame m).vars = dictGet x (s.frame m).vars) ∧
      (∀ d ∈ defs, ∃ a nm, dictGet (defName d) (s'.frame m).vars = some (.closure a) ∧
        s'.cell a = some (.closure m (lamParams d) (lamDefaults d) (lamBody d) nm)) := by
  induction defs with
  | nil =>
    intro _ _ s _ last
    exact ⟨last, s, EvBody.nil ld, rfl, fun _ _ => rfl, rfl, Nat.le_refl _, fun _ _ => rfl, rfl, fun _ _ => rfl,
      fun d hd => by cases hd⟩
  | cons d ds ih =>
    intro hall hnd s hlt last
    obtain ⟨name, ps, dfs, body, lp, info, dp, rfl⟩ := hall _ List.mem_cons_self
    have hnd' : name ∉ ds.map defName ∧ (ds.map defName).Nodup := by
      simpa [defName] using hnd
    have hlt1 : m < (defState s m name ps dfs body).frames.size := by
      rw [defState_frames_size]; exact hlt
    obtain ⟨v, s', hev, hpar, hfr, hsz, hhp, hcell, hout, hget, hsrc⟩ :=
      ih (fun d hd => hall d (List.mem_cons_of_mem _ hd)) hnd'.2 (defState s m name ps dfs body) hlt1
        (.closure s.heap.size)
    have hname : dictGet name (s'.frame m).vars = some (.closure s.heap.size) := by
      rw [hget name hnd'.1, defState_frame_same s hlt]
      exact dictGet_dictPut_same _ _ _
    refine ⟨v, s', ?_, ?_, ?_, ?_, ?_, ?_, ?_, ?_, ?_⟩
    · refine EvBody.cons ld (v := .closure s.heap.size) (s1 := defState s m name ps dfs body) ?_ rfl hev
      intro f hf
      exact eval_def_state ld s m f (by simp only [List.length_cons] at hf; omega)
    · rw [hpar, defState_frame_same s hlt]
    · intro i hi; rw [hfr i hi, defState_frame_other s hi]
    · rw [hsz, defState_frames_size]
    · rw [defState_heap_size] at hhp; omega
    · intro a ha
      rw [hcell a (by rw [defState_heap_size]; omega), defState_cell_old s m name ps dfs body ha]
    · rw [hout, defState_out]
    · intro x hx
      have hx' : x ≠ name ∧ x ∉ ds.map defName := by simpa [defName] using hx
      rw [hget x hx'.2, defState_frame_same s hlt]
      exact dictGet_dictPut_other (Ne.symm hx'.1) _ _
    · intro d' hd'
      rcases List.mem_cons.mp hd' with rfl | hd'
      · refine ⟨s.heap.size, name, hname, ?_⟩
        rw [hcell _ (by rw [defState_heap_size]; omega), defState_cell_new]
        rfl
      · exact hsrc d' hd'

/-- **Loading the library definitions establishes the environment hypothesis.**  In a state where `NULL` and the built-ins
    `nats` resolve from frame `m`, evaluating the statement list `defs` (generated `def` nodes, pairwise different names, none
    of them `NULL` or a built-in of `nats`) in frame `m` ends normally in a state where `LibEnv` holds for the module frame `m`,
    the built-ins `nats` and all the definitions; no other frame, no existing cell and no output is touched. -/
theorem load_defs_libEnv (defs : List Node) (hall : ∀ d ∈ defs, IsDefLam d) (hnd : (defs.map defName).Nodup)
    (nats : List String) (hdisj : ∀ x ∈ "NULL" :: nats, x ∉ defs.map defName)
    (s : State) (m : EnvId) (hlt : m < s.frames.size)
    (hnull : Res s m "NULL" .null) (hnat : ∀ x ∈ nats, ∃ i, Res s m x (.native x i))
    (last : RVal) :
    ∃ v s', (∀ fuel, defs.length + 1 < fuel → evalBody ld fuel m defs last s = .ok v s') ∧
      LibEnv s' (· = m) nats (defs.map (fun d => (defName d, d))) ∧
      (∀ i, i < s.frames.size → i ≠ m → s'.frame i = s.frame i) ∧ s'.frames.size = s.frames.size ∧
      (∀ a, a < s.heap.size → s'.cell a = s.cell a) ∧ s'.out = s.out := by
  obtain ⟨v, s', hev, hpar, hfr, hsz, _, hcell, hout, hget, hsrc⟩ := load_defs_aux ld m defs hall hnd s hlt last
  have hres : ∀ x w, x ∉ defs.map defName → Res s m x w → Res s' m x w := by
    intro x w hx h
    rcases h with h | ⟨h1, h2, h3⟩
    · left; rw [hget x hx]; exact h
    · right
      refine ⟨by rw [hget x hx]; exact h1, by rw [hpar]; exact h2, ?_⟩
      by_cases h0 : 0 = m
      · subst h0; rw [h1] at h3; cases h3
      · rw [hfr 0 h0]; exact h3
  refine ⟨v, s', hev, ⟨?_, ?_, ?_, ?_⟩, fun i _ hi => hfr i hi, hsz, hcell, hout⟩
  · intro m' hm'; subst hm'; rw [hsz]; exact hlt
  · intro m' hm'; subst hm'
    exact hres _ _ (hdisj _ List.mem_cons_self) hnull
  · intro m' hm' x hx; subst hm'
    obtain ⟨i, hi⟩ := hnat x hx
    exact ⟨i, hres _ _ (hdisj _ (List.mem_cons_of_mem _ hx)) hi⟩
  · intro m' hm' p hp; subst hm'
    obtain ⟨d, hd, rfl⟩ := List.mem_map.mp hp
    obtain ⟨a, nm, h1, h2⟩ := hsrc d hd
    exact ⟨.closure a, m', Or.inl h1, rfl, a, nm, rfl, h2⟩

/-! ### the driver's initial state -/

/-- one step of the fold in `initialState`: bind the built-in `n` in the base frame, under a fresh instance number -/
def natStep (s : State) (n : String) : State :=
  { (s.put 0 n (.native n s.nextInst)) with nextInst := s.nextInst + 1 }

/-- the base frame before the built-ins are bound: the four constants -/
def constState (secure : Bool) : State :=
  (((({ frames := #[{ vars := [], parent := none }], secure := secure } : State).put 0 "checkerlang_secure_mode"
    (.bool secure)).put 0 "MAXINT" (.int 9223372036854775807)).put 0 "MININT" (.int (-9223372036854775808))).put 0
    "NULL" .null

theorem initialState_eq (secure : Bool) (natives : List String) :
    (initialState secure natives).1 = ((natives.foldl natStep (constState secure)).newEnv 0).1 := rfl

theorem natFold_spec (nats : List String) : ∀ (s : State), 0 < s.frames.size →
    (nats.foldl natStep s).frames.size = s.frames.size ∧
    (∀ x, x ∉ nats → dictGet x ((nats.foldl natStep s).frame 0).vars = dictGet x (s.frame 0).vars) ∧
    (∀ x ∈ nats, ∃ i, dictGet x ((nats.foldl natStep s).frame 0).vars = some (.native x i)) := by
  induction nats with
  | nil => intro s _; exact ⟨rfl, fun _ _ => rfl, fun x hx => by cases hx⟩
  | cons n ns ih =>
    intro s hs
    have hsz : (natStep s n).frames.size = s.frames.size := frames_size_put s 0 n _
    have hfr : (natStep s n).frame 0 = { (s.frame 0) with vars := dictPut n (.native n s.nextInst) (s.frame 0).vars } :=
      frame_put_same s n _ hs
    obtain ⟨h1, h2, h3⟩ := ih (natStep s n) (by rw [hsz]; exact hs)
    rw [List.foldl_cons]
    refine ⟨by rw [h1, hsz], ?_, ?_⟩
    · intro x hx
      have hx' : x ≠ n ∧ x ∉ ns := by simpa using hx
      rw [h2 x hx'.2, hfr]
      exact dictGet_dictPut_other (Ne.symm hx'.1) _ _
    · intro x hx
      by_cases hxs : x ∈ ns
      · exact h3 x hxs
      · have hxn : x = n := by
          rcases List.mem_cons.mp hx with h | h
          · exact h
          · exact absurd h hxs
        subst hxn
        refine ⟨s.nextInst, ?_⟩
        rw [h2 x hxs, hfr]
        exact dictGet_dictPut_same _ _ _

theorem constState_frames_size (secure : Bool) : (constState secure).frames.size = 1 := by
  simp [constState, frames_size_put]

theorem constState_null (secure : Bool) : dictGet "NULL" ((constState secure).frame 0).vars = some .null := by
  unfold constState
  rw [vars_put_same _ _ _ (by simp [frames_size_put])]
  exact dictGet_dictPut_same _ _ _

theorem initialState_frames_size (secure : Bool) (natives : List String) :
    (initialState secure natives).1.frames.size = 2 := by
  rw [initialState_eq, frames_size_newEnv,
    (natFold_spec natives (constState secure) (by rw [constState_frames_size]; exact Nat.one_pos)).1,
    constState_frames_size]

theorem initialState_frame1 (secure : Bool) (natives : List String) :
    (initialState secure natives).1.frame 1 = { vars := [], parent := some 0 } := by
  have hsz : (natives.foldl natStep (constState secure)).frames.size = 1 := by
    rw [(natFold_spec natives (constState secure) (by rw [constState_frames_size]; exact Nat.one_pos)).1,
      constState_frames_size]
  have := frame_newEnv_new (natives.foldl natStep (constState secure)) 0
  rw [hsz] at this
  rw [initialState_eq]; exact this

theorem initialState_frame0 (secure : Bool) (natives : List String) :
    (initialState secure natives).1.frame 0 = (natives.foldl natStep (constState secure)).frame 0 := by
  rw [initialState_eq]
  exact frame_newEnv_old _ 0
    (by rw [(natFold_spec natives (constState secure) (by rw [constState_frames_size]; exact Nat.one_pos)).1,
      constState_frames_size]; exact Nat.one_pos)

/-- from the session frame 1 of the driver's initial state, `NULL` resolves to the null value … -/
theorem initialState_null (secure : Bool) (natives : List String) (h : "NULL" ∉ natives) :
    Res (initialState secure natives).1 1 "NULL" .null := by
  refine Or.inr ⟨by rw [initialState_frame1]; rfl, by rw [initialState_frame1], ?_⟩
  rw [initialState_frame0,
    (natFold_spec natives (constState secure) (by rw [constState_frames_size]; exact Nat.one_pos)).2.1 _ h]
  exact constState_null secure

/-- … and every built-in handed to `initialState` resolves to the built-in of that name -/
theorem initialState_nat (secure : Bool) (natives : List String) {x : String} (hx : x ∈ natives) :
    ∃ i, Res (initialState secure natives).1 1 x (.native x i) := by
  obtain ⟨i, hi⟩ :=
    (natFold_spec natives (constState secure) (by rw [constState_frames_size]; exact Nat.one_pos)).2.2 x hx
  refine ⟨i, Or.inr ⟨by rw [initialState_frame1]; rfl, by rw [initialState_frame1], ?_⟩⟩
  rw [initialState_frame0]; exact hi

/-! ### the concrete instance -/

def loadNats : List String :=
  ["is_null", "less", "greater", "sub", "add", "type", "equals", "mod", "sublist", "insert_at", "append", "length", "list",
   "mul", "set"]

def loadDefs : List Node :=
  [type_is_int, type_is_decimal, type_is_numeric, type_is_list, math_abs, math_sign, math_is_even, math_is_odd, math_gcd,
   predicate_is_zero, predicate_is_negative, predicate_is_positive, list_first, list_last, list_rest, list_reverse_list,
   list_reduce, list_prod, list_append_all, core_non_empty, core_const]

theorem loadDefs_names : loadDefs.map defName =
    ["is_int", "is_decimal", "is_numeric", "is_list", "abs", "sign", "is_even", "is_odd", "gcd", "is_zero", "is_negative",
     "is_positive", "first", "last", "rest", "reverse_list", "reduce", "prod", "append_all", "non_empty", "const"] := rfl

theorem loadDefs_isDefLam : ∀ d ∈ loadDefs, IsDefLam d := by
  intro d hd
  simp only [loadDefs, List.mem_cons, List.not_mem_nil, or_false] at hd
  rcases hd with rfl | rfl | rfl | rfl | rfl | rfl | rfl | rfl | rfl | rfl | rfl | rfl | rfl | rfl | rfl | rfl | rfl |
    rfl | rfl | rfl | rfl <;> exact ⟨_, _, _, _, _, _, _, rfl⟩

theorem loadDefs_nodup : (loadDefs.map defName).Nodup := by
  rw [loadDefs_names]; decide

theorem loadDefs_disj : ∀ x ∈ "NULL" :: loadNats, x ∉ loadDefs.map defName := by
  rw [loadDefs_names]; decide

/-- **The driver's state satisfies the environment hypothesis**: `initialState` with the built-ins `loadNats`, then the
    generated definitions `loadDefs` evaluated as the statements of a module in the session frame 1. -/
theorem initialState_load_libEnv (secure : Bool) (last : RVal) :
    ∃ v s', (∀ fuel, loadDefs.length + 1 < fuel →
        evalBody ld fuel 1 loadDefs last (initialState secure loadNats).1 = .ok v s') ∧
      LibEnv s' (· = 1) loadNats (loadDefs.map (fun d => (defName d, d))) := by
  obtain ⟨v, s', h1, h2, _⟩ := load_defs_libEnv ld loadDefs loadDefs_isDefLam loadDefs_nodup loadNats loadDefs_disj
    (initialState secure loadNats).1 1 (by rw [initialState_frames_size]; exact Nat.lt_succ_self 1)
    (initialState_null secure loadNats (by decide)) (fun x hx => initialState_nat secure loadNats hx) last
  exact ⟨v, s', h1, h2⟩

/-- every loaded definition is, from frame 1, bound to a function value made from it and closed over frame 1 -/
theorem loaded_isSrc {s' : State} (h : LibEnv s' (· = 1) loadNats (loadDefs.map (fun d => (defName d, d)))) {d : Node}
    (hd : d ∈ loadDefs) : ∃ v, Res s' 1 (defName d) v ∧ IsSrc s' v d 1 := by
  obtain ⟨v, m', h1, h2, h3⟩ := h.src 1 rfl (defName d, d) (List.mem_map.mpr ⟨d, hd, rfl⟩)
  subst h2
  exact ⟨v, h1, h3⟩

end Ckl.C19Src
