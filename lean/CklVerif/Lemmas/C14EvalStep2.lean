import CklVerif.Lemmas.C14EvalStep1

/-! C14 (evaluator part) — induction steps: items, arguments, parameters, loops, comprehensions -/
namespace Ckl.C14E
open Ckl
set_option linter.unusedVariables false

variable {ld : Loader} {fuel : Nat}

def nones (n : Nat) : List (Option String) := List.replicate n none

@[obs_simp] theorem map_none_obs (l : List RVal) :
    l.map (fun _ => (none : Option String)) = nones (V1 List.length (ers l)) := by
  simp [nones, V1, List.map_const']

theorem map_congr_of_ers {α γ : Type} [Ers α] (g : α → γ) (hg : ∀ a a', ers a = ers a' → g a = g a') :
    ∀ {l l' : List α}, ers l = ers l' → l.map g = l'.map g := by
  intro l
  induction l with
  | nil => intro l' h; cases l' <;> simp_all
  | cons x l ih =>
    intro l' h
    cases l' with
    | nil => simp at h
    | cons x' l' =>
      simp only [ers_cons, List.cons.injEq] at h
      simp only [List.map_cons, hg x x' h.1, ih h.2]

theorem evalItems_step1 (ih : SAll ld fuel) (env : EnvId) (ns : List Node) (p p' : Pos) :
    Resp (evalItems ld (fuel + 1) env ns p) (evalItems ld (fuel + 1) env (ers ns) p') := by
  ih_intro ih
  cases ns with
  | nil => simp only [ers_nil]; unfold Ckl.evalItems; resp
  | cons n ns =>
    cases n <;> simp only [ers_simp] <;> unfold Ckl.evalItems <;> resp!

theorem evalArgs_step1 (ih : SAll ld fuel) (env : EnvId) (names : List (Option String)) (as : List Node) (p p' : Pos) :
    Resp (evalArgs ld (fuel + 1) env names as p) (evalArgs ld (fuel + 1) env names (ers as) p') := by
  ih_intro ih
  cases names <;> cases as <;> simp only [ers_nil, ers_cons] <;> try (unfold Ckl.evalArgs; resp; done)
  rename_i n ns a as
  cases a <;> simp only [ers_simp] <;> unfold Ckl.evalArgs <;> resp!
  apply Resp.pure
  simp only [ers_pair, Prod.mk.injEq, ers_id]
  constructor
  · congr 1
    apply map_congr_of_ers _ _ (by assumption)
    intro a a' ha
    sim_cases ha
    rename_i hk hv
    sim_cases hk <;> rfl
  · ers_tac


theorem bindParams_step1 (ih : SAll ld fuel) (lenv : EnvId) (ps : List String) (ds : List Node)
    {b b' : List (String × RVal)} {p p' : Pos} (hb : ers b = ers b') :
    Resp (bindParams ld (fuel + 1) lenv ps ds b p) (bindParams ld (fuel + 1) lenv ps (ers ds) b' p') := by
  ih_intro ih
  cases ps <;> cases ds <;> simp only [ers_nil, ers_cons] <;> unfold Ckl.bindParams <;> resp!

theorem forItems_step1 (ih : SAll ld fuel) (env : EnvId) (ids : List String) {xs xs' : List RVal} (body : Node)
    {r r' : RVal} {p p' : Pos} (hx : ers xs = ers xs') (hr : ers r = ers r') :
    Resp (forItems ld (fuel + 1) env ids xs body r p) (forItems ld (fuel + 1) env ids xs' (ers body) r' p') := by
  ih_intro ih
  sim_cases hx <;> unfold Ckl.forItems <;> resp!

theorem forListLive_step1 (ih : SAll ld fuel) (env : EnvId) (ids : List String) (a i : Nat) (body : Node)
    {r r' : RVal} {p p' : Pos} (hr : ers r = ers r') :
    Resp (forListLive ld (fuel + 1) env ids a i body r p) (forListLive ld (fuel + 1) env ids a i (ers body) r' p') := by
  ih_intro ih
  unfold Ckl.forListLive
  resp!

theorem forString_step1 (ih : SAll ld fuel) (env : EnvId) (x : String) (cs : List Char) (body : Node)
    {r r' : RVal} (hr : ers r = ers r') :
    Resp (forString ld (fuel + 1) env x cs body r) (forString ld (fuel + 1) env x cs (ers body) r') := by
  ih_intro ih
  cases cs <;> unfold Ckl.forString <;> resp!

theorem whileLoop_step1 (ih : SAll ld fuel) (env : EnvId) (c body : Node) (p p' : Pos) :
    Resp (whileLoop ld (fuel + 1) env c body p) (whileLoop ld (fuel + 1) env (ers c) (ers body) p') := by
  ih_intro ih
  unfold Ckl.whileLoop
  resp!

theorem comprStep_step1 (ih : SAll ld fuel) (lenv : EnvId) (kind : ComprKind) (ve ke cond : Node) (p p' : Pos) :
    Resp (comprStep ld (fuel + 1) lenv kind ve ke cond p)
      (comprStep ld (fuel + 1) lenv kind (ers ve) (ers ke) (ers cond) p') := by
  ih_intro ih
  unfold Ckl.comprStep
  cases kind <;> resp!

end Ckl.C14E
