/-
  C14 (redundant parentheses) — extension lemmas, part E: the productions with a weak claim
  (`pBareBlock`, `bareLoop`, `catchLoop`: they may stop in front of a `;` / `catch` that the
  extension could supply, so the claim is made only when the first run leaves a token), and
  `pBlock`, which uses `catchLoop`.
-/
import CklVerif.Lemmas.C14ParensHyp
namespace Ckl.C14X
open Ckl Ckl.Parser

local notation "kw" => (some TokType.keyword)
local notation "ip" => (some TokType.interpunction)
local notation "op" => (some TokType.operator)
local notation "idt" => (some TokType.identifier)

set_option linter.unusedSimpArgs false
set_option linter.unusedVariables false

variable {x : Ext}

theorem sim_bareLoop {c c' : Ctx} {st st' : St} {acc : List Node} (H : Hyp x (st.toks.length * 16 + 0))
    (hc : CRel c c') (hs : SRel x st st') :
    ERelW NELe (OLe x) (bareLoop c st acc) (bareLoop c' st' acc) := by
  rw [bareLoop, bareLoop]
  mif3 hs c!";" ip with s1 h1 s1' h1' hs1 hnil
  · exact fun _ => ⟨rfl, hs⟩
  · by_cases hn1 : s1.toks = []
    · simp only [hasNext_nil hn1, Bool.not_false, if_true]
      exact ERelW.of_not (by simp [NELe, hn1])
    · have e1 : s1.hasNext = true := by simpa [St.hasNext] using hn1
      simp only [e1, hasNext_ext hs1, Bool.not_true, Bool.false_eq_true, if_false]
      ebindW (blockOrStmt_rel H hc hs1 (by omega)) with e s2 h2 s2' h2' hs2
      refine ERelW.bindW (H.bareLoop hc hs2 (by omega)) ?_ ?_
      · rintro ⟨r, s3, h3⟩ b hn hb
        cases hb
        exact hn
      · rintro ⟨r, s3, h3⟩ ⟨r', s3', h3'⟩ hp ⟨hr, hs3⟩
        exact fun _ => ⟨hr, hs3⟩
  · rw [matchIf_nil hnil]
    exact ERelW.of_not (by simp [NELe, hnil])

theorem sim_pBareBlock {c c' : Ctx} {st st' : St} (tl : Bool) (H : Hyp x (st.toks.length * 16 + 12))
    (hc : CRel c c') (hs : SRel x st st') :
    ERelW NELt (OLt x) (pBareBlock c tl st) (pBareBlock c' tl st') := by
  rw [pBareBlock, pBareBlock]
  by_cases hn0 : st.toks = []
  · rw [blockOrStmt_nil hn0]; exact ERelW.err
  rw [posNext_rel hs hn0]
  ebindW (blockOrStmt_rel H hc hs (by omega)) with e s1 h1 s1' h1' hs1
  by_cases hn1 : s1.toks = []
  · simp only [hasNext_nil hn1, Bool.not_false, if_true]
    exact ERelW.of_not (by simp [NELt, hn1])
  · have e1 : s1.hasNext = true := by simpa [St.hasNext] using hn1
    simp only [e1, hasNext_ext hs1, Bool.not_true, Bool.false_eq_true, if_false]
    refine ERelW.bindW (H.bareLoop hc hs1 (by omega)) ?_ ?_
    · rintro ⟨r, s3, h3⟩ b hn hb
      cases hb
      exact hn
    · rintro ⟨r, s3, h3⟩ ⟨r', s3', h3'⟩ hp ⟨hr, hs3⟩
      dsimp only at hr
      subst hr
      exact fun _ => ⟨rfl, hs3⟩

theorem sim_catchLoop {c c' : Ctx} {st st' : St} {e h : List Node} (H : Hyp x (st.toks.length * 16 + 0))
    (hc : CRel c c') (hs : SRel x st st') :
    ERelW NELe (OLe x) (catchLoop c st e h) (catchLoop c' st' e h) := by
  rw [catchLoop, catchLoop]
  mif3 hs c!"catch" kw with s1 h1 s1' h1' hs1 hnil
  · exact fun _ => ⟨rfl, hs⟩
  · refine ERelW.bind (r := OLe x) ?_ ?_
    · mif hs1 c!"all" idt with s h0 s' h0' hs'
      · exact ERel_ltLe (H.pExpression hc hs1 (by omega))
      · exact ⟨rfl, hs'⟩
    rintro ⟨err, s2, h2⟩ ⟨err', s2', h2'⟩ ⟨he, hs2⟩
    dsimp only at he hs2 ⊢
    subst he
    ebindW (blockOrStmt_rel H hc hs2 (by omega)) with ex s3 h3 s3' h3' hs3
    rcases skipIf_cases hs3 c!";" ip with hs4 | hn3
    · revert hs4
      generalize St.skipIf s3 _ _ = mw
      generalize St.skipIf s3' _ _ = mw'
      obtain ⟨s4, h4⟩ := mw
      obtain ⟨s4', h4'⟩ := mw'
      intro hs4
      dsimp only at hs4 ⊢
      refine ERelW.bindW (H.catchLoop hc hs4 (by omega)) ?_ ?_
      · rintro ⟨r, s5, h5⟩ b hn hb
        cases hb
        exact hn
      · rintro ⟨r, s5, h5⟩ ⟨r', s5', h5'⟩ hp ⟨hr, hs5⟩
        exact fun _ => ⟨hr, hs5⟩
    · -- nothing is left after the handler: the first run ends with nothing left
      generalize hmw : St.skipIf s3 c!";" ip = mw
      obtain ⟨s4, h4⟩ := mw
      have h40 : s4.toks = [] := toks_nil_of_le hn3 h4
      dsimp only
      cases hk : catchLoop c s4 (e ++ [err]) (h ++ [ex]) with
      | error er => exact ERelW.err
      | ok o =>
        obtain ⟨r, s5, h5⟩ := o
        exact ERelW.of_not (by simp [NELe, toks_nil_of_le h40 h5])
  · rw [matchIf_nil hnil]
    exact ERelW.of_not (by simp [NELe, hnil])

theorem sim_pBlock {c c' : Ctx} {st st' : St} (H : Hyp x (st.toks.length * 16 + 0))
    (hc : CRel c c') (hs : SRel x st st') : ERel (OLt x) (pBlock c st) (pBlock c' st') := by
  rw [pBlock, pBlock]
  by_cases hn0 : st.toks = []
  · rw [expect_nil hn0]; exact ERel.err
  rw [posNext_rel hs hn0]
  sbind (expect_rel hs _ _) with s1 h1 s1' h1' hs1
  ebind (H.blockLoop hc hs1 (by omega)) with es s2 h2 s2' h2' hs2
  refine ERel.bindW (H.catchLoop hc hs2 (by omega)) ?_ ?_
  · rintro ⟨⟨ce, ch⟩, s3, h3⟩ hnn
    have hnil : s3.toks = [] := Classical.not_not.mp hnn
    dsimp only
    refine ⟨errEof s3.prev, ?_⟩
    simp [matchIf_nil hnil, expect_nil hnil]
  rintro ⟨⟨ce, ch⟩, s3, h3⟩ ⟨r', s3', h3'⟩ hnn ⟨he, hs3⟩
  dsimp only at he hs3 ⊢
  subst he
  ebindr (OLe x) with fin s4 h4 s4' h4' hs4
  · mif3 hs3 c!"finally" kw with s h s' h' hs' hnil
    · exact ⟨rfl, hs3⟩
    · exact ERel_wkLe (H.finallyLoop hc hs' (by omega))
    · exact (hnn hnil).elim
  sbind (expect_rel hs4 _ _) with s5 h5 s5' h5' hs5
  exact ⟨rfl, hs5⟩

end Ckl.C14X
