/-
  C05 — "errors reach the nearest matching handler and finally runs exactly once".

  Part A: small, direct lemmas about `error`, statement sequences, `tryHandlers`
          and the `block` node (`do … catch … finally … end`).
  Part B (below, imported from Lemmas/C05Bal*.lean): the flagship `finally_exactly_once`.
-/
import CklVerif.Lemmas.C05Main
import CklVerif.Driver.EvalCmd
namespace Ckl.C05
open Ckl

section small
variable (ld : Loader)

/-- evaluate a closed instance of the model by definitional unfolding -/
local macro "ev" : tactic => `(tactic| with_unfolding_all rfl)

/-! ### concrete programs used in the non-vacuity examples -/

/-- `12` -/
def n12 : Node := .lit (.int 12) {}
/-- `error 12` -/
def nErr12 : Node := .error n12 { line := 3 }
/-- `12.0` as a catch clause, `'c'` as its handler -/
def c12 : Node := .lit (.dec 12 0) {}
def hC : Node := .lit (.str ['c']) {}
/-- the empty state (no frames are needed by these programs) -/
def st0 : State := {}

/-- `error e` raises the value of `e`, with empty message and trace, at the position of the node. -/
theorem error_raises_value {fuel env e pos s v s'} (h : eval ld fuel env e s = .ok v s') :
    eval ld (fuel+1) env (.error e pos) s = .err v "" pos [] s' := by
  simp only [eval]
  rw [bind_ok h]; rfl

example : eval {} 1 0 n12 st0 = .ok (.int 12) st0 := (by ev)
example : eval {} 2 0 nErr12 st0 = .err (.int 12) "" { line := 3 } [] st0 :=
  error_raises_value {} (e := n12) (by ev)

/-- a failing statement aborts the statement list: nothing after it runs, the state is
    exactly the one at the failure -/
theorem seq_abort {fuel env n s v m p t s'} (h : eval ld fuel env n s = .err v m p t s')
    (rest : List Node) (last : RVal) :
    evalBody ld (fuel+1) env (n :: rest) last s = .err v m p t s' := by
  simp only [evalBody]
  rw [bind_err h]

theorem evalSeq_abort {fuel env n s v m p t s'} (h : eval ld fuel env n s = .err v m p t s')
    (rest : List Node) :
    evalSeq ld (fuel+1) env (n :: rest) s = .err v m p t s' := by
  simp only [evalSeq]
  rw [bind_err h]

example : eval {} 2 0 nErr12 st0 = .err (.int 12) "" { line := 3 } [] st0 := (by ev)
example : evalBody {} 3 0 [nErr12, .defn "x" n12 "" {}] .null st0 = .err (.int 12) "" { line := 3 } [] st0 :=
  seq_abort {} (n := nErr12) (by ev) _ _
example : evalSeq {} 3 0 [nErr12, .defn "x" n12 "" {}] st0 = .err (.int 12) "" { line := 3 } [] st0 :=
  evalSeq_abort {} (n := nErr12) (by ev) _

/-- a statement list stops at the first `return` / `break` / `continue` value and returns it -/
theorem body_stops_at_control {fuel env n s v s'} (h : eval ld fuel env n s = .ok v s')
    (hc : v.isReturn ∨ v.isBreak ∨ v.isContinue) (rest : List Node) (last : RVal) :
    evalBody ld (fuel+1) env (n :: rest) last s = .ok v s' := by
  simp only [evalBody]
  rw [bind_ok h]
  have : (v.isReturn || v.isBreak || v.isContinue) = true := by
    rcases hc with h | h | h <;> simp [h]
  simp [this]

example : evalBody {} 2 0 [.brk {}, nErr12] .null st0 = .ok (.brk {}) st0 :=
  body_stops_at_control {} (n := .brk {}) (v := .brk {}) (by ev) (Or.inr (Or.inl (by ev))) _ _
example : evalBody {} 3 0 [.ret n12 {}, nErr12] .null st0 = .ok (.ret (.int 12) {}) st0 :=
  body_stops_at_control {} (n := .ret n12 {}) (v := .ret (.int 12) {}) (by ev) (Or.inl (by ev)) _ _

/-- `catch all` handles every error: the handler is evaluated, no clause value is computed -/
theorem catch_all_handles {fuel env cs h hs v m p t} :
    tryHandlers ld (fuel+1) env (.catchAll :: cs) (h :: hs) v m p t = eval ld fuel env h := by
  simp only [tryHandlers]
  rfl

/-- clauses are tried in order: the first clause whose value equals the error value handles
    the error; a clause that does not match passes the error on to the remaining clauses -/
theorem catch_first_match {fuel env c cs h hs v m p t s cv s1}
    (hc : eval ld fuel env c s = .ok cv s1) (hna : c ≠ .catchAll) :
    (rveq s1 v cv = true →
      tryHandlers ld (fuel+1) env (c :: cs) (h :: hs) v m p t s = eval ld fuel env h s1) ∧
    (rveq s1 v cv = false →
      tryHandlers ld (fuel+1) env (c :: cs) (h :: hs) v m p t s
        = tryHandlers ld fuel env cs hs v m p t s1) := by
  simp only [tryHandlers]
  constructor <;> intro hr
  · show ((eval ld fuel env c) >>= _) s = _
    rw [bind_ok hc]
    show (getS >>= _) s1 = _
    rw [bind_ok (getS_run s1)]
    simp [hr]
  · show ((eval ld fuel env c) >>= _) s = _
    rw [bind_ok hc]
    show (getS >>= _) s1 = _
    rw [bind_ok (getS_run s1)]
    simp [hr]

-- `12 == 12.0` matches, `12 == 'c'` does not
example : eval {} 1 0 c12 st0 = .ok (.dec 12 0) st0 ∧ c12 ≠ .catchAll ∧ rveq st0 (.int 12) (.dec 12 0) = true :=
  ⟨(by ev), by simp [c12], by decide⟩
example : eval {} 1 0 hC st0 = .ok (.str ['c']) st0 ∧ hC ≠ .catchAll ∧ rveq st0 (.int 12) (.str ['c']) = false :=
  ⟨(by ev), by simp [hC], by decide⟩
example : tryHandlers {} 3 0 [hC, c12] [n12, hC] (.int 12) "" {} [] st0 = .ok (.str ['c']) st0 := by
  rw [(catch_first_match {} (c := hC) (s1 := st0) (cv := .str ['c']) (by ev) (by simp [hC])).2 (by decide)]
  rw [(catch_first_match {} (c := c12) (s1 := st0) (cv := .dec 12 0) (by ev) (by simp [c12])).1 (by decide)]
  ev

/-- when no clause is left the error continues outward with the same value, message,
    position and trace -/
theorem catch_no_match_unchanged {fuel env v m p t s} :
    tryHandlers ld (fuel+1) env [] [] v m p t s = .err v m p t s := by
  simp [tryHandlers]

theorem evalFinally_nil {fuel env s} : evalFinally ld (fuel+1) env [] s = .ok () s := by
  simp [evalFinally]

/-- a block without finally part whose body raises and whose handlers return `hv`
    has the value `hv` -/
theorem block_value_is_handler_value {fuel env es ce ch tl pos s v m p t s1 hv s2}
    (hb : evalBody ld (fuel+1) env es (.bool true) (ghostEnter s pos) = .err v m p t s1)
    (hh : tryHandlers ld (fuel+1) env ce ch v m p t s1 = .ok hv s2) :
    eval ld (fuel+2) env (.block es ce ch [] tl pos) s = .ok hv (ghostFin s2 pos) := by
  simp only [eval, hb, hh, evalFinally_nil]

/-- a block without finally part whose body returns `v` has the value `v` -/
theorem block_value_is_body_value {fuel env es ce ch tl pos s v s1}
    (hb : evalBody ld (fuel+1) env es (.bool true) (ghostEnter s pos) = .ok v s1) :
    eval ld (fuel+2) env (.block es ce ch [] tl pos) s = .ok v (ghostFin s1 pos) := by
  simp only [eval, hb, evalFinally_nil]

-- `do error 12 catch 12.0 'c' end` has the value 'c'
example : evalBody {} 3 0 [nErr12] (.bool true) (ghostEnter st0 {}) = .err (.int 12) "" { line := 3 } [] (ghostEnter st0 {})
    ∧ tryHandlers {} 3 0 [c12] [hC] (.int 12) "" { line := 3 } [] (ghostEnter st0 {}) = .ok (.str ['c']) (ghostEnter st0 {}) :=
  ⟨(by ev), (by ev)⟩
example : eval {} 4 0 (.block [nErr12] [c12] [hC] [] false {}) st0 = .ok (.str ['c']) (ghostFin (ghostEnter st0 {}) {}) :=
  block_value_is_handler_value {} (fuel := 2) (s1 := ghostEnter st0 {}) (by ev) (by ev)
example : eval {} 4 0 (.block [n12] [c12] [hC] [] false {}) st0 = .ok (.int 12) (ghostFin (ghostEnter st0 {}) {}) :=
  block_value_is_body_value {} (fuel := 2) (s1 := ghostEnter st0 {}) (by ev)

/-- the finally part runs when the body raises and no handler matches (or a handler raises);
    the error that leaves the block is unchanged -/
theorem finally_runs_on_error {fuel env es ce ch fin tl pos s v m p t s1 v' m' p' t' s2 s3}
    (hb : evalBody ld fuel env es (.bool true) (ghostEnter s pos) = .err v m p t s1)
    (hh : tryHandlers ld fuel env ce ch v m p t s1 = .err v' m' p' t' s2)
    (hf : evalFinally ld fuel env fin (ghostFin s2 pos) = .ok () s3) :
    eval ld (fuel+1) env (.block es ce ch fin tl pos) s = .err v' m' p' t' s3 := by
  simp only [eval, hb, hh, hf]

-- `do error 12 catch 'c' 12 finally 12 end`: the clause does not match, finally runs, error 12 leaves
example : evalBody {} 3 0 [nErr12] (.bool true) (ghostEnter st0 {}) = .err (.int 12) "" { line := 3 } [] (ghostEnter st0 {})
    ∧ tryHandlers {} 3 0 [hC] [n12] (.int 12) "" { line := 3 } [] (ghostEnter st0 {})
        = .err (.int 12) "" { line := 3 } [] (ghostEnter st0 {})
    ∧ evalFinally {} 3 0 [n12] (ghostFin (ghostEnter st0 {}) {}) = .ok () (ghostFin (ghostEnter st0 {}) {}) :=
  ⟨(by ev), (by ev), (by ev)⟩
example : eval {} 4 0 (.block [nErr12] [hC] [n12] [n12] false {}) st0
    = .err (.int 12) "" { line := 3 } [] (ghostFin (ghostEnter st0 {}) {}) :=
  finally_runs_on_error {} (s1 := ghostEnter st0 {}) (s2 := ghostEnter st0 {}) (by ev) (by ev) (by ev)

/-- an error that no handler caught reaches the caller of `Interpreter.interpret` unchanged -/
theorem uncaught_error_reaches_interpret {fuel senv ast s v m p t s'}
    (h : eval ld fuel senv ast s = .err v m p t s') :
    interpretProg ld fuel senv ast s = .err v m p t s' := by
  unfold interpretProg
  rw [bind_err h]

example : interpretProg {} 2 0 nErr12 st0 = .err (.int 12) "" { line := 3 } [] st0 :=
  uncaught_error_reaches_interpret {} (by ev)

end small

/-! ## Part B — the flagship: finally runs exactly once per entered block

  `cnt`, `Balanced`, `Hard`, `NativeBalanced` are defined in `Lemmas/C05Tr.lean` /
  `Lemmas/C05Mutual.lean`:

    cnt l p            : the counter of position `p` in a ghost list (0 when absent)
    Balanced s s'      : ∀ p, cnt s'.ghost.enter p + cnt s.ghost.fin p
                              = cnt s'.ghost.fin p + cnt s.ghost.enter p     (Δenter p = Δfin p)
    NativeBalanced ld  : `ld.nativeSem` (the arbitrary interpretation of the unmodelled
                         natives) is itself balanced whenever it returns a value, a runtime error
                         or a host/syntax failure (these two are turned into runtime errors by
                         `invoke`, so the hypothesis is needed for them as well)

  The statement covers the outcomes value (`.ok`, this includes `return`/`break`/`continue`
  leaving a block), runtime error (`.err`, caught or not), and the two failures Python's
  `finally` also sees (`.fail (.syn _)`: CklSyntaxError of a required module, `.fail (.host _)`:
  host exception).  Nothing is claimed for out-of-fuel / unsupported.
-/

section flagship

/-- `o` is an outcome the theorem speaks about, and `s'` is its final state -/
def Ends {α} (o : Out α) (s' : State) : Prop :=
  match o with
  | .ok _ t => t = s'
  | .err _ _ _ _ t => t = s'
  | .fail (.syn _) t => t = s'
  | .fail (.host _) t => t = s'
  | .fail _ _ => False

theorem post_ends {α} {s s' : State} {o : Out α} (h : Post s o) (he : Ends o s') : Balanced s s' := by
  cases o with
  | ok a t => cases he; exact h
  | err v m p t u => cases he; exact h
  | fail f t =>
    cases f with
    | oof => exact he.elim
    | unsupported w => exact he.elim
    | host k => cases he; exact h trivial
    | syn e => cases he; exact h trivial

theorem ends_ok {α} {o : Out α} {a s'} (h : o = .ok a s') : Ends o s' := by subst h; rfl
theorem ends_err {α} {o : Out α} {v m p t s'} (h : o = .err v m p t s') : Ends o s' := by subst h; rfl
theorem ends_syn {α} {o : Out α} {e s'} (h : o = .fail (.syn e) s') : Ends o s' := by subst h; rfl
theorem ends_host {α} {o : Out α} {k s'} (h : o = .fail (.host k) s') : Ends o s' := by subst h; rfl

/-- the flagship statement, one field per function of the evaluator's mutual block -/
structure FinallyExactlyOnce (ld : Loader) (fuel : Nat) : Prop where
  eval : ∀ env n s s', Ends (eval ld fuel env n s) s' → Balanced s s'
  evalAnd : ∀ env es pos s s', Ends (evalAnd ld fuel env es pos s) s' → Balanced s s'
  evalOr : ∀ env es pos s s', Ends (evalOr ld fuel env es pos s) s' → Balanced s s'
  evalIf : ∀ env cs xs els pos s s', Ends (evalIf ld fuel env cs xs els pos s) s' → Balanced s s'
  evalSeq : ∀ env ns s s', Ends (evalSeq ld fuel env ns s) s' → Balanced s s'
  evalItems : ∀ env ns pos s s', Ends (evalItems ld fuel env ns pos s) s' → Balanced s s'
  evalPairs : ∀ env ks vs s s', Ends (evalPairs ld fuel env ks vs s) s' → Balanced s s'
  evalBody : ∀ env ns last s s', Ends (evalBody ld fuel env ns last s) s' → Balanced s s'
  evalFinally : ∀ env ns s s', Ends (evalFinally ld fuel env ns s) s' → Balanced s s'
  tryHandlers : ∀ env cs hs v msg p t s s', Ends (tryHandlers ld fuel env cs hs v msg p t s) s' → Balanced s s'
  invoke : ∀ fn pre names args env pos s s', Ends (invoke ld fuel fn pre names args env pos s) s' → Balanced s s'
  evalArgs : ∀ env names args pos s s', Ends (evalArgs ld fuel env names args pos s) s' → Balanced s s'
  callFn : ∀ fn bound env pos s s', Ends (callFn ld fuel fn bound env pos s) s' → Balanced s s'
  bindParams : ∀ lenv ps ds bound pos s s', Ends (bindParams ld fuel lenv ps ds bound pos s) s' → Balanced s s'
  evalFor : ∀ env ids e body what pos s s', Ends (evalFor ld fuel env ids e body what pos s) s' → Balanced s s'
  forItems : ∀ env ids xs body r pos s s', Ends (forItems ld fuel env ids xs body r pos s) s' → Balanced s s'
  forListLive : ∀ env ids a i body r pos s s', Ends (forListLive ld fuel env ids a i body r pos s) s' → Balanced s s'
  forString : ∀ env x cs body r s s', Ends (forString ld fuel env x cs body r s) s' → Balanced s s'
  whileLoop : ∀ env c body pos s s', Ends (whileLoop ld fuel env c body pos s) s' → Balanced s s'
  comprStep : ∀ lenv kind ve ke cond pos s s', Ends (comprStep ld fuel lenv kind ve ke cond pos s) s' → Balanced s s'
  comprLoop : ∀ lenv kind ve ke cond pos l acc s s', Ends (comprLoop ld fuel lenv kind ve ke cond pos l acc s) s' → Balanced s s'
  comprProduct : ∀ lenv kind ve ke cond pos x1 vs x2 ws acc s s', Ends (comprProduct ld fuel lenv kind ve ke cond pos x1 vs x2 ws acc s) s' → Balanced s s'
  comprParallel : ∀ lenv kind ve ke cond pos x1 vs x2 ws acc s s', Ends (comprParallel ld fuel lenv kind ve ke cond pos x1 vs x2 ws acc s) s' → Balanced s s'
  nativeSorted : ∀ bound env pos s s', Ends (nativeSorted ld fuel bound env pos s) s' → Balanced s s'
  sortedOuter : ∀ cmp key senv pos arr i s s', Ends (sortedOuter ld fuel cmp key senv pos arr i s) s' → Balanced s s'
  sortedInner : ∀ cmp key senv pos arr v j s s', Ends (sortedInner ld fuel cmp key senv pos arr v j s) s' → Balanced s s'
  call1 : ∀ f x env pos s s', Ends (call1 ld fuel f x env pos s) s' → Balanced s s'
  call2 : ∀ f x y env pos s s', Ends (call2 ld fuel f x y env pos s) s' → Balanced s s'
  evalRequire : ∀ env spec name unq syms pos s s', Ends (evalRequire ld fuel env spec name unq syms pos s) s' → Balanced s s'
  loadModule : ∀ env ident file pos s s', Ends (loadModule ld fuel env ident file pos s) s' → Balanced s s'

/-- **C05 flagship.**  Whenever any function of the evaluator terminates with a value, a runtime
    error, or a syntax/host failure, every block entered in between had its finally part run
    exactly once (Δenter p = Δfin p for every block position p) — no matter whether the block was
    left normally, by an error (caught or not), or by return / break / continue. -/
theorem finally_exactly_once {ld : Loader} (hNat : NativeBalanced ld) (fuel : Nat) :
    FinallyExactlyOnce ld fuel := by
  have h0 := allBal hNat fuel
  exact {
    eval := fun env n s s' h => post_ends ((h0.eval s env n).run s (Balanced.refl s)) h
    evalAnd := fun env es pos s s' h => post_ends ((h0.evalAnd s env es pos).run s (Balanced.refl s)) h
    evalOr := fun env es pos s s' h => post_ends ((h0.evalOr s env es pos).run s (Balanced.refl s)) h
    evalIf := fun env cs xs els pos s s' h => post_ends ((h0.evalIf s env cs xs els pos).run s (Balanced.refl s)) h
    evalSeq := fun env ns s s' h => post_ends ((h0.evalSeq s env ns).run s (Balanced.refl s)) h
    evalItems := fun env ns pos s s' h => post_ends ((h0.evalItems s env ns pos).run s (Balanced.refl s)) h
    evalPairs := fun env ks vs s s' h => post_ends ((h0.evalPairs s env ks vs).run s (Balanced.refl s)) h
    evalBody := fun env ns last s s' h => post_ends ((h0.evalBody s env ns last).run s (Balanced.refl s)) h
    evalFinally := fun env ns s s' h => post_ends ((h0.evalFinally s env ns).run s (Balanced.refl s)) h
    tryHandlers := fun env cs hs v msg p t s s' h => post_ends ((h0.tryHandlers s env cs hs v msg p t).run s (Balanced.refl s)) h
    invoke := fun fn pre names args env pos s s' h => post_ends ((h0.invoke s fn pre names args env pos).run s (Balanced.refl s)) h
    evalArgs := fun env names args pos s s' h => post_ends ((h0.evalArgs s env names args pos).run s (Balanced.refl s)) h
    callFn := fun fn bound env pos s s' h => post_ends ((h0.callFn s fn bound env pos).run s (Balanced.refl s)) h
    bindParams := fun lenv ps ds bound pos s s' h => post_ends ((h0.bindParams s lenv ps ds bound pos).run s (Balanced.refl s)) h
    evalFor := fun env ids e body what pos s s' h => post_ends ((h0.evalFor s env ids e body what pos).run s (Balanced.refl s)) h
    forItems := fun env ids xs body r pos s s' h => post_ends ((h0.forItems s env ids xs body r pos).run s (Balanced.refl s)) h
    forListLive := fun env ids a i body r pos s s' h => post_ends ((h0.forListLive s env ids a i body r pos).run s (Balanced.refl s)) h
    forString := fun env x cs body r s s' h => post_ends ((h0.forString s env x cs body r).run s (Balanced.refl s)) h
    whileLoop := fun env c body pos s s' h => post_ends ((h0.whileLoop s env c body pos).run s (Balanced.refl s)) h
    comprStep := fun lenv kind ve ke cond pos s s' h => post_ends ((h0.comprStep s lenv kind ve ke cond pos).run s (Balanced.refl s)) h
    comprLoop := fun lenv kind ve ke cond pos l acc s s' h => post_ends ((h0.comprLoop s lenv kind ve ke cond pos l acc).run s (Balanced.refl s)) h
    comprProduct := fun lenv kind ve ke cond pos x1 vs x2 ws acc s s' h => post_ends ((h0.comprProduct s lenv kind ve ke cond pos x1 vs x2 ws acc).run s (Balanced.refl s)) h
    comprParallel := fun lenv kind ve ke cond pos x1 vs x2 ws acc s s' h => post_ends ((h0.comprParallel s lenv kind ve ke cond pos x1 vs x2 ws acc).run s (Balanced.refl s)) h
    nativeSorted := fun bound env pos s s' h => post_ends ((h0.nativeSorted s bound env pos).run s (Balanced.refl s)) h
    sortedOuter := fun cmp key senv pos arr i s s' h => post_ends ((h0.sortedOuter s cmp key senv pos arr i).run s (Balanced.refl s)) h
    sortedInner := fun cmp key senv pos arr v j s s' h => post_ends ((h0.sortedInner s cmp key senv pos arr v j).run s (Balanced.refl s)) h
    call1 := fun f x env pos s s' h => post_ends ((h0.call1 s f x env pos).run s (Balanced.refl s)) h
    call2 := fun f x y env pos s s' h => post_ends ((h0.call2 s f x y env pos).run s (Balanced.refl s)) h
    evalRequire := fun env spec name unq syms pos s s' h => post_ends ((h0.evalRequire s env spec name unq syms pos).run s (Balanced.refl s)) h
    loadModule := fun env ident file pos s s' h => post_ends ((h0.loadModule s env ident file pos).run s (Balanced.refl s)) h
 }

/-- the instance for `eval`, in the form "value or runtime error" -/
theorem eval_balanced {ld : Loader} (hNat : NativeBalanced ld) {fuel env n s v m p t s'}
    (h : eval ld fuel env n s = .ok v s' ∨ eval ld fuel env n s = .err v m p t s') :
    Balanced s s' := by
  rcases h with h | h
  · exact (finally_exactly_once hNat fuel).eval env n s s' (ends_ok h)
  · exact (finally_exactly_once hNat fuel).eval env n s s' (ends_err h)

/-- also when a syntax error of a required module or a host exception passes through -/
theorem eval_balanced_hard {ld : Loader} (hNat : NativeBalanced ld) {fuel env n s e k s'}
    (h : eval ld fuel env n s = .fail (.syn e) s' ∨ eval ld fuel env n s = .fail (.host k) s') :
    Balanced s s' := by
  rcases h with h | h
  · exact (finally_exactly_once hNat fuel).eval env n s s' (ends_syn h)
  · exact (finally_exactly_once hNat fuel).eval env n s s' (ends_host h)

/-- a whole program run through `Interpreter.interpret` -/
theorem interpret_balanced {ld : Loader} (hNat : NativeBalanced ld) {fuel senv ast s s'}
    (h : Ends (interpretProg ld fuel senv ast s) s') : Balanced s s' := by
  have he := (finally_exactly_once hNat fuel).eval senv ast s
  unfold interpretProg at h
  rw [bind_def] at h
  cases hr : eval ld fuel senv ast s with
  | ok v s1 =>
    rw [hr] at h he
    have : s1 = s' := by
      cases v <;> exact h
    exact he s' this
  | err v m p t s1 => rw [hr] at h he; exact he s' h
  | fail f s1 => rw [hr] at h he; exact he s' h

/-- started from balanced counters (e.g. the initial state, where both are empty), the counters
    of entries and of finally runs agree at every position -/
theorem counters_agree {s s' : State} (h : Balanced s s')
    (h0 : ∀ p, cnt s.ghost.enter p = cnt s.ghost.fin p) (p : Pos) :
    cnt s'.ghost.enter p = cnt s'.ghost.fin p := by
  have := h p; have := h0 p; omega

/-! ### non-vacuity -/

-- the hypothesis on natives holds for the driver's default interpretation
example : NativeBalanced {} := default_nativeSem_balanced

/-- `do error 12 catch 12.0 'c' finally 12 end` at position line 5 -/
def blkCaught : Node := .block [nErr12] [c12] [hC] [n12] false { line := 5 }
/-- `do error 12 finally 12 end` (uncaught) -/
def blkUncaught : Node := .block [nErr12] [] [] [n12] false { line := 6 }
/-- `(fn() do return 12 finally 12 end)()` -/
def callRet : Node :=
  .call (.lambda [] [] (.block [.ret n12 {}] [] [] [n12] false { line := 7 }) {}) [] [] { line := 8 }

local macro "ev" : tactic => `(tactic| with_unfolding_all rfl)

-- caught error: value 'c', one entry and one finally run at line 5
example : ∃ s', eval {} 5 0 blkCaught st0 = .ok (.str ['c']) s' ∧
    s'.ghost.enter = [({ line := 5 }, 1)] ∧ s'.ghost.fin = [({ line := 5 }, 1)] :=
  ⟨_, by ev, by ev, by ev⟩
example {s'} {v} (h : eval {} 5 0 blkCaught st0 = .ok v s') : Balanced st0 s' :=
  eval_balanced (m := "") (p := {}) (t := []) default_nativeSem_balanced (Or.inl h)

-- uncaught error: the error leaves the block, finally ran once
example : ∃ s', eval {} 5 0 blkUncaught st0 = .err (.int 12) "" { line := 3 } [] s' ∧
    s'.ghost.enter = [({ line := 6 }, 1)] ∧ s'.ghost.fin = [({ line := 6 }, 1)] :=
  ⟨_, by ev, by ev, by ev⟩

-- `return` out of a block inside a function: finally ran once
example : ∃ s', eval {} 8 0 callRet st0 = .ok (.int 12) s' ∧
    s'.ghost.enter = [({ line := 7 }, 1)] ∧ s'.ghost.fin = [({ line := 7 }, 1)] :=
  ⟨_, by ev, by ev, by ev⟩

/-- a module with a syntax error, required inside a block inside a function -/
def ldBroken : Loader := { user := [("broken.ckl", .error { msg := "syntax", pos := {} })] }
def callBroken : Node :=
  .call (.lambda [] [] (.block [.require (.lit (.str ['b','r','o','k','e','n']) {}) none false none {}]
          [] [] [] false { line := 7 }) {}) [] [] {}

theorem ldBroken_native : NativeBalanced ldBroken :=
  nativeBalanced_of_abstains (fun name _ _ => ⟨"native " ++ name, rfl⟩)

-- the syntax error passes through the block (finally runs), `invoke` turns it into a runtime error.
-- (String operations do not reduce in the kernel, so the outcome is checked by evaluation:)
#guard (match eval ldBroken 50 0 callBroken st0 with
  | .err _ msg _ _ s' => msg == "syntax" && s'.ghost.enter.map (·.2) == [1] && s'.ghost.fin.map (·.2) == [1]
  | _ => false)
example {v m p t s'} (h : eval ldBroken 50 0 callBroken st0 = .err v m p t s') : Balanced st0 s' :=
  eval_balanced ldBroken_native (Or.inr h)

end flagship

end Ckl.C05
