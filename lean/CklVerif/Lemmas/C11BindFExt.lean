/-
  C11 (binding part) — the frame array only grows.

  `FExt a b` ("b extends a"): every frame of `a` still exists in `b` with the SAME parent, no
  frame gets duplicate keys, and the heap has not shrunk.  Every primitive state change of the
  evaluator satisfies it; `FTr` is the corresponding program logic (same scheme as `Ckl.Gen.GTr`,
  but about the frames instead of the bookkeeping part of the state, and for EVERY outcome).
-/
import CklVerif.Lemmas.C03Env
import CklVerif.Lemmas.C05Tr
namespace Ckl.C11B
open Ckl Ckl.C05 Ckl.C03

/-- a frame is a Python dict: no key twice -/
def KeysNodup (f : Frame) : Prop := (f.vars.map (·.1)).Nodup

structure FExt (a b : State) : Prop where
  size : a.frames.size ≤ b.frames.size
  parent : ∀ e : Nat, e < a.frames.size → (b.frame e).parent = (a.frame e).parent
  nodup : ∀ e : Nat, KeysNodup (a.frame e) → KeysNodup (b.frame e)
  heap : a.heap.size ≤ b.heap.size

theorem FExt.refl (s : State) : FExt s s := ⟨Nat.le_refl _, fun _ _ => rfl, fun _ h => h, Nat.le_refl _⟩

theorem FExt.trans {a b c : State} (h1 : FExt a b) (h2 : FExt b c) : FExt a c :=
  ⟨Nat.le_trans h1.size h2.size,
   fun e he => (h2.parent e (Nat.lt_of_lt_of_le he h1.size)).trans (h1.parent e he),
   fun e h => h2.nodup e (h1.nodup e h),
   Nat.le_trans h1.heap h2.heap⟩

/-- changes outside the frame array and the heap are invisible -/
theorem fext_of_eq {a b : State} (h1 : b.frames = a.frames) (h2 : b.heap = a.heap) : FExt a b := by
  refine ⟨by rw [h1]; exact Nat.le_refl _, fun e _ => ?_, fun e h => ?_, by rw [h2]; exact Nat.le_refl _⟩
  · simp only [State.frame, h1]
  · simpa only [State.frame, h1] using h

/-! ### dicts keep their keys distinct -/

theorem keys_dictPut_subset {β} (k : String) (v : β) (d : List (String × β)) (x : String)
    (h : x ∈ (dictPut k v d).map (·.1)) : x = k ∨ x ∈ d.map (·.1) := by
  induction d with
  | nil => simp [dictPut] at h; exact Or.inl h
  | cons kv rest ih =>
    obtain ⟨k', v'⟩ := kv
    by_cases h1 : k = k'
    · simp only [dictPut, h1, if_true, List.map_cons] at h ⊢; exact Or.inr h
    · simp only [dictPut, h1, if_false, List.map_cons, List.mem_cons] at h ⊢
      rcases h with h | h
      · exact Or.inr (Or.inl h)
      · rcases ih h with h | h
        · exact Or.inl h
        · exact Or.inr (Or.inr h)

theorem nodup_dictPut {β} (k : String) (v : β) (d : List (String × β)) (h : (d.map (·.1)).Nodup) :
    ((dictPut k v d).map (·.1)).Nodup := by
  induction d with
  | nil => simp [dictPut]
  | cons kv rest ih =>
    obtain ⟨k', v'⟩ := kv
    by_cases h1 : k = k'
    · simpa [dictPut, h1] using h
    · simp only [List.map_cons, List.nodup_cons] at h
      simp only [dictPut, h1, if_false, List.map_cons, List.nodup_cons]
      refine ⟨fun hm => ?_, ih h.2⟩
      rcases keys_dictPut_subset k v rest k' hm with h2 | h2
      · exact h1 h2.symm
      · exact h.1 h2

theorem keys_dictDel_sublist {β} (k : String) (d : List (String × β)) :
    ((dictDel k d).map (·.1)).Sublist (d.map (·.1)) := by
  induction d with
  | nil => simp [dictDel]
  | cons kv rest ih =>
    obtain ⟨k', v'⟩ := kv
    by_cases h1 : k = k'
    · simp [dictDel, h1]
    · simp only [dictDel, h1, if_false, List.map_cons]
      exact ih.cons_cons _

theorem nodup_dictDel {β} (k : String) (d : List (String × β)) (h : (d.map (·.1)).Nodup) :
    ((dictDel k d).map (·.1)).Nodup := (keys_dictDel_sublist k d).nodup h

/-! ### the primitive state changes -/

theorem frames_size_remove (s : State) (e : Nat) (x : String) :
    (s.remove e x).frames.size = s.frames.size := by
  simp [State.remove]

theorem frame_remove_same (s : State) {e : Nat} (x : String) (h : e < s.frames.size) :
    (s.remove e x).frame e = { s.frame e with vars := dictDel x (s.frame e).vars } := by
  simp [State.remove, State.frame, Array.getD_eq_getD_getElem?, Array.getElem_modify, h]

theorem frame_remove_other (s : State) {e e' : Nat} (x : String) (h : e' ≠ e) :
    (s.remove e x).frame e' = s.frame e' := by
  simp [State.remove, State.frame, Array.getD_eq_getD_getElem?, Array.getElem?_modify, Ne.symm h]

theorem remove_out_of_range (s : State) {e : Nat} (x : String) (h : s.frames.size ≤ e) :
    s.remove e x = s := by
  have : s.frames.modify e (fun f => { f with vars := dictDel x f.vars }) = s.frames := by
    apply Array.ext
    · simp
    · intro i h1 h2
      have : e ≠ i := by simp at h1; omega
      simp [Array.getElem_modify, this]
  simp [State.remove, this]

theorem fext_put (s : State) (e : Nat) (x : String) (v : RVal) : FExt s (s.put e x v) := by
  refine ⟨by rw [frames_size_put]; exact Nat.le_refl _, fun e' _ => parent_put s e e' x v, fun e' h => ?_,
    Nat.le_refl _⟩
  by_cases h1 : e' = e
  · subst h1
    by_cases h2 : e' < s.frames.size
    · unfold KeysNodup at h ⊢
      rw [vars_put_same s x v h2]; exact nodup_dictPut _ _ _ h
    · rw [put_out_of_range s x v (by omega)]; exact h
  · rw [frame_put_other s x v h1]; exact h

theorem fext_remove (s : State) (e : Nat) (x : String) : FExt s (s.remove e x) := by
  refine ⟨by rw [frames_size_remove]; exact Nat.le_refl _, fun e' _ => ?_, fun e' h => ?_, Nat.le_refl _⟩
  · by_cases h1 : e' = e
    · subst h1
      by_cases h2 : e' < s.frames.size
      · rw [frame_remove_same s x h2]
      · rw [remove_out_of_range s x (by omega)]
    · rw [frame_remove_other s x h1]
  · by_cases h1 : e' = e
    · subst h1
      by_cases h2 : e' < s.frames.size
      · unfold KeysNodup at h ⊢
        rw [frame_remove_same s x h2]; exact nodup_dictDel _ _ h
      · rw [remove_out_of_range s x (by omega)]; exact h
    · rw [frame_remove_other s x h1]; exact h

theorem fext_setCell (s : State) (a : Nat) (c : Cell) : FExt s (s.setCell a c) :=
  ⟨Nat.le_refl _, fun _ _ => rfl, fun _ h => h, by simp [State.setCell]⟩

theorem fext_alloc (s : State) (c : Cell) : FExt s (s.alloc c).1 :=
  ⟨Nat.le_refl _, fun _ _ => rfl, fun _ h => h, by simp [State.alloc]⟩

theorem fext_newEnv (s : State) (p : EnvId) : FExt s (s.newEnv p).1 := by
  refine ⟨by rw [newEnv_frames_size]; exact Nat.le_succ _, fun e he => by rw [newEnv_frame_old s p he],
    fun e h => ?_, Nat.le_refl _⟩
  by_cases h1 : e < s.frames.size
  · rw [newEnv_frame_old s p h1]; exact h
  · by_cases h2 : e = s.frames.size
    · subst h2; rw [newEnv_frame_new]; simp [KeysNodup]
    · rw [frame_of_ge _ (by rw [newEnv_frames_size]; omega)]; simp [KeysNodup]

theorem fext_newEnv' {s s' : State} {e l : EnvId} (h : s.newEnv e = (s', l)) : FExt s s' := by
  have := fext_newEnv s e; rw [h] at this; exact this

theorem fext_setF (s : State) (fuel : Nat) (e : EnvId) (n : String) (v : RVal) (s' : State)
    (h : s.setF fuel e n v = some s') : FExt s s' := by
  induction fuel generalizing e with
  | zero => simp [State.setF] at h
  | succ k ih =>
    simp only [State.setF] at h
    split at h
    · cases h; exact fext_put _ _ _ _
    · split at h
      · exact ih _ h
      · cases h

theorem fext_set {s s' : State} {e : EnvId} {n : String} {v : RVal}
    (h : s.set e n v = some s') : FExt s s' := fext_setF _ _ _ _ _ _ h

theorem fext_foldl {γ} (f : State → γ → State) (hf : ∀ s x, FExt s (f s x)) (l : List γ) (s : State) :
    FExt s (l.foldl f s) := by
  induction l generalizing s with
  | nil => exact FExt.refl s
  | cons x xs ih => exact (hf s x).trans (ih (f s x))

theorem fext_ghostEnter (s : State) (p : Pos) : FExt s (ghostEnter s p) := fext_of_eq rfl rfl
theorem fext_ghostFin (s : State) (p : Pos) : FExt s (ghostFin s p) := fext_of_eq rfl rfl

/-! ### the program logic -/

/-- the final state of an outcome, whatever it is -/
def endState {α} : Out α → State
  | .ok _ s => s
  | .err _ _ _ _ s => s
  | .fail _ s => s

/-- started in any state that extends the reference state `s0`, the program ends — with a
    value, a runtime error or ANY failure — in a state that extends `s0` -/
structure FTr {α} (s0 : State) (m : EvalM α) : Prop where
  run : ∀ s, FExt s0 s → FExt s0 (endState (m s))

namespace FTr
variable {α β : Type} {s0 : State}

theorem pure (a : α) : FTr s0 (pure a : EvalM α) := ⟨fun _ h => h⟩

theorem bind {m : EvalM α} {f : α → EvalM β} (hm : FTr s0 m) (hf : ∀ a, FTr s0 (f a)) :
    FTr s0 (m >>= f) := by
  refine ⟨fun s hs => ?_⟩
  have h := hm.run s hs
  rw [bind_def]
  cases hr : m s with
  | ok a s' => rw [hr] at h; exact (hf a).run s' h
  | err v msg p t s' => rw [hr] at h; exact h
  | fail k s' => rw [hr] at h; exact h

theorem getS_bind {f : State → EvalM β} (hf : ∀ s, FExt s0 s → FTr s0 (f s)) :
    FTr s0 (getS >>= f) := ⟨fun s hs => (hf s hs).run s hs⟩

theorem getS : FTr s0 getS := ⟨fun _ h => h⟩
theorem setS {s' : State} (h : FExt s0 s') : FTr s0 (setS s') := ⟨fun _ _ => h⟩
theorem modifyS {f : State → State} (hf : ∀ s, FExt s (f s)) : FTr s0 (modifyS f) :=
  ⟨fun s hs => hs.trans (hf s)⟩
theorem throwV (v : RVal) (msg : String) (pos : Pos) : FTr s0 (throwV v msg pos : EvalM α) :=
  ⟨fun _ h => h⟩
theorem throwE (msg : String) (pos : Pos) : FTr s0 (throwE msg pos : EvalM α) := ⟨fun _ h => h⟩
theorem failM (f : Fail) : FTr s0 (failM f : EvalM α) := ⟨fun _ h => h⟩
theorem unsupported (w : String) : FTr s0 (unsupported w : EvalM α) := failM _
theorem allocM (c : Cell) : FTr s0 (allocM c) := ⟨fun s h => h.trans (fext_alloc s c)⟩
theorem newList (xs : List RVal) : FTr s0 (newList xs) := allocM _
theorem cellOf (v : RVal) : FTr s0 (cellOf v) := by
  refine ⟨fun s hs => ?_⟩; unfold Ckl.cellOf; split <;> exact hs
theorem typeOf (v : RVal) : FTr s0 (typeOf v) := ⟨fun _ h => h⟩

theorem mapM_loop {γ} (f : γ → EvalM α) (hf : ∀ x, FTr s0 (f x)) (as : List γ) (bs : List α) :
    FTr s0 (List.mapM.loop f as bs) := by
  induction as generalizing bs with
  | nil => exact pure _
  | cons a as ih => exact bind (hf a) (fun b => ih (b :: bs))

theorem mapM {γ} (f : γ → EvalM α) (hf : ∀ x, FTr s0 (f x)) (as : List γ) : FTr s0 (as.mapM f) :=
  mapM_loop f hf as []

/-- from a two-state statement to the statement relative to a reference state -/
theorem of_post {m : EvalM α} (h : ∀ s, FExt s (endState (m s))) (s0 : State) : FTr s0 m :=
  ⟨fun s hs => hs.trans (h s)⟩

theorem setS_newEnv {s s' : State} {e l : EnvId} (hs : FExt s0 s)
    (h : s.newEnv e = (s', l)) : FTr s0 (Ckl.setS s') := FTr.setS (hs.trans (fext_newEnv' h))

theorem setS_newEnv_fst {s : State} {e : EnvId} (hs : FExt s0 s) :
    FTr s0 (Ckl.setS (s.newEnv e).fst) := FTr.setS (hs.trans (fext_newEnv s e))

theorem setS_set {s s' : State} {e : EnvId} {n : String} {v : RVal} (hs : FExt s0 s)
    (h : s.set e n v = some s') : FTr s0 (Ckl.setS s') := FTr.setS (hs.trans (fext_set h))

end FTr

/-! ### automation (same scheme as `tr_auto` of C05 / `gtr_auto` of C10) -/

syntax "ftr_lemma" : tactic
macro_rules | `(tactic| ftr_lemma) => `(tactic| exact FTr.pure _)
macro_rules | `(tactic| ftr_lemma) => `(tactic| exact FTr.throwE _ _)
macro_rules | `(tactic| ftr_lemma) => `(tactic| exact FTr.throwV _ _ _)
macro_rules | `(tactic| ftr_lemma) => `(tactic| exact FTr.unsupported _)
macro_rules | `(tactic| ftr_lemma) => `(tactic| exact FTr.failM _)
macro_rules | `(tactic| ftr_lemma) => `(tactic| exact FTr.getS)
macro_rules | `(tactic| ftr_lemma) => `(tactic| exact FTr.allocM _)
macro_rules | `(tactic| ftr_lemma) => `(tactic| exact FTr.newList _)
macro_rules | `(tactic| ftr_lemma) => `(tactic| exact FTr.cellOf _)
macro_rules | `(tactic| ftr_lemma) => `(tactic| exact FTr.typeOf _)
macro_rules | `(tactic| ftr_lemma) => `(tactic| exact FTr.setS_newEnv (by assumption) (by assumption))
macro_rules | `(tactic| ftr_lemma) => `(tactic| exact FTr.setS_newEnv_fst (by assumption))
macro_rules | `(tactic| ftr_lemma) => `(tactic| exact FTr.setS_set (by assumption) (by assumption))

/-- one primitive change -/
macro "ftr_prim" : tactic => `(tactic| first
  | exact fext_put _ _ _ _
  | exact fext_remove _ _ _
  | exact fext_setCell _ _ _
  | exact fext_of_eq rfl rfl
  | exact FExt.refl _)

/-- side goals `FExt s (f s)` of `modifyS` -/
macro "ftr_side" : tactic => `(tactic| first
  | ftr_prim
  | (apply fext_foldl; intro _ _; first | ftr_prim | (split <;> ftr_prim)))

open Lean Elab Tactic Meta in
/-- apply a hypothesis whose conclusion is an `FTr` statement (induction hypotheses) -/
elab "ftr_hyp" : tactic => withMainContext do
  let g ← getMainGoal
  let lctx ← getLCtx
  for d in lctx do
    if d.isImplementationDetail then continue
    let ty ← instantiateMVars d.type
    if ty.getForallBody.getAppFn.isConstOf ``Ckl.C11B.FTr then
      if let some gs ← observing? (withReducible (g.apply d.toExpr)) then
        replaceMainGoal gs
        return
  throwError "ftr_hyp: no applicable hypothesis"

macro "ftr_step" : tactic => `(tactic| first
  | with_reducible ftr_lemma
  | ((with_reducible apply FTr.modifyS); intro _; ftr_side)
  | ftr_hyp
  | ((with_reducible apply FTr.getS_bind); intro _ _)
  | with_reducible apply FTr.bind
  | ((with_reducible apply FTr.mapM); intro _)
  | tr_beta
  | intro _
  | split)

macro "ftr_auto" : tactic => `(tactic| repeat' ftr_step)

end Ckl.C11B
