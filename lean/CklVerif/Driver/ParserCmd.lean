/- driver handler for the parser model: `(parse (tok TYPE s:HEX LINE COL)…)` / `(parsepos …)` -/
import CklVerif.Model.Parser
import CklVerif.Driver.AstCodec
namespace Ckl
open Sx

def runParser (wp : Bool) (toks : List Sx) : Option Sx := do
  let ts ← toks.mapM (decodeToken "f")
  match Parser.parse "f" ts with
  | .ok n => some (.list [.atom "ast", encodeNode wp n])
  | .error e =>
    some (.list [.atom "syn", sxStr e.msg, .atom (toString e.pos.line), .atom (if e.eof then "T" else "F")])

def handleParser : Sx → Option Sx
  | .list (.atom "parse" :: toks) => runParser false toks
  | .list (.atom "parsepos" :: toks) => runParser true toks
  | _ => none

end Ckl
