import CklVerif.Lemmas.C19SrcEnv

/-! C19Src — argument binding for the call shapes the library uses, and the semantics of the built-ins it calls -/
namespace Ckl.C19Src
open Ckl Ckl.C03

theorem addArgs_plain' (ps : List String) (h : ∀ p ∈ ps, ¬ ("...".toList <:+ p.toList)) :
    addArgs ps = ⟨ps, none⟩ := addArgs_no_rest ps (fun p hp => notRest p (h p hp))

example : addArgs ["lst", "startidx", "endidx"] = ⟨["lst", "startidx", "endidx"], none⟩ :=
  addArgs_plain' _ (by decide)

theorem setArgs_pos1 {p : String} {rest : List String} {x : RVal} {pos : Pos} {s : State}
    (hsp : addArgs (p :: rest) = ⟨p :: rest, none⟩) :
    setArgs (p :: rest) [none] [x] pos s = .ok [(p, x)] s := by
  simp [setArgs, hsp, bindNamed, bindPositional, nameGiven, nextPositional, dictHas, dictGet, dictPut,
    EvalM.bind_apply, EvalM.pure_apply]

theorem setArgs_pos2 {p q : String} {rest : List String} {x y : RVal} {pos : Pos} {s : State} (hne : p ≠ q)
    (hsp : addArgs (p :: q :: rest) = ⟨p :: q :: rest, none⟩) :
    setArgs (p :: q :: rest) [none, none] [x, y] pos s = .ok [(p, x), (q, y)] s := by
  have hqp : ¬ q = p := fun h => hne h.symm
  simp [setArgs, hsp, bindNamed, bindPositional, nameGiven, nextPositional, dictHas, dictGet, dictPut,
    EvalM.bind_apply, EvalM.pure_apply, hne, hqp]

theorem setArgs_pos3 {p q r : String} {rest : List String} {x y z : RVal} {pos : Pos} {s : State}
    (hpq : p ≠ q) (hpr : p ≠ r) (hqr : q ≠ r)
    (hsp : addArgs (p :: q :: r :: rest) = ⟨p :: q :: r :: rest, none⟩) :
    setArgs (p :: q :: r :: rest) [none, none, none] [x, y, z] pos s = .ok [(p, x), (q, y), (r, z)] s := by
  have hqp : ¬ q = p := fun h => hpq h.symm
  have hrp : ¬ r = p := fun h => hpr h.symm
  have hrq : ¬ r = q := fun h => hqr h.symm
  simp [setArgs, hsp, bindNamed, bindPositional, nameGiven, nextPositional, dictHas, dictGet, dictPut,
    EvalM.bind_apply, EvalM.pure_apply, hpq, hpr, hqr, hqp, hrp, hrq]

/-- the binary operators: `f(a = x, b = y)` -/
theorem setArgs_ab {x y : RVal} {pos : Pos} {s : State} :
    setArgs ["a", "b"] [some "a", some "b"] [x, y] pos s = .ok [("a", x), ("b", y)] s := by rfl

/-! ### built-ins -/

theorem EvalM.map_apply {α β} (f : α → β) (m : EvalM α) (s : State) :
    (f <$> m) s = match m s with
      | .ok a s' => .ok (f a) s'
      | .err v msg p t s' => .err v msg p t s'
      | .fail k s' => .fail k s' := rfl

theorem pure_is_null (v : RVal) (d pos) :
    callPure "is_null" [("obj", v)] d pos = some (fun s => .ok (.bool v.isNull) s) := by rfl

theorem pure_type (v : RVal) (d pos) :
    callPure "type" [("obj", v)] d pos = some (fun s => .ok (.str (typeName s v).toList) s) := by rfl

theorem pure_equals (a b : RVal) (d pos) :
    callPure "equals" [("a", a), ("b", b)] d pos = some (fun s => .ok (.bool (rveq s a b)) s) := by rfl

theorem pure_less (a b : RVal) (d pos) :
    callPure "less" [("a", a), ("b", b)] d pos = some (do pure (boolV (← cmpLt a b))) := by rfl

theorem pure_greater (a b : RVal) (d pos) :
    callPure "greater" [("a", a), ("b", b)] d pos = some (do pure (boolV (← cmpGt a b))) := by rfl

theorem pure_sub (a b : RVal) (d pos) :
    callPure "sub" [("a", a), ("b", b)] d pos = some (nativeSub a b pos) := by rfl

theorem pure_add (a b : RVal) (d pos) :
    callPure "add" [("a", a), ("b", b)] d pos = some (nativeAdd a b pos) := by rfl

theorem rveq_str (s : State) (a b : List Char) : rveq s (.str a) (.str b) = (a == b) := by
  simp [rveq, rveqF]

theorem cmpLt_int (a b : Int) (s : State) : cmpLt (.int a) (.int b) s = .ok (decide (a < b)) s := by
  simp [cmpLt, rvlt, reify, reifyF, vlt, vltWith, EvalM.bind_apply, getS]
  rfl

theorem cmpLt_dec_int (m : Int) (e : Nat) (b : Int) (s : State) :
    cmpLt (.dec m e) (.int b) s = .ok (numLt m e b 0) s := by
  simp [cmpLt, rvlt, reify, reifyF, vlt, vltWith, EvalM.bind_apply, getS]
  rfl

theorem cmpGt_int (a b : Int) (s : State) : cmpGt (.int a) (.int b) s = .ok (decide (b < a)) s := by
  simp [cmpGt, EvalM.bind_apply, getS, rveq, rveqF, EvalM.map_apply, cmpLt_int]
  by_cases h1 : a < b
  · simp [h1]; omega
  · by_cases h2 : a = b
    · simp [h2]
    · simp [h1, h2]; omega

theorem nativeSub_int (a b : Int) (pos : Pos) (s : State) : nativeSub (.int a) (.int b) pos s = .ok (.int (a - b)) s := by
  simp [nativeSub, EvalM.bind_apply, getS, cellOf, RVal.isNull]
  rfl

theorem nativeAdd_str (a b : List Char) (pos : Pos) (s : State) :
    nativeAdd (.str a) (.str b) pos s = .ok (.str (a ++ b)) s := by
  simp [nativeAdd, EvalM.bind_apply, getS, cellOf, RVal.isNull, RVal.isNumerical, RVal.isInt, RVal.isDecimal,
    RVal.isString, RVal.isAtomic, asStringM, EvalM.pure_apply]

end Ckl.C19Src
