/-
  C14 (spelling of a literal ANYWHERE) helper lemmas, part 2: at a token boundary the hex-escape
  buffer `tempbuf` of the scanner is empty (it is only in use in the states 312 / 412), so the
  `\xHH` spellings of a string literal (`quoteHexWith`) can be read anywhere in a text.
-/
import CklVerif.Lemmas.C14SpellStr
import CklVerif.Lemmas.LexerNum
namespace Ckl.C14A
open Ckl Ckl.Lexer Ckl.C14S

/-- outside the second-hex-digit states the hex-escape buffer is empty -/
def TbOK (k : Core) : Prop := k.state ≠ .s312 → k.state ≠ .s412 → k.tempbuf = []

def TbInv (σ : LexSt) : Prop := TbOK σ.core

theorem stepHex2_tb {str : St} {k : Core} {ch : Char} {o : Out}
    (h : stepHex2 str k ch = .ok o) : TbOK o.core := by
  simp only [stepHex2] at h
  split at h
  · split at h
    · cases h
    · cases h
      intro _ _; rfl
  · cases h

theorem stepRadix_tb {base : Nat} {al : List Char} {what : String} {k : Core} {col : Int} {ch : Char}
    {o : Out} (hs : k.state = .s71 ∨ k.state = .s72) (hk : TbOK k)
    (h : stepRadix base al what k col ch = .ok o) : TbOK o.core := by
  have htb : k.tempbuf = [] := hk (by rcases hs with hs | hs <;> simp [hs]) (by rcases hs with hs | hs <;> simp [hs])
  unfold stepRadix at h
  split at h
  · cases h; intro _ _; exact htb
  · split at h
    · split at h
      · cases h; intro _ _; exact htb
      · cases h
    · cases h; intro _ _; exact htb

theorem step_tb {k : Core} {col : Int} {ch : Char} {o : Out} (hk : TbOK k)
    (h : step k col ch = .ok o) : TbOK o.core := by
  unfold step at h
  split at h
  case h_8 hs => exact stepHex2_tb h
  case h_12 hs => exact stepHex2_tb h
  case h_17 hs => exact stepRadix_tb (Or.inl hs) hk h
  case h_18 hs => exact stepRadix_tb (Or.inr hs) hk h
  all_goals
    rename_i hs
    have ht := hk
    simp only [TbOK, hs] at ht
    simp only [Except.ok.injEq] at h; subst h
    unfold_steps
    repeat' split
    all_goals simp_all [TbOK]

theorem tbInv_preserved (name : String) : Preserved name TbInv where
  count σ ch h := by
    obtain ⟨_, _, c3, c4, _, _⟩ := count_fields σ ch
    unfold TbInv; rw [c4]; exact h
  capture σ h := by
    obtain ⟨_, _, k3, k4⟩ := capture_fields σ
    unfold TbInv; rw [k4]; exact h
  next σ h := h
  dispatch σ ch σ' b h hd := by
    unfold LexSt.dispatch at hd
    cases hstep : step σ.core σ.column ch with
    | error e => rw [hstep] at hd; cases hd
    | ok o =>
      rw [hstep] at hd
      simp only [Except.ok.injEq, Prod.mk.injEq] at hd
      obtain ⟨rfl, rfl⟩ := hd
      have hc := step_tb h hstep
      obtain ⟨_, _, _, _, _, h6⟩ := push_fields name { σ with core := o.core } o.emit
      unfold TbInv; rw [h6]; exact hc

theorem tbInv_init : TbInv {} := fun _ _ => rfl

/-- at a token boundary (state 0) the hex-escape buffer is empty, for every reachable configuration -/
theorem boundary_tempbuf_empty (name : String) (u : List Char) (σ : LexSt)
    (h : run name {} u = .ok σ) (h0 : σ.core.state = .s0) : σ.core.tempbuf = [] :=
  ((run_preserved (tbInv_preserved name) u tbInv_init).1 σ h) (by rw [h0]; decide) (by rw [h0]; decide)

end Ckl.C14A
