import CklVerif.Lemmas.C13Eval
import CklVerif.Lemmas.C13Natives

/-!
  C13: the functions that call `ld.nativeSem` (directly or through `callFn`).  They CAN return a
  host failure — but only one that `ld.nativeSem` produced: if the interpretation of the
  unmodelled natives never returns a host failure, neither do they.
-/
namespace Ckl
variable (ld : Loader)

structure NHCall (fuel : Nat) : Prop where
  callFn : ∀ fn bound env pos, NoHost (callFn ld fuel fn bound env pos)
  nativeSorted : ∀ bound env pos, NoHost (nativeSorted ld fuel bound env pos)
  sortedOuter : ∀ cmp key senv pos arr i, NoHost (sortedOuter ld fuel cmp key senv pos arr i)
  sortedInner : ∀ cmp key senv pos arr v j, NoHost (sortedInner ld fuel cmp key senv pos arr v j)
  call1 : ∀ f x env pos, NoHost (call1 ld fuel f x env pos)
  call2 : ∀ f x y env pos, NoHost (call2 ld fuel f x y env pos)

variable {ld} {fuel : Nat}

theorem callFn_step (hsem : ∀ name args, NoHost (ld.nativeSem name args)) (ih : NHAll ld fuel)
    (ihc : NHCall ld fuel) : ∀ fn bound env pos, NoHost (callFn ld (fuel+1) fn bound env pos) := by
  intro fn bound env pos
  have := ih.eval; have := ih.bindParams; have := ihc.nativeSorted
  cases fn
  case closure a => unfold Ckl.callFn; nohost!
  case native name inst =>
    unfold Ckl.callFn
    apply NoHost.bind NoHost.getS
    intro s
    split
    · rename_i m heq
      exact NoHost.callPure _ _ _ _ _ heq
    · nohost!
  all_goals (unfold Ckl.callFn; nohost!)

theorem nativeSorted_step (ihc : NHCall ld fuel) :
    ∀ bound env pos, NoHost (nativeSorted ld (fuel+1) bound env pos) := by
  intro bound env pos
  have := ihc.sortedOuter
  have := fun v p => NoHost.asListArg v p
  have := fun v => NoHost.listItems v
  unfold Ckl.nativeSorted
  nohost!

theorem sortedOuter_step (ihc : NHCall ld fuel) :
    ∀ cmp key senv pos arr i, NoHost (sortedOuter ld (fuel+1) cmp key senv pos arr i) := by
  intro cmp key senv pos arr i
  have := ihc.sortedOuter; have := ihc.sortedInner; have := ihc.call1
  unfold Ckl.sortedOuter
  nohost!

theorem sortedInner_step (ihc : NHCall ld fuel) :
    ∀ cmp key senv pos arr v j, NoHost (sortedInner ld (fuel+1) cmp key senv pos arr v j) := by
  intro cmp key senv pos arr v j
  have := ihc.sortedInner; have := ihc.call1; have := ihc.call2
  cases j <;> unfold Ckl.sortedInner <;> nohost!

theorem call1_step (ihc : NHCall ld fuel) : ∀ f x env pos, NoHost (call1 ld (fuel+1) f x env pos) := by
  intro f x env pos
  have := ihc.callFn
  unfold Ckl.call1
  nohost!

theorem call2_step (ihc : NHCall ld fuel) : ∀ f x y env pos, NoHost (call2 ld (fuel+1) f x y env pos) := by
  intro f x y env pos
  have := ihc.callFn
  unfold Ckl.call2
  nohost!

theorem nhCall_zero (ld : Loader) : NHCall ld 0 := by
  constructor <;> intros <;> first
    | (unfold Ckl.callFn; exact NoHost.failOof)
    | (unfold Ckl.nativeSorted; exact NoHost.failOof)
    | (unfold Ckl.sortedOuter; exact NoHost.failOof)
    | (unfold Ckl.sortedInner; exact NoHost.failOof)
    | (unfold Ckl.call1; exact NoHost.failOof)
    | (unfold Ckl.call2; exact NoHost.failOof)

/-- if the interpretation of the unmodelled natives never returns a host failure, then no
    function of the evaluator does: the model itself never creates one -/
theorem nhCall (ld : Loader) (hsem : ∀ name args, NoHost (ld.nativeSem name args)) : ∀ fuel, NHCall ld fuel
  | 0 => nhCall_zero ld
  | fuel + 1 =>
    have ihc := nhCall ld hsem fuel
    { callFn := callFn_step hsem (nhAll ld fuel) ihc
      nativeSorted := nativeSorted_step ihc
      sortedOuter := sortedOuter_step ihc
      sortedInner := sortedInner_step ihc
      call1 := call1_step ihc
      call2 := call2_step ihc }

end Ckl
