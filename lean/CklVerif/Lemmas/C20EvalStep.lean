import CklVerif.Lemmas.C20EvalNatives

/-!
  C20 (evaluator part) — the induction step of `error_pos_from_ast`.

  `P` is the set of allowed positions.  `PAll P ld fuel` says that every function of the evaluator's
  mutual block, run at fuel `fuel` on ASTs and positions from `P` in a state whose stored ASTs have
  their positions in `P`, ends in such a state, that a value outcome carries positions from `P` (control
  values), and that an error outcome carries a position from `P` and a stack trace whose entries carry
  positions from `P`.
-/
namespace Ckl
attribute [local irreducible] ValsOK DictOK PairsOK
set_option linter.unusedSectionVars false
set_option linter.unusedVariables false

/-- the messages of the errors that the model raises at the default position `{}` (Python: an error
    constructed without position).  Exactly two kinds, at three sites:
    * `Environment.set` on a name that is not defined — reached from `NodeAssign` (`eval … (.assign …)`) and
      from `NodeAssignDestructuring` (`assignAll`): `"<name> is not defined"`;
    * `bind_native` of an unknown name: `"Unknown native <name>"`. -/
def DefaultMsg (msg : String) : Prop :=
  (∃ x : String, msg = x ++ " is not defined") ∨ ∃ nm : String, msg = "Unknown native " ++ nm

/-- the error predicate of the evaluator invariant: the position is in `P` — or it is the default
    position `{}` and the message is one of the `DefaultMsg` — and every trace entry is in `P` -/
structure EP (P : Pos → Prop) (msg : String) (p : Pos) (t : List (String × Pos)) : Prop where
  pos : P p ∨ (p = {} ∧ DefaultMsg msg)
  trace : ∀ e ∈ t, P e.2

theorem EP.nil {P : Pos → Prop} {msg : String} {p : Pos} (h : P p) : EP P msg p [] :=
  ⟨Or.inl h, fun _ he => nomatch he⟩

theorem EP.dflt {P : Pos → Prop} {msg : String} (h : DefaultMsg msg) : EP P msg {} [] :=
  ⟨Or.inr ⟨rfl, h⟩, fun _ he => nomatch he⟩

theorem EP.snoc {P : Pos → Prop} {msg : String} {p q : Pos} {t : List (String × Pos)} (h : EP P msg p t) (hq : P q)
    (name : String) : EP P msg p (t ++ [(name, q)]) := by
  refine ⟨h.pos, fun e he => ?_⟩
  rcases List.mem_append.mp he with h1 | h1
  · exact h.trace e h1
  · cases List.mem_singleton.mp h1; exact hq

/-- one of the default messages, syntactically -/
macro "dmsg" : tactic => `(tactic| first
  | exact Or.inl ⟨_, rfl⟩
  | exact Or.inr ⟨_, rfl⟩)

macro_rules | `(tactic| eok) => `(tactic| first
  | (apply EP.nil; assumption)
  | (intro _; apply EP.nil; assumption)
  | (apply EP.dflt; dmsg)
  | (intro _; apply EP.dflt; dmsg))

/-- the evaluator invariant for one computation -/
abbrev POK (P : Pos → Prop) {α : Type} [VC α] (m : EvalM α) : Prop := PosOK (EP P) P m

/-- what is assumed about the environment of the evaluation: the module ASTs of the loader have allowed
    positions, and the interpretation of the unmodelled built-ins respects the invariant -/
structure Ctx (P : Pos → Prop) (ld : Loader) : Prop where
  loader : ∀ file ast, ld.find file = some (.ok ast) → NodeOK P ast
  native : ∀ name bound, DictOK P bound → POK P (ld.nativeSem name bound)

structure PAll (P : Pos → Prop) (ld : Loader) (fuel : Nat) : Prop where
  eval : ∀ env n, NodeOK P n → POK P (eval ld fuel env n)
  evalAnd : ∀ env es pos, NodesOK P es → P pos → POK P (evalAnd ld fuel env es pos)
  evalOr : ∀ env es pos, NodesOK P es → P pos → POK P (evalOr ld fuel env es pos)
  evalIf : ∀ env cs xs els pos, NodesOK P cs → NodesOK P xs → NodeOK P els → P pos →
    POK P (evalIf ld fuel env cs xs els pos)
  evalSeq : ∀ env ns, NodesOK P ns → POK P (evalSeq ld fuel env ns)
  evalItems : ∀ env ns pos, NodesOK P ns → P pos → POK P (evalItems ld fuel env ns pos)
  evalPairs : ∀ env ks vs, NodesOK P ks → NodesOK P vs → POK P (evalPairs ld fuel env ks vs)
  evalBody : ∀ env ns last, NodesOK P ns → ValOK P last → POK P (evalBody ld fuel env ns last)
  evalFinally : ∀ env ns, NodesOK P ns → POK P (evalFinally ld fuel env ns)
  tryHandlers : ∀ env cs hs v msg p t, NodesOK P cs → NodesOK P hs → EP P msg p t →
    POK P (tryHandlers ld fuel env cs hs v msg p t)
  invoke : ∀ fn pre names args env pos, NodesOK P args → P pos → ValsOK P pre → POK P (invoke ld fuel fn pre names args env pos)
  evalArgs : ∀ env names args pos, NodesOK P args → P pos → POK P (evalArgs ld fuel env names args pos)
  callFn : ∀ fn bound env pos, P pos → DictOK P bound → POK P (callFn ld fuel fn bound env pos)
  bindParams : ∀ lenv ps ds bound pos, NodesOK P ds → P pos → DictOK P bound → POK P (bindParams ld fuel lenv ps ds bound pos)
  evalFor : ∀ env ids e body what pos, NodeOK P e → NodeOK P body → P pos →
    POK P (evalFor ld fuel env ids e body what pos)
  forItems : ∀ env ids xs body result pos, NodeOK P body → P pos → ValsOK P xs → ValOK P result →
    POK P (forItems ld fuel env ids xs body result pos)
  forListLive : ∀ env ids a i body result pos, NodeOK P body → P pos → ValOK P result →
    POK P (forListLive ld fuel env ids a i body result pos)
  forString : ∀ env x cs body result, NodeOK P body → ValOK P result → POK P (forString ld fuel env x cs body result)
  whileLoop : ∀ env c body pos, NodeOK P c → NodeOK P body → P pos → POK P (whileLoop ld fuel env c body pos)
  comprStep : ∀ lenv kind ve ke cond pos, NodeOK P ve → NodeOK P ke → NodeOK P cond → P pos →
    POK P (comprStep ld fuel lenv kind ve ke cond pos)
  comprLoop : ∀ lenv kind ve ke cond pos l acc, NodeOK P ve → NodeOK P ke → NodeOK P cond → P pos →
    VC.ok P l → PairsOK P acc →
    POK P (comprLoop ld fuel lenv kind ve ke cond pos l acc)
  comprProduct : ∀ lenv kind ve ke cond pos x1 vs x2 ws acc, NodeOK P ve → NodeOK P ke → NodeOK P cond → P pos →
    ValsOK P vs → ValsOK P ws → PairsOK P acc →
    POK P (comprProduct ld fuel lenv kind ve ke cond pos x1 vs x2 ws acc)
  comprParallel : ∀ lenv kind ve ke cond pos x1 vs x2 ws acc, NodeOK P ve → NodeOK P ke → NodeOK P cond → P pos →
    ValsOK P vs → ValsOK P ws → PairsOK P acc →
    POK P (comprParallel ld fuel lenv kind ve ke cond pos x1 vs x2 ws acc)
  nativeSorted : ∀ bound env pos, P pos → DictOK P bound → POK P (nativeSorted ld fuel bound env pos)
  sortedOuter : ∀ cmp key senv pos arr i, P pos → ValsOK P arr.toList → POK P (sortedOuter ld fuel cmp key senv pos arr i)
  sortedInner : ∀ cmp key senv pos arr v j, P pos → ValsOK P arr.toList → ValOK P v → POK P (sortedInner ld fuel cmp key senv pos arr v j)
  call1 : ∀ f x env pos, P pos → ValOK P x → POK P (call1 ld fuel f x env pos)
  call2 : ∀ f x y env pos, P pos → ValOK P x → ValOK P y → POK P (call2 ld fuel f x y env pos)
  evalRequire : ∀ env spec name unq syms pos, NodeOK P spec → P pos →
    POK P (evalRequire ld fuel env spec name unq syms pos)
  loadModule : ∀ env ident modulefile pos, P pos → POK P (loadModule ld fuel env ident modulefile pos)

/-- bring every field of the induction hypothesis and of the context into the local context -/
macro "ih_intro " ih:ident ctx:ident : tactic => `(tactic|
  (have := ($ih).eval; have := ($ih).evalAnd; have := ($ih).evalOr; have := ($ih).evalIf
   have := ($ih).evalSeq; have := ($ih).evalItems; have := ($ih).evalPairs; have := ($ih).evalBody
   have := ($ih).evalFinally; have := ($ih).tryHandlers; have := ($ih).invoke; have := ($ih).evalArgs
   have := ($ih).callFn
   have := ($ih).bindParams; have := ($ih).evalFor; have := ($ih).forItems; have := ($ih).forListLive
   have := ($ih).forString; have := ($ih).whileLoop; have := ($ih).comprStep; have := ($ih).comprLoop
   have := ($ih).comprProduct; have := ($ih).comprParallel
   have := ($ih).nativeSorted; have := ($ih).sortedOuter; have := ($ih).sortedInner
   have := ($ih).call1; have := ($ih).call2
   have := ($ih).evalRequire; have := ($ih).loadModule
   have := ($ctx).native))

theorem NodeOK.of_spread {P : Pos → Prop} {e : Node} {p : Pos} (h : NodeOK P (.spread e p)) : NodeOK P e := by
  simp only [NodeOK] at h; exact h.2

/-- split every conjunction in the context -/
macro "split_ands" : tactic => `(tactic| repeat (cases ‹_ ∧ _›))

/-- side conditions of the induction hypothesis -/
macro "nodeok" : tactic => `(tactic| first
  | assumption
  | exact trivial
  | (apply NodeOK.of_spread; assumption)
  | (apply EP.nil; assumption)
  | vok)

/-- use the induction hypothesis (or another fact in the context) for the computation at hand -/
macro "posok_ih" : tactic => `(tactic| (apply_assumption (exfalso := false) (symm := false) <;> nodeok))

macro "posok!" : tactic => `(tactic| repeat' (first | posok_ih | posok_step))

variable {P : Pos → Prop} {ld : Loader} {fuel : Nat}

theorem evalAnd_step (ctx : Ctx P ld) (ih : PAll P ld fuel) :
    ∀ env es pos, NodesOK P es → P pos → POK P (evalAnd ld (fuel+1) env es pos) := by
  intro env es pos hes hp
  ih_intro ih ctx
  cases es <;> simp only [NodesOK] at hes <;> split_ands <;> unfold Ckl.evalAnd <;> posok!

theorem evalOr_step (ctx : Ctx P ld) (ih : PAll P ld fuel) :
    ∀ env es pos, NodesOK P es → P pos → POK P (evalOr ld (fuel+1) env es pos) := by
  intro env es pos hes hp
  ih_intro ih ctx
  cases es <;> simp only [NodesOK] at hes <;> split_ands <;> unfold Ckl.evalOr <;> posok!

theorem evalIf_step (ctx : Ctx P ld) (ih : PAll P ld fuel) :
    ∀ env cs xs els pos, NodesOK P cs → NodesOK P xs → NodeOK P els → P pos →
      POK P (evalIf ld (fuel+1) env cs xs els pos) := by
  intro env cs xs els pos hcs hxs hels hp
  ih_intro ih ctx
  cases cs <;> cases xs <;> simp only [NodesOK] at hcs hxs <;> split_ands <;> unfold Ckl.evalIf <;> posok!

theorem evalSeq_step (ctx : Ctx P ld) (ih : PAll P ld fuel) :
    ∀ env ns, NodesOK P ns → POK P (evalSeq ld (fuel+1) env ns) := by
  intro env ns hns
  ih_intro ih ctx
  cases ns <;> simp only [NodesOK] at hns <;> split_ands <;> unfold Ckl.evalSeq <;> posok!

theorem evalItems_step (ctx : Ctx P ld) (ih : PAll P ld fuel) :
    ∀ env ns pos, NodesOK P ns → P pos → POK P (evalItems ld (fuel+1) env ns pos) := by
  intro env ns pos hns hp
  ih_intro ih ctx
  cases ns <;> simp only [NodesOK] at hns <;> split_ands <;> unfold Ckl.evalItems <;> posok!

theorem evalPairs_step (ctx : Ctx P ld) (ih : PAll P ld fuel) :
    ∀ env ks vs, NodesOK P ks → NodesOK P vs → POK P (evalPairs ld (fuel+1) env ks vs) := by
  intro env ks vs hks hvs
  ih_intro ih ctx
  cases ks <;> cases vs <;> simp only [NodesOK] at hks hvs <;> split_ands <;> unfold Ckl.evalPairs <;> posok!

theorem evalBody_step (ctx : Ctx P ld) (ih : PAll P ld fuel) :
    ∀ env ns last, NodesOK P ns → ValOK P last → POK P (evalBody ld (fuel+1) env ns last) := by
  intro env ns last hns hlast
  ih_intro ih ctx
  cases ns <;> simp only [NodesOK] at hns <;> split_ands <;> unfold Ckl.evalBody <;> posok!

theorem evalFinally_step (ctx : Ctx P ld) (ih : PAll P ld fuel) :
    ∀ env ns, NodesOK P ns → POK P (evalFinally ld (fuel+1) env ns) := by
  intro env ns hns
  ih_intro ih ctx
  cases ns <;> simp only [NodesOK] at hns <;> split_ands <;> unfold Ckl.evalFinally <;> posok!

theorem tryHandlers_step (ctx : Ctx P ld) (ih : PAll P ld fuel) :
    ∀ env cs hs v msg p t, NodesOK P cs → NodesOK P hs → EP P msg p t →
      POK P (tryHandlers ld (fuel+1) env cs hs v msg p t) := by
  intro env cs hs v msg p t hcs hhs hpt
  ih_intro ih ctx
  cases cs <;> cases hs <;> simp only [NodesOK] at hcs hhs <;> split_ands <;> unfold Ckl.tryHandlers <;>
    first | exact PosOK.ofFun (fun s hs => ⟨hpt, hs⟩) | posok!

/-- the wrapper of `invoke`: an error of the callee keeps its position and gains one trace entry that
    carries the call position; syntax and host failures become errors at the call position -/
theorem invoke_wrap (fn : RVal) (bound : List (String × RVal)) (env : EnvId) {pos : Pos} (hp : P pos)
    (h : POK P (callFn ld fuel fn bound env pos)) :
    POK P (fun s1 => match callFn ld fuel fn bound env pos s1 with
      | .err v m p t s2 => .err v m p (t ++ [(fnName s2 fn, pos)]) s2
      | .fail (.syn e) s2 => .err (.str "ERROR".toList) e.msg pos [] s2
      | .fail (.host k) s2 => .err (.str "ERROR".toList) (fnName s2 fn ++ " failed: " ++ k) pos [] s2
      | other => other : EvalM RVal) := by
  constructor
  intro s1 hs1
  have := h.run s1 hs1
  cases hc : callFn ld fuel fn bound env pos s1 with
  | ok a s2 => rw [hc] at this; exact this
  | err v m p t s2 => rw [hc] at this; exact ⟨this.1.snoc hp _, this.2⟩
  | fail f s2 =>
    rw [hc] at this
    cases f with
    | syn e => exact ⟨EP.nil hp, this⟩
    | host k => exact ⟨EP.nil hp, this⟩
    | oof => exact this
    | unsupported w => exact this

theorem invoke_step (ctx : Ctx P ld) (ih : PAll P ld fuel) :
    ∀ fn pre names args env pos, NodesOK P args → P pos → ValsOK P pre →
      POK P (invoke ld (fuel+1) fn pre names args env pos) := by
  intro fn pre names args env pos hargs hp hpre
  ih_intro ih ctx
  have hw := fun bound (hb : DictOK P bound) => invoke_wrap fn bound env hp (ih.callFn fn bound env pos hp hb)
  unfold Ckl.invoke
  posok!

theorem evalArgs_step (ctx : Ctx P ld) (ih : PAll P ld fuel) :
    ∀ env names args pos, NodesOK P args → P pos → POK P (evalArgs ld (fuel+1) env names args pos) := by
  intro env names args pos hargs hp
  ih_intro ih ctx
  cases names <;> cases args <;> simp only [NodesOK] at hargs <;> split_ands <;> unfold Ckl.evalArgs <;> posok!

theorem bindParams_step (ctx : Ctx P ld) (ih : PAll P ld fuel) :
    ∀ lenv ps ds bound pos, NodesOK P ds → P pos → DictOK P bound →
      POK P (bindParams ld (fuel+1) lenv ps ds bound pos) := by
  intro lenv ps ds bound pos hds hp hbound
  ih_intro ih ctx
  cases ps <;> cases ds <;> simp only [NodesOK] at hds <;> split_ands <;> unfold Ckl.bindParams <;> posok!

theorem evalFor_step (ctx : Ctx P ld) (ih : PAll P ld fuel) :
    ∀ env ids e body what pos, NodeOK P e → NodeOK P body → P pos →
      POK P (evalFor ld (fuel+1) env ids e body what pos) := by
  intro env ids e body what pos he hb hp
  ih_intro ih ctx
  unfold Ckl.evalFor
  posok!

theorem forItems_step (ctx : Ctx P ld) (ih : PAll P ld fuel) :
    ∀ env ids xs body result pos, NodeOK P body → P pos → ValsOK P xs → ValOK P result →
      POK P (forItems ld (fuel+1) env ids xs body result pos) := by
  intro env ids xs body result pos hb hp hxs hres
  ih_intro ih ctx
  cases xs <;> unfold Ckl.forItems <;> posok!

theorem forListLive_step (ctx : Ctx P ld) (ih : PAll P ld fuel) :
    ∀ env ids a i body result pos, NodeOK P body → P pos → ValOK P result →
      POK P (forListLive ld (fuel+1) env ids a i body result pos) := by
  intro env ids a i body result pos hb hp hres
  ih_intro ih ctx
  unfold Ckl.forListLive
  posok!

theorem forString_step (ctx : Ctx P ld) (ih : PAll P ld fuel) :
    ∀ env x cs body result, NodeOK P body → ValOK P result →
      POK P (forString ld (fuel+1) env x cs body result) := by
  intro env x cs body result hb hres
  ih_intro ih ctx
  cases cs <;> unfold Ckl.forString <;> posok!

theorem whileLoop_step (ctx : Ctx P ld) (ih : PAll P ld fuel) :
    ∀ env c body pos, NodeOK P c → NodeOK P body → P pos → POK P (whileLoop ld (fuel+1) env c body pos) := by
  intro env c body pos hc hb hp
  ih_intro ih ctx
  unfold Ckl.whileLoop
  posok!

theorem comprStep_step (ctx : Ctx P ld) (ih : PAll P ld fuel) :
    ∀ lenv kind ve ke cond pos, NodeOK P ve → NodeOK P ke → NodeOK P cond → P pos →
      POK P (comprStep ld (fuel+1) lenv kind ve ke cond pos) := by
  intro lenv kind ve ke cond pos hve hke hcond hp
  ih_intro ih ctx
  unfold Ckl.comprStep
  posok!

theorem comprLoop_step (ctx : Ctx P ld) (ih : PAll P ld fuel) :
    ∀ lenv kind ve ke cond pos l acc, NodeOK P ve → NodeOK P ke → NodeOK P cond → P pos →
      VC.ok P l → PairsOK P acc →
      POK P (comprLoop ld (fuel+1) lenv kind ve ke cond pos l acc) := by
  intro lenv kind ve ke cond pos l acc hve hke hcond hp hl hacc
  ih_intro ih ctx
  rcases l with _ | ⟨⟨x, _ | ⟨v, vs⟩⟩, _ | ⟨y, l⟩⟩ <;> unfold Ckl.comprLoop <;> posok!

theorem comprProduct_step (ctx : Ctx P ld) (ih : PAll P ld fuel) :
    ∀ lenv kind ve ke cond pos x1 vs x2 ws acc, NodeOK P ve → NodeOK P ke → NodeOK P cond → P pos →
      ValsOK P vs → ValsOK P ws → PairsOK P acc →
      POK P (comprProduct ld (fuel+1) lenv kind ve ke cond pos x1 vs x2 ws acc) := by
  intro lenv kind ve ke cond pos x1 vs x2 ws acc hve hke hcond hp hvs hws hacc
  ih_intro ih ctx
  cases vs <;> unfold Ckl.comprProduct <;> posok!

theorem comprParallel_step (ctx : Ctx P ld) (ih : PAll P ld fuel) :
    ∀ lenv kind ve ke cond pos x1 vs x2 ws acc, NodeOK P ve → NodeOK P ke → NodeOK P cond → P pos →
      ValsOK P vs → ValsOK P ws → PairsOK P acc →
      POK P (comprParallel ld (fuel+1) lenv kind ve ke cond pos x1 vs x2 ws acc) := by
  intro lenv kind ve ke cond pos x1 vs x2 ws acc hve hke hcond hp hvs hws hacc
  ih_intro ih ctx
  cases vs <;> cases ws <;> unfold Ckl.comprParallel <;> posok!

end Ckl
