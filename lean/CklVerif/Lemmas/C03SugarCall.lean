/-
  C03Sugar — evaluator level, part 2: `invoke` on a closure, where the first positional argument
  goes, and the method call `obj->m(a)` (`derefInvoke`, `findOwner`).
-/
import CklVerif.Lemmas.C03SugarEval
namespace Ckl.C03S
open Ckl Ckl.C03

/-! ### where the first positional argument goes -/

theorem not_mem_tail_of_eraseDups {l : List String} {p : String} {F : List String}
    (h : l.eraseDups = p :: F) : p ∉ F := by
  cases l with
  | nil => simp at h
  | cons a L =>
    rw [List.eraseDups_cons] at h
    simp only [List.cons.injEq] at h
    obtain ⟨rfl, rfl⟩ := h
    intro hm
    rw [List.mem_eraseDups, List.mem_filter] at hm
    simp at hm

theorem dictGet_none_of_not_mem_keys {β} {k : String} {l : List (String × β)} (h : k ∉ l.map (·.1)) :
    dictGet k l = none := by
  induction l with
  | nil => rfl
  | cons kv r ih =>
    obtain ⟨k', v'⟩ := kv
    simp only [List.map_cons, List.mem_cons, not_or] at h
    simp only [dictGet, if_neg h.1]
    exact ih h.2

/-- In a successful `bindSpec` whose first actual is positional, that value is bound to the first
    parameter (in declaration order) that no named argument of the call binds. -/
theorem bindSpec_first_positional {params : List String} {rest : Option String}
    {acts : List (Option String × RVal)} {v : RVal} {d : List (String × RVal)} {r : List RVal}
    (h : bindSpec params rest ((none, v) :: acts) = .ok (d, r)) {p1 : String}
    (hp : nextPositional params (dictOfPairs (namedOf acts)) = some p1) : dictGet p1 d = some v := by
  have hn : namedOf ((none, v) :: acts) = namedOf acts := namedOf_cons_none v acts
  cases hf : (namedOf ((none, v) :: acts)).find? (fun nv => !params.contains nv.1) with
  | some nv => rw [bindSpec_unknown hf] at h; cases h
  | none =>
    rw [bindSpec_known hf] at h
    split at h
    · cases h
    · split at h
      · cases h
      · simp only [Except.ok.injEq, Prod.mk.injEq] at h
        obtain ⟨rfl, _⟩ := h
        rw [hn, frontVals_cons_none]
        rw [nextPositional_eq_head] at hp
        cases hfree : freeParams params (dictOfPairs (namedOf acts)) with
        | nil => rw [hfree] at hp; cases hp
        | cons q F =>
          rw [hfree] at hp
          simp only [List.head?_cons, Option.some.injEq] at hp
          subst hp
          have hnot : q ∉ F := not_mem_tail_of_eraseDups (l := params.filter
            (fun p => !dictHas p (dictOfPairs (namedOf acts)))) hfree
          rw [dictGet_dictOfPairs, List.zip_cons_cons, List.reverse_append, List.reverse_cons, List.append_assoc,
            dictGet_append]
          have h1 : dictGet q (F.zip (frontVals acts)).reverse = none := by
            apply dictGet_none_of_not_mem_keys
            intro hm
            rw [List.mem_map] at hm
            obtain ⟨⟨k, w⟩, hkw, rfl⟩ := hm
            rw [List.mem_reverse] at hkw
            exact hnot (List.of_mem_zip hkw).1
          rw [h1]
          simp [dictGet]

/-- **setArgs_first_positional**: when `setArgs` succeeds on a call whose first actual is positional
    (the piped value of `x !> f(…)`, the receiver of `obj->m(…)`), that value is bound to the first
    parameter, in declaration order, that is not bound by a named argument of the call. -/
theorem setArgs_first_positional {ps : List String} {ns : List (Option String)} {vs : List RVal} {v : RVal}
    {pos : Pos} {s s' : State} {bound : List (String × RVal)}
    (h : setArgs ps (none :: ns) (v :: vs) pos s = .ok bound s') {p1 : String}
    (hp : nextPositional (addArgs ps).argNames (dictOfPairs (namedOf (actualsOf ns vs))) = some p1) :
    dictGet p1 bound = some v := by
  rw [setArgs_spec] at h
  have ha : actualsOf (none :: ns) (v :: vs) = (none, v) :: actualsOf ns vs := by
    simp [actualsOf_cons, nameGiven]
  rw [ha] at h
  cases hb : bindSpec (addArgs ps).argNames (addArgs ps).restArgName ((none, v) :: actualsOf ns vs) with
  | error m => rw [hb] at h; cases h
  | ok dr =>
    obtain ⟨d0, r⟩ := dr
    have h0 := bindSpec_first_positional hb hp
    rw [hb] at h
    cases hr : (addArgs ps).restArgName with
    | none =>
      rw [hr] at h
      simp only [setArgsResult_ok_none, Out.ok.injEq] at h
      rw [← h.1]; exact h0
    | some rn =>
      rw [hr] at h
      simp only [setArgsResult_ok_some, Out.ok.injEq] at h
      rw [← h.1]
      have hmem : p1 ∈ (addArgs ps).argNames := by
        unfold nextPositional at hp
        exact List.mem_of_find?_eq_some hp
      rw [dictGet_dictPut_other (Ne.symm (rest_not_param hr hmem))]
      exact h0

/-- the common case: no named argument binds the first declared parameter `p1` (and `p1` is an
    ordinary parameter): the first positional argument is bound to `p1` -/
theorem nextPositional_head {p1 : String} {ps : List String} {args : List (String × RVal)}
    (h : dictHas p1 args = false) : nextPositional (p1 :: ps) args = some p1 := by
  simp [nextPositional, h]

section
variable (ld : Loader)

/-! ### `invoke` on a closure -/

/-- the tail of `invoke`: the call itself; a runtime error gets the trace entry of this call, a
    syntax error of a required module / a host exception becomes a runtime error -/
def callWrap (F : Nat) (fn : RVal) (bound : List (String × RVal)) (env : EnvId) (pos : Pos) : EvalM RVal :=
  fun s1 =>
    match callFn ld F fn bound env pos s1 with
    | .err v m p t s2 => .err v m p (t ++ [(fnName s2 fn, pos)]) s2
    | .fail (.syn e) s2 => .err (.str "ERROR".toList) e.msg pos [] s2
    | .fail (.host k) s2 => .err (.str "ERROR".toList) (fnName s2 fn ++ " failed: " ++ k) pos [] s2
    | other => other

/-- **invoke_closure**: `invoke` evaluates the arguments in the CALLER's frame `env`, binds
    `pre ++ values` (the `pre` values positionally, in front) against the closure's declared
    parameter names, and calls. -/
theorem invoke_closure (F : Nat) (a : Nat) (pre : List RVal) (names : List (Option String)) (args : List Node)
    (env : EnvId) (pos : Pos) (s s1 : State) (ns : List (Option String)) (vs : List RVal)
    {cenv : EnvId} {ps : List String} {ds : List Node} {body : Node} {nm : String}
    (hargs : evalArgs ld F env names args pos s = .ok (ns, vs) s1)
    (hcell : s1.cell a = some (.closure cenv ps ds body nm)) :
    invoke ld (F + 1) (.closure a) pre names args env pos s =
      (setArgs ps (pre.map (fun _ => none) ++ ns) (pre ++ vs) pos >>= fun bound =>
        callWrap ld F (.closure a) bound env pos) s1 := by
  rw [invoke]
  simp only [EvalM.bind_apply, hargs, getS, hcell, EvalM.pure_apply]
  rfl

/-- errors of the argument evaluation are errors of `invoke` (nothing is bound, nothing is called) -/
theorem invoke_args_err (F : Nat) (fn : RVal) (pre : List RVal) (names : List (Option String)) (args : List Node)
    (env : EnvId) (pos : Pos) (s s1 : State) {w : RVal} {msg : String} {q : Pos} {tr : List (String × Pos)}
    (hargs : evalArgs ld F env names args pos s = .err w msg q tr s1) :
    invoke ld (F + 1) fn pre names args env pos s = .err w msg q tr s1 := by
  rw [invoke]
  simp only [EvalM.bind_apply, hargs]

end
end Ckl.C03S
