import CklVerif.Proofs.C14Lexer
#print axioms Ckl.C14.boundary_token_empty
#print axioms Ckl.C14.ws_at_boundary
#print axioms Ckl.C14.comment_skip
#print axioms Ckl.C14.layout_insertion
#print axioms Ckl.C14.layout_insertion_ws
#print axioms Ckl.C14.layout_insertion_comment
#print axioms Ckl.C14.crlf_lf
#print axioms Ckl.C14.comment_at_eof
#print axioms Ckl.C14.boundary_after_ws
