/-
  C12Sim — whole-program independence from the storage order of sets and maps.

  Definitions: the relation `PermSt s t` ("t is s with the content of any number of set / map cells
  permuted"), the outcome relation `OutR`, and the notion `Sim m m'` ("started in related states the
  two computations end with EQUAL values / errors / failures and related states").

  A set / map cell may be stored in another order only when its keys are ATOMIC values (so that no
  mutation of another cell can change their order or make two of them equal) that are pairwise of
  one ordered kind and pairwise different (`AtomTotal`): the hypotheses under which `sorted` is
  well defined (`C12.totalOn_necessary`).  Object cells, list cells and closures are equal.
-/
import CklVerif.Proofs.C12

set_option linter.unusedSimpArgs false
set_option linter.unusedVariables false

namespace Ckl.C12S
open Ckl Ckl.C12

/-- the data value of an atomic runtime value; `none` for references, functions, nodes, signals -/
def atomVal (v : RVal) : Option Val := reifyF decRepr #[] 0 v

theorem atomVal_reifyF {v : RVal} {w : Val} (h : atomVal v = some w) (hp : Array Cell) (n : Nat) :
    reifyF decRepr hp n v = some w := by
  cases v <;> simp_all [atomVal, reifyF]

theorem atomVal_reify {v : RVal} {w : Val} (h : atomVal v = some w) (s : State) : reify s v = some w :=
  atomVal_reifyF h _ _

/-- atomic keys, pairwise of one ordered kind, pairwise different -/
def AtomTotal (xs : List RVal) : Prop := TotalKey atomVal xs

/-- the same for the keys of map entries -/
def AtomTotalK (kvs : List (RVal × RVal)) : Prop := TotalKey (fun kv => atomVal kv.1) kvs

theorem TotalKey.congr' {α} {key key' : α → Option Val} {xs : List α}
    (hk : ∀ x ∈ xs, ∀ v, key x = some v → key' x = some v) (h : TotalKey key xs) : TotalKey key' xs where
  keyed x hx := by obtain ⟨v, hv⟩ := h.keyed x hx; exact ⟨v, hk x hx v hv⟩
  kind := by
    refine h.kind.imp_of_mem ?_
    intro x y hx hy hxy v w hv hw
    obtain ⟨v0, hv0⟩ := h.keyed x hx
    obtain ⟨w0, hw0⟩ := h.keyed y hy
    have e1 := hk x hx v0 hv0; have e2 := hk y hy w0 hw0
    rw [e1] at hv; rw [e2] at hw; cases hv; cases hw
    exact hxy _ _ hv0 hw0
  distinct := by
    refine h.distinct.imp_of_mem ?_
    intro x y hx hy hxy v w hv hw
    obtain ⟨v0, hv0⟩ := h.keyed x hx
    obtain ⟨w0, hw0⟩ := h.keyed y hy
    have e1 := hk x hx v0 hv0; have e2 := hk y hy w0 hw0
    rw [e1] at hv; rw [e2] at hw; cases hv; cases hw
    exact hxy _ _ hv0 hw0

theorem AtomTotal.totalOn {xs : List RVal} (h : AtomTotal xs) (s : State) : TotalOn s xs :=
  TotalKey.congr' (fun x _ v hv => atomVal_reify hv s) h

theorem AtomTotalK.totalOnKeys {kvs : List (RVal × RVal)} (h : AtomTotalK kvs) (s : State) :
    TotalOnKeys s kvs :=
  TotalKey.congr' (fun x _ v hv => atomVal_reify hv s) h

theorem AtomTotal.reifyF {xs : List RVal} (h : AtomTotal xs) (hp : Array Cell) (n : Nat) :
    TotalKey (reifyF decRepr hp n) xs :=
  TotalKey.congr' (fun x _ v hv => atomVal_reifyF hv hp n) h

theorem AtomTotalK.reifyF {kvs : List (RVal × RVal)} (h : AtomTotalK kvs) (hp : Array Cell) (n : Nat) :
    TotalKey (fun kv => reifyF decRepr hp n kv.1) kvs :=
  TotalKey.congr' (fun x _ v hv => atomVal_reifyF hv hp n) h

/-- twin cells: the same set / map stored in another order, keys atomic and totally ordered -/
def CellTw : Cell → Cell → Prop
  | .set xs, .set ys => xs.Perm ys ∧ AtomTotal xs
  | .map xs, .map ys => xs.Perm ys ∧ AtomTotalK xs
  | _, _ => False

/-- related cells: equal, or twins -/
def CellR (c c' : Cell) : Prop := c = c' ∨ CellTw c c'

theorem CellTw.cellPerm {c c' : Cell} (h : CellTw c c') : CellPerm c c' := by
  cases c <;> cases c' <;> simp only [CellTw] at h <;> exact h.1

theorem CellTw.symm {c c' : Cell} (h : CellTw c c') : CellTw c' c := by
  cases c <;> cases c' <;> simp only [CellTw] at h ⊢
  · exact ⟨h.1.symm, h.2.perm h.1⟩
  · exact ⟨h.1.symm, h.2.perm h.1⟩

theorem CellR.symm {c c' : Cell} (h : CellR c c') : CellR c' c := by
  rcases h with rfl | h
  · exact Or.inl rfl
  · exact Or.inr h.symm

theorem CellR.refl (c : Cell) : CellR c c := Or.inl rfl

/-- related optional cells -/
def OCellR : Option Cell → Option Cell → Prop
  | none, none => True
  | some c, some c' => CellR c c'
  | _, _ => False

/-- joint case analysis of related optional cells -/
theorem OCellR.cases {o o' : Option Cell} (h : OCellR o o') :
    o = o' ∨ (∃ xs ys, o = some (.set xs) ∧ o' = some (.set ys) ∧ xs.Perm ys ∧ AtomTotal xs) ∨
      (∃ xs ys, o = some (.map xs) ∧ o' = some (.map ys) ∧ xs.Perm ys ∧ AtomTotalK xs) := by
  cases o with
  | none => cases o' with
    | none => exact Or.inl rfl
    | some _ => exact absurd h id
  | some c => cases o' with
    | none => exact absurd h id
    | some c' =>
      rcases h with rfl | h
      · exact Or.inl rfl
      · cases c <;> cases c' <;> simp only [CellTw] at h
        · exact Or.inr (Or.inl ⟨_, _, rfl, rfl, h.1, h.2⟩)
        · exact Or.inr (Or.inr ⟨_, _, rfl, rfl, h.1, h.2⟩)

/-- related heaps -/
structure HeapR (h h' : Array Cell) : Prop where
  size : h.size = h'.size
  cells : ∀ a : Nat, OCellR h[a]? h'[a]?

theorem HeapR.refl (h : Array Cell) : HeapR h h :=
  ⟨rfl, fun a => by cases h[a]? <;> simp [OCellR, CellR.refl]⟩

theorem OCellR.symm {o o' : Option Cell} (h : OCellR o o') : OCellR o' o := by
  cases o <;> cases o' <;> simp only [OCellR] at h ⊢
  exact h.symm

theorem HeapR.symm {h h' : Array Cell} (H : HeapR h h') : HeapR h' h :=
  ⟨H.size.symm, fun a => (H.cells a).symm⟩

theorem HeapR.push {h h' : Array Cell} (H : HeapR h h') {c c' : Cell} (hc : CellR c c') :
    HeapR (h.push c) (h'.push c') := by
  refine ⟨by simp [H.size], fun a => ?_⟩
  rw [Array.getElem?_push, Array.getElem?_push, H.size]
  split
  · exact hc
  · exact H.cells a

theorem HeapR.set {h h' : Array Cell} (H : HeapR h h') (a : Nat) {c c' : Cell} (hc : CellR c c') :
    HeapR (h.setIfInBounds a c) (h'.setIfInBounds a c') := by
  refine ⟨by simp [H.size], fun b => ?_⟩
  by_cases hb : b = a
  · subst hb
    by_cases hlt : b < h.size
    · rw [Array.getElem?_setIfInBounds_self_of_lt hlt,
        Array.getElem?_setIfInBounds_self_of_lt (H.size ▸ hlt)]
      exact hc
    · have h1 : (h.setIfInBounds b c)[b]? = none := by
        rw [Array.getElem?_eq_none]; simp; omega
      have h2 : (h'.setIfInBounds b c')[b]? = none := by
        rw [Array.getElem?_eq_none]; simp; have := H.size; omega
      rw [h1, h2]; trivial
  · rw [Array.getElem?_setIfInBounds_ne (Ne.symm hb), Array.getElem?_setIfInBounds_ne (Ne.symm hb)]
    exact H.cells b

/-- **PermSt**: `t` is `s` with the content of any number of set / map cells (with atomic, totally
    ordered keys) stored in another order; everything else is equal -/
structure PermSt (s t : State) : Prop where
  frames : s.frames = t.frames
  modules : s.modules = t.modules
  modstack : s.modstack = t.modstack
  out : s.out = t.out
  nextInst : s.nextInst = t.nextInst
  secure : s.secure = t.secure
  ghost : s.ghost = t.ghost
  heap : HeapR s.heap t.heap

theorem PermSt.refl (s : State) : PermSt s s := ⟨rfl, rfl, rfl, rfl, rfl, rfl, rfl, HeapR.refl _⟩

theorem PermSt.symm {s t : State} (h : PermSt s t) : PermSt t s :=
  ⟨h.frames.symm, h.modules.symm, h.modstack.symm, h.out.symm, h.nextInst.symm, h.secure.symm,
    h.ghost.symm, h.heap.symm⟩

theorem PermSt.cell {s t : State} (h : PermSt s t) (a : Nat) : OCellR (s.cell a) (t.cell a) :=
  h.heap.cells a

/-- `t` is `s` with another heap -/
theorem PermSt.eq {s t : State} (h : PermSt s t) : t = { s with heap := t.heap } := by
  cases s; cases t
  have := h.frames; have := h.modules; have := h.modstack; have := h.out; have := h.nextInst
  have := h.secure; have := h.ghost
  simp_all

theorem PermSt.of_heap {s : State} {h' : Array Cell} (H : HeapR s.heap h') : PermSt s { s with heap := h' } :=
  ⟨rfl, rfl, rfl, rfl, rfl, rfl, rfl, H⟩

/-! ### outcomes -/

/-- the two outcomes have the same constructor, the same value / error value / message / position /
    trace / failure, and related final states -/
def OutR {α} : Out α → Out α → Prop
  | .ok a s, .ok b t => a = b ∧ PermSt s t
  | .err v m p tr s, .err v' m' p' tr' t => v = v' ∧ m = m' ∧ p = p' ∧ tr = tr' ∧ PermSt s t
  | .fail f s, .fail f' t => f = f' ∧ PermSt s t
  | _, _ => False

/-- started in related states, the two computations end with related outcomes -/
structure Sim {α} (m m' : EvalM α) : Prop where
  run : ∀ s t, PermSt s t → OutR (m s) (m' t)

theorem OutR.ok_iff {α} {a b : α} {s t : State} : OutR (.ok a s) (.ok b t) ↔ a = b ∧ PermSt s t := Iff.rfl

/-- joint case analysis of related outcomes -/
theorem OutR.cases {α} {o o' : Out α} (h : OutR o o') :
    (∃ a s t, o = .ok a s ∧ o' = .ok a t ∧ PermSt s t) ∨
    (∃ v m p tr s t, o = .err v m p tr s ∧ o' = .err v m p tr t ∧ PermSt s t) ∨
    (∃ f s t, o = .fail f s ∧ o' = .fail f t ∧ PermSt s t) := by
  cases o <;> cases o' <;> simp only [OutR] at h
  · obtain ⟨rfl, h⟩ := h; exact Or.inl ⟨_, _, _, rfl, rfl, h⟩
  · obtain ⟨rfl, rfl, rfl, rfl, h⟩ := h; exact Or.inr (Or.inl ⟨_, _, _, _, _, _, rfl, rfl, h⟩)
  · obtain ⟨rfl, h⟩ := h; exact Or.inr (Or.inr ⟨_, _, _, rfl, rfl, h⟩)

namespace Sim
variable {α β : Type}

theorem pure (a : α) : Sim (Pure.pure a : EvalM α) (Pure.pure a) := ⟨fun s t h => ⟨rfl, h⟩⟩

theorem bind {m m' : EvalM α} {f f' : α → EvalM β} (hm : Sim m m') (hf : ∀ a, Sim (f a) (f' a)) :
    Sim (m >>= f) (m' >>= f') := by
  constructor
  intro s t hst
  rw [EvalM.bind_apply, EvalM.bind_apply]
  rcases (hm.run s t hst).cases with ⟨a, s1, t1, h1, h2, h3⟩ | ⟨v, m, p, tr, s1, t1, h1, h2, h3⟩ |
    ⟨f, s1, t1, h1, h2, h3⟩
  · rw [h1, h2]; exact (hf a).run s1 t1 h3
  · rw [h1, h2]; exact ⟨rfl, rfl, rfl, rfl, h3⟩
  · rw [h1, h2]; exact ⟨rfl, h3⟩

theorem getS_bind {f f' : State → EvalM β} (hf : ∀ s t, PermSt s t → Sim (f s) (f' t)) :
    Sim (getS >>= f) (getS >>= f') := ⟨fun s t h => (hf s t h).run s t h⟩

theorem setS {s t : State} (h : PermSt s t) : Sim (setS s) (setS t) := ⟨fun _ _ _ => ⟨rfl, h⟩⟩

theorem modifyS {f f' : State → State} (h : ∀ s t, PermSt s t → PermSt (f s) (f' t)) :
    Sim (modifyS f) (modifyS f') := ⟨fun s t hst => ⟨rfl, h s t hst⟩⟩

theorem throwV (v : RVal) (msg : String) (p : Pos) : Sim (throwV v msg p : EvalM α) (throwV v msg p) :=
  ⟨fun _ _ h => ⟨rfl, rfl, rfl, rfl, h⟩⟩

theorem throwE (msg : String) (p : Pos) : Sim (throwE msg p : EvalM α) (throwE msg p) := throwV _ _ _

theorem failM (f : Fail) : Sim (failM f : EvalM α) (failM f) := ⟨fun _ _ h => ⟨rfl, h⟩⟩

theorem unsupported (w : String) : Sim (unsupported w : EvalM α) (unsupported w) := failM _

theorem ite {c : Prop} [Decidable c] {a b a' b' : EvalM α} (ha : c → Sim a a') (hb : ¬ c → Sim b b') :
    Sim (if c then a else b) (if c then a' else b') := by
  by_cases h : c
  · rw [if_pos h, if_pos h]; exact ha h
  · rw [if_neg h, if_neg h]; exact hb h

/-- the state is not used: the same function of the state applied to both -/
theorem of_eq {m m' : EvalM α} (h : m = m') (hm : Sim m m) : Sim m m' := h ▸ hm

end Sim

/-! ### the state operations keep the relation -/

theorem PermSt.put {s t : State} (h : PermSt s t) (e : EnvId) (x : String) (v : RVal) :
    PermSt (s.put e x v) (t.put e x v) := by
  constructor <;> simp only [State.put, h.frames, h.modules, h.modstack, h.out, h.nextInst, h.secure, h.ghost]
  exact h.heap

theorem PermSt.remove {s t : State} (h : PermSt s t) (e : EnvId) (x : String) :
    PermSt (s.remove e x) (t.remove e x) := by
  constructor <;> simp only [State.remove, h.frames, h.modules, h.modstack, h.out, h.nextInst, h.secure, h.ghost]
  exact h.heap

theorem PermSt.newEnv {s t : State} (h : PermSt s t) (p : EnvId) :
    PermSt (s.newEnv p).1 (t.newEnv p).1 ∧ (s.newEnv p).2 = (t.newEnv p).2 := by
  refine ⟨?_, by simp only [State.newEnv, h.frames]⟩
  constructor <;> simp only [State.newEnv, h.frames, h.modules, h.modstack, h.out, h.nextInst, h.secure, h.ghost]
  exact h.heap

theorem PermSt.alloc {s t : State} (h : PermSt s t) {c c' : Cell} (hc : CellR c c') :
    PermSt (s.alloc c).1 (t.alloc c').1 ∧ (s.alloc c).2 = (t.alloc c').2 := by
  refine ⟨?_, by simp only [State.alloc, h.heap.size]⟩
  constructor <;> simp only [State.alloc, h.frames, h.modules, h.modstack, h.out, h.nextInst, h.secure, h.ghost]
  exact h.heap.push hc

theorem PermSt.setCell {s t : State} (h : PermSt s t) (a : Nat) {c c' : Cell} (hc : CellR c c') :
    PermSt (s.setCell a c) (t.setCell a c') := by
  constructor <;> simp only [State.setCell, h.frames, h.modules, h.modstack, h.out, h.nextInst, h.secure, h.ghost]
  exact h.heap.set a hc

theorem PermSt.write {s t : State} (h : PermSt s t) (txt : List Char) : PermSt (s.write txt) (t.write txt) := by
  constructor <;> simp only [State.write, h.frames, h.modules, h.modstack, h.out, h.nextInst, h.secure, h.ghost]
  exact h.heap

theorem PermSt.ghostEnter {s t : State} (h : PermSt s t) (p : Pos) : PermSt (ghostEnter s p) (ghostEnter t p) := by
  constructor <;> simp only [Ckl.ghostEnter, h.frames, h.modules, h.modstack, h.out, h.nextInst, h.secure, h.ghost]
  exact h.heap

theorem PermSt.ghostFin {s t : State} (h : PermSt s t) (p : Pos) : PermSt (ghostFin s p) (ghostFin t p) := by
  constructor <;> simp only [Ckl.ghostFin, h.frames, h.modules, h.modstack, h.out, h.nextInst, h.secure, h.ghost]
  exact h.heap

/-! frames-only observations -/

theorem frame_congr {s t : State} (h : s.frames = t.frames) (e : EnvId) : s.frame e = t.frame e := by
  simp only [State.frame, h]

theorem lookupF_congr {s t : State} (h : s.frames = t.frames) :
    ∀ n e x, s.lookupF n e x = t.lookupF n e x := by
  intro n
  induction n with
  | zero => intros; rfl
  | succ n ih =>
    intro e x
    simp only [State.lookupF, frame_congr h, ih]

theorem PermSt.lookup {s t : State} (h : PermSt s t) (e : EnvId) (x : String) : t.lookup e x = s.lookup e x := by
  simp only [State.lookup, ← lookupF_congr h.frames, h.frames]

theorem PermSt.isDefined {s t : State} (h : PermSt s t) (e : EnvId) (x : String) :
    t.isDefined e x = s.isDefined e x := by
  simp only [State.isDefined, h.lookup]

theorem setF_congr {s t : State} (h : PermSt s t) (v : RVal) :
    ∀ n e x, (s.setF n e x v = none ∧ t.setF n e x v = none) ∨
      (∃ s' t', s.setF n e x v = some s' ∧ t.setF n e x v = some t' ∧ PermSt s' t') := by
  intro n
  induction n with
  | zero => intros; exact Or.inl ⟨rfl, rfl⟩
  | succ n ih =>
    intro e x
    simp only [State.setF, ← frame_congr h.frames]
    split
    · exact Or.inr ⟨_, _, rfl, rfl, h.put e x v⟩
    · split
      · exact ih _ x
      · exact Or.inl ⟨rfl, rfl⟩

theorem PermSt.set {s t : State} (h : PermSt s t) (e : EnvId) (x : String) (v : RVal) :
    (s.set e x v = none ∧ t.set e x v = none) ∨
      (∃ s' t', s.set e x v = some s' ∧ t.set e x v = some t' ∧ PermSt s' t') := by
  simp only [State.set, ← h.frames]
  exact setF_congr h v _ e x

theorem baseF_congr {s t : State} (h : s.frames = t.frames) : ∀ n e, s.baseF n e = t.baseF n e := by
  intro n
  induction n with
  | zero => intros; rfl
  | succ n ih => intro e; simp only [State.baseF, frame_congr h, ih]

theorem PermSt.base {s t : State} (h : PermSt s t) (e : EnvId) : t.base e = s.base e := by
  simp only [State.base, ← baseF_congr h.frames, h.frames]

theorem PermSt.hiddenVars {s t : State} (h : PermSt s t) (e : EnvId) (ids : List String) :
    hiddenVars t e ids = hiddenVars s e ids := by
  simp only [Ckl.hiddenVars, frame_congr h.frames]

theorem PermSt.foldl_put {s t : State} (h : PermSt s t) (e : EnvId) (l : List (String × RVal)) :
    PermSt (l.foldl (fun s p => s.put e p.1 p.2) s) (l.foldl (fun s p => s.put e p.1 p.2) t) := by
  induction l generalizing s t with
  | nil => exact h
  | cons p l ih => exact ih (h.put e p.1 p.2)

theorem PermSt.restoreVars {s t : State} (h : PermSt s t) (e : EnvId) (l : List (String × RVal)) :
    PermSt (restoreVars e l s) (restoreVars e l t) := h.foldl_put e l

theorem PermSt.foldl_remove {s t : State} (h : PermSt s t) (e : EnvId) (l : List String) :
    PermSt (l.foldl (fun s x => s.remove e x) s) (l.foldl (fun s x => s.remove e x) t) := by
  induction l generalizing s t with
  | nil => exact h
  | cons p l ih => exact ih (h.remove e p)

end Ckl.C12S
