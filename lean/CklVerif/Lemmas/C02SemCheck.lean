/-
  C02 (semantic half) — `erase (toNode e) = toNode e`, the closed-form fuel bound
  `need e ≤ 5 * size e`, and Boolean checkers for the hypotheses `OpsBound` / `Div0` / `Bound` on
  concrete states (used by the non-vacuity examples, discharged with `decide +kernel`).
-/
import CklVerif.Lemmas.C02SemMain
namespace Ckl.C02S
open Ckl Ckl.C02P

/-! ### `toNode e` carries only default positions -/

theorem erase_binNode (fn : String) (a b : Node) : erase (binNode fn a b) = binNode fn (erase a) (erase b) :=
  erase_funcCallAB fn a b default

theorem erase_simplifyAnd (xs : List Node) : erase (simplifyAnd xs) = simplifyAnd (eraseL xs) := by
  match xs with
  | [] => rfl
  | [x] => rfl
  | x :: y :: r => rfl

mutual
theorem erase_toNode : (e : E) → erase (toNode e) = toNode e
  | .atom a => by cases a <;> rfl
  | .or a b more => by simp only [toNode, erase, eraseL, erase_toNode a, erase_toNode b, eraseL_toNodeL more]
  | .and a b more => by simp only [toNode, erase, eraseL, erase_toNode a, erase_toNode b, eraseL_toNodeL more]
  | .not e => by simp only [toNode, erase, erase_toNode e]
  | .cmp a op b more => by
    simp only [toNode, erase_simplifyAnd, eraseL, erase_binNode, erase_toNode a, erase_toNode b,
      eraseL_toNodeC more (toNode b) (erase_toNode b)]
  | .add op l r => by simp only [toNode, erase_binNode, erase_toNode l, erase_toNode r]
  | .mul op l r => by simp only [toNode, erase_binNode, erase_toNode l, erase_toNode r]
  | .neg e => by
    have ih := erase_toNode e
    simp only [toNode]
    unfold negNode
    split
    · rfl
    · simp only [erase, eraseL, ih]
  | .paren e => by simp only [toNode]; exact erase_toNode e
theorem eraseL_toNodeL : (es : List E) → eraseL (toNodeL es) = toNodeL es
  | [] => rfl
  | e :: es => by simp only [toNodeL, eraseL, erase_toNode e, eraseL_toNodeL es]
theorem eraseL_toNodeC : (cs : List (RelOp × E)) → ∀ lhs, erase lhs = lhs → eraseL (toNodeC lhs cs) = toNodeC lhs cs
  | [], _, _ => rfl
  | (op, e) :: cs, lhs, h => by
    simp only [toNodeC, eraseL, erase_binNode, h, erase_toNode e, eraseL_toNodeC cs (toNode e) (erase_toNode e)]
end

/-! ### the fuel bound in closed form -/

mutual
theorem need_add4_le : (e : E) → need e + 4 ≤ 5 * size e
  | .atom _ => by simp [need, size]
  | .or a b more => by
    have := need_add4_le a; have := need_add4_le b; have := needL_le more
    simp only [need, size]; omega
  | .and a b more => by
    have := need_add4_le a; have := need_add4_le b; have := needL_le more
    simp only [need, size]; omega
  | .not e => by have := need_add4_le e; simp only [need, size]; omega
  | .cmp a _ b more => by
    have := need_add4_le a; have := need_add4_le b; have := needC_le more (need b)
    simp only [need, size]; omega
  | .add _ l r => by have := need_add4_le l; have := need_add4_le r; simp only [need, size]; omega
  | .mul _ l r => by have := need_add4_le l; have := need_add4_le r; simp only [need, size]; omega
  | .neg e => by have := need_add4_le e; simp only [need, size]; omega
  | .paren e => by have := need_add4_le e; simp only [need, size]; omega
theorem needL_le : (es : List E) → needL es ≤ 5 * sizeL es + 1
  | [] => by simp [needL, sizeL]
  | e :: es => by have := need_add4_le e; have := needL_le es; simp only [needL, sizeL]; omega
theorem needC_le : (cs : List (RelOp × E)) → ∀ nl, needC nl cs ≤ nl + 5 * sizeC cs + 1
  | [], nl => by simp [needC, sizeC]
  | (_, e) :: cs, nl => by
    have := need_add4_le e; have := needC_le cs (need e); simp only [needC, sizeC]; omega
end

/-- five units of fuel per constructor of the tree suffice -/
theorem need_le_size (e : E) : need e ≤ 5 * size e := by have := need_add4_le e; omega

/-! ### Boolean checkers -/

def natNamed (fn : String) : Option RVal → Bool
  | some (.native n _) => n == fn
  | _ => false

theorem natNamed_spec {fn : String} {o : Option RVal} (h : natNamed fn o = true) :
    ∃ inst, o = some (.native fn inst) := by
  unfold natNamed at h
  split at h
  · simp at h; subst h; exact ⟨_, rfl⟩
  · cases h

def opsBoundB (s : State) (env : EnvId) : Bool := opNames.all fun fn => natNamed fn (s.lookup env fn)

theorem opsBound_of_B {s : State} {env : EnvId} (h : opsBoundB s env = true) : OpsBound s env := by
  intro fn hfn
  simp only [opsBoundB, List.all_eq_true] at h
  exact natNamed_spec (h fn hfn)

def isV : Option RVal → Option V → Bool
  | none, none => true
  | some .null, some .null => true
  | some (.bool a), some (.bool b) => a == b
  | some (.int a), some (.int b) => a == b
  | _, _ => false

theorem isV_spec {o : Option RVal} {v : Option V} (h : isV o v = true) : o = v.map V.toR := by
  unfold isV at h
  split at h <;> first | rfl | (simp at h; subst h; rfl) | cases h

theorem div0_of_B {s : State} {env : EnvId} {d0 : Option V} (h : isV (s.lookup env "DIV_0_VALUE") d0 = true) :
    Div0 s env d0 := isV_spec h

def boundB (ld : Loader) (s : State) (env : EnvId) (ρ : Valuation) (x : List Char) : Bool :=
  isV (s.lookup env (String.ofList x)) (ρ x) && ((ρ x).isSome || !ld.baseNames.contains (String.ofList x))

theorem bound_of_B {ld : Loader} {s : State} {env : EnvId} {ρ : Valuation} {x : List Char}
    (h : boundB ld s env ρ x = true) : Bound ld s env ρ x := by
  simp only [boundB, Bool.and_eq_true, Bool.or_eq_true] at h
  have h1 := isV_spec h.1
  unfold Bound
  cases hρ : ρ x with
  | some v => rw [hρ] at h1; simpa using h1
  | none =>
    rw [hρ] at h1
    have h2 := h.2
    rw [hρ] at h2
    simp at h2
    exact ⟨by simpa using h1, by simpa using h2⟩

theorem bound_all_of_B {ld : Loader} {s : State} {env : EnvId} {ρ : Valuation} {xs : List (List Char)}
    (h : xs.all (boundB ld s env ρ) = true) : ∀ x ∈ xs, Bound ld s env ρ x := by
  intro x hx
  exact bound_of_B (List.all_eq_true.1 h x hx)

end Ckl.C02S
