import CklVerif.Lemmas.C13FuelLe
import CklVerif.Lemmas.C13Eval
import CklVerif.Lemmas.E2EBase

/-!
  C13Fuel: vocabulary for fuel-independent statements.

  * generic part, for any fuel-indexed computation `F : Nat → EvalM α`: `FuelMono F`, `TerminatesF`,
    `DivergesF`, `EvalsToF`, `resultF`, uniqueness, antitonicity of "out of fuel";
  * the instances: `eval`, `interpretProg` (ASTs), `interpretSource` (source texts);
  * sessions (lists of programs on one interpreter);
  * `while TRUE do <literal> end` is out of fuel at every fuel.
-/
namespace Ckl.C13Fuel
open Ckl Ckl.E2E

/-! ### generic -/

/-- once `F` stops running out of fuel, its outcome never changes again -/
def FuelMono {α} (F : Nat → EvalM α) : Prop :=
  ∀ f f' s, f ≤ f' → ¬ (F f s).isOof → F f' s = F f s

/-- some fuel suffices -/
def TerminatesF {α} (F : Nat → EvalM α) (s : State) : Prop := ∃ f, ¬ (F f s).isOof
/-- no fuel suffices -/
def DivergesF {α} (F : Nat → EvalM α) (s : State) : Prop := ∀ f, (F f s).isOof
/-- `o` is the outcome at some fuel that suffices -/
def EvalsToF {α} (F : Nat → EvalM α) (s : State) (o : Out α) : Prop := ∃ f, F f s = o ∧ ¬ o.isOof

theorem FuelMono.fle {α} {F : Nat → EvalM α} (h : FuelMono F) {f f' : Nat} (hle : f ≤ f') : FLe (F f) (F f') := by
  constructor
  intro s
  by_cases ho : (F f s).isOof
  · exact Or.inl ho
  · exact Or.inr (h f f' s hle ho).symm

theorem FuelMono.of_fle {α} {F : Nat → EvalM α} (h : ∀ f f', f ≤ f' → FLe (F f) (F f')) : FuelMono F := by
  intro f f' s hle ho
  rcases (h f f' hle).le s with h1 | h1
  · exact absurd h1 ho
  · exact h1.symm

theorem FuelMono.bind {α β} {F : Nat → EvalM α} (h : FuelMono F) (k : α → EvalM β) :
    FuelMono (fun f => F f >>= k) :=
  FuelMono.of_fle (fun _ _ hle => FLe.bind (h.fle hle) (fun a => FLe.refl (k a)))

theorem FuelMono.unique {α} {F : Nat → EvalM α} (h : FuelMono F) {f₁ f₂ : Nat} {s : State}
    (h₁ : ¬ (F f₁ s).isOof) (h₂ : ¬ (F f₂ s).isOof) : F f₁ s = F f₂ s := by
  rcases Nat.le_total f₁ f₂ with hle | hle
  · exact (h f₁ f₂ s hle h₁).symm
  · exact h f₂ f₁ s hle h₂

theorem FuelMono.antitone {α} {F : Nat → EvalM α} (h : FuelMono F) {f f' : Nat} {s : State} (hle : f ≤ f')
    (ho : (F f' s).isOof) : (F f s).isOof := by
  by_cases h1 : (F f s).isOof
  · exact h1
  · rw [h f f' s hle h1] at ho; exact absurd ho h1

theorem FuelMono.evalsTo_unique {α} {F : Nat → EvalM α} (h : FuelMono F) {s : State} {o₁ o₂ : Out α}
    (h₁ : EvalsToF F s o₁) (h₂ : EvalsToF F s o₂) : o₁ = o₂ := by
  obtain ⟨f₁, rfl, n₁⟩ := h₁
  obtain ⟨f₂, rfl, n₂⟩ := h₂
  exact h.unique n₁ n₂

theorem terminatesF_iff_evalsToF {α} {F : Nat → EvalM α} {s : State} : TerminatesF F s ↔ ∃ o, EvalsToF F s o :=
  ⟨fun ⟨f, hf⟩ => ⟨F f s, f, rfl, hf⟩, fun ⟨_, f, ho, hn⟩ => ⟨f, by rw [ho]; exact hn⟩⟩

theorem divergesF_iff_not_terminatesF {α} {F : Nat → EvalM α} {s : State} : DivergesF F s ↔ ¬ TerminatesF F s :=
  ⟨fun h ⟨f, hf⟩ => hf (h f), fun h f => Decidable.by_contra (fun hf => h ⟨f, hf⟩)⟩

theorem terminatesF_or_divergesF {α} (F : Nat → EvalM α) (s : State) : DivergesF F s ∨ TerminatesF F s := by
  by_cases h : TerminatesF F s
  · exact Or.inr h
  · exact Or.inl (divergesF_iff_not_terminatesF.2 h)

/-- the fuel-independent outcome of a terminating computation -/
noncomputable def resultF {α} (F : Nat → EvalM α) (s : State) (h : TerminatesF F s) : Out α :=
  F (Classical.choose h) s

theorem resultF_evalsTo {α} (F : Nat → EvalM α) (s : State) (h : TerminatesF F s) : EvalsToF F s (resultF F s h) :=
  ⟨Classical.choose h, rfl, Classical.choose_spec h⟩

theorem resultF_eq {α} {F : Nat → EvalM α} (hF : FuelMono F) {s : State} (h : TerminatesF F s) {f : Nat}
    (hf : ¬ (F f s).isOof) : resultF F s h = F f s :=
  hF.unique (Classical.choose_spec h) hf

/-! ### the instances -/

theorem eval_fuelMono (ld : Loader) (env : EnvId) (n : Node) : FuelMono (fun f => eval ld f env n) :=
  fun _ _ s hle ho => (fuelStable_of_le ld hle).eval env n s ho

theorem interpretProg_fuelMono (ld : Loader) (senv : EnvId) (ast : Node) :
    FuelMono (fun f => interpretProg ld f senv ast) :=
  (eval_fuelMono ld senv ast).bind _

theorem interpretSource_fuelMono (ld : Loader) (senv : EnvId) (src : List Char) (file : String) :
    FuelMono (fun f => interpretSource ld f senv src file) := by
  intro f f' s hle ho
  dsimp only at ho ⊢
  cases hp : parseScript src file with
  | ok ast =>
    rw [interpretSource_ok hp] at ho ⊢
    rw [interpretSource_ok hp]
    exact interpretProg_fuelMono ld senv ast f f' s hle ho
  | error e => rw [interpretSource_error hp, interpretSource_error hp]

/-! ### sessions -/

/-- the state an outcome ends in -/
def outState {α} : Out α → State
  | .ok _ s => s
  | .err _ _ _ _ s => s
  | .fail _ s => s

/-- a session of parsed programs: interpreted one after the other on the same interpreter, each starting in the
    state the previous one ended in (whatever its outcome) -/
def sessionOuts (ld : Loader) (fuel : Nat) (senv : EnvId) : List Node → State → List (Out RVal)
  | [], _ => []
  | p :: ps, s => interpretProg ld fuel senv p s :: sessionOuts ld fuel senv ps (outState (interpretProg ld fuel senv p s))

/-- a session of source texts (`Interpreter.interpret(text, file)` called repeatedly) -/
def sessionSrcOuts (ld : Loader) (fuel : Nat) (senv : EnvId) (file : String) : List (List Char) → State → List (Out RVal)
  | [], _ => []
  | t :: ts, s =>
    interpretSource ld fuel senv t file s :: sessionSrcOuts ld fuel senv file ts (outState (interpretSource ld fuel senv t file s))

theorem nextState_some_not_oof {o : Out RVal} {s' : State} (h : nextState o = some s') : ¬ o.isOof := by
  cases o with
  | ok => exact fun h => h
  | err => exact fun h => h
  | fail f s => cases f <;> first | (cases h; done) | exact fun h => h

/-! ### a loop that never ends -/

theorem eval_lit_bool (ld : Loader) (f : Nat) (env : EnvId) (b : Bool) (p : Pos) (s : State) :
    eval ld (f + 1) env (.lit (.bool b) p) s = .ok (.bool b) s := by rw [eval]; rfl

theorem eval_lit_int (ld : Loader) (f : Nat) (env : EnvId) (k : Int) (p : Pos) (s : State) :
    eval ld (f + 1) env (.lit (.int k) p) s = .ok (.int k) s := by rw [eval]; rfl

theorem eval_zero (ld : Loader) (env : EnvId) (n : Node) (s : State) : eval ld 0 env n s = .fail .oof s := by
  rw [eval]; rfl

/-- the loop `while TRUE do k end` proper is out of fuel at every fuel, in every state -/
theorem whileLoop_true_oof (ld : Loader) (env : EnvId) (p₁ p₂ pos : Pos) (k : Int) :
    ∀ f s, (whileLoop ld f env (.lit (.bool true) p₁) (.lit (.int k) p₂) pos s).isOof
  | 0, s => by rw [whileLoop]; trivial
  | 1, s => by rw [whileLoop, EvalM.bind_apply, eval_zero]; trivial
  | f + 2, s => by
    have ih := whileLoop_true_oof ld env p₁ p₂ pos k (f + 1) s
    rw [whileLoop, EvalM.bind_apply, eval_lit_int]
    simp only [RVal.isBreak, RVal.isReturn, RVal.isContinue, Bool.false_eq_true, ↓reduceIte]
    rw [EvalM.bind_apply, eval_lit_bool]
    simpa using ih

theorem while_true_oof (ld : Loader) (env : EnvId) (p₁ p₂ pos : Pos) (k : Int) :
    ∀ f s, (eval ld f env (.while (.lit (.bool true) p₁) (.lit (.int k) p₂) pos) s).isOof
  | 0, s => by rw [eval]; trivial
  | 1, s => by rw [eval, EvalM.bind_apply, eval_zero]; trivial
  | f + 2, s => by
    rw [eval, EvalM.bind_apply, eval_lit_bool]
    simpa using whileLoop_true_oof ld env p₁ p₂ pos k (f + 1) s

/-! ### the fuel-independent vocabulary for `eval`, `interpretProg`, `interpretSource` -/

/-- the evaluation of node `n` in frame `env` from state `s` terminates in the model: some fuel suffices -/
def Terminates (ld : Loader) (env : EnvId) (n : Node) (s : State) : Prop := ∃ f, ¬ (eval ld f env n s).isOof
/-- … does not terminate in the model: out of fuel at every fuel -/
def Diverges (ld : Loader) (env : EnvId) (n : Node) (s : State) : Prop := ∀ f, (eval ld f env n s).isOof
/-- `o` is the outcome of the evaluation (at some, hence every, sufficient fuel) -/
def EvalsTo (ld : Loader) (env : EnvId) (n : Node) (s : State) (o : Out RVal) : Prop :=
  ∃ f, eval ld f env n s = o ∧ ¬ o.isOof
/-- the fuel-independent outcome of a terminating evaluation -/
noncomputable def result (ld : Loader) (env : EnvId) (n : Node) (s : State) (h : Terminates ld env n s) : Out RVal :=
  eval ld (Classical.choose h) env n s

/-- the statements of a block (`evalBody`) have the outcome `o` -/
def BodyEvalsTo (ld : Loader) (env : EnvId) (es : List Node) (last : RVal) (s : State) (o : Out RVal) : Prop :=
  ∃ f, evalBody ld f env es last s = o ∧ ¬ o.isOof
/-- the `finally` statements (`evalFinally`) have the outcome `o` -/
def FinallyEvalsTo (ld : Loader) (env : EnvId) (fin : List Node) (s : State) (o : Out Unit) : Prop :=
  ∃ f, evalFinally ld f env fin s = o ∧ ¬ o.isOof

/-- the same for `Interpreter.interpret` on a parsed program -/
def ProgTerminates (ld : Loader) (senv : EnvId) (ast : Node) (s : State) : Prop :=
  ∃ f, ¬ (interpretProg ld f senv ast s).isOof
def ProgDiverges (ld : Loader) (senv : EnvId) (ast : Node) (s : State) : Prop :=
  ∀ f, (interpretProg ld f senv ast s).isOof
def ProgEvalsTo (ld : Loader) (senv : EnvId) (ast : Node) (s : State) (o : Out RVal) : Prop :=
  ∃ f, interpretProg ld f senv ast s = o ∧ ¬ o.isOof

/-- the same for `Interpreter.interpret` on a source text -/
def SrcTerminates (ld : Loader) (senv : EnvId) (src : List Char) (file : String) (s : State) : Prop :=
  ∃ f, ¬ (interpretSource ld f senv src file s).isOof
def SrcDiverges (ld : Loader) (senv : EnvId) (src : List Char) (file : String) (s : State) : Prop :=
  ∀ f, (interpretSource ld f senv src file s).isOof
def SrcEvalsTo (ld : Loader) (senv : EnvId) (src : List Char) (file : String) (s : State) (o : Out RVal) : Prop :=
  ∃ f, interpretSource ld f senv src file s = o ∧ ¬ o.isOof

/-- the outcome is one the LANGUAGE knows (a value, its runtime error carrying an error value, a syntax error)
    or the model's abstention `unsupported` — not "out of fuel", not a host failure -/
def Out.Proper {α} : Out α → Prop
  | .ok _ _ => True
  | .err _ _ _ _ _ => True
  | .fail (.syn _) _ => True
  | .fail (.unsupported _) _ => True
  | .fail .oof _ => False
  | .fail (.host _) _ => False

theorem Out.Proper.cases {α} {o : Out α} (h : Out.Proper o) :
    (∃ v s', o = .ok v s') ∨ (∃ v m p t s', o = .err v m p t s') ∨ (∃ e s', o = .fail (.syn e) s') ∨
    (∃ w s', o = .fail (.unsupported w) s') := by
  cases o with
  | ok v s' => exact Or.inl ⟨v, s', rfl⟩
  | err v m p t s' => exact Or.inr (Or.inl ⟨v, m, p, t, s', rfl⟩)
  | fail f s' =>
    cases f with
    | oof => exact h.elim
    | host k => exact h.elim
    | syn e => exact Or.inr (Or.inr (Or.inl ⟨e, s', rfl⟩))
    | unsupported w => exact Or.inr (Or.inr (Or.inr ⟨w, s', rfl⟩))

theorem Out.proper_of {α} {o : Out α} (h₁ : ¬ o.isOof) (h₂ : o.NH) : Out.Proper o := by
  cases o with
  | ok => trivial
  | err => trivial
  | fail f s' =>
    cases f with
    | oof => exact h₁ trivial
    | host k => exact h₂ k s' rfl
    | syn e => trivial
    | unsupported w => trivial

/-- `interpretProg` never ends in a host failure (from the C13 induction `nhAll`) -/
theorem interpretProg_NH (ld : Loader) (fuel : Nat) (senv : EnvId) (ast : Node) (s : State) :
    (interpretProg ld fuel senv ast s).NH := by
  have h : NoHost (interpretProg ld fuel senv ast) := by
    unfold interpretProg
    have := (nhAll ld fuel).eval
    nohost!
  exact h.nh s

theorem interpretSource_NH (ld : Loader) (fuel : Nat) (senv : EnvId) (src : List Char) (file : String) (s : State) :
    (interpretSource ld fuel senv src file s).NH := by
  cases hp : parseScript src file with
  | ok ast => rw [interpretSource_ok hp]; exact interpretProg_NH ld fuel senv ast s
  | error e => rw [interpretSource_error hp]; exact Out.NH_syn e s

/-- the natives of the loader never answer "out of fuel" themselves (then `.oof` only ever comes from fuel 0) -/
def NativeNoOof (ld : Loader) : Prop := ∀ name bound s, ¬ (ld.nativeSem name bound s).isOof

/-- a printable digest of an outcome (kind, value, message, printed text), for `#guard` -/
def digest (o : Out RVal) : String :=
  match o with
  | .ok v s => "ok " ++ toString (repr v) ++ " = " ++ String.ofList ((rrender s v).getD ['?']) ++ " out=" ++ String.ofList s.out
  | .err v m p _ s => "err " ++ toString (repr v) ++ " " ++ m ++ " @" ++ toString p.line ++ " out=" ++ String.ofList s.out
  | .fail f s => "fail " ++ toString (repr f) ++ " out=" ++ String.ofList s.out

end Ckl.C13Fuel
