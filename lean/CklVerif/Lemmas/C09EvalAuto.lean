/-
  C09 (evaluator level): proof automation for `PresA` goals (`pa_auto`) and for the cleanliness
  side conditions (`cl_side`), plus the list lemmas the side conditions need.
-/
import CklVerif.Lemmas.C09EvalLogic
namespace Ckl.C09E
open Ckl

variable {E : List String} {b : Bool}

/-! ### chain lemmas: cleanliness of list / map / set operations -/



theorem cl_ite {α} [Cl α] {c : Prop} [Decidable c] {x y : α} (hx : Cl.cl E x) (hy : Cl.cl E y) :
    Cl.cl E (if c then x else y) := by split <;> assumption

theorem of_ite_none {α} {c : Prop} [Decidable c] {e : Option α} {x : α}
    (h : (if c then none else e) = some x) : e = some x := by
  split at h
  · cases h
  · exact h


theorem cl_map {α β} [Cl α] [Cl β] {f : α → β} {l : List α}
    (hf : ∀ x, x ∈ l → Cl.cl E (f x)) : Cl.cl E (l.map f) := by
  rw [cl_list_iff]; intro y hy
  obtain ⟨x, hx, rfl⟩ := List.mem_map.mp hy
  exact hf x hx

theorem cl_getD {α} [Cl α] {l : List α} (i : Nat) {d : α} (hl : Cl.cl E l) (hd : Cl.cl E d) :
    Cl.cl E (l.getD i d) := by
  rw [List.getD_eq_getElem?_getD]
  cases h : l[i]? with
  | none => exact hd
  | some x => exact cl_of_mem (List.mem_of_getElem? h) hl

theorem cl_option_getD {α} [Cl α] {o : Option α} {d : α} (ho : Cl.cl E o) (hd : Cl.cl E d) :
    Cl.cl E (o.getD d) := by
  cases o with
  | none => exact hd
  | some x => exact cl_of_some rfl ho

theorem cl_of_getElem? {α} [Cl α] {l : List α} {i : Nat} {x : α} (h : l[i]? = some x)
    (hl : Cl.cl E l) : Cl.cl E x := cl_of_mem (List.mem_of_getElem? h) hl

theorem cl_filter {α} [Cl α] (p : α → Bool) {l : List α} (hl : Cl.cl E l) : Cl.cl E (l.filter p) :=
  cl_of_subset (fun _ hx => (List.mem_filter.mp hx).1) hl

theorem cl_reverse {α} [Cl α] {l : List α} (hl : Cl.cl E l) : Cl.cl E l.reverse :=
  cl_of_subset (fun _ hx => List.mem_reverse.mp hx) hl

theorem cl_replicate {α} [Cl α] (n : Nat) {x : α} (hx : Cl.cl E x) : Cl.cl E (List.replicate n x) := by
  rw [cl_list_iff]; intro y hy; rw [(List.mem_replicate.mp hy).2]; exact hx

theorem cl_flatten {α} [Cl α] {L : List (List α)} (h : Cl.cl E L) : Cl.cl E L.flatten := by
  rw [cl_list_iff]; intro y hy
  obtain ⟨l, hl, hyl⟩ := List.mem_flatten.mp hy
  exact cl_of_mem hyl (cl_of_mem hl h)

theorem cl_set {α} [Cl α] {l : List α} (i : Nat) {x : α} (hl : Cl.cl E l) (hx : Cl.cl E x) :
    Cl.cl E (l.set i x) := by
  rw [cl_list_iff]; intro y hy
  rcases List.mem_or_eq_of_mem_set hy with h | rfl
  · exact cl_of_mem h hl
  · exact hx

theorem cl_take {α} [Cl α] (n : Nat) {l : List α} (hl : Cl.cl E l) : Cl.cl E (l.take n) :=
  cl_of_subset (fun _ hx => List.mem_of_mem_take hx) hl
theorem cl_drop {α} [Cl α] (n : Nat) {l : List α} (hl : Cl.cl E l) : Cl.cl E (l.drop n) :=
  cl_of_subset (fun _ hx => List.mem_of_mem_drop hx) hl
theorem cl_eraseIdx {α} [Cl α] (n : Nat) {l : List α} (hl : Cl.cl E l) : Cl.cl E (l.eraseIdx n) :=
  cl_of_subset (fun _ hx => List.mem_of_mem_eraseIdx hx) hl

theorem cl_pySlice {α} [Cl α] (a c : Int) {l : List α} (hl : Cl.cl E l) : Cl.cl E (Seq.pySlice l a c) :=
  cl_take _ (cl_drop _ hl)

theorem cl_slice {α} [Cl α] (a : Int) (c : Option Int) {l : List α} (hl : Cl.cl E l) :
    Cl.cl E (Seq.slice l a c) := cl_pySlice _ _ hl

theorem cl_substr {α} [Cl α] (a : Int) (c : Option Int) {l : List α} (hl : Cl.cl E l) :
    Cl.cl E (Seq.substr l a c) := by
  unfold Seq.substr
  dsimp only
  exact cl_ite cl_nil' (cl_pySlice _ _ hl)

theorem cl_of_deref {α} [Cl α] {l : List α} {i : Int} {x : α} (h : Seq.deref l i = some x)
    (hl : Cl.cl E l) : Cl.cl E x := by
  unfold Seq.deref at h
  dsimp only at h
  exact cl_of_getElem? (of_ite_none h) hl

theorem cl_insertAt {α} [Cl α] (i : Int) {x : α} {l : List α} (hl : Cl.cl E l) (hx : Cl.cl E x) :
    Cl.cl E (Seq.insertAt l i x) := by
  have h2 : ∀ n, Cl.cl E (l.take n ++ x :: l.drop n) := fun n => by
    rw [cl_append, cl_cons]; exact ⟨cl_take _ hl, hx, cl_drop _ hl⟩
  unfold Seq.insertAt
  dsimp only
  exact cl_ite (cl_ite hl (h2 _)) (cl_ite hl (h2 _))

theorem cl_deleteAt {α} [Cl α] (i : Int) {l : List α} (hl : Cl.cl E l) :
    Cl.cl E (Seq.deleteAt l i) := by
  unfold Seq.deleteAt
  dsimp only
  refine cl_ite ⟨cl_none', hl⟩ ⟨(cl_option_iff _).mpr fun x hx => cl_of_getElem? hx hl, cl_eraseIdx _ hl⟩

theorem cl_zip {α β} [Cl α] [Cl β] {l : List α} {l' : List β} (h : Cl.cl E l) (h' : Cl.cl E l') :
    Cl.cl E (l.zip l') := by
  rw [cl_list_iff]; rintro ⟨x, y⟩ hp
  have := List.of_mem_zip hp
  exact ⟨cl_of_mem this.1 h, cl_of_mem this.2 h'⟩

theorem cl_some' {α} [Cl α] {x : α} (h : Cl.cl E x) : Cl.cl E (some x) := (cl_some x).mpr h
theorem cl_pair' {α β} [Cl α] [Cl β] {x : α} {y : β} (h : Cl.cl E x) (h' : Cl.cl E y) : Cl.cl E (x, y) := ⟨h, h'⟩
theorem cl_cons' {α} [Cl α] {x : α} {xs : List α} (h : Cl.cl E x) (h' : Cl.cl E xs) : Cl.cl E (x :: xs) :=
  (cl_cons x xs).mpr ⟨h, h'⟩
theorem cl_append' {α} [Cl α] {xs ys : List α} (h : Cl.cl E xs) (h' : Cl.cl E ys) : Cl.cl E (xs ++ ys) :=
  (cl_append xs ys).mpr ⟨h, h'⟩

theorem Inv.cl_div0 {s : State} (h : Inv E b s) (env : EnvId) : Cl.cl E (div0Value s env) := by
  unfold div0Value
  split
  · rename_i v hv; exact (cl_some v).mpr (h.lookup hv)
  · exact cl_none'

theorem Inv.lookup_set {s s' : State} {e e' : EnvId} {x x' : String} {v p : RVal}
    (hs : s.set e x v = some s') (hl : s'.lookup e' x' = some p) (h : Inv E b s) (hv : Cl.cl E v) :
    Cl.cl E p := (h.set hs hv).lookup hl

theorem cl_of_findOwnerF {s : State} (h : Inv E b s) :
    ∀ (fuel : Nat) (v : RVal) (key : String) (seen : List Nat) (kvs : List (String × RVal)),
      findOwnerF s fuel v key seen = some kvs → Cl.cl E kvs := by
  intro fuel
  induction fuel with
  | zero => intro v key seen kvs hk; simp [findOwnerF] at hk
  | succ n ih =>
    intro v key seen kvs hk
    cases v
    case ref a =>
      simp only [findOwnerF] at hk
      split at hk
      · cases hk
      · split at hk
        · rename_i kvs' m hc
          split at hk
          · cases hk; exact h.cell_obj hc
          · split at hk
            · exact ih _ _ _ _ hk
            · cases hk
        · cases hk
    all_goals simp [findOwnerF] at hk

theorem cl_of_findOwner {s : State} {v : RVal} {key : String} {kvs : List (String × RVal)}
    (hk : findOwner s v key = some kvs) (h : Inv E b s) : Cl.cl E kvs :=
  cl_of_findOwnerF h _ _ _ _ _ hk

theorem cl_get! {o : Option Cell} (h : Cl.cl E o) : Cl.cl E o.get! := by
  cases o with
  | none => exact (cl_nil' : Cl.cl E ([] : List RVal))
  | some c => exact cl_of_some rfl h

/-- a fold that keeps an accumulator clean -/
theorem cl_foldl {α γ} [Cl α] {f : α → γ → α} {l : List γ} (hf : ∀ acc x, x ∈ l → Cl.cl E acc → Cl.cl E (f acc x))
    {a : α} (ha : Cl.cl E a) : Cl.cl E (l.foldl f a) := by
  induction l generalizing a with
  | nil => exact ha
  | cons x xs ih =>
    exact ih (fun acc y hy => hf acc y (List.mem_cons_of_mem _ hy)) (hf a x List.mem_cons_self ha)

/-! maps and sets -/

theorem cl_of_mapGet {s : State} {k : RVal} {kvs : List (RVal × RVal)} {v : RVal}
    (h : mapGet s k kvs = some v) (hk : Cl.cl E kvs) : Cl.cl E v := by
  induction kvs with
  | nil => cases h
  | cons p rest ih =>
    obtain ⟨k', v'⟩ := p
    simp only [mapGet] at h
    rw [cl_cons] at hk
    split at h
    · cases h; exact hk.1.2
    · exact ih h hk.2

theorem cl_mapPut (s : State) {k v : RVal} {kvs : List (RVal × RVal)}
    (hk : Cl.cl E kvs) (h1 : Cl.cl E k) (h2 : Cl.cl E v) : Cl.cl E (mapPut s k v kvs) := by
  induction kvs with
  | nil => simp only [mapPut, cl_cons, cl_nil, and_true]; exact ⟨h1, h2⟩
  | cons p rest ih =>
    obtain ⟨k', v'⟩ := p
    rw [cl_cons] at hk
    simp only [mapPut]
    split
    · rw [cl_cons]; exact ⟨⟨hk.1.1, h2⟩, hk.2⟩
    · rw [cl_cons]; exact ⟨hk.1, ih hk.2⟩

theorem cl_mapDel (s : State) (k : RVal) {kvs : List (RVal × RVal)}
    (hk : Cl.cl E kvs) : Cl.cl E (mapDel s k kvs) := by
  induction kvs with
  | nil => exact hk
  | cons p rest ih =>
    obtain ⟨k', v'⟩ := p
    rw [cl_cons] at hk
    simp only [mapDel]
    split
    · exact hk.2
    · rw [cl_cons]; exact ⟨hk.1, ih hk.2⟩

theorem cl_setAdd (s : State) {x : RVal} {xs : List RVal} (hx : Cl.cl E x) (h : Cl.cl E xs) :
    Cl.cl E (setAdd s x xs) := by
  unfold setAdd; split
  · exact h
  · rw [cl_append, cl_cons]; exact ⟨h, hx, cl_nil.mpr trivial⟩

theorem cl_foldl_setAdd (s : State) {items acc : List RVal} (hi : Cl.cl E items) (ha : Cl.cl E acc) :
    Cl.cl E (items.foldl (fun acc x => setAdd s x acc) acc) :=
  cl_foldl (fun _ _ hx hacc => cl_setAdd s (cl_of_mem hx hi) hacc) ha

theorem cl_foldl_mapPut (s : State) {kvs acc : List (RVal × RVal)} (hi : Cl.cl E kvs)
    (ha : Cl.cl E acc) : Cl.cl E (kvs.foldl (fun acc kv => mapPut s kv.1 kv.2 acc) acc) :=
  cl_foldl (fun _ _ hx hacc => cl_mapPut s hacc (cl_of_mem hx hi).1 (cl_of_mem hx hi).2) ha

theorem cl_foldl_dictPut {kvs acc : List (String × RVal)} (hi : Cl.cl E kvs)
    (ha : Cl.cl E acc) : Cl.cl E (kvs.foldl (fun acc kv => dictPut kv.1 kv.2 acc) acc) :=
  cl_foldl (fun _ _ hx hacc => cl_dictPut _ hacc (cl_of_mem hx hi).2) ha

/-! sorting by reified keys returns a permutation -/

theorem mapM_keyed {α} {key : α → Option Val} {xs : List α} {keyed : List (Val × α)}
    (h : xs.mapM (fun x => do let v ← key x; pure (v, x)) = some keyed) : keyed.map (·.2) = xs := by
  induction xs generalizing keyed with
  | nil => simp at h; subst h; rfl
  | cons x xs ih =>
    rw [List.mapM_cons] at h
    cases hk : key x with
    | none => rw [hk] at h; cases h
    | some v =>
      rw [hk] at h
      cases hr : xs.mapM (fun x => do let v ← key x; pure (v, x)) with
      | none => rw [hr] at h; cases h
      | some rest =>
        rw [hr] at h
        cases h
        simp [ih hr]

theorem mem_of_sortKeyed {α} {key : α → Option Val} {xs ys : List α} (h : sortKeyed key xs = some ys) :
    ∀ y ∈ ys, y ∈ xs := by
  unfold sortKeyed at h
  cases hk : xs.mapM (fun x => do let v ← key x; pure (v, x)) with
  | none => rw [hk] at h; cases h
  | some keyed =>
    rw [hk] at h
    cases h
    intro y hy
    obtain ⟨p, hp, rfl⟩ := List.mem_map.mp hy
    have hp' : p ∈ keyed := (sortBy_perm' _ keyed).mem_iff.mp hp
    rw [← mapM_keyed hk]
    exact List.mem_map.mpr ⟨p, hp', rfl⟩

theorem cl_of_sortedR {s : State} {xs ys : List RVal} (h : sortedR s xs = some ys)
    (hx : Cl.cl E xs) : Cl.cl E ys := cl_of_subset (mem_of_sortKeyed h) hx

theorem cl_of_sortedEntriesR {s : State} {xs ys : List (RVal × RVal)}
    (h : sortedEntriesR s xs = some ys) (hx : Cl.cl E xs) : Cl.cl E ys :=
  cl_of_subset (mem_of_sortKeyed h) hx

/-! arrays -/

theorem cl_array_getD {a : Array RVal} (i : Nat) {d : RVal} (ha : Cl.cl E a) (hd : Cl.cl E d) :
    Cl.cl E (a.getD i d) := by
  rw [Array.getD_eq_getD_getElem?]
  cases h : a[i]? with
  | none => exact hd
  | some x =>
    refine cl_of_mem ?_ ((cl_array_iff a).mp ha)
    rw [Array.mem_toList_iff]
    exact Array.mem_of_getElem? h

theorem cl_array_set {a : Array RVal} (i : Nat) {x : RVal} (ha : Cl.cl E a) (hx : Cl.cl E x) :
    Cl.cl E (a.setIfInBounds i x) := by
  rw [cl_array_iff, Array.toList_setIfInBounds]
  exact cl_set i ((cl_array_iff a).mp ha) hx

/-! ### the side-condition tactic -/

/-- backward chaining for cleanliness goals: structural lemmas are applied by the shape of the
    goal, "forward" lemmas only when their first premise is a hypothesis.  Extensible. -/
syntax "cl_chain" : tactic

open Lean Elab Tactic Meta in
/-- succeeds iff the goal is `Cl.cl E (a, b)` syntactically -/
elab "guard_pair" : tactic => withMainContext do
  let t ← instantiateMVars (← (← getMainGoal).getType)
  unless t.appArg!.isAppOf ``Prod.mk do
    throwError "guard_pair: not a pair"

open Lean Elab Tactic Meta in
/-- succeeds iff the goal is `Cl.cl E (p.1)` / `Cl.cl E (p.2)` syntactically -/
elab "guard_proj" : tactic => withMainContext do
  let t ← instantiateMVars (← (← getMainGoal).getType)
  let arg := t.appArg!
  unless arg.isAppOf ``Prod.fst || arg.isAppOf ``Prod.snd || arg.isProj do
    throwError "guard_proj: not a projection"

macro_rules | `(tactic| cl_chain) => `(tactic| (guard_proj; (with_reducible apply cl_fst); cl_chain))
macro_rules | `(tactic| cl_chain) => `(tactic| (guard_proj; (with_reducible apply cl_snd); cl_chain))
macro_rules | `(tactic| cl_chain) => `(tactic| ((with_reducible apply cl_get!) <;> cl_chain))
macro_rules | `(tactic| cl_chain) => `(tactic| ((with_reducible apply Inv.cl_div0) <;> cl_chain))
macro_rules | `(tactic| cl_chain) => `(tactic| ((with_reducible apply cl_some') <;> cl_chain))
macro_rules | `(tactic| cl_chain) => `(tactic| (guard_pair; (with_reducible apply cl_pair') <;> cl_chain))
macro_rules | `(tactic| cl_chain) => `(tactic| ((with_reducible apply cl_cons') <;> cl_chain))
macro_rules | `(tactic| cl_chain) => `(tactic| ((with_reducible apply cl_append') <;> cl_chain))
macro_rules | `(tactic| cl_chain) => `(tactic| ((with_reducible apply cl_dictGet) <;> cl_chain))
macro_rules | `(tactic| cl_chain) => `(tactic| ((with_reducible apply cl_dictPut) <;> cl_chain))
macro_rules | `(tactic| cl_chain) => `(tactic| ((with_reducible apply cl_dictDel) <;> cl_chain))
macro_rules | `(tactic| cl_chain) => `(tactic| ((with_reducible apply Inv.cl_cell) <;> cl_chain))
macro_rules | `(tactic| cl_chain) => `(tactic| ((with_reducible apply Inv.cl_lookup) <;> cl_chain))
macro_rules | `(tactic| cl_chain) => `(tactic| ((with_reducible apply Inv.lookup_getD) <;> cl_chain))
macro_rules | `(tactic| cl_chain) => `(tactic| ((with_reducible apply cl_ite) <;> cl_chain))
macro_rules | `(tactic| cl_chain) => `(tactic| ((with_reducible apply cl_getD) <;> cl_chain))
macro_rules | `(tactic| cl_chain) => `(tactic| ((with_reducible apply cl_option_getD) <;> cl_chain))
macro_rules | `(tactic| cl_chain) => `(tactic| ((with_reducible apply cl_filter) <;> cl_chain))
macro_rules | `(tactic| cl_chain) => `(tactic| ((with_reducible apply cl_reverse) <;> cl_chain))
macro_rules | `(tactic| cl_chain) => `(tactic| ((with_reducible apply cl_replicate) <;> cl_chain))
macro_rules | `(tactic| cl_chain) => `(tactic| ((with_reducible apply cl_flatten) <;> cl_chain))
macro_rules | `(tactic| cl_chain) => `(tactic| ((with_reducible apply cl_set) <;> cl_chain))
macro_rules | `(tactic| cl_chain) => `(tactic| ((with_reducible apply cl_take) <;> cl_chain))
macro_rules | `(tactic| cl_chain) => `(tactic| ((with_reducible apply cl_drop) <;> cl_chain))
macro_rules | `(tactic| cl_chain) => `(tactic| ((with_reducible apply cl_eraseIdx) <;> cl_chain))
macro_rules | `(tactic| cl_chain) => `(tactic| ((with_reducible apply cl_pySlice) <;> cl_chain))
macro_rules | `(tactic| cl_chain) => `(tactic| ((with_reducible apply cl_slice) <;> cl_chain))
macro_rules | `(tactic| cl_chain) => `(tactic| ((with_reducible apply cl_substr) <;> cl_chain))
macro_rules | `(tactic| cl_chain) => `(tactic| ((with_reducible apply cl_insertAt) <;> cl_chain))
macro_rules | `(tactic| cl_chain) => `(tactic| ((with_reducible apply cl_deleteAt) <;> cl_chain))
macro_rules | `(tactic| cl_chain) => `(tactic| ((with_reducible apply cl_zip) <;> cl_chain))
macro_rules | `(tactic| cl_chain) => `(tactic| ((with_reducible apply cl_mapPut) <;> cl_chain))
macro_rules | `(tactic| cl_chain) => `(tactic| ((with_reducible apply cl_mapDel) <;> cl_chain))
macro_rules | `(tactic| cl_chain) => `(tactic| ((with_reducible apply cl_setAdd) <;> cl_chain))
macro_rules | `(tactic| cl_chain) => `(tactic| ((with_reducible apply cl_foldl_setAdd) <;> cl_chain))
macro_rules | `(tactic| cl_chain) => `(tactic| ((with_reducible apply cl_foldl_mapPut) <;> cl_chain))
macro_rules | `(tactic| cl_chain) => `(tactic| ((with_reducible apply cl_foldl_dictPut) <;> cl_chain))
macro_rules | `(tactic| cl_chain) => `(tactic| ((with_reducible apply cl_array_getD) <;> cl_chain))
macro_rules | `(tactic| cl_chain) => `(tactic| ((with_reducible apply cl_array_set) <;> cl_chain))
macro_rules | `(tactic| cl_chain) => `(tactic| ((with_reducible apply cl_map); intro _ _; cl_chain))
macro_rules | `(tactic| cl_chain) => `(tactic| (refine Inv.lookup (by assumption) (by assumption)))
macro_rules | `(tactic| cl_chain) => `(tactic| ((with_reducible refine cl_of_mem (by assumption) ?_); cl_chain))
macro_rules | `(tactic| cl_chain) => `(tactic| ((with_reducible refine cl_of_some (by assumption) ?_); cl_chain))
macro_rules | `(tactic| cl_chain) => `(tactic| ((with_reducible refine cl_of_dictGet (by assumption) ?_); cl_chain))
macro_rules | `(tactic| cl_chain) => `(tactic| ((with_reducible refine Inv.cell (by assumption) ?_); cl_chain))
macro_rules | `(tactic| cl_chain) => `(tactic| (with_reducible exact Inv.cell_list (by assumption) (by assumption)))
macro_rules | `(tactic| cl_chain) => `(tactic| (with_reducible exact Inv.cell_set (by assumption) (by assumption)))
macro_rules | `(tactic| cl_chain) => `(tactic| (with_reducible exact Inv.cell_map (by assumption) (by assumption)))
macro_rules | `(tactic| cl_chain) => `(tactic| (with_reducible exact Inv.cell_obj (by assumption) (by assumption)))
macro_rules | `(tactic| cl_chain) => `(tactic| ((with_reducible refine cl_of_getElem? (by assumption) ?_); cl_chain))
macro_rules | `(tactic| cl_chain) => `(tactic| (with_reducible exact cl_of_findOwner (by assumption) (by assumption)))
macro_rules | `(tactic| cl_chain) => `(tactic| ((with_reducible refine Inv.lookup_set (by assumption) (by assumption) (by assumption) ?_); cl_chain))
macro_rules | `(tactic| cl_chain) => `(tactic| ((with_reducible refine cl_of_deref (by assumption) ?_); cl_chain))
macro_rules | `(tactic| cl_chain) => `(tactic| ((with_reducible refine cl_of_mapGet (by assumption) ?_); cl_chain))
macro_rules | `(tactic| cl_chain) => `(tactic| ((with_reducible refine cl_of_sortedR (by assumption) ?_); cl_chain))
macro_rules | `(tactic| cl_chain) => `(tactic| ((with_reducible refine cl_of_sortedEntriesR (by assumption) ?_); cl_chain))
macro_rules | `(tactic| cl_chain) => `(tactic| ((with_reducible refine And.intro ?_ ?_) <;> cl_chain))
macro_rules | `(tactic| cl_chain) => `(tactic| exact (cl_strings _).mpr trivial)
macro_rules | `(tactic| cl_chain) => `(tactic| exact (cl_chars _).mpr trivial)
macro_rules | `(tactic| cl_chain) => `(tactic| exact (cl_optStrings _).mpr trivial)
macro_rules | `(tactic| cl_chain) => `(tactic| exact cl_nil')
macro_rules | `(tactic| cl_chain) => `(tactic| exact cl_none')
macro_rules | `(tactic| cl_chain) => `(tactic| trivial)
macro_rules | `(tactic| cl_chain) => `(tactic| assumption)

/-- close a cleanliness side condition -/
syntax "cl_side" : tactic
macro_rules | `(tactic| cl_side) => `(tactic| first
  | assumption
  | trivial
  | cl_chain
  | (simp_all only [clsimp] <;> (repeat (cases ‹_ ∧ _›)) <;> cl_chain)
  | (split <;> cl_side))

/-- … or leave it for inspection -/
macro "cl_try" : tactic => `(tactic| first | cl_side | skip)

/-- one primitive state change keeps the invariant -/
syntax "inv_step" : tactic
macro_rules | `(tactic| inv_step) => `(tactic| first
  | assumption
  | (refine Inv.put ‹_› _ _ ?_; cl_try)
  | exact Inv.remove ‹_› _ _
  | (refine Inv.setCell ‹_› _ ?_; cl_try)
  | exact Inv.write ‹_› _
  | exact Inv.nextInst ‹_› _
  | exact Inv.modstack ‹_› _
  | exact Inv.modules ‹_› _ _
  | (split <;> inv_step))

/-- side goals `∀ s, Inv E b s → Inv E b (f s)` of `modifyS` -/
macro "inv_side" : tactic => `(tactic| (intro _ _; first
  | inv_step
  | (refine Inv.foldl ?_ ‹_›; intro _ _ _ _; first | inv_step | skip)
  | skip))

/-! ### the program-logic tactic -/

open Lean Elab Tactic Meta in
/-- succeeds iff the goal is (a universally quantified) `PresA` statement -/
elab "guard_presa" : tactic => withMainContext do
  let t := (← instantiateMVars (← (← getMainGoal).getType)).cleanupAnnotations
  let hd := t.getForallBody.cleanupAnnotations.getAppFn
  unless hd.isConstOf ``Ckl.C09E.PresA || hd.isConstOf ``Ckl.C09E.Pres do
    throwError "guard_presa: not a PresA goal"

open Lean Elab Tactic Meta in
/-- apply a hypothesis whose conclusion is a `PresA` statement (induction hypotheses) -/
elab "pa_hyp" : tactic => withMainContext do
  let g ← getMainGoal
  let lctx ← getLCtx
  for d in lctx do
    if d.isImplementationDetail then continue
    let ty ← instantiateMVars d.type
    let hd := ty.getForallBody.getAppFn
    if hd.isConstOf ``Ckl.C09E.PresA || hd.isConstOf ``Ckl.C09E.Pres then
      if let some gs ← observing? (withReducible (g.apply d.toExpr)) then
        replaceMainGoal gs
        return
  throwError "pa_hyp: no applicable hypothesis"

/-- extensible: lemmas about helper programs -/
syntax "pa_lemma" : tactic
macro_rules | `(tactic| pa_lemma) => `(tactic| ((with_reducible refine PresA.pure ?_); cl_try))
macro_rules | `(tactic| pa_lemma) => `(tactic| with_reducible exact PresA.throwE _ _)
macro_rules | `(tactic| pa_lemma) => `(tactic| ((with_reducible refine PresA.throwV ?_ _ _); cl_try))
macro_rules | `(tactic| pa_lemma) => `(tactic| with_reducible exact PresA.unsupported _)
macro_rules | `(tactic| pa_lemma) => `(tactic| with_reducible exact PresA.failM _)
macro_rules | `(tactic| pa_lemma) => `(tactic| ((with_reducible refine PresA.allocM ?_); cl_try))
macro_rules | `(tactic| pa_lemma) => `(tactic| ((with_reducible refine PresA.newList ?_); cl_try))
macro_rules | `(tactic| pa_lemma) => `(tactic| with_reducible exact PresA.cellOf _)
macro_rules | `(tactic| pa_lemma) => `(tactic| with_reducible exact PresA.typeOf _)
macro_rules | `(tactic| pa_lemma) => `(tactic| with_reducible exact PresA.setS_newEnv (by assumption) (by assumption))
macro_rules | `(tactic| pa_lemma) => `(tactic| with_reducible exact PresA.setS_newEnv_fst (by assumption))
macro_rules | `(tactic| pa_lemma) => `(tactic| ((with_reducible refine PresA.setS_set (by assumption) (by assumption) ?_); cl_try))
macro_rules | `(tactic| pa_lemma) => `(tactic| ((with_reducible refine PresA.modifyS ?_); inv_side))

macro "pa_step" : tactic => `(tactic| (guard_presa; first
  | pa_lemma
  | (pa_hyp <;> cl_try)
  | ((with_reducible apply PresA.getS_bind); intro _ _)
  | with_reducible apply PresA.bind
  | ((with_reducible apply PresA.mapM); intro _ _)
  | tr_beta
  | intro _
  | split))

macro "pa_auto" : tactic => `(tactic| repeat' pa_step)

end Ckl.C09E
