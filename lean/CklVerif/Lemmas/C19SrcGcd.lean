import CklVerif.Lemmas.C19SrcRules
import CklVerif.Lemmas.C19SrcMath
import CklVerif.Lemmas.C19Int
import CklVerif.Model.Lib

/-! C19Src — math.ckl: `gcd` (Euclid's algorithm, recursion through the environment) -/
namespace Ckl.C19Src
open Ckl Ckl.C03 Ckl.Gen.LibSrc
variable (ld : Loader)

/-- built-ins `gcd` uses (directly or through `abs` / `is_numeric`) -/
def gcdNats : List String := mathNats ++ ["mod"]
/-- library functions `gcd` uses, itself included -/
def gcdSrcs : List (String × Node) := mathSrcs ++ [("abs", math_abs), ("gcd", math_gcd)]

/-- explicit fuel bound: a constant per Euclid step; the number of steps is at most |b| + 1 -/
def gcdFuel (b : Int) : Nat := 30 * (b.natAbs + 1) + 1

theorem gcdNats_math {nats : List String} (hn : ∀ x ∈ gcdNats, x ∈ nats) : ∀ x ∈ mathNats, x ∈ nats :=
  fun x hx => hn x (List.mem_append_left _ hx)
theorem gcdSrcs_math {srcs : List (String × Node)} (hs : ∀ p ∈ gcdSrcs, p ∈ srcs) : ∀ p ∈ mathSrcs, p ∈ srcs :=
  fun p hp => hs p (List.mem_append_left _ hp)

theorem pure_mod (a b : RVal) (d pos) :
    callPure "mod" [("a", a), ("b", b)] d pos = some (nativeMod a b pos) := by rfl

theorem nativeMod_int (x y : Int) (hy : y ≠ 0) (pos : Pos) (s : State) :
    nativeMod (.int x) (.int y) pos s = .ok (.int (Int.fmod x y)) s := by
  simp [nativeMod, EvalM.bind_apply, getS, RVal.isNull, hy]
  rfl

theorem rveq_int_zero (s : State) (b : Int) : rveq s (.int b) (.int 0) = decide (b = 0) := by
  simp [rveq, rveqF]

/-- `not is_numeric(x)` for a parameter `x` of `gcd` bound to an int -/
theorem gcd_guard {s : State} {M nats srcs c m} {a b : Int}
    (ctx : Ctx s M nats srcs c m [("a", .int a), ("b", .int b)])
    (hn : ∀ x ∈ mathNats, x ∈ nats) (hs : ∀ p ∈ mathSrcs, p ∈ srcs)
    (x : String) (v : Int) (hv : dictGet x [("a", RVal.int a), ("b", RVal.int b)] = some (.int v)) :
    ∃ s1, Ext s s1 ∧ ∀ p4 p5 p6 p7,
      Ev ld 17 c (.not (.call (.ident "is_numeric" p4) [none] [.ident x p5] p6) p7) s (.ok (.bool false) s1) := by
  obtain ⟨f1, m1, hl1, hm1, hsrc1⟩ := ctx.src (x := "is_numeric") (src := type_is_numeric) (hs _ (by simp [mathSrcs])) (by rfl)
  obtain ⟨s1, e1, c1⟩ := is_numeric_calls ld ctx.env (mathNats_type hn) (mathSrcs_numeric hs) hm1 hsrc1 (.int v)
  refine ⟨s1, e1, fun p4 p5 p6 p7 => ?_⟩
  have E1 := Ev.callSrc1 ld (k := 13) (p := p4) hl1 hsrc1 rfl (by decide) (by trivial)
    (Ev.ident ld (p := p5) (ctx.var (x := x) hv)) (Calls.mono ld (c1 c p6) (by decide))
  rw [wrapCall_ok] at E1
  exact Ev.congr ld (Ev.not ld E1) (by rfl)

/-- the body of `gcd` on ints, given the recursive call (for `b ≠ 0`) in every later state -/
theorem gcd_body_int {s : State} {M nats srcs c m} {a b : Int}
    (ctx : Ctx s M nats srcs c m [("a", .int a), ("b", .int b)])
    (hn : ∀ x ∈ gcdNats, x ∈ nats) (hs : ∀ p ∈ gcdSrcs, p ∈ srcs)
    (ih : b ≠ 0 → ∀ (s2 : State) (fn' : RVal) (m' : EnvId), LibEnv s2 M nats srcs → M m' → IsSrc s2 fn' math_gcd m' →
      ∃ s', Ext s2 s' ∧ ∀ env pos, Calls ld (gcdFuel (Int.fmod a b)) fn'
        [("a", .int b), ("b", .int (Int.fmod a b))] env pos s2 (.ok (.int (Lib.gcdM b (Int.fmod a b))) s')) :
    ∃ s', Ext s s' ∧ Ev ld (30 * (b.natAbs + 1)) c (lamBody math_gcd) s (.ok (.int (Lib.gcdM a b)) s') := by
  have hn' := gcdNats_math hn
  have hs' := gcdSrcs_math hs
  obtain ⟨s1, e1, g1⟩ := gcd_guard ld ctx hn' hs' "a" a (by rfl)
  have ctx1 := ctx.ext e1
  obtain ⟨s2, e2, g2⟩ := gcd_guard ld ctx1 hn' hs' "b" b (by rfl)
  have ctx2 := ctx1.ext e2
  have G1 : ∀ k, 20 ≤ k → ∀ p1 p2 p3 p4 p5 p6 p7 p8 p9,
      Ev ld k c (.or [.not (.call (.ident "is_numeric" p1) [none] [.ident "a" p2] p3) p4,
        .not (.call (.ident "is_numeric" p5) [none] [.ident "b" p6] p7) p8] p9) s (.ok (.bool false) s2) :=
    fun k hk p1 p2 p3 p4 p5 p6 p7 p8 p9 =>
      Ev.mono ld (Ev.or_false2 ld (g1 p1 p2 p3 p4) (g2 p5 p6 p7 p8)) hk
  obtain ⟨i, hleq⟩ := ctx2.nat (x := "equals") (hn' _ (by decide)) (by rfl)
  have G2 : ∀ k, 4 ≤ k → ∀ p1 p2 p3 p4,
      Ev ld k c (.call (.ident "equals" p1) [some "a", some "b"] [.ident "b" p2, .lit (.int 0) p3] p4) s2
        (.ok (.bool (decide (b = 0))) s2) := by
    intro k hk p1 p2 p3 p4
    refine Ev.congr ld (Ev.mono ld (Ev.natAB ld (k := 0) hleq (by rfl) (by trivial) (by trivial)
      (Ev.ident ld (ctx2.var (x := "b") (by rfl))) (Ev.litInt ld) (pure_equals _ _ _ _) rfl) hk) ?_
    simp [rveq_int_zero]
  by_cases hb : b = 0
  · -- `abs(a)`
    obtain ⟨fa, ma, hla, hma, hsrca⟩ := ctx2.src (x := "abs") (src := math_abs) (hs _ (by simp [gcdSrcs])) (by rfl)
    obtain ⟨s3, e3, c3⟩ := abs_calls_int ld ctx2.env hn' hs' hma hsrca a
    refine ⟨s3, (e1.trans e2).trans e3, ?_⟩
    have hg : Lib.gcdM a b = (a.natAbs : Int) := by
      rw [Lib.gcdM, dif_pos hb, Ckl.C19.absM_eq_natAbs]
    rw [hg]
    have A : ∀ p1 p2 p3, Ev ld 23 c (.call (.ident "abs" p1) [none] [.ident "a" p2] p3) s2
        (.ok (.int (a.natAbs : Int)) s3) := by
      intro p1 p2 p3
      have A := Ev.callSrc1 ld (k := 20) (p := p1) hla hsrca rfl (by decide) (by trivial)
        (Ev.ident ld (p := p2) (ctx2.var (x := "a") (by rfl))) (c3 c p3)
      rw [wrapCall_ok] at A
      exact A
    refine Ev.mono ld (Ev.ite ld (EvIf.false ld (G1 24 (by decide) _ _ _ _ _ _ _ _ _)
      (EvIf.true ld (Ev.congr ld (G2 23 (by decide) _ _ _ _) (by simp [hb])) (A _ _ _)))) (by omega)
  · -- `gcd(b, a % b)`
    obtain ⟨fg, mg, hlg, hmg, hsrcg⟩ := ctx2.src (x := "gcd") (src := math_gcd) (hs _ (by simp [gcdSrcs])) (by rfl)
    obtain ⟨s3, e3, c3⟩ := ih hb s2 fg mg ctx2.env hmg hsrcg
    refine ⟨s3, (e1.trans e2).trans e3, ?_⟩
    have hg : Lib.gcdM a b = Lib.gcdM b (Int.fmod a b) := by
      rw [Lib.gcdM, dif_neg hb]
    rw [hg]
    have hlt := Lib.natAbs_fmod_lt a hb
    obtain ⟨j, hlm⟩ := ctx2.nat (x := "mod") (hn _ (by simp [gcdNats])) (by rfl)
    have R : ∀ p1 p2 p3 p4 p5 p6 p7, Ev ld (30 * b.natAbs + 20 + 4) c
        (.call (.ident "gcd" p1) [none, none] [.ident "b" p2,
          .call (.ident "mod" p3) [some "a", some "b"] [.ident "a" p4, .ident "b" p5] p6] p7) s2
        (.ok (.int (Lib.gcdM b (Int.fmod a b))) s3) := by
      intro p1 p2 p3 p4 p5 p6 p7
      have hmod := Ev.natAB ld (k := 0) (p := p3) (pos := p6) hlm (by rfl) (by trivial) (by trivial)
        (Ev.ident ld (p := p4) (ctx2.var (x := "a") (by rfl))) (Ev.ident ld (p := p5) (ctx2.var (x := "b") (by rfl)))
        (pure_mod _ _ _ _) (nativeMod_int a b hb _ _)
      rw [wrapCall_ok] at hmod
      have R := Ev.callSrc2 ld (k := 30 * b.natAbs + 20) (p := p1) hlg hsrcg rfl (by decide) (by decide) (by decide)
        (by trivial) (by trivial)
        (Ev.ident ld (p := p2) (ctx2.var (x := "b") (by rfl)))
        (Ev.mono ld hmod (by omega))
        (Calls.mono ld (c3 c p7) (by unfold gcdFuel; omega))
      rw [wrapCall_ok] at R
      exact R
    refine Ev.mono ld (Ev.ite ld (EvIf.false ld (G1 (30 * b.natAbs + 20 + 4 + 1 + 1) (by omega) _ _ _ _ _ _ _ _ _)
      (EvIf.false ld (Ev.congr ld (G2 (30 * b.natAbs + 20 + 4 + 1) (by omega) _ _ _ _) (by simp [hb]))
        (EvIf.else ld (R _ _ _ _ _ _ _))))) (by omega)

theorem gcd_calls_aux (n : Nat) : ∀ {s : State} {M : EnvId → Prop} {nats srcs fn m} (a b : Int), b.natAbs ≤ n →
    LibEnv s M nats srcs → (∀ x ∈ gcdNats, x ∈ nats) → (∀ p ∈ gcdSrcs, p ∈ srcs) → M m → IsSrc s fn math_gcd m →
    ∃ s', Ext s s' ∧ ∀ env pos, Calls ld (gcdFuel b) fn [("a", .int a), ("b", .int b)] env pos s
      (.ok (.int (Lib.gcdM a b)) s') := by
  induction n with
  | zero =>
    intro s M nats srcs fn m a b hb h hn hs hm hsrc
    have hb0 : b = 0 := by omega
    exact calls_of_body2 ld (src := math_gcd) (r := fun s' => .ok (.int (Lib.gcdM a b)) s') rfl rfl rfl
      (by omega) (by decide) h hm hsrc (.int a) (.int b)
      (fun s0 ctx _ => gcd_body_int ld ctx hn hs (fun hne => absurd hb0 hne))
  | succ n ihn =>
    intro s M nats srcs fn m a b hb h hn hs hm hsrc
    exact calls_of_body2 ld (src := math_gcd) (r := fun s' => .ok (.int (Lib.gcdM a b)) s') rfl rfl rfl
      (by omega) (by decide) h hm hsrc (.int a) (.int b)
      (fun s0 ctx _ => gcd_body_int ld ctx hn hs (fun hne s2 fn' m' h2 hm' hsrc' =>
        ihn b (Int.fmod a b) (by have := Lib.natAbs_fmod_lt a hne; omega) h2 hn hs hm' hsrc'))

/-- `fn.execute(a = int, b = int)` of the function made from the source of `gcd`: Euclid's algorithm `gcdM a b`
    (`= Int.gcd a b`, `C19.gcdM_eq_gcd`), with the explicit fuel bound `gcdFuel b` -/
theorem gcd_calls_int {s : State} {M nats srcs fn m} (h : LibEnv s M nats srcs) (hn : ∀ x ∈ gcdNats, x ∈ nats)
    (hs : ∀ p ∈ gcdSrcs, p ∈ srcs) (hm : M m) (hsrc : IsSrc s fn math_gcd m) (a b : Int) :
    ∃ s', Ext s s' ∧ ∀ env pos, Calls ld (gcdFuel b) fn [("a", .int a), ("b", .int b)] env pos s
      (.ok (.int (Lib.gcdM a b)) s') :=
  gcd_calls_aux ld b.natAbs a b (Nat.le_refl _) h hn hs hm hsrc

/-- the same with the mathematical gcd -/
theorem gcd_calls_int_gcd {s : State} {M nats srcs fn m} (h : LibEnv s M nats srcs) (hn : ∀ x ∈ gcdNats, x ∈ nats)
    (hs : ∀ p ∈ gcdSrcs, p ∈ srcs) (hm : M m) (hsrc : IsSrc s fn math_gcd m) (a b : Int) :
    ∃ s', Ext s s' ∧ ∀ env pos, Calls ld (gcdFuel b) fn [("a", .int a), ("b", .int b)] env pos s
      (.ok (.int (Int.gcd a b : Int)) s') := by
  have := gcd_calls_int ld h hn hs hm hsrc a b
  rwa [Ckl.C19.gcdM_eq_gcd] at this

end Ckl.C19Src
