/-
  C14 / C20 (parser half) — `mapPos` commutes with the node builders of `ParserBase.lean`, and the
  token-only loops (`identListLoop`, `forIdents`, `requireSymLoop`, `derefChain`, `relopNext`) are
  equivariant.
-/
import CklVerif.Lemmas.C14ParseHelpers
namespace Ckl.C14P
open Ckl Ckl.Parser

local notation "kw" => (some TokType.keyword)
local notation "ip" => (some TokType.interpunction)
local notation "op" => (some TokType.operator)
local notation "idt" => (some TokType.identifier)

set_option linter.unusedSimpArgs false

variable {f : Pos → Pos}

/-! ### node builders -/

theorem mapPos_funcCall1 (f : Pos → Pos) (fn a : String) (ea : Node) (p : Pos) :
    mapPos f (funcCall1 fn a ea p) = funcCall1 fn a (mapPos f ea) (f p) := by
  simp [funcCall1, mapPos]

theorem mapPos_funcCall2 (f : Pos → Pos) (fn a : String) (ea : Node) (b : String) (eb : Node) (p : Pos) :
    mapPos f (funcCall2 fn a ea b eb p) = funcCall2 fn a (mapPos f ea) b (mapPos f eb) (f p) := by
  simp [funcCall2, mapPos]

theorem mapPos_funcCall3 (f : Pos → Pos) (fn a : String) (ea : Node) (b : String) (eb : Node) (c : String)
    (ec : Node) (p : Pos) :
    mapPos f (funcCall3 fn a ea b eb c ec p) = funcCall3 fn a (mapPos f ea) b (mapPos f eb) c (mapPos f ec) (f p) := by
  simp [funcCall3, mapPos]

theorem mapPos_funcCallAB (f : Pos → Pos) (fn : String) (ea eb : Node) (p : Pos) :
    mapPos f (funcCallAB fn ea eb p) = funcCallAB fn (mapPos f ea) (mapPos f eb) (f p) := by
  simp [funcCallAB, mapPos_funcCall2]

theorem mapPos_funcCallObj (f : Pos → Pos) (fn : String) (ea : Node) (p : Pos) :
    mapPos f (funcCallObj fn ea p) = funcCallObj fn (mapPos f ea) (f p) := by
  simp [funcCallObj, mapPos_funcCall1]

theorem mapPos_strLit (f : Pos → Pos) (s : List Char) (p : Pos) : mapPos f (strLit s p) = strLit s (f p) := by
  simp [strLit, mapPos]

theorem mapPos_returnOperand (f : Pos → Pos) (e : Node) (p : Pos) :
    mapPos f (returnOperand e p) = returnOperand (mapPos f e) (f p) := by
  cases e <;> simp [returnOperand, mapPos]

theorem mapPosL_unwrapLastReturn (f : Pos → Pos) (es : List Node) :
    mapPosL f (unwrapLastReturn es) = unwrapLastReturn (mapPosL f es) := by
  induction es with
  | nil => rfl
  | cons x xs ih =>
    cases xs with
    | nil => cases x <;> simp [unwrapLastReturn, mapPos, mapPos_returnOperand]
    | cons y ys => simp only [unwrapLastReturn, mapPosL_cons] at ih ⊢; rw [ih]

theorem mapPos_unwrapReturn (f : Pos → Pos) (n : Node) : mapPos f (unwrapReturn n) = unwrapReturn (mapPos f n) := by
  cases n <;> simp [unwrapReturn, mapPos, mapPos_returnOperand, mapPosL_unwrapLastReturn]

theorem mapPos_simplifyBlock (f : Pos → Pos) (es ce ch fin : List Node) (tl : Bool) (p : Pos) :
    mapPos f (simplifyBlock es ce ch fin tl p) =
      simplifyBlock (mapPosL f es) (mapPosL f ce) (mapPosL f ch) (mapPosL f fin) tl (f p) := by
  rcases es with _ | ⟨e, _ | ⟨e2, es⟩⟩ <;> rcases ce with _ | ⟨c1, ce⟩ <;> rcases fin with _ | ⟨f1, fin⟩ <;>
    simp [simplifyBlock, mapPos]

theorem mapPos_relCmp (f : Pos → Pos) (relop : List Char) (lhs rhs : Node) (p : Pos) :
    mapPos f (relCmp relop lhs rhs p) = relCmp relop (mapPos f lhs) (mapPos f rhs) (f p) := by
  unfold relCmp
  repeat' split
  all_goals simp [mapPos_funcCallAB, mapPos]

theorem mapPos_mapKey (f : Pos → Pos) (k : Node) : mapPos f (mapKey k) = mapKey (mapPos f k) := by
  cases k <;> simp [mapKey, mapPos]

/-- `identNames` sees the same names (or fails on both sides) -/
theorem identNames_map (f : Pos → Pos) (items : List Node) :
    identNames (mapPosL f items) =
      match identNames items with
      | .ok names => .ok names
      | .error x => .error (mapPos f x) := by
  induction items with
  | nil => rfl
  | cons x xs ih =>
    cases x <;> simp only [identNames, mapPosL_cons, mapPos]
    rw [ih]
    cases identNames xs <;> rfl

/-! ### token-only loops -/

theorem identListLoop_rel {c c' : Ctx} (hc : CRel f c c') (ck : Bool) :
    ∀ (n : Nat) (st st' : St) (acc : List (List Char)), st.toks.length = n → SRel f st st' →
      ERel f (OLe f Eq) (identListLoop c ck st acc) (identListLoop c' ck st' acc) := by
  intro n
  induction n using Nat.strongRecOn with
  | _ n ih =>
    intro st st' acc hn hs
    rw [identListLoop.eq_1 c ck st acc, identListLoop.eq_1 c' ck st' acc, peekn_rel hs]
    by_cases hb : st.peekn 1 c!"]" ip = true <;> simp only [hb, if_true, Bool.false_eq_true, if_false]
    · exact ⟨rfl, hs⟩
    · refine ERel.bind (next_rel hc hs) ?_
      rintro ⟨t, s1, h1⟩ ⟨t', s1', h1'⟩ ⟨ht, hs1⟩
      simp only at ht hs1
      subst ht
      have rest : ERel f (OLe f Eq)
          (do checkExpectedIdentifier t
              let __x ← sepUnless s1 c!"]"
              let __x_1 ← identListLoop c ck __x.val (acc ++ [t.value])
              (pure ⟨__x_1.val, __x_1.st, by have := __x.2; have := __x_1.h; omega⟩ : Rle _ st.toks.length))
          (do checkExpectedIdentifier (tokMap f t)
              let __x ← sepUnless s1' c!"]"
              let __x_1 ← identListLoop c' ck __x.val (acc ++ [t.value])
              (pure ⟨__x_1.val, __x_1.st, by have := __x.2; have := __x_1.h; omega⟩ : Rle _ st'.toks.length)) := by
        refine ERel.bind (checkExpectedIdentifier_rel f t) ?_
        intro _ _ _
        refine ERel.bind (sepUnless_rel hs1 _) ?_
        rintro ⟨s2, h2⟩ ⟨s2', h2'⟩ hs2
        refine ERel.bind (ih s2.toks.length (by omega) s2 s2' _ rfl hs2) ?_
        rintro ⟨r, s3, h3⟩ ⟨r', s3', h3'⟩ ⟨hr, hs3⟩
        exact ⟨hr, hs3⟩
      cases ck <;> simp only [Bool.false_eq_true, if_false, if_true]
      · exact rest
      · refine ERel.bind (checkRedefineKeyword_rel f t) ?_
        intro _ _ _
        exact rest

theorem forIdents_rel {c c' : Ctx} (hc : CRel f c c') {st st' : St} (hs : SRel f st st') :
    ERel f (OLt f Eq) (forIdents c st) (forIdents c' st') := by
  unfold forIdents
  rcases matchIf_cases hs c!"[" ip with ⟨e1, e2⟩ | ⟨⟨sa, ha⟩, ⟨sa', ha'⟩, e1, e2, hsa⟩ <;> rw [e1, e2]
  · refine ERel.bind (next_rel hc hs) ?_
    rintro ⟨t, s1, h1⟩ ⟨t', s1', h1'⟩ ⟨ht, hs1⟩
    simp only at ht hs1
    subst ht
    refine ERel.bind (checkExpectedIdentifier_rel f t) ?_
    intro _ _ _
    exact ⟨rfl, hs1⟩
  · refine ERel.bind (identListLoop_rel hc false _ sa sa' [] rfl hsa) ?_
    rintro ⟨ids, sb, hb⟩ ⟨ids', sb', hb'⟩ ⟨hi, hsb⟩
    refine ERel.bind (expect_rel hsb _ _) ?_
    rintro ⟨sc, hc⟩ ⟨sc', hc'⟩ hsc
    exact ⟨hi, hsc⟩

theorem requireSymLoop_rel :
    ∀ (n : Nat) (st st' : St) (acc : List (String × String)), st.toks.length = n → SRel f st st' →
      ERel f (OLe f Eq) (requireSymLoop st acc) (requireSymLoop st' acc) := by
  intro n
  induction n using Nat.strongRecOn with
  | _ n ih =>
    intro st st' acc hn hs
    rw [requireSymLoop.eq_1 st acc, requireSymLoop.eq_1 st' acc, peekn_rel hs]
    by_cases hb : st.peekn 1 c!"]" ip = true <;> simp only [hb, if_true, Bool.false_eq_true, if_false]
    · exact ⟨rfl, hs⟩
    · refine ERel.bind (matchIdentifier_rel hs) ?_
      rintro ⟨sym, s1, h1⟩ ⟨sym', s1', h1'⟩ ⟨hsym, hs1⟩
      simp only at hsym hs1
      subst hsym
      rcases matchIf_cases hs1 c!"as" kw with ⟨e1, e2⟩ | ⟨⟨s2, h2⟩, ⟨s2', h2'⟩, e1, e2, hs2⟩ <;> rw [e1, e2]
      · refine ERel.bind (sepUnless_rel hs1 _) ?_
        rintro ⟨s4, h4⟩ ⟨s4', h4'⟩ hs4
        refine ERel.bind (ih s4.toks.length (by simp only at h4; omega) s4 s4' _ rfl hs4) ?_
        rintro ⟨r, s5, h5⟩ ⟨r', s5', h5'⟩ ⟨hr, hs5⟩
        exact ⟨hr, hs5⟩
      · refine ERel.bind (matchIdentifier_rel hs2) ?_
        rintro ⟨name, s3, h3⟩ ⟨name', s3', h3'⟩ ⟨hname, hs3⟩
        simp only at hname hs3
        subst hname
        refine ERel.bind (sepUnless_rel hs3 _) ?_
        rintro ⟨s4, h4⟩ ⟨s4', h4'⟩ hs4
        refine ERel.bind (ih s4.toks.length (by simp only at h4 h2; omega) s4 s4' _ rfl hs4) ?_
        rintro ⟨r, s5, h5⟩ ⟨r', s5', h5'⟩ ⟨hr, hs5⟩
        exact ⟨hr, hs5⟩

theorem derefChain_rel :
    ∀ (n : Nat) (st st' : St) (fn : Node), st.toks.length = n → SRel f st st' →
      ERel f (OLe f (NR f)) (derefChain st fn) (derefChain st' (mapPos f fn)) := by
  intro n
  induction n using Nat.strongRecOn with
  | _ n ih =>
    intro st st' fn hn hs
    rw [derefChain.eq_1 st fn, derefChain.eq_1 st' (mapPos f fn)]
    rcases matchIf_cases hs c!"->" op with ⟨e1, e2⟩ | ⟨⟨s1, h1⟩, ⟨s1', h1'⟩, e1, e2, hs1⟩ <;> rw [e1, e2]
    · exact ⟨rfl, hs⟩
    · refine ERel.bind (matchIdentifier_rel hs1) ?_
      rintro ⟨name, s2, h2⟩ ⟨name', s2', h2'⟩ ⟨hname, hs2⟩
      simp only at hname hs2
      subst hname
      have h := ih s2.toks.length (by omega) s2 s2' (.deref fn (strLit name s2.prev) .absent s2.prev) rfl hs2
      simp only [mapPos, mapPos_strLit, ← hs2.prev] at h
      refine ERel.bind h ?_
      rintro ⟨r, s3, h3⟩ ⟨r', s3', h3'⟩ ⟨hr, hs3⟩
      exact ⟨hr, hs3⟩

/-- related outcomes of `relopNext` -/
def RelopR (f : Pos → Pos) {P Q : St → Prop} :
    Option (List Char × { s : St // P s }) → Option (List Char × { s : St // Q s }) → Prop
  | none, none => True
  | some (r, a), some (r', a') => r' = r ∧ SRel f a.1 a'.1
  | _, _ => False

theorem relopNext_rel {c c' : Ctx} (hc : CRel f c c') {st st' : St} (hs : SRel f st st') :
    ERel f (RelopR f) (relopNext c st) (relopNext c' st') := by
  refine hs.elim_cases2 (fun p => ?_) (fun p t => ?_) (fun p t t2 rest => ?_)
  · trivial
  · simp only [relopNext, isRelop, tokMap_value, tokMap_type]
    by_cases h1 : (!(relops.contains t.value && (t.type == .operator || t.type == .keyword))) = true <;>
      simp only [h1, if_true, if_false]
    · trivial
    · by_cases h2 : (t.value == c!"is") = true <;> simp only [h2, if_true, if_false]
      · exact errEof_rel hc.endPos
      · exact ⟨rfl, SRel.mk' f _ _⟩
  · simp only [relopNext, isRelop, tokMap_value, tokMap_type]
    by_cases h1 : (!(relops.contains t.value && (t.type == .operator || t.type == .keyword))) = true <;>
      simp only [h1, if_true, if_false]
    · trivial
    · by_cases h2 : (t.value == c!"is") = true <;> simp only [h2, if_true, if_false]
      · by_cases h3 : (t2.value == c!"not") = true <;> simp only [h3, if_true, if_false]
        · exact ⟨rfl, SRel.mk' f _ _⟩
        · exact ⟨rfl, SRel.mk' f _ (t2 :: rest)⟩
      · exact ⟨rfl, SRel.mk' f _ (t2 :: rest)⟩

end Ckl.C14P
