import CklVerif.Model.Str
import CklVerif.Proofs.C15
import CklVerif.Lemmas.C18Basic
import CklVerif.Lemmas.C18Replace
import CklVerif.Lemmas.C18Split
import CklVerif.Lemmas.C18Interp

/-!
  C18 — the string functions satisfy the algebra of strings.
  All theorems are about the executable model `Ckl.Str` (`CklVerif/Model/Str.lean`), for ALL
  strings (lists of code points) and ALL (unbounded) integers.

  Vocabulary defined in `CklVerif/Lemmas/C18*.lean`:
  * `substAll s a b` — left-to-right non-overlapping substitution, by the obvious recursion:
    `substAll [] = []`; if `a ≠ ""` is a prefix of `s` then `b ++ substAll (s.drop |a|)`,
    else `head :: substAll tail` (equations `substAll_nil/_of_prefix/_of_not_prefix`).
-/
namespace Ckl.C18
open Ckl.Seq Ckl.Str Ckl.C15

/-! ## 1. `contains`, `in`, `starts_with`, `ends_with`, `find` -/

theorem contains_iff_find (s t : S) : containsM s t = true ↔ 0 ≤ findM s t 0 := by
  unfold containsM findM
  rw [decide_eq_true_iff]
  rcases find_range s t 0 with h | ⟨h, _⟩
  · rw [h]; omega
  · constructor
    · intro _; omega
    · intro _; omega

theorem find_nonneg_iff_infix (s t : S) : 0 ≤ findM s t 0 ↔ t <:+: s :=
  C15.find_nonneg_iff_infix s t

theorem contains_iff_infix (s t : S) : containsM s t = true ↔ t <:+: s :=
  (contains_iff_find s t).trans (find_nonneg_iff_infix s t)

/-- `contains(s, t)` ⇔ `find(s, t) ≥ 0` ⇔ `s = a + t + b` for some `a`, `b` -/
theorem contains_iff_find_iff_infix (s t : S) :
    (containsM s t = true ↔ 0 ≤ findM s t 0) ∧ (0 ≤ findM s t 0 ↔ t <:+: s) ∧
    (t <:+: s ↔ ∃ a b, s = a ++ t ++ b) :=
  ⟨contains_iff_find s t, find_nonneg_iff_infix s t,
    ⟨fun ⟨a, b, h⟩ => ⟨a, b, h.symm⟩, fun ⟨a, b, h⟩ => ⟨a, b, h.symm⟩⟩⟩

/-- the `in` operator on strings is `contains` -/
theorem in_eq_contains (s t : S) : inM s t = containsM s t := rfl

theorem startsWith_iff_prefix (s t : S) : startsWithM s t = true ↔ t <+: s :=
  isPrefixB_iff_prefix t s

theorem endsWith_iff_suffix (s t : S) : endsWithM s t = true ↔ t <:+ s := by
  unfold endsWithM
  rw [Bool.and_eq_true, decide_eq_true_iff, beq_iff_eq, List.suffix_iff_eq_drop]
  constructor
  · rintro ⟨_, h⟩; exact h.symm
  · intro h
    have hl := congrArg List.length h
    simp only [List.length_drop] at hl
    exact ⟨by omega, h.symm⟩

/-- every string starts and ends with, and contains, the empty string and itself -/
theorem startsWith_refl (s : S) : startsWithM s s = true ∧ startsWithM s [] = true :=
  ⟨(startsWith_iff_prefix s s).mpr (List.prefix_refl s), (startsWith_iff_prefix s []).mpr (List.nil_prefix)⟩

theorem starts_ends_imp_contains (s t : S) :
    (startsWithM s t = true → containsM s t = true) ∧ (endsWithM s t = true → containsM s t = true) :=
  ⟨fun h => (contains_iff_infix s t).mpr ((startsWith_iff_prefix s t).mp h).isInfix,
   fun h => (contains_iff_infix s t).mpr ((endsWith_iff_suffix s t).mp h).isInfix⟩

/-- `length(a + b) = length(a) + length(b)` -/
theorem length_append (a b : S) : lengthM (concat a b) = lengthM a + lengthM b := by
  simp [lengthM, concat]

/-- the first occurrence is found, not later than any known occurrence -/
theorem find_append_le (a t b : S) :
    0 ≤ findM (concat (concat a t) b) t 0 ∧ findM (concat (concat a t) b) t 0 ≤ lengthM a :=
  C15.find_append_le a t b

example : containsM ['a', 'b', 'c'] ['b', 'c'] = true ∧ findM ['a', 'b', 'c'] ['b', 'c'] 0 = 1 := by decide
example : containsM ['a', 'b', 'c'] ['c', 'b'] = false := by decide
example : startsWithM ['a', 'b'] ['a'] = true ∧ endsWithM ['a', 'b'] ['b'] = true ∧
    endsWithM ['a', 'b'] ['a'] = false := by decide

/-! ## 2. `split` / `join` -/

/-- `join` of string.ckl is `intercalate` -/
theorem join_eq_intercalate (sep : S) (xs : List S) : Str.joinM sep xs = sep.intercalate xs :=
  joinM_eq_intercalate sep xs

theorem join_nil (sep : S) : Str.joinM sep [] = [] := joinM_nil sep
theorem join_singleton (sep x : S) : Str.joinM sep [x] = x := joinM_singleton sep x
theorem join_cons_cons (sep x y : S) (ys : List S) :
    Str.joinM sep (x :: y :: ys) = concat (concat x sep) (Str.joinM sep (y :: ys)) :=
  joinM_cons_cons sep x y ys

theorem length_join_cons (sep x : S) (xs : List S) :
    lengthM (Str.joinM sep (x :: xs)) = lengthM x + (xs.map (fun y => lengthM sep + lengthM y)).sum := by
  rw [joinM_cons]
  simp only [lengthM, List.length_append, List.length_flatten, List.map_map]
  rw [Int.natCast_add]
  congr 1
  induction xs with
  | nil => rfl
  | cons y ys ih => simp only [List.map_cons, List.sum_cons, Function.comp_apply, List.length_append]; rw [← ih]; omega

/-- the fuel of the literal split suffices -/
theorem splitFuel_enough (sep : S) (hsep : sep ≠ []) (s : S) (n : Nat) (hn : s.length < n) :
    splitFuel sep n s = splitFuel sep (s.length + 1) s :=
  splitFuel_stable sep hsep n _ s hn (by omega)

/-- recursive characterisation of the literal split (non-empty string and separator):
    cut where the separator is a prefix, else move one character into the current piece -/
theorem splitLit_cons (sep : S) (hsep : sep ≠ []) (c : Char) (cs : S) :
    splitLit (c :: cs) sep =
      if isPrefixB sep (c :: cs) = true then
        [] :: (if (c :: cs).drop sep.length = [] then [[]] else splitLit ((c :: cs).drop sep.length) sep)
      else if cs = [] then [[c]] else consHead c (splitLit cs sep) := by
  have key : ∀ t : S, (if t = [] then [[]] else splitLit t sep) = splitNE sep t := by
    intro t
    unfold splitLit
    by_cases ht : t = []
    · subst ht; rfl
    · rw [if_neg ht, if_neg ht, if_neg hsep]; rfl
  have h0 : splitLit (c :: cs) sep = splitNE sep (c :: cs) := by
    rw [← key]; simp
  rw [h0]
  split
  · rename_i h
    rw [key, splitNE_of_prefix sep _ hsep h]
  · rename_i h
    have h' : isPrefixB sep (c :: cs) = false := by simpa using h
    rw [splitNE_of_not_prefix sep hsep c cs h', ← key cs]
    split
    · rfl
    · rfl

/-- `join(split(s, sep), sep) = s` for EVERY string and EVERY literal separator
    (also the empty one: list of characters; also `s = ""`: empty list) -/
theorem join_split (s sep : S) : Str.joinM sep (splitLit s sep) = s := by
  unfold splitLit
  by_cases hs : s = []
  · subst hs; simp [joinM_nil]
  · rw [if_neg hs]
    by_cases hsep : sep = []
    · subst hsep
      rw [if_pos rfl, joinM_nil_sep, flatten_map_singleton]
    · rw [if_neg hsep]
      exact join_splitNE sep hsep s

/-- a non-empty string is never split into the empty list -/
theorem splitLit_ne_nil (s sep : S) (hs : s ≠ []) : splitLit s sep ≠ [] := by
  unfold splitLit
  rw [if_neg hs]
  split
  · cases s with
    | nil => exact absurd rfl hs
    | cons c cs => simp
  · exact splitFuel_ne_nil _ _ _

/-- the side condition under which `split` undoes `join`: in `x ++ sep` (for every element
    but the last) the separator occurs first at the very end — `find(x + sep, sep) = length(x)` —
    and the last element does not contain the separator -/
def JoinClean (sep : S) : List S → Prop
  | [] => True
  | [x] => containsM x sep = false
  | x :: y :: ys => findM (concat x sep) sep 0 = lengthM x ∧ JoinClean sep (y :: ys)

theorem splitNE_join (sep : S) (hsep : sep ≠ []) (xs : List S) (hne : xs ≠ [])
    (h : JoinClean sep xs) : splitNE sep (Str.joinM sep xs) = xs := by
  induction xs with
  | nil => exact absurd rfl hne
  | cons x xs ih =>
    cases xs with
    | nil =>
      rw [joinM_singleton]
      exact splitNE_no_occurrence sep x hsep (no_occ_of_not_contains sep x hsep h)
    | cons y ys =>
      rw [joinM_cons_cons, splitNE_append_sep sep hsep x _ (no_early_of_find sep x hsep h.1),
        ih (by simp) h.2]

/-- `split(join(xs, sep), sep) = xs` for a non-empty separator, `xs ≠ [""]`, under `JoinClean` -/
theorem split_join (sep : S) (hsep : sep ≠ []) (xs : List S) (hxs : xs ≠ [[]])
    (h : JoinClean sep xs) : splitLit (Str.joinM sep xs) sep = xs := by
  cases xs with
  | nil => rw [joinM_nil]; rfl
  | cons x xs =>
    have hj : Str.joinM sep (x :: xs) ≠ [] := by
      cases xs with
      | nil =>
        rw [joinM_singleton]
        intro hx; exact hxs (by rw [hx])
      | cons y ys =>
        rw [joinM_cons_cons]
        intro hx
        have := congrArg List.length hx
        have hpos : 0 < sep.length := List.length_pos_iff.mpr hsep
        simp only [List.length_append, List.length_nil] at this
        omega
    unfold splitLit
    rw [if_neg hj, if_neg hsep]
    exact splitNE_join sep hsep (x :: xs) (by simp) h

/-- the side condition is NECESSARY as well -/
theorem joinClean_of_splitNE_join (sep : S) (hsep : sep ≠ []) (xs : List S) (hne : xs ≠ [])
    (h : splitNE sep (Str.joinM sep xs) = xs) : JoinClean sep xs := by
  induction xs with
  | nil => exact absurd rfl hne
  | cons x xs ih =>
    cases xs with
    | nil =>
      rw [joinM_singleton] at h
      exact not_contains_of_no_occ sep x hsep (splitNE_singleton_inv sep hsep x x h).2
    | cons y ys =>
      rw [joinM_cons_cons] at h
      obtain ⟨r, hs, hr, hno⟩ := splitNE_cons_cons_inv sep hsep _ x y ys h
      have hr' : r = Str.joinM sep (y :: ys) := (List.append_cancel_left hs).symm
      rw [hr'] at hr
      exact ⟨find_of_no_early sep x hsep hno, ih (by simp) hr⟩

/-- EXACT condition: for a non-empty separator and `xs ∉ {[], [""]}`,
    `split(join(xs, sep), sep) = xs` holds if and only if `JoinClean sep xs` -/
theorem split_join_iff (sep : S) (hsep : sep ≠ []) (xs : List S) (hne : xs ≠ []) (hxs : xs ≠ [[]]) :
    splitLit (Str.joinM sep xs) sep = xs ↔ JoinClean sep xs := by
  constructor
  · intro h
    apply joinClean_of_splitNE_join sep hsep xs hne
    have hj : Str.joinM sep xs ≠ [] := by
      intro hj
      rw [hj] at h
      exact hne h.symm
    unfold splitLit at h
    rw [if_neg hj, if_neg hsep] at h
    exact h
  · exact split_join sep hsep xs hxs

/-- both directions together: `join ∘ split = id` always; `split ∘ join = id` exactly under
    `JoinClean` (non-empty separator, `xs ∉ {[], [""]}`) -/
theorem split_join_inverse (sep : S) (hsep : sep ≠ []) :
    (∀ s, Str.joinM sep (splitLit s sep) = s) ∧
    (∀ xs, xs ≠ [] → xs ≠ [[]] → (splitLit (Str.joinM sep xs) sep = xs ↔ JoinClean sep xs)) :=
  ⟨fun s => join_split s sep, fun xs h1 h2 => split_join_iff sep hsep xs h1 h2⟩

/-- the two exceptional shapes: `join([], sep) = join([""], sep) = ""`, which splits into `[]` -/
theorem split_join_nil (sep : S) :
    splitLit (Str.joinM sep []) sep = [] ∧ splitLit (Str.joinM sep [[]]) sep = [] := by
  rw [joinM_nil, joinM_singleton]; exact ⟨rfl, rfl⟩

/-- single-character separator not occurring in any element -/
theorem joinClean_char (c : Char) (xs : List S) (h : ∀ x ∈ xs, c ∉ x) : JoinClean [c] xs := by
  induction xs with
  | nil => trivial
  | cons x xs ih =>
    cases xs with
    | nil =>
      show containsM x [c] = false
      unfold containsM
      have := find_char_miss c [] x (h x (by simp))
      simp only [List.nil_append, List.length_nil, Int.natCast_zero] at this
      rw [this]; rfl
    | cons y ys =>
      refine ⟨?_, ih (fun z hz => h z (List.mem_cons_of_mem _ hz))⟩
      have := find_char_hit c [] x [] (h x (by simp))
      simp only [List.nil_append, List.length_nil, Int.natCast_zero, Nat.zero_add] at this
      exact this

theorem split_join_char (c : Char) (xs : List S) (hxs : xs ≠ [[]]) (h : ∀ x ∈ xs, c ∉ x) :
    splitLit (Str.joinM [c] xs) [c] = xs :=
  split_join [c] (by simp) xs hxs (joinClean_char c xs h)

/-- `lines`-free corollary: `unlines` / `unwords` are undone by splitting at the character -/
theorem split_unlines (xs : List S) (hxs : xs ≠ [[]]) (h : ∀ x ∈ xs, '\n' ∉ x) :
    splitLit (unlinesM xs) ['\n'] = xs := split_join_char '\n' xs hxs h

theorem split_unwords (xs : List S) (hxs : xs ≠ [[]]) (h : ∀ x ∈ xs, ' ' ∉ x) :
    splitLit (unwordsM xs) [' '] = xs := split_join_char ' ' xs hxs h

/-- COUNTEREXAMPLE to the unrestricted statement: no element contains the separator `aa`, yet
    `split(join(['a', 'b'], 'aa'), 'aa') = split('aaab', 'aa') = ['', 'ab']` — the occurrence
    found first straddles the boundary between the element and the separator -/
example : containsM ['a'] ['a', 'a'] = false ∧ containsM ['b'] ['a', 'a'] = false ∧
    Str.joinM ['a', 'a'] [['a'], ['b']] = ['a', 'a', 'a', 'b'] ∧
    splitLit (Str.joinM ['a', 'a'] [['a'], ['b']]) ['a', 'a'] = [[], ['a', 'b']] := by decide
example : ¬ JoinClean ['a', 'a'] [['a'], ['b']] := by
  intro h; exact absurd h.1 (by decide)
/-- non-vacuity of `split_join` with a two-character separator -/
example : JoinClean [',', ' '] [['a'], [], ['b', ',']] := by
  refine ⟨by decide, by decide, ?_⟩
  show containsM ['b', ','] [',', ' '] = false
  decide
example : splitLit (Str.joinM [',', ' '] [['a'], [], ['b', ',']]) [',', ' '] = [['a'], [], ['b', ',']] := by decide
example : splitLit ['a', '|', '|', 'b'] ['|'] = [['a'], [], ['b']] ∧ splitLit ['a', 'b'] [] = [['a'], ['b']] ∧
    splitLit [] ['|'] = [] := by decide

/-- patterns: the image of `escape_pattern` denotes the literal it was made from, so
    `split(s, escape_pattern(sep))` is the literal split -/
theorem reMeta_sub_reSpecial (c : Char) (h : reMeta.contains c = true) : reSpecial.contains c = true := by
  simp only [reMeta, List.contains_eq_mem, List.mem_cons, List.not_mem_nil, or_false, decide_eq_true_eq] at h
  rcases h with rfl | rfl | rfl | rfl | rfl | rfl | rfl | rfl | rfl | rfl | rfl | rfl | rfl | rfl <;> decide

theorem patLiteral_escape (sep : S) : patLiteral? (escapeM sep) = some sep := by
  induction sep with
  | nil => rfl
  | cons c cs ih =>
    unfold escapeM
    by_cases hc : reSpecial.contains c = true
    · rw [if_pos hc]
      rw [patLiteral?, if_pos hc, ih]; rfl
    · rw [if_neg hc]
      have hbs : c ≠ '\\' := by
        intro e; subst e; exact hc (by decide)
      have hm : ¬ reMeta.contains c = true := fun hm => hc (reMeta_sub_reSpecial c hm)
      rw [patLiteral?.eq_def]
      split
      · rename_i heq; simp at heq
      · rename_i c' cs' heq
        simp only [List.cons.injEq] at heq
        exact absurd heq.1 hbs
      · rename_i c' cs' _ heq
        simp only [List.cons.injEq] at heq
        obtain ⟨rfl, rfl⟩ := heq
        rw [if_neg hm, ih]; rfl

theorem split_escape (s sep : S) : splitM s (escapeM sep) = .ok (splitLit s sep) := by
  unfold splitM; rw [patLiteral_escape]

example : escapeM ['a', '.', '|'] = ['a', '\\', '.', '\\', '|'] ∧
    patLiteral? ['a', '.', '|'] = none ∧ patLiteral? ['a', '\\', '.'] = some ['a', '.'] := by decide

/-! ## 3. `replace` -/

/-- the fuel of the model definition always suffices: any fuel above `length s - start`
    gives the same result -/
theorem replaceFuel_stable (s a b : S) (start : Int) (n : Nat) (hn : s.length - start.toNat < n) :
    replaceFuel n s a b start = replaceM s a b start := by
  unfold replaceM
  by_cases ha : a = []
  · subst ha
    cases n with
    | zero => omega
    | succ n => simp [replaceFuel]
  · rw [replaceFuel_eq a b ha n s start hn, replaceFuel_eq a b ha _ s start (by omega)]

/-- `replaceM` satisfies the recursive definition of string.ckl literally -/
theorem replaceM_unfold (s a b : S) (start : Int) :
    replaceM s a b start =
      if a = [] then s
      else
        let pos := findM s a start
        if pos = -1 then s
        else replaceM (substr s 0 (some pos) ++ b ++ substr s (pos + a.length) none) a b
          (pos + b.length) := by
  by_cases ha : a = []
  · subst ha; simp [replaceM, replaceFuel]
  · rw [if_neg ha]
    show replaceFuel (s.length + 1) s a b start = _
    rw [replaceFuel, if_neg ha]
    simp only [findM]
    rcases find_cases s a start with ⟨h1, _⟩ | ⟨q, h1, h2, h3, _⟩
    · simp [h1]
    · have hne : ¬ ((q : Int) = -1) := by omega
      simp only [h1, hne, if_false]
      apply replaceFuel_stable
      have hql : q + a.length ≤ s.length := h3.2
      have hapos : 0 < a.length := List.length_pos_iff.mpr ha
      rw [substr_zero_some s q (by omega)]
      have e1 : ((q : Int) + (a.length : Int)) = ((q + a.length : Nat) : Int) := by omega
      rw [e1, substr_nat_none s (q + a.length) hql]
      simp only [List.length_append, List.length_take, List.length_drop]
      omega

/-- `replace(s, a, b)` is the left-to-right non-overlapping substitution (for every `a`;
    for `a = ""` both sides are `s`) -/
theorem replace_spec (s a b : S) : replaceM s a b 0 = substAll s a b := by
  by_cases ha : a = []
  · subst ha
    rw [substAll_empty_pattern]
    simp [replaceM, replaceFuel]
  · unfold replaceM
    rw [replaceFuel_eq a b ha _ s 0 (by simp)]
    simp

/-- with a start index: the first `start` characters are kept, the rest is substituted
    (negative `start` counts as 0, `start` beyond the end changes nothing) -/
theorem replace_spec_start (s a b : S) (start : Int) :
    replaceM s a b start = s.take start.toNat ++ substAll (s.drop start.toNat) a b := by
  by_cases ha : a = []
  · subst ha
    rw [substAll_empty_pattern, List.take_append_drop]
    simp [replaceM, replaceFuel]
  · unfold replaceM
    exact replaceFuel_eq a b ha _ s start (by omega)

theorem replace_empty_pattern (s b : S) (start : Int) : replaceM s [] b start = s := by
  simp [replaceM, replaceFuel]

/-- nothing to replace: the pattern does not occur -/
theorem replace_of_not_contains (s a b : S) (h : containsM s a = false) : replaceM s a b 0 = s := by
  rw [replaceM_unfold]
  split
  · rfl
  · have : findM s a 0 = -1 := by
      have := (contains_iff_find s a).not
      rw [h] at this
      rcases find_range s a 0 with h' | ⟨h', _⟩
      · exact h'
      · exact absurd (by unfold findM; omega) (this.mp (by simp))
    simp [this]

example : replaceM ['a', 'a', 'a'] ['a', 'a'] ['b'] 0 = ['b', 'a'] := by decide
example : replaceM ['a', 'b', 'c'] ['b'] ['b', 'b'] 0 = ['a', 'b', 'b', 'c'] := by decide
example : replaceM ['a', 'b', 'a', 'b'] ['a'] ['x'] 1 = ['a', 'b', 'x', 'b'] := by decide
example : substAll ['a', 'a', 'a'] ['a', 'a'] ['b'] = ['b', 'a'] := by
  rw [substAll_of_prefix _ (by simp) (by decide)]
  simp only [List.length_cons, List.length_nil, List.drop_succ_cons, List.drop_zero]
  rw [substAll_of_not_prefix _ _ _ _ (by decide), substAll_nil]
  rfl
/-- non-vacuity of `replaceFuel_stable` -/
example : ['a', 'b'].length - (0 : Int).toNat < 5 := by decide

/-! ## 4. `reverse`, `trim`, `upper`, `lower`, `chr`, `ord` -/

theorem reverse_eq (s : S) : reverseM s = s.reverse := by
  unfold reverseM
  rw [foldl_cons_eq, List.append_nil]

theorem reverse_involutive (s : S) : reverseM (reverseM s) = s := by
  rw [reverse_eq, reverse_eq, List.reverse_reverse]

theorem reverse_append (a b : S) : reverseM (concat a b) = concat (reverseM b) (reverseM a) := by
  simp [reverse_eq, concat]

theorem length_reverse (s : S) : lengthM (reverseM s) = lengthM s := by
  simp [reverse_eq, lengthM]

theorem trim_idempotent (s : S) : trimM (trimM s) = trimM s := by
  rw [trimM_eq s, trimM_eq, dropWhile_rdropWhile_dropWhile, List.rdropWhile_idempotent]

/-- `trim` removes a prefix and a suffix made of white space only, and what remains neither
    starts nor ends with white space -/
theorem trim_spec (s : S) :
    ∃ l r, s = l ++ trimM s ++ r ∧ (∀ c ∈ l, pyIsSpace c = true) ∧ (∀ c ∈ r, pyIsSpace c = true) ∧
      (∀ c, (trimM s).head? = some c → pyIsSpace c = false) ∧
      (∀ c, (trimM s).getLast? = some c → pyIsSpace c = false) := by
  refine ⟨s.takeWhile pyIsSpace, ((s.dropWhile pyIsSpace).reverse.takeWhile pyIsSpace).reverse, ?_, ?_, ?_, ?_, ?_⟩
  · have h1 : s = s.takeWhile pyIsSpace ++ s.dropWhile pyIsSpace := (List.takeWhile_append_dropWhile).symm
    have h2 : (s.dropWhile pyIsSpace) = trimM s ++ ((s.dropWhile pyIsSpace).reverse.takeWhile pyIsSpace).reverse := by
      unfold trimM
      rw [← List.reverse_append, List.takeWhile_append_dropWhile, List.reverse_reverse]
    rw [List.append_assoc, ← h2]
    exact h1
  · intro c hc; exact (List.mem_takeWhile_imp hc)
  · intro c hc
    rw [List.mem_reverse] at hc
    exact (List.mem_takeWhile_imp hc)
  · intro c hc
    have hid := dropWhile_rdropWhile_dropWhile pyIsSpace s
    rw [← trimM_eq] at hid
    cases ht : trimM s with
    | nil => rw [ht] at hc; simp at hc
    | cons d ds =>
      rw [ht] at hc hid
      simp only [List.head?_cons, Option.some.injEq] at hc
      subst hc
      by_contra hsp
      have hsp' : pyIsSpace d = true := by simpa using hsp
      rw [List.dropWhile_cons_of_pos hsp'] at hid
      have := congrArg List.length hid
      have hle := (List.dropWhile_suffix (l := ds) pyIsSpace).length_le
      simp only [List.length_cons] at this
      omega
  · intro c hc
    have hid : (trimM s).rdropWhile pyIsSpace = trimM s := by
      rw [trimM_eq, List.rdropWhile_idempotent]
    rw [List.rdropWhile_eq_self_iff] at hid
    have hne : trimM s ≠ [] := by
      intro h; rw [h] at hc; simp at hc
    have := hid hne
    rw [List.getLast?_eq_getLast_of_ne_nil hne] at hc
    simp only [Option.some.injEq] at hc
    rw [hc] at this
    simpa using this

/-- a string without leading/trailing white space is unchanged -/
theorem trim_of_clean (s : S) (h1 : ∀ c, s.head? = some c → pyIsSpace c = false)
    (h2 : ∀ c, s.getLast? = some c → pyIsSpace c = false) : trimM s = s := by
  have e1 : s.dropWhile pyIsSpace = s := by
    cases s with
    | nil => rfl
    | cons c cs => exact List.dropWhile_cons_of_neg (by simp [h1 c rfl])
  rw [trimM_eq, e1, List.rdropWhile_eq_self_iff]
  intro hne
  have := h2 (s.getLast hne) (List.getLast?_eq_getLast_of_ne_nil hne)
  simp [this]

/-- ASCII upper-casing is idempotent (the model maps a–z only) -/
theorem upper_idempotent (s : S) : upperM (upperM s) = upperM s := by
  simp [upperM, List.map_map, Function.comp_def, upperC_idem]

theorem lower_idempotent (s : S) : lowerM (lowerM s) = lowerM s := by
  simp [lowerM, List.map_map, Function.comp_def, lowerC_idem]

theorem lower_upper_lower (s : S) : lowerM (upperM (lowerM s)) = lowerM s := by
  simp [lowerM, upperM, List.map_map, Function.comp_def, lowerC_upperC_lowerC]

theorem upper_lower_upper (s : S) : upperM (lowerM (upperM s)) = upperM s := by
  simp [lowerM, upperM, List.map_map, Function.comp_def, upperC_lowerC_upperC]

theorem length_upper_lower (s : S) : lengthM (upperM s) = lengthM s ∧ lengthM (lowerM s) = lengthM s := by
  simp [lengthM, upperM, lowerM]

/-- valid (non-surrogate) code points: `ord(chr(n)) = n` -/
theorem chr_ord (n : Int) (h0 : 0 ≤ n) (h1 : n < 0x110000) (hs : ¬ (0xD800 ≤ n ∧ n ≤ 0xDFFF)) :
    ∃ c, chrM n = .ok [c] ∧ ordM [c] = .ok n := by
  refine ⟨Char.ofNat n.toNat, ?_, ?_⟩
  · unfold chrM
    rw [if_neg (by omega), if_neg hs]
  · show Res.ok ((Char.ofNat n.toNat).toNat : Int) = Res.ok n
    have hv : n.toNat.isValidChar := by
      unfold Nat.isValidChar
      omega
    rw [toNat_ofNat_of_valid _ hv]
    congr 1
    omega

/-- one-character strings: `chr(ord(c)) = c` -/
theorem ord_chr (c : Char) : ordM [c] = .ok (c.toNat : Int) ∧ chrM (c.toNat : Int) = .ok [c] := by
  refine ⟨rfl, ?_⟩
  have hv := c.valid
  unfold chrM
  have hv' : c.toNat < 0xD800 ∨ (0xDFFF < c.toNat ∧ c.toNat < 0x110000) := hv
  rw [if_neg (by omega), if_neg (by omega)]
  simp

/-- `chr` raises exactly outside `range(0x110000)`; `ord` raises exactly on the empty string -/
theorem chr_err_iff (n : Int) : chrM n = .err ↔ (n < 0 ∨ n ≥ 0x110000) := by
  unfold chrM
  split
  · simp [*]
  · split <;> simp [*]

theorem ord_err_iff (s : S) : ordM s = .err ↔ s = [] := by
  cases s <;> simp [ordM]

example : chrM 97 = .ok ['a'] ∧ ordM ['a', 'b'] = .ok 97 := by decide
example : (0 : Int) ≤ 8364 ∧ (8364 : Int) < 0x110000 ∧ ¬ ((0xD800 : Int) ≤ 8364 ∧ (8364 : Int) ≤ 0xDFFF) := by decide
example : trimM [' ', '\t', 'a', ' ', 'b', '\n'] = ['a', ' ', 'b'] := by decide
example : upperM ['a', 'Z', '{', '1'] = ['A', 'Z', '{', '1'] ∧ lowerM ['A', 'z', '@'] = ['a', 'z', '@'] := by decide
example : reverseM ['a', 'b', 'c'] = ['c', 'b', 'a'] := by decide

/-! ## 5. `s(template)`: string interpolation

  `ev` is the evaluator of the expression text inside `{…}` (parameter), `rnd` the rounding of
  `#.digits` (parameter).  `Renders ev rnd e out` (Lemmas/C18Interp) says that the placeholder
  body `e` renders to `out`: `splitVar e = some (var, sp)`, `ev var = ok val`,
  `convertM rnd sp val = ok val'`, `out = padM sp val'`. -/

/-- the fuel of the scanning loop always suffices -/
theorem sLoop_fuel_enough (ev : S → Res S) (rnd : S → Nat → Res S) (s : S) (n : Nat) (hn : s.length < n) :
    sLoop ev rnd n s 0 = sM ev rnd s :=
  sLoop_fuel_stable ev rnd n _ s 0 (by simpa using hn) (by simp)

/-- the padding loop in closed form -/
theorem pad_leading (sp : Spec) (v : S) (h : sp.leading = true) :
    padM sp v = List.replicate (sp.width - v.length) ' ' ++ v := by
  unfold padM; rw [h, padLoop_leading]

theorem pad_zeroes (sp : Spec) (v : S) (h : sp.leading = false) (hz : sp.zeroes = true) :
    padM sp v = List.replicate (sp.width - v.length) '0' ++ v := by
  unfold padM; rw [h, hz, padLoop_zeroes]

theorem pad_trailing (sp : Spec) (v : S) (h : sp.leading = false) (hz : sp.zeroes = false) :
    padM sp v = v ++ List.replicate (sp.width - v.length) ' ' := by
  unfold padM; rw [h, hz, padLoop_trailing]

/-- the padded value has length `max width len(value)`; the value is never truncated -/
theorem length_pad (sp : Spec) (v : S) : (padM sp v).length = max sp.width v.length := by
  cases hl : sp.leading
  · cases hz : sp.zeroes
    · rw [pad_trailing sp v hl hz]; simp only [List.length_append, List.length_replicate]; omega
    · rw [pad_zeroes sp v hl hz]; simp only [List.length_append, List.length_replicate]; omega
  · rw [pad_leading sp v hl]; simp only [List.length_append, List.length_replicate]; omega

/-- `{name}`: the rendering is the evaluated value itself -/
theorem renders_plain (ev : S → Res S) (rnd : S → Nat → Res S) (name val : S) (h : '#' ∉ name)
    (hev : ev name = .ok val) : Renders ev rnd name val :=
  ⟨name, {}, val, val, splitVar_plain name h, hev, rfl, (padLoop_zero_width {} val (Nat.zero_le _)).symm⟩

/-- `{name#spec}` without hex / digits: the padded value -/
theorem renders_spec (ev : S → Res S) (rnd : S → Nat → Res S) (name spec val : S) (sp : Spec)
    (h : '#' ∉ name) (hsp : parseSpec spec = some sp) (hx : sp.hex = false) (hd : sp.digits = none)
    (hev : ev name = .ok val) : Renders ev rnd (name ++ '#' :: spec) (padM sp val) := by
  refine ⟨name, sp, val, val, ?_, hev, ?_, rfl⟩
  · rw [splitVar_spec name spec h, hsp]; rfl
  · unfold convertM; rw [hx, hd]; rfl

/-- text without `{` is returned unchanged -/
theorem interp_no_placeholder (ev : S → Res S) (rnd : S → Nat → Res S) (t : S) (h : '{' ∉ t) :
    sM ev rnd t = .ok t := by
  have := sLoop_done ev rnd t.length [] t h
  simpa [sM] using this

/-- an opening brace that is never closed: unchanged -/
theorem interp_unclosed (ev : S → Res S) (rnd : S → Nat → Res S) (l r : S) (hl : '{' ∉ l) (hr : '}' ∉ r) :
    sM ev rnd (l ++ '{' :: r) = .ok (l ++ '{' :: r) := by
  have := sLoop_unclosed ev rnd (l ++ '{' :: r).length [] l r hl hr
  simpa [sM] using this

/-- ONE placeholder: `l0 ++ "{" ++ e ++ "}" ++ l1` becomes `l0 ++ out ++ l1`; the literal
    parts are unchanged and the inserted text is NOT scanned again -/
theorem interp_spec_one (ev : S → Res S) (rnd : S → Nat → Res S) (l0 e l1 out : S)
    (h0 : '{' ∉ l0) (he : '}' ∉ e) (h1 : '{' ∉ l1) (hr : Renders ev rnd e out) :
    sM ev rnd (l0 ++ '{' :: (e ++ '}' :: l1)) = .ok (l0 ++ out ++ l1) := by
  have := sLoop_pieces ev rnd [⟨e, out, l1⟩] ((l0 ++ '{' :: (e ++ '}' :: l1)).length + 1) [] l0
    (by simp only [List.length_cons, List.length_nil, List.length_append]; omega) h0 (by simp [he, h1, hr])
  simpa [sM, tmplTail, outTail] using this

/-- GENERAL form: `l0 ++ {e1} ++ l1 ++ {e2} ++ l2 ++ …` becomes `l0 ++ out1 ++ l1 ++ out2 ++ l2 ++ …`
    when no literal part contains `{`, no placeholder body contains `}`, and every body renders -/
theorem interp_spec (ev : S → Res S) (rnd : S → Nat → Res S) (l0 : S) (ps : List Piece)
    (h0 : '{' ∉ l0)
    (h : ∀ p ∈ ps, '}' ∉ p.body ∧ '{' ∉ p.lit ∧ Renders ev rnd p.body p.out) :
    sM ev rnd (l0 ++ tmplTail ps) = .ok (l0 ++ outTail ps) := by
  have := sLoop_pieces ev rnd ps ((l0 ++ tmplTail ps).length + 1) [] l0
    (by have := length_tmplTail ps; simp only [List.length_append]; omega) h0 h
  simpa [sM] using this

/-- `{name}` -/
theorem interp_plain (ev : S → Res S) (rnd : S → Nat → Res S) (l0 name l1 val : S)
    (h0 : '{' ∉ l0) (hn : '}' ∉ name) (hh : '#' ∉ name) (h1 : '{' ∉ l1) (hev : ev name = .ok val) :
    sM ev rnd (l0 ++ '{' :: (name ++ '}' :: l1)) = .ok (l0 ++ val ++ l1) :=
  interp_spec_one ev rnd l0 name l1 val h0 hn h1 (renders_plain ev rnd name val hh hev)

theorem digits_no_close (ds : S) (h : ds.all isDigitC = true) : '}' ∉ ds := by
  intro hm
  have := (List.all_eq_true.mp h) '}' hm
  revert this; decide

/-- `{name#W}` (W a digit string not starting with 0): leading spaces up to width W -/
theorem interp_pad_leading (ev : S → Res S) (rnd : S → Nat → Res S) (l0 name ds l1 val : S)
    (h0 : '{' ∉ l0) (hn : '}' ∉ name) (hh : '#' ∉ name) (h1 : '{' ∉ l1)
    (hd : ds.all isDigitC = true) (hd0 : ds.head? ≠ some '0') (hev : ev name = .ok val) :
    sM ev rnd (l0 ++ '{' :: (name ++ '#' :: ds ++ '}' :: l1))
      = .ok (l0 ++ (List.replicate (digitsVal ds 0 - val.length) ' ' ++ val) ++ l1) := by
  have hr := renders_spec ev rnd name ds val _ hh (parseSpec_digits ds hd hd0) rfl rfl hev
  rw [pad_leading _ _ rfl] at hr
  refine interp_spec_one ev rnd l0 (name ++ '#' :: ds) l1 _ h0 ?_ h1 hr
  simp only [List.mem_append, List.mem_cons, not_or]
  exact ⟨hn, by decide, digits_no_close ds hd⟩

/-- `{name#-W}`: trailing spaces -/
theorem interp_pad_trailing (ev : S → Res S) (rnd : S → Nat → Res S) (l0 name ds l1 val : S)
    (h0 : '{' ∉ l0) (hn : '}' ∉ name) (hh : '#' ∉ name) (h1 : '{' ∉ l1)
    (hd : ds.all isDigitC = true) (hd0 : ds.head? ≠ some '0') (hev : ev name = .ok val) :
    sM ev rnd (l0 ++ '{' :: (name ++ '#' :: '-' :: ds ++ '}' :: l1))
      = .ok (l0 ++ (val ++ List.replicate (digitsVal ds 0 - val.length) ' ') ++ l1) := by
  have hr := renders_spec ev rnd name ('-' :: ds) val _ hh (parseSpec_minus_digits ds hd hd0) rfl rfl hev
  rw [pad_trailing _ _ rfl rfl] at hr
  refine interp_spec_one ev rnd l0 (name ++ '#' :: '-' :: ds) l1 _ h0 ?_ h1 hr
  simp only [List.mem_append, List.mem_cons, not_or]
  exact ⟨hn, by decide, by decide, digits_no_close ds hd⟩

/-- `{name#0W}`: leading zeroes -/
theorem interp_pad_zeroes (ev : S → Res S) (rnd : S → Nat → Res S) (l0 name ds l1 val : S)
    (h0 : '{' ∉ l0) (hn : '}' ∉ name) (hh : '#' ∉ name) (h1 : '{' ∉ l1)
    (hd : ds.all isDigitC = true) (hev : ev name = .ok val) :
    sM ev rnd (l0 ++ '{' :: (name ++ '#' :: '0' :: ds ++ '}' :: l1))
      = .ok (l0 ++ (List.replicate (digitsVal ds 0 - val.length) '0' ++ val) ++ l1) := by
  have hr := renders_spec ev rnd name ('0' :: ds) val _ hh (parseSpec_zero_digits ds hd) rfl rfl hev
  rw [pad_zeroes _ _ rfl rfl] at hr
  refine interp_spec_one ev rnd l0 (name ++ '#' :: '0' :: ds) l1 _ h0 ?_ h1 hr
  simp only [List.mem_append, List.mem_cons, not_or]
  exact ⟨hn, by decide, by decide, digits_no_close ds hd⟩

/-- the evaluation of the first placeholder raises: the call raises -/
theorem interp_err (ev : S → Res S) (rnd : S → Nat → Res S) (l0 name rest : S)
    (h0 : '{' ∉ l0) (hn : '}' ∉ name) (hh : '#' ∉ name) (hev : ev name = .err) :
    sM ev rnd (l0 ++ '{' :: (name ++ '}' :: rest)) = .err := by
  have := sLoop_step_err ev rnd (l0 ++ '{' :: (name ++ '}' :: rest)).length [] l0 name rest name {}
    h0 hn (splitVar_plain name hh) hev
  simpa [sM] using this

/-- `#…x`: the model's hexadecimal digits are the library's `Nat.toDigits 16` -/
theorem toHex_eq (n : Nat) : toHex n = Nat.toDigits 16 n := hexFuel_eq (n + 1) n []

/-- `{name#x}` on a value that is a digit string: `f"{int(value):x}"` -/
theorem renders_hex (ev : S → Res S) (rnd : S → Nat → Res S) (name val : S)
    (h : '#' ∉ name) (hev : ev name = .ok val) (hv : val ≠ []) (hd : val.all isDigitC = true) :
    Renders ev rnd (name ++ ['#', 'x']) (Nat.toDigits 16 (digitsVal val 0)) := by
  refine ⟨name, { hex := true }, val, toHex (digitsVal val 0), ?_, hev, ?_, ?_⟩
  · rw [splitVar_spec name ['x'] h]; rfl
  · unfold convertM hexOf
    simp [hv, hd]
  · rw [padLoop_zero_width _ _ (Nat.zero_le _), toHex_eq]

section examples
/-- a sample evaluator: `x ↦ "ab"`, `n ↦ "255"`, everything else raises -/
def evSample : S → Res S := fun v => if v = ['x'] then .ok ['a', 'b'] else if v = ['n'] then .ok ['2', '5', '5'] else .err

example : sM evSample noRound ['<', '{', 'x', '#', '5', '}', '|', '{', 'x', '#', '-', '4', '}', '|', '{', 'x', '#', '0', '3', '}', '>']
    = .ok ['<', ' ', ' ', ' ', 'a', 'b', '|', 'a', 'b', ' ', ' ', '|', '0', 'a', 'b', '>'] := by decide
example : sM evSample noRound ['{', 'n', '#', 'x', '}', ' ', '{', 'n', '#', '0', '4', 'x', '}'] = .ok ['f', 'f', ' ', '0', '0', 'f', 'f'] := by decide
example : sM evSample noRound ['{', 'y', '}'] = .err ∧ sM evSample noRound ['{', 'x', '#', '.', '2', '}'] = .unsup ∧
    sM evSample noRound ['a', '{', 'x'] = .ok ['a', '{', 'x'] := by decide
/-- non-vacuity of `interp_spec`: two placeholders -/
example : Renders evSample noRound ['x'] ['a', 'b'] := renders_plain _ _ _ _ (by decide) rfl
example : Renders evSample noRound ['n', '#', '5'] [' ', ' ', '2', '5', '5'] :=
  renders_spec evSample noRound ['n'] ['5'] ['2', '5', '5'] { width := 5 } (by decide) (by decide) rfl rfl rfl
end examples

end Ckl.C18
