/-
  C02 — operators: exact integer arithmetic, truncating division, floored modulus, NULL
  propagation, and the kind of the result of `+ - *` on numbers.
  All statements are about the modelled built-ins `nativeAdd` … `nativeMod` (`FuncAdd` …
  `FuncMod` of functions.py), which is what the operators `+ - * / %` parse to.
-/
import CklVerif.Lemmas.C02Int
import CklVerif.Proofs.C04

namespace Ckl.C02
open Ckl

/-! ### 1: exact (unbounded) integer arithmetic, state untouched -/

theorem int_add_exact (a b : Int) (pos : Pos) (s : State) :
    nativeAdd (.int a) (.int b) pos s = .ok (.int (a + b)) s := rfl

theorem int_sub_exact (a b : Int) (pos : Pos) (s : State) :
    nativeSub (.int a) (.int b) pos s = .ok (.int (a - b)) s := rfl

theorem int_mul_exact (a b : Int) (pos : Pos) (s : State) :
    nativeMul (.int a) (.int b) pos s = .ok (.int (a * b)) s := rfl

/-! ### 2: integer division truncates towards zero -/

theorem truncDiv_eq_tdiv (a b : Int) : truncDiv a b = Int.tdiv a b := Ckl.truncDiv_eq_tdiv a b

/-- `a / b` on ints is `Int.tdiv a b` (rounding towards zero): with `q` the quotient, the remainder
    `a - q*b` is smaller in magnitude than `b` and is zero or has the sign of the dividend -/
theorem int_div_trunc (a : Int) {b : Int} (hb : b ≠ 0) (d0 : Option RVal) (pos : Pos) (s : State) :
    nativeDiv (.int a) (.int b) d0 pos s = .ok (.int (Int.tdiv a b)) s ∧
    (a - Int.tdiv a b * b).natAbs < b.natAbs ∧
    (a - Int.tdiv a b * b = 0 ∨ (a - Int.tdiv a b * b).sign = a.sign) := by
  refine ⟨?_, ?_, ?_⟩
  · show (if b = 0 then _ else _ : EvalM RVal) s = _
    rw [if_neg hb, Ckl.truncDiv_eq_tdiv]; rfl
  · rw [sub_tdiv_mul]; exact tmod_natAbs_lt a hb
  · rw [sub_tdiv_mul]; exact tmod_zero_or_sign a b

example : nativeDiv (.int (-7)) (.int 2) none {} {} = .ok (.int (-3)) {} :=
  (int_div_trunc (-7) (by decide) none {} {}).1

/-- the quotient is the unique integer with these two properties -/
theorem tdiv_unique {a b q : Int} (hb : b ≠ 0) (h1 : (a - q * b).natAbs < b.natAbs)
    (h2 : a - q * b = 0 ∨ (a - q * b).sign = a.sign) : q = Int.tdiv a b := by
  have e := Int.mul_tdiv_add_tmod a b
  have t1 := tmod_natAbs_lt a hb
  have t2 := tmod_zero_or_sign a b
  generalize Int.tdiv a b = q' at *
  generalize Int.tmod a b = r' at *
  generalize hr : a - q * b = r at *
  have e2 : b * (q - q') = r' - r := by
    have : b * (q - q') = b * q - b * q' := Int.mul_sub b q q'
    have : q * b = b * q := Int.mul_comm q b
    omega
  -- |r' - r| < |b| since both remainders are 0 or of the sign of `a`
  have hlt : (r' - r).natAbs < b.natAbs := by
    rcases h2 with h2 | h2 <;> rcases t2 with t2 | t2
    · subst h2 t2; simp; omega
    · subst h2; simpa using t1
    · subst t2; simpa using h1
    · have : r.sign = r'.sign := h2.trans t2.symm
      rcases Int.lt_trichotomy r 0 with hr0 | hr0 | hr0
      · rw [Int.sign_eq_neg_one_of_neg hr0] at this
        have : r' < 0 := Int.sign_eq_neg_one_iff_neg.mp this.symm
        omega
      · subst hr0; simpa using t1
      · rw [Int.sign_eq_one_of_pos hr0] at this
        have : 0 < r' := Int.sign_eq_one_iff_pos.mp this.symm
        omega
  rw [← e2, Int.natAbs_mul] at hlt
  have : (q - q').natAbs = 0 := by
    rcases Nat.eq_zero_or_pos (q - q').natAbs with h | h
    · exact h
    · have := Nat.le_mul_of_pos_right b.natAbs h
      omega
  omega

example : (7 - 3 * 2 : Int).natAbs < (2 : Int).natAbs ∧ ((7 - 3 * 2 : Int) = 0 ∨ (7 - 3 * 2 : Int).sign = (7 : Int).sign) := by
  decide

/-- division by the integer zero: `DIV_0_VALUE` when defined, otherwise the runtime error -/
theorem int_div_zero (a : Int) (pos : Pos) (s : State) :
    nativeDiv (.int a) (.int 0) none pos s = .err (.str ['E', 'R', 'R', 'O', 'R']) "divide by zero" pos [] s ∧
    ∀ v, nativeDiv (.int a) (.int 0) (some v) pos s = .ok v s :=
  ⟨rfl, fun _ => rfl⟩

/-! ### 3: `%` on ints is the floored modulus -/

/-- `a % b` is `Int.fmod a b`: smaller in magnitude than `b`, congruent to `a`, zero or of the sign
    of the divisor -/
theorem int_mod_spec (a : Int) {b : Int} (hb : b ≠ 0) (pos : Pos) (s : State) :
    nativeMod (.int a) (.int b) pos s = .ok (.int (Int.fmod a b)) s ∧
    (Int.fmod a b).natAbs < b.natAbs ∧ b ∣ a - Int.fmod a b ∧
    (Int.fmod a b = 0 ∨ (Int.fmod a b).sign = b.sign) := by
  refine ⟨?_, fmod_natAbs_lt a hb, dvd_sub_fmod a b, fmod_zero_or_sign a hb⟩
  show (if b = 0 then _ else _ : EvalM RVal) s = _
  rw [if_neg hb]; rfl

example : nativeMod (.int (-7)) (.int 2) {} {} = .ok (.int 1) {} :=
  (int_mod_spec (-7) (by decide) {} {}).1
example : nativeMod (.int 7) (.int (-2)) {} {} = .ok (.int (-1)) {} :=
  (int_mod_spec 7 (by decide) {} {}).1

theorem int_mod_zero (a : Int) (pos : Pos) (s : State) :
    nativeMod (.int a) (.int 0) pos s =
      .err (.str ['E', 'R', 'R', 'O', 'R']) "mod failed: ZeroDivisionError: integer modulo by zero" pos [] s := rfl

/-! ### 4: NULL propagation -/

theorem add_null {a b : RVal} (h : a = .null ∨ b = .null) (pos : Pos) (s : State) :
    nativeAdd a b pos s = .ok .null s := by
  have : (a.isNull || b.isNull) = true := by rcases h with rfl | rfl <;> simp [RVal.isNull]
  unfold nativeAdd
  simp only [bind, EvalM.bind', getS, this]
  rfl

theorem mul_null {a b : RVal} (h : a = .null ∨ b = .null) (pos : Pos) (s : State) :
    nativeMul a b pos s = .ok .null s := by
  have : (a.isNull || b.isNull) = true := by rcases h with rfl | rfl <;> simp [RVal.isNull]
  unfold nativeMul
  simp only [bind, EvalM.bind', getS, this]
  rfl

theorem div_null {a b : RVal} (h : a = .null ∨ b = .null) (d0 : Option RVal) (pos : Pos) (s : State) :
    nativeDiv a b d0 pos s = .ok .null s := by
  have : (a.isNull || b.isNull) = true := by rcases h with rfl | rfl <;> simp [RVal.isNull]
  unfold nativeDiv
  simp only [bind, EvalM.bind', getS, this]
  rfl

theorem mod_null {a b : RVal} (h : a = .null ∨ b = .null) (pos : Pos) (s : State) :
    nativeMod a b pos s = .ok .null s := by
  have : (a.isNull || b.isNull) = true := by rcases h with rfl | rfl <;> simp [RVal.isNull]
  unfold nativeMod
  simp only [bind, EvalM.bind', getS, this]
  rfl


/-- a value that `FuncSub` does not dispatch on before its NULL test: not a list or set cell and not
    a date (`FuncSub.execute` tests list − x, set − x and date − x BEFORE the NULL test) -/
def SubPlain (s : State) : RVal → Prop
  | .ref a => ∀ xs, s.cell a ≠ some (.list xs) ∧ s.cell a ≠ some (.set xs)
  | .date _ => False
  | _ => True

/-- `nativeSub` returns NULL for a NULL operand provided the *first* operand is not a list, a set or
    a date.  (`[1] - null` is a runtime error, `<<null>> - null` is `<<>>`, `date - null` is outside the
    model.)  Nothing needs to be assumed about the second operand. -/
theorem sub_null {a b : RVal} (h : a = .null ∨ b = .null) (pos : Pos) (s : State)
    (ha : SubPlain s a) : nativeSub a b pos s = .ok .null s := by
  have hn : (a.isNull || b.isNull) = true := by rcases h with rfl | rfl <;> simp [RVal.isNull]
  unfold nativeSub
  simp only [bind, EvalM.bind', getS]
  cases a with
  | ref x =>
    have h1 := ha
    simp only [SubPlain] at h1
    simp only [cellOf]
    cases hc : s.cell x with
    | none => simp only [hn]; cases b <;> rfl
    | some c =>
      cases c with
      | list xs => exact absurd hc (h1 xs).1
      | set xs => exact absurd hc (h1 xs).2
      | _ => simp only [hn]; cases b <;> rfl
  | date d => exact ha.elim
  | _ => simp only [cellOf, hn] <;> cases b <;> first | rfl | simp [RVal.isNull] at hn

example : SubPlain {} .null ∧ SubPlain {} (.int 3) := ⟨trivial, trivial⟩

/-- the container cases really come first: `[null] - null` is the runtime error "Cannot convert to
    list" and `<<null>> - null` is a new empty set — neither is NULL -/
example : nativeSub (.ref 0) .null {} { heap := #[.list [.null]] } =
    .err (.str ['E', 'R', 'R', 'O', 'R']) "Cannot convert to list" {} [] { heap := #[.list [.null]] } := by
  simp [nativeSub, bind, EvalM.bind', getS, cellOf, State.cell, throwE, throwV]

example : nativeSub (.ref 0) .null {} { heap := #[.set [.null]] } =
    .ok (.ref 1) { heap := #[.set [.null], .set []] } := by
  simp [nativeSub, bind, EvalM.bind', getS, cellOf, State.cell, allocM, State.alloc, memR, rveq, rveqF]

/-- all four in one statement -/
theorem arith_null {a b : RVal} (h : a = .null ∨ b = .null) (d0 : Option RVal) (pos : Pos) (s : State) :
    nativeAdd a b pos s = .ok .null s ∧ nativeMul a b pos s = .ok .null s ∧
    nativeDiv a b d0 pos s = .ok .null s ∧ nativeMod a b pos s = .ok .null s ∧
    (SubPlain s a → nativeSub a b pos s = .ok .null s) :=
  ⟨add_null h pos s, mul_null h pos s, div_null h d0 pos s, mod_null h pos s, sub_null h pos s⟩


/-! ### 5: kind of the result of `+ - *` on numbers

  For numeric operands (int or decimal) the result, when there is one, is numeric, the state is
  untouched, and the result is an int exactly when both operands are ints; with a decimal operand
  it is a decimal (`floatResult`).  (Decimal arithmetic itself is the machine's binary64 operation,
  opaque to the kernel, so the non-vacuity examples use int operands; the decimal cases are
  exercised by the differential check.) -/

theorem floatResult_ok {x : Float} {pos : Pos} {w : String} {s s' : State} {v : RVal}
    (h : floatResult x pos w s = .ok v s') : s' = s ∧ ∃ m e, v = .dec m e := by
  unfold floatResult at h
  cases hx : floatToDyadic x with
  | none => rw [hx] at h; cases h
  | some p => obtain ⟨m, e⟩ := p; rw [hx] at h; cases h; exact ⟨rfl, _, _, rfl⟩

theorem add_kind {a b v : RVal} {pos : Pos} {s s' : State} (ha : a.isNumerical = true) (hb : b.isNumerical = true)
    (h : nativeAdd a b pos s = .ok v s') :
    s' = s ∧ v.isNumerical = true ∧ (v.isInt = true ↔ (a.isInt = true ∧ b.isInt = true)) := by
  cases a <;> simp [RVal.isNumerical, RVal.isInt, RVal.isDecimal] at ha <;>
  cases b <;> simp [RVal.isNumerical, RVal.isInt, RVal.isDecimal] at hb
  · cases h; simp [RVal.isNumerical, RVal.isInt]
  all_goals
    unfold nativeAdd at h
    simp only [bind, EvalM.bind', getS, RVal.isNull, RVal.isNumerical, RVal.isInt, RVal.isDecimal, Bool.or_self, Bool.false_eq_true, if_false, Bool.or_true, Bool.or_false, Bool.and_self, if_true, pure] at h
    generalize numAsFloat _ = fa at h
    generalize numAsFloat _ = fb at h
    cases fa <;> cases fb <;>
      first
      | (obtain ⟨rfl, m, e, rfl⟩ := floatResult_ok h
         simp [RVal.isNumerical, RVal.isInt, RVal.isDecimal])
      | (simp [EvalM.bind', throwE, throwV] at h)

theorem sub_kind {a b v : RVal} {pos : Pos} {s s' : State} (ha : a.isNumerical = true) (hb : b.isNumerical = true)
    (h : nativeSub a b pos s = .ok v s') :
    s' = s ∧ v.isNumerical = true ∧ (v.isInt = true ↔ (a.isInt = true ∧ b.isInt = true)) := by
  cases a <;> simp [RVal.isNumerical, RVal.isInt, RVal.isDecimal] at ha <;>
  cases b <;> simp [RVal.isNumerical, RVal.isInt, RVal.isDecimal] at hb
  · cases h; simp [RVal.isNumerical, RVal.isInt]
  all_goals
    unfold nativeSub at h
    simp only [bind, EvalM.bind', getS, cellOf, RVal.isNull, RVal.isNumerical, RVal.isInt, RVal.isDecimal, Bool.or_self, Bool.false_eq_true, if_false, Bool.or_true, Bool.or_false, Bool.and_self, if_true, pure] at h
    generalize numAsFloat _ = fa at h
    generalize numAsFloat _ = fb at h
    cases fa <;> cases fb <;>
      first
      | (obtain ⟨rfl, m, e, rfl⟩ := floatResult_ok h
         simp [RVal.isNumerical, RVal.isInt, RVal.isDecimal])
      | (simp [EvalM.bind', throwE, throwV] at h)

theorem mul_kind {a b v : RVal} {pos : Pos} {s s' : State} (ha : a.isNumerical = true) (hb : b.isNumerical = true)
    (h : nativeMul a b pos s = .ok v s') :
    s' = s ∧ v.isNumerical = true ∧ (v.isInt = true ↔ (a.isInt = true ∧ b.isInt = true)) := by
  cases a <;> simp [RVal.isNumerical, RVal.isInt, RVal.isDecimal] at ha <;>
  cases b <;> simp [RVal.isNumerical, RVal.isInt, RVal.isDecimal] at hb
  · cases h; simp [RVal.isNumerical, RVal.isInt]
  all_goals
    unfold nativeMul at h
    simp only [bind, EvalM.bind', getS, cellOf, RVal.isNull, RVal.isNumerical, RVal.isInt, RVal.isDecimal, Bool.or_self, Bool.false_eq_true, if_false, Bool.or_true, Bool.or_false, Bool.and_self, if_true, pure] at h
    generalize numAsFloat _ = fa at h
    generalize numAsFloat _ = fb at h
    cases fa <;> cases fb <;>
      first
      | (obtain ⟨rfl, m, e, rfl⟩ := floatResult_ok h
         simp [RVal.isNumerical, RVal.isInt, RVal.isDecimal])
      | (simp [EvalM.bind', throwE, throwV] at h)

example : (RVal.int 1).isNumerical = true ∧ (RVal.int 2).isNumerical = true ∧
    nativeAdd (.int 1) (.int 2) {} {} = .ok (.int 3) {} := ⟨rfl, rfl, rfl⟩
example : (RVal.dec 1 1).isNumerical = true ∧ (RVal.dec 1 1).isInt = false := ⟨rfl, rfl⟩

/-- with a decimal operand the result is a decimal -/
theorem arith_kind_dec {a b v : RVal} {pos : Pos} {s s' : State}
    (ha : a.isNumerical = true) (hb : b.isNumerical = true)
    (hd : a.isDecimal = true ∨ b.isDecimal = true) :
    (nativeAdd a b pos s = .ok v s' → v.isDecimal = true) ∧
    (nativeSub a b pos s = .ok v s' → v.isDecimal = true) ∧
    (nativeMul a b pos s = .ok v s' → v.isDecimal = true) := by
  have key : ∀ v : RVal, v.isNumerical = true →
      (v.isInt = true ↔ (a.isInt = true ∧ b.isInt = true)) → v.isDecimal = true := by
    intro v hv hi
    cases v <;> simp [RVal.isNumerical, RVal.isInt, RVal.isDecimal] at hv hi ⊢
    rcases hd with hd | hd
    · cases a <;> simp [RVal.isDecimal] at hd; simp at hi
    · cases b <;> simp [RVal.isDecimal] at hd; simp at hi
  exact ⟨fun h => key v (add_kind ha hb h).2.1 (add_kind ha hb h).2.2,
    fun h => key v (sub_kind ha hb h).2.1 (sub_kind ha hb h).2.2,
    fun h => key v (mul_kind ha hb h).2.1 (mul_kind ha hb h).2.2⟩

/-- **arith_kind** -/
theorem arith_kind {a b v : RVal} {pos : Pos} {s s' : State}
    (ha : a.isNumerical = true) (hb : b.isNumerical = true) :
    (nativeAdd a b pos s = .ok v s' →
      s' = s ∧ v.isNumerical = true ∧ (v.isInt = true ↔ (a.isInt = true ∧ b.isInt = true))) ∧
    (nativeSub a b pos s = .ok v s' →
      s' = s ∧ v.isNumerical = true ∧ (v.isInt = true ↔ (a.isInt = true ∧ b.isInt = true))) ∧
    (nativeMul a b pos s = .ok v s' →
      s' = s ∧ v.isNumerical = true ∧ (v.isInt = true ↔ (a.isInt = true ∧ b.isInt = true))) :=
  ⟨add_kind ha hb, sub_kind ha hb, mul_kind ha hb⟩

/-! ### 6: `and` / `or` (proved in `Proofs/C04.lean`) -/

theorem and_or_short_circuit (ld : Loader) {fuel env e es pos s s1} :
    (eval ld fuel env e s = .ok (.bool false) s1 →
      eval ld (fuel+2) env (.and (e :: es) pos) s = .ok (.bool false) s1) ∧
    (eval ld fuel env e s = .ok (.bool true) s1 →
      eval ld (fuel+2) env (.or (e :: es) pos) s = .ok (.bool true) s1) :=
  Ckl.C04.and_or_short_circuit ld

/-- `and` / `or` accept booleans only: a non-boolean clause is the runtime error -/
theorem and_or_boolean_only (ld : Loader) {fuel env e es pos s v s1}
    (h : eval ld fuel env e s = .ok v s1) (hv : v.isBoolean = false) :
    eval ld (fuel+2) env (.and (e :: es) pos) s =
      throwE ("Expected boolean but got " ++ typeName s1 v) pos s1 ∧
    eval ld (fuel+2) env (.or (e :: es) pos) s =
      throwE ("Expected boolean but got " ++ typeName s1 v) pos s1 :=
  ⟨by rw [Ckl.C04.eval_and]; exact Ckl.C04.evalAnd_nonbool ld h hv,
   by rw [Ckl.C04.eval_or]; exact Ckl.C04.evalOr_nonbool ld h hv⟩

example : eval Ckl.C04.ld0 3 0 (.and [Ckl.C04.One, Ckl.C04.F] {}) Ckl.C04.s0 =
    throwE ("Expected boolean but got " ++ typeName Ckl.C04.s0 (.int 1)) {} Ckl.C04.s0 :=
  (and_or_boolean_only Ckl.C04.ld0 (Ckl.C04.eval_lit_int Ckl.C04.ld0 0 0 1 {} Ckl.C04.s0) rfl).1

/-! ### 7: `not` -/

theorem eval_not_bool (ld : Loader) {fuel env e pos s b s1}
    (h : eval ld fuel env e s = .ok (.bool b) s1) :
    eval ld (fuel+1) env (.not e pos) s = .ok (.bool (!b)) s1 := by
  rw [eval, EvalM.bind_apply, h]; rfl

/-- double negation of a boolean expression gives its value back -/
theorem not_involutive (ld : Loader) {fuel env e p1 p2 s b s1}
    (h : eval ld fuel env e s = .ok (.bool b) s1) :
    eval ld (fuel+2) env (.not (.not e p1) p2) s = .ok (.bool b) s1 := by
  rw [eval_not_bool ld (eval_not_bool ld h), Bool.not_not]

example : eval Ckl.C04.ld0 3 0 (.not (.not Ckl.C04.T {}) {}) Ckl.C04.s0 = .ok (.bool true) Ckl.C04.s0 :=
  not_involutive Ckl.C04.ld0 (Ckl.C04.eval_lit_bool Ckl.C04.ld0 0 0 true {} Ckl.C04.s0)

/-- `not` of a non-boolean is the runtime error -/
theorem not_boolean_only (ld : Loader) {fuel env e pos s v s1}
    (h : eval ld fuel env e s = .ok v s1) (hv : v.isBoolean = false) :
    eval ld (fuel+1) env (.not e pos) s =
      throwE ("Expected boolean but got " ++ typeName s1 v) pos s1 := by
  rw [eval, EvalM.bind_apply, h]
  cases v <;> first | rfl | cases hv

example : eval Ckl.C04.ld0 2 0 (.not Ckl.C04.One {}) Ckl.C04.s0 =
    throwE ("Expected boolean but got " ++ typeName Ckl.C04.s0 (.int 1)) {} Ckl.C04.s0 :=
  not_boolean_only Ckl.C04.ld0 (Ckl.C04.eval_lit_int Ckl.C04.ld0 0 0 1 {} Ckl.C04.s0) rfl

end Ckl.C02
