/-
  Layer 1 — sequence operations on strings (lists of code points) and lists
  (of values): dereference, slices, `substr`, `sublist`, `find`, `find_last`,
  `insert_at`, `delete_at`, as written in nodes.py / functions.py / values.py
  after the repairs.  Indices are unbounded `Int`.
  Results that are runtime errors in the code are `none`.
-/
namespace Ckl.Seq

variable {α : Type}

/-- `s[i]`: negative index counts from the end once; out of range is the runtime error -/
def deref (s : List α) (i : Int) : Option α :=
  let n : Int := s.length
  let j := if i < 0 then i + n else i
  if j < 0 ∨ j ≥ n then none else s[j.toNat]?

/-- Python `s[a:b]` for `0 ≤ a`, `0 ≤ b ≤ len` (the only way the code calls it) -/
def pySlice (s : List α) (a b : Int) : List α :=
  (s.drop a.toNat).take (b.toNat - a.toNat)

/-- `s[start to end]` (NodeDerefSlice); `e = none` is `to *` -/
def slice (s : List α) (start : Int) (e : Option Int) : List α :=
  let n : Int := s.length
  let en := e.getD n
  let start := if start < 0 then start + n else start
  let en := if en < 0 then en + n else en
  let start := if start < 0 then 0 else start
  let en := if en < 0 then 0 else en
  let en := if en > n then n else en
  pySlice s start en

/-- `substr(str, startidx, endidx)` / `sublist(lst, startidx, endidx)` -/
def substr (s : List α) (start : Int) (e : Option Int) : List α :=
  let n : Int := s.length
  let start := if start < 0 then n + start else start
  let start := if start < 0 then 0 else start
  if start > n then []
  else
    let en := e.getD n
    let en := if en < 0 then n + en else en
    let en := if en < 0 then 0 else en
    let en := if en > n then n else en
    pySlice s start en

/-- does `t` occur in `s` at position 0 -/
def isPrefixB [BEq α] : List α → List α → Bool
  | [], _ => true
  | _ :: _, [] => false
  | a :: as, b :: bs => a == b && isPrefixB as bs

/-- CPython `s.find(t, start)` for `start ≥ 0`: least position `p ≥ start` with `t` at `p`, else -1
    (`pos` is the absolute position of the head of the first argument) -/
def findFrom [BEq α] (t : List α) : List α → Nat → Nat → Int
  | [], pos, start => if pos ≥ start ∧ t.isEmpty then pos else -1
  | c :: cs, pos, start =>
    if pos ≥ start ∧ isPrefixB t (c :: cs) then pos else findFrom t cs (pos + 1) start

/-- `find(str, part, start)` on strings after the repair: negative start is clamped to 0 -/
def find [BEq α] (s t : List α) (start : Int) : Int :=
  findFrom t s 0 (if start < 0 then 0 else start.toNat)

/-- greatest position `p ≤ limit` with `t` at `p`, else -1: CPython `s.rfind(t, 0, limit + len t)` -/
def rfindUpTo [BEq α] (t : List α) : List α → Nat → Nat → Int → Int
  | [], pos, limit, best => if pos ≤ limit ∧ t.isEmpty then pos else best
  | c :: cs, pos, limit, best =>
    let best' := if pos ≤ limit ∧ isPrefixB t (c :: cs) then (pos : Int) else best
    rfindUpTo t cs (pos + 1) limit best'

/-- `find_last(str, part, start)`; `start = none` is the default (`len(s)`) -/
def findLast [BEq α] (s t : List α) (start : Option Int) : Int :=
  let st : Int := start.getD s.length
  if st < 0 then -1 else rfindUpTo t s 0 st.toNat (-1)

/-- `find(lst, item)` on lists with an equality test `eq` -/
def findIdx (eq : α → α → Bool) (x : α) : List α → Nat → Nat → Int
  | [], _, _ => -1
  | y :: ys, pos, start => if pos ≥ start ∧ eq y x then pos else findIdx eq x ys (pos + 1) start

def findList (eq : α → α → Bool) (l : List α) (x : α) (start : Int) : Int :=
  findIdx eq x l 0 (if start < 0 then 0 else start.toNat)

/-- `find_last(lst, item, start)`: greatest index ≤ min(start, len-1) whose element equals -/
def findLastList (eq : α → α → Bool) (l : List α) (x : α) (start : Option Int) : Int :=
  let st : Int := start.getD ((l.length : Int) - 1)
  let st := if st ≥ l.length then (l.length : Int) - 1 else st
  if st < 0 then -1
  else
    (List.range (st.toNat + 1)).foldl
      (fun (best : Int) (i : Nat) => match l[i]? with
        | some y => if eq y x then (i : Int) else best
        | none => best) (-1)

/-- `insert_at(lst, index, value)`: `none`-free; out of range leaves the list unchanged -/
def insertAt (l : List α) (index : Int) (v : α) : List α :=
  let n : Int := l.length
  if index < 0 then
    let idx := n + index + 1
    if idx < 0 then l else (l.take idx.toNat) ++ v :: l.drop idx.toNat
  else if index > n then l
  else (l.take index.toNat) ++ v :: l.drop index.toNat

/-- `delete_at(lst, index)`: the removed element (or none = NULL) and the new list -/
def deleteAt (l : List α) (index : Int) : Option α × List α :=
  let n : Int := l.length
  let idx := if index < 0 then n + index else index
  if idx < 0 ∨ idx ≥ n then (none, l)
  else (l[idx.toNat]?, l.eraseIdx idx.toNat)

end Ckl.Seq
