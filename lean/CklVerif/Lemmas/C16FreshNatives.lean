/-
  C16: a reference returned by a modelled native — other than the mutators (which return their
  first argument) and the pass-through natives `identity`, `if_null`, `list`, `set`, `div` — is a
  cell the native has just allocated.
-/
import CklVerif.Lemmas.C16Fresh
namespace Ckl

set_option maxHeartbeats 400000 in
theorem FreshRes.callPure (name : String) (args : List (String × RVal)) (div0 : Option RVal) (pos : Pos)
    (m : EvalM RVal) (hn : name ∉ mutators ++ passThrough)
    (h : callPure name args div0 pos = some m) : FreshRes (fun _ => False) m := by
  have := fun c => Allocates.collAsList c
  have := fun a b => Allocates.cmpLt a b
  have := fun a b => Allocates.cmpGt a b
  have := fun a => Allocates.listItems a
  have := fun a n p => Allocates.argGet a n p
  have := fun v p => Allocates.asStringM v p
  have := fun r p => FreshRes.dateResM (A := fun _ => False) r p
  have := fun a b p => FreshRes.nativeAdd (A := fun _ => False) a b p
  have := fun a b p => FreshRes.nativeSub (A := fun _ => False) a b p
  have := fun a b p => FreshRes.nativeMul (A := fun _ => False) a b p
  have := fun a b p => FreshRes.nativeMod (A := fun _ => False) a b p
  unfold Ckl.callPure at h
  dsimp only at h
  split at h <;> first
    | (exfalso; simp [mutators, passThrough] at hn; done)
    | (injection h with h; subst h; fresh!)
    | (exact FreshRes.callDate _ _ _ _ h)
    | (cases h)
end Ckl
