"""C10 Interpreter sessions keep definitions and survive failed calls unchanged."""
import itertools
import os

from harness import core, session
from harness.props import common

MODS = {
    "Good.ckl": "println('load Good'); def val = 41; def inc(x) x + 1; def _hidden = 1;",
    "Broken.ckl": "def a = 1; def b = (2 + ; def c = 3;",
    "Failing.ckl": "println('load Failing'); def before = 1; error 'module failed'; def after = 2;",
    "CycA.ckl": "println('load CycA'); require CycB; def a = 1;",
    "CycB.ckl": "println('load CycB'); require CycA; def b = 2;",
    "Dep.ckl": "println('load Dep'); require Good; def d = Good->val + 1;",
    "Counter.ckl": "println('load Counter'); def c = [0]; def bump() do c[0] = c[0] + 1; c[0] end;",
}

# command -> (source, source of its effects when it fails part-way ('' = no effect), fails?)
COMMANDS = {
    "def_x": ("def x = 1", None, False),
    "def_f": ("def f(n) n * 2 + x0", None, False),
    "def_x0": ("def x0 = 100", None, False),
    "assign_x": ("x = x + 10", "", None),          # fails iff x undefined (decided at run time: outcome class checked by erasure)
    "read_x": ("x", "", None),
    "call_f": ("f(4)", "", None),
    "fail_expr": ("1 / 0", "", True),
    "fail_name": ("undefined_thing + 1", "", True),
    "syntax": ("def y = (1 +", "", True),
    "req_good": ("require Good; Good->val", None, False),
    "bump": ("require Counter; Counter->bump()", None, False),
    "req_missing": ("require Missing", "", True),
    "req_broken": ("require Broken", "", True),
    "req_failing": ("require Failing", "", True),
    "req_cycle": ("require CycA", "", True),
    "req_dep": ("require Dep; Dep->d", None, False),
    "loop_abort": ("for qq in [1, 2, 3] do if qq == 2 then error 'in loop' end", "", True),
    "def_then_fail": ("def late = 7; def late2 = late + 1; error 'after defs'", "def late = 7; def late2 = late + 1", True),
    "read_late": ("late2", "", None),
    "read_q": ("qq", "", None),
    "def_q": ("def qq = 5", None, False),
    "loop_ok": ("for qq in [7, 8] do qq end", None, False),
    "loop_abort2": ("for [qa, qb] in [[1, 2], [3, 4]] do if qa == 3 then error 'in loop' end", "", True),
    "read_qb": ("[qb]", "", True),
    "loop_abort3": ("for [qa, qb, qc] in <<[1, 2, 3]>> do error qc end", "", True),
    "read_qc": ("qc", "", True),
    "compr_abort": ("[1 / (2 - z1) for z1 in [1, 2, 3]]", "", True),
    "read_z1": ("z1", "", True),
    "block_fail": ("do def inblock = 3; error 12 finally println('fin') end", "def inblock = 3; println('fin')", True),
    # definitions made by a loop body before the loop fails are definitions "made before the point at which the call failed"
    "loop_def_fail": ("for w1 in [1, 2] do def inloop = w1 * 10; if w1 == 2 then error 'in loop' end", "def inloop = 20", True),
    "read_inloop": ("inloop", "", None),
    "while_def_fail": ("def wn = 0; while wn < 3 do wn += 1; def inwhile = wn; if wn == 2 then error 'w' end", "def wn = 2; def inwhile = 2", True),
    "read_inwhile": ("[wn, inwhile]", "", None),
    # a loop aborted by a syntax error raised at RUN time (the body requires a module that does not parse) leaves no loop variable behind
    # and puts a hidden variable back, like a loop aborted by a runtime error
    "loop_req_broken": ("for w2 in [1, 2] do require Broken end", "", True),
    "read_w2": ("w2", "", None),
    "loop_req_broken2": ("def w3 = 7; for w3 in [1, 2] do require Broken end", "def w3 = 7", True),
    "read_w3": ("w3", "", None),
}


DEFINES = {"def_x": ["x"], "def_x0": ["x0"], "def_q": ["qq"], "def_then_fail": ["late", "late2"], "loop_def_fail": ["inloop"], "while_def_fail": ["inwhile"], "loop_req_broken2": ["w3"]}
READS = {"read_x": "x", "read_q": "qq", "read_late": "late2", "assign_x": "x", "read_inloop": "inloop", "read_inwhile": "inwhile", "read_w3": "w3"}


def run_history(cmds, interleave=None):
    """run a list of command names on fresh interpreter(s); returns list of (outcome, output)"""
    sessions = {}
    res = []
    try:
        for k, c in enumerate(cmds):
            who = interleave[k] if interleave else 0
            if who not in sessions:
                first = next(iter(sessions.values()), None)
                sessions[who] = session.ImplSession(MODS, share_with=first)
            out, printed, syms = sessions[who].run(COMMANDS[c][0])
            res.append((out[:2], printed))
    finally:
        for s in reversed(list(sessions.values())):
            s.close()
    return res


def erased(cmds, outcomes):
    """the history with every failed call replaced by the part of it that ran before the failure"""
    srcs = []
    keep = []
    for c, (out, _) in zip(cmds, outcomes):
        failed = out[0] in ('rt', 'syn')
        if failed:
            eff = COMMANDS[c][1]
            if eff:
                srcs.append(eff)
                keep.append(None)
            # no effect: dropped
        else:
            srcs.append(COMMANDS[c][0])
            keep.append(len(keep) and None)
    return srcs


def _history_worker(hs):
    """run each history on a fresh interpreter and apply the history oracles; returns [(outcomes, [violation text])]"""
    core.use_repo()
    out = []
    for h in hs:
        outs = run_history(h)
        cmds = [COMMANDS[c][0] for c in h]
        viols = []
        # (0) nothing but values, runtime errors and syntax errors
        for c, o in zip(h, outs):
            if o[0][0] not in ('val', 'rt', 'syn'):
                viols.append(f"`{COMMANDS[c][0]}` ends with {o[0]} in the history {cmds}")
        # (1) a failing call repeated immediately gives the same outcome
        for k in range(len(h) - 1):
            if h[k] == h[k + 1] and outs[k][0][0] in ('rt', 'syn') and outs[k] != outs[k + 1]:
                viols.append(f"repeating the failed call `{COMMANDS[h[k]][0]}` gives {outs[k + 1]} instead of {outs[k]} again (history {cmds[:k + 2]})")
        # (1b) every definition made so far stays visible: a read of a name defined by an earlier call yields a value
        defined = set()
        for k, (c, o) in enumerate(zip(h, outs)):
            if c in READS and READS[c] in defined and o[0][0] != 'val':
                viols.append(f"`{COMMANDS[c][0]}` gives {o[0]} although `{READS[c]}` was defined by an earlier call (history {cmds[:k + 1]})")
            if c in DEFINES and (o[0][0] == 'val' or c in ("def_then_fail", "loop_def_fail", "while_def_fail", "loop_req_broken2")):
                defined.update(DEFINES[c])
        # (2) erasure: the surviving calls behave as if the failed remainders had never run
        if any(o[0][0] in ('rt', 'syn') for o in outs):
            srcs, expect = [], []
            for c, o in zip(h, outs):
                if o[0][0] in ('rt', 'syn'):
                    eff = COMMANDS[c][1]
                    if eff:
                        srcs.append(eff)
                        expect.append(None)
                else:
                    srcs.append(COMMANDS[c][0])
                    expect.append(o)
            s2 = session.ImplSession(MODS)
            try:
                for src, exp in zip(srcs, expect):
                    o2, printed, _ = s2.run(src)
                    if exp is not None:
                        # module load messages may move to a later call when an earlier failed call had half-loaded a module chain: compare values
                        if o2[:2] != exp[0]:
                            viols.append(f"after failed calls `{src}` gives {exp[0]}, without them {o2[:2]} (history {cmds})")
                            break
            finally:
                s2.close()
        out.append((outs, viols))
    return out


def redefinition_histories(ctx):
    hs = [
        [("def g9(x) abs(x)", None), ("g9(-3)", "3"), ("def abs(x) 100", None), ("g9(-3)", "100"), ("abs = fn(x) 200", None), ("g9(-3)", "200"), ("abs(-3)", "200")],
        [("def h9(a, b) a + b * 2", None), ("h9(1, 2)", "5"), ("def mul(a, b) 10", None), ("h9(1, 2)", "11"), ("def add(a, b) 42", None), ("h9(1, 2)", "42"), ("1 + 1", "42")],
        [("def g9(x) abs(x)", None), ("g9(-3)", "3"), ("def abs(x) 7; error 'late'", "ERR"), ("g9(-3)", "7"), ("g9(-3)", "7")],
        [("def k9() later9", None), ("k9()", "ERR"), ("def later9 = 5", None), ("k9()", "5"), ("later9 = 6", None), ("k9()", "6"), ("def later9 = 'x'", None), ("k9()", "'x'")],
        [("def m9 = fn(l) length(l) + 1", None), ("m9([1, 2])", "3"), ("m9([1, 2])", "3"), ("def length(l) 10", None), ("m9([1, 2])", "11"), ("[m9([]) for i in range(2)]", "[11, 11]")],
        [("def o9 = <*go = fn(self, x) sign(x)*>", None), ("o9->go(-5)", "-1"), ("def sign(x) 'redefined'", None), ("o9->go(-5)", "'redefined'")],
        [("def c9(l) [abs(x) for x in l]", None), ("c9([-1, -2])", "[1, 2]"), ("def abs(x) 0", None), ("c9([-1, -2])", "[0, 0]")],
        # an assignment made inside a function by a later call reaches the top-level variable, also when the function used that name as a
        # loop variable before the assignment
        [("def gv = 1", None), ("def f9() do for gv in [5, 6] do 0 end; gv = 99; 0 end", None), ("f9()", "0"), ("gv", "99"), ("gv = 3", None), ("f9(); gv", "99")],
        [("def gw = 1", None), ("def f8() do do for gw in [5] do error 'x' end catch all 0 end; gw = gw + 1; gw end", None), ("f8()", "2"), ("f8()", "3"), ("gw", "3")],
    ]
    for legacy in (True, False):
        for h in hs:
            s_ = session.ImplSession(legacy=legacy) if legacy else session.ImplSession()
            if not legacy:
                s_.run("require Math import [abs, sign]")
            try:
                for k, (src, want) in enumerate(h):
                    out, _, _ = s_.run(src)
                    got = "ERR" if out[0] in ('rt', 'syn') else (str(out[1]) if out[0] == 'val' else str(out))
                    ctx.seen(("redef", legacy, tuple(x[0] for x in h[:k + 1])), nontrivial=True)
                    ctx.count("redefinition_history_calls")
                    if want is None:
                        continue
                    shown = "ERR" if out[0] in ('rt', 'syn') else None
                    if shown is None:
                        o2, _, _ = s_.run("string(" + src + ")") if False else (out, None, None)
                        shown = render_dump(out[1])
                    if shown != want:
                        ctx.violation("oracle", f"call {k} `{src}` gives {shown}, after the earlier calls {[x[0] for x in h[:k]]} it is {want} (legacy={legacy})",
                                      {"op": "history", "commands": [x[0] for x in h[:k + 1]]})
                        break
            finally:
                s_.close()


def render_dump(d):
    """text of a dumped result value (ints, strings, lists of them)"""
    if d[0] == 'i':
        return str(d[1])
    if d[0] == 's':
        return "'" + d[1] + "'"
    if d[0] == 'l':
        return "[" + ", ".join(render_dump(x) for x in d[1]) + "]"
    if d[0] == 'b':
        return "TRUE" if d[1] else "FALSE"
    if d[0] == 'null':
        return "NULL"
    return str(d)


def private_module_dirs(ctx):
    import itertools
    import shutil
    import tempfile
    from ckl.interpreter import Interpreter
    from ckl.values import ValueList, ValueString, StringOutput
    from ckl.errors import CklRuntimeError, CklSyntaxError
    tmp = tempfile.mkdtemp(prefix="c10dirs")
    try:
        content = {"A": {"Twin": "def who = 'A'; def n = [0]; def tick() do n[0] = n[0] + 1; n[0] end;", "OnlyA": "def only = 'a';"},
                   "B": {"Twin": "def who = 'B'; def n = [100]; def tick() do n[0] = n[0] + 1; n[0] end; def extra = 1;", "OnlyB": "def only = 'b';"}}
        for inst, mods in content.items():
            os.makedirs(os.path.join(tmp, inst))
            for m, src in mods.items():
                open(os.path.join(tmp, inst, m + ".ckl"), "w").write(src)
        steps = [("A", "require Twin; Twin->who", "'A'"), ("B", "require Twin; Twin->who", "'B'"), ("A", "Twin->tick()", "1"), ("B", "Twin->tick()", "101"),
                 ("A", "require OnlyA; OnlyA->only", "'a'"), ("B", "require OnlyA", "ERR"), ("B", "require OnlyB; OnlyB->only", "'b'"), ("A", "require OnlyB", "ERR"),
                 ("B", "Twin->extra", "1"), ("A", "Twin->extra", "NULL"), ("A", "require Twin as T2; T2->tick()", "2"), ("B", "require Twin as T2; T2->tick()", "102")]
        for legacy, order in itertools.product((True, False), (("A", "B"), ("B", "A"))):
            its = {}
            for inst in order:
                it = Interpreter(False, legacy)
                it.setStandardOutput(StringOutput())
                it.base_environment.put("checkerlang_module_path", ValueList().addItem(ValueString(os.path.join(tmp, inst))))
                its[inst] = it
            seq = sorted(steps, key=lambda st: (steps.index(st) // 2, order.index(st[0])))     # pairwise, the first-created instance first
            for inst, src, want in seq:
                try:
                    with core.time_limit(5):
                        got = str(its[inst].interpret(src, "c10"))
                except (CklRuntimeError, CklSyntaxError):
                    got = "ERR"
                except (Exception, core.Timeout) as e:   # noqa
                    got = "EXC " + type(e).__name__
                ctx.seen(("dirs", legacy, order, inst, src), nontrivial=True)
                ctx.count("private_module_dir_steps")
                if got != want:
                    ctx.violation("oracle", f"instance {inst} (own module directory; created {'first' if order[0] == inst else 'second'}, legacy={legacy}): `{src}` gives {got}, "
                                  f"with only its own modules it is {want}", {"op": "interleaved", "commands": [x[1] for x in seq], "who": [x[0] for x in seq]})
                    break
    finally:
        shutil.rmtree(tmp, ignore_errors=True)


def run(ctx):
    rng = ctx.rng
    names = list(COMMANDS)
    ctx.rule = ("command histories over an alphabet of session commands (define, assign, read, call, failing expression, syntax error, require "
                "of a good / missing / syntactically broken / failing / circular / dependent user module, loop aborted by an error, definitions "
                "followed by a failure) — all sequences up to length 3 over a core alphabet (thorough: 4) and random sequences up to length 30, "
                "on one interpreter and on two interleaved interpreters; oracles: a repeated failing call gives the same outcome, the successful "
                "calls behave as in the history with every failed call replaced by its completed prefix, interleaved instances behave as alone; "
                "non-trivial = a history with >= 1 failing call followed by >= 1 later call")
    core_alpha = ["def_x", "assign_x", "read_x", "fail_expr", "syntax", "req_good", "req_missing", "req_broken", "req_cycle", "loop_abort",
                  "def_then_fail", "read_late", "read_q", "req_failing", "loop_abort2", "read_qb", "def_q", "loop_ok"]
    histories = []
    maxlen = 4 if ctx.thorough else 3
    for n in range(1, maxlen + 1):
        alpha = core_alpha if n <= 3 else core_alpha[:10]
        for h in itertools.product(alpha, repeat=n):
            histories.append(list(h))
    if not ctx.thorough:
        histories = [h for h in histories if len(h) < 3] + rng.sample([h for h in histories if len(h) == 3], 500)
    for _ in range(400 if ctx.thorough else 60):
        histories.append([rng.choice(names) for _ in range(rng.randint(5, 30))])
    ctx.exhaustive = False
    reqs = []
    results = []
    import multiprocessing as mp
    chunks = [histories[i:i + 40] for i in range(0, len(histories), 40)]
    with mp.Pool(16) as pool:
        done = [x for res in pool.map(_history_worker, chunks) for x in res]
    for h, (outs, viols) in zip(histories, done):
        results.append(outs)
        failing_then_more = any(o[0][0] in ('rt', 'syn') for o in outs[:-1])
        ctx.seen(tuple(h), nontrivial=failing_then_more)
        rp = {"op": "history", "commands": [COMMANDS[c][0] for c in h]}
        for text in viols:
            ctx.violation("oracle", text, rp)
        reqs.append(session.model_request([COMMANDS[c][0] for c in h], MODS))
    # (3) two interleaved interpreters behave as each alone
    for _ in range(300 if ctx.thorough else 60):
        h = [rng.choice(names) for _ in range(rng.randint(4, 16))]
        who = [rng.randrange(2) for _ in h]
        both = run_history(h, who)
        ctx.seen(("interleaved", tuple(h), tuple(who)), nontrivial=True)
        for w in (0, 1):
            alone = run_history([c for c, x in zip(h, who) if x == w])
            mine = [o for o, x in zip(both, who) if x == w]
            if alone != mine:
                ctx.violation("oracle", f"interpreter {w} behaves differently when interleaved with another instance: {mine} vs alone {alone}",
                              {"op": "interleaved", "commands": [COMMANDS[c][0] for c in h], "who": who})
    # (3b) a definition or assignment made by a LATER call is what earlier-defined functions see from then on (names are looked up when the
    # function runs, in the scope chain it was created in): library names, operators, and session names, re-defined between two calls of
    # the same function, also by a call that then fails
    redefinition_histories(ctx)
    # (4) instances with their OWN module directories: a module name means, in each instance, the file on that instance's path — whatever
    # another instance in the same process has already loaded under that name (different content, or no such module at all)
    private_module_dirs(ctx)
    # ---------------- model
    if ctx.build.ok:
        resp = core.run_driver(reqs)
        for h, outs, r in zip(histories, results, resp):
            model, ghost = session.parse_model_session(r)
            ctx.count("model_histories")
            for k, (c, o, m) in enumerate(zip(h, outs, model)):
                if m[0][0] == 'fail':
                    ctx.count("model_abstains")
                    break
                d = session.compare((o[0], o[1], ()), (m[0], m[1], ()))
                if d:
                    ctx.disagreements += 1
                    ctx.violation("correspondence", f"call {k} `{COMMANDS[c][0]}` of {[COMMANDS[x][0] for x in h]}: {d}",
                                  {"op": "history", "commands": [COMMANDS[x][0] for x in h], "correspondence": "Ckl session (interpretProg folded) vs Interpreter"})
                    break
            if ghost.get("modstack") not in (None, ["0"]):
                ctx.violation("correspondence", f"model module stack not empty after the history: {ghost.get('modstack')}", {"op": "history", "commands": h,
                              "correspondence": "Ckl.C10.modstack_empty_between_calls (runtime cross-check)"})
    ctx.sample({"history": ["require Missing", "require Missing", "def x = 1", "x"], "expected": ["error", "same error", "1", "1"]})
    ctx.sample({"history": [COMMANDS[c][0] for c in histories[-1]][:8]})
    common.replay_known(ctx)


def replay(ctx, payload):
    return common.generic_replay(ctx, payload)
