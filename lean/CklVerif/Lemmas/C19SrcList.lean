import CklVerif.Lemmas.C19SrcMath
import CklVerif.Model.Lib

/-! C19Src — list.ckl: `rest` -/
namespace Ckl.C19Src
open Ckl Ckl.C03 Ckl.Gen.LibSrc
variable (ld : Loader)

/-- `sublist(lst, i)` of the built-in on a list cell: a fresh list cell with `lst[i:]` -/
theorem sublist_from (a : Nat) (xs : List RVal) (i : Int) (d : Option RVal) (pos : Pos) (s : State)
    (hc : s.cell a = some (.list xs)) :
    ∃ m, callPure "sublist" [("lst", .ref a), ("startidx", .int i)] d pos = some m ∧
      m s = .ok (.ref s.heap.size) (s.alloc (.list (Seq.substr xs i none))).1 := by
  refine ⟨_, rfl, ?_⟩
  simp [argGet, dictGet, dictHas, RVal.isNull, listItems, cellOf, hc, newList, allocM, EvalM.bind_apply,
    EvalM.pure_apply]
  rfl

theorem sublist_from' (a : Nat) (xs : List RVal) (i : Int) (d : Option RVal) (pos : Pos) (s : State)
    (hc : s.cell a = some (.list xs)) (m : EvalM RVal)
    (hm : callPure "sublist" [("lst", .ref a), ("startidx", .int i)] d pos = some m) :
    m s = .ok (.ref s.heap.size) (s.alloc (.list (Seq.substr xs i none))).1 := by
  obtain ⟨m', h1, h2⟩ := sublist_from a xs i d pos s hc
  rw [h1] at hm; cases hm; exact h2

def listNats : List String := ["sublist"]

/-- the body of `rest`: `sublist(lst, 1)` -/
theorem rest_body {s : State} {M nats srcs c m} {a : Nat} {xs : List RVal}
    (ctx : Ctx s M nats srcs c m [("lst", .ref a)]) (hn : ∀ x ∈ listNats, x ∈ nats) (hc : s.cell a = some (.list xs)) :
    ∃ s', Ext s s' ∧ Ev ld 5 c (lamBody list_rest) s (.ok (.ref s.heap.size) s') ∧
      s'.cell s.heap.size = some (.list (Lib.restM xs)) := by
  obtain ⟨i, hl⟩ := ctx.nat (x := "sublist") (hn _ (by decide)) (by rfl)
  refine ⟨(s.alloc (.list (Seq.substr xs 1 none))).1, (Ext.refl s).alloc _, ?_, ?_⟩
  · refine Ev.congr ld (Ev.callNative ld (k := 3) hl
      (EvArgs.cons ld (by trivial) (Ev.ident ld (ctx.var (x := "lst") (by rfl)))
        (EvArgs.cons ld (by trivial) (Ev.litInt ld) (EvArgs.nil ld)))
      (by rfl) (setArgs_pos2 (by decide) (addArgs_plain' _ (by decide))) rfl) ?_
    rw [sublist_from' a xs 1 (div0Value s c) _ s hc _ rfl]; rfl
  · simp [State.alloc, State.cell, Lib.restM]

/-- `fn.execute(lst = a list cell)` of the function made from the source of `rest`: a FRESH list cell holding the tail -/
theorem rest_calls {s : State} {M nats srcs fn m} (h : LibEnv s M nats srcs) (hn : ∀ x ∈ listNats, x ∈ nats)
    (hm : M m) (hsrc : IsSrc s fn list_rest m) (a : Nat) (xs : List RVal) (hc : s.cell a = some (.list xs)) :
    ∃ s', Ext s s' ∧ s'.cell s.heap.size = some (.list (Lib.restM xs)) ∧
      ∀ env pos, Calls ld 6 fn [("lst", .ref a)] env pos s (.ok (.ref s.heap.size) s') := by
  obtain ⟨c, nm, rfl, hcell⟩ := hsrc
  have ctx := Ctx.callee1 h hm "lst" (.ref a)
  have e0 := calleeState_ext s m [("lst", .ref a)] ["lst"]
  have hh := calleeState_heap s m [("lst", .ref a)] ["lst"]
  have hc0 : (calleeState s m ["lst"] [("lst", .ref a)]).cell a = some (.list xs) := by
    simp only [State.cell, hh]; exact hc
  obtain ⟨s', e', hev, hcell'⟩ := rest_body ld ctx hn hc0
  rw [hh] at hev hcell'
  refine ⟨s', e0.trans e', hcell', fun env pos => ?_⟩
  exact Calls.closure ld hcell rfl (by decide) (by intro p hp; simp [lamParams, list_rest] at hp; subst hp; rfl) hev

end Ckl.C19Src
