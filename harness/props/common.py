"""Shared helpers of the property checks."""
import json

from harness import core, proto


def fresh_interpreter(secure=True, legacy=False):
    from ckl.interpreter import Interpreter
    from ckl.values import StringInput, StringOutput
    it = Interpreter(secure, legacy)
    out = StringOutput()
    it.setStandardOutput(out)
    it.setStandardInput(StringInput(""))
    return it, out


def run_program(it, src, name="prog", limit=5):
    """outcome of one interpret call: ('val', text) | ('rt', error-value text, msg) | ('syn', msg) |
    ('host', class name, msg) | ('timeout',)"""
    from ckl.errors import CklRuntimeError, CklSyntaxError
    try:
        with core.time_limit(limit):
            v = it.interpret(src, name)
            return ('val', str(v), v)
    except core.Timeout:
        return ('timeout',)
    except CklRuntimeError as e:
        try:
            txt = str(e.value)
        except Exception as e2:  # noqa
            txt = "<unrenderable %s>" % type(e2).__name__
        return ('rt', txt, str(e.msg), e)
    except CklSyntaxError as e:
        return ('syn', str(e.msg), e)
    except RecursionError:
        return ('host', 'RecursionError', '')
    except Exception as e:  # noqa
        return ('host', type(e).__name__, str(e)[:200])


def replay_known(ctx):
    """re-run the witness of every open known finding of this property on the implementation;
    a finding that still reproduces is reported as KNOWN-FINDING (never as a violation)"""
    for k in ctx.known:
        if k.get("status", "open") != "open":
            continue
        w = k.get("witness", {})
        if w.get("kind") == "program":
            it, _ = fresh_interpreter(True, w.get("legacy", False))
            out = run_program(it, w["src"], "known")
            got = out[1] if out[0] in ('val', 'rt') else out[0]
            if got != w["property_holds_if"]:
                ctx.known_hits[k["key"]] = k["what"]
        elif w.get("kind") == "hashseed":
            # the witness program gives different results under different PYTHONHASHSEED values
            import os
            import subprocess
            import sys
            code = ("import sys; sys.path.insert(0, %r)\n"
                    "from ckl.interpreter import Interpreter\n"
                    "print(str(Interpreter(True, True).interpret(%r, 'w')))\n") % (os.path.join(core.REPO, "src"), w["src"])
            outs = set()
            for sd in range(12):
                env = dict(os.environ, PYTHONHASHSEED=str(sd))
                r = subprocess.run([sys.executable, "-c", code], capture_output=True, text=True, env=env, timeout=120)
                outs.add(r.stdout.strip())
            if len(outs) > 1:
                ctx.known_hits[k["key"]] = k["what"]


def generic_replay(ctx, payload):
    print(json.dumps(payload, indent=1, default=str))
    rp = payload.get("replay", payload)
    if "src" in rp:
        it, _ = fresh_interpreter(True, rp.get("legacy", False))
        print("re-run:", run_program(it, rp["src"])[:3])
    return 0
