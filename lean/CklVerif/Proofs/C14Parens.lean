/-
  C14 — "Program meaning is independent of layout …: redundant parentheses around expressions,
  optional trailing semicolons … never change its result, output or error value."

  This file: the GENERAL statements about redundant parentheses and optional semicolons, for all
  token lists (the earlier `C14S.parse_redundant_parens` covers "stable expression statements",
  `C02.parse_render_parens` the operator fragment).

  1. `production_extends` / `parse_expr_extends` — the extension lemma, for all 51 productions: if a
     production succeeds on the tokens `ts`, returning `n` and leaving `r`, it succeeds on
     `ts ++ t :: rest` returning the same `n` (positions included) and leaving `r ++ t :: rest`,
     for every *stopper* `t` (`isCont t = false`) and every `rest`.
  2. `parens_primary` — `( e )` as a primary expression is the node of `e` (no position of the
     parentheses is recorded), followed by the postfix loop.
  3. `paren_at_levels`, `paren_expr_stop`, `paren_cond_stop`, … — `( e )` in the operand
     position of every operator level and in front of every stopper.
  4. `parse_redundant_parens_general` — a script that is one expression, put in parentheses.
  5. trailing semicolons: see `Proofs/C14ParensSemi.lean`.
  Findings (witnesses at the end): a block in statement position, `-(1)`, `(a)⏎(b)`, `;;`, `(a;)`.
-/
import CklVerif.Lemmas.C14ParensClimb
import CklVerif.Lemmas.C14ParensScript
import CklVerif.Lemmas.C14ParensSemi
import CklVerif.Model.Lexer
import CklVerif.Proofs.C14EndToEnd
namespace Ckl.C14X
open Ckl Ckl.Parser
open Ckl.C02P (plain plainLe plain_eq_ok plainLe_eq_ok Follow)

local notation "kw" => (some TokType.keyword)
local notation "ip" => (some TokType.interpunction)
local notation "op" => (some TokType.operator)
local notation "idt" => (some TokType.identifier)

/-! ## 1. the extension lemma -/

/-- **production_extends**: the simultaneous statement for all 51 productions of the parser (fields
    of `Hyp`, e.g. `(production_extends x k).pExpression`): on a lexer state extended by the stopper
    `x.t` and arbitrary further tokens `x.rest`, a production that succeeded on the original state
    succeeds with the same value and leaves the extension of what it left before.  For
    `pBareBlock`, `bareLoop`, `catchLoop` the claim is made when the first run left a token. -/
theorem production_extends (x : Ext) (k : Nat) : Hyp x k := hyp_all x k

/-- **parse_expr_extends**: the expression parser (`parse_expression` = `pExpression`).  If on `ts`
    it returns `n` and leaves `r` (in particular `r = []`: it stopped at the end of the input), then
    on `ts ++ t :: rest` it returns the same `n` and leaves `r ++ t :: rest` — for every token `t`
    with `isCont t = false` and every `rest`.  The two runs may have different contexts (`endPos`
    is used for error positions only). -/
theorem parse_expr_extends (c c' : Ctx) (hv : c'.validRe = c.validRe) (p : Pos) (ts r : List Token) (n : Node)
    (q : Pos) (h : plain (pExpression c ⟨p, ts⟩) = .ok (n, ⟨q, r⟩)) (t : Token) (ht : isCont t = false)
    (rest : List Token) :
    plain (pExpression c' ⟨p, ts ++ t :: rest⟩) = .ok (n, ⟨q, r ++ t :: rest⟩) :=
  plain_ext ((hyp_at ⟨t, rest, ht⟩ ts.length).pExpression (c := c) (c' := c') ⟨hv⟩
    (SRel.mk' ⟨t, rest, ht⟩ p ts) (by simp)) h

/-- the same for `parse_or_expr` (the conditions of `if` / `while`, comprehension sources) -/
theorem parse_or_extends (c c' : Ctx) (hv : c'.validRe = c.validRe) (p : Pos) (ts r : List Token) (n : Node)
    (q : Pos) (h : plain (pOr c ⟨p, ts⟩) = .ok (n, ⟨q, r⟩)) (t : Token) (ht : isCont t = false)
    (rest : List Token) :
    plain (pOr c' ⟨p, ts ++ t :: rest⟩) = .ok (n, ⟨q, r ++ t :: rest⟩) :=
  plain_ext ((hyp_at ⟨t, rest, ht⟩ ts.length).pOr (c := c) (c' := c') ⟨hv⟩
    (SRel.mk' ⟨t, rest, ht⟩ p ts) (by simp)) h

/-- the same for `parse_statement` -/
theorem parse_statement_extends (c c' : Ctx) (hv : c'.validRe = c.validRe) (p : Pos) (ts r : List Token)
    (n : Node) (q : Pos) (h : plain (pStatement c ⟨p, ts⟩) = .ok (n, ⟨q, r⟩)) (t : Token)
    (ht : isCont t = false) (rest : List Token) :
    plain (pStatement c' ⟨p, ts ++ t :: rest⟩) = .ok (n, ⟨q, r ++ t :: rest⟩) :=
  plain_ext ((hyp_at ⟨t, rest, ht⟩ ts.length).pStatement (c := c) (c' := c') ⟨hv⟩
    (SRel.mk' ⟨t, rest, ht⟩ p ts) (by simp)) h

/-- the same for `parse_block` (`do … end`) -/
theorem parse_block_extends (c c' : Ctx) (hv : c'.validRe = c.validRe) (p : Pos) (ts r : List Token)
    (n : Node) (q : Pos) (h : plain (pBlock c ⟨p, ts⟩) = .ok (n, ⟨q, r⟩)) (t : Token)
    (ht : isCont t = false) (rest : List Token) :
    plain (pBlock c' ⟨p, ts ++ t :: rest⟩) = .ok (n, ⟨q, r ++ t :: rest⟩) :=
  plain_ext ((hyp_at ⟨t, rest, ht⟩ ts.length).pBlock (c := c) (c' := c') ⟨hv⟩
    (SRel.mk' ⟨t, rest, ht⟩ p ts) (by simp)) h

/-! ### the stoppers

`isCont t = false` means: `t` matches none of the (value, type) tests of `contTable` and is no
relational operator.  `contTable` lists the tokens of all look-aheads of the parser except the
closing tokens; so the stoppers are: every string / number / boolean / pattern literal; every
identifier that is none of the contextual words (`unqualified import all keys values entries empty
zero negative numerical alphanumerical date with hour time string int decimal boolean pattern None
func input output list set map object node starts ends contains matches min_len max_len exact_len
to`); the keywords `then do end catch finally` and all keywords that start something (`return`,
`break`, `continue`, `error`, …) — not `if elif else or and not is in for also fn def require as
while`; the interpunction `) ] , ; >> >>> *> => << <<< <* ...` — not `(` and `[`; no operator
except unknown ones (all of `= += -= *= /= %= + - * / % -> !> == != <> < <= > >=` continue). -/

example (p : Pos) : isCont ⟨c!")", .interpunction, p⟩ = false := rfl
example (p : Pos) : isCont ⟨c!";", .interpunction, p⟩ = false := rfl
example (p : Pos) : isCont ⟨c!"]", .interpunction, p⟩ = false := rfl
example (p : Pos) : isCont ⟨c!",", .interpunction, p⟩ = false := rfl
example (p : Pos) : isCont ⟨c!">>", .interpunction, p⟩ = false := rfl
example (p : Pos) : isCont ⟨c!">>>", .interpunction, p⟩ = false := rfl
example (p : Pos) : isCont ⟨c!"*>", .interpunction, p⟩ = false := rfl
example (p : Pos) : isCont ⟨c!"=>", .interpunction, p⟩ = false := rfl
example (p : Pos) : isCont ⟨c!"then", .keyword, p⟩ = false := rfl
example (p : Pos) : isCont ⟨c!"do", .keyword, p⟩ = false := rfl
example (p : Pos) : isCont ⟨c!"end", .keyword, p⟩ = false := rfl
example (p : Pos) : isCont ⟨c!"catch", .keyword, p⟩ = false := rfl
example (p : Pos) : isCont ⟨c!"finally", .keyword, p⟩ = false := rfl
example (p : Pos) : isCont ⟨c!"return", .keyword, p⟩ = false := rfl
example (p : Pos) (v : List Char) : isCont ⟨v, .string, p⟩ = false := by
  simp [isCont, contTable, St.tokIs, isRelop]
example (p : Pos) (v : List Char) : isCont ⟨v, .int, p⟩ = false := by
  simp [isCont, contTable, St.tokIs, isRelop]
/-- … and the continuation tokens are no stoppers -/
example (p : Pos) : isCont ⟨c!"+", .operator, p⟩ = true := rfl
example (p : Pos) : isCont ⟨c!"(", .interpunction, p⟩ = true := rfl
example (p : Pos) : isCont ⟨c!"else", .keyword, p⟩ = true := rfl
example (p : Pos) : isCont ⟨c!"==", .operator, p⟩ = true := rfl

/-! ## 2. `( e )` as a primary expression -/

/-- **parens_primary**: if the expression parser, started behind the `(`, returns `n` on
    `ts ++ ) :: rest` and leaves `) :: rest`, then the primary-expression parser on
    `( :: ts ++ ) :: rest` returns what the postfix loop makes of `n` on `rest` — the SAME node `n`,
    with the positions the inner expression recorded; the parentheses record no position (the lexer
    state behind them has `prev = rp.pos`).  `exprStart`: the inner tokens must not start with `do`
    (see the finding below) nor with another statement keyword. -/
theorem parens_primary (c : Ctx) (um : Bool) (p : Pos) (lp rp : Token) (hl : IsLp lp) (hr : IsRp rp)
    (ts rest : List Token) (n : Node) (q : Pos) (hs : exprStart ts = true)
    (he : plain (pExpression c ⟨lp.pos, ts ++ rp :: rest⟩) = .ok (n, ⟨q, rp :: rest⟩)) :
    plain (pPrimary c um ⟨p, lp :: (ts ++ rp :: rest)⟩) = plainLe (postfixLoop c true true ⟨rp.pos, rest⟩ n) :=
  pPrimary_paren_postfix c um p lp rp hl hr ts rest n q
    (exprStart_append hs (by simp [St.tokIs, hr.1]) rest) he

/-- … when `rest` is empty or does not start with a postfix opener (`!>`, `(`, `->`, `[`), that is `n`
    itself, leaving `rest` -/
theorem parens_primary_stop (c : Ctx) (um : Bool) (p : Pos) (lp rp : Token) (hl : IsLp lp) (hr : IsRp rp)
    (ts rest : List Token) (n : Node) (q : Pos) (hs : exprStart ts = true)
    (he : plain (pExpression c ⟨lp.pos, ts ++ rp :: rest⟩) = .ok (n, ⟨q, rp :: rest⟩))
    (hrest : NoPostfix rest) :
    plain (pPrimary c um ⟨p, lp :: (ts ++ rp :: rest)⟩) = .ok (n, ⟨rp.pos, rest⟩) := by
  rw [parens_primary c um p lp rp hl hr ts rest n q hs he]
  exact postfixLoop_noPostfix c true true rp.pos rest n hrest

/-- … and when `rest` does start with a postfix opener the call / index / member access applies to the
    parenthesised expression: e.g. `( e ) ( args )` is the call of `n` -/
theorem parens_primary_call (c : Ctx) (um : Bool) (p : Pos) (lp rp : Token) (hl : IsLp lp) (hr : IsRp rp)
    (ts rest : List Token) (n : Node) (q : Pos) (hs : exprStart ts = true)
    (he : plain (pExpression c ⟨lp.pos, ts ++ rp :: rest⟩) = .ok (n, ⟨q, rp :: rest⟩)) :
    plain (pPrimary c um ⟨p, lp :: (ts ++ rp :: rest)⟩) =
      plainLe (derefOrCallOrInvoke c ⟨rp.pos, rest⟩ n) :=
  parens_primary c um p lp rp hl hr ts rest n q hs he

/-- with the extension lemma: it is enough that `ts` ALONE is an expression (parsed to the end of
    the input) -/
theorem parens_primary_of_expr (c c' : Ctx) (hv : c'.validRe = c.validRe) (um : Bool) (p : Pos) (lp rp : Token)
    (hl : IsLp lp) (hr : IsRp rp) (ts rest : List Token) (n : Node) (q : Pos) (hs : exprStart ts = true)
    (he : plain (pExpression c ⟨lp.pos, ts⟩) = .ok (n, ⟨q, []⟩)) (hrest : NoPostfix rest) :
    plain (pPrimary c' um ⟨p, lp :: (ts ++ rp :: rest)⟩) = .ok (n, ⟨rp.pos, rest⟩) :=
  parens_primary_stop c' um p lp rp hl hr ts rest n q hs
    (by simpa using parse_expr_extends c c' hv lp.pos ts [] n q he rp hr.stop rest) hrest

/-! ## 3. `( e )` in its contexts -/

/-- **paren_at_levels**: `ts` alone is an expression with node `n`.  Then `( ts )` followed by `rest`
    parses to the same `n`, leaving `rest`, at every level of the expression tower whose operators
    (and those of the tighter levels) do not continue with the first token of `rest`:
    `Follow 7` — no postfix opener, no assignment operator, no `is`/`in`/`not`/`starts`/… predicate;
    `Follow 5` — moreover no `* / %`; `Follow 4` — no `+ -`; `Follow 3` — no relational operator;
    `Follow 1` — no `and`; `Follow 0` — no `or`.
    So a parenthesised expression may stand as an operand of every operator:
    `pUnary` parses the operands of `* / %`, `pMul` those of `+ -`, `pAdd` those of the comparisons,
    `pRel` the operand of `not`, `pNot` those of `and`, `pAnd` those of `or`; `pOr` parses the
    conditions of `if` / `while` and comprehension sources; `pExpression` call arguments, list /
    set / map elements, right-hand sides of `def` and `=`, indices, `return` / `error` operands;
    `pStatement` a statement. -/
theorem paren_at_levels (c c' : Ctx) (hv : c'.validRe = c.validRe) (um : Bool) (p : Pos) (lp rp : Token)
    (hl : IsLp lp) (hr : IsRp rp) (ts rest : List Token) (n : Node) (q : Pos) (hs : exprStart ts = true)
    (he : plain (pExpression c ⟨lp.pos, ts⟩) = .ok (n, ⟨q, []⟩)) :
    (NoPostfix rest → plain (pPrimary c' um ⟨p, lp :: (ts ++ rp :: rest)⟩) = .ok (n, ⟨rp.pos, rest⟩)) ∧
    (Follow 7 rest → plain (pPred c' um ⟨p, lp :: (ts ++ rp :: rest)⟩) = .ok (n, ⟨rp.pos, rest⟩)) ∧
    (Follow 7 rest → plain (pUnary c' ⟨p, lp :: (ts ++ rp :: rest)⟩) = .ok (n, ⟨rp.pos, rest⟩)) ∧
    (Follow 5 rest → plain (pMul c' ⟨p, lp :: (ts ++ rp :: rest)⟩) = .ok (n, ⟨rp.pos, rest⟩)) ∧
    (Follow 4 rest → plain (pAdd c' ⟨p, lp :: (ts ++ rp :: rest)⟩) = .ok (n, ⟨rp.pos, rest⟩)) ∧
    (Follow 3 rest → plain (pRel c' ⟨p, lp :: (ts ++ rp :: rest)⟩) = .ok (n, ⟨rp.pos, rest⟩)) ∧
    (Follow 3 rest → plain (pNot c' ⟨p, lp :: (ts ++ rp :: rest)⟩) = .ok (n, ⟨rp.pos, rest⟩)) ∧
    (Follow 1 rest → plain (pAnd c' ⟨p, lp :: (ts ++ rp :: rest)⟩) = .ok (n, ⟨rp.pos, rest⟩)) ∧
    (Follow 0 rest → plain (pOr c' ⟨p, lp :: (ts ++ rp :: rest)⟩) = .ok (n, ⟨rp.pos, rest⟩)) ∧
    (Follow 0 rest → plain (pExpression c' ⟨p, lp :: (ts ++ rp :: rest)⟩) = .ok (n, ⟨rp.pos, rest⟩)) ∧
    (Follow 0 rest → plain (pStatement c' ⟨p, lp :: (ts ++ rp :: rest)⟩) = .ok (n, ⟨rp.pos, rest⟩)) := by
  have hprim : NoPostfix rest → ∀ um, plain (pPrimary c' um ⟨p, lp :: (ts ++ rp :: rest)⟩) =
      .ok (n, ⟨rp.pos, rest⟩) :=
    fun hn um => parens_primary_of_expr c c' hv um p lp rp hl hr ts rest n q hs he hn
  refine ⟨fun hn => hprim hn um, ?_⟩
  have cl := fun (hn : NoPostfix rest) => climb c' um p lp hl (ts ++ rp :: rest) n rp.pos rest (hprim hn)
  exact ⟨fun hf => (cl (noPostfix_of_follow hf)).1 hf, fun hf => (cl (noPostfix_of_follow hf)).2.1 hf,
    fun hf => (cl (noPostfix_of_follow hf)).2.2.1 hf, fun hf => (cl (noPostfix_of_follow hf)).2.2.2.1 hf,
    fun hf => (cl (noPostfix_of_follow hf)).2.2.2.2.1 hf, fun hf => (cl (noPostfix_of_follow hf)).2.2.2.2.2.1 hf,
    fun hf => (cl (noPostfix_of_follow hf)).2.2.2.2.2.2.1 hf, fun hf => (cl (noPostfix_of_follow hf)).2.2.2.2.2.2.2.1 hf,
    fun hf => (cl (noPostfix_of_follow hf)).2.2.2.2.2.2.2.2.1 hf, fun hf => (cl (noPostfix_of_follow hf)).2.2.2.2.2.2.2.2.2 hf⟩

/-- **paren_expr_stop** (call arguments before `,` / `)`, list elements before `,` / `]`, set / map /
    object elements, map keys before `=>`, right-hand sides of `def` / `=` before `;` / `end`,
    `for … in ( e ) do`, slices …): an expression occurrence `ts` that the expression parser parses
    to `n` in front of the stopper `t`, and `( ts )` in the same place: same node, same rest. -/
theorem paren_expr_stop (c c' : Ctx) (hv : c'.validRe = c.validRe) (p : Pos) (lp rp : Token)
    (hl : IsLp lp) (hr : IsRp rp) (ts : List Token) (n : Node) (q : Pos) (hs : exprStart ts = true)
    (he : plain (pExpression c ⟨lp.pos, ts⟩) = .ok (n, ⟨q, []⟩)) (t : Token) (ht : isCont t = false)
    (rest : List Token) :
    plain (pExpression c' ⟨lp.pos, ts ++ t :: rest⟩) = .ok (n, ⟨q, t :: rest⟩) ∧
    plain (pExpression c' ⟨p, lp :: (ts ++ rp :: t :: rest)⟩) = .ok (n, ⟨rp.pos, t :: rest⟩) :=
  ⟨by simpa using parse_expr_extends c c' hv lp.pos ts [] n q he t ht rest,
   (paren_at_levels c c' hv false p lp rp hl hr ts (t :: rest) n q hs he).2.2.2.2.2.2.2.2.2.1
     (follow_of_stop ht rest 0)⟩

/-- … and at the end of the input -/
theorem paren_expr_end (c c' : Ctx) (hv : c'.validRe = c.validRe) (p : Pos) (lp rp : Token)
    (hl : IsLp lp) (hr : IsRp rp) (ts : List Token) (n : Node) (q : Pos) (hs : exprStart ts = true)
    (he : plain (pExpression c ⟨lp.pos, ts⟩) = .ok (n, ⟨q, []⟩)) :
    plain (pExpression c' ⟨p, lp :: (ts ++ [rp])⟩) = .ok (n, ⟨rp.pos, []⟩) :=
  (paren_at_levels c c' hv false p lp rp hl hr ts [] n q hs he).2.2.2.2.2.2.2.2.2.1 (C02P.Follow.nil 0)

/-- **paren_cond_stop** (the conditions of `if … then` and `while … do`, which are parsed by
    `parse_or_expr`): a condition `ts` in front of the stopper `t` (`then`, `do`), and `( ts )` -/
theorem paren_cond_stop (c c' : Ctx) (hv : c'.validRe = c.validRe) (p : Pos) (lp rp : Token)
    (hl : IsLp lp) (hr : IsRp rp) (ts : List Token) (n : Node) (q : Pos) (hs : exprStart ts = true)
    (he : plain (pExpression c ⟨lp.pos, ts⟩) = .ok (n, ⟨q, []⟩)) (t : Token) (ht : isCont t = false)
    (rest : List Token) :
    plain (pOr c' ⟨p, lp :: (ts ++ rp :: t :: rest)⟩) = .ok (n, ⟨rp.pos, t :: rest⟩) :=
  (paren_at_levels c c' hv false p lp rp hl hr ts (t :: rest) n q hs he).2.2.2.2.2.2.2.2.1
    (follow_of_stop ht rest 0)

/-- a statement `( ts )` in front of `;`, `end`, `catch`, `finally` or another stopper -/
theorem paren_statement_stop (c c' : Ctx) (hv : c'.validRe = c.validRe) (p : Pos) (lp rp : Token)
    (hl : IsLp lp) (hr : IsRp rp) (ts : List Token) (n : Node) (q : Pos) (hs : exprStart ts = true)
    (he : plain (pExpression c ⟨lp.pos, ts⟩) = .ok (n, ⟨q, []⟩)) (t : Token) (ht : isCont t = false)
    (rest : List Token) :
    plain (pStatement c' ⟨p, lp :: (ts ++ rp :: t :: rest)⟩) = .ok (n, ⟨rp.pos, t :: rest⟩) :=
  (paren_at_levels c c' hv false p lp rp hl hr ts (t :: rest) n q hs he).2.2.2.2.2.2.2.2.2.2
    (follow_of_stop ht rest 0)

/-- nesting: `( ts )` alone is again an expression with node `n` (and it starts like an expression),
    so all of the above applies to `(( ts ))`, `((( ts )))`, … -/
theorem paren_nest (c c' : Ctx) (hv : c'.validRe = c.validRe) (p : Pos) (lp rp : Token)
    (hl : IsLp lp) (hr : IsRp rp) (ts : List Token) (n : Node) (q : Pos) (hs : exprStart ts = true)
    (he : plain (pExpression c ⟨lp.pos, ts⟩) = .ok (n, ⟨q, []⟩)) :
    exprStart (lp :: (ts ++ [rp])) = true ∧
    plain (pExpression c' ⟨p, lp :: (ts ++ [rp])⟩) = .ok (n, ⟨rp.pos, []⟩) := by
  refine ⟨?_, paren_expr_end c c' hv p lp rp hl hr ts n q hs he⟩
  simp [exprStart, St.tokIs, hl.1, hl.2]

/-! ## 4. a whole script in parentheses -/

/-- a script that is one expression parses to that expression (a final `return e` is unwrapped) -/
theorem parse_expr_script (validRe : List Char → Bool) (file : String) (t0 : Token) (tl : List Token) (n : Node)
    (q : Pos) (hs : exprStart (t0 :: tl) = true)
    (he : plain (pExpression ⟨endPosOf file (t0 :: tl), validRe⟩ ⟨t0.pos, t0 :: tl⟩) = .ok (n, ⟨q, []⟩)) :
    parseWith validRe file (t0 :: tl) = .ok (unwrapReturn n) :=
  parseWith_of_expr validRe file t0 tl n q hs he

/-- **parse_redundant_parens_general**: a script `ts` that is one expression (the expression parser
    reads all of it), put in parentheses: `( ts )` parses, to the same AST up to positions
    (`C02P.erase`).  (Up to positions, because every token behind the `(` has moved.)
    Generalises `C14S.parse_redundant_parens` from "stable" expressions to all expressions. -/
theorem parse_redundant_parens_general (validRe : List Char → Bool) (file : String) (t0 : Token) (tl : List Token)
    (lp rp : Token) (hl : IsLp lp) (hr : IsRp rp) (n : Node) (q : Pos) (hs : exprStart (t0 :: tl) = true)
    (he : plain (pExpression ⟨endPosOf file (t0 :: tl), validRe⟩ ⟨t0.pos, t0 :: tl⟩) = .ok (n, ⟨q, []⟩)) :
    ∃ n', parseWith validRe file (lp :: (t0 :: tl ++ [rp])) = .ok (unwrapReturn n') ∧
      C02P.erase n' = C02P.erase n := by
  let c' : Ctx := ⟨endPosOf file (lp :: (t0 :: tl ++ [rp])), validRe⟩
  obtain ⟨n', q', he', hn'⟩ := pExpression_prev_irrelevant ⟨endPosOf file (t0 :: tl), validRe⟩ c' rfl
    t0.pos lp.pos (t0 :: tl) n q he
  refine ⟨n', ?_, hn'⟩
  have hor := (paren_at_levels c' c' rfl false lp.pos lp rp hl hr (t0 :: tl) [] n' q' hs he').2.2.2.2.2.2.2.2.1
    (C02P.Follow.nil 0)
  have hb := C02P.pBareBlock_of_or c' true lp.pos lp (t0 :: tl ++ [rp]) n' rp.pos [] hl.exprHead hor
    (by intro t2 tl2 h; cases h)
  obtain ⟨hlb, hb⟩ := plain_eq_ok hb
  have hb' : pBareBlock ⟨endPosOf file (lp :: t0 :: (tl ++ [rp])), validRe⟩ true
      ⟨lp.pos, lp :: t0 :: (tl ++ [rp])⟩ = .ok ⟨n', ⟨rp.pos, []⟩, by simp⟩ := hb
  simp [parseWith, parseCore, hb']


/-- … in the form of `C14P.parse_pos_irrelevant`: same outcome up to positions -/
theorem parse_parens_outcome (validRe : List Char → Bool) (file : String) (t0 : Token) (tl : List Token)
    (lp rp : Token) (hl : IsLp lp) (hr : IsRp rp) (n : Node) (q : Pos) (hs : exprStart (t0 :: tl) = true)
    (he : plain (pExpression ⟨endPosOf file (t0 :: tl), validRe⟩ ⟨t0.pos, t0 :: tl⟩) = .ok (n, ⟨q, []⟩)) :
    C14P.outcome (parseWith validRe file (lp :: (t0 :: tl ++ [rp]))) =
      C14P.outcome (parseWith validRe file (t0 :: tl)) := by
  obtain ⟨n', h', hn'⟩ := parse_redundant_parens_general validRe file t0 tl lp rp hl hr n q hs he
  rw [h', parse_expr_script validRe file t0 tl n q hs he]
  simp only [C14P.outcome, C14P.erase, erase_unwrapReturn hn']

/-! ## 5. end to end -/

/-- **interpret_parens_irrelevant**: a script that is one expression, and the same script in
    parentheses, interpreted (`Interpreter.interpret` after the front end) in similar states — in
    particular in the same state — give similar outcomes: the same value, the same output, the same
    error value (up to the positions inside them).  For every loader whose unmodelled built-ins
    respect similarity and every fuel (out-of-fuel / `unsupported` outcomes are related to
    themselves, never to a value). -/
theorem interpret_parens_irrelevant (ld : Loader) (hn : C14E.NativeSim ld) (fuel : Nat) (senv : EnvId)
    (validRe : List Char → Bool) (file : String) (t0 : Token) (tl : List Token)
    (lp rp : Token) (hl : IsLp lp) (hr : IsRp rp) (n : Node) (q : Pos) (hs : exprStart (t0 :: tl) = true)
    (he : plain (pExpression ⟨endPosOf file (t0 :: tl), validRe⟩ ⟨t0.pos, t0 :: tl⟩) = .ok (n, ⟨q, []⟩))
    {s s' : State} (hss : C14E.StateSim s s') :
    ∃ m m', parseWith validRe file (t0 :: tl) = .ok m ∧
      parseWith validRe file (lp :: (t0 :: tl ++ [rp])) = .ok m' ∧
      C14E.OutSim (interpretProg ld fuel senv m s) (interpretProg ld fuel senv m' s') := by
  obtain ⟨n', h', hn'⟩ := parse_redundant_parens_general validRe file t0 tl lp rp hl hr n q hs he
  refine ⟨_, _, parse_expr_script validRe file t0 tl n q hs he, h', ?_⟩
  exact C14E.interpretProg_pos_irrelevant ld hn fuel senv
    (nodeSim_of_erase (erase_unwrapReturn hn').symm) hss

/-! ## 5b. optional trailing semicolons -/

/-- **trailing_semi_general**: for every non-empty token list `ts` that parses as a script to `n` and
    does not already end with a `;`, `ts ++ [;]` parses to the SAME `n` (positions included).
    Both side conditions are needed: the empty script parses (to `null`) but `;` alone is a syntax
    error, and so is a doubled `;;` (finding F4 below).  In this direction there is no further
    exception: `return` → `return;` (`C14S.trailing_semi_not_general`) is excluded by the hypothesis
    that `ts` parses — a bare `return` at the end of the input does not. -/
theorem trailing_semi_general (validRe : List Char → Bool) (file : String) (ts : List Token) (hne : ts ≠ [])
    (hns : NoSemiEnd ts) (semi : Token) (hsemi : IsSemi semi) (n : Node)
    (h : parseWith validRe file ts = .ok n) : parseWith validRe file (ts ++ [semi]) = .ok n :=
  parseWith_trailing_semi validRe file ts hne hns semi hsemi n h

/-- the statement loop itself: `s (; s)*` run to the end of the input, and the same followed by `;` -/
theorem bare_block_trailing_semi (c c' : Ctx) (hv : c'.validRe = c.validRe) (semi : Token) (hsemi : IsSemi semi)
    (toplevel : Bool) (p : Pos) (ts : List Token) (hns : NoSemiEnd ts) (n : Node) (q : Pos)
    (h : plain (pBareBlock c toplevel ⟨p, ts⟩) = .ok (n, ⟨q, []⟩)) :
    ∃ q', plain (pBareBlock c' toplevel ⟨p, ts ++ [semi]⟩) = .ok (n, ⟨q', []⟩) := by
  obtain ⟨hl, h⟩ := plain_eq_ok h
  obtain ⟨o', ho', hv', ht'⟩ := pBareBlock_semi c c' hv semi hsemi toplevel ⟨p, ts⟩ ⟨p, ts ++ [semi]⟩
    ⟨rfl, rfl⟩ hns _ h rfl
  obtain ⟨r', ⟨q', rt'⟩, hl'⟩ := o'
  dsimp only at hv' ht'
  subst hv' ht'
  exact ⟨q', by rw [ho']; rfl⟩

/-- source level: if `src` scans to a non-empty token list that parses and does not end with `;`,
    and `src` does not end inside a string / pattern / comment, then `src;` (plus white space)
    parses to the same AST -/
theorem parseScript_trailing_semi_general (file : String) (src w : List Char)
    (hw : ∀ c ∈ w, c ∈ Lexer.whitespace)
    (hsrc : ∀ σ, Lexer.run file {} src = .ok σ → ¬ Lexer.InText σ.core.state)
    {ts : List Token} (hscan : Lexer.scan src file = .ok ts) (hne : ts ≠ []) (hns : NoSemiEnd ts)
    {n : Node} (hok : parse file ts = .ok n) :
    parseScript (src ++ ';' :: w) file = parseScript src file :=
  C14S.parseScript_trailing_semi_of_parse file src w hw hsrc hscan
    (fun semi hsemi => by
      rw [hok]; exact trailing_semi_general _ file ts hne hns semi ⟨hsemi.1, hsemi.2⟩ n hok)

/-- end to end: … and is interpreted with the same outcome -/
theorem interpret_trailing_semi_irrelevant (ld : Loader) (hn : C14E.NativeSim ld) (fuel : Nat) (senv : EnvId)
    (file : String) (src w : List Char) (hw : ∀ c ∈ w, c ∈ Lexer.whitespace)
    (hsrc : ∀ σ, Lexer.run file {} src = .ok σ → ¬ Lexer.InText σ.core.state)
    {ts : List Token} (hscan : Lexer.scan src file = .ok ts) (hne : ts ≠ []) (hns : NoSemiEnd ts)
    {n : Node} (hok : parse file ts = .ok n) {s s' : State} (hss : C14E.StateSim s s') :
    OutSimX (interpretSource ld fuel senv (src ++ ';' :: w) file s) (interpretSource ld fuel senv src file s') :=
  interpretSource_srcSim ld hn fuel senv file
    (by unfold SrcSim; rw [parseScript_trailing_semi_general file src w hw hsrc hscan hne hns hok]) hss

/-! ## 6. non-vacuity and findings -/

section Examples

private def X : Token := ⟨c!"x", .identifier, ⟨"-", 1, 2⟩⟩
private def LP : Token := ⟨c!"(", .interpunction, ⟨"-", 1, 1⟩⟩
private def RP : Token := ⟨c!")", .interpunction, ⟨"-", 1, 3⟩⟩
private def C0 : Ctx := ⟨⟨"-", 1, 3⟩, fun _ => true⟩

/-- the hypothesis of `parse_expr_extends` is met (`x` alone is an expression) … -/
example : plain (pExpression C0 ⟨LP.pos, [X]⟩) = .ok (.ident "x" X.pos, ⟨X.pos, []⟩) :=
  pExpression_ident C0 LP.pos X rfl
/-- … so `x )` leaves the `)` … -/
example : plain (pExpression C0 ⟨LP.pos, [X] ++ RP :: []⟩) = .ok (.ident "x" X.pos, ⟨X.pos, [] ++ RP :: []⟩) :=
  parse_expr_extends C0 C0 rfl LP.pos [X] [] _ _ (pExpression_ident C0 LP.pos X rfl) RP rfl []
/-- … `( x )` is the primary expression `x` … -/
example : plain (pPrimary C0 false ⟨LP.pos, LP :: ([X] ++ RP :: [])⟩) = .ok (.ident "x" X.pos, ⟨RP.pos, []⟩) :=
  parens_primary_of_expr C0 C0 rfl false LP.pos LP RP ⟨rfl, rfl⟩ ⟨rfl, rfl⟩ [X] [] _ _ rfl
    (pExpression_ident C0 LP.pos X rfl) trivial
/-- … `(( x ))` too (`paren_nest` feeds `paren_expr_end`) … -/
example : plain (pExpression C0 ⟨LP.pos, LP :: ((LP :: ([X] ++ [RP])) ++ [RP])⟩) =
    .ok (.ident "x" X.pos, ⟨RP.pos, []⟩) :=
  let h := paren_nest C0 C0 rfl LP.pos LP RP ⟨rfl, rfl⟩ ⟨rfl, rfl⟩ [X] _ _ rfl (pExpression_ident C0 LP.pos X rfl)
  paren_expr_end C0 C0 rfl LP.pos LP RP ⟨rfl, rfl⟩ ⟨rfl, rfl⟩ _ _ _ h.1 h.2
/-- … and the script `( x )` has the outcome of the script `x` -/
example : C14P.outcome (parseWith (fun _ => true) "-" (LP :: (X :: [] ++ [RP]))) =
    C14P.outcome (parseWith (fun _ => true) "-" (X :: [])) :=
  parse_parens_outcome _ "-" X [] LP RP ⟨rfl, rfl⟩ ⟨rfl, rfl⟩ _ _ rfl (pExpression_ident _ X.pos X rfl)

/-- tests on token lists produced by the scanner model (evaluated, not proved) -/
private def sc (s : String) : List Token := match Lexer.scan s.toList "-" with | .ok l => l | .error _ => []
private def ast (s : String) : String :=
  match parse "-" (sc s) with | .ok n => reprStr (C02P.erase n) | .error e => "ERR " ++ e.msg

-- redundant parentheses in the contexts of `paren_at_levels` / `paren_expr_stop` / `paren_cond_stop`
#guard ast "f((a + b), [(c), (d)], <<<(k) => (v)>>>)" == ast "f(a + b, [c, d], <<<k => v>>>)"
#guard ast "if (a < b) then (x) else (y)" == ast "if a < b then x else y"
#guard ast "while (a < b) do (x = (x + 1)); end" == ast "while a < b do x = x + 1; end"
#guard ast "def f(x) (x * 2); ((f(3)))" == ast "def f(x) x * 2; f(3)"
#guard ast "(a * b) + (c * d) == (e) and not (g)" == ast "a * b + c * d == e and not g"
#guard ast "[(x * 2) for x in (range(3)) if (x > 0)]" == ast "[x * 2 for x in range(3) if x > 0]"
-- the postfix loop continues behind the parenthesis (`parens_primary_call`)
#guard ast "(f)(1)" == ast "f(1)"
#guard ast "(a)[0]" == ast "a[0]"
#guard ast "(o)->m(1)" == ast "o->m(1)"

/-- `trailing_semi_general` on the script `x`: hypotheses met, `x;` parses to the same AST -/
example (semi : Token) (hsemi : IsSemi semi) :
    parseWith (fun _ => true) "-" ([X] ++ [semi]) = .ok (.ident "x" X.pos) :=
  trailing_semi_general _ "-" [X] (by simp) (by intro t ht; cases ht; rfl) semi hsemi _
    (parse_expr_script _ "-" X [] _ _ rfl (pExpression_ident _ X.pos X rfl))

-- trailing semicolons on scanner output
#guard ast "def f(x) x * 2; f(3);" == ast "def f(x) x * 2; f(3)"
#guard ast "if a then b;" == ast "if a then b"
-- the converse direction has the known exception: `return;` parses, `return` does not
#guard ast "return;" != ast "return"

/-! ### findings: parentheses / semicolons that are NOT redundant -/

-- (F1) a block in statement position takes no operator behind its `end`: `exprStart` is needed
#guard ast "x = do 1 end + 2" != "ERR Expected ) but got + (operator)"
#guard ast "x = (do 1 end + 2)" == "ERR Expected ) but got + (operator)"
#guard ast "do 1 end + 2" == "ERR Expected end of input but got '+ (operator)'"
-- (F2) `- literal` is folded into a negative literal, `-( literal )` is `0 - literal`
#guard ast "-(1)" != ast "-1"
#guard ast "-(a)" == ast "-a"
-- (F3) a parenthesised (or any) expression statement followed by a line that starts with `(` / `[`:
--      the line break is no separator, the next line is a call / an index (`isCont ( = true`)
#guard ast "a\n(b)" == ast "a(b)"
#guard ast "a;\n(b)" != ast "a(b)"
-- (F4) a doubled `;`, a `;` alone, and a `;` before `)` are syntax errors; before `end` one `;` is fine
#guard ast "x;;" == "ERR Invalid syntax at '; (interpunction)'"
#guard ast ";" == "ERR Invalid syntax at '; (interpunction)'"
#guard ast "(a;)" == "ERR Invalid syntax at ') (interpunction)'"
#guard ast "do x; end" == ast "do x end"
#guard ast "do x;; end" == "ERR Invalid syntax at '; (interpunction)'"
-- (F5) dangling `else`: `else` is a continuation token even for `parse_or_expr`
#guard ast "if c then y = if a then b else d" == ast "if c then y = (if a then b else d)"

end Examples

end Ckl.C14X
