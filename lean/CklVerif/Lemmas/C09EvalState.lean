/-
  C09 (evaluator level): the state invariant `Inv E b` and its preservation by the primitive
  state changes of the evaluator.
-/
import CklVerif.Lemmas.C09EvalBase
namespace Ckl.C09E
open Ckl

/-- secure flag `= b`; all frame variables and all heap cells are clean w.r.t. `E` -/
structure Inv (E : List String) (b : Bool) (s : State) : Prop where
  secure : s.secure = b
  frames : ∀ e, Cl.cl E (s.frame e).vars
  heap : ∀ a c, s.cell a = some c → Cl.cl E c

variable {E : List String} {b : Bool}

theorem Inv.of_eq {s s' : State} (h : Inv E b s) (h1 : s'.secure = s.secure) (h2 : s'.frames = s.frames)
    (h3 : s'.heap = s.heap) : Inv E b s' :=
  ⟨h1.trans h.secure, fun e => by unfold State.frame; rw [h2]; exact h.frames e,
   fun a c hc => by unfold State.cell at hc; rw [h3] at hc; exact h.heap a c hc⟩

/-! ### dictionaries -/

theorem cl_of_dictGet {β} [Cl β] {k : String} {d : List (String × β)} {v : β}
    (h : dictGet k d = some v) (hd : Cl.cl E d) : Cl.cl E v := by
  induction d with
  | nil => cases h
  | cons p rest ih =>
    obtain ⟨k', v'⟩ := p
    simp only [dictGet] at h
    rw [cl_cons] at hd
    split at h
    · cases h; exact hd.1.2
    · exact ih h hd.2

theorem cl_dictGet {β} [Cl β] (k : String) {d : List (String × β)} (hd : Cl.cl E d) :
    Cl.cl E (dictGet k d) := (cl_option_iff _).mpr fun _ h => cl_of_dictGet h hd

theorem cl_dictPut {β} [Cl β] (k : String) {v : β} {d : List (String × β)}
    (hd : Cl.cl E d) (hv : Cl.cl E v) : Cl.cl E (dictPut k v d) := by
  induction d with
  | nil => simp only [dictPut, cl_cons, cl_nil, and_true]; exact ⟨trivial, hv⟩
  | cons p rest ih =>
    obtain ⟨k', v'⟩ := p
    rw [cl_cons] at hd
    simp only [dictPut]
    split
    · rw [cl_cons]; exact ⟨⟨trivial, hv⟩, hd.2⟩
    · rw [cl_cons]; exact ⟨hd.1, ih hd.2⟩

theorem cl_dictDel {β} [Cl β] (k : String) {d : List (String × β)}
    (hd : Cl.cl E d) : Cl.cl E (dictDel k d) := by
  induction d with
  | nil => exact hd
  | cons p rest ih =>
    obtain ⟨k', v'⟩ := p
    rw [cl_cons] at hd
    simp only [dictDel]
    split
    · exact hd.2
    · rw [cl_cons]; exact ⟨hd.1, ih hd.2⟩

/-! ### frames -/

theorem frame_modify (s : State) (e e' : Nat) (g : Frame → Frame) :
    ({ s with frames := s.frames.modify e g } : State).frame e' =
      if e = e' ∧ e' < s.frames.size then g (s.frame e') else s.frame e' := by
  unfold State.frame
  simp only [Array.getD_eq_getD_getElem?, Array.getElem?_modify]
  by_cases he : e = e'
  · subst he
    by_cases hlt : e < s.frames.size
    · simp [hlt]
    · simp [hlt]
  · simp [he]

theorem Inv.put {s : State} (h : Inv E b s) (e : EnvId) (x : String) {v : RVal} (hv : Cl.cl E v) :
    Inv E b (s.put e x v) := by
  refine ⟨h.secure, fun e' => ?_, h.heap⟩
  unfold State.put
  rw [frame_modify]
  split
  · exact cl_dictPut x (h.frames e') hv
  · exact h.frames e'

theorem Inv.remove {s : State} (h : Inv E b s) (e : EnvId) (x : String) : Inv E b (s.remove e x) := by
  refine ⟨h.secure, fun e' => ?_, h.heap⟩
  unfold State.remove
  rw [frame_modify]
  split
  · exact cl_dictDel x (h.frames e')
  · exact h.frames e'

theorem Inv.newEnv {s : State} (h : Inv E b s) (p : EnvId) : Inv E b (s.newEnv p).1 := by
  refine ⟨h.secure, fun e' => ?_, h.heap⟩
  have := h.frames e'
  unfold State.newEnv State.frame at *
  simp only [Array.getD_eq_getD_getElem?, Array.getElem?_push] at *
  split
  · simp only [Option.getD_some]; exact cl_nil'
  · exact this

theorem Inv.newEnv' {s s' : State} {p l : EnvId} (h : Inv E b s) (he : s.newEnv p = (s', l)) :
    Inv E b s' := by
  have := h.newEnv p; rw [he] at this; exact this

theorem Inv.setF {s : State} (h : Inv E b s) {v : RVal} (hv : Cl.cl E v) :
    ∀ (fuel : Nat) (e : EnvId) (x : String) (s' : State), s.setF fuel e x v = some s' → Inv E b s' := by
  intro fuel
  induction fuel with
  | zero => intro e x s' hs; simp [State.setF] at hs
  | succ k ih =>
    intro e x s' hs
    simp only [State.setF] at hs
    split at hs
    · cases hs; exact h.put e x hv
    · split at hs
      · exact ih _ _ _ hs
      · cases hs

theorem Inv.set {s s' : State} {e : EnvId} {x : String} {v : RVal} (h : Inv E b s)
    (hs : s.set e x v = some s') (hv : Cl.cl E v) : Inv E b s' := h.setF hv _ _ _ _ hs

theorem Inv.lookupF {s : State} (h : Inv E b s) :
    ∀ (fuel : Nat) (e : EnvId) (x : String) (v : RVal), s.lookupF fuel e x = some v → Cl.cl E v := by
  intro fuel
  induction fuel with
  | zero => intro e x v hv; simp [State.lookupF] at hv
  | succ k ih =>
    intro e x v hv
    simp only [State.lookupF] at hv
    split at hv
    · rename_i w hw; cases hv; exact cl_of_dictGet hw (h.frames e)
    · split at hv
      · exact ih _ _ _ hv
      · cases hv

theorem Inv.lookup {s : State} {e : EnvId} {x : String} {v : RVal} (h : Inv E b s)
    (hv : s.lookup e x = some v) : Cl.cl E v := h.lookupF _ _ _ _ hv

theorem Inv.lookup_getD {s : State} (h : Inv E b s) (e : EnvId) (x : String) :
    Cl.cl E ((s.lookup e x).getD .null) := by
  cases hv : s.lookup e x with
  | none => trivial
  | some v => exact h.lookup hv

theorem Inv.cl_lookup {s : State} (h : Inv E b s) (e : EnvId) (x : String) :
    Cl.cl E (s.lookup e x) := (cl_option_iff _).mpr fun _ hv => h.lookup hv

theorem Inv.cl_cell {s : State} (h : Inv E b s) (a : Nat) : Cl.cl E (s.cell a) :=
  (cl_option_iff _).mpr fun c hc => h.heap a c hc

theorem Inv.cell {s : State} {a : Nat} {c : Cell} (h : Inv E b s) (hc : s.cell a = some c) : Cl.cl E c :=
  h.heap a c hc

theorem Inv.cell_list {s : State} {a : Nat} {xs : List RVal} (hc : s.cell a = some (.list xs)) (h : Inv E b s) :
    Cl.cl E xs := h.heap a _ hc
theorem Inv.cell_set {s : State} {a : Nat} {xs : List RVal} (hc : s.cell a = some (.set xs)) (h : Inv E b s) :
    Cl.cl E xs := h.heap a _ hc
theorem Inv.cell_map {s : State} {a : Nat} {xs : List (RVal × RVal)} (hc : s.cell a = some (.map xs))
    (h : Inv E b s) : Cl.cl E xs := h.heap a _ hc
theorem Inv.cell_obj {s : State} {a : Nat} {xs : List (String × RVal)} {m : Bool}
    (hc : s.cell a = some (.obj xs m)) (h : Inv E b s) : Cl.cl E xs := h.heap a _ hc

/-! ### heap -/

theorem Inv.setCell {s : State} (h : Inv E b s) (a : Nat) {c : Cell} (hc : Cl.cl E c) :
    Inv E b (s.setCell a c) := by
  refine ⟨h.secure, h.frames, fun a' c' hc' => ?_⟩
  unfold State.setCell State.cell at hc'
  simp only [Array.getElem?_setIfInBounds] at hc'
  split at hc'
  · split at hc'
    · cases hc'; exact hc
    · cases hc'
  · exact h.heap a' c' hc'

theorem Inv.alloc {s : State} (h : Inv E b s) {c : Cell} (hc : Cl.cl E c) : Inv E b (s.alloc c).1 := by
  refine ⟨h.secure, h.frames, fun a' c' hc' => ?_⟩
  unfold State.alloc State.cell at hc'
  simp only [Array.getElem?_push] at hc'
  split at hc'
  · cases hc'; exact hc
  · exact h.heap a' c' hc'

theorem Inv.write {s : State} (h : Inv E b s) (t : List Char) : Inv E b (s.write t) := h.of_eq rfl rfl rfl
theorem Inv.ghostEnter {s : State} (h : Inv E b s) (p : Pos) : Inv E b (ghostEnter s p) := h.of_eq rfl rfl rfl
theorem Inv.ghostFin {s : State} (h : Inv E b s) (p : Pos) : Inv E b (ghostFin s p) := h.of_eq rfl rfl rfl

theorem Inv.nextInst {s : State} (h : Inv E b s) (n : Nat) : Inv E b { s with nextInst := n } :=
  h.of_eq rfl rfl rfl
theorem Inv.modstack {s : State} (h : Inv E b s) (l : List String) : Inv E b { s with modstack := l } :=
  h.of_eq rfl rfl rfl
theorem Inv.modules {s : State} (h : Inv E b s) (l : List (String × EnvId)) (g : Ghost) :
    Inv E b { s with modules := l, ghost := g } := h.of_eq rfl rfl rfl
theorem Inv.out {s : State} (h : Inv E b s) (l : List Char) : Inv E b { s with out := l } :=
  h.of_eq rfl rfl rfl

theorem Inv.foldl {γ} {f : State → γ → State} {l : List γ}
    (hf : ∀ s x, x ∈ l → Inv E b s → Inv E b (f s x)) {s : State} (h : Inv E b s) :
    Inv E b (l.foldl f s) := by
  induction l generalizing s with
  | nil => exact h
  | cons x xs ih =>
    exact ih (fun s y hy => hf s y (List.mem_cons_of_mem _ hy)) (hf s x List.mem_cons_self h)

end Ckl.C09E
