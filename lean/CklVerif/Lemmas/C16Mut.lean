/-
  C16 helper library: "this computation changes at most the heap cell `a`" (`MutatesOnly a`).
-/
import CklVerif.Lemmas.C16Natives
import CklVerif.Lemmas.C17EvalBase
namespace Ckl

/-- the heaps have the same size and agree on every cell other than `a`; the variable bindings
    (frames) are the same -/
structure OnlyCell (a : Nat) (s s' : State) : Prop where
  size : s'.heap.size = s.heap.size
  others : ∀ b, b ≠ a → s'.heap[b]? = s.heap[b]?
  frames : s'.frames = s.frames

theorem OnlyCell.refl (a : Nat) (s : State) : OnlyCell a s s := ⟨rfl, fun _ _ => rfl, rfl⟩

theorem OnlyCell.trans {a : Nat} {s1 s2 s3 : State} (h1 : OnlyCell a s1 s2) (h2 : OnlyCell a s2 s3) :
    OnlyCell a s1 s3 :=
  ⟨h2.size.trans h1.size, fun b hb => (h2.others b hb).trans (h1.others b hb),
    h2.frames.trans h1.frames⟩

theorem OnlyCell.setCell (a : Nat) (s : State) (c : Cell) : OnlyCell a s (s.setCell a c) := by
  refine ⟨by simp [State.setCell], fun b hb => ?_, rfl⟩
  simp only [State.setCell]
  exact Array.getElem?_setIfInBounds_ne (Ne.symm hb)

/-- the computation changes no heap cell other than `a` and allocates nothing -/
structure MutatesOnly {α} (a : Nat) (m : EvalM α) : Prop where
  run : ∀ s, OnlyCell a s (m s).st

namespace MutatesOnly
variable {a : Nat}

theorem pure {α} (x : α) : MutatesOnly a (Pure.pure x : EvalM α) := ⟨fun s => OnlyCell.refl a s⟩

theorem bind {α β} {m : EvalM α} {f : α → EvalM β} (hm : MutatesOnly a m)
    (hf : ∀ x, MutatesOnly a (f x)) : MutatesOnly a (m >>= f) := by
  constructor
  intro s
  rw [EvalM.bind_apply]
  have := hm.run s
  cases h : m s with
  | ok x s1 => rw [h] at this; exact this.trans ((hf x).run s1)
  | err v msg p t s1 => rw [h] at this; exact this
  | fail k s1 => rw [h] at this; exact this

theorem getS : MutatesOnly a getS := ⟨fun s => OnlyCell.refl a s⟩
theorem throwE {α} (msg : String) (pos : Pos) : MutatesOnly a (throwE msg pos : EvalM α) :=
  ⟨fun s => OnlyCell.refl a s⟩
theorem unsupported {α} (w : String) : MutatesOnly a (unsupported w : EvalM α) :=
  ⟨fun s => OnlyCell.refl a s⟩
theorem cellOf (v : RVal) : MutatesOnly a (cellOf v) := by
  constructor; intro s; unfold Ckl.cellOf; split <;> exact OnlyCell.refl a s
theorem typeOf (v : RVal) : MutatesOnly a (typeOf v) := ⟨fun s => OnlyCell.refl a s⟩
theorem setCell (c : Cell) : MutatesOnly a (modifyS (fun s => s.setCell a c)) :=
  ⟨fun s => OnlyCell.setCell a s c⟩
theorem setCell' {b : Nat} (h : RVal.ref a = RVal.ref b) (c : Cell) :
    MutatesOnly a (modifyS (fun s => s.setCell b c)) := by
  cases h; exact setCell c
theorem argGet (args : List (String × RVal)) (name : String) (pos : Pos) :
    MutatesOnly a (argGet args name pos) := by
  unfold Ckl.argGet; split
  · exact pure _
  · exact throwE _ _

end MutatesOnly

macro "mut_step" : tactic => `(tactic| first
  | exact MutatesOnly.pure _
  | exact MutatesOnly.getS
  | exact MutatesOnly.throwE _ _
  | exact MutatesOnly.unsupported _
  | exact MutatesOnly.cellOf _
  | exact MutatesOnly.typeOf _
  | exact MutatesOnly.setCell _
  | exact MutatesOnly.setCell' (by assumption) _
  | exact MutatesOnly.argGet _ _ _
  | apply MutatesOnly.bind
  | intro _
  | dsimp only
  | split)

macro "mut!" : tactic => `(tactic| repeat' mut_step)

/-- the parameter through which a mutator receives the container it changes -/
def firstArg (name : String) : String := if name = "put" then "m" else "lst"

theorem argGet_of_dictGet {args : List (String × RVal)} {n : String} {v : RVal} (pos : Pos)
    (h : dictGet n args = some v) : argGet args n pos = pure v := by
  unfold argGet; rw [h]

set_option maxHeartbeats 400000 in
/-- a mutator called on the cell `a` changes no other cell (and allocates nothing), whatever
    its outcome -/
theorem MutatesOnly.callPure (name : String) (args : List (String × RVal)) (div0 : Option RVal)
    (pos : Pos) (m : EvalM RVal) (a : Nat) (hn : name ∈ mutators)
    (hfirst : dictGet (firstArg name) args = some (.ref a))
    (h : callPure name args div0 pos = some m) : MutatesOnly a m := by
  unfold Ckl.callPure at h
  dsimp only at h
  split at h <;> first
    | (exfalso; simp [mutators] at hn; done)
    | (simp only [firstArg, String.reduceEq, if_false, if_true] at hfirst
       injection h with h; subst h
       rw [argGet_of_dictGet pos hfirst]
       simp only [pure_bind]
       mut!)
    | (exfalso; rcases callDate_some_name h with rfl | rfl | rfl <;> simp [mutators] at hn)
    | (cases h)

end Ckl
