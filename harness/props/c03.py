"""C03 Names resolve lexically and calls bind arguments as declared."""
from harness import progcheck
from harness.props import common


def run(ctx):
    ctx.rule = ("generated programs of nested function definitions, closures returned from functions (counters, curried, composed), shadowing across up to 4 levels, bounded recursion, calls mixing positional / named / default / rest / spread arguments, pipeline and method forms; every program prints a trace; non-trivial = >= 2 scopes binding the same name or a call using >= 2 binding modes; each program is run on the implementation, on a reference interpreter written from the language rules "
                "(value + printed trace must match) and on the Lean model evaluator")
    progcheck.run_profiles(ctx, ["scoping", "calls", "mixed"], 2500 if ctx.thorough else 330)
    common.replay_known(ctx)


def replay(ctx, payload):
    return common.generic_replay(ctx, payload)
