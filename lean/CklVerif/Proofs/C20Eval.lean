/-
  C20 (evaluator part) — the position carried by a runtime error is the position stored in the AST
  node that failed, and evaluation never invents or alters positions.

  1. per construct: the error position is the node's own position (`error_pos`, `ident_undefined_pos`,
     `assign_undefined_pos`, `not/and/or/if/while_nonbool_pos` — the OPERATOR node's position —,
     `deref_*_pos`, `call_nonfunction_pos`, `builtin_error_pos` — the CALL position —, `break_*_pos`);
  2. propagation: an error of a sub-expression passes through the enclosing construct unchanged (`prop_*`);
  3. stack trace: a failing callee adds exactly one entry `(function name, call position)`
     (`invoke_callee_error`, `call_callee_error`, `invoke_builtin_error`);
  4. flagship `error_pos_from_ast`: every position in the outcome of `eval` occurs in the evaluated AST,
     in an AST stored in the state, in a module AST of the loader, or is produced by `ld.nativeSem`; the
     only other position is the default `{}`, and only with one of two kinds of message (`DefaultMsg`):
       * `"<name> is not defined"`      — `Environment.set` failing inside `NodeAssign` / `NodeAssignDestructuring`
       * `"Unknown native <name>"`      — `bind_native`
     The positions carried by the control values `break` / `continue` / `return v` (which `callFn` and
     `Interpreter.interpret` report for a `break` / `continue` outside a loop) are tracked through the
     whole state — variables, list / set / map / object cells — as well: they are positions of
     `break` / `continue` / `return` nodes
     (that these are the only sites is part of the theorem: the invariant is proved WITHOUT assuming that
     `{}` is an allowed position);
  5. concrete programs (an error on line 3 inside a function called on line 5).

  The invariant and its proof through all 30 functions of the evaluator are in
  `Lemmas/C20EvalPos.lean` (positions of ASTs / states / loader), `Lemmas/C20EvalM.lean` (the predicate
  `PosOK` on computations), `Lemmas/C20EvalLib.lean`, `Lemmas/C20EvalNatives.lean` (helpers, built-ins),
  `Lemmas/C20EvalStep.lean`, `Lemmas/C20EvalCall.lean`, `Lemmas/C20EvalEval.lean` (induction step),
  `Lemmas/C20EvalAll.lean` (induction on the fuel).
-/
import CklVerif.Lemmas.C20EvalAll
import CklVerif.Lemmas.C05Basic
import CklVerif.Driver.EvalCmd
import CklVerif.Lemmas.C17EvalBase
namespace Ckl.C20E
open Ckl Ckl.C05

/-- the value every `throwE` raises: `ValueString("ERROR")` -/
abbrev errV : RVal := .str ['E', 'R', 'R', 'O', 'R']

/-- evaluate a closed instance of the model by definitional unfolding -/
local macro "ev" : tactic => `(tactic| with_unfolding_all rfl)

/-! ### concrete programs and states used in the non-vacuity examples -/

/-- a position on line `n` -/
def l (n : Nat) : Pos := { line := n }
/-- one empty frame (frame 0) -/
def st1 : State := { frames := #[{}] }
def n12 : Node := .lit (.int 12) (l 1)
def n5 : Node := .lit (.int 5) (l 1)
def nT : Node := .lit (.bool true) (l 1)
def nF : Node := .lit (.bool false) (l 1)
/-- `error 12` on line 3 -/
def nErr : Node := .error n12 (l 3)
/-- frame 0 binds `xs` to heap cell 0, a one-element list; `m` to cell 1, an empty map -/
def stL : State := { frames := #[{ vars := [("xs", .ref 0), ("m", .ref 1)] }], heap := #[.list [.int 1], .map []] }
/-- heap cell 0 is the function `f = fn() break` (the `break` on line 3) -/
def stB : State := { frames := #[{}], heap := #[.closure 0 [] [] (.brk (l 3)) "f"] }
def stCo : State := { frames := #[{}], heap := #[.closure 0 [] [] (.cont (l 3)) "f"] }
/-- heap cell 0 is the function `f = fn() error 12` (the `error` on line 3) -/
def stF : State := { frames := #[{ vars := [("f", .closure 0)] }], heap := #[.closure 0 [] [] nErr "f"] }
theorem int_nonbool (n : Int) : ∀ b, RVal.int n ≠ .bool b := by intro b h; cases h

section perConstruct
variable (ld : Loader)

/-! ## 1. Per construct: the error position is the node's own position -/

/-- `error e` at position `pos` whose operand evaluates to `v` raises `v` at `pos`. -/
theorem error_pos {fuel env e pos s v s'} (h : eval ld fuel env e s = .ok v s') :
    eval ld (fuel+1) env (.error e pos) s = .err v "" pos [] s' := by
  simp only [eval]
  rw [bind_ok h]; rfl

/-- an undefined identifier at position `pos` raises at `pos`. -/
theorem ident_undefined_pos {fuel env name pos s} (h : s.lookup env name = none)
    (hb : ld.baseNames.contains name = false) :
    eval ld (fuel+1) env (.ident name pos) s
      = .err errV ("Symbol '" ++ name ++ "' not defined") pos [] s := by
  simp only [eval]
  rw [bind_ok (getS_run s)]
  simp only [h, hb]
  rfl

/-- assignment to an undefined name raises at the position of the assignment node (the right-hand
    side is not evaluated). -/
theorem assign_undefined_pos {fuel env name e pos s} (h : s.isDefined env name = false) :
    eval ld (fuel+1) env (.assign name e pos) s
      = .err errV ("Variable " ++ name ++ " is not defined") pos [] s := by
  simp only [eval]
  rw [bind_ok (getS_run s)]
  simp only [h]
  rfl

/-- `not e` on a non-boolean reports the position of the `not` node. -/
theorem not_nonbool_pos {fuel env e pos s v s'} (h : eval ld fuel env e s = .ok v s')
    (hv : ∀ b, v ≠ .bool b) :
    eval ld (fuel+1) env (.not e pos) s
      = .err errV ("Expected boolean but got " ++ typeName s' v) pos [] s' := by
  simp only [eval]
  rw [bind_ok h]
  cases v <;> first | exact absurd rfl (hv _) | rfl

/-- `and`: the clause list is evaluated by `evalAnd` with the position of the `and` node. -/
theorem eval_and {fuel env es pos} : eval ld (fuel+1) env (.and es pos) = evalAnd ld fuel env es pos := by
  simp only [eval]

/-- a clause of `and` that evaluates to TRUE hands over to the remaining clauses. -/
theorem and_true_step {fuel env e es pos s s'} (h : eval ld fuel env e s = .ok (.bool true) s') :
    evalAnd ld (fuel+1) env (e :: es) pos s = evalAnd ld fuel env es pos s' := by
  simp only [evalAnd]
  rw [bind_ok h]; rfl

/-- a clause of `and` that is not a boolean: the error carries the position of the `and` node
    (not the position of the clause). -/
theorem and_nonbool_pos {fuel env e es pos s v s'} (h : eval ld fuel env e s = .ok v s')
    (hv : ∀ b, v ≠ .bool b) :
    evalAnd ld (fuel+1) env (e :: es) pos s
      = .err errV ("Expected boolean but got " ++ typeName s' v) pos [] s' := by
  simp only [evalAnd]
  rw [bind_ok h]
  cases v <;> first | exact absurd rfl (hv _) | rfl

theorem eval_or {fuel env es pos} : eval ld (fuel+1) env (.or es pos) = evalOr ld fuel env es pos := by
  simp only [eval]

theorem or_false_step {fuel env e es pos s s'} (h : eval ld fuel env e s = .ok (.bool false) s') :
    evalOr ld (fuel+1) env (e :: es) pos s = evalOr ld fuel env es pos s' := by
  simp only [evalOr]
  rw [bind_ok h]; rfl

/-- a clause of `or` that is not a boolean: the error carries the position of the `or` node. -/
theorem or_nonbool_pos {fuel env e es pos s v s'} (h : eval ld fuel env e s = .ok v s')
    (hv : ∀ b, v ≠ .bool b) :
    evalOr ld (fuel+1) env (e :: es) pos s
      = .err errV ("Expected boolean but got " ++ typeName s' v) pos [] s' := by
  simp only [evalOr]
  rw [bind_ok h]
  cases v <;> first | exact absurd rfl (hv _) | rfl

theorem eval_ite {fuel env cs xs els pos} :
    eval ld (fuel+1) env (.ite cs xs els pos) = evalIf ld fuel env cs xs els pos := by
  simp only [eval]

theorem if_false_step {fuel env c cs x xs els pos s s'} (h : eval ld fuel env c s = .ok (.bool false) s') :
    evalIf ld (fuel+1) env (c :: cs) (x :: xs) els pos s = evalIf ld fuel env cs xs els pos s' := by
  simp only [evalIf]
  rw [bind_ok h]; rfl

/-- a condition of `if` / `elif` that is not a boolean: the error carries the position of the
    `if` node. -/
theorem if_nonbool_pos {fuel env c cs x xs els pos s v s'} (h : eval ld fuel env c s = .ok v s')
    (hv : ∀ b, v ≠ .bool b) :
    evalIf ld (fuel+1) env (c :: cs) (x :: xs) els pos s
      = .err errV ("Expected boolean condition value but got " ++ typeName s' v) pos [] s' := by
  simp only [evalIf]
  rw [bind_ok h]
  cases v <;> first | exact absurd rfl (hv _) | rfl

/-- the first test of a `while` condition that is not a boolean: position of the `while` node. -/
theorem while_nonbool_pos {fuel env c body pos s v s'} (h : eval ld fuel env c s = .ok v s')
    (hv : ∀ b, v ≠ .bool b) :
    eval ld (fuel+1) env (.while c body pos) s
      = .err errV ("Expected boolean condition but got " ++ typeName s' v) pos [] s' := by
  simp only [eval]
  rw [bind_ok h]
  cases v <;> first | exact absurd rfl (hv _) | rfl

/-- a later re-test of the `while` condition that is not a boolean: position of the `while` node. -/
theorem while_retest_nonbool_pos {fuel env c body pos s r s1 v s2}
    (hb : eval ld fuel env body s = .ok r s1) (hbr : r.isBreak = false) (hret : r.isReturn = false)
    (hc : eval ld fuel env c s1 = .ok v s2) (hv : ∀ b, v ≠ .bool b) :
    whileLoop ld (fuel+1) env c body pos s
      = .err errV ("Expected boolean condition but got " ++ typeName s2 v) pos [] s2 := by
  simp only [whileLoop]
  rw [bind_ok hb]
  simp only [hbr, hret]
  show (eval ld fuel env c >>= _) s1 = _
  rw [bind_ok hc]
  cases v <;> first | exact absurd rfl (hv _) | rfl

/-- indexing a list out of bounds: position of the dereference node. -/
theorem deref_list_oob_pos {fuel env e idxN pos s i s1 a s2 xs}
    (hi : eval ld fuel env idxN s = .ok (.int i) s1) (he : eval ld fuel env e s1 = .ok (.ref a) s2)
    (hc : s2.cell a = some (.list xs)) (ho : Seq.deref xs i = none) :
    eval ld (fuel+1) env (.deref e idxN .absent pos) s = .err errV "Index out of bounds" pos [] s2 := by
  simp only [eval]
  rw [bind_ok hi]
  show (eval ld fuel env e >>= _) s1 = _
  rw [bind_ok he]
  simp [RVal.isNull, cellOf, bind_def, hc, getIndex, ho, throwE]

/-- indexing a string out of bounds: position of the dereference node. -/
theorem deref_string_oob_pos {fuel env e idxN pos s i s1 cs s2}
    (hi : eval ld fuel env idxN s = .ok (.int i) s1) (he : eval ld fuel env e s1 = .ok (.str cs) s2)
    (ho : Seq.deref cs i = none) :
    eval ld (fuel+1) env (.deref e idxN .absent pos) s = .err errV "Index out of bounds" pos [] s2 := by
  simp only [eval]
  rw [bind_ok hi]
  show (eval ld fuel env e >>= _) s1 = _
  rw [bind_ok he]
  simp [RVal.isNull, bind_def, getIndex, ho, throwE]

/-- indexing a value that cannot be indexed (here: an int): position of the dereference node. -/
theorem deref_nonindexable_pos {fuel env e idxN dflt pos s iv s1 n s2}
    (hi : eval ld fuel env idxN s = .ok iv s1) (he : eval ld fuel env e s1 = .ok (.int n) s2) :
    eval ld (fuel+1) env (.deref e idxN dflt pos) s = .err errV "Cannot dereference value" pos [] s2 := by
  unfold Ckl.eval
  rw [bind_ok hi]
  show (eval ld fuel env e >>= _) s1 = _
  rw [bind_ok he]
  simp [RVal.isNull, cellOf, bind_def, throwE]

/-- a map without the key (and no default): position of the dereference node. -/
theorem deref_map_missing_pos {fuel env e idxN pos s iv s1 a s2 kvs}
    (hi : eval ld fuel env idxN s = .ok iv s1) (he : eval ld fuel env e s1 = .ok (.ref a) s2)
    (hc : s2.cell a = some (.map kvs)) (hk : mapGet s2 iv kvs = none) :
    eval ld (fuel+1) env (.deref e idxN .absent pos) s = .err errV "Map does not contain key" pos [] s2 := by
  simp only [eval]
  rw [bind_ok hi]
  show (eval ld fuel env e >>= _) s1 = _
  rw [bind_ok he]
  simp [RVal.isNull, cellOf, bind_def, hc, hk, throwE, getS]

/-- a call of something that is not a function: position of the call node. -/
theorem call_nonfunction_pos {fuel env fnN names args pos s fn s'}
    (h : eval ld fuel env fnN s = .ok fn s') (hf : fn.isFunc = false) :
    eval ld (fuel+1) env (.call fnN names args pos) s
      = .err errV ("Expected def but got " ++ typeName s' fn) pos [] s' := by
  simp only [eval]
  rw [bind_ok h]
  simp [hf, bind_def, typeOf, throwE]

/-- a call of a function value is `invoke` with the position of the call node. -/
theorem call_eq_invoke {fuel env fnN names args pos s fn s'}
    (h : eval ld fuel env fnN s = .ok fn s') (hf : fn.isFunc = true) :
    eval ld (fuel+1) env (.call fnN names args pos) s = invoke ld fuel fn [] names args env pos s' := by
  simp only [eval]
  rw [bind_ok h]
  simp [hf]

/-- **every modelled built-in** (`add`, `div`, `length`, `sublist`, …; the table `callPure`): when it
    fails, the error carries exactly the position it was called with — the position of the CALL node,
    see `invoke`/`callFn` — and an empty stack trace. -/
theorem builtin_error_pos {name args div0 pos m} (hm : callPure name args div0 pos = some m)
    {s v msg p t s'} (h : m s = .err v msg p t s') : p = pos ∧ t = [] := by
  have := (PosOK.callPure (E := fun _ p t => p = pos ∧ t = []) (P := fun _ => True) name
    (fun kv _ => ValOK.triv kv.2) (fun v _ => ValOK.triv v) (fun _ => ⟨rfl, rfl⟩) m hm).run s (StOK.triv s)
  rw [h] at this
  exact this.1

/-- the same through `callFn`: a failing modelled built-in reports the position `callFn` was given. -/
theorem callFn_builtin_error_pos {fuel name inst bound env pos s m v msg p t s'}
    (hm : callPure name bound (div0Value s env) pos = some m)
    (h : callFn ld (fuel+1) (.native name inst) bound env pos s = .err v msg p t s') : p = pos ∧ t = [] := by
  simp only [callFn] at h
  rw [bind_ok (getS_run s)] at h
  simp only [hm] at h
  exact builtin_error_pos hm h

/-- division by zero through `div` (no `DIV_0_VALUE` defined): "divide by zero" at the call position. -/
theorem div_by_zero_pos {fuel inst env pos s x} (hd : s.lookup env "DIV_0_VALUE" = none) :
    callFn ld (fuel+1) (.native "div" inst) [("a", .int x), ("b", .int 0)] env pos s
      = .err errV "divide by zero" pos [] s := by
  simp only [callFn]
  rw [bind_ok (getS_run s)]
  simp [callPure, div0Value, hd, argGet, dictGet, nativeDiv, bind_def, getS, RVal.isNull, throwE]

/-- `break` that reaches the top level of a program: `Interpreter.interpret` reports the position of
    the `break` node (carried by the control value). -/
theorem break_toplevel_pos {fuel senv ast s p s'} (h : eval ld fuel senv ast s = .ok (.brk p) s') :
    interpretProg ld fuel senv ast s = .err errV "Cannot use break without surrounding loop" p [] s' := by
  unfold interpretProg
  rw [bind_ok h]; rfl

theorem continue_toplevel_pos {fuel senv ast s p s'} (h : eval ld fuel senv ast s = .ok (.cont p) s') :
    interpretProg ld fuel senv ast s = .err errV "Cannot use continue without surrounding loop" p [] s' := by
  unfold interpretProg
  rw [bind_ok h]; rfl

/-- `break` that reaches the end of a function body: reported at the position `q` of the `break` node
    (the position carried by the control value), as in `FuncLambda.execute`. -/
theorem break_in_function_pos {fuel a bound env pos s cenv params defaults body nm s2 q s3}
    (hc : s.cell a = some (.closure cenv params defaults body nm))
    (hb : bindParams ld fuel (s.newEnv cenv).2 params defaults bound pos (s.newEnv cenv).1 = .ok () s2)
    (he : eval ld fuel (s.newEnv cenv).2 body s2 = .ok (.brk q) s3) :
    callFn ld (fuel+1) (.closure a) bound env pos s
      = .err errV "Cannot use break without surrounding loop" q [] s3 := by
  simp only [callFn]
  rw [bind_ok (getS_run s)]
  simp only [hc]
  show (setS _ >>= _) s = _
  rw [bind_ok (show setS (s.newEnv cenv).1 s = .ok () (s.newEnv cenv).1 from rfl)]
  show (bindParams ld fuel _ params defaults bound pos >>= _) _ = _
  rw [bind_ok hb]
  show (eval ld fuel _ body >>= _) _ = _
  rw [bind_ok he]
  rfl

/-- likewise for `continue`: the position of the `continue` node. -/
theorem continue_in_function_pos {fuel a bound env pos s cenv params defaults body nm s2 q s3}
    (hc : s.cell a = some (.closure cenv params defaults body nm))
    (hb : bindParams ld fuel (s.newEnv cenv).2 params defaults bound pos (s.newEnv cenv).1 = .ok () s2)
    (he : eval ld fuel (s.newEnv cenv).2 body s2 = .ok (.cont q) s3) :
    callFn ld (fuel+1) (.closure a) bound env pos s
      = .err errV "Cannot use continue without surrounding loop" q [] s3 := by
  simp only [callFn]
  rw [bind_ok (getS_run s)]
  simp only [hc]
  show (setS _ >>= _) s = _
  rw [bind_ok (show setS (s.newEnv cenv).1 s = .ok () (s.newEnv cenv).1 from rfl)]
  show (bindParams ld fuel _ params defaults bound pos >>= _) _ = _
  rw [bind_ok hb]
  show (eval ld fuel _ body >>= _) _ = _
  rw [bind_ok he]
  rfl

/-! ### non-vacuity of part 1 -/

example : eval {} 2 0 nErr st1 = .err (.int 12) "" (l 3) [] st1 := error_pos {} (by ev)
example : eval {} 1 0 (.ident "x" (l 4)) st1 = .err errV ("Symbol '" ++ "x" ++ "' not defined") (l 4) [] st1 :=
  ident_undefined_pos {} (by ev) (by ev)
example : eval {} 2 0 (.assign "x" n12 (l 4)) st1 = .err errV ("Variable " ++ "x" ++ " is not defined") (l 4) [] st1 :=
  assign_undefined_pos {} (by ev)
example : eval {} 2 0 (.not n12 (l 4)) st1 = .err errV ("Expected boolean but got " ++ "int") (l 4) [] st1 :=
  not_nonbool_pos {} (by ev) (int_nonbool 12)
example : evalAnd {} 2 0 [nT, n12] (l 4) st1 = evalAnd {} 1 0 [n12] (l 4) st1 := and_true_step {} (by ev)
example : evalAnd {} 2 0 [n12, nT] (l 4) st1 = .err errV ("Expected boolean but got " ++ "int") (l 4) [] st1 :=
  and_nonbool_pos {} (by ev) (int_nonbool 12)
-- `true and 12` on line 4 (the clauses are on line 1 in this AST): reported at line 4
example : eval {} 4 0 (.and [nT, n12] (l 4)) st1 = .err errV ("Expected boolean but got " ++ "int") (l 4) [] st1 := by
  rw [eval_and, and_true_step {} (s' := st1) (by ev)]
  exact and_nonbool_pos {} (by ev) (int_nonbool 12)
example : evalOr {} 2 0 [nF, n12] (l 4) st1 = evalOr {} 1 0 [n12] (l 4) st1 := or_false_step {} (by ev)
example : evalOr {} 2 0 [n12, nT] (l 4) st1 = .err errV ("Expected boolean but got " ++ "int") (l 4) [] st1 :=
  or_nonbool_pos {} (by ev) (int_nonbool 12)
example : evalIf {} 2 0 [nF, n12] [n5, n5] .absent (l 4) st1 = evalIf {} 1 0 [n12] [n5] .absent (l 4) st1 :=
  if_false_step {} (by ev)
example : evalIf {} 2 0 [n12] [n5] .absent (l 4) st1
    = .err errV ("Expected boolean condition value but got " ++ "int") (l 4) [] st1 :=
  if_nonbool_pos {} (by ev) (int_nonbool 12)
example : eval {} 2 0 (.while n12 n5 (l 4)) st1 = .err errV ("Expected boolean condition but got " ++ "int") (l 4) [] st1 :=
  while_nonbool_pos {} (by ev) (int_nonbool 12)
example : whileLoop {} 2 0 n12 n5 (l 4) st1 = .err errV ("Expected boolean condition but got " ++ "int") (l 4) [] st1 :=
  while_retest_nonbool_pos {} (r := .int 5) (s1 := st1) (by ev) rfl rfl (by ev) (int_nonbool 12)
-- `xs[5]` with `xs = [1]`
example : eval {} 2 0 (.deref (.ident "xs" (l 1)) n5 .absent (l 4)) stL = .err errV "Index out of bounds" (l 4) [] stL :=
  deref_list_oob_pos {} (s1 := stL) (xs := [.int 1]) (by ev) (by ev) (by ev) (by ev)
example : eval {} 2 0 (.deref (.lit (.str ['a']) (l 1)) n5 .absent (l 4)) st1 = .err errV "Index out of bounds" (l 4) [] st1 :=
  deref_string_oob_pos {} (s1 := st1) (by ev) (by ev) (by ev)
example : eval {} 2 0 (.deref n12 n5 .absent (l 4)) st1 = .err errV "Cannot dereference value" (l 4) [] st1 :=
  deref_nonindexable_pos {} (s1 := st1) (by ev) (by ev)
example : eval {} 2 0 (.deref (.ident "m" (l 1)) n5 .absent (l 4)) stL = .err errV "Map does not contain key" (l 4) [] stL :=
  deref_map_missing_pos {} (s1 := stL) (kvs := []) (by ev) (by ev) (by ev) (by ev)
-- `12()` on line 4
example : eval {} 2 0 (.call n12 [] [] (l 4)) st1 = .err errV ("Expected def but got " ++ "int") (l 4) [] st1 :=
  call_nonfunction_pos {} (fn := .int 12) (s' := st1) (by ev) rfl
example : eval {} 2 0 (.call (.ident "f" (l 1)) [] [] (l 4)) stF = invoke {} 1 (.closure 0) [] [] [] 0 (l 4) stF :=
  call_eq_invoke {} (fuel := 1) (fn := .closure 0) (s' := stF) (by ev) rfl
-- `div(1, 0)` called with position line 5
example {v msg p t s'}
    (h : callFn {} 1 (.native "div" 0) [("a", .int 1), ("b", .int 0)] 0 (l 5) st1 = .err v msg p t s') :
    p = l 5 ∧ t = [] :=
  callFn_builtin_error_pos {} (m := _) (by ev) h
example : l 5 = l 5 ∧ ([] : List (String × Pos)) = [] :=
  builtin_error_pos (name := "div") (args := [("a", .int 1), ("b", .int 0)]) (div0 := none) (pos := l 5) (m := _)
    (s := st1) (v := errV) (msg := "divide by zero") (s' := st1) (by ev) (by ev)
example : callFn {} 1 (.native "div" 0) [("a", .int 1), ("b", .int 0)] 0 (l 5) st1
    = .err errV "divide by zero" (l 5) [] st1 := div_by_zero_pos {} (by ev)
example : interpretProg {} 1 0 (.brk (l 7)) st1 = .err errV "Cannot use break without surrounding loop" (l 7) [] st1 :=
  break_toplevel_pos {} (by ev)
example : interpretProg {} 1 0 (.cont (l 7)) st1 = .err errV "Cannot use continue without surrounding loop" (l 7) [] st1 :=
  continue_toplevel_pos {} (by ev)
-- `f = fn() break` with the `break` on line 3, called at line 5: reported at line 3
example : callFn {} 2 (.closure 0) [] 0 (l 5) stB
    = .err errV "Cannot use break without surrounding loop" (l 3) [] (stB.newEnv 0).1 :=
  break_in_function_pos {} (by ev) (by ev) (by ev)
example : callFn {} 2 (.closure 0) [] 0 (l 5) stCo
    = .err errV "Cannot use continue without surrounding loop" (l 3) [] (stCo.newEnv 0).1 :=
  continue_in_function_pos {} (by ev) (by ev) (by ev)

end perConstruct

/-! ## 2. Propagation: an error raised inside a sub-expression passes through the enclosing construct
    with its value, message, position and trace unchanged -/

section propagation
variable (ld : Loader)

theorem prop_not {fuel env e pos s v m p t s'} (h : eval ld fuel env e s = .err v m p t s') :
    eval ld (fuel+1) env (.not e pos) s = .err v m p t s' := by
  simp only [eval]; rw [bind_err h]

/-- an error in the operand of `error e` is not replaced by the `error` node's own error -/
theorem prop_error_operand {fuel env e pos s v m p t s'} (h : eval ld fuel env e s = .err v m p t s') :
    eval ld (fuel+1) env (.error e pos) s = .err v m p t s' := by
  simp only [eval]; rw [bind_err h]

theorem prop_assign {fuel env x e pos s v m p t s'} (hd : s.isDefined env x = true)
    (h : eval ld fuel env e s = .err v m p t s') :
    eval ld (fuel+1) env (.assign x e pos) s = .err v m p t s' := by
  simp only [eval]
  rw [bind_ok (getS_run s)]
  simp only [hd]
  show (eval ld fuel env e >>= _) s = _
  rw [bind_err h]

theorem prop_defn {fuel env x e info pos s v m p t s'} (h : eval ld fuel env e s = .err v m p t s') :
    eval ld (fuel+1) env (.defn x e info pos) s = .err v m p t s' := by
  simp only [eval]; rw [bind_err h]

theorem prop_spread {fuel env e pos s} : eval ld (fuel+1) env (.spread e pos) s = eval ld fuel env e s := by
  simp only [eval]

theorem prop_and_clause {fuel env e es pos s v m p t s'} (h : eval ld fuel env e s = .err v m p t s') :
    evalAnd ld (fuel+1) env (e :: es) pos s = .err v m p t s' := by
  simp only [evalAnd]; rw [bind_err h]

theorem prop_or_clause {fuel env e es pos s v m p t s'} (h : eval ld fuel env e s = .err v m p t s') :
    evalOr ld (fuel+1) env (e :: es) pos s = .err v m p t s' := by
  simp only [evalOr]; rw [bind_err h]

theorem prop_if_cond {fuel env c cs x xs els pos s v m p t s'} (h : eval ld fuel env c s = .err v m p t s') :
    evalIf ld (fuel+1) env (c :: cs) (x :: xs) els pos s = .err v m p t s' := by
  simp only [evalIf]; rw [bind_err h]

theorem prop_if_branch {fuel env c cs x xs els pos s s1}
    (hc : eval ld fuel env c s = .ok (.bool true) s1) :
    evalIf ld (fuel+1) env (c :: cs) (x :: xs) els pos s = eval ld fuel env x s1 := by
  simp only [evalIf]; rw [bind_ok hc]; rfl

theorem prop_while_cond {fuel env c body pos s v m p t s'} (h : eval ld fuel env c s = .err v m p t s') :
    eval ld (fuel+1) env (.while c body pos) s = .err v m p t s' := by
  simp only [eval]; rw [bind_err h]

/-- an error in the body of a `while` loop (first iteration) leaves the loop unchanged -/
theorem prop_while_body {fuel env c body pos s s1 v m p t s'}
    (hc : eval ld (fuel+1) env c s = .ok (.bool true) s1)
    (h : eval ld fuel env body s1 = .err v m p t s') :
    eval ld (fuel+2) env (.while c body pos) s = .err v m p t s' := by
  simp only [eval]
  rw [bind_ok hc]
  show whileLoop ld (fuel+1) env c body pos s1 = _
  simp only [whileLoop]
  rw [bind_err h]

/-- an error in the body of any later iteration of a `while` loop -/
theorem prop_whileLoop_body {fuel env c body pos s v m p t s'}
    (h : eval ld fuel env body s = .err v m p t s') :
    whileLoop ld (fuel+1) env c body pos s = .err v m p t s' := by
  simp only [whileLoop]; rw [bind_err h]

/-- statement lists (`evalBody`): a failing statement -/
theorem prop_body_head {fuel env n ns last s v m p t s'} (h : eval ld fuel env n s = .err v m p t s') :
    evalBody ld (fuel+1) env (n :: ns) last s = .err v m p t s' := by
  simp only [evalBody]; rw [bind_err h]

/-- statement lists: a statement that ends normally hands over to the remaining statements -/
theorem prop_body_step {fuel env n ns last s r s1} (h : eval ld fuel env n s = .ok r s1)
    (hr : (r.isReturn || r.isBreak || r.isContinue) = false) :
    evalBody ld (fuel+1) env (n :: ns) last s = evalBody ld fuel env ns r s1 := by
  simp only [evalBody]; rw [bind_ok h]; simp [hr]

/-- a block without catch clauses and without finally part passes the error of its body on unchanged
    (only the ghost counters of the state move) -/
theorem prop_block_nocatch {fuel env es tl pos s v m p t s'}
    (h : evalBody ld (fuel+1) env es (.bool true) (ghostEnter s pos) = .err v m p t s') :
    eval ld (fuel+2) env (.block es [] [] [] tl pos) s = .err v m p t (ghostFin s' pos) := by
  simp only [eval, h, tryHandlers, evalFinally]
  rfl

/-- a block whose catch clauses do not handle the error (`tryHandlers` re-raises it) and whose finally
    part ends normally passes the error on unchanged -/
theorem prop_block_nomatch {fuel env es ce ch fin tl pos s v m p t s1 s2 s3}
    (hb : evalBody ld fuel env es (.bool true) (ghostEnter s pos) = .err v m p t s1)
    (hh : tryHandlers ld fuel env ce ch v m p t s1 = .err v m p t s2)
    (hf : evalFinally ld fuel env fin (ghostFin s2 pos) = .ok () s3) :
    eval ld (fuel+1) env (.block es ce ch fin tl pos) s = .err v m p t s3 := by
  simp only [eval, hb, hh, hf]

/-- no clause left: `tryHandlers` re-raises the error unchanged -/
theorem prop_handlers_none {fuel env v m p t s} :
    tryHandlers ld (fuel+1) env [] [] v m p t s = .err v m p t s := by
  simp [tryHandlers]

/-- a clause whose value differs from the error value does not touch the error -/
theorem prop_handlers_skip {fuel env c cs h hs v m p t s cv s1}
    (hc : eval ld fuel env c s = .ok cv s1) (hna : c ≠ .catchAll) (hne : rveq s1 v cv = false) :
    tryHandlers ld (fuel+1) env (c :: cs) (h :: hs) v m p t s = tryHandlers ld fuel env cs hs v m p t s1 := by
  simp only [tryHandlers]
  show ((eval ld fuel env c) >>= _) s = _
  rw [bind_ok hc]
  show (getS >>= _) s1 = _
  rw [bind_ok (getS_run s1)]
  simp [hne]

/-- list literal: a failing item (not a spread) -/
theorem prop_items_head {fuel env n ns pos s v m p t s'} (hn : ∀ e q, n ≠ .spread e q)
    (h : eval ld fuel env n s = .err v m p t s') :
    evalItems ld (fuel+1) env (n :: ns) pos s = .err v m p t s' := by
  simp only [evalItems]
  rw [bind_err h]

/-- list literal: an item that evaluates normally, a later item fails -/
theorem prop_items_step {fuel env n ns pos s x s1 v m p t s'} (hn : ∀ e q, n ≠ .spread e q)
    (h : eval ld fuel env n s = .ok x s1) (hr : evalItems ld fuel env ns pos s1 = .err v m p t s') :
    evalItems ld (fuel+1) env (n :: ns) pos s = .err v m p t s' := by
  simp only [evalItems]
  rw [bind_ok h]
  show (evalItems ld fuel env ns pos >>= _) s1 = _
  rw [bind_err hr]

theorem prop_list {fuel env items pos s v m p t s'} (h : evalItems ld fuel env items pos s = .err v m p t s') :
    eval ld (fuel+1) env (.list items pos) s = .err v m p t s' := by
  simp only [eval]; rw [bind_err h]

/-- call arguments: a failing argument (not a spread) -/
theorem prop_args_head {fuel env nm nms a as pos s v m p t s'} (hn : ∀ e q, a ≠ .spread e q)
    (h : eval ld fuel env a s = .err v m p t s') :
    evalArgs ld (fuel+1) env (nm :: nms) (a :: as) pos s = .err v m p t s' := by
  simp only [evalArgs]
  rw [bind_err h]

theorem prop_args_step {fuel env nm nms a as pos s x s1 v m p t s'} (hn : ∀ e q, a ≠ .spread e q)
    (h : eval ld fuel env a s = .ok x s1) (hr : evalArgs ld fuel env nms as pos s1 = .err v m p t s') :
    evalArgs ld (fuel+1) env (nm :: nms) (a :: as) pos s = .err v m p t s' := by
  simp only [evalArgs]
  rw [bind_ok h]
  show (evalArgs ld fuel env nms as pos >>= _) s1 = _
  rw [bind_err hr]

/-- an error while evaluating the arguments of a call leaves `invoke` unchanged: the callee is not
    entered, so NO trace entry is added -/
theorem prop_invoke_args {fuel fn pre names args env pos s v m p t s'}
    (h : evalArgs ld fuel env names args pos s = .err v m p t s') :
    invoke ld (fuel+1) fn pre names args env pos s = .err v m p t s' := by
  simp only [invoke]; rw [bind_err h]

/-- an error while evaluating the function expression of a call -/
theorem prop_call_fn {fuel env fnN names args pos s v m p t s'} (h : eval ld fuel env fnN s = .err v m p t s') :
    eval ld (fuel+1) env (.call fnN names args pos) s = .err v m p t s' := by
  simp only [eval]; rw [bind_err h]

/-- an error in an argument of a call of a function value -/
theorem prop_call_args {fuel env fnN names args pos s fn s1 v m p t s'}
    (hfn : eval ld (fuel+1) env fnN s = .ok fn s1) (hf : fn.isFunc = true)
    (h : evalArgs ld fuel env names args pos s1 = .err v m p t s') :
    eval ld (fuel+2) env (.call fnN names args pos) s = .err v m p t s' := by
  rw [call_eq_invoke ld hfn hf]
  exact prop_invoke_args ld h

/-- `for` over a snapshot of items: an error in the body (current iteration) -/
theorem prop_forItems_body {fuel env x xs item body r pos s v m p t s'}
    (h : eval ld fuel env body (s.put env x item) = .err v m p t s') :
    forItems ld (fuel+1) env [x] (item :: xs) body r pos s = .err v m p t s' := by
  simp only [forItems, bindLoopVars]
  rw [bind_ok (show modifyS (fun s => s.put env x item) s = .ok () (s.put env x item) from rfl)]
  show (eval ld fuel env body >>= _) _ = _
  rw [bind_err h]

/-- the `for` node passes an error of the loop on with the same value, message, position and trace;
    it only removes the loop variables from the frame and puts back the bindings of the same names
    that the frame had before the loop (`hiddenVars` of the START state) -/
theorem prop_for {fuel env ids e body what pos s v m p t s'}
    (h : evalFor ld fuel env ids e body what pos s = .err v m p t s') :
    eval ld (fuel+1) env (.for ids e body what pos) s
      = .err v m p t (restoreVars env (hiddenVars s env ids) (ids.foldl (fun s x => s.remove env x) s')) := by
  simp only [eval, h]

/-! ### non-vacuity of part 2 (the sub-expression is `error 12` on line 3) -/

example : eval {} 3 0 (.not nErr (l 4)) st1 = .err (.int 12) "" (l 3) [] st1 := prop_not {} (by ev)
example : eval {} 3 0 (.error nErr (l 4)) st1 = .err (.int 12) "" (l 3) [] st1 := prop_error_operand {} (by ev)
example : eval {} 3 0 (.assign "f" nErr (l 4)) stF = .err (.int 12) "" (l 3) [] stF := prop_assign {} (by ev) (by ev)
example : eval {} 3 0 (.defn "x" nErr "" (l 4)) st1 = .err (.int 12) "" (l 3) [] st1 := prop_defn {} (by ev)
example : evalAnd {} 3 0 [nErr, nT] (l 4) st1 = .err (.int 12) "" (l 3) [] st1 := prop_and_clause {} (by ev)
example : evalOr {} 3 0 [nErr, nT] (l 4) st1 = .err (.int 12) "" (l 3) [] st1 := prop_or_clause {} (by ev)
example : evalIf {} 3 0 [nErr] [n5] .absent (l 4) st1 = .err (.int 12) "" (l 3) [] st1 := prop_if_cond {} (by ev)
example : evalIf {} 3 0 [nT] [nErr] .absent (l 4) st1 = eval {} 2 0 nErr st1 := prop_if_branch {} (by ev)
example : eval {} 3 0 (.while nErr n5 (l 4)) st1 = .err (.int 12) "" (l 3) [] st1 := prop_while_cond {} (by ev)
example : eval {} 4 0 (.while nT nErr (l 4)) st1 = .err (.int 12) "" (l 3) [] st1 :=
  prop_while_body {} (s1 := st1) (by ev) (by ev)
example : whileLoop {} 3 0 nT nErr (l 4) st1 = .err (.int 12) "" (l 3) [] st1 := prop_whileLoop_body {} (by ev)
example : evalBody {} 3 0 [nErr, n5] .null st1 = .err (.int 12) "" (l 3) [] st1 := prop_body_head {} (by ev)
example : evalBody {} 4 0 [n5, nErr] .null st1 = evalBody {} 3 0 [nErr] (.int 5) st1 :=
  prop_body_step {} (by ev) rfl
example : eval {} 5 0 (.block [n5, nErr] [] [] [] false (l 2)) st1
    = .err (.int 12) "" (l 3) [] (ghostFin (ghostEnter st1 (l 2)) (l 2)) := prop_block_nocatch {} (by ev)
-- `do error 12 catch 5 5 finally 5 end`: the clause does not match
example : eval {} 4 0 (.block [nErr] [n5] [n5] [n5] false (l 2)) st1
    = .err (.int 12) "" (l 3) [] (ghostFin (ghostEnter st1 (l 2)) (l 2)) :=
  prop_block_nomatch {} (s1 := ghostEnter st1 (l 2)) (s2 := ghostEnter st1 (l 2)) (by ev) (by ev) (by ev)
example : tryHandlers {} 3 0 [n5] [n5] (.int 12) "" (l 3) [] st1 = tryHandlers {} 2 0 [] [] (.int 12) "" (l 3) [] st1 :=
  prop_handlers_skip {} (cv := .int 5) (by ev) (by simp [n5]) (by ev)
example : evalItems {} 3 0 [nErr, n5] (l 4) st1 = .err (.int 12) "" (l 3) [] st1 :=
  prop_items_head {} (by simp [nErr]) (by ev)
example : evalItems {} 4 0 [n5, nErr] (l 4) st1 = .err (.int 12) "" (l 3) [] st1 :=
  prop_items_step {} (x := .int 5) (s1 := st1) (by simp [n5]) (by ev) (by ev)
-- the list literal `[5, error 12]`
example : eval {} 5 0 (.list [n5, nErr] (l 4)) st1 = .err (.int 12) "" (l 3) [] st1 := prop_list {} (by ev)
example : evalArgs {} 3 0 [none, none] [nErr, n5] (l 4) st1 = .err (.int 12) "" (l 3) [] st1 :=
  prop_args_head {} (by simp [nErr]) (by ev)
example : evalArgs {} 4 0 [none, none] [n5, nErr] (l 4) st1 = .err (.int 12) "" (l 3) [] st1 :=
  prop_args_step {} (x := .int 5) (s1 := st1) (by simp [n5]) (by ev) (by ev)
example : invoke {} 5 (.closure 0) [] [none, none] [n5, nErr] 0 (l 4) stF = .err (.int 12) "" (l 3) [] stF :=
  prop_invoke_args {} (by ev)
example : eval {} 3 0 (.call nErr [] [] (l 4)) st1 = .err (.int 12) "" (l 3) [] st1 := prop_call_fn {} (by ev)
-- `f(5, error 12)` on line 4: the error of the argument, NO trace entry
example : eval {} 6 0 (.call (.ident "f" (l 1)) [none, none] [n5, nErr] (l 4)) stF = .err (.int 12) "" (l 3) [] stF :=
  prop_call_args {} (fn := .closure 0) (s1 := stF) (by ev) rfl (by ev)
example : forItems {} 3 0 ["x"] [.int 1, .int 2] nErr .null (l 4) st1
    = .err (.int 12) "" (l 3) [] (st1.put 0 "x" (.int 1)) := prop_forItems_body {} (by ev)
-- `for x in xs do error 12` with `xs = [1]`
example : ∃ s', eval {} 6 0 (.for ["x"] (.ident "xs" (l 1)) nErr "" (l 4)) stL = .err (.int 12) "" (l 3) [] s' :=
  ⟨_, prop_for {} (by ev)⟩

end propagation

/-! ## 3. Stack trace: a failing callee adds exactly one entry, carrying the call position -/

section trace
variable (ld : Loader)

/-- `invoke` of a user function whose body (or parameter binding) fails: the error keeps its value,
    message and (inner) position; the trace gains exactly one entry at its end — the name of the called
    function (as stored in the closure cell at the time of the failure) and the position `pos` of the
    call. -/
theorem invoke_callee_error {fuel a pre names args env pos s ns vs s1 cenv ps ds body nm bound s2 v m p t s3}
    (ha : evalArgs ld fuel env names args pos s = .ok (ns, vs) s1)
    (hc : s1.cell a = some (.closure cenv ps ds body nm))
    (hs : setArgs ps (pre.map (fun _ => none) ++ ns) (pre ++ vs) pos s1 = .ok bound s2)
    (hf : callFn ld fuel (.closure a) bound env pos s2 = .err v m p t s3) :
    invoke ld (fuel+1) (.closure a) pre names args env pos s
      = .err v m p (t ++ [(fnName s3 (.closure a), pos)]) s3 := by
  simp only [invoke]
  rw [bind_ok ha]
  show (getS >>= _) s1 = _
  rw [bind_ok (getS_run s1)]
  simp only [hc]
  show ((pure ps : EvalM (List String)) >>= _) s1 = _
  rw [bind_ok (pure_run ps s1)]
  show (setArgs ps _ _ pos >>= _) s1 = _
  rw [bind_ok hs]
  simp only [hf]

/-- the same for a modelled built-in (e.g. `div`): the error it raised at the call position gets the
    trace entry `(name, pos)`. -/
theorem invoke_builtin_error {fuel name inst pre names args env pos s ns vs s1 l bound s2 v m p t s3}
    (ha : evalArgs ld fuel env names args pos s = .ok (ns, vs) s1)
    (hl : nativeArgNames name = some l)
    (hs : setArgs l (pre.map (fun _ => none) ++ ns) (pre ++ vs) pos s1 = .ok bound s2)
    (hf : callFn ld fuel (.native name inst) bound env pos s2 = .err v m p t s3) :
    invoke ld (fuel+1) (.native name inst) pre names args env pos s = .err v m p (t ++ [(name, pos)]) s3 := by
  simp only [invoke]
  rw [bind_ok ha]
  show (getS >>= _) s1 = _
  rw [bind_ok (getS_run s1)]
  simp only [hl]
  show ((pure l : EvalM (List String)) >>= _) s1 = _
  rw [bind_ok (pure_run l s1)]
  show (setArgs l _ _ pos >>= _) s1 = _
  rw [bind_ok hs]
  simp only [hf]
  rfl

/-- the call node: when the callee fails, the outcome of the call is the callee's error with one more
    trace entry `(function name, position of the call node)`; the error position stays the inner one. -/
theorem call_callee_error {fuel env fnN names args pos s a s0 ns vs s1 cenv ps ds body nm bound s2 v m p t s3}
    (hfn : eval ld (fuel+1) env fnN s = .ok (.closure a) s0)
    (ha : evalArgs ld fuel env names args pos s0 = .ok (ns, vs) s1)
    (hc : s1.cell a = some (.closure cenv ps ds body nm))
    (hs : setArgs ps ns vs pos s1 = .ok bound s2)
    (hf : callFn ld fuel (.closure a) bound env pos s2 = .err v m p t s3) :
    eval ld (fuel+2) env (.call fnN names args pos) s
      = .err v m p (t ++ [(fnName s3 (.closure a), pos)]) s3 := by
  rw [call_eq_invoke ld hfn rfl]
  exact invoke_callee_error ld (pre := []) ha hc hs hf

/-- in any error outcome of `invoke`, the trace is not empty or the error was raised before / instead
    of the callee: stated positively — `invoke` never removes or rewrites entries of the callee's trace,
    it appends.  (Direct consequence of the two theorems above; the general "only allowed positions"
    statement is `error_pos_from_ast`.) -/
theorem invoke_trace_length {fuel a pre names args env pos s ns vs s1 cenv ps ds body nm bound s2 v m p t s3}
    (ha : evalArgs ld fuel env names args pos s = .ok (ns, vs) s1)
    (hc : s1.cell a = some (.closure cenv ps ds body nm))
    (hs : setArgs ps (pre.map (fun _ => none) ++ ns) (pre ++ vs) pos s1 = .ok bound s2)
    (hf : callFn ld fuel (.closure a) bound env pos s2 = .err v m p t s3) :
    ∃ t', invoke ld (fuel+1) (.closure a) pre names args env pos s = .err v m p t' s3 ∧
      t'.length = t.length + 1 ∧ t'.take t.length = t ∧ t'.getLast? = some (fnName s3 (.closure a), pos) :=
  ⟨_, invoke_callee_error ld ha hc hs hf, by simp, by simp, by simp⟩

/-! ### non-vacuity of part 3: `f = fn() error 12` (line 3) called at line 5 -/

example : invoke {} 4 (.closure 0) [] [] [] 0 (l 5) stF = .err (.int 12) "" (l 3) [("f", l 5)] (stF.newEnv 0).1 :=
  invoke_callee_error {} (fuel := 3) (a := 0) (pre := []) (names := []) (args := []) (env := 0) (pos := l 5) (s := stF)
    (ns := []) (vs := []) (s1 := stF) (bound := []) (s2 := stF) (t := []) (s3 := (stF.newEnv 0).1)
    (cenv := 0) (ps := []) (ds := []) (body := nErr) (nm := "f") (by ev) (by ev) (by ev) (by ev)
example : eval {} 5 0 (.call (.ident "f" (l 5)) [] [] (l 5)) stF
    = .err (.int 12) "" (l 3) [("f", l 5)] (stF.newEnv 0).1 :=
  call_callee_error {} (fuel := 3) (a := 0) (s0 := stF) (ns := []) (vs := []) (s1 := stF) (bound := []) (s2 := stF)
    (t := []) (s3 := (stF.newEnv 0).1) (cenv := 0) (ps := []) (ds := []) (body := nErr) (nm := "f")
    (by ev) (by ev) (by ev) (by ev) (by ev)
example : ∃ t', invoke {} 4 (.closure 0) [] [] [] 0 (l 5) stF = .err (.int 12) "" (l 3) t' (stF.newEnv 0).1 ∧
    t'.length = 0 + 1 ∧ t'.take 0 = [] ∧ t'.getLast? = some ("f", l 5) :=
  invoke_trace_length {} (fuel := 3) (a := 0) (ns := []) (vs := []) (s1 := stF) (bound := []) (s2 := stF) (t := [])
    (s3 := (stF.newEnv 0).1) (cenv := 0) (ps := []) (ds := []) (body := nErr) (nm := "f")
    (by ev) (by ev) (by ev) (by ev)
-- `div(1, 0)` at line 5: "divide by zero" at line 5, trace entry `("div", line 5)`
example : invoke {} 4 (.native "div" 0) [] [none, none] [.lit (.int 1) (l 5), .lit (.int 0) (l 5)] 0 (l 5) st1
    = .err errV "divide by zero" (l 5) [("div", l 5)] st1 :=
  invoke_builtin_error {} (fuel := 3) (ns := [none, none]) (vs := [.int 1, .int 0]) (s1 := st1) (l := ["a", "b"])
    (bound := [("a", .int 1), ("b", .int 0)]) (s2 := st1) (t := []) (by ev) (by ev) (by ev) (div_by_zero_pos {} (by ev))

end trace

/-! ## 4. The flagship: evaluation never fabricates a position -/

section flagship
variable {ld : Loader}

/-- **General form.**  Let `P` be any set of positions that contains the positions of all module ASTs
    of the loader and that the interpretation of the unmodelled built-ins respects (`Ctx P ld`).  If every
    position of the evaluated AST `n` and every position stored in the state `s` (in closure ASTs and in
    control values held by variables or containers) lies in `P`, then
    * an error outcome carries a position from `P` — or the default position `{}` together with one of the
      messages `DefaultMsg` (the sites of the model that raise without a position),
    * every stack-trace entry carries a position from `P`,
    * a value outcome (a control value `break` / `continue` / `return`) carries positions from `P`,
    * every position stored in the final state (whatever the outcome) lies in `P`. -/
theorem error_pos_from_ast_gen {P : Pos → Prop} (ctx : Ctx P ld) (fuel : Nat) (env : EnvId) (n : Node) (s : State)
    (hn : NodeOK P n) (hs : StOK P s) : OutOK (EP P) P (eval ld fuel env n s) :=
  ((pAll ctx fuel).eval env n hn).run s hs

/-- where a position may come from: the evaluated AST, the initial state (closure bodies and parameter
    defaults; control values held by variables and containers), a module AST of the loader, or the set
    `N` of positions the interpretation of the unmodelled built-ins may produce. -/
def Origin (ld : Loader) (n : Node) (s : State) (N : Pos → Prop) (q : Pos) : Prop :=
  q ∈ n.positions ∨ q ∈ s.positions ∨ q ∈ ld.positions ∨ N q

/-- the hypothesis on `ld.nativeSem`: whatever set `P ⊇ N` of positions is allowed, an unmodelled
    built-in called with arguments whose positions are in `P` only raises errors at positions (and with
    trace entries) from `P`, only returns values and only stores ASTs and values whose positions are in
    `P` — i.e. the only positions it may introduce itself are those of `N`. -/
def NativeRespects (ld : Loader) (N : Pos → Prop) : Prop :=
  ∀ P : Pos → Prop, (∀ q, N q → P q) → ∀ name bound, DictOK P bound → POK P (ld.nativeSem name bound)

/-- the driver's interpretation (abstain: `unsupported`) — and any interpretation that never raises a
    runtime error and never touches the heap — respects every `N` -/
theorem nativeRespects_of_abstains {ld : Loader} {N : Pos → Prop}
    (h : ∀ name bound s, ∃ w, ld.nativeSem name bound s = .fail (.unsupported w) s) : NativeRespects ld N := by
  intro P _ name bound _
  constructor
  intro s hs
  rcases h name bound s with ⟨w, hw⟩
  rw [hw]; exact hs

theorem default_nativeRespects (N : Pos → Prop) : NativeRespects {} N :=
  nativeRespects_of_abstains (fun name _ _ => ⟨"native " ++ name, rfl⟩)

theorem ctx_origin {ld : Loader} {n : Node} {s : State} {N : Pos → Prop} (hsem : NativeRespects ld N) :
    Ctx (Origin ld n s N) ld where
  loader := loaderOK_of_positions (fun _ hp => Or.inr (Or.inr (Or.inl hp)))
  native := hsem _ (fun _ hq => Or.inr (Or.inr (Or.inr hq)))

/-- the outcome of `eval` with `P := Origin ld n s N` -/
theorem eval_origin {N : Pos → Prop} (hsem : NativeRespects ld N) (fuel : Nat) (env : EnvId) (n : Node) (s : State) :
    OutOK (EP (Origin ld n s N)) (Origin ld n s N) (eval ld fuel env n s) :=
  error_pos_from_ast_gen (ctx_origin (n := n) (s := s) hsem) fuel env n s
    ((nodeOK_iff _ n).2 (fun _ hp => Or.inl hp))
    ((stOK_iff _ s).2 (fun _ hp => Or.inr (Or.inl hp)))

/-- **error_pos_from_ast.**  When `eval ld fuel env n s` ends with a runtime error, then
    * the error position occurs in the evaluated AST `n`, or in an AST stored in the state `s` (closure
      bodies / parameter defaults), or in a module AST of the loader, or is one of the positions `N` that
      `ld.nativeSem` is allowed to produce — or it is the default position `{}` and the message is one of
      the messages that the model raises without a position (`DefaultMsg`);
    * every stack-trace entry carries a position of one of the first four kinds (never a fabricated
      one, and `{}` only when it is stored in an AST);
    * every position stored in the final state is of one of the first four kinds.
    Evaluation never fabricates a position. -/
theorem error_pos_from_ast {N : Pos → Prop} (hsem : NativeRespects ld N) {fuel env n s v m p t s'}
    (h : eval ld fuel env n s = .err v m p t s') :
    (Origin ld n s N p ∨ (p = {} ∧ DefaultMsg m)) ∧ (∀ e ∈ t, Origin ld n s N e.2) ∧
      ∀ q ∈ s'.positions, Origin ld n s N q := by
  have := eval_origin hsem fuel env n s
  rw [h] at this
  exact ⟨this.1.pos, this.1.trace, (stOK_iff _ _).1 this.2⟩

/-- the positions carried by a value outcome (`break` / `continue` / `return v` control values — the
    positions that `callFn` and `Interpreter.interpret` report for a `break` / `continue` outside a loop) -/
theorem value_pos_from_ast {N : Pos → Prop} (hsem : NativeRespects ld N) {fuel env n s v s'}
    (h : eval ld fuel env n s = .ok v s') : ∀ q ∈ v.positions, Origin ld n s N q := by
  have := eval_origin hsem fuel env n s
  rw [h] at this
  exact (valOK_iff _ v).1 this.1

/-- whatever the outcome (value, error, failure): the final state only holds positions that were there
    before (in `n`, `s`, the loader) or that `ld.nativeSem` may produce -/
theorem state_pos_from_ast {N : Pos → Prop} (hsem : NativeRespects ld N) (fuel : Nat) (env : EnvId) (n : Node)
    (s : State) : ∀ q ∈ (eval ld fuel env n s).state.positions, Origin ld n s N q :=
  (stOK_iff _ _).1 (eval_origin hsem fuel env n s).state

/-- with the default interpretation of the unmodelled built-ins and no module ASTs, started in a state
    that holds no position: the reported position occurs in the program text `n` (or is `{}` with one of
    the `DefaultMsg` messages), and every trace entry carries a position of the program text. -/
theorem error_pos_in_program {fuel env n s v m p t s'} (hs : s.positions = [])
    (h : eval ({} : Loader) fuel env n s = .err v m p t s') :
    (p ∈ n.positions ∨ (p = {} ∧ DefaultMsg m)) ∧ ∀ e ∈ t, e.2 ∈ n.positions := by
  have := error_pos_from_ast (default_nativeRespects (fun _ => False)) h
  have key : ∀ q, Origin {} n s (fun _ => False) q → q ∈ n.positions := by
    intro q hq
    rcases hq with h | h | h | h
    · exact h
    · rw [hs] at h; cases h
    · cases h
    · exact h.elim
  exact ⟨this.1.imp (key p) id, fun e he => key e.2 (this.2.1 e he)⟩

/-- the other site of `{}`: `bind_native` of a name that is not a known native -/
theorem unknown_native_pos {fuel inst env pos s nm} (hk : ld.knownNatives.contains (String.ofList nm) = false) :
    callFn ld (fuel+1) (.native "bind_native" inst) [("native", .str nm)] env pos s
      = .err errV ("Unknown native " ++ String.ofList nm) {} [] s := by
  simp only [callFn]
  rw [bind_ok (getS_run s)]
  have hk' : String.ofList nm ∉ ld.knownNatives := by simpa using hk
  have hcd : callDate "bind_native" [("native", RVal.str nm)] pos = none :=
    callDate_none_of_name _ _ (by decide) (by decide) (by decide)
  simp [callPure, hcd, argGet, dictGet, dictHas, bind_def, hk', throwE]

/-! ### non-vacuity of part 4, and part 5: an error on line 3 inside a function called on line 5 -/

/-- ```
    (line 1)  do
    (line 2)    def f = fn() do
    (line 3)      error 12
                end
    (line 5)    f()
              end
    ``` -/
def prog : Node :=
  .block [ .defn "f" (.lambda [] [] (.block [.error (.lit (.int 12) (l 3)) (l 3)] [] [] [] false (l 2)) (l 2)) "" (l 2),
           .call (.ident "f" (l 5)) [] [] (l 5) ] [] [] [] true (l 1)

-- the error position is line 3 (the `error` node), the trace has exactly one entry: `f`, called at line 5
example : ∃ s', eval {} 20 0 prog st1 = .err (.int 12) "" (l 3) [("f", l 5)] s' := ⟨_, by ev⟩
example : l 3 ∈ prog.positions ∧ l 5 ∈ prog.positions := by decide
example : st1.positions = [] := rfl
-- … as `error_pos_in_program` predicts
example {v m p t s'} (h : eval {} 20 0 prog st1 = .err v m p t s') :
    (p ∈ prog.positions ∨ (p = {} ∧ DefaultMsg m)) ∧ ∀ e ∈ t, e.2 ∈ prog.positions :=
  error_pos_in_program rfl h
example {v m p t s'} (h : eval {} 20 0 prog st1 = .err v m p t s') :
    (Origin {} prog st1 (fun _ => False) p ∨ (p = {} ∧ DefaultMsg m)) ∧
      (∀ e ∈ t, Origin {} prog st1 (fun _ => False) e.2) ∧ ∀ q ∈ s'.positions, Origin {} prog st1 (fun _ => False) q :=
  error_pos_from_ast (default_nativeRespects _) h
example : ∀ q ∈ (eval {} 20 0 prog st1).state.positions, Origin {} prog st1 (fun _ => False) q :=
  state_pos_from_ast (default_nativeRespects _) 20 0 prog st1
-- the value of `break` (line 7) carries the position of the node
example : ∀ q ∈ (RVal.brk (l 7)).positions, Origin {} (.brk (l 7)) st1 (fun _ => False) q :=
  value_pos_from_ast (default_nativeRespects _) (fuel := 1) (env := 0) (s' := st1) (by ev)
-- `bind_native("nope")` with the default loader (no known natives): the default position
example : callFn {} 1 (.native "bind_native" 0) [("native", .str ['n','o','p','e'])] 0 (l 5) st1
    = .err errV ("Unknown native " ++ String.ofList ['n','o','p','e']) {} [] st1 := unknown_native_pos (by ev)

/-- `def f = fn() break` (line 3) with the `break` on line 4, `f()` on line 6 (nothing on line 1): the
    error is reported at the position of the `break` node, line 4, as `FuncLambda.execute` does. -/
def progBrk : Node :=
  .block [ .defn "f" (.lambda [] [] (.brk (l 4)) (l 3)) "" (l 3), .call (.ident "f" (l 6)) [] [] (l 6) ] [] [] [] true (l 2)
example : ∃ s', eval {} 20 0 progBrk st1
    = .err errV "Cannot use break without surrounding loop" (l 4) [("f", l 6)] s' := ⟨_, by ev⟩
-- the control value may travel through the state: `def xs = [break]` (line 3), `def f = fn() xs[0]` (line 4),
-- `f()` on line 6: still the position of the `break` node, line 3
def progBrk2 : Node :=
  .block [ .defn "xs" (.list [.brk (l 3)] (l 3)) "" (l 3),
           .defn "f" (.lambda [] [] (.deref (.ident "xs" (l 4)) (.lit (.int 0) (l 4)) .absent (l 4)) (l 4)) "" (l 4),
           .call (.ident "f" (l 6)) [] [] (l 6) ] [] [] [] true (l 2)
example : ∃ s', eval {} 20 0 progBrk2 st1
    = .err errV "Cannot use break without surrounding loop" (l 3) [("f", l 6)] s' := ⟨_, by ev⟩
example : ({} : Pos) ∉ progBrk.positions := by decide

-- the function stored in the state: positions come from the state (`stF` holds `f = fn() error 12`)
example : ∃ s', eval {} 5 0 (.call (.ident "f" (l 5)) [] [] (l 5)) stF = .err (.int 12) "" (l 3) [("f", l 5)] s' :=
  ⟨_, by ev⟩
example : l 3 ∈ stF.positions := by decide

-- the hypotheses of the general form: the position set "`{}` or a position of `prog`" and the default loader
example : Ctx (Origin {} prog st1 (fun _ => False)) {} := ctx_origin (default_nativeRespects _)
example : NodeOK (Origin {} prog st1 (fun _ => False)) prog := (nodeOK_iff _ _).2 (fun _ hp => Or.inl hp)
example : StOK (Origin {} prog st1 (fun _ => False)) st1 := (stOK_iff _ _).2 (fun _ hp => nomatch hp)
example : NativeRespects ({} : Loader) (fun _ => False) := default_nativeRespects _

/-- a loader whose unmodelled built-ins all fail with an error at line 99: it respects `N = {line 99}` -/
def ldBoom : Loader := { nativeSem := fun _ _ s => .err errV "boom" (l 99) [] s }
theorem ldBoom_respects : NativeRespects ldBoom (· = l 99) := by
  intro P hP name bound _
  exact ⟨fun s hs => ⟨⟨Or.inl (hP _ rfl), fun _ h => nomatch h⟩, hs⟩⟩
example {fuel env n s v m p t s'} (h : eval ldBoom fuel env n s = .err v m p t s') :
    Origin ldBoom n s (· = l 99) p ∨ (p = {} ∧ DefaultMsg m) := (error_pos_from_ast ldBoom_respects h).1

/-- a module `m` whose text is `error 12` on line 7 of file `m` -/
def ldMod : Loader := { user := [("m.ckl", .ok (.error (.lit (.int 12) { file := "m", line := 7 }) { file := "m", line := 7 }))] }
example : ({ file := "m", line := 7 } : Pos) ∈ ldMod.positions := by decide
-- `require m` on line 1: the error carries the position stored in the module AST (line 7 of file `m`);
-- `require` is not a function call, the trace stays empty.  (String operations do not reduce in the
-- kernel, so this outcome is checked by evaluation.)
#guard (match eval ldMod 20 0 (.require (.lit (.str ['m']) (l 1)) none false none (l 1)) st1 with
  | .err _ _ p t _ => p == { file := "m", line := 7 } && t.isEmpty
  | _ => false)

end flagship
end Ckl.C20E
