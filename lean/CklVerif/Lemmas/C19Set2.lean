/-
  C19 — `union` and `unique` against `dedupKeepFirst` (the model of building a CPython set from a
  sequence): the element kept for each class of equal values is the first one.
-/
import CklVerif.Lemmas.C19Set
namespace Ckl.C19
open Ckl Ckl.Lib

theorem dedup_filter_respects {q : Val → Bool} (hq : RespectsV q) (l : List Val) :
    dedupKeepFirst (l.filter q) = (dedupKeepFirst l).filter q := by
  induction l with
  | nil => rfl
  | cons x l ih =>
    rw [List.filter_cons]
    split
    · rename_i hx
      simp only [dedupKeepFirst, List.filter_cons, hx, if_true, ih, List.filter_filter]
      congr 1
      apply List.filter_congr
      intro y _
      rw [Bool.and_comm]
    · rename_i hx
      simp only [dedupKeepFirst, List.filter_cons, hx, ih, List.filter_filter]
      apply List.filter_congr
      intro y _
      cases hxy : veq x y with
      | false => simp
      | true =>
        have : q y = false := by rw [← hq x y hxy]; simpa using hx
        simp [this]

theorem respects_not_veq (x : Val) : RespectsV (fun y => !veq y x) :=
  fun a b h => by simp only [veq_congr_left h x]

theorem foldl_setAdd_eq (xs acc : List Val) :
    xs.foldl setAdd acc = acc ++ dedupKeepFirst (xs.filter (fun y => !memV y acc)) := by
  induction xs generalizing acc with
  | nil => simp [dedupKeepFirst]
  | cons x xs ih =>
    rw [List.foldl_cons, List.filter_cons]
    cases hx : memV x acc with
    | true =>
      simp only [setAdd, hx, if_true, Bool.not_true, Bool.false_eq_true, if_false]
      exact ih acc
    | false =>
      simp only [setAdd, hx, Bool.false_eq_true, if_false, Bool.not_false, if_true]
      rw [ih, List.append_assoc]
      congr 1
      simp only [List.singleton_append, dedupKeepFirst]
      congr 1
      have e : xs.filter (fun y => !memV y (acc ++ [x])) =
          (xs.filter (fun y => !memV y acc)).filter (fun y => !veq y x) := by
        rw [List.filter_filter]
        apply List.filter_congr
        intro y _
        rw [memV_append, memV_cons, memV_nil, Bool.or_false, Bool.not_or, Bool.and_comm]
      rw [e, dedup_filter_respects (respects_not_veq x)]
      apply List.filter_congr
      intro y _
      rw [veq_symm']

/-- `union(a, b)` holds exactly what the CPython set built from `a ++ b` holds -/
theorem unionM_eq_dedup (a b : List Val) : unionM a b = dedupKeepFirst (a ++ b) := by
  unfold unionM appendAllSet
  rw [← List.foldl_append, foldl_setAdd_eq]
  simp [memV_nil]

theorem uniqueGo_id_eq (seen xs : List Val) :
    uniqueGo id seen xs = dedupKeepFirst (xs.filter (fun y => !memV y seen)) := by
  induction xs generalizing seen with
  | nil => simp [uniqueGo, dedupKeepFirst]
  | cons x xs ih =>
    unfold uniqueGo
    rw [List.filter_cons]
    cases hx : memV x seen with
    | true =>
      simp only [id, hx, if_true, Bool.not_true, Bool.false_eq_true, if_false]
      exact ih seen
    | false =>
      simp only [id, hx, Bool.false_eq_true, if_false, Bool.not_false, if_true, dedupKeepFirst]
      congr 1
      rw [ih]
      have e : xs.filter (fun y => !memV y (x :: seen)) =
          (xs.filter (fun y => !memV y seen)).filter (fun y => !veq y x) := by
        rw [List.filter_filter]
        apply List.filter_congr
        intro y _
        rw [memV_cons, Bool.not_or]
      rw [e, dedup_filter_respects (respects_not_veq x)]
      apply List.filter_congr
      intro y _
      rw [veq_symm']

/-- `unique(lst)` with the default key lists the set built from `lst` in insertion order -/
theorem uniqueM_id_eq_dedup (xs : List Val) : uniqueM id xs = dedupKeepFirst xs := by
  unfold uniqueM
  rw [uniqueGo_id_eq]
  simp [memV_nil]

end Ckl.C19
