import sys, itertools, random, subprocess, glob, os
sys.path.insert(0, '/tmp/agents/D/verif'); sys.path.insert(0, '/repo/src')
from harness import proto, astdump
from ckl.lexer import Lexer, KEYWORDS
from ckl.errors import CklSyntaxError

DRIVER = '/tmp/agents/D/verif/lean/.lake/build/bin/driver'

def real(src):
    try:
        return "(toks" + astdump.dump_tokens(Lexer(src, "f").scan().tokens) + ")"
    except CklSyntaxError as e:
        return ("syn", e.pos.line if e.pos else 0)

def norm_model(line):
    line = line.strip()
    if line.startswith("(syn "):
        return ("syn", int(line[:-1].split()[-1]))
    return line

def compare(inputs, label):
    inputs = list(inputs)
    req = "".join("(scan s:%s)\n" % proto.enc_str(s) for s in inputs)
    p = subprocess.run([DRIVER], input=req, capture_output=True, text=True, timeout=3000)
    outs = p.stdout.split("\n")
    assert len(outs) >= len(inputs), (len(outs), len(inputs), p.stderr[:500])
    bad = 0
    for s, o in zip(inputs, outs):
        r = real(s); m = norm_model(o)
        if r != m:
            bad += 1
            if bad <= 10:
                print("DIFF", repr(s)[:200], "\n  real :", str(r)[:300], "\n  model:", str(m)[:300])
    print(f"{label}: {len(inputs)} inputs, {bad} differences", flush=True)
    return len(inputs), bad

ALPHA = list("aT019xb_.e()[],;+-*/%<>=!\"'\\# \t\r\nfnrt") + ["\u00e9"]
total = 0; totbad = 0
def acc(r):
    global total, totbad
    total += r[0]; totbad += r[1]

mode = sys.argv[1] if len(sys.argv) > 1 else "all"
if mode in ("all", "small"):
    ins = [""]
    for n in (1, 2, 3):
        ins += ["".join(t) for t in itertools.product(ALPHA, repeat=n)]
    acc(compare(ins, "exhaustive len<=3"))
if mode in ("all", "len4"):
    A4 = list("a0x1_.(+-*/<>=!\"\\# \nfn#") 
    ins = ["".join(t) for t in itertools.product(A4, repeat=4)]
    acc(compare(ins, "exhaustive len 4 reduced alphabet"))
    A5 = list("0xb1_. <>=/*-\"\\x\n")
    ins = ["".join(t) for t in itertools.product(sorted(set(A5)), repeat=5)]
    acc(compare(ins, "exhaustive len 5 small alphabet"))
if mode in ("all", "random"):
    rnd = random.Random(12345)
    frags = ALPHA + KEYWORDS + ["TRUE", "FALSE", "...", "0x", "0b", "0x1F", "0b101", "1_000", "1.5", "1._5", "//", "///",
            "\\x41", "\\xg1", "\\n", "<<<", ">>>", "<<", ">>", "=>", "<*", "*>", "->", "!>", "<>", "<=", ">=", "==", "!=",
            "+=", "-=", "*=", "/=", "%=", "# c\n", "\r\n", "def ", "fn(x) ", "'a'", '"b"', "ident", "x1", "_a", "a.b", "..", "...."]
    ins = []
    for _ in range(6000):
        k = rnd.randint(1, 30)
        ins.append("".join(rnd.choice(frags) for _ in range(k)))
    for _ in range(3000):
        k = rnd.randint(4, 60)
        ins.append("".join(rnd.choice(ALPHA) for _ in range(k)))
    for _ in range(1000):
        k = rnd.randint(1, 40)
        ins.append("".join(chr(rnd.choice([rnd.randint(1, 127), rnd.randint(128, 0x2fff), rnd.randint(0x10000, 0x10ffff)])) for _ in range(k)))
    acc(compare(ins, "random"))
if mode in ("all", "special"):
    ins = []
    for d in (4299, 4300, 4301):
        n = 10 ** d - 1
        for m in (n, n + 1):
            ins += [hex(m), bin(m), hex(m) + ";", "x = " + hex(m) + "\n", hex(m).replace("0x", "0x_") , hex(m)[:20] + "_" + hex(m)[20:], "9" * d, "1" + "0" * d + ".5"]
    ins += ["0x" + "f" * 20000, "0b" + "1" * 20000, "\n\n0x \n", "\n'\n\\xg'", "\n\n0x" + "f" * 5000 + "\n\n", "0x__", "0b_ ", "0b2", "0xg", "0x1g", "0b12", "0x1.", "0b1.5", "00", "00x1", "0_", "0_1", "0.", "0..", "0...", "1...", "a...", "....", ". . .", "TRUE", "FALSE", "TRUEx", "xFALSE", "  TRUE", "\nFALSE", "if", "iff", "\n\n  also\n"]
    ins += ["'" + "\\x%02x" % i + "'" for i in range(256)] + ["'\\x%s%s'" % (a, b) for a in "0gG_ fF" for b in "0gG_ fF'"]
    ins += ["'abc", '"abc\\', "//abc", "//abc/", "'\\x", "'\\x4", "#", "# abc", "/", "a/", "a //", "<", "<<", ">>", "!", "-", "0", "0x", "0b", "1.", "1_"]
    ins += [kw for kw in KEYWORDS] + [kw + c for kw in KEYWORDS for c in "( x\n"]
    acc(compare(ins, "special"))
if mode in ("all", "programs"):
    ins = []
    for pat in ("/repo/src/ckl/modules/*.ckl", "/repo/**/*.ckl", "/repo/**/*.py", "/repo/**/*.txt", "/repo/**/*.md"):
        for f in glob.glob(pat, recursive=True):
            try:
                src = open(f, encoding="utf-8").read()
            except Exception:
                continue
            if len(src) < 200000:
                ins.append(src)
                ins.append(src.replace("\n", "\r\n"))
    # script-like snippets from tests
    acc(compare(ins, "files"))
print(f"TOTAL {total} inputs, {totbad} differences")
