/-
  C06Eval (continued) — `sorted(lst)` as the evaluator runs it (`nativeSorted`: the insertion sort
  of `FuncSorted`, calling `key` / `cmp` back) against the tree-level `sortedM` of C07.

  * the fuel: `nativeSorted` spends evaluator fuel; the theorems give an explicit sufficient amount
    (`2 * length + 4`), below it the outcome is not claimed (it is `fail oof`, never a wrong answer —
    not proved here).
  * `cmp` / `key` not given: they are looked up as `compare` / `identity` in the calling environment;
    the hypotheses say that these names are bound to the natives (as `initialState` binds them).
  * no `HeapOK` is needed: `compare` is `< 0` exactly when `vlt` holds, whatever `equals` answers.
-/
import CklVerif.Proofs.C06Eval
import CklVerif.Lemmas.C06EvalSorted
import CklVerif.Proofs.C07
namespace Ckl.C06Eval
open Ckl Ckl.C06E

theorem reify_new_list {s : State} {xs : List RVal} {A : List Val} (h : ReifL s xs A) :
    reify (s.alloc (.list xs)).1 (.ref s.heap.size) = some (.list A) := by
  rw [reify_ref_eq, alloc_cell_new]
  have : xs.mapM (reifyF decRepr (s.alloc (.list xs)).1.heap (s.alloc (.list xs)).1.heap.size) =
      some A := by
    apply forall2_mapM
    refine forall2_mono ?_ h
    intro x v hx
    have := reifyF_push decRepr s.heap (.list xs) _ x v hx
    simpa [State.alloc] using this
  simp only [cellVal, this, Option.map_some]

theorem map_gR_of_reifL {s : State} {xs : List RVal} {A : List Val} (h : ReifL s xs A) :
    xs.map (gR s) = A := by
  induction h with
  | nil => rfl
  | cons hx _ ih => simp [gR_of_reify hx, ih]

theorem reifL_of_subset {s : State} {xs ys : List RVal} {A : List Val} (h : ReifL s xs A)
    (hs : ∀ y ∈ ys, y ∈ xs) : ReifL s ys (ys.map (gR s)) := by
  apply mapM_forall2
  apply mapM_option_some
  intro y hy
  obtain ⟨v, hv⟩ := forall2_left_mem h y (hs y hy)
  rw [gR_of_reify hv, hv]

/-- what a sort by the key `k` with `vlt` on the keys guarantees (C07): a permutation, ascending in
    the key, stable -/
structure SortedStable (k : RVal → Val) (xs out : List RVal) : Prop where
  perm : out.Perm xs
  sorted : out.Pairwise (fun a b => vlt (k b) (k a) = false)
  stable : ∀ x ∈ xs, out.filter (fun y => !vlt (k y) (k x) && !vlt (k x) (k y)) =
    xs.filter (fun y => !vlt (k y) (k x) && !vlt (k x) (k y))

theorem sortedM_sortedStable (k : RVal → Val) (xs : List RVal)
    (hk : ∀ a ∈ xs.map k, ∀ b ∈ xs.map k, SameKind a b) :
    SortedStable k xs (sortedM vlt k xs) where
  perm := C07.sortedM_perm vlt k xs
  sorted := C07.sortedM_sorted (C07.vlt_strictWeakOn decRepr hk) k
    (fun x hx => List.mem_map.mpr ⟨x, hx, rfl⟩)
  stable x hx := C07.sortedM_stable (C07.vlt_strictWeakOn decRepr hk) k
    (fun x hx => List.mem_map.mpr ⟨x, hx, rfl⟩) (List.mem_map.mpr ⟨x, hx, rfl⟩)

/-- **`sorted(lst)`** on a list cell whose elements reify, `cmp` / `key` not given: the result is
    a fresh list cell holding `sortedM vlt (reify) xs`, a permutation of the argument's elements; it
    reifies to `sortedM vlt id` of the reified elements; the argument cell is unchanged -/
theorem sorted_list_spec (ld : Loader) {fuel : Nat} {s : State} {env : EnvId} {pos : Pos} {c : Nat}
    {xs : List RVal} {A : List Val} {i j : Nat}
    (hc : s.cell c = some (.list xs)) (hA : xs.mapM (reify s) = some A)
    (hcmp : s.lookup env "compare" = some (.native "compare" i))
    (hkey : s.lookup env "identity" = some (.native "identity" j))
    (hf : 2 * xs.length + 4 ≤ fuel) :
    ∃ out s', nativeSorted ld fuel [("lst", .ref c)] env pos s = .ok (.ref s.heap.size) s' ∧
      s'.heap = s.heap.push (.list out) ∧
      out = sortedM vlt (gR s) xs ∧ out.Perm xs ∧
      out.mapM (reify s') = some (sortedM vlt id A) ∧
      reify s' (.ref s.heap.size) = some (.list (sortedM vlt id A)) ∧
      s'.cell c = some (.list xs) := by
  have hR := mapM_forall2 hA
  have hS : ∀ x, x ∈ xs → ∃ v, reify (s.newEnv env).1 x = some v := forall2_left_mem hR
  have H := sortFns_identity_compare ld i j (s.newEnv env).2 pos (s.newEnv env).1 hS
  have hrun := nativeSorted_list_default ld hc hcmp hkey H (fun x hx => hx) hf
  have hperm : (sortedM vlt (gR s) xs).Perm xs := C07.sortedM_perm vlt (gR s) xs
  have hout : ReifL s (sortedM vlt (gR s) xs) (sortedM vlt id A) := by
    have := reifL_of_subset hR (ys := sortedM vlt (gR s) xs) (fun y hy => hperm.mem_iff.mp hy)
    rw [sortedM_map, map_gR_of_reifL hR] at this
    exact this
  refine ⟨sortedM vlt (gR s) xs, _, hrun, rfl, rfl, hperm, ?_, ?_, ?_⟩
  · exact forall2_mapM (reifL_alloc (s := (s.newEnv env).1) _ hout)
  · exact reify_new_list (s := (s.newEnv env).1) hout
  · have hlt : c < s.heap.size := by
      unfold State.cell at hc
      rcases Nat.lt_or_ge c s.heap.size with h | h
      · exact h
      · rw [Array.getElem?_eq_none h] at hc; cases hc
    unfold State.cell at hc ⊢
    show (s.heap.push _)[c]? = _
    rw [Array.getElem?_push]; simp [Nat.ne_of_lt hlt, hc]

/-- … hence, for elements of one ordered kind, a sorted, stable permutation (C07) -/
theorem sorted_list_sorted_stable {s : State} {xs : List RVal} {A : List Val}
    (hA : xs.mapM (reify s) = some A) (hk : ∀ a ∈ A, ∀ b ∈ A, SameKind a b) :
    SortedStable (gR s) xs (sortedM vlt (gR s) xs) ∧
      (sortedM vlt id A).Perm A ∧ (sortedM vlt id A).Pairwise (fun a b => vlt b a = false) := by
  have hm := map_gR_of_reifL (mapM_forall2 hA)
  refine ⟨sortedM_sortedStable (gR s) xs (by rw [hm]; exact hk), C07.sortedM_perm vlt id A, ?_⟩
  exact C07.sortedM_sorted (C07.vlt_strictWeakOn decRepr hk) id (fun _ h => h)

/-- **`sorted(set)`**: the set is enumerated into a first fresh list cell (ascending), which is
    sorted into a second one; the result reifies to `sortedM vlt id` of the enumeration -/
theorem sorted_set_spec (ld : Loader) {fuel : Nat} {s : State} {env : EnvId} {pos : Pos} {c : Nat}
    {xs : List RVal} {A : List Val} {i j : Nat}
    (hc : s.cell c = some (.set xs)) (hA : xs.mapM (reify s) = some A)
    (hcmp : s.lookup env "compare" = some (.native "compare" i))
    (hkey : s.lookup env "identity" = some (.native "identity" j))
    (hf : 2 * xs.length + 4 ≤ fuel) :
    ∃ ys out s', nativeSorted ld fuel [("lst", .ref c)] env pos s = .ok (.ref (s.heap.size + 1)) s' ∧
      s'.heap = (s.heap.push (.list ys)).push (.list out) ∧ ys.Perm xs ∧ out.Perm xs ∧
      reify s' (.ref (s.heap.size + 1)) = some (.list (sortedM vlt id (sortBy vlt A))) ∧
      s'.cell c = some (.set xs) := by
  obtain ⟨ys, hys, hp, hY⟩ := C06E.sortedR_bridge (mapM_forall2 hA)
  let s1 := ((s.newEnv env).1.alloc (.list ys)).1
  have hY1 : ReifL s1 ys (sortBy vlt A) := reifL_alloc (s := (s.newEnv env).1) _ hY
  have hS : ∀ x, x ∈ ys → ∃ v, reify s1 x = some v := forall2_left_mem hY1
  have H := sortFns_identity_compare ld i j (s.newEnv env).2 pos s1 hS
  have hlen : ys.length = xs.length := hp.length_eq
  have hf' : 2 * ys.length + 4 ≤ fuel := by omega
  have hrun := nativeSorted_set_default ld hc hys hcmp hkey H (fun x hx => hx) hf'
  have hperm : (sortedM vlt (gR s1) ys).Perm ys := C07.sortedM_perm vlt (gR s1) ys
  have hout : ReifL s1 (sortedM vlt (gR s1) ys) (sortedM vlt id (sortBy vlt A)) := by
    have := reifL_of_subset hY1 (ys := sortedM vlt (gR s1) ys) (fun y hy => hperm.mem_iff.mp hy)
    rw [sortedM_map, map_gR_of_reifL hY1] at this
    exact this
  refine ⟨ys, sortedM vlt (gR s1) ys, _, hrun, (by rfl), hp, hperm.trans hp, ?_, ?_⟩
  · have := reify_new_list (s := s1) hout
    have e : s1.heap.size = s.heap.size + 1 := by simp [s1, State.alloc, State.newEnv]
    rw [e] at this
    exact this
  · have hlt : c < s.heap.size := by
      unfold State.cell at hc
      rcases Nat.lt_or_ge c s.heap.size with h | h
      · exact h
      · rw [Array.getElem?_eq_none h] at hc; cases hc
    unfold State.cell at hc ⊢
    show ((s.heap.push _).push _)[c]? = _
    rw [Array.getElem?_push, Array.getElem?_push]
    simp [Nat.ne_of_lt hlt, hc]
    omega

/-- **`sorted(lst, key = length)`** on a list cell of strings / collections: a stable sort by
    length (the keys are ints: one ordered kind) -/
theorem sorted_list_by_length (ld : Loader) {fuel : Nat} {s : State} {env : EnvId} {pos : Pos}
    {c : Nat} {xs : List RVal} {i j : Nat}
    (hc : s.cell c = some (.list xs)) (hx : ∀ x ∈ xs, HasLen s x)
    (hcmp : s.lookup env "compare" = some (.native "compare" i))
    (hf : 2 * xs.length + 4 ≤ fuel) :
    ∃ out s', nativeSorted ld fuel [("lst", .ref c), ("key", .native "length" j)] env pos s =
        .ok (.ref s.heap.size) s' ∧
      s'.heap = s.heap.push (.list out) ∧
      out = sortedM vlt (fun x => gR s (lenR s x)) xs ∧
      SortedStable (fun x => gR s (lenR s x)) xs out := by
  have H := sortFns_length_compare ld i j (s.newEnv env).2 pos (s.newEnv env).1
  have hrun := nativeSorted_list_key ld hc hcmp (key := .native "length" j) rfl H hx hf
  refine ⟨_, _, hrun, rfl, rfl, sortedM_sortedStable _ xs ?_⟩
  have hint : ∀ a ∈ xs.map (fun x => gR s (lenR s x)), ∃ n : Int, a = .int n := by
    intro a ha
    obtain ⟨x, hx', rfl⟩ := List.mem_map.mp ha
    obtain ⟨n, _, hn⟩ := reify_lenR s x (hx x hx')
    exact ⟨n, gR_of_reify hn⟩
  intro a ha b hb
  obtain ⟨n, rfl⟩ := hint a ha
  obtain ⟨m, rfl⟩ := hint b hb
  simp [SameKind]

/-! ### non-vacuity: a state with the two natives bound and cells to sort

  heap of `sSo`:  0: [3, 1.0, 2, 1]    1: <<2, 1.5>>    2: ['bb', [], 'a', <<2, 1.5>>] -/

def sSo : State := {
  frames := #[{ vars := [("compare", .native "compare" 0), ("identity", .native "identity" 1)] }],
  heap := #[.list [.int 3, .dec 2 1, .int 2, .int 1], .set [.int 2, .dec 3 1],
    .list [.str ['b', 'b'], .ref 3, .str ['a'], .ref 1], .list []] }

theorem sSo_compare : sSo.lookup 0 "compare" = some (.native "compare" 0) := by
  simp [State.lookup, State.lookupF, State.frame, sSo, dictGet]
theorem sSo_identity : sSo.lookup 0 "identity" = some (.native "identity" 1) := by
  simp [State.lookup, State.lookupF, State.frame, sSo, dictGet]

example := sorted_list_spec {} (s := sSo) (env := 0) (pos := {}) (c := 0) (fuel := 12) rfl rfl
  sSo_compare sSo_identity (by decide)
example := sorted_set_spec {} (s := sSo) (env := 0) (pos := {}) (c := 1) (fuel := 8) rfl rfl
  sSo_compare sSo_identity (by decide)
example := sorted_list_by_length {} (s := sSo) (env := 0) (pos := {}) (c := 2) (fuel := 12) (j := 5)
  rfl (by intro x hx; simp at hx; rcases hx with rfl | rfl | rfl | rfl <;> simp [HasLen, State.cell, sSo])
  sSo_compare (by decide)
-- stability is visible: `1.0` (before `1` in the input) stays before `1`
example : sortedM vlt id [Val.int 3, .dec 2 1, .int 2, .int 1] = [.dec 2 1, .int 1, .int 2, .int 3] := by
  rfl
example := sorted_list_sorted_stable (s := sSo) (xs := [.int 3, .dec 2 1, .int 2, .int 1]) rfl
  (by intro a ha b hb; simp at ha hb
      rcases ha with rfl | rfl | rfl | rfl <;> rcases hb with rfl | rfl | rfl | rfl <;> simp [SameKind])

end Ckl.C06Eval
