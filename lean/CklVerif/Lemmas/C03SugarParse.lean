/-
  C03Sugar — parser level, part 1: exact equations (with positions) for the productions that build
  call nodes: the `!>` branch of the postfix loop (`_invoke`), the `(` branch (`_call`), the `->`
  branch (`_deref`, method call), and the argument loop.
-/
import CklVerif.Lemmas.C02ParseEqns
namespace Ckl.C03S
open Ckl Ckl.Parser Ckl.C02P

local notation "kw" => (some TokType.keyword)
local notation "ip" => (some TokType.interpunction)
local notation "op" => (some TokType.operator)
local notation "idt" => (some TokType.identifier)

/-- the token is spelled `v` with type `ty` -/
def Is (t : Token) (v : List Char) (ty : TokType) : Prop := t.value = v ∧ t.type = ty

theorem tokIs_of_Is {t : Token} {v : List Char} {ty : TokType} (h : Is t v ty) : St.tokIs t v (some ty) = true := by
  simp [St.tokIs, h.1, h.2]

theorem tokIs_ne_type {t : Token} {v : List Char} {ty : TokType} (h : t.type ≠ ty) :
    St.tokIs t v (some ty) = false := by
  simp [St.tokIs, h]

theorem tokIs_ne_value {t : Token} {v : List Char} {ty : Option TokType} (h : t.value ≠ v) :
    St.tokIs t v ty = false := by
  cases ty <;> simp [St.tokIs, h]

theorem matchIdentifier_cons {p : Pos} {t : Token} {rest : List Token} (h : t.type = .identifier) :
    St.matchIdentifier ⟨p, t :: rest⟩ = .ok ⟨t.value, ⟨t.pos, rest⟩, by simp⟩ := by
  simp [St.matchIdentifier, h]

theorem expect_cons {p : Pos} {t : Token} {rest : List Token} {v : List Char} {ty : TokType} (h : Is t v ty) :
    St.expect ⟨p, t :: rest⟩ v ty = .ok ⟨⟨t.pos, rest⟩, by simp⟩ := by
  simp [St.expect, h.1, h.2]

/-! ### `derefChain` -/

theorem derefChain_stop (p : Pos) (rest : List Token) (fn : Node)
    (h : ∀ t tl, rest = t :: tl → St.tokIs t c!"->" op = false) :
    plainLe (derefChain ⟨p, rest⟩ fn) = .ok (fn, ⟨p, rest⟩) := by
  rw [derefChain]
  cases rest with
  | nil => simp [matchIf_nil]
  | cons t tl => simp [matchIf_cons_false (h t tl rfl)]

theorem derefChain_step (p : Pos) (ta tm : Token) (rest : List Token) (fn : Node)
    (ha : Is ta c!"->" .operator) (hm : tm.type = .identifier) :
    plainLe (derefChain ⟨p, ta :: tm :: rest⟩ fn) =
      plainLe (derefChain ⟨tm.pos, rest⟩ (.deref fn (strLit tm.value tm.pos) .absent tm.pos)) := by
  rw [derefChain]
  rw [matchIf_cons_true (tokIs_of_Is ha)]
  simp only [matchIdentifier_cons hm, bind, Except.bind]
  cases derefChain ⟨tm.pos, rest⟩ (.deref fn (strLit tm.value tm.pos) .absent tm.pos) with
  | error e => simp
  | ok o => simp [pure, Except.pure]

/-! ### the argument loop -/

/-- `sepUnless` without its proof component -/
def sepP (s : St) (closer : List Char) : Except PErr St :=
  match sepUnless s closer with
  | .ok s' => .ok s'.1
  | .error e => .error e

theorem sepP_closer {p : Pos} {t : Token} {rest : List Token} {closer : List Char}
    (h : Is t closer .interpunction) : sepP ⟨p, t :: rest⟩ closer = .ok ⟨p, t :: rest⟩ := by
  simp [sepP, sepUnless, peekn_cons, tokIs_of_Is h]

theorem sepP_comma {p : Pos} {t : Token} {rest : List Token} {closer : List Char}
    (h : Is t c!"," .interpunction) (hc : closer ≠ c!",") : sepP ⟨p, t :: rest⟩ closer = .ok ⟨t.pos, rest⟩ := by
  have h1 : St.tokIs t closer ip = false := tokIs_ne_value (by rw [h.1]; exact fun e => hc e.symm)
  simp [sepP, sepUnless, peekn_cons, h1, expect_cons h]

/-- the argument list ends: `)` -/
theorem argsLoop_close (c : Ctx) (p : Pos) (tr : Token) (rest : List Token) (names : List (Option String))
    (args : List Node) (hr : Is tr c!")" .interpunction) :
    plain (argsLoop c ⟨p, tr :: rest⟩ names args) = .ok ((names, args), ⟨tr.pos, rest⟩) := by
  rw [argsLoop, matchIf_cons_true (tokIs_of_Is hr)]
  rfl

/-- the head of the remaining tokens is that of a positional argument: it is not `)`, and it is
    not an identifier directly followed by `=` -/
def PosHead (ts : List Token) : Prop :=
  match ts with
  | [] => False
  | t :: tl => St.tokIs t c!")" ip = false ∧
      (t.type = .identifier → ∀ t2 tl2, tl = t2 :: tl2 → St.tokIs t2 c!"=" op = false)

/-- one positional argument: an expression, then `,` unless `)` follows -/
theorem argsLoop_positional (c : Ctx) (p : Pos) (ts : List Token) (names : List (Option String))
    (args : List Node) (h : PosHead ts) :
    plain (argsLoop c ⟨p, ts⟩ names args) =
      (plain (pExpression c ⟨p, ts⟩)).bind (fun r =>
        (sepP r.2 c!")").bind (fun s2 => plain (argsLoop c s2 (names ++ [none]) (args ++ [r.1])))) := by
  cases ts with
  | nil => exact h.elim
  | cons t tl =>
    obtain ⟨h1, h2⟩ := h
    rw [argsLoop, matchIf_cons_false h1]
    have hg : (t.type == TokType.identifier && St.peekn ⟨p, t :: tl⟩ 2 c!"=" op) = false := by
      cases hty : t.type == TokType.identifier with
      | false => rfl
      | true =>
        have hty' : t.type = .identifier := by simpa using hty
        cases tl with
        | nil => simp [St.peekn]
        | cons t2 tl2 => simp [St.peekn, h2 hty' t2 tl2 rfl]
    simp only [St.peek, bind, Except.bind, hg, Bool.false_eq_true, if_false]
    cases pExpression c ⟨p, t :: tl⟩ with
    | error e => simp [plain]
    | ok o =>
      obtain ⟨e, s1, hl1⟩ := o
      simp only [plain, sepP]
      cases sepUnless s1 c!")" with
      | error e => simp
      | ok s2 =>
        obtain ⟨s2, hl2⟩ := s2
        simp only
        cases argsLoop c s2 (names ++ [none]) (args ++ [e]) with
        | error e => simp
        | ok o2 => simp [pure, Except.pure]

/-- one named argument `name = expression` -/
theorem argsLoop_named (c : Ctx) (p : Pos) (tn te : Token) (tl : List Token) (names : List (Option String))
    (args : List Node) (hn : tn.type = .identifier) (he : Is te c!"=" .operator) :
    plain (argsLoop c ⟨p, tn :: te :: tl⟩ names args) =
      (plain (pExpression c ⟨te.pos, tl⟩)).bind (fun r =>
        (sepP r.2 c!")").bind (fun s2 =>
          plain (argsLoop c s2 (names ++ [some (str tn.value)]) (args ++ [r.1])))) := by
  have h1 : St.tokIs tn c!")" ip = false := tokIs_ne_type (by rw [hn]; decide)
  rw [argsLoop, matchIf_cons_false h1]
  have hg : (tn.type == TokType.identifier && St.peekn ⟨p, tn :: te :: tl⟩ 2 c!"=" op) = true := by
    simp [St.peekn, hn, tokIs_of_Is he]
  simp only [St.peek, bind, Except.bind, hg, if_true, matchIdentifier_cons hn, expect_cons he]
  cases pExpression c ⟨te.pos, tl⟩ with
  | error e => simp [plain]
  | ok o =>
    obtain ⟨e, s1, hl1⟩ := o
    simp only [plain, sepP]
    cases sepUnless s1 c!")" with
    | error e => simp
    | ok s2 =>
      obtain ⟨s2, hl2⟩ := s2
      simp only
      cases argsLoop c s2 (names ++ [some (str tn.value)]) (args ++ [e]) with
      | error e => simp
      | ok o2 => simp [pure, Except.pure]

/-! ### the postfix loop -/

/-- `!>`: `_invoke`, then the loop goes on with the call node -/
theorem postfixLoop_pipe (c : Ctx) (ac ad : Bool) (p : Pos) (tp : Token) (toks : List Token) (x : Node)
    (hp : Is tp c!"!>" .operator) :
    plainLe (postfixLoop c ac ad ⟨p, tp :: toks⟩ x) =
      (plain (invokeBody c x ⟨tp.pos, toks⟩)).bind (fun r => plainLe (postfixLoop c ac ad r.2 r.1)) := by
  rw [postfixLoop, matchIf_cons_true (tokIs_of_Is hp)]
  simp only [bind, Except.bind]
  cases invokeBody c x ⟨tp.pos, toks⟩ with
  | error e => simp [plain]
  | ok o =>
    obtain ⟨n, s2, hl2⟩ := o
    simp only [plain]
    cases postfixLoop c ac ad s2 n with
    | error e => simp
    | ok o2 => simp [pure, Except.pure]

/-- `(` (where calls are allowed): `_call`, then the loop goes on with the call node -/
theorem postfixLoop_call (c : Ctx) (ad : Bool) (p : Pos) (tl : Token) (A : List Token) (node : Node)
    (hl : Is tl c!"(" .interpunction) :
    plainLe (postfixLoop c true ad ⟨p, tl :: A⟩ node) =
      (plain (argsLoop c ⟨tl.pos, A⟩ [] [])).bind (fun r =>
        plainLe (postfixLoop c true ad r.2 (.call node r.1.1 r.1.2 tl.pos))) := by
  have h1 : St.tokIs tl c!"!>" op = false := tokIs_ne_type (by rw [hl.2]; decide)
  rw [postfixLoop, matchIf_cons_false h1]
  simp only [if_true, matchIf_cons_true (tokIs_of_Is hl), bind, Except.bind]
  cases argsLoop c ⟨tl.pos, A⟩ [] [] with
  | error e => simp [plain]
  | ok o =>
    obtain ⟨⟨names, args⟩, s2, hl2⟩ := o
    simp only [plain]
    cases postfixLoop c true ad s2 (.call node names args tl.pos) with
    | error e => simp
    | ok o2 => simp [pure, Except.pure]

/-- `_invoke` on `f -> m₁ -> … ( …`: the function is the identifier with its `->` chain, the piped
    node is the first, positional, argument -/
theorem invokeBody_ident (c : Ctx) (p : Pos) (tf tl : Token) (rest0 A : List Token) (x fn : Node) (q : Pos)
    (hf : tf.type = .identifier)
    (hd : plainLe (derefChain ⟨tf.pos, rest0⟩ (.ident (str tf.value) tf.pos)) = .ok (fn, ⟨q, tl :: A⟩))
    (hl : Is tl c!"(" .interpunction) :
    plain (invokeBody c x ⟨p, tf :: rest0⟩) =
      (plain (argsLoop c ⟨tl.pos, A⟩ [none] [x])).bind (fun r => .ok (Node.call fn r.1.1 r.1.2 q, r.2)) := by
  obtain ⟨hle, hd⟩ := plainLe_eq_ok hd
  have h1 : St.tokIs tf c!"(" ip = false := tokIs_ne_type (by rw [hf]; decide)
  rw [invokeBody, matchIf2_cons_false h1]
  simp only [matchIdentifier_cons hf, bind, Except.bind, hd, pure, Except.pure, expect_cons hl]
  cases argsLoop c ⟨tl.pos, A⟩ [none] [x] with
  | error e => simp [plain]
  | ok o => obtain ⟨⟨names, args⟩, s2, hl2⟩ := o; simp [plain]

theorem matchIf2_cons_true {p : Pos} {t1 t2 : Token} {tl : List Token} {v1 ty1 v2 ty2}
    (h1 : St.tokIs t1 v1 ty1 = true) (h2 : St.tokIs t2 v2 ty2 = true) :
    St.matchIf2 ⟨p, t1 :: t2 :: tl⟩ v1 ty1 v2 ty2 = some ⟨⟨t2.pos, tl⟩, by simp; omega⟩ := by
  simp [St.matchIf2, h1, h2]

/-- `_invoke` on `( fn … ) ( …`: the function is the lambda, the piped node is the first argument;
    the call node carries the position of the `)` that closes the lambda -/
theorem invokeBody_lambda (c : Ctx) (p : Pos) (t1 t2 tr tl : Token) (L A : List Token) (x lam : Node) (q : Pos)
    (h1 : Is t1 c!"(" .interpunction) (h2 : Is t2 c!"fn" .keyword)
    (hfn : plain (pFn c t2.pos ⟨t2.pos, L⟩) = .ok (lam, ⟨q, tr :: tl :: A⟩))
    (hr : Is tr c!")" .interpunction) (hl : Is tl c!"(" .interpunction) :
    plain (invokeBody c x ⟨p, t1 :: t2 :: L⟩) =
      (plain (argsLoop c ⟨tl.pos, A⟩ [none] [x])).bind (fun r => .ok (Node.call lam r.1.1 r.1.2 tr.pos, r.2)) := by
  obtain ⟨hle, hfn⟩ := plain_eq_ok hfn
  rw [invokeBody, matchIf2_cons_true (tokIs_of_Is h1) (tokIs_of_Is h2)]
  simp only [bind, Except.bind, hfn, pure, Except.pure, expect_cons hr, expect_cons hl]
  cases argsLoop c ⟨tl.pos, A⟩ [none] [x] with
  | error e => simp [plain]
  | ok o => obtain ⟨⟨names, args⟩, s2, hl2⟩ := o; simp [plain]

/-- `x !> f` at the end of the input: "Unexpected end of input" at the position of the last token -/
theorem invokeBody_no_call_eof (c : Ctx) (p : Pos) (tf : Token) (rest0 : List Token) (x fn : Node) (q : Pos)
    (hf : tf.type = .identifier)
    (hd : plainLe (derefChain ⟨tf.pos, rest0⟩ (.ident (str tf.value) tf.pos)) = .ok (fn, ⟨q, []⟩)) :
    plain (invokeBody c x ⟨p, tf :: rest0⟩) = .error (errEof q) := by
  obtain ⟨hle, hd⟩ := plainLe_eq_ok hd
  have h1 : St.tokIs tf c!"(" ip = false := tokIs_ne_type (by rw [hf]; decide)
  rw [invokeBody, matchIf2_cons_false h1]
  simp [matchIdentifier_cons hf, bind, Except.bind, hd, pure, Except.pure, St.expect, plain]

/-- `x !> f` followed by a token other than `(`: the syntax error "Expected ( but got …" at that token -/
theorem invokeBody_no_call (c : Ctx) (p : Pos) (tf t : Token) (rest0 rest : List Token) (x fn : Node) (q : Pos)
    (hf : tf.type = .identifier)
    (hd : plainLe (derefChain ⟨tf.pos, rest0⟩ (.ident (str tf.value) tf.pos)) = .ok (fn, ⟨q, t :: rest⟩))
    (ht : ¬ Is t c!"(" .interpunction) :
    plain (invokeBody c x ⟨p, tf :: rest0⟩) =
      .error (mkErr ("Expected " ++ str c!"(" ++ " but got " ++ tokRepr t) t.pos) := by
  obtain ⟨hle, hd⟩ := plainLe_eq_ok hd
  have h1 : St.tokIs tf c!"(" ip = false := tokIs_ne_type (by rw [hf]; decide)
  rw [invokeBody, matchIf2_cons_false h1]
  have hx : (t.value != c!"(" || t.type != TokType.interpunction) = true := by
    simp only [Is, not_and] at ht
    by_cases hv : t.value = c!"("
    · simp [hv, ht hv]
    · simp [hv]
  simp [matchIdentifier_cons hf, bind, Except.bind, hd, pure, Except.pure, St.expect, plain, hx]

/-- `x !>` followed by neither an identifier nor `( fn`: "Expected identifier but got …" -/
theorem invokeBody_no_function (c : Ctx) (p : Pos) (t : Token) (rest : List Token) (x : Node)
    (ht : t.type ≠ .identifier)
    (hfn : ∀ t2 tl2, rest = t2 :: tl2 → ¬ (Is t c!"(" .interpunction ∧ Is t2 c!"fn" .keyword)) :
    plain (invokeBody c x ⟨p, t :: rest⟩) =
      .error (mkErr ("Expected identifier but got " ++ tokRepr t) t.pos) := by
  have hm : St.matchIf2 ⟨p, t :: rest⟩ c!"(" ip c!"fn" kw = none := by
    cases rest with
    | nil => simp [St.matchIf2]
    | cons t2 tl2 =>
      have := hfn t2 tl2 rfl
      have hb : (St.tokIs t c!"(" ip && St.tokIs t2 c!"fn" kw) = false := by
        cases hh : (St.tokIs t c!"(" ip && St.tokIs t2 c!"fn" kw) with
        | false => rfl
        | true =>
          simp only [St.tokIs, Bool.and_eq_true, beq_iff_eq] at hh
          exact absurd ⟨⟨hh.1.1, hh.1.2⟩, ⟨hh.2.1, hh.2.2⟩⟩ this
      simp [St.matchIf2, hb]
  rw [invokeBody, hm]
  simp [St.matchIdentifier, ht, bind, Except.bind, plain]

end Ckl.C03S
