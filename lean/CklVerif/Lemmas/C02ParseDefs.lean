/-
  C02 (syntactic half) — definitions: expression trees `E`, the AST `toNode e` the language
  definition prescribes (all positions `default`), the pretty-printer `render` (token spellings,
  parentheses exactly where precedence / associativity need them), and the position eraser
  `erase : Node → Node`.

  Shape of the trees (it follows the parser model `Model/Parser.lean`):
    * `or` / `and` are n-ary (≥ 2 operands): `a or b or c` is ONE `NodeOr [a, b, c]`, while
      `(a or b) or c` is `NodeOr [NodeOr [a, b], c]`;
    * a comparison is a chain `a op₁ b op₂ c …` (≥ 1 operator);
    * `+ -` and `* / %` are binary and left-associative;
    * `not e` takes a comparison-level operand (`parse_not_expr` calls `parse_rel_expr`, so
      `not not a` is a syntax error and is rendered `not (not a)`);
    * `neg e` (unary minus) takes a primary operand (`parse_unary_expr` calls `parse_pred_expr`);
    * `paren e` is an explicit, redundant pair of parentheses.
-/
import CklVerif.Model.Parser
namespace Ckl.C02P
open Ckl Ckl.Parser

/-- the spelling of a token: its text and its type (everything but the position) -/
abbrev Sp := List Char × TokType

def sp (t : Token) : Sp := (t.value, t.type)

/-- atoms: identifiers (any name), non-negative `int` literals that `int(..)` accepts, booleans -/
inductive Atom where
  | ident (name : List Char)
  | int (digits : List Char) (n : Nat) (h : parseIntLit digits = some n)
  | bool (b : Bool)

inductive RelOp | eq | ne | ne2 | lt | le | gt | ge
deriving DecidableEq, Repr
inductive AddOp | add | sub
deriving DecidableEq, Repr
inductive MulOp | mul | div | mod
deriving DecidableEq, Repr

inductive E where
  | atom (a : Atom)
  | or (a b : E) (more : List E)
  | and (a b : E) (more : List E)
  | not (e : E)
  | cmp (a : E) (op : RelOp) (b : E) (more : List (RelOp × E))
  | add (op : AddOp) (l r : E)
  | mul (op : MulOp) (l r : E)
  | neg (e : E)
  | paren (e : E)

/-! ### spellings -/

def Atom.sp : Atom → Sp
  | .ident name => (name, .identifier)
  | .int digits _ _ => (digits, .int)
  | .bool true => (['T', 'R', 'U', 'E'], .boolean)
  | .bool false => (['F', 'A', 'L', 'S', 'E'], .boolean)

def RelOp.txt : RelOp → List Char
  | .eq => ['=', '='] | .ne => ['!', '='] | .ne2 => ['<', '>'] | .lt => ['<'] | .le => ['<', '=']
  | .gt => ['>'] | .ge => ['>', '=']

def RelOp.fn : RelOp → String
  | .eq => "equals" | .ne => "not_equals" | .ne2 => "not_equals" | .lt => "less" | .le => "less_equals"
  | .gt => "greater" | .ge => "greater_equals"

def AddOp.txt : AddOp → List Char
  | .add => ['+'] | .sub => ['-']
def AddOp.fn : AddOp → String
  | .add => "add" | .sub => "sub"

def MulOp.txt : MulOp → List Char
  | .mul => ['*'] | .div => ['/'] | .mod => ['%']
def MulOp.fn : MulOp → String
  | .mul => "mul" | .div => "div" | .mod => "mod"

def RelOp.sp (o : RelOp) : Sp := (o.txt, .operator)
def AddOp.sp (o : AddOp) : Sp := (o.txt, .operator)
def MulOp.sp (o : MulOp) : Sp := (o.txt, .operator)

def LP : Sp := (['('], .interpunction)
def RP : Sp := ([')'], .interpunction)
def orSp : Sp := (['o', 'r'], .keyword)
def andSp : Sp := (['a', 'n', 'd'], .keyword)
def notSp : Sp := (['n', 'o', 't'], .keyword)
def minusSp : Sp := (['-'], .operator)

/-! ### precedence and rendering -/

/-- binding strength of the outermost construct: or 0 < and 1 < not 2 < comparison 3 < additive 4
    < multiplicative 5 < unary minus 6 < atoms, parentheses 7 -/
def prec : E → Nat
  | .atom _ => 7
  | .paren _ => 7
  | .neg _ => 6
  | .mul _ _ _ => 5
  | .add _ _ _ => 4
  | .cmp _ _ _ _ => 3
  | .not _ => 2
  | .and _ _ _ => 1
  | .or _ _ _ => 0

/-- put `ts` (the rendering of `e`) in parentheses iff `e` binds weaker than level `k` -/
def wrap (k : Nat) (e : E) (ts : List Sp) : List Sp :=
  if prec e < k then LP :: ts ++ [RP] else ts

mutual
/-- the pretty-printer -/
def render : E → List Sp
  | .atom a => [a.sp]
  | .or a b more => wrap 1 a (render a) ++ orSp :: wrap 1 b (render b) ++ renderL orSp 1 more
  | .and a b more => wrap 2 a (render a) ++ andSp :: wrap 2 b (render b) ++ renderL andSp 2 more
  | .not e => notSp :: wrap 3 e (render e)
  | .cmp a op b more => wrap 4 a (render a) ++ op.sp :: wrap 4 b (render b) ++ renderC more
  | .add op l r => wrap 4 l (render l) ++ op.sp :: wrap 5 r (render r)
  | .mul op l r => wrap 5 l (render l) ++ op.sp :: wrap 6 r (render r)
  | .neg e => minusSp :: wrap 7 e (render e)
  | .paren e => LP :: render e ++ [RP]
/-- `sep e₁ sep e₂ …` with every operand rendered at level `k` -/
def renderL (sep : Sp) (k : Nat) : List E → List Sp
  | [] => []
  | e :: es => sep :: wrap k e (render e) ++ renderL sep k es
/-- `op₁ e₁ op₂ e₂ …` with every operand rendered at the additive level -/
def renderC : List (RelOp × E) → List Sp
  | [] => []
  | (op, e) :: cs => op.sp :: wrap 4 e (render e) ++ renderC cs
end

/-- `render e` in parentheses iff `e` binds weaker than level `k` -/
abbrev renderAt (k : Nat) (e : E) : List Sp := wrap k e (render e)

/-! ### the prescribed AST (positions `default`) -/

def binNode (fn : String) (a b : Node) : Node := funcCallAB fn a b default

/-- `NodeAnd.getSimplified` of the comparison list -/
def simplifyAnd : List Node → Node
  | [x] => x
  | xs => .and xs default

def Atom.toNode : Atom → Node
  | .ident name => .ident (String.ofList name) default
  | .int _ n _ => .lit (.int n) default
  | .bool b => .lit (.bool b) default

/-- unary minus: a sign directly in front of an `int` token is folded into the literal,
    everything else is `sub(0, e)` -/
def negNode : E → Node → Node
  | .atom (.int _ n _), _ => .lit (.int (-(n : Int))) default
  | _, x => .call (.ident "sub" default) [some "a", some "b"] [.lit (.int 0) default, x] default

mutual
def toNode : E → Node
  | .atom a => a.toNode
  | .or a b more => .or (toNode a :: toNode b :: toNodeL more) default
  | .and a b more => .and (toNode a :: toNode b :: toNodeL more) default
  | .not e => .not (toNode e) default
  | .cmp a op b more => simplifyAnd (binNode op.fn (toNode a) (toNode b) :: toNodeC (toNode b) more)
  | .add op l r => binNode op.fn (toNode l) (toNode r)
  | .mul op l r => binNode op.fn (toNode l) (toNode r)
  | .neg e => negNode e (toNode e)
  | .paren e => toNode e
def toNodeL : List E → List Node
  | [] => []
  | e :: es => toNode e :: toNodeL es
/-- the adjacent pairs of a comparison chain whose previous operand is `lhs` -/
def toNodeC (lhs : Node) : List (RelOp × E) → List Node
  | [] => []
  | (op, e) :: cs => binNode op.fn lhs (toNode e) :: toNodeC (toNode e) cs
end

/-! ### explicit parentheses -/

def isIntAtom : E → Bool
  | .atom (.int _ _ _) => true
  | _ => false

/-- `neg` of the stripped operand `e'` of `e`; the one pair of parentheses that is not redundant
    in the model — between a unary minus and an `int` literal, `-(5)` — is kept -/
def negStripped (e e' : E) : E :=
  if isIntAtom e' && !isIntAtom e then .neg (.paren e') else .neg e'

mutual
/-- remove every explicit `paren` (except in `-(5)`, see `negStripped`) -/
def stripParens : E → E
  | .atom a => .atom a
  | .or a b more => .or (stripParens a) (stripParens b) (stripParensL more)
  | .and a b more => .and (stripParens a) (stripParens b) (stripParensL more)
  | .not e => .not (stripParens e)
  | .cmp a op b more => .cmp (stripParens a) op (stripParens b) (stripParensC more)
  | .add op l r => .add op (stripParens l) (stripParens r)
  | .mul op l r => .mul op (stripParens l) (stripParens r)
  | .neg e => negStripped e (stripParens e)
  | .paren e => stripParens e
def stripParensL : List E → List E
  | [] => []
  | e :: es => stripParens e :: stripParensL es
def stripParensC : List (RelOp × E) → List (RelOp × E)
  | [] => []
  | (op, e) :: cs => (op, stripParens e) :: stripParensC cs
end

/-! ### erasing positions -/

mutual
/-- set every position of an AST to `default` -/
def erase : Node → Node
  | .absent => .absent
  | .catchAll => .catchAll
  | .null _ => .null default
  | .lit v _ => .lit v default
  | .ident n _ => .ident n default
  | .and es _ => .and (eraseL es) default
  | .or es _ => .or (eraseL es) default
  | .not e _ => .not (erase e) default
  | .assign n e _ => .assign n (erase e) default
  | .assignD ns e _ => .assignD ns (erase e) default
  | .block es ce ch fin tl _ => .block (eraseL es) (eraseL ce) (eraseL ch) (eraseL fin) tl default
  | .brk _ => .brk default
  | .cont _ => .cont default
  | .cls n ms _ => .cls n (eraseL ms) default
  | .defn n e i _ => .defn n (erase e) i default
  | .defD ns e i _ => .defD ns (erase e) i default
  | .deref e i d _ => .deref (erase e) (erase i) (erase d) default
  | .derefAssign e i v _ => .derefAssign (erase e) (erase i) (erase v) default
  | .derefInvoke o m ns as _ => .derefInvoke (erase o) m ns (eraseL as) default
  | .slice e a b _ => .slice (erase e) (erase a) (erase b) default
  | .error e _ => .error (erase e) default
  | .for ids e b w _ => .for ids (erase e) (erase b) w default
  | .call f ns as _ => .call (erase f) ns (eraseL as) default
  | .ite cs es el _ => .ite (eraseL cs) (eraseL es) (erase el) default
  | .isIn e c _ => .isIn (erase e) (erase c) default
  | .lambda ps ds b _ => .lambda ps (eraseL ds) (erase b) default
  | .list is _ => .list (eraseL is) default
  | .compr k s v ke i1 l1 w1 i2 l2 w2 c _ =>
    .compr k s (erase v) (erase ke) i1 (erase l1) w1 i2 (erase l2) w2 (erase c) default
  | .map ks vs _ => .map (eraseL ks) (eraseL vs) default
  | .object ks vs _ => .object ks (eraseL vs) default
  | .require s n u sy _ => .require (erase s) n u sy default
  | .ret e _ => .ret (erase e) default
  | .set is _ => .set (eraseL is) default
  | .spread e _ => .spread (erase e) default
  | .while c b _ => .while (erase c) (erase b) default
def eraseL : List Node → List Node
  | [] => []
  | x :: xs => erase x :: eraseL xs
end

theorem eraseL_append (xs ys : List Node) : eraseL (xs ++ ys) = eraseL xs ++ eraseL ys := by
  induction xs with
  | nil => simp [eraseL]
  | cons x xs ih => simp [eraseL, ih]

theorem eraseL_length (xs : List Node) : (eraseL xs).length = xs.length := by
  induction xs with
  | nil => simp [eraseL]
  | cons x xs ih => simp [eraseL, ih]

theorem erase_funcCallAB (fn : String) (a b : Node) (p : Pos) :
    erase (funcCallAB fn a b p) = binNode fn (erase a) (erase b) := by
  simp [funcCallAB, funcCall2, binNode, erase, eraseL]

/-- tokens with `default` positions -/
def toTokens (ss : List Sp) : List Token := ss.map fun s => ⟨s.1, s.2, default⟩

theorem toTokens_sp (ss : List Sp) : (toTokens ss).map sp = ss := by
  induction ss with
  | nil => rfl
  | cons s ss ih => simp [toTokens, sp] at ih ⊢; exact ih

end Ckl.C02P
