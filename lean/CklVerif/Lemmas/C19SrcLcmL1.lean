import CklVerif.Lemmas.C19SrcGcd
import CklVerif.Lemmas.C19SrcReduce
import CklVerif.Lemmas.C19Int

/-! C19Src (L1) — math.ckl `lcm(a, b) = abs(a * b) / gcd(a, b)`: the parser's
    `div(a = abs(mul(a = a, b = b)), b = gcd(a, b))`; `abs` and `gcd` are library functions resolved through the environment,
    `mul` and `div` built-ins.  `div` on ints is the TRUNCATING division `truncDiv`; for a zero divisor it returns the value of
    `DIV_0_VALUE` when that name is defined (seen from the frame of the call) and raises `divide by zero` otherwise. -/
namespace Ckl.C19Src
open Ckl Ckl.C03 Ckl.Gen.LibSrc
variable (ld : Loader)

/-! ### the built-in `div` on ints -/

theorem pure_div_L1 (a b : RVal) (d pos) :
    callPure "div" [("a", a), ("b", b)] d pos = some (nativeDiv a b d pos) := by rfl

theorem nativeDiv_int_L1 (x y : Int) (d : Option RVal) (pos : Pos) (s : State) (hy : y ≠ 0) :
    nativeDiv (.int x) (.int y) d pos s = .ok (.int (truncDiv x y)) s := by
  simp [nativeDiv, EvalM.bind_apply, getS, RVal.isNull, hy]
  rfl

theorem nativeDiv_zero_none_L1 (x : Int) (pos : Pos) (s : State) :
    nativeDiv (.int x) (.int 0) none pos s = .err (.str "ERROR".toList) "divide by zero" pos [] s := by
  simp [nativeDiv, EvalM.bind_apply, getS, RVal.isNull]
  rfl

theorem nativeDiv_zero_some_L1 (x : Int) (v : RVal) (pos : Pos) (s : State) :
    nativeDiv (.int x) (.int 0) (some v) pos s = .ok v s := by
  simp [nativeDiv, EvalM.bind_apply, getS, RVal.isNull]
  rfl

/-- `|a * b| / gcd(a, b)` with the model's truncating division is the least common multiple -/
theorem truncDiv_lcm_L1 (a b : Int) :
    truncDiv (((a * b).natAbs : Nat) : Int) ((Int.gcd a b : Nat) : Int) = (Int.lcm a b : Int) := by
  have h1 : ¬ ((((a * b).natAbs : Nat) : Int) < 0) := by omega
  have h2 : ¬ (((Int.gcd a b : Nat) : Int) < 0) := by omega
  simp only [truncDiv, h1, h2, decide_false, bne_self_eq_false, Bool.false_eq_true, if_false, Int.natAbs_natCast]
  simp only [Int.lcm, Nat.lcm, Int.gcd, Int.natAbs_mul]

/-! ### `DIV_0_VALUE` -/

/-- `DIV_0_VALUE` is not defined, seen from the module frame `m`: not bound in `m`, and `m` has no parent or its parent is the base
    frame 0, which does not bind it either and has no parent -/
def NoDiv0_L1 (s : State) (m : EnvId) : Prop :=
  dictGet "DIV_0_VALUE" (s.frame m).vars = none ∧
  ((s.frame m).parent = none ∨
    ((s.frame m).parent = some 0 ∧ dictGet "DIV_0_VALUE" (s.frame 0).vars = none ∧ (s.frame 0).parent = none))

theorem NoDiv0_L1.ext {s s' : State} {m : EnvId} (h : NoDiv0_L1 s m) (hm : m < s.frames.size) (e : Ext s s') :
    NoDiv0_L1 s' m := by
  have h0 : 0 < s.frames.size := Nat.lt_of_le_of_lt (Nat.zero_le _) hm
  unfold NoDiv0_L1
  rw [e.frame m hm, e.frame 0 h0]; exact h

theorem lookupF_noDiv0_L1 {s : State} {m : EnvId} (h : NoDiv0_L1 s m) : ∀ n, s.lookupF n m "DIV_0_VALUE" = none := by
  intro n
  obtain ⟨h1, h2⟩ := h
  cases n with
  | zero => rfl
  | succ n =>
    rw [State.lookupF]; simp only [h1]
    rcases h2 with h2 | ⟨h2, h3, h4⟩
    · simp only [h2]
    · simp only [h2]
      cases n with
      | zero => rfl
      | succ n => rw [State.lookupF]; simp only [h3, h4]

/-- in a call frame under `m` that does not bind it, `DIV_0_VALUE` is undefined -/
theorem div0Value_none_L1 {s : State} {c m : EnvId} {vars} (hf : CallFrame s c m vars)
    (hv : dictGet "DIV_0_VALUE" vars = none) (h : NoDiv0_L1 s m) : div0Value s c = none := by
  have : s.lookup c "DIV_0_VALUE" = none := by
    unfold State.lookup
    rw [State.lookupF]; simp only [hf.vars, hv, hf.parent]
    exact lookupF_noDiv0_L1 h _
  simp [div0Value, this]

/-- … and when it resolves from `m` to `v`, its value is `v` -/
theorem div0Value_some_L1 {s : State} {c m : EnvId} {vars} {v : RVal} (hf : CallFrame s c m vars)
    (hv : dictGet "DIV_0_VALUE" vars = none) (h : Res s m "DIV_0_VALUE" v) : div0Value s c = some v := by
  simp [div0Value, lookup_global hf hv h]

/-! ### the body -/

def lcmNats : List String := gcdNats ++ ["mul", "div"]

theorem lcmNats_gcd {nats : List String} (hn : ∀ x ∈ lcmNats, x ∈ nats) : ∀ x ∈ gcdNats, x ∈ nats :=
  fun x hx => hn x (List.mem_append_left _ hx)

/-- position of a call node -/
def callPos_L1 : Node → Pos
  | .call _ _ _ p => p
  | _ => default

/-- the body of `lcm` on ints, up to the final division: the outcome is that of the built-in `div` (wrapped by `invoke`) on
    `|a * b|` and `gcd(a, b)` in a state `s'` extending `s` -/
theorem lcm_body_L1 {s : State} {M nats srcs c m} {a b : Int}
    (ctx : Ctx s M nats srcs c m [("a", .int a), ("b", .int b)]) (hn : ∀ x ∈ lcmNats, x ∈ nats)
    (hs : ∀ p ∈ gcdSrcs, p ∈ srcs) :
    ∃ s' j, Ext s s' ∧ Ev ld (gcdFuel b + 6) c (lamBody math_lcm) s
      (wrapCall (.native "div" j) (callPos_L1 (lamBody math_lcm))
        (nativeDiv (.int ((a * b).natAbs : Nat)) (.int (Int.gcd a b : Nat)) (div0Value s' c)
          (callPos_L1 (lamBody math_lcm)) s')) := by
  have hg : 31 ≤ gcdFuel b := by unfold gcdFuel; omega
  obtain ⟨jm, hmul⟩ := ctx.nat (x := "mul") (hn _ (by simp [lcmNats])) (by rfl)
  -- `abs(a * b)`
  obtain ⟨f1, m1, hl1, hm1, hsrc1⟩ := ctx.src (x := "abs") (src := math_abs) (hs _ (by simp [gcdSrcs])) (by rfl)
  obtain ⟨s1, e1, c1⟩ := abs_calls_int ld ctx.env (gcdNats_math (lcmNats_gcd hn)) (gcdSrcs_math hs) hm1 hsrc1 (a * b)
  have A : ∀ p1 p2 p3 p4 p5 p6, Ev ld (gcdFuel b + 2) c (.call (.ident "abs" p1) [none]
      [.call (.ident "mul" p2) [some "a", some "b"] [.ident "a" p3, .ident "b" p4] p5] p6) s
      (.ok (.int ((a * b).natAbs : Nat)) s1) := by
    intro p1 p2 p3 p4 p5 p6
    have Mu := Ev.natAB ld (k := 16) (p := p2) (pos := p5) hmul (by rfl) (by trivial) (by trivial)
      (Ev.ident ld (p := p3) (ctx.var (x := "a") (by rfl))) (Ev.ident ld (p := p4) (ctx.var (x := "b") (by rfl)))
      (pure_mul _ _ _ _) (nativeMul_int a b _ _)
    rw [wrapCall_ok] at Mu
    have E := Ev.callSrc1 ld (k := 20) (p := p1) hl1 hsrc1 rfl (by decide) (by trivial) Mu (c1 c p6)
    rw [wrapCall_ok] at E
    exact Ev.mono ld E (by omega)
  -- `gcd(a, b)`
  have ctx1 := ctx.ext e1
  obtain ⟨f2, m2, hl2, hm2, hsrc2⟩ := ctx1.src (x := "gcd") (src := math_gcd) (hs _ (by simp [gcdSrcs])) (by rfl)
  obtain ⟨s2, e2, c2⟩ := gcd_calls_int_gcd ld ctx1.env (lcmNats_gcd hn) hs hm2 hsrc2 a b
  have G : ∀ q1 q2 q3 q4, Ev ld (gcdFuel b + 2) c (.call (.ident "gcd" q1) [none, none] [.ident "a" q2, .ident "b" q3] q4) s1
      (.ok (.int (Int.gcd a b : Nat)) s2) := by
    intro q1 q2 q3 q4
    have E := Ev.callSrc2 ld (k := gcdFuel b - 2) (p := q1) hl2 hsrc2 rfl (by decide) (by decide) (by decide)
      (by trivial) (by trivial)
      (Ev.ident ld (p := q2) (ctx1.var (x := "a") (by rfl))) (Ev.ident ld (p := q3) (ctx1.var (x := "b") (by rfl)))
      (Calls.mono ld (c2 c q4) (by omega))
    rw [wrapCall_ok] at E
    exact Ev.mono ld E (by omega)
  -- the division
  have ctx2 := ctx1.ext e2
  obtain ⟨jd, hdiv⟩ := ctx.nat (x := "div") (hn _ (by simp [lcmNats])) (by rfl)
  refine ⟨s2, jd, e1.trans e2, ?_⟩
  unfold lamBody math_lcm
  simp only [callPos_L1]
  exact Ev.natAB ld (k := gcdFuel b + 2) hdiv (by rfl) (by trivial) (by trivial) (A _ _ _ _ _ _) (G _ _ _ _)
    (pure_div_L1 _ _ _ _) rfl

/-- `lcm` on ints that are not both zero -/
theorem lcm_body_int {s : State} {M nats srcs c m} {a b : Int}
    (ctx : Ctx s M nats srcs c m [("a", .int a), ("b", .int b)]) (hn : ∀ x ∈ lcmNats, x ∈ nats)
    (hs : ∀ p ∈ gcdSrcs, p ∈ srcs) (hg : Int.gcd a b ≠ 0) :
    ∃ s', Ext s s' ∧ Ev ld (gcdFuel b + 6) c (lamBody math_lcm) s (.ok (.int (Int.lcm a b : Nat)) s') := by
  obtain ⟨s', j, e, hev⟩ := lcm_body_L1 ld ctx hn hs
  refine ⟨s', e, Ev.congr ld hev ?_⟩
  rw [nativeDiv_int_L1 _ _ _ _ _ (by omega), truncDiv_lcm_L1]; rfl

/-- `lcm(0, 0)` when `DIV_0_VALUE` is not defined: the runtime error `divide by zero` raised by `div`, at the position of the
    division; `invoke` appends the call of `div` to the stack trace -/
theorem lcm_body_zero_err {s : State} {M nats srcs c m}
    (ctx : Ctx s M nats srcs c m [("a", .int 0), ("b", .int 0)]) (hn : ∀ x ∈ lcmNats, x ∈ nats)
    (hs : ∀ p ∈ gcdSrcs, p ∈ srcs) (hd : NoDiv0_L1 s m) :
    ∃ s', Ext s s' ∧ Ev ld (gcdFuel 0 + 6) c (lamBody math_lcm) s
      (.err (.str "ERROR".toList) "divide by zero" (callPos_L1 (lamBody math_lcm))
        [("div", callPos_L1 (lamBody math_lcm))] s') := by
  obtain ⟨s', j, e, hev⟩ := lcm_body_L1 ld ctx hn hs
  refine ⟨s', e, Ev.congr ld hev ?_⟩
  have hfr := (ctx.ext e).fr
  rw [div0Value_none_L1 hfr (by rfl) (hd.ext (ctx.env.lt m ctx.mem) e)]
  have h1 : ((((0 : Int) * 0).natAbs : Nat) : Int) = 0 := by decide
  have h2 : ((Int.gcd 0 0 : Nat) : Int) = 0 := by decide
  rw [h1, h2, nativeDiv_zero_none_L1]; rfl

/-- `lcm(0, 0)` when `DIV_0_VALUE` resolves to `v`: the value `v` -/
theorem lcm_body_zero_div0 {s : State} {M nats srcs c m} {v : RVal}
    (ctx : Ctx s M nats srcs c m [("a", .int 0), ("b", .int 0)]) (hn : ∀ x ∈ lcmNats, x ∈ nats)
    (hs : ∀ p ∈ gcdSrcs, p ∈ srcs) (hd : Res s m "DIV_0_VALUE" v) :
    ∃ s', Ext s s' ∧ Ev ld (gcdFuel 0 + 6) c (lamBody math_lcm) s (.ok v s') := by
  obtain ⟨s', j, e, hev⟩ := lcm_body_L1 ld ctx hn hs
  refine ⟨s', e, Ev.congr ld hev ?_⟩
  have hfr := (ctx.ext e).fr
  rw [div0Value_some_L1 hfr (by rfl) (hd.ext e)]
  have h1 : ((((0 : Int) * 0).natAbs : Nat) : Int) = 0 := by decide
  have h2 : ((Int.gcd 0 0 : Nat) : Int) = 0 := by decide
  rw [h1, h2, nativeDiv_zero_some_L1]; rfl

/-! ### `fn.execute` -/

theorem lcm_calls_int {s : State} {M nats srcs fn m} (h : LibEnv s M nats srcs) (hn : ∀ x ∈ lcmNats, x ∈ nats)
    (hs : ∀ p ∈ gcdSrcs, p ∈ srcs) (hm : M m) (hsrc : IsSrc s fn math_lcm m) (a b : Int) (hg : Int.gcd a b ≠ 0) :
    ∃ s', Ext s s' ∧ ∀ env pos, Calls ld (gcdFuel b + 7) fn [("a", .int a), ("b", .int b)] env pos s
      (.ok (.int (Int.lcm a b : Nat)) s') :=
  calls_of_body2 ld (src := math_lcm) (r := fun s' => .ok (.int (Int.lcm a b : Nat)) s') rfl rfl rfl (by omega) (by decide)
    h hm hsrc (.int a) (.int b) (fun _ ctx _ => lcm_body_int ld ctx hn hs hg)

theorem lcm_calls_zero_err {s : State} {M nats srcs fn m} (h : LibEnv s M nats srcs) (hn : ∀ x ∈ lcmNats, x ∈ nats)
    (hs : ∀ p ∈ gcdSrcs, p ∈ srcs) (hm : M m) (hsrc : IsSrc s fn math_lcm m) (hd : NoDiv0_L1 s m) :
    ∃ s', Ext s s' ∧ ∀ env pos, Calls ld (gcdFuel 0 + 7) fn [("a", .int 0), ("b", .int 0)] env pos s
      (.err (.str "ERROR".toList) "divide by zero" (callPos_L1 (lamBody math_lcm))
        [("div", callPos_L1 (lamBody math_lcm))] s') :=
  calls_of_body2 ld (src := math_lcm)
    (r := fun s' => .err (.str "ERROR".toList) "divide by zero" (callPos_L1 (lamBody math_lcm))
        [("div", callPos_L1 (lamBody math_lcm))] s') rfl rfl rfl (by omega) (by decide)
    h hm hsrc (.int 0) (.int 0) (fun _ ctx e0 => lcm_body_zero_err ld ctx hn hs (hd.ext (h.lt m hm) e0))

theorem lcm_calls_zero_div0 {s : State} {M nats srcs fn m} (h : LibEnv s M nats srcs) (hn : ∀ x ∈ lcmNats, x ∈ nats)
    (hs : ∀ p ∈ gcdSrcs, p ∈ srcs) (hm : M m) (hsrc : IsSrc s fn math_lcm m) {v : RVal}
    (hd : Res s m "DIV_0_VALUE" v) :
    ∃ s', Ext s s' ∧ ∀ env pos, Calls ld (gcdFuel 0 + 7) fn [("a", .int 0), ("b", .int 0)] env pos s
      (postCall (.ok v s')) :=
  calls_of_body2 ld (src := math_lcm) (r := fun s' => .ok v s') rfl rfl rfl (by omega) (by decide)
    h hm hsrc (.int 0) (.int 0) (fun _ ctx e0 => lcm_body_zero_div0 ld ctx hn hs (hd.ext e0))

end Ckl.C19Src
