/-
  C08 (decimals inside lists), scanner part: the text of a data value built from NULL, booleans,
  ints, strings, DECIMALS (finite binary64 values) and arbitrarily nested lists of such values
  scans to the expected token sequence `dataToksD v`.

  `decRepr m e` is never evaluated here: its shape comes from `C08D.decRepr_spec`.
-/
import CklVerif.Lemmas.C08DecMain
import CklVerif.Proofs.C08
namespace Ckl.C08DL
open Ckl Ckl.Lexer Ckl.C08 Ckl.C08D

mutual
  /-- the data values built from NULL, booleans, ints, strings, doubles and (nested) lists -/
  def IsDataD : Val → Prop
    | .null => True
    | .bool _ => True
    | .int _ => True
    | .str _ => True
    | .dec m e => IsDouble m e
    | .list xs => IsDataDL xs
    | _ => False
  def IsDataDL : List Val → Prop
    | [] => True
    | x :: xs => IsDataD x ∧ IsDataDL xs
end

/-- the tokens of a decimal: the text of `|m| / 2^e` as one `decimal` token, preceded by the
    operator token `-` for a negative one (`(decRepr m e).drop 1` is the text without its sign) -/
def decToks (m : Int) (e : Nat) : List TV :=
  if m < 0 then [(['-'], .operator), ((decRepr m e).drop 1, .decimal)]
  else [(decRepr m e, .decimal)]

mutual
  /-- the tokens (value, type) that the text of a data value should scan to -/
  def dataToksD : Val → List TV
    | .null => [(['N', 'U', 'L', 'L'], .identifier)]
    | .bool true => [(['T', 'R', 'U', 'E'], .boolean)]
    | .bool false => [(['F', 'A', 'L', 'S', 'E'], .boolean)]
    | .int n => intToks n
    | .dec m e => decToks m e
    | .str s => [(s, .string)]
    | .list xs => (['['], ip) :: (dataToksDL xs ++ [([']'], ip)])
    | _ => []
  /-- elements separated by `,` -/
  def dataToksDL : List Val → List TV
    | [] => []
    | x :: xs => dataToksD x ++ dataToksDT xs
  /-- elements each preceded by `,` -/
  def dataToksDT : List Val → List TV
    | [] => []
    | y :: ys => ([','], ip) :: (dataToksD y ++ dataToksDT ys)
end

/-- what `decRepr_spec` says about `decToks`: the unsigned text `a.b` is the value of the decimal token -/
theorem decToks_spec (m : Int) (e : Nat) (hd : IsDouble m e) :
    ∃ a b, decRepr m e = (if m < 0 then ['-'] else []) ++ (a ++ '.' :: b) ∧
      decToks m e = (if m < 0 then [(['-'], TokType.operator)] else []) ++ [(a ++ '.' :: b, .decimal)] ∧
      a ≠ [] ∧ (∀ c ∈ a, c ∈ digits) ∧ (∀ c ∈ b, c ∈ digits) ∧
      Parser.parseDecimal (a ++ '.' :: b) = some ((m.natAbs : Int), e) := by
  obtain ⟨a, b, hrepr, hane, ha, hb, hp⟩ := decRepr_spec m e hd
  refine ⟨a, b, hrepr, ?_, hane, ha, hb, hp⟩
  unfold decToks
  generalize decRepr m e = r at hrepr
  subst hrepr
  by_cases hm : m < 0
  · simp only [if_pos hm]; rfl
  · simp only [if_neg hm]; rfl

/-- **dec_tokens**: the text of a double followed by a number terminator `t` makes the scanner emit
    `decToks m e`; `t` is then read at a token boundary -/
theorem dec_tokens (name : String) (m : Int) (e : Nat) (hd : IsDouble m e)
    (σ : LexSt) (h0 : σ.core.state = .s0) (htok : σ.core.token = []) (t : Char) (ht : t ∈ numEnd)
    (tail : List Char) :
    ∃ σ', run name σ (decRepr m e ++ t :: tail) = run name σ' (t :: tail) ∧ σ'.core = σ.core ∧
      outTV σ' = outTV σ ++ decToks m e := by
  obtain ⟨a, b, hrepr, htoks, hane, ha, hb, _⟩ := decToks_spec m e hd
  rw [htoks]
  generalize decRepr m e = r at hrepr
  subst hrepr
  by_cases hm : m < 0
  · simp only [if_pos hm]
    cases ha' : a with
    | nil => exact absurd ha' hane
    | cons d ds =>
      have hdd : d ∈ digits := ha d (by rw [ha']; simp)
      have hd1 : d ≠ '=' := by intro h; subst h; revert hdd; decide
      have hd2 : d ≠ '>' := by intro h; subst h; revert hdd; decide
      obtain ⟨σ1, c1, hr1, hk1, ho1, hl1⟩ := run_minus (name := name) h0 htok hd1 hd2
        (ds ++ '.' :: (b ++ t :: tail))
      obtain ⟨σ2, c2, hr2, hk2, ho2, _⟩ := run_dec_gen (name := name) (σ := σ1)
        (by rw [hk1]; exact h0) (by rw [hk1]; exact htok) hane ha hb ht tail
      refine ⟨σ2, ?_, hk2.trans hk1, ?_⟩
      · rw [ha'] at hr2
        simp only [List.cons_append, List.append_assoc, List.nil_append] at hr1 hr2 ⊢
        rw [hr1, hr2]
      · rw [outTV_push ho2, outTV_push ho1, ← ha']
        simp [tv]
  · simp only [if_neg hm, List.nil_append]
    obtain ⟨σ', col, hr, hk, ho, _⟩ := run_dec_gen (name := name) h0 htok hane ha hb ht tail
    refine ⟨σ', ?_, hk, ?_⟩
    · simp only [List.cons_append, List.append_assoc] at hr ⊢
      exact hr
    · rw [outTV_push ho]; rfl

theorem dataToksD_scalar (v : Val)
    (hv : v = .null ∨ (∃ b, v = .bool b) ∨ (∃ n, v = .int n) ∨ (∃ s, v = .str s)) :
    dataToks v = dataToksD v := by
  rcases hv with rfl | ⟨b, rfl⟩ | ⟨n, rfl⟩ | ⟨s, rfl⟩
  · rfl
  · cases b <;> rfl
  · rfl
  · rfl

theorem scalar_tokensD (name : String) (v : Val)
    (hv : v = .null ∨ (∃ b, v = .bool b) ∨ (∃ n, v = .int n) ∨ (∃ s, v = .str s))
    (σ : LexSt) (h0 : σ.core.state = .s0) (htok : σ.core.token = []) (t : Char) (ht : t ∈ numEnd)
    (tail : List Char) :
    ∃ σ', run name σ (render v ++ t :: tail) = run name σ' (t :: tail) ∧ σ'.core = σ.core ∧
      outTV σ' = outTV σ ++ dataToksD v := by
  rw [← dataToksD_scalar v hv]
  exact scalar_tokens decRepr name v hv σ h0 htok t ht tail

mutual
  /-- **data_tokensD** (general form, any context): the text of a data value built from NULL,
      booleans, ints, strings, doubles and (nested) lists, followed by a number terminator `t`,
      makes the scanner emit exactly the tokens `dataToksD v`; `t` is then read at a token
      boundary. -/
  theorem data_tokensD (name : String) : ∀ (v : Val), IsDataD v → ∀ (σ : LexSt),
      σ.core.state = .s0 → σ.core.token = [] → ∀ (t : Char), t ∈ numEnd → ∀ (tail : List Char),
      ∃ σ', run name σ (render v ++ t :: tail) = run name σ' (t :: tail) ∧ σ'.core = σ.core ∧
        outTV σ' = outTV σ ++ dataToksD v
    | .null, _, σ, h0, htok, t, ht, tail =>
      scalar_tokensD name .null (Or.inl rfl) σ h0 htok t ht tail
    | .bool b, _, σ, h0, htok, t, ht, tail =>
      scalar_tokensD name (.bool b) (Or.inr (Or.inl ⟨b, rfl⟩)) σ h0 htok t ht tail
    | .int n, _, σ, h0, htok, t, ht, tail =>
      scalar_tokensD name (.int n) (Or.inr (Or.inr (Or.inl ⟨n, rfl⟩))) σ h0 htok t ht tail
    | .str s, _, σ, h0, htok, t, ht, tail =>
      scalar_tokensD name (.str s) (Or.inr (Or.inr (Or.inr ⟨s, rfl⟩))) σ h0 htok t ht tail
    | .dec m e, hv, σ, h0, htok, t, ht, tail => by
      have hd : IsDouble m e := by simpa only [IsDataD] using hv
      obtain ⟨σ', hr, hk, ho⟩ := dec_tokens name m e hd σ h0 htok t ht tail
      refine ⟨σ', ?_, hk, ?_⟩
      · simp only [render, renderWith]; exact hr
      · simp only [dataToksD]; exact ho
    | .list xs, hv, σ, h0, htok, t, ht, tail => by
      obtain ⟨σ1, hf1, hk1, ho1⟩ := feed_ip_tv (name := name) (c := '[') h0 (by decide)
      obtain ⟨σ2, hr2, hk2, ho2⟩ := dataL_tokensD name xs (by simpa only [IsDataD] using hv) σ1
        (by rw [hk1]; exact h0) (by rw [hk1]; exact htok) (t :: tail)
      obtain ⟨σ3, hf3, hk3, ho3⟩ := feed_ip_tv (name := name) (σ := σ2) (c := ']')
        (by rw [hk2, hk1]; exact h0) (by decide)
      refine ⟨σ3, ?_, by rw [hk3, hk2, hk1], ?_⟩
      · simp only [render, renderWith, List.cons_append, List.append_assoc, List.nil_append]
        rw [run_cons_ok _ hf1, hr2, run_cons_ok _ hf3]
      · rw [ho3, ho2, ho1]; simp only [dataToksD, List.append_assoc, List.cons_append, List.nil_append]
    | .pat _, hv, _, _, _, _, _, _ => by simp [IsDataD] at hv
    | .date _, hv, _, _, _, _, _, _ => by simp [IsDataD] at hv
    | .set _, hv, _, _, _, _, _, _ => by simp [IsDataD] at hv
    | .map _, hv, _, _, _, _, _, _ => by simp [IsDataD] at hv
  /-- the comma-separated elements of a list, up to the closing bracket -/
  theorem dataL_tokensD (name : String) : ∀ (xs : List Val), IsDataDL xs → ∀ (σ : LexSt),
      σ.core.state = .s0 → σ.core.token = [] → ∀ (tail : List Char),
      ∃ σ', run name σ (joinSep [',', ' '] (renderL decRepr xs) ++ ']' :: tail)
          = run name σ' (']' :: tail) ∧
        σ'.core = σ.core ∧ outTV σ' = outTV σ ++ dataToksDL xs
    | [], _, σ, _, _, tail => ⟨σ, by simp [renderL, joinSep], rfl, by simp [dataToksDL]⟩
    | x :: xs, hv, σ, h0, htok, tail => by
      obtain ⟨hx, hxs⟩ : IsDataD x ∧ IsDataDL xs := by simpa only [IsDataDL] using hv
      obtain ⟨t, tl, htl, ht⟩ := renderT_head decRepr xs tail
      obtain ⟨σ1, hr1, hk1, ho1⟩ := data_tokensD name x hx σ h0 htok t ht tl
      obtain ⟨σ2, hr2, hk2, ho2⟩ := dataT_tokensD name xs hxs σ1 (by rw [hk1]; exact h0)
        (by rw [hk1]; exact htok) tail
      refine ⟨σ2, ?_, by rw [hk2, hk1], ?_⟩
      · rw [joinSep_renderL_cons, List.append_assoc, htl]
        rw [show renderWith decRepr x = render x from rfl, hr1, ← htl, hr2]
      · rw [ho2, ho1]; simp only [dataToksDL, List.append_assoc]
  /-- the elements after the first, each preceded by `, ` -/
  theorem dataT_tokensD (name : String) : ∀ (ys : List Val), IsDataDL ys → ∀ (σ : LexSt),
      σ.core.state = .s0 → σ.core.token = [] → ∀ (tail : List Char),
      ∃ σ', run name σ (renderT decRepr ys ++ ']' :: tail) = run name σ' (']' :: tail) ∧
        σ'.core = σ.core ∧ outTV σ' = outTV σ ++ dataToksDT ys
    | [], _, σ, _, _, tail => ⟨σ, by simp [renderT], rfl, by simp [dataToksDT]⟩
    | y :: ys, hv, σ, h0, htok, tail => by
      obtain ⟨hy, hys⟩ : IsDataD y ∧ IsDataDL ys := by simpa only [IsDataDL] using hv
      obtain ⟨σ1, hf1, hk1, ho1⟩ := feed_ip_tv (name := name) (c := ',') h0 (by decide)
      obtain ⟨σ2, hf2, hk2, ho2⟩ := feed_blank_tv (name := name) (σ := σ1) (by rw [hk1]; exact h0)
      obtain ⟨t, tl, htl, ht⟩ := renderT_head decRepr ys tail
      obtain ⟨σ3, hr3, hk3, ho3⟩ := data_tokensD name y hy σ2 (by rw [hk2, hk1]; exact h0)
        (by rw [hk2, hk1]; exact htok) t ht tl
      obtain ⟨σ4, hr4, hk4, ho4⟩ := dataT_tokensD name ys hys σ3 (by rw [hk3, hk2, hk1]; exact h0)
        (by rw [hk3, hk2, hk1]; exact htok) tail
      refine ⟨σ4, ?_, by rw [hk4, hk3, hk2, hk1], ?_⟩
      · have e : renderT decRepr (y :: ys) ++ ']' :: tail
            = ',' :: ' ' :: (render y ++ (renderT decRepr ys ++ ']' :: tail)) := by
          simp only [renderT, List.flatMap_cons, render, List.cons_append, List.append_assoc]
        rw [e, run_cons_ok _ hf1, run_cons_ok _ hf2, htl, hr3, ← htl, hr4]
      · rw [ho4, ho3, ho2, ho1]
        simp only [dataToksDT, List.append_assoc, List.cons_append, List.nil_append]
end

/-- **list_tokens_roundtripD**: the text of a (nested) list of NULLs, booleans, ints, strings and
    doubles, alone or followed by whitespace, scans without error to `dataToksD v`. -/
theorem list_tokens_roundtripD (name : String) (v : Val) (hv : IsDataD v) (w : List Char)
    (hw : ∀ c ∈ w, c ∈ [' ', '\t', '\r', '\n']) :
    scanTV (render v ++ w) name = some (dataToksD v) := by
  obtain ⟨t, tl, htl, ht⟩ : ∃ t tl, w ++ [' '] = t :: tl ∧ t ∈ numEnd := by
    cases w with
    | nil => exact ⟨' ', [], rfl, by decide⟩
    | cons a w' => exact ⟨a, w' ++ [' '], rfl, whitespace_numEnd a (hw a (by simp))⟩
  obtain ⟨σ', hr, hk, ho⟩ := data_tokensD name v hv {} rfl rfl t ht tl
  rw [← htl] at hr
  unfold scanTV
  rw [scan_finish hw hr (by rw [hk])]
  have : outTV σ' = dataToksD v := by rw [ho]; rfl
  simp only [← this, outTV, List.map_map]
  rfl

end Ckl.C08DL
