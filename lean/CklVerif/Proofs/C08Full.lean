/-
  C08 (full) — data literals round-trip through print, scan, parse AND evaluation: NULL, booleans,
  ints, strings, and lists, SETS and MAPS of them, nested to any depth.

  `render v` is the model of `__repr__`, `Lexer.scan` the scanner, `Parser.parse` the parser
  (`parseScript = scan >=> parse`), `eval` the evaluator (heap-allocating), `reify` reads a heap
  value back as a `Val`, `rrender` is `str(value)`.

  Part 1: the data values `IsData'` (definition in `Lemmas/C08FullDefs.lean`): NULL, booleans,
          ints (numeral of at most 4300 digits), strings, lists, and sets / maps in canonical form
          (elements / keys strictly ascending w.r.t. `<`; no NULL key).  `mkSet` / `mkMap` of data
          values produce that form (`mkSet_isData'`, `mkMap_isData'`) and leave it unchanged
          (`mkSet_canon`, `mkMap_canon`); `<` is a strict total order on all data values.
  Part 2: `data_tokens'`: the scanner on `render v` yields exactly `tokensOf v` (`<<`, `>>`, `<<<`,
          `>>>`, `=>` and the blank rule of `delimited` included).
  Part 3: `roundtrip_parse`: `parseScript (render v)` is the literal AST of `v` (`NodeIs v n`).
  Part 4: `roundtrip_eval`: the literal AST evaluates to a heap value that reifies to exactly `v`.
  Part 5: `roundtrip_text`: print ∘ eval ∘ parse ∘ scan ∘ print = print; `render_injective`.
  Part 6: non-vacuity: three nested examples through the compiled pipeline and the theorems;
          the recorded exclusions (NULL key, int next to an equal decimal) shown as `#guard`s.

  NOT included (left out on purpose, see the report): decimals (`decRepr`'s shortest-digits
  property is not proved: the decimal round trip of `Proofs/C08.lean` keeps it as a hypothesis), patterns
  (`C08.roundtrip_pattern` covers the `/`-free ones as scalars), dates (no literal).
-/
import CklVerif.Lemmas.C08FullScan
import CklVerif.Lemmas.C08FullParse
import CklVerif.Lemmas.C08FullEval2
import CklVerif.Lemmas.C08FullOrder
namespace Ckl.C08F
open Ckl Ckl.Lexer Ckl.C08

/-! ## Examples used for non-vacuity -/

/-- `<<'a', <<1>> >>` (the set written `<< <<1>>, 'a' >>` in enumeration order) -/
def ex1 : Val := .set [.str ['a'], .set [.int 1]]
/-- `<<<'k' => [1, <<2>>], 'l' => <<<>>> >>>` -/
def ex2 : Val := .map [(.str ['k'], .list [.int 1, .set [.int 2]]), (.str ['l'], .map [])]
/-- `[<<>>, <<<>>>]` -/
def ex3 : Val := .list [.set [], .map []]
/-- a map with set / map / list / negative-int keys and NULL / boolean values -/
def ex4 : Val := .map [(.map [(.int 1, .int 2)], .str ['x']), (.set [], .list []),
  (.list [.set [.int (-2), .int 1]], .map [(.bool true, .null)])]

theorem ex1_data : IsData' decRepr ex1 := by simp [ex1, IsData', IsDataL']; decide
theorem ex2_data : IsData' decRepr ex2 := by simp [ex2, IsData', IsDataL', IsDataM']; decide
theorem ex3_data : IsData' decRepr ex3 := by simp [ex3, IsData', IsDataL', IsDataM']
theorem ex4_data : IsData' decRepr ex4 := by simp [ex4, IsData', IsDataL', IsDataM']; decide

/-- a state whose only frame binds `NULL` -/
def s0 : State := { frames := #[{ vars := [("NULL", .null)] }] }
theorem s0_null : s0.lookup 0 "NULL" = some .null := rfl

example : render ex1 = "<<'a', <<1>> >>".toList ∧
    render ex2 = "<<<'k' => [1, <<2>>], 'l' => <<<>>> >>>".toList ∧
    render ex3 = "[<<>>, <<<>>>]".toList ∧
    render ex4 = "<<< <<<1 => 2>>> => 'x', <<>> => [], [<<-2, 1>>] => <<<TRUE => NULL>>> >>>".toList := by
  refine ⟨?_, ?_, ?_, ?_⟩ <;> decide

variable (dr : DecRenderer)

/-! ## Part 2: the scanner -/

/-- **data_tokens'** (general form, any context): at a token boundary, the text of a data value
    followed by a number terminator `t` (not `>` directly after a text that ends with `>`) makes
    the scanner emit exactly the tokens `tokensOf v`; `t` is then read at a token boundary. -/
theorem data_tokens'_ctx (name : String) (v : Val) (hv : IsData' dr v) (σ : LexSt)
    (h0 : σ.core.state = .s0) (htok : σ.core.token = []) (t : Char) (ht : t ∈ numEnd)
    (hgt : (renderWith dr v).getLast? = some '>' → t ≠ '>') (tail : List Char) :
    ∃ σ', run name σ (renderWith dr v ++ t :: tail) = run name σ' (t :: tail) ∧ σ'.core = σ.core ∧
      outTV σ' = outTV σ ++ tokensOf v :=
  scans_val dr v hv name σ h0 htok t ht hgt tail

/-- **data_tokens'**: the text of a data value, alone or followed by whitespace, scans without
    error to exactly `tokensOf v`. -/
theorem data_tokens' (name : String) (v : Val) (hv : IsData' dr v) (w : List Char)
    (hw : ∀ c ∈ w, c ∈ [' ', '\t', '\r', '\n']) :
    scanTV (renderWith dr v ++ w) name = some (tokensOf v) := by
  obtain ⟨t, tl, htl, ht, htg⟩ : ∃ t tl, w ++ [' '] = t :: tl ∧ t ∈ numEnd ∧ t ≠ '>' := by
    cases w with
    | nil => exact ⟨' ', [], rfl, by decide, by decide⟩
    | cons a w' =>
      refine ⟨a, w' ++ [' '], rfl, whitespace_numEnd a (hw a (by simp)), ?_⟩
      have := hw a (by simp)
      intro e; subst e; revert this; decide
  obtain ⟨σ', hr, hk, ho⟩ := data_tokens'_ctx dr name v hv {} rfl rfl t ht (fun _ => htg) tl
  rw [← htl] at hr
  unfold scanTV
  rw [scan_finish hw hr (by rw [hk])]
  have : outTV σ' = tokensOf v := by rw [ho]; rfl
  simp only [← this, outTV, List.map_map]
  rfl

/-! ## Part 3: scanner and parser -/

/-- **roundtrip_parse**: printing a data value and parsing the text (alone or followed by
    whitespace) succeeds and yields the literal AST of the value, positions aside. -/
theorem roundtrip_parse (file : String) (v : Val) (hv : IsData' dr v) (w : List Char)
    (hw : ∀ c ∈ w, c ∈ [' ', '\t', '\r', '\n']) :
    ∃ n, parseScript (renderWith dr v ++ w) file = .ok n ∧ NodeIs v n := by
  have hs := data_tokens' dr file v hv w hw
  unfold scanTV at hs
  cases hsc : scan (renderWith dr v ++ w) file with
  | error e => rw [hsc] at hs; cases hs
  | ok l =>
    rw [hsc] at hs
    simp only [Option.some.injEq] at hs
    obtain ⟨n, hn, hnn⟩ := lit_val dr v hv l hs
    refine ⟨n, ?_, hnn⟩
    rw [parseScript_eq, hsc]
    exact hn.parse _ file

/-- **roundtrip_parse_nodeOf**: … i.e. `nodeOf v` once the source positions are reset -/
theorem roundtrip_parse_nodeOf (file : String) (v : Val) (hv : IsData' dr v) (w : List Char)
    (hw : ∀ c ∈ w, c ∈ [' ', '\t', '\r', '\n']) :
    ∃ n, parseScript (renderWith dr v ++ w) file = .ok n ∧ stripPos n = nodeOf v := by
  obtain ⟨n, hp, hn⟩ := roundtrip_parse dr file v hv w hw
  exact ⟨n, hp, nodeIs_strip dr v hv n hn⟩

/-! ## Part 4: evaluation -/

/-- **roundtrip_eval**: for every data value `v` and every literal AST `n` of `v` (`nodeOf v`, or
    the AST the parser builds from the text of `v`), in any state and environment where the name
    `NULL` denotes null and with at least `need v` units of fuel, the evaluation of `n` succeeds;
    it only appends cells to the heap (`HeapExt`); the result `r` reifies to EXACTLY `v`
    (so it is `==` to `v`, has the same type name — as a data value and for `type(…)` of the
    runtime value — and prints as the same text, both through `render ∘ reify` and through
    `str(…)` = `rrender`). -/
theorem roundtrip_eval (ld : Loader) (v : Val) (hv : IsData' decRepr v) (n : Node) (hn : NodeIs v n)
    (fuel : Nat) (hf : need v ≤ fuel) (env : EnvId) (s : State)
    (hnull : s.lookup env "NULL" = some .null) :
    ∃ r s', eval ld fuel env n s = .ok r s' ∧ HeapExt s s' ∧
      ∃ v', reify s' r = some v' ∧ v' = v ∧ veq v' v = true ∧ v'.typeName = v.typeName ∧
        typeName s' r = v.typeName ∧ render v' = render v ∧ rrender s' r = some (render v) := by
  obtain ⟨r, s', he, hx, hr⟩ := eval_val ld v hv n hn fuel hf env s hnull
  refine ⟨r, s', he, hx, v, rep_reify v hv hr _ (Nat.le_succ _), rfl, veq_refl' v, rfl,
    rep_typeName hv hr, rfl, rep_rrender v hv hr (Nat.le_refl _) _ (Nat.lt_succ_self _)⟩

/-- the same for the literal AST with default positions -/
theorem roundtrip_eval_nodeOf (ld : Loader) (v : Val) (hv : IsData' decRepr v)
    (fuel : Nat) (hf : need v ≤ fuel) (env : EnvId) (s : State)
    (hnull : s.lookup env "NULL" = some .null) :
    ∃ r s', eval ld fuel env (nodeOf v) s = .ok r s' ∧ HeapExt s s' ∧ reify s' r = some v := by
  obtain ⟨r, s', he, hx, v', h1, h2, _⟩ :=
    roundtrip_eval ld v hv (nodeOf v) (nodeIs_nodeOf decRepr v hv) fuel hf env s hnull
  exact ⟨r, s', he, hx, by rw [h1, h2]⟩

/-- the hypothesis on `NULL` is needed: where `NULL` is not defined the literal of NULL fails -/
example : ∃ msg p tr s', eval {} 5 0 (nodeOf .null) { frames := #[{}] }
    = .err (.str ['E','R','R','O','R']) msg p tr s' := by
  have h : ({ frames := #[{}] } : State).lookup 0 "NULL" = none := rfl
  simp [nodeOf, eval, bind, EvalM.bind', getS, h, throwE, throwV]

/-! ## Part 5: the composition -/

/-- scan, parse, evaluate (state `s`, environment `env`, `fuel`), and print the result with
    `str(…)`; `none` if any stage fails -/
def pipeline (ld : Loader) (fuel : Nat) (env : EnvId) (s : State) (src : List Char) : Option (List Char) :=
  match parseScript src "-" with
  | .ok n =>
    match eval ld fuel env n s with
    | .ok r s' => rrender s' r
    | _ => none
  | .error _ => none

/-- **roundtrip_text**: printing a data value, then scanning, parsing and evaluating the text and
    printing the result gives the same text. -/
theorem roundtrip_text (ld : Loader) (v : Val) (hv : IsData' decRepr v) (w : List Char)
    (hw : ∀ c ∈ w, c ∈ [' ', '\t', '\r', '\n']) (fuel : Nat) (hf : need v ≤ fuel) (env : EnvId)
    (s : State) (hnull : s.lookup env "NULL" = some .null) :
    pipeline ld fuel env s (render v ++ w) = some (render v) := by
  obtain ⟨n, hp, hn⟩ := roundtrip_parse decRepr "-" v hv w hw
  obtain ⟨r, s', he, _, v', _, _, _, _, _, _, hrr⟩ := roundtrip_eval ld v hv n hn fuel hf env s hnull
  unfold pipeline
  rw [show render v = renderWith decRepr v from rfl, hp]
  simp only [he]
  exact hrr

/-- … and the value obtained is the original one -/
theorem roundtrip_value (ld : Loader) (v : Val) (hv : IsData' decRepr v) (w : List Char)
    (hw : ∀ c ∈ w, c ∈ [' ', '\t', '\r', '\n']) (fuel : Nat) (hf : need v ≤ fuel) (env : EnvId)
    (s : State) (hnull : s.lookup env "NULL" = some .null) :
    ∃ n r s', parseScript (render v ++ w) "-" = .ok n ∧ eval ld fuel env n s = .ok r s' ∧
      reify s' r = some v := by
  obtain ⟨n, hp, hn⟩ := roundtrip_parse decRepr "-" v hv w hw
  obtain ⟨r, s', he, _, v', h1, h2, _⟩ := roundtrip_eval ld v hv n hn fuel hf env s hnull
  exact ⟨n, r, s', hp, he, by rw [h1, h2]⟩

/-- **render_injective**: different data values have different texts -/
theorem render_injective (v1 v2 : Val) (h1 : IsData' decRepr v1) (h2 : IsData' decRepr v2)
    (h : render v1 = render v2) : v1 = v2 := by
  have s0 : ({ frames := #[{ vars := [("NULL", .null)] }] } : State).lookup 0 "NULL" = some .null := rfl
  obtain ⟨n1, r1, s1, hp1, he1, hr1⟩ := roundtrip_value {} v1 h1 [] (by simp)
    (max (need v1) (need v2)) (Nat.le_max_left _ _) 0 _ s0
  obtain ⟨n2, r2, s2, hp2, he2, hr2⟩ := roundtrip_value {} v2 h2 [] (by simp)
    (max (need v1) (need v2)) (Nat.le_max_right _ _) 0 _ s0
  rw [h, hp2] at hp1
  cases hp1
  rw [he2] at he1
  cases he1
  rw [hr2] at hr1
  exact (Option.some.inj hr1).symm

/-! ## Part 1: canonical form -/

/-- `RenderInj` for the real renderer -/
theorem renderInj : RenderInj decRepr := render_injective

/-- **lt_strictTotal**: `<` is a strict total order on the data values of all kinds -/
theorem lt_strictTotal : StrictTotalOn (IsData' decRepr) vlt := vlt_strictTotalOn decRepr renderInj

/-- **mkSet_isData'**: the set built from any list of data values (any hash order, duplicates
    allowed) is a data value, i.e. in the canonical form -/
theorem mkSet_isData' {xs : List Val} (hx : IsDataL' decRepr xs) : IsData' decRepr (mkSet decRepr xs) :=
  mkSet_isData decRepr renderInj hx

/-- **mkMap_isData'**: the map built from any list of entries with data keys (none NULL) and data
    values (any insertion order, repeated keys allowed) is a data value -/
theorem mkMap_isData' {kvs : List (Val × Val)}
    (hx : ∀ e ∈ kvs, e.1 ≠ .null ∧ IsData' decRepr e.1 ∧ IsData' decRepr e.2) :
    IsData' decRepr (mkMap decRepr kvs) :=
  mkMap_isData decRepr renderInj hx

/-- **mkSet_fix / mkMap_fix**: a canonical element / entry list is a fixed point -/
theorem mkSet_fix {xs : List Val} (h : IsData' decRepr (.set xs)) : mkSet decRepr xs = .set xs :=
  mkSet_canon decRepr h
theorem mkMap_fix {kvs : List (Val × Val)} (h : IsData' decRepr (.map kvs)) :
    mkMap decRepr kvs = .map kvs :=
  mkMap_canon decRepr h

/-- non-vacuity: `<< <<1>>, 'a', 'a' >>` in source order, with a duplicate -/
example : IsDataL' decRepr [.set [.int 1], .str ['a'], .str ['a']] ∧
    mkSet decRepr [.set [.int 1], .str ['a'], .str ['a']] = ex1 :=
  ⟨by simp [IsDataL', IsData']; decide, by rfl⟩

example : (∀ e ∈ [(Val.str ['l'], Val.map []), (.str ['k'], .null),
      (.str ['k'], .list [.int 1, .set [.int 2]])],
      e.1 ≠ .null ∧ IsData' decRepr e.1 ∧ IsData' decRepr e.2) ∧
    mkMap decRepr [(.str ['l'], .map []), (.str ['k'], .null),
      (.str ['k'], .list [.int 1, .set [.int 2]])] = ex2 := by
  refine ⟨?_, by rfl⟩
  intro e he
  simp only [List.mem_cons, List.not_mem_nil, or_false] at he
  rcases he with rfl | rfl | rfl
  all_goals simp [IsData', IsDataL', IsDataM']
  all_goals decide

example : IsData' decRepr (.set [.str ['a'], .set [.int 1]]) := ex1_data

/-! ## Part 6: non-vacuity through the whole pipeline -/

-- the three texts of the task, as written, through scanner, parser, evaluator and printer
#guard pipeline {} 100 0 s0 "<< <<1>>, 'a' >>".toList == some "<<'a', <<1>> >>".toList
#guard pipeline {} 100 0 s0 "<<<'k' => [1, <<2>>], 'l' => <<<>>>>>>".toList
    == some "<<<'k' => [1, <<2>>], 'l' => <<<>>> >>>".toList
#guard pipeline {} 100 0 s0 "[<<>>, <<<>>>]".toList == some "[<<>>, <<<>>>]".toList
-- … and the printed texts again (fixed points)
#guard pipeline {} 100 0 s0 (render ex1) == some (render ex1)
#guard pipeline {} 100 0 s0 (render ex2) == some (render ex2)
#guard pipeline {} 100 0 s0 (render ex3) == some (render ex3)
#guard pipeline {} 100 0 s0 (render ex4) == some (render ex4)
#guard scanTV (render ex1) "-" == some (tokensOf ex1)
#guard scanTV (render ex2) "-" == some (tokensOf ex2)
#guard scanTV (render ex4) "-" == some (tokensOf ex4)
-- the recorded exclusions: a NULL key comes back as the string 'NULL'; an int next to an equal
-- decimal collapses; both are outside `IsData'`
#guard pipeline {} 100 0 s0 (render (.map [(.null, .int 1)])) == some "<<<'NULL' => 1>>>".toList
#guard pipeline {} 100 0 s0 "<<1, 1.0>>".toList == some "<<1>>".toList

/-- instances of the theorems -/
example : ∃ σ', run "f" {} (render ex1 ++ ',' :: ['x']) = run "f" σ' (',' :: ['x']) ∧
    σ'.core = ({} : LexSt).core ∧ outTV σ' = outTV {} ++ tokensOf ex1 :=
  data_tokens'_ctx decRepr "f" ex1 ex1_data {} rfl rfl ',' (by decide) (fun _ => by decide) ['x']

example : ∃ n, parseScript (render ex4 ++ [' ']) "f" = .ok n ∧ stripPos n = nodeOf ex4 :=
  roundtrip_parse_nodeOf decRepr "f" ex4 ex4_data [' '] (by decide)

example : ∃ r s', eval {} 100 0 (nodeOf ex2) s0 = .ok r s' ∧ HeapExt s0 s' ∧
      ∃ v', reify s' r = some v' ∧ v' = ex2 ∧ veq v' ex2 = true ∧ v'.typeName = ex2.typeName ∧
        typeName s' r = ex2.typeName ∧ render v' = render ex2 ∧ rrender s' r = some (render ex2) :=
  roundtrip_eval {} ex2 ex2_data (nodeOf ex2) (nodeIs_nodeOf decRepr ex2 ex2_data) 100 (by decide) 0 s0
    s0_null

example : mkSet decRepr [.str ['a'], .set [.int 1]] = ex1 := mkSet_fix ex1_data
example : mkMap decRepr [(.str ['k'], .list [.int 1, .set [.int 2]]), (.str ['l'], .map [])] = ex2 :=
  mkMap_fix ex2_data

example : scanTV (render ex2 ++ [' ', '\n']) "f" = some (tokensOf ex2) :=
  data_tokens' decRepr "f" ex2 ex2_data [' ', '\n'] (by decide)

example : ∃ n, parseScript (render ex1) "f" = .ok n ∧ NodeIs ex1 n := by
  have := roundtrip_parse decRepr "f" ex1 ex1_data [] (by simp)
  simpa [render] using this

example : ∃ r s', eval {} 100 0 (nodeOf ex4) s0 = .ok r s' ∧ HeapExt s0 s' ∧ reify s' r = some ex4 :=
  roundtrip_eval_nodeOf {} ex4 ex4_data 100 (by decide) 0 s0 s0_null

example : pipeline {} 100 0 s0 (render ex2 ++ ['\n']) = some (render ex2) :=
  roundtrip_text {} ex2 ex2_data ['\n'] (by decide) 100 (by decide) 0 s0 s0_null

example : ∃ n r s', parseScript (render ex3 ++ []) "-" = .ok n ∧ eval {} 7 0 n s0 = .ok r s' ∧
    reify s' r = some ex3 :=
  roundtrip_value {} ex3 ex3_data [] (by simp) 7 (by decide) 0 s0 s0_null

example : ex1 ≠ ex3 → render ex1 ≠ render ex3 :=
  fun h e => h (render_injective ex1 ex3 ex1_data ex3_data e)

end Ckl.C08F
