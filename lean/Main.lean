/-
  Line-protocol driver: one request per line on stdin, one response per line on
  stdout.  Imports only the executable model (no Mathlib), so it links as an
  executable.
-/
import CklVerif.Driver.Basic
import CklVerif.Driver.SeqDate
import CklVerif.Driver.EvalCmd
import CklVerif.Driver.ParserCmd
import CklVerif.Driver.LexerCmd
import CklVerif.Driver.FrontCmd
import CklVerif.Driver.StrCmd
import CklVerif.Driver.LibCmd
open Ckl

def handlers : List (Sx → Option Sx) := [handleValue, handleSeqDate, handleEval, handleParser, handleLexer, handleFront, handleStr, handleLib]

def dispatch (req : Sx) : Sx :=
  match handlers.findSome? (fun h => h req) with
  | some r => r
  | none => .list [.atom "bad-request"]

partial def loop (h : IO.FS.Stream) (out : IO.FS.Stream) : IO Unit := do
  let line ← h.getLine
  if line.isEmpty then return ()
  let resp := match Sx.parse line with
    | some req => dispatch req
    | none => .list [.atom "parse-error"]
  out.putStrLn (toString resp)
  loop h out

def main : IO Unit := do
  let stdin ← IO.getStdin
  let stdout ← IO.getStdout
  loop stdin stdout
  stdout.flush
