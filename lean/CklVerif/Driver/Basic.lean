/- driver handlers for the value-level commands -/
import CklVerif.Driver.Codec
namespace Ckl
open Sx

def handleValue : Sx → Option Sx
  | .list [.atom "render", v] => do
      let v ← decodeVal v; some (okSx (encStr (render v)))
  | .list [.atom "eq", a, b] => do
      let a ← decodeVal a; let b ← decodeVal b; some (okSx (encBool (veq a b)))
  | .list [.atom "lt", a, b] => do
      let a ← decodeVal a; let b ← decodeVal b; some (okSx (encBool (vlt a b)))
  | .list [.atom "canon", v] => do
      let v ← decodeVal v; some (okSx (encodeVal v))
  | .list [.atom "decrepr", m, e] => do
      let m ← atomInt? m; let e ← atomNat? e; some (okSx (encStr (decRepr m e)))
  | _ => none

end Ckl
