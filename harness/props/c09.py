"""C09 Secure mode denies file, process and script-loading access to every program."""
import os
import shutil
import sys
import tempfile
import warnings

from harness import core
from harness.props import common

warnings.filterwarnings("ignore", category=FutureWarning)

WATCH_PREFIXES = ("open", "os.listdir", "os.scandir", "os.mkdir", "os.rmdir", "os.remove", "os.rename", "os.link", "os.symlink",
                  "os.truncate", "os.chmod", "os.chown", "os.utime", "shutil.", "subprocess.Popen", "os.system", "os.exec", "os.posix_spawn",
                  "os.spawn", "os.startfile", "os.fork", "os.forkpty", "pty.spawn", "os.kill", "socket.", "os.putenv", "os.chdir", "glob.glob",
                  "pathlib.Path", "tempfile.", "webbrowser.open", "ctypes.dlopen", "exec", "compile")

_rec = {"on": False, "events": []}


def _hook(event, args):
    if _rec["on"] and event.startswith(WATCH_PREFIXES):
        try:
            _rec["events"].append((event, tuple(repr(a)[:200] for a in args)))
        except Exception:  # noqa
            _rec["events"].append((event, ("<unrepr>",)))


_installed = []


def install_hook():
    if not _installed:
        sys.addaudithook(_hook)
        _installed.append(True)


class Recording:
    def __enter__(self):
        _rec["events"] = []
        _rec["on"] = True
        return self

    def __exit__(self, *a):
        _rec["on"] = False
        self.events = list(_rec["events"])


def allowed_event(ev, home):
    """the only file access a secure program may cause: the interpreter reading module sources"""
    event, args = ev
    if event == "open" and args:
        path = args[0].strip("'\"")
        mode = args[1] if len(args) > 1 else "'r'"
        if "w" in mode or "a" in mode or "+" in mode or "x" in mode:
            return False
        # the host runtime lazily loading its own library code (e.g. _strptime on the first strptime call)
        if path.endswith((".py", ".pyc", ".so")) and path.startswith((sys.base_prefix, sys.prefix)):
            return True
        src_modules = os.path.join(core.REPO, "src", "ckl", "modules")
        if path.startswith(src_modules) and path.endswith(".ckl"):
            return True
        if path.startswith(os.path.join(home, ".ckl", "modules")) and path.endswith(".ckl"):
            return True
        return False
    if event in ("compile", "exec"):
        return True        # CPython internals (re, codecs) compile code objects; no OS access by itself
    return False


def walk_values(it):
    """every value reachable from the interpreter's environments, module frames, objects and closures"""
    from ckl import values as V
    import ckl.functions as F
    seen = set()
    out = []
    stack = [it.base_environment, it.environment] + list(it.base_environment.modules.values())
    while stack:
        x = stack.pop()
        if id(x) in seen:
            continue
        seen.add(id(x))
        if isinstance(x, F.Environment):
            stack.extend(x.map.values())
            if x.parent is not None:
                stack.append(x.parent)
            if hasattr(x, "modules"):
                stack.extend(x.modules.values())
        elif isinstance(x, V.ValueFunc):
            out.append(x)
            if isinstance(x, F.FuncLambda):
                stack.append(x.lexicalEnv)
            for attr in ("interpreter",):
                if hasattr(x, attr):
                    out.append(("holds-interpreter", x))
        elif isinstance(x, V.ValueList):
            stack.extend(x.value)
        elif isinstance(x, V.ValueSet):
            stack.extend(x.value)
        elif isinstance(x, (V.ValueMap,)):
            stack.extend(x.value.keys())
            stack.extend(x.value.values())
        elif isinstance(x, V.ValueObject):
            stack.extend(x.value.values())
    return out


BUNDLED_MODULES = ["Bitwise", "Core", "Date", "IO", "List", "Math", "OS", "Predicate", "Random", "Set", "String", "Stat", "Sys", "Type"]


def run(ctx):
    from ckl.interpreter import Interpreter
    from ckl.values import StringInput, StringOutput
    from ckl.errors import CklRuntimeError, CklSyntaxError
    from harness.extract import natives as ext
    install_hook()
    tab = ext.extract()
    names = tab["names"]
    effectful = {n for n, i in tab["natives"].items() if i["effects"] or not i["secure"]}
    ctx.rule = ("bind_native(n) and bind_native(n, alias) for every name the binder knows (and unknown names); every symbol of every bundled "
                "module and of the base environment invoked with path-like and command-like arguments inside a canary directory; every "
                "syntactic way of defining or assigning the secure-mode flag; reachability walk over all environments, module frames, objects "
                "and closures for built-ins with secure == False; in the legacy and the non-legacy base environment, under sys.addaudithook; "
                "non-trivial = a name whose built-in has OS effects or a flag-manipulating program")
    tmp = tempfile.mkdtemp(prefix="c09")
    home = os.path.join(tmp, "home")
    os.makedirs(os.path.join(home, ".ckl", "modules"))
    canary_dir = os.path.join(tmp, "canary")
    os.makedirs(canary_dir)
    canary = os.path.join(canary_dir, "secret.txt")
    open(canary, "w").write("top secret")
    script = os.path.join(canary_dir, "script.ckl")
    open(script, "w").write("def pwned = 1;")
    open(os.path.join(home, ".ckl", "modules", "Flagmod.ckl"), "w").write(
        "def checkerlang_secure_mode = FALSE; bind_native('file_exists'); bind_native('execute', 'ex2'); def probe() 1;")
    old_home, old_cwd = os.environ.get("HOME"), os.getcwd()
    os.environ["HOME"] = home
    os.chdir(canary_dir)

    # a secure interpreter is secure whatever ran in the process before it: NON-secure interpreters (legacy and not) that required every
    # bundled module and bound file / process built-ins are created first and stay alive while the secure ones run
    insecure = []
    for legacy in (True, False):
        it0 = Interpreter(False, legacy)
        it0.setStandardOutput(StringOutput())
        it0.setStandardInput(StringInput("x\n"))
        for m in BUNDLED_MODULES:
            try:
                it0.interpret(f"require {m}", "insecure")
            except Exception:  # noqa
                pass
        try:
            it0.interpret("bind_native('file_exists'); bind_native('list_dir'); bind_native('file_input', 'fin'); def leak = file_exists", "insecure")
        except Exception:  # noqa
            pass
        insecure.append(it0)

    def fresh(legacy):
        it = Interpreter(True, legacy)
        it.setStandardOutput(StringOutput())
        it.setStandardInput(StringInput("x\n"))
        return it

    def attempt(it, src, what, rp, expect_undefined=None, env=None):
        """run src in the secure interpreter under the audit hook; any non-allowed event is a violation"""
        with Recording() as rec:
            try:
                with core.time_limit(5):
                    if env is None:
                        it.interpret(src, "c09")
                    else:
                        it.interpret(src, "c09", env)
                outcome = "value"
            except CklRuntimeError as e:
                outcome = "rt"
            except CklSyntaxError:
                outcome = "syn"
            except core.Timeout:
                outcome = "timeout"
            except Exception as e:  # noqa
                outcome = "host:" + type(e).__name__
        bad = [ev for ev in rec.events if not allowed_event(ev, home)]
        ctx.evaluations += 1
        if bad:
            ctx.violation("oracle", f"{what}: the secure interpreter caused {bad[:3]} while running `{src}`", dict(rp, src=src, events=[list(b) for b in bad[:5]]))
        return outcome

    try:
        for legacy in (False, True):
            it = fresh(legacy)
            base_syms = set(it.base_environment.getSymbols())
            # (1) nothing effectful is defined to begin with
            for n in effectful | {"run"}:
                if n in base_syms and it.base_environment.get(n).isFunc():
                    ctx.violation("oracle", f"`{n}` is defined in a secure {'legacy ' if legacy else ''}interpreter", {"op": "defined", "name": n, "legacy": legacy})
            # (2) bind_native(name) / bind_native(name, alias) for every known name, and a few unknown ones
            for n in names + ["run", "nosuch", "FuncExecute", "", "os.system", "EXECUTE"]:
                for alias in (None, "alias_" + (n or "x")):
                    it2 = fresh(legacy)
                    src = f"bind_native('{n}')" if alias is None else f"bind_native('{n}', '{alias}')"
                    ctx.nontrivial.add(hash((legacy, src)))
                    attempt(it2, src, "bind_native", {"op": "bind", "name": n, "alias": alias, "legacy": legacy})
                    env = it2.environment
                    for bound in ([n] if alias is None else [n, alias]):
                        defined = bound in env.map
                        if n in effectful and defined:
                            ctx.violation("oracle", f"`{src}` bound the effectful built-in under `{bound}` in a secure interpreter",
                                          {"op": "bind", "name": n, "alias": alias, "legacy": legacy})
                    # try to use whatever got bound on the canary (must not touch the file system)
                    for bound in ([n] if alias is None else [n, alias]):
                        if bound in env.map and n in names:
                            for args in (f"'{canary}'", f"'{canary}', '{canary}.copy'", f"'{script}'", "'echo pwned'", f"['{canary}']"):
                                attempt(it2, f"{bound}({args})", f"calling `{bound}` bound by {src}", {"op": "use-bound", "name": n, "legacy": legacy})
            # (3) every symbol of the base environment and of every bundled module with path-like / command-like arguments
            it3 = fresh(legacy)
            targets = [(s, s) for s in sorted(base_syms) if it3.base_environment.get(s).isFunc()]
            for m in ["Bitwise", "Core", "Date", "IO", "List", "Math", "OS", "Predicate", "Random", "Set", "String", "Stat", "Sys", "Type"]:
                attempt(it3, f"require {m}", "require of a bundled module", {"op": "require", "module": m, "legacy": legacy})
                obj = it3.environment.map.get(m)
                if obj is not None and hasattr(obj, "value"):
                    for member, v in obj.value.items():
                        if v.isFunc():
                            targets.append((f"{m}->{member}", f"{m}->{member}"))
                        if getattr(v, "secure", True) is False:
                            ctx.violation("oracle", f"module {m} exports the effectful built-in `{member}` in a secure interpreter",
                                          {"op": "module-export", "module": m, "member": member, "legacy": legacy})
            for label, fexpr in targets:
                if label in ("exit", "sleep"):
                    continue
                for args in (f"'{canary}'", f"'{canary}', '{canary}.copy'", f"'{script}'", "'echo pwned > pwned.txt'", f"'{canary_dir}'",
                             f"['ls', '{canary_dir}']", f"'{canary}', 'utf8'"):
                    ctx.nontrivial.add(hash((legacy, label, args)))
                    attempt(it3, f"{fexpr}({args})", f"`{label}`", {"op": "call", "fn": label, "legacy": legacy})
            # (4) every way of defining / assigning the flag, then trying to bind and use an effectful built-in
            flag_progs = [
                "checkerlang_secure_mode = FALSE", "def checkerlang_secure_mode = FALSE", "[checkerlang_secure_mode] = [FALSE]",
                "def [checkerlang_secure_mode] = [FALSE]", "for checkerlang_secure_mode in [FALSE] do bind_native('file_exists') end",
                "(fn(checkerlang_secure_mode) bind_native('file_exists'))(FALSE)", "checkerlang_secure_mode += 1",
                "eval('checkerlang_secure_mode = FALSE')", "eval('def checkerlang_secure_mode = FALSE')",
                "def f() do def checkerlang_secure_mode = FALSE; bind_native('file_exists'); end; f()",
                "bind_native('identity', 'checkerlang_secure_mode')", "bind_native('is_null', 'checkerlang_secure_mode'); bind_native('file_exists')",
                "def o = <*checkerlang_secure_mode = FALSE*>; o->checkerlang_secure_mode", "<<<'checkerlang_secure_mode' => FALSE>>>",
                "[checkerlang_secure_mode for checkerlang_secure_mode in [FALSE]]", "require Flagmod", "require Flagmod unqualified",
                "require Flagmod import [checkerlang_secure_mode]", "def class checkerlang_secure_mode do def a = 1 end",
                "def g(x) x; g(checkerlang_secure_mode = FALSE)", "do error 1 catch all do def checkerlang_secure_mode = FALSE end end",
                "while checkerlang_secure_mode do checkerlang_secure_mode = FALSE end", "NULL",
                "def add(a, b) FALSE; checkerlang_secure_mode += 1", "def sub(a, b) FALSE; checkerlang_secure_mode -= 1",
                "def mul(a, b) FALSE; checkerlang_secure_mode *= 1", "def div(a, b) FALSE; checkerlang_secure_mode /= 1",
                "def mod(a, b) FALSE; checkerlang_secure_mode %= 1", "def add = fn(a, b) FALSE; def f() do checkerlang_secure_mode += 1 end; f()",
                "def not_equals(a, b) FALSE; def equals(a, b) FALSE; checkerlang_secure_mode += FALSE",
                "def o = <*checkerlang_secure_mode = TRUE*>; o->checkerlang_secure_mode = FALSE; o['checkerlang_secure_mode'] = FALSE",
                "def x1 = 1; [x1, checkerlang_secure_mode] = [2, FALSE]", "def x1 = 1; [checkerlang_secure_mode, x1] = [FALSE, 2]",
                "def [x1, checkerlang_secure_mode] = [2, FALSE]", "def [checkerlang_secure_mode, x1] = [FALSE, 2]",
                "def x1 = 1; def x2 = 2; [x1, checkerlang_secure_mode, x2] = [2, FALSE, 3]",
                "for [x1, checkerlang_secure_mode] in [[1, FALSE]] do bind_native('file_exists') end",
                "[bind_native('file_exists') for [x1, checkerlang_secure_mode] in [[1, FALSE]]]",
                "(fn(x1, checkerlang_secure_mode = FALSE) bind_native('file_exists'))(1)", "(fn(checkerlang_secure_mode...) bind_native('file_exists'))()",
                "def g2(a, b) bind_native('file_exists'); g2(...<<<'a' => 1, 'checkerlang_secure_mode' => FALSE>>>)",
                "def o = <*checkerlang_secure_mode = FALSE, go = fn(self) bind_native('file_exists')*>; o->go()",
                "require Flagmod as checkerlang_secure_mode", "require Flagmod import [probe as checkerlang_secure_mode]",
                "checkerlang_secure_mode -= 1", "checkerlang_secure_mode *= 0",
                # a program-chosen module path: requiring a module that is not there may read nothing and list nothing
                f"def checkerlang_module_path = ['{canary_dir}']; require Nosuchmodule", f"def checkerlang_module_path = ['{canary_dir}']; do require Nosuchmodule catch all 1 end",
                f"def checkerlang_module_path = ['{canary_dir}', '{tmp}', '/', '.']; do require secret catch all 1 end; do require Nosuch2 unqualified catch all 1 end",
                f"def f() do def checkerlang_module_path = ['{canary_dir}']; require Nosuch3 end; do f() catch all 1 end",
            ]
            for fp in flag_progs:
                it4 = fresh(legacy)
                ctx.nontrivial.add(hash((legacy, "flag", fp)))
                attempt(it4, fp, "flag manipulation", {"op": "flag", "legacy": legacy})
                for probe in ("bind_native('file_exists'); file_exists('" + canary + "')", "bind_native('execute', 'ex'); ex('echo hi')",
                              "bind_native('file_input'); file_input('" + canary + "')", "run('" + script + "')",
                              "ex2('echo hi')", "file_exists('" + canary + "')"):
                    attempt(it4, probe, f"after `{fp}`", {"op": "flag-probe", "flag_program": fp, "legacy": legacy})
                flag = it4.base_environment.map.get("checkerlang_secure_mode")
                if flag is None or getattr(flag, "value", None) is not True:
                    ctx.violation("oracle", f"`{fp}` changed the base frame's secure-mode flag to {flag}", {"op": "flag", "src": fp, "legacy": legacy})
                for v in walk_values(it4):
                    if isinstance(v, tuple):
                        ctx.violation("oracle", f"after `{fp}` a built-in holding the interpreter ({v[1]}) is reachable", {"op": "reach", "src": fp, "legacy": legacy})
                    elif getattr(v, "secure", True) is False:
                        ctx.violation("oracle", f"after `{fp}` the effectful built-in `{v.name}` is reachable in a secure interpreter",
                                      {"op": "reach", "src": fp, "name": v.name, "legacy": legacy})
            # (4b) the same through a CALLER-SUPPLIED environment (interpret(src, name, environment)): the program defines the flag there and
            # leaves closures behind that bind and call file / process built-ins; they are called after that environment has been detached
            # again, from the session and from a second caller-supplied environment
            from ckl.functions import get_none_environment
            leave = ("def bn = bind_native; def keep_ = keep; "
                     "append(keep_, fn(p) do bn('file_exists'); file_exists(p) end); append(keep_, fn(p) do bn('execute', 'ex'); ex('echo hi') end); "
                     "append(keep_, fn(p) do bn('file_input'); file_input(p) end); append(keep_, fn(p) do bn('list_dir', 'ld'); ld(p) end); "
                     "append(keep_, fn(p) do bind_native('file_exists'); file_exists(p) end); append(keep_, fn(p) do require OS; OS->file_exists(p) end)")
            for fp in ["NULL", "def checkerlang_secure_mode = FALSE", "def [checkerlang_secure_mode] = [FALSE]", "def checkerlang_secure_mode = NULL",
                       "def f_(checkerlang_secure_mode) do LEAVE end; f_(FALSE)", "for checkerlang_secure_mode in [FALSE] do LEAVE end"]:
                it5 = fresh(legacy)
                it5.interpret("def keep = []", "c09")
                e1 = get_none_environment()
                prog = fp.replace("LEAVE", leave) if "LEAVE" in fp else fp + "; " + leave
                ctx.nontrivial.add(hash((legacy, "detached", fp)))
                attempt(it5, prog, "caller-supplied environment", {"op": "flag", "legacy": legacy}, env=e1)
                for k in range(6):
                    attempt(it5, f"keep[{k}]('{canary}')", f"closure left behind by `{fp}` in a caller-supplied environment, called from the session",
                            {"op": "flag-probe", "flag_program": prog, "legacy": legacy})
                    attempt(it5, f"keep[{k}]('{canary}')", f"closure left behind by `{fp}` in a caller-supplied environment, called from a second one",
                            {"op": "flag-probe", "flag_program": prog, "legacy": legacy}, env=get_none_environment())
                    attempt(it5, f"keep[{k}]('{canary}')", f"closure left behind by `{fp}` in a caller-supplied environment, called from the same one again",
                            {"op": "flag-probe", "flag_program": prog, "legacy": legacy}, env=e1)
            # (5) reachability in the interpreter used for the module sweep
            for v in walk_values(it3):
                if not isinstance(v, tuple) and getattr(v, "secure", True) is False:
                    ctx.violation("oracle", f"effectful built-in `{v.name}` reachable after requiring all bundled modules", {"op": "reach", "name": v.name, "legacy": legacy})
        # the canary is untouched and nothing was created next to it
        try:
            intact = open(canary).read() == "top secret" and sorted(os.listdir(canary_dir)) == ["script.ckl", "secret.txt"]
        except OSError:
            intact = False
        if not intact:
            ctx.violation("oracle", f"the canary directory changed: {sorted(os.listdir(canary_dir)) if os.path.isdir(canary_dir) else 'removed'}", {"op": "canary"})
    finally:
        os.chdir(old_cwd)
        if old_home is None:
            os.environ.pop("HOME", None)
        else:
            os.environ["HOME"] = old_home
        shutil.rmtree(tmp, ignore_errors=True)
    ctx.count("native_names", len(names))
    ctx.count("effectful_natives", len(effectful))
    ctx.sample({"program": "bind_native('file_delete', 'alias_file_delete')", "expected": "neither name defined, no file-system event"})
    ctx.sample({"program": "for checkerlang_secure_mode in [FALSE] do bind_native('file_exists') end", "expected": "flag unchanged, file_exists undefined"})
    ctx.sample({"effectful": sorted(effectful)})
    common.replay_known(ctx)


def replay(ctx, payload):
    return common.generic_replay(ctx, payload)
