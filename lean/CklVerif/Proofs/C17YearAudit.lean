/-
  Axiom audit for C17 (year boundaries, leap day, 400-year cycle).
-/
import CklVerif.Proofs.C17Year

open Ckl.C17

#print axioms monthDays_december
#print axioms monthDays_january
#print axioms validDate_jan1
#print axioms validDate_dec31
#print axioms nextDay_dec31
#print axioms toOaDay_year_boundary
#print axioms toDate_after_dec31
#print axioms toDate_before_jan1
#print axioms toOaDay_jan1_succ
#print axioms toOaDay_dec31
#print axioms jan1_gap_leap
#print axioms jan1_gap_common
#print axioms addDays_dec31_one
#print axioms addDays_jan1_neg_one
#print axioms addDays_jan1_year
#print axioms monthDays_february
#print axioms validDate_feb29_iff
#print axioms nextDay_feb28
#print axioms century_leap_iff
#print axioms isLeapYear_period
#print axioms yearDays_period
#print axioms daysBeforeYear_period
#print axioms toOaDay_period
#print axioms toDate_period
