/-
  C14 (redundant parentheses) — extension lemmas, part A: the operator tower
  (`pOr … pPred`, their loops, and the `is …` predicates).
-/
import CklVerif.Lemmas.C14ParensHyp
namespace Ckl.C14X
open Ckl Ckl.Parser

local notation "kw" => (some TokType.keyword)
local notation "ip" => (some TokType.interpunction)
local notation "op" => (some TokType.operator)
local notation "idt" => (some TokType.identifier)

set_option linter.unusedSimpArgs false
set_option linter.unusedVariables false

variable {x : Ext}

theorem ne_of_lt {s s2 : St} (h : s2.toks.length < s.toks.length) : s.toks ≠ [] := by
  intro h0; rw [h0] at h; simp at h

theorem sim_pOr {c c' : Ctx} {st st' : St} (H : Hyp x (st.toks.length * 16 + 9)) (hc : CRel c c')
    (hs : SRel x st st') : ERel (OLt x) (pOr c st) (pOr c' st') := by
  rw [pOr, pOr]
  ebind (H.pAnd hc hs (by omega)) with e s1 h1 s1' h1' hs1
  simp only [peekn1_tab hs1 (v := c!"or") (ty := kw) (by tab)]
  bif hb : s1.peekn 1 c!"or" kw
  · rw [posNext_rel hs1 (ne_of_peekn hb)]
    ebind (H.orLoop hc hs1 (by omega)) with es s2 h2 s2' h2' hs2
    exact ⟨rfl, hs2⟩
  · exact ⟨rfl, hs1⟩

theorem sim_orLoop {c c' : Ctx} {st st' : St} {acc : List Node} (H : Hyp x (st.toks.length * 16 + 0))
    (hc : CRel c c') (hs : SRel x st st') :
    ERel (OLe x) (orLoop c st acc) (orLoop c' st' acc) := by
  rw [orLoop, orLoop]
  mif hs c!"or" kw with s1 h1 s1' h1' hs1
  · exact ⟨rfl, hs⟩
  · ebind (H.pAnd hc hs1 (by omega)) with e s2 h2 s2' h2' hs2
    ebind (H.orLoop hc hs2 (by omega)) with r s3 h3 s3' h3' hs3
    exact ⟨rfl, hs3⟩

theorem sim_pAnd {c c' : Ctx} {st st' : St} (H : Hyp x (st.toks.length * 16 + 8)) (hc : CRel c c')
    (hs : SRel x st st') : ERel (OLt x) (pAnd c st) (pAnd c' st') := by
  rw [pAnd, pAnd]
  ebind (H.pNot hc hs (by omega)) with e s1 h1 s1' h1' hs1
  simp only [peekn1_tab hs1 (v := c!"and") (ty := kw) (by tab)]
  bif hb : s1.peekn 1 c!"and" kw
  · rw [posNext_rel hs1 (ne_of_peekn hb)]
    ebind (H.andLoop hc hs1 (by omega)) with es s2 h2 s2' h2' hs2
    exact ⟨rfl, hs2⟩
  · exact ⟨rfl, hs1⟩

theorem sim_andLoop {c c' : Ctx} {st st' : St} {acc : List Node} (H : Hyp x (st.toks.length * 16 + 0))
    (hc : CRel c c') (hs : SRel x st st') :
    ERel (OLe x) (andLoop c st acc) (andLoop c' st' acc) := by
  rw [andLoop, andLoop]
  mif hs c!"and" kw with s1 h1 s1' h1' hs1
  · exact ⟨rfl, hs⟩
  · ebind (H.pNot hc hs1 (by omega)) with e s2 h2 s2' h2' hs2
    ebind (H.andLoop hc hs2 (by omega)) with r s3 h3 s3' h3' hs3
    exact ⟨rfl, hs3⟩

theorem sim_pNot {c c' : Ctx} {st st' : St} (H : Hyp x (st.toks.length * 16 + 7)) (hc : CRel c c')
    (hs : SRel x st st') : ERel (OLt x) (pNot c st) (pNot c' st') := by
  rw [pNot, pNot]
  mif hs c!"not" kw with s1 h1 s1' h1' hs1
  · exact H.pRel hc hs (by omega)
  · ebind (H.pRel hc hs1 (by omega)) with e s2 h2 s2' h2' hs2
    exact ⟨by rw [hs1.prev], hs2⟩

theorem sim_pRel {c c' : Ctx} {st st' : St} (H : Hyp x (st.toks.length * 16 + 6)) (hc : CRel c c')
    (hs : SRel x st st') : ERel (OLt x) (pRel c st) (pRel c' st') := by
  rw [pRel, pRel]
  ebind (H.pAdd hc hs (by omega)) with e s1 h1 s1' h1' hs1
  simp only [relGuard_rel hs1]
  bif hb : (!relGuard s1)
  · exact ⟨rfl, hs1⟩
  · rw [posNext_rel hs1 (ne_of_relGuard (by simpa using hb))]
    ebind (H.relLoop hc hs1 (by omega)) with cmps s2 h2 s2' h2' hs2
    exact ⟨rfl, hs2⟩

theorem sim_relLoop {c c' : Ctx} {st st' : St} {lhs : Node} {acc : List Node}
    (H : Hyp x (st.toks.length * 16 + 0)) (hc : CRel c c') (hs : SRel x st st') :
    ERel (OLe x) (relLoop c st lhs acc) (relLoop c' st' lhs acc) := by
  rw [relLoop, relLoop]
  refine ERel.bind (relopNext_rel hs) ?_
  rintro (_ | ⟨relop, s1, h1⟩) (_ | ⟨relop', s1', h1'⟩) hr
  · exact ⟨rfl, hs⟩
  · exact hr.elim
  · exact hr.elim
  · obtain ⟨rfl, hs1⟩ := hr
    dsimp only at hs1 ⊢
    ebind (H.pAdd hc hs1 (by omega)) with rhs s2 h2 s2' h2' hs2
    rw [hs1.prev]
    ebind (H.relLoop hc hs2 (by omega)) with r s3 h3 s3' h3' hs3
    exact ⟨rfl, hs3⟩

theorem sim_pAdd {c c' : Ctx} {st st' : St} (H : Hyp x (st.toks.length * 16 + 5)) (hc : CRel c c')
    (hs : SRel x st st') : ERel (OLt x) (pAdd c st) (pAdd c' st') := by
  rw [pAdd, pAdd]
  ebind (H.pMul hc hs (by omega)) with e s1 h1 s1' h1' hs1
  ebind (H.addLoop hc hs1 (by omega)) with r s2 h2 s2' h2' hs2
  exact ⟨rfl, hs2⟩

theorem sim_addLoop {c c' : Ctx} {st st' : St} {e : Node} (H : Hyp x (st.toks.length * 16 + 0))
    (hc : CRel c c') (hs : SRel x st st') :
    ERel (OLe x) (addLoop c st e) (addLoop c' st' e) := by
  rw [addLoop, addLoop]
  mtab (matchOpTable_cases hs addOps addOps_tab) with fn s1 h1 s1' h1' hs1
  · exact ⟨rfl, hs⟩
  · ebind (H.pMul hc hs1 (by omega)) with r s2 h2 s2' h2' hs2
    rw [hs1.prev]
    ebind (H.addLoop hc hs2 (by omega)) with y s3 h3 s3' h3' hs3
    exact ⟨rfl, hs3⟩

theorem sim_pMul {c c' : Ctx} {st st' : St} (H : Hyp x (st.toks.length * 16 + 4)) (hc : CRel c c')
    (hs : SRel x st st') : ERel (OLt x) (pMul c st) (pMul c' st') := by
  rw [pMul, pMul]
  ebind (H.pUnary hc hs (by omega)) with e s1 h1 s1' h1' hs1
  ebind (H.mulLoop hc hs1 (by omega)) with r s2 h2 s2' h2' hs2
  exact ⟨rfl, hs2⟩

theorem sim_mulLoop {c c' : Ctx} {st st' : St} {e : Node} (H : Hyp x (st.toks.length * 16 + 0))
    (hc : CRel c c') (hs : SRel x st st') :
    ERel (OLe x) (mulLoop c st e) (mulLoop c' st' e) := by
  rw [mulLoop, mulLoop]
  mtab (matchOpTable_cases hs mulOps mulOps_tab) with fn s1 h1 s1' h1' hs1
  · exact ⟨rfl, hs⟩
  · ebind (H.pUnary hc hs1 (by omega)) with r s2 h2 s2' h2' hs2
    rw [hs1.prev]
    ebind (H.mulLoop hc hs2 (by omega)) with y s3 h3 s3' h3' hs3
    exact ⟨rfl, hs3⟩

theorem sim_pUnary {c c' : Ctx} {st st' : St} (H : Hyp x (st.toks.length * 16 + 3)) (hc : CRel c c')
    (hs : SRel x st st') : ERel (OLt x) (pUnary c st) (pUnary c' st') := by
  rw [pUnary, pUnary]
  mif hs c!"+" op with s1 h1 s1' h1' hs1
  · mif hs c!"-" op with s1 h1 s1' h1' hs1
    · exact H.pPred false hc hs (by omega)
    · refine ERel.bind (peek_rel hs1) ?_
      rintro t _ rfl
      bif hb : (t.type == .int || t.type == .decimal)
      · ebind (H.pPred true hc hs1 (by omega)) with e s2 h2 s2' h2' hs2
        exact ⟨rfl, hs2⟩
      · ebind (H.pPred false hc hs1 (by omega)) with e s2 h2 s2' h2' hs2
        exact ⟨by rw [hs1.prev], hs2⟩
  · exact ERel_wkLt (H.pPred false hc hs1 (by omega))

theorem sim_optPrimary {c c' : Ctx} {st st' : St} {d : Node} (word : List Char)
    (hw : (word, idt) ∈ contTable)
    (H : Hyp x (st.toks.length * 16 + 12)) (hc : CRel c c') (hs : SRel x st st') :
    ERel (OLe x) (optPrimary c word d st) (optPrimary c' word d st') := by
  rw [optPrimary, optPrimary]
  rcases matchIf_tab hs hw with ⟨e1, e2⟩ | ⟨⟨s1, h1⟩, ⟨s1', h1'⟩, e1, e2, hs1⟩ <;> rw [e1, e2]
  · exact ⟨rfl, hs⟩
  · exact ERel_ltLe (H.pPrimary false hc hs1 (by omega))

theorem sim_pCollectMinMax {c c' : Ctx} {st st' : St} {e : Node} (fn : String) (pos : Pos)
    (H : Hyp x (st.toks.length * 16 + 13)) (hc : CRel c c') (hs : SRel x st st') :
    ERel (OLe x) (pCollectMinMax c fn e pos st) (pCollectMinMax c' fn e pos st') := by
  rw [pCollectMinMax, pCollectMinMax]
  ebind (H.optPrimary _ (by tab) hc hs (by omega)) with mn s1 h1 s1' h1' hs1
  ebind (H.optPrimary _ (by tab) hc hs1 (by omega)) with mx s2 h2 s2' h2' hs2
  mif hs2 c!"exact_len" idt with s3 h3 s3' h3' hs3
  · exact ⟨rfl, hs2⟩
  · ebind (H.pPrimary false hc hs3 (by omega)) with y s4 h4 s4' h4' hs4
    exact ⟨rfl, hs4⟩

theorem sim_applyIsPred {c c' : Ctx} {st st' : St} {e : Node} (p : IsPred) (pos : Pos)
    (H : Hyp x (st.toks.length * 16 + 14)) (hc : CRel c c') (hs : SRel x st st') :
    ERel (OLe x) (applyIsPred c p e pos st) (applyIsPred c' p e pos st') := by
  rw [applyIsPred.eq_def c, applyIsPred.eq_def c']
  cases p with
  | isIn =>
    ebind (H.pPrimary false hc hs (by omega)) with r s1 h1 s1' h1' hs1
    exact ⟨rfl, hs1⟩
  | simple fn => exact ⟨rfl, hs⟩
  | minmax fn => exact H.pCollectMinMax fn pos hc hs (by omega)
  | valid fn fmt => exact ⟨rfl, hs⟩
  | type name => exact ⟨rfl, hs⟩

theorem sim_pPred {c c' : Ctx} {st st' : St} (um : Bool) (H : Hyp x (st.toks.length * 16 + 2)) (hc : CRel c c')
    (hs : SRel x st st') : ERel (OLt x) (pPred c um st) (pPred c' um st') := by
  rw [pPred, pPred]
  ebind (H.pPrimary um hc hs (by omega)) with e s1 h1 s1' h1' hs1
  mif hs1 c!"is" kw with s2 h2 s2' h2' hs2
  · mtab (binPredTable_cases hs1) with p s2 h2 s2' h2' hs2
    · exact ⟨rfl, hs1⟩
    · rw [posNext_rel hs1 (ne_of_lt h2)]
      cases p with
      | isIn neg =>
        ebind (H.pPrimary false hc hs2 (by omega)) with r s3 h3 s3' h3' hs3
        exact ⟨rfl, hs3⟩
      | call neg fn a b =>
        ebind (H.pPrimary false hc hs2 (by omega)) with r s3 h3 s3' h3' hs3
        exact ⟨rfl, hs3⟩
  · rw [posNext_rel hs1 (ne_of_lt h2)]
    mif hs2 c!"not" kw with s3 h3 s3' h3' hs3
    · mtab (isPredTable_cases hs2 false) with p s4 h4 s4' h4' hs4
      · exact ⟨rfl, hs1⟩
      · ebind (H.applyIsPred p _ hc hs4 (by omega)) with n s5 h5 s5' h5' hs5
        exact ⟨rfl, hs5⟩
    · mtab (isPredTable_cases hs3 true) with p s4 h4 s4' h4' hs4
      · exact ⟨rfl, hs1⟩
      · ebind (H.applyIsPred p _ hc hs4 (by omega)) with n s5 h5 s5' h5' hs5
        exact ⟨rfl, hs5⟩

end Ckl.C14X
