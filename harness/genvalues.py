"""Generators of abstract data values (see proto.py for the representation)."""
import struct

ALPHABET = ["a", "b", "A", " ", "'", '"', "\\", "\n", "\t", "\r", "#", "/", "{", "}", "!", "~", "é", "€", "\U0001F600", "0", "9", "|", ".", "*", "&", "<", ">"]

INTS = [0, 1, -1, 2, 3, 7, 10, -10, 42, 100, 2 ** 31, 2 ** 32, 2 ** 53 - 1, 2 ** 53, 2 ** 53 + 1, -(2 ** 53) - 1,
        2 ** 63 - 1, 2 ** 63, 2 ** 64 + 1, -(2 ** 63) - 1, 10 ** 20, 10 ** 30 + 7, -(10 ** 25)]

FLOATS = [0.0, 1.0, -1.0, 0.5, 1.5, 2.0, 2.5, 3.0, 0.1, 0.2, 0.30000000000000004, 1e-7, 1e-5, 1e15, 1e16, 1.5e16, 1e22,
          123456.789, -2.5e-10, float(2 ** 53), float(2 ** 53) + 2.0, 9007199254740994.0, 5e-324, 2.2250738585072014e-308,
          1.7976931348623157e308, 1e100, 3.141592653589793, 100.0, 42.0, 7.0, 10.0, -10.0, 1e300, 0.3333333333333333]

DATES = [(1900, 1, 1, 0, 0, 0, 0), (1970, 1, 1, 0, 0, 0, 0), (1999, 12, 31, 23, 59, 59, 0), (2000, 2, 29, 12, 0, 0, 0),
         (2020, 1, 1, 0, 0, 0, 0), (2020, 1, 1, 0, 0, 1, 0), (2020, 12, 31, 0, 0, 0, 0), (2021, 1, 1, 0, 0, 0, 0),
         (9999, 12, 31, 23, 59, 59, 0), (2020, 1, 2, 0, 0, 0, 0),
         # dates less than a second apart (reachable through date arithmetic with fractions of a day)
         (2020, 1, 1, 0, 0, 0, 5000), (2020, 1, 1, 0, 0, 0, 999000), (2020, 1, 1, 0, 0, 1, 1000)]

PATTERNS = ["", "a", "a+", "[a-z]*", "^x$", "a|b", "\\d+", ".", "ab"]


def rand_string(rng, maxlen=6):
    n = rng.randint(0, maxlen)
    return "".join(rng.choice(ALPHABET) for _ in range(n))


def rand_float(rng):
    r = rng.random()
    if r < 0.5:
        return rng.choice(FLOATS)
    if r < 0.7:
        # integer-valued float near an int of the pool
        return float(rng.choice([0, 1, 2, 3, 7, 10, 42, 100, -1, -10, 2 ** 31, 2 ** 53]))
    if r < 0.85:
        return round(rng.uniform(-1000, 1000), rng.randint(0, 6))
    # random bit pattern, finite
    while True:
        x = struct.unpack("<d", struct.pack("<Q", rng.getrandbits(64)))[0]
        if x == x and x not in (float("inf"), float("-inf")) and not (x == 0 and str(x).startswith("-")):
            return x


def rand_int(rng):
    r = rng.random()
    if r < 0.6:
        return rng.choice(INTS)
    if r < 0.8:
        return rng.randint(-20, 20)
    return rng.choice([1, -1]) * rng.getrandbits(rng.choice([8, 40, 64, 90]))


def rand_scalar(rng, kinds=None):
    kinds = kinds or ["null", "b", "i", "d", "s", "p", "dt"]
    k = rng.choice(kinds)
    if k == "null":
        return ('null',)
    if k == "b":
        return ('b', rng.random() < 0.5)
    if k == "i":
        return ('i', rand_int(rng))
    if k == "d":
        return ('d', rand_float(rng))
    if k == "s":
        return ('s', rand_string(rng))
    if k == "p":
        return ('p', rng.choice(PATTERNS))
    if k == "dt":
        return ('dt', rng.choice(DATES))
    raise ValueError(k)


def rand_value(rng, depth=3, kinds=None, mix_dates=False):
    """data value nested to `depth`.  Dates are never mixed with numbers inside one
    collection unless mix_dates (cross-kind comparison through rendered text is not
    transitive there; DESIGN.md section 7, F-C12a)."""
    if depth <= 0 or rng.random() < 0.45:
        return rand_scalar(rng, kinds)
    k = rng.choice(["l", "l", "S", "m"])
    n = rng.choice([0, 1, 1, 2, 2, 3, 4])
    sub_kinds = list(kinds) if kinds else ["null", "b", "i", "d", "s", "p", "dt"]
    if not mix_dates and rng.random() < 0.9:
        if rng.random() < 0.5:
            sub_kinds = [x for x in sub_kinds if x != "dt"] or sub_kinds
        else:
            sub_kinds = [x for x in sub_kinds if x not in ("i", "d")] or sub_kinds
    if k == "l":
        return ('l', tuple(rand_value(rng, depth - 1, sub_kinds, mix_dates) for _ in range(n)))
    if k == "S":
        return ('S', tuple(rand_value(rng, depth - 1, sub_kinds, mix_dates) for _ in range(n)))
    return ('m', tuple((rand_value(rng, depth - 1, sub_kinds, mix_dates), rand_value(rng, depth - 1, sub_kinds, mix_dates))
                       for _ in range(n)))


def has_date_number_mix(av):
    """True if some collection (transitively flattened per collection) mixes dates and numbers"""
    def kinds_in(av):
        t = av[0]
        if t in ('l', 'S'):
            out = set()
            for x in av[1]:
                out |= kinds_in(x)
            return out
        if t == 'm':
            out = set()
            for k, v in av[1]:
                out |= kinds_in(k) | kinds_in(v)
            return out
        return {t}
    ks = kinds_in(av)
    return 'dt' in ks and ('i' in ks or 'd' in ks)


def is_negzero(av):
    t = av[0]
    if t == 'd':
        return av[1] == 0 and str(av[1]).startswith('-')
    if t in ('l', 'S'):
        return any(is_negzero(x) for x in av[1])
    if t == 'm':
        return any(is_negzero(k) or is_negzero(v) for k, v in av[1])
    return False


def same_kind_pool(rng, n=40):
    """pools of values of one ordered kind (for C07)"""
    pools = {}
    pools["num"] = [('i', x) for x in INTS] + [('d', x) for x in FLOATS]
    pools["str"] = [('s', x) for x in ["", "a", "a b", "ab", "b", "A", "'", "a'", " ", "!", "~", "é", "a\n", "0", "'a", "&", "a&"]] + \
                   [('s', rand_string(rng)) for _ in range(n)]
    pools["bool"] = [('b', False), ('b', True)]
    pools["date"] = [('dt', d) for d in DATES]
    pools["pat"] = [('p', p) for p in PATTERNS]
    base = pools["num"][:12] + pools["str"][:8]
    lists = []
    for _ in range(n):
        kind = rng.choice(["num", "str", "bool", "date"])
        ln = rng.randint(0, 4)
        lists.append(('l', tuple(rng.choice(pools[kind]) for _ in range(ln))))
    pools["list"] = lists + [('l', ()), ('l', (('i', 1),)), ('l', (('d', 1.0),)), ('l', (('i', 1), ('i', 2))),
                             ('l', (('i', 1), ('d', 2.0))), ('l', (('i', 2),))]
    return pools
