"""C20 Reported source lines are the lines where the reported construct starts."""
from harness import core, proto, session, gensyntax
from harness.props import common

TOKEN_SAMPLES = [("x", "identifier"), ("abc_1", "identifier"), ("if", "keyword"), ("return", "keyword"), ("TRUE", "boolean"), ("FALSE", "boolean"),
                 ("12", "int"), ("0", "int"), ("0x1F", "int"), ("0b101", "int"), ("1_000", "int"), ("1.5", "decimal"), ("10.", "decimal"),
                 ("'str'", "string"), ('"dq"', "string"), ("'a\nb'", "string"), ('"a\nb"', "string"), ('"two\n\nlines more"', "string"), ("//pat//", "pattern"), ("//a\nb//", "pattern"),
                 ("+", "operator"), ("-", "operator"), ("*", "operator"), ("/", "operator"), ("%", "operator"), ("==", "operator"), ("<", "operator"),
                 ("<=", "operator"), (">", "operator"), ("!=", "operator"), ("<>", "operator"), ("=", "operator"), ("+=", "operator"), ("->", "operator"),
                 ("!>", "operator"), ("(", "interpunction"), (")", "interpunction"), ("[", "interpunction"), ("]", "interpunction"), (",", "interpunction"),
                 (";", "interpunction"), ("<<", "interpunction"), (">>", "interpunction"), ("<<<", "interpunction"), (">>>", "interpunction"),
                 ("=>", "interpunction"), ("<*", "interpunction"), ("*>", "interpunction"), ("...", "interpunction")]
FOLLOWERS = [" ", "\n", "\r\n", "\t", " # c\n", "#c\n", "(", ")", "[", ",", ";", "+", "-", "<", "=", "", "\n\n", " \n", "'", '"', "x", "1"]
PREFIXES = ["", "\n", "a\n", "# c\n\n", "1;\n\n  ", "'s\nt'\n", "\r\n", " ", "a b\nc\n"]


def quote(v, rng):
    """a string literal in either quote style (the text may span lines)"""
    q = rng.choice(["'", '"']) if "'" not in v and '"' not in v and "\\" not in v else "'"
    return q + v + q


def render_lines(tokens, rng):
    """render token texts with random multi-line layout; returns (text, start line of each token)"""
    out = ""
    lines = []
    for i, tok in enumerate(tokens):
        lines.append(1 + out.count("\n"))
        out += tok
        if i + 1 < len(tokens):
            out += rng.choice([" ", " ", "\n", "\n\n", " # c\n", "\r\n", "\t", "\n  ", " \n# x\n"])
    return out, lines


def run(ctx):
    from ckl.lexer import Lexer
    from ckl.parser import parse_script
    from ckl.errors import CklRuntimeError, CklSyntaxError
    rng = ctx.rng
    ctx.rule = ("all token kinds x every kind of following character (space, line break, CRLF, comment, bracket, operator, end of input) x "
                "preceding layouts; generated programs with one fault (undefined name, type error, explicit error, division by zero, syntax "
                "fault, fault inside a called function or a module) planted at a known token and re-rendered under random multi-line "
                "layouts, expected line computed by the generator; non-trivial = the token is followed by a line break or comment, or the "
                "fault is on a line >= 2")
    reqs, meta = [], []
    # ---------------- tokens: start line for every token kind and follower
    for pre in PREFIXES:
        for tv, tt in TOKEN_SAMPLES:
            for fol in FOLLOWERS:
                src = pre + tv + fol
                want_line = 1 + pre.count("\n")
                ctx.seen(("tok", src), nontrivial=("\n" in fol or "#" in fol or want_line >= 2))
                try:
                    with core.time_limit(2):
                        toks = Lexer(src, "the_file").scan().tokens
                except CklSyntaxError:
                    continue
                # locate the token that starts at offset len(pre): count the tokens of the prefix
                try:
                    npre = len(Lexer(pre, "p").scan().tokens) if pre.strip() else 0
                except CklSyntaxError:
                    continue
                if pre.endswith("'s\nt'\n") or True:
                    pass
                if len(toks) <= npre:
                    continue        # e.g. an unterminated string swallowed the rest
                t = toks[npre]
                if t.pos.line != want_line or t.pos.filename != "the_file":
                    ctx.violation("oracle", f"token {tv!r} after {pre!r} followed by {fol!r} is reported at {t.pos.filename}:{t.pos.line}, it starts on line {want_line}",
                                  {"op": "token-line", "src": src, "token": tv})
                reqs.append("(scan s:" + proto.enc_str(src) + ")")
                meta.append(("scan", src, [(x.type, x.value, x.pos.line) for x in toks]))
                # ... and the token does not disturb the line count of what follows it
                src2 = src + " \nend_marker"
                try:
                    with core.time_limit(2):
                        toks2 = Lexer(src2, "the_file").scan().tokens
                except CklSyntaxError:
                    continue
                if toks2 and toks2[-1].value == "end_marker" and toks2[-1].type == "identifier" and len(toks2) == len(toks) + 1:
                    want2 = 1 + src2.count("\n")
                    ctx.seen(("tok-after", src2), nontrivial=True)
                    if toks2[-1].pos.line != want2:
                        ctx.violation("oracle", f"the token after {tv!r} + {fol!r} (prefix {pre!r}) is on line {want2} but reported on line {toks2[-1].pos.line}",
                                      {"op": "token-line-after", "src": src2, "token": tv})
                    reqs.append("(scan s:" + proto.enc_str(src2) + ")")
                    meta.append(("scan", src2, [(x.type, x.value, x.pos.line) for x in toks2]))
    ctx.count("token_cases", len(reqs))
    # ---------------- planted faults
    fillers = ["def a1 = 1", "def b1 = [1, 2]", "3 + 2", "'text'", "def f1(x) x + 1", "if 1 == 1 then 'y' else 'n'", "for q1 in [1, 2] do q1 end",
               "def m1 = <<<'k' => 1>>>", "[z * 2 for z in [1, 2]]", "do 1; 2 end", "<<1, 2>>", "fn(x) x", "def h2 = 0x1F", "0b11 + 0x0a", "def s3 = 'line one\nline two'", "'doc\ncomment\n\nmore' def d3(x) x", "1_000 + 2.5", "def s2 = 'two' + \"x\"",
               # string literals that END in a line break, consist only of line breaks, or hold the other characters some hosts take for line
               # boundaries (form feed, vertical tab, NEL, FS / GS / RS, LS / PS): only LF counts as a line break
               "def s4 = 'ends with a break\n'", "def s5 = '\n\n'", "'doc ending in a break\n' def d4(x) x", "def s6 = 'form\x0cfeed and\x0bvt'",
               "def s7 = 'ls\u2028ps\u2029nel\x85fs\x1cgs\x1drs\x1e'", "def s8 = '\r\n'", "def s9 = 'cr only\r'"]
    faults = [
        (["undefined_name"], 0, 'rt'), (["1", "/", "0"], 1, 'rt'), (["error", "'boom'"], 0, 'rt'), (["not", "5"], 0, 'rt'),
        (["[", "1", "]", "[", "7", "]"], 3, 'rt'), (["zz", "=", "1"], 0, 'rt'), (["if", "3", "then", "1"], 0, 'rt'),
        (["while", "'s'", "do", "1", "end"], 0, 'rt'),
        (["def", "h1", "(", "x", ")", "x", ";", "h1", "(", "1", ",", "2", ",", "3", ")"], 8, 'rt'),
        (["TRUE", "and", "4"], 1, 'rt'), (["1", "+", "*", "2"], 2, 'syn'), (["def", "if", "=", "1"], 1, 'syn'), (["(", "1", "+", "2"], None, 'syn-eof'),
        (["def", "g1", "(", "x", ")", "x", "/", "0", ";", "g1", "(", "1", ")"], 6, 'rt'),
        (["for", "w1", "in", "5", "do", "1", "end"], 0, 'rt'), (["<*", "q", "=", "1", "*>", "->", "nope", "(", ")"], 5, 'rt'),
        (["require", "NoSuchModule"], 0, 'rt'), (["[", "k", "for", "k", "in", "3", "]"], 0, 'rt'),
        (["'abc'", "[", "9", "]"], 1, 'rt'),
        (["def", "b1", "(", ")", "do", "1", ";", "break", "end", ";", "b1", "(", ")"], 7, 'rt'),
        (["def", "c1", "(", ")", "do", "1", ";", "continue", ";", "end", ";", "c1", "(", ")"], 7, 'rt'),
        (["7", ")"], 1, 'syn-last'), (["7", "end"], 1, 'syn-last'), (["[", "1", "]", "]"], 3, 'syn-last'),
        (["do", "1", "end", "end"], 3, 'syn-last'), (["7", "8"], 1, 'syn-last'), (["x9", "=", "1", ">>"], 3, 'syn-last'), (["f1", "(", "2", ")", "'s'"], 4, 'syn-last'), (["1", "<", "2", "<", "'x'", "+", "NULL", "+", "zzz"], 8, 'rt'),
    ]
    nprog = 2500 if ctx.thorough else 500
    progs = []
    for _ in range(nprog):
        before = [rng.choice(fillers) for _ in range(rng.randint(0, 4))]
        after = [rng.choice(fillers) for _ in range(rng.randint(0, 2))]
        ftoks, anchor, kind = rng.choice(faults)
        tokens = []
        for st in before:
            toks = [v if t != "string" else quote(v, rng) for v, t in [(x.value, x.type) for x in Lexer(st, "x").scan().tokens]]
            tokens += toks + [";"]
        start = len(tokens)
        tokens += ftoks
        if kind not in ('syn-eof', 'syn-last'):
            for st in after:
                tokens += [";"] + [v if t != "string" else quote(v, rng) for v, t in [(x.value, x.type) for x in Lexer(st, "x").scan().tokens]]
        text, lines = render_lines(tokens, rng)
        want = lines[start + anchor] if anchor is not None else None
        call_line = lines[start + 10] if ftoks[:2] == ["def", "g1"] else None
        progs.append((text, want, kind, ftoks, call_line))
    impl = session.ImplSession()
    try:
        for text, want, kind, ftoks, call_want in progs:
            # the same text is interpreted twice by the same interpreter, under two file names: every report names the file it was given
            for fname in ("prog.ckl", "again_%d.ckl" % (len(text) % 7)):
                impl.it.environment.map.clear()
                ctx.seen(("fault", text), nontrivial=(want or 2) >= 2)
                try:
                    with core.time_limit(5):
                        impl.it.interpret(text, fname)
                    got = ('val',)
                except CklRuntimeError as e:
                    got = ('rt', e.pos.line if e.pos else None, e.pos.filename if e.pos else None, list(e.stacktrace))
                except CklSyntaxError as e:
                    got = ('syn', e.pos.line if e.pos else None, e.pos.filename if e.pos else None, [])
                except core.Timeout:
                    got = ('timeout',)
                except Exception as e:  # noqa
                    got = ('host', type(e).__name__)
                rp = {"op": "fault", "src": text, "fault": " ".join(ftoks), "expected_line": want}
                if kind == 'syn-eof':
                    if got[0] != 'syn':
                        ctx.violation("oracle", f"unterminated program not reported as a syntax error: {got[:2]}", rp)
                    continue
                kind = 'syn' if kind == 'syn-last' else kind
                if got[0] != kind:
                    ctx.violation("oracle", f"planted {kind} fault `{' '.join(ftoks)}` gives {got[:3]}: {text!r}", rp)
                elif got[1] != want or got[2] != fname:
                    ctx.violation("oracle", f"fault `{' '.join(ftoks)}` starts on line {want} of {fname} but is reported at {got[2]}:{got[1]}: {text!r}", rp)
                if call_want is not None and got[0] == 'rt':
                    # the call site g1(1) is in the stack trace with the file name and its own line
                    entries = [x.rsplit(" ", 1)[-1] for x in got[3] if x.startswith("g1(")]
                    if len(entries) != 1 or not entries[0].startswith(f"{fname}:{call_want}:"):
                        ctx.violation("oracle", f"stack-trace entry for the call on line {call_want} is {got[3]}: {text!r}", rp)
    finally:
        impl.close()
    # runtime error lines: model evaluator vs implementation
    if ctx.build.ok:
        sample = [p for p in progs if p[2] == 'rt'][: (400 if ctx.thorough else 120)]
        mreqs = [session.model_request([p[0]]) for p in sample]
        mresp = core.run_driver(mreqs)
        for (text, want, kind, ftoks, _), r in zip(sample, mresp):
            model, _ = session.parse_model_session(r)
            m = model[0][0]
            ctx.count("model_fault_programs")
            if m[0] == 'fail':
                ctx.count("model_abstains")
                continue
            if m[0] != 'rt' or m[2] != want:
                ctx.disagreements += 1
                ctx.violation("correspondence", f"model reports {m[:3]} for the fault on line {want}: {text!r}",
                              {"op": "fault", "src": text, "correspondence": "Ckl.eval error position vs Interpreter.interpret"})
    # ---------------- errors inside module code name the module and the line within the module
    mod_body = "def ok(x) x + 1;\n\ndef bad(x) do\n  def y = x;\n  y / 0\nend;\n\ndef bad2() error 'm'\n"
    # the module text as it is on disk: starting with code, with blank / white-space-only lines, with comment lines, with a doc string that
    # ends in a line break, with CRLF line ends — the line reported for an error inside the module is the line in the FILE
    variants = [("", 0), ("\n\n", 2), ("  \n\t\n \n", 3), ("# header\n# more\n", 2), ("\n# c\n\n", 3), ("'doc string\nover lines\n' def documented(x) x;\n", 3),
                ("\r\n\r\n", 2)]
    for k, (prefix, shift) in enumerate(variants):
        mod_src = prefix + mod_body
        mname = f"Modx{k}"
        impl = session.ImplSession({mname + ".ckl": mod_src})
        try:
            for call, want in [(f"require {mname}; {mname}->bad(1)", 5 + shift), (f"require {mname}; {mname}->bad2()", 8 + shift),
                               (f"require {mname} import [bad as b_]; def wrap() b_(2); wrap()", 5 + shift)]:
                try:
                    impl.it.interpret(call, "main.ckl")
                    got = ('val',)
                except CklRuntimeError as e:
                    got = (e.pos.filename if e.pos else None, e.pos.line if e.pos else None)
                ctx.seen(("module", call))
                ctx.count("module_fault_programs")
                if got != ("mod:" + mname, want):
                    ctx.violation("oracle", f"`{call}`: error inside module {mname} line {want} reported at {got} (the module file starts with {prefix!r})",
                                  {"op": "module-fault", "src": call, "module": mod_src})
        finally:
            impl.close()
    # ---------------- correspondence of the scanner positions
    if ctx.build.ok and reqs:
        resp = core.run_driver(reqs)
        for r, (_, src, impl_toks) in zip(resp, meta):
            x = proto.parse_sx(r)
            ctx.count("model_scans")
            if x[0] != "toks":
                model = None
            else:
                model = [(t[1], proto.dec_str(t[2][2:]), int(t[3])) for t in x[1:]]
            if model != impl_toks:
                ctx.disagreements += 1
                ctx.violation("correspondence", f"scan of {src!r}: model {model}, implementation {impl_toks}",
                              {"op": "scan", "src": src, "correspondence": "Ckl.Lexer.scan vs Lexer.scan"})
    ctx.sample({"source": "x\n", "token": "x", "line": 1})
    ctx.sample({"program": progs[0][0][:200], "fault": " ".join(progs[0][3]), "expected_line": progs[0][1]})
    common.replay_known(ctx)


def replay(ctx, payload):
    return common.generic_replay(ctx, payload)
